import Pokerface.Proofs.FlowMeasure
/-
  Every accepted operation strictly decreases the measure `mu` (C06 `terminates`).
-/
namespace Pokerface
open Game

theorem Round.left_nonneg (r : Round) : 0 ≤ r.left := by cases r <;> simp [Round.left]

theorem phase_closed {g : Game} (h : g.event = .roundClosed) : g.phase = 1 + g.round.left * (g.n + 2) := by
  unfold Game.phase; rw [h]
theorem phase_started {g : Game} (h : g.event = .roundStarted) :
    g.phase = 1 + g.round.left * (g.n + 2) + g.unacted := by
  unfold Game.phase; rw [h]
theorem phase_ready {g : Game} (h : g.event = .readyRequested) :
    g.phase = if g.round = .none then 4 * ((g.n : Int) + 2) + 4 else g.round.left * (g.n + 2) + g.n + 2 := by
  unfold Game.phase; rw [h]
theorem phase_blinds {g : Game} (h : g.event = .blindsRequested) : g.phase = 4 * ((g.n : Int) + 2) + 2 := by
  unfold Game.phase; rw [h]
theorem phase_ante {g : Game} (h : g.event = .anteRequested) : g.phase = 4 * ((g.n : Int) + 2) + 3 := by
  unfold Game.phase; rw [h]
theorem phase_gameClosed {g : Game} (h : g.event = .gameClosed) : g.phase = 0 := by
  unfold Game.phase; rw [h]

/-- bound of the phase after a chain that ends a street's preparation -/
def Round.readyRank (r : Round) (n : Int) : Int := r.left * (n + 2) + n + 2

theorem phase_roundClosed (g : Game) : g.roundClosed.phase = 1 + g.round.left * (g.n + 2) := by
  have q := quiet_roundClosed g
  rw [phase_closed (g := g.roundClosed) rfl, q.round, q.n]

theorem phase_requestReady (g : Game) (hr : g.round ≠ .none) :
    g.requestReady.phase = g.round.readyRank g.n := by
  have q := quiet_requestReady g
  rw [phase_ready (g := g.requestReady) rfl, q.round, q.n]
  simp [hr, Round.readyRank]

theorem phase_prepareRound (g : Game) (hr : g.round ≠ .none) : g.prepareRound.phase ≤ g.round.readyRank g.n := by
  unfold Game.prepareRound
  split
  · exact Int.le_of_eq (phase_requestReady g hr)
  · split
    · rw [phase_roundClosed]; unfold Round.readyRank; omega
    · exact Int.le_of_eq (phase_requestReady g hr)

theorem phase_requestBlinds (g : Game) (hr : g.round = .preflop) : g.requestBlinds.phase ≤ 4 * ((g.n : Int) + 2) + 2 := by
  unfold Game.requestBlinds
  split
  · have := phase_prepareRound (g.setEvent .blindsPaid) (by show g.round ≠ .none; rw [hr]; simp)
    have e : (g.setEvent .blindsPaid).round = .preflop := hr
    have en : (g.setEvent .blindsPaid).n = g.n := rfl
    rw [e, en] at this
    simp only [Round.readyRank, Round.left] at this
    omega
  · rw [phase_blinds (g := g.setEvent .blindsRequested) rfl]
    exact Int.le_refl _

/-- rank right after entering street `r` -/
def Round.enterRank (r : Round) (n : Int) : Int := if r = .preflop then 4 * (n + 2) + 2 else r.readyRank n

theorem phase_afterRoundInitialized (g : Game) (hr : g.round ≠ .none) :
    g.afterRoundInitialized.phase ≤ g.round.enterRank g.n := by
  unfold Game.afterRoundInitialized Round.enterRank
  split
  · rename_i h; exact phase_requestBlinds g h
  · exact phase_prepareRound g hr

theorem phase_enterRound (g : Game) (r : Round) (hr : r ≠ .none) : (g.enterRound r).phase ≤ r.enterRank g.n := by
  unfold Game.enterRound Game.initializeRound
  have hn : (((g.setRound r).dealStreet.updateCombinations).setEvent .roundInitialized).n = g.n :=
    (((mov_setRound g r).trans (mov_dealStreet _)).trans ((mov_updateCombinations _).trans (mov_setEvent _ _))).n
  have hrd : (((g.setRound r).dealStreet.updateCombinations).setEvent .roundInitialized).round = r := by
    show (g.setRound r).dealStreet.round = r
    rw [dealStreet_round]; rfl
  have := phase_afterRoundInitialized (((g.setRound r).dealStreet.updateCombinations).setEvent .roundInitialized)
    (by rw [hrd]; exact hr)
  rw [hrd, hn] at this
  exact this

theorem phase_requestPlayerAction (g : Game) (hs : Struct g) (he : g.event = .roundStarted) :
    g.requestPlayerAction.phase ≤ 1 + g.round.left * (g.n + 2) + g.unacted := by
  rcases requestPlayerAction_cases g hs with h | ⟨h, _⟩
  · rw [h, phase_roundClosed]; omega
  · rw [h]
    have q := quiet_setCurrentPlayer g g.nextIdx
    have hev : (g.setCurrentPlayer g.nextIdx).event = .roundStarted := he
    rw [phase_started hev, q.round, q.n, (acts_setCurrentPlayer g g.nextIdx).unacted]
    exact Int.le_refl _

theorem phase_openRound (g : Game) (hs : Struct g) : g.openRound.phase ≤ 1 + g.round.left * (g.n + 2) + g.n := by
  have := phase_requestPlayerAction (g.setEvent .roundStarted)
    (struct_same (g := g) (g' := g.setEvent .roundStarted) rfl rfl hs) rfl
  have hu : (g.setEvent .roundStarted).unacted ≤ g.n := unacted_le g
  have e1 : (g.setEvent .roundStarted).round = g.round := rfl
  have e2 : (g.setEvent .roundStarted).n = g.n := rfl
  rw [e1, e2] at this
  unfold Game.openRound
  omega

theorem phase_startRound' (g : Game) (hs : Struct g) : g.startRound'.phase ≤ 1 + g.round.left * (g.n + 2) + g.n := by
  unfold Game.startRound'
  have h1 := noChip_setCurrentPlayer_dealer g
  have q1 := quiet_setCurrentPlayer g g.dealerIdx
  split
  · split
    · rw [phase_roundClosed]; omega
    · have q2 := q1.trans (quiet_seekBB g.n (g.setCurrentPlayer g.dealerIdx))
      have := phase_openRound _ ((noChip_seekBB g.n _).struct (h1.struct hs))
      rw [q2.round, q2.n] at this
      exact this
  · have := phase_openRound _ (h1.struct hs)
    rw [q1.round, q1.n] at this
    exact this

theorem phase_startRound (g : Game) (hs : Struct g) : g.startRound.phase ≤ 1 + g.round.left * (g.n + 2) + g.n := by
  have q := quiet_resetAllAllowed g
  have := phase_startRound' _ ((noChip_resetAllAllowed g).struct hs)
  rw [q.round, q.n] at this
  exact this

theorem phase_gameCompleted (g : Game) : g.gameCompleted.phase = 0 := phase_gameClosed rfl

theorem phase_nextRound' (g : Game) (hr : g.round ≠ .none) : g.nextRound'.phase ≤ g.round.left * (g.n + 2) := by
  have hl := Round.left_nonneg g.round
  unfold Game.nextRound'
  split
  · rw [phase_gameCompleted]
    exact Int.mul_nonneg hl (by omega)
  · split
    · rename_i h
      have := phase_enterRound g .flop (by simp)
      rw [h]; simp [Round.enterRank, Round.readyRank, Round.left] at this ⊢; omega
    · rename_i h
      have := phase_enterRound g .turn (by simp)
      rw [h]; simp [Round.enterRank, Round.readyRank, Round.left] at this ⊢; omega
    · rename_i h
      have := phase_enterRound g .river (by simp)
      rw [h]; simp [Round.enterRank, Round.readyRank, Round.left] at this ⊢; omega
    · rw [phase_gameCompleted]
      exact Int.mul_nonneg hl (by omega)
    · rename_i h; exact absurd h hr

/-! ### the measure decreases -/

theorem mu_lt_of {g g' : Game} (hn : g'.n = g.n) (hs : g'.stackSum ≤ g.stackSum) (hp : g'.phase < g.phase) :
    g'.mu < g.mu := by
  unfold Game.mu
  rw [hn]
  have : (g.n : Int) * g'.stackSum ≤ (g.n : Int) * g.stackSum := Int.mul_le_mul_of_nonneg_left hs (by omega)
  omega

theorem mu_readyForAll (g : Game) (hi : Inv g) (hacc : g.readyForAll.2 = none) : g.readyForAll.1.mu < g.mu := by
  unfold Game.readyForAll at hacc ⊢
  split
  · rename_i he; simp [he] at hacc
  · rename_i he
    have he' : g.event = .readyRequested := by simpa using he
    have hs1 : Struct g.resetAllAllowed := (noChip_resetAllAllowed g).struct hi.struct
    have q1 := quiet_resetAllAllowed g
    have m1 := mov_resetAllAllowed g
    simp only
    unfold Game.readiness
    split
    · rename_i hr
      have hr' : g.round = .none := by rw [← q1.round]; exact hr
      have hph : g.phase = 4 * ((g.n : Int) + 2) + 4 := by rw [phase_ready he']; simp [hr']
      split
      · apply mu_lt_of (g := g) (g' := g.resetAllAllowed.setEvent .anteRequested) q1.n (Int.le_of_eq m1.stackSum)
        rw [hph, phase_ante (g := g.resetAllAllowed.setEvent .anteRequested) rfl]
        have : (g.resetAllAllowed.setEvent .anteRequested).n = g.n := q1.n
        rw [this]; omega
      · have m2 := m1.trans (mov_enterRound g.resetAllAllowed .preflop)
        apply mu_lt_of m2.n (Int.le_of_eq m2.stackSum)
        have := phase_enterRound g.resetAllAllowed .preflop (by simp)
        rw [q1.n] at this
        simp only [Round.enterRank, if_true] at this
        omega
    · rename_i hr
      have hr' : g.round ≠ .none := by rw [← q1.round]; exact hr
      have m2 := m1.trans (mov_startRound g.resetAllAllowed)
      apply mu_lt_of m2.n (Int.le_of_eq m2.stackSum)
      have := phase_startRound g.resetAllAllowed hs1
      rw [q1.n, q1.round] at this
      rw [phase_ready he']
      simp only [hr', if_false]
      omega

theorem stackSum_payAnteLoop : ∀ (is : List Nat) (g : Game), AnteInv g → (payAnteLoop is g).1.stackSum ≤ g.stackSum
  | [], g, _ => Int.le_refl _
  | i :: is, g, h => by
    have h1 := anteInv_loop [i] g h
    unfold Game.payAnteLoop at h1 ⊢
    split
    · exact Int.le_refl _
    · rename_i p hp
      rw [hp] at h1
      simp only at h1
      split
      · exact Int.le_refl _
      · rename_i hw
        simp only [hw, if_false] at h1
        have h2 : AnteInv (g.pay i g.opts.ante false) := h1
        exact Int.le_trans (stackSum_payAnteLoop is _ h2) (stackSum_pay_le g i _ false h.chips0.pinv h.opts.ante0)

theorem mu_payAnte (g : Game) (hi : Inv g) (hacc : g.payAnte.2 = none) : g.payAnte.1.mu < g.mu := by
  unfold Game.payAnte at hacc ⊢
  split
  · rename_i h; simp [h] at hacc
  · rename_i h0
    split
    · rename_i h; simp [h0, h] at hacc
    · rename_i he
      have he' : g.event = .anteRequested := by simpa using he
      have ha : AnteInv g := ⟨hi.opts, hi.struct, hi.chips0, by
        have := hi.post.allowed; simpa [he'] using this, he'⟩
      have hq := quiet_payAnteLoop g.seatsFromDealer g
      have hss := stackSum_payAnteLoop g.seatsFromDealer g ha
      simp only [h0, he, if_false] at hacc
      split
      · rename_i g' e heq
        rw [heq] at hacc; simp at hacc
      · rename_i g' heq
        have e : g' = (payAnteLoop g.seatsFromDealer g).1 := by rw [heq]
        simp only
        unfold Game.antePaid
        have m : Mov g' ((((g'.resetAllAllowed.setEvent .antePaid).updatePots).resetAllPlayerStatus).resetRoundStatus) :=
          (((mov_resetAllAllowed g').trans (mov_setEvent _ _)).trans (mov_updatePots _)).trans
            ((mov_resetAllPlayerStatus _).trans (mov_resetRoundStatus _))
        have m2 := m.trans (mov_enterRound _ .preflop)
        have hn : g'.n = g.n := by rw [e]; exact hq.n
        apply mu_lt_of (m2.n.trans hn)
        · rw [m2.stackSum, e]; exact hss
        · have := phase_enterRound ((((g'.resetAllAllowed.setEvent .antePaid).updatePots).resetAllPlayerStatus).resetRoundStatus)
            .preflop (by simp)
          rw [m.n, hn] at this
          simp only [Round.enterRank, if_true] at this
          rw [phase_ante he']
          omega

theorem stackSum_foldl_payBlind : ∀ (is : List Nat) (g : Game), BInv g → (is.foldl payBlind g).stackSum ≤ g.stackSum
  | [], g, _ => Int.le_refl _
  | i :: is, g, h => by
    refine Int.le_trans (stackSum_foldl_payBlind is _ (bInv_payBlind g i h)) ?_
    unfold Game.payBlind
    split
    · exact Int.le_refl _
    · rename_i p hp
      have hpi := h.chips.pinv p (List.mem_of_getElem? hp)
      have hb := blindOf_nonneg h.opts p
      apply stackSum_pay_le g i _ true h.chips.pinv
      have := hpi.stack0
      split <;> omega

theorem mu_payBlinds (g : Game) (hi : Inv g) (hf : Flow g) (hacc : g.payBlinds.2 = none) : g.payBlinds.1.mu < g.mu := by
  unfold Game.payBlinds at hacc ⊢
  split
  · rename_i he; simp [he] at hacc
  · rename_i he
    have he' : g.event = .blindsRequested := by simpa using he
    have hr := hf.blinds he'
    have hb : BInv g := ⟨hi.opts, hi.struct, hi.chips (by rw [he']; simp), by
      have := hi.post.allowed; simpa [he'] using this⟩
    have hss := stackSum_foldl_payBlind g.seatsFromDealer g hb
    have q := quiet_foldl_payBlind g.seatsFromDealer g
    simp only
    unfold Game.blindsPaid
    generalize g.seatsFromDealer.foldl payBlind g = g' at hss q ⊢
    have m : Mov g' (((g'.setPrev (if g'.opts.blindBB > 0 then g'.opts.blindBB else g'.opts.blindDealer)).resetAllAllowed).setEvent
        .blindsPaid) := ((mov_setPrev g' _).trans (mov_resetAllAllowed _)).trans (mov_setEvent _ _)
    have m2 := m.trans (mov_prepareRound _)
    apply mu_lt_of (m2.n.trans q.n)
    · rw [m2.stackSum]; exact hss
    · have hrd : (((g'.setPrev (if g'.opts.blindBB > 0 then g'.opts.blindBB else g'.opts.blindDealer)).resetAllAllowed).setEvent
          .blindsPaid).round = .preflop := by
        show g'.round = .preflop
        rw [q.round]; exact hr
      have := phase_prepareRound _ (by rw [hrd]; simp)
      rw [hrd, m.n, q.n] at this
      simp only [Round.readyRank, Round.left] at this
      rw [phase_blinds he']
      omega

theorem mu_next (g : Game) (hf : Flow g) (hacc : g.next.2 = none) : g.next.1.mu < g.mu := by
  unfold Game.next at hacc ⊢
  split
  · rename_i he; simp [he] at hacc
  · rename_i he
    have he' : g.event = .roundClosed := by simpa using he
    have hr := hf.round_ne (by rw [he']; simp) (by rw [he']; simp)
    simp only [hr, if_false]
    unfold Game.nextRound
    have q : Quiet g g.resetRoundStatus.resetAllPlayerStatus :=
      (quiet_resetRoundStatus g).trans (quiet_resetAllPlayerStatus _)
    have m : Mov g g.resetRoundStatus.resetAllPlayerStatus :=
      (mov_resetRoundStatus g).trans (mov_resetAllPlayerStatus _)
    have m2 := m.trans (mov_nextRound' _)
    apply mu_lt_of m2.n (Int.le_of_eq m2.stackSum)
    have := phase_nextRound' g.resetRoundStatus.resetAllPlayerStatus (by rw [q.round]; exact hr)
    rw [q.round, q.n] at this
    rw [phase_closed he']
    omega

/-- the potential of an open betting round -/
def Game.pot (g : Game) : Int := (g.n : Int) * g.stackSum + g.unacted

theorem setActed_getElem {g : Game} {i : Nat} {p : Player} (hp : g.players[i]? = some p) :
    (g.setActed i).players[i]? = some { p with acted := true } := by
  simp [Game.setActed, Game.modP, hp]

/-- an accepted action makes progress: its mid-action state has a smaller potential -/
theorem shape_prog {g : Game} (hi : Inv g) (hf : Flow g) (he : g.event = .roundStarted) {p : Player} {g1 : Game}
    (hp : g.players[g.cur]? = some p) (h : ActShape g g.cur p g1) : g1.pot + 1 ≤ g.pot := by
  have hm := hi.midAct he
  have hpa : p.acted = false := hf.acted he p hp
  have hmark : (g.setActed g.cur).pot + 1 = g.pot := by
    unfold Game.pot
    have h1 := unacted_mark g g.cur p (fun p => { p with acted := true }) hp hpa rfl
    have h2 : (g.setActed g.cur).stackSum = g.stackSum := (mov_setActed g g.cur).stackSum
    have h3 : (g.setActed g.cur).n = g.n := (quiet_setActed g g.cur).n
    rw [h2, h3]
    have : (g.setActed g.cur).unacted + 1 = g.unacted := h1
    omega
  cases h with
  | mark _ => exact Int.le_of_eq hmark
  | fold _ _ =>
    unfold Game.pot
    have h1 := unacted_mark g g.cur p foldMark hp hpa rfl
    have h2 : (g.modP g.cur foldMark).stackSum = g.stackSum := stackSum_modP g g.cur foldMark (fun _ => rfl)
    have h3 : (g.modP g.cur foldMark).n = g.n := (quiet_modP g g.cur foldMark).n
    rw [h2, h3]
    omega
  | pay a b c ha hb hc _ hs _ =>
    have hm2 := midAct_setPrev (midAct_setActed hm g.cur) a ha
    have hp2 : ((g.setActed g.cur).setPrev a).players[g.cur]? = some { p with acted := true } := setActed_getElem hp
    have := pay_prog ((g.setActed g.cur).setPrev a) hm2.chips g.cur _ c hp2 hs hc
    have e1 : ((((g.setActed g.cur).setPrev a).pay g.cur c true).setPrev b).pot
        = (((g.setActed g.cur).setPrev a).pay g.cur c true).pot := rfl
    have e2 : ((g.setActed g.cur).setPrev a).pot = (g.setActed g.cur).pot := rfl
    have e3 : (((g.setActed g.cur).setPrev a).pay g.cur c true).n = ((g.setActed g.cur).setPrev a).n :=
      (quiet_pay _ _ _ _).n
    rw [e1]
    unfold Game.pot at this e2 hmark ⊢
    rw [e3]
    omega

theorem mu_act (g : Game) (hi : Inv g) (hf : Flow g) (i : Nat) (a : Act) (x : Int) (hacc : (g.act i a x).2 = none) :
    (g.act i a x).1.mu < g.mu := by
  obtain ⟨p, g1, hp, he, hc, e, sh⟩ := act_shape2 g hi i a x hacc
  subst hc
  obtain ⟨hm, hq, _⟩ := shape_mid hi he sh
  have hprog := shape_prog hi hf he hp sh
  rw [e]
  unfold Game.resume
  rw [hm.ev]
  simp only
  have hph := phase_requestPlayerAction g1 hm.struct hm.ev
  have m := mov_requestPlayerAction g1
  unfold Game.mu
  rw [phase_started he, m.n, m.stackSum]
  rw [hq.round, hq.n] at hph
  unfold Game.pot at hprog
  rw [hq.n] at hprog ⊢
  omega

theorem mu_step (g : Game) (hi : Inv g) (hf : Flow g) (op : Op) (hacc : (g.step op).2 = none) :
    (g.step op).1.mu < g.mu := by
  unfold Game.step at hacc ⊢
  cases op with
  | ready => exact mu_readyForAll g hi hacc
  | payAnte => exact mu_payAnte g hi hacc
  | payBlinds => exact mu_payBlinds g hi hf hacc
  | next => exact mu_next g hf hacc
  | act seat a x =>
    cases seat with
    | none => exact mu_act g hi hf _ a x hacc
    | some i => exact mu_act g hi hf i a x hacc

theorem stackSum_nonneg {g : Game} (h : ∀ p ∈ g.players, PInv p) : 0 ≤ g.stackSum := by
  unfold Game.stackSum
  have : ∀ l : List Player, (∀ p ∈ l, PInv p) → 0 ≤ (l.map (·.stack)).sum := by
    intro l
    induction l with
    | nil => intro _; simp
    | cons a l ih =>
      intro hl
      have h1 := (hl a (by simp)).stack0
      have h2 := ih (fun p hp => hl p (by simp [hp]))
      simp only [List.map_cons, List.sum_cons]
      omega
  exact this _ h

theorem phase_nonneg (g : Game) : 0 ≤ g.phase := by
  have hl := Round.left_nonneg g.round
  have hm : 0 ≤ g.round.left * ((g.n : Int) + 2) := Int.mul_nonneg hl (by omega)
  unfold Game.phase
  split <;> omega

theorem mu_nonneg {g : Game} (hi : Inv g) : 0 ≤ g.mu := by
  unfold Game.mu
  have := Int.mul_nonneg (by omega : (0 : Int) ≤ (g.n : Int)) (stackSum_nonneg hi.chips0.pinv)
  have := phase_nonneg g
  omega

/-- number of accepted operations in a run -/
def Game.accepted (g : Game) : List Op → Nat
  | [] => 0
  | op :: ops => (if (g.step op).2 = none then 1 else 0) + Game.accepted (g.step op).1 ops

theorem refused_same (g : Game) (hf : Flow g) (op : Op) (h : (g.step op).2 ≠ none) : (g.step op).1 = g := by
  cases op with
  | ready => simp only [Game.step, Game.readyForAll] at h ⊢; split <;> simp_all
  | payBlinds => simp only [Game.step, Game.payBlinds] at h ⊢; split <;> simp_all
  | next => simp only [Game.step, Game.next] at h ⊢; (repeat' split) <;> simp_all
  | payAnte =>
    simp only [Game.step] at h ⊢
    by_cases he : g.event = .anteRequested
    · exact absurd (payAnte_ok g hf he) h
    · unfold Game.payAnte
      split
      · rfl
      · rfl
  | act seat a x =>
    have key : ∀ i, (g.act i a x).2 ≠ none → (g.act i a x).1 = g := by
      intro i
      unfold Game.act
      cases a <;> simp only
      all_goals (repeat' split) <;> simp_all
    cases seat with
    | none => exact key _ h
    | some i => exact key i h

/-- accepted operations are paid for by the measure -/
theorem accepted_le_mu : ∀ (ops : List Op) (g : Game), Inv g → Flow g →
    (g.accepted ops : Int) + (g.run ops).mu ≤ g.mu
  | [], g, _, _ => by simp [Game.accepted, Game.run]
  | op :: ops, g, hi, hf => by
    have ih := accepted_le_mu ops _ (inv_step g hi op) (flow_step g hi hf op)
    have hrun : g.run (op :: ops) = (g.step op).1.run ops := rfl
    rw [hrun]
    unfold Game.accepted
    by_cases hacc : (g.step op).2 = none
    · have := mu_step g hi hf op hacc
      simp only [hacc, if_true]
      omega
    · have := refused_same g hf op hacc
      simp only [hacc, if_false]
      rw [this] at ih ⊢
      omega

end Pokerface
