/-
  How the regulator's functions move the termination measure (C20).
-/
import Pokerface.Proofs.RegMeasure

namespace Pokerface
namespace Reg

theorem tot_congr (g g' : RTable → Nat) (ts : List RTable) (h : ∀ t ∈ ts, g t = g' t) : tot g ts = tot g' ts := by
  induction ts with
  | nil => rfl
  | cons t ts ih =>
    rw [tot_cons, tot_cons, h t (List.mem_cons_self ..), ih (fun t' ht' => h t' (List.mem_cons_of_mem _ ht'))]

theorem tot_zero (g : RTable → Nat) (ts : List RTable) (h : ∀ t ∈ ts, g t = 0) : tot g ts = 0 := by
  induction ts with
  | nil => rfl
  | cons t ts ih =>
    rw [tot_cons, h t (List.mem_cons_self ..), ih (fun t' ht' => h t' (List.mem_cons_of_mem _ ht'))]

theorem tot_map (g : RTable → Nat) (f : RTable → RTable) (ts : List RTable) : tot g (ts.map f) = tot (g ∘ f) ts := by
  simp [tot, List.map_map]

/-! ### firing `updateTableRequirements` when nobody is asked for anything -/

theorem vec_setReq (F C : Int) (hFC : F ≤ C) (ts : List RTable) (hall : ∀ t ∈ ts, t.required ≤ 0) :
    (vecOf F (setReq C ts)).m2 = (vecOf F ts).m2 ∧ (vecOf F (setReq C ts)).b = 0 ∧
    (vecOf F (setReq C ts)).a = 0 ∧ (vecOf F ts).b = 0 ∧ (vecOf F ts).a = (vecOf F ts).m2 := by
  simp only [vecOf, setReq, tot_map]
  refine ⟨?_, ?_, ?_, ?_, ?_⟩
  · apply tot_congr; intro t _; simp only [Function.comp, dF]; split <;> rfl
  · apply tot_zero; intro t ht
    have := hall t ht
    simp only [Function.comp, bF]
    split
    · simp only; split <;> omega
    · split <;> omega
  · apply tot_zero; intro t ht
    have := hall t ht
    simp only [Function.comp, aF]
    split
    · simp only; omega
    · omega
  · apply tot_zero; intro t ht
    have := hall t ht
    simp only [bF]; split <;> omega
  · apply tot_congr; intro t ht
    have := hall t ht
    simp only [aF, dF]; omega

theorem flr_le_ceilWl (r : Reg) (h : 0 ≤ r.requiredTables) : flr r ≤ r.ceilWl := by
  unfold flr ceilWl
  split
  · rename_i hpos
    exact Int.ediv_le_ediv hpos (by omega)
  · have : r.requiredTables = 0 := by omega
    rw [this]; simp

theorem fire_meas (r : Reg) (hwf : WF r) (hall : ∀ t ∈ r.tables, t.required ≤ 0) :
    MLe r.updateTableRequirements r := by
  rw [updateTableRequirements_eq]
  split
  · rename_i hreq
    have hR0 : 0 ≤ r.requiredTables := by omega
    obtain ⟨e1, e2, e3, e4, e5⟩ := vec_setReq (flr r) r.ceilWl (flr_le_ceilWl r hR0) r.tables hall
    have hT : r.tableCount = r.requiredTables := by rw [hwf.tc, hreq]
    by_cases z : zeroed r
    · -- still zeroed
      have z' : zeroed ({ r with tables := setReq r.ceilWl r.tables } : Reg) := by
        unfold zeroed at z ⊢
        exact ⟨by show (vecOf (flr r) (setReq r.ceilWl r.tables)).m2 = 0; rw [e1]; exact z.1, z.2⟩
      unfold MLe
      rw [mu1_pos z, mu1_pos z', muv_pos z, muv_pos z']
      exact Or.inr ⟨rfl, lexLe_refl _⟩
    · have hm2 : (vecOf (flr r) r.tables).m2 ≠ 0 := fun h => z ⟨h, hT⟩
      apply MLe_of_vec (r := r) (r' := { r with tables := setReq r.ceilWl r.tables }) rfl rfl rfl
      show lexLe (vecOf (flr r) (setReq r.ceilWl r.tables)) (vecOf (flr r) r.tables)
      unfold lexLe
      omega
  · exact MLe_refl r

/-! ### dispatch -/

theorem dispatchPlayer_meas {r r' : Reg} {cands rest : List Nat} (hwf : WF r) (hc : cands ≠ [])
    (h : r.dispatchPlayer cands = some (rest, r')) (hb : r'.badChoice = false) (F : Int) :
    lexLe (vecOf F r'.tables) (vecOf F r.tables) := by
  unfold dispatchPlayer at h
  split at h
  · cases h
  · split at h
    · cases h; simp at hb
    · split at h
      · cases h; simp at hb
      · rename_i t hft
        split at h
        · cases h; simp at hb
        · rename_i hreq
          obtain ⟨htm, hid⟩ := findTable_some hft
          simp only [Option.some.injEq, Prod.mk.injEq] at h
          obtain ⟨_, hr'⟩ := h
          subst hr'
          have hlen : 0 < cands.length := List.length_pos_iff.2 hc
          have hpl : ((cands.take t.required.toNat).length : Int) ≤ t.required := by
            rw [List.length_take]; omega
          have hpos : (1 : Int) ≤ ((cands.take t.required.toNat).length : Int) := by
            rw [List.length_take]; omega
          simp only [setTable_eq]
          exact lexLe_of_upd hwf.nodup htm rfl _ (cv_dispatch F t _ hpos hpl)

theorem dispatchLoop_meas (fuel : Nat) : ∀ {cands rest : List Nat} {r r' : Reg}, WF r →
    dispatchLoop fuel cands r = (rest, r') → r'.badChoice = false → ∀ F : Int,
    lexLe (vecOf F r'.tables) (vecOf F r.tables) := by
  induction fuel with
  | zero =>
    intro cands rest r r' _ h _ F
    simp only [dispatchLoop, Prod.mk.injEq] at h
    rw [← h.2]; exact lexLe_refl _
  | succ n ih =>
    intro cands rest r r' hwf h hb F
    rw [dispatchLoop] at h
    split at h
    · simp only [Prod.mk.injEq] at h
      rw [← h.2]; exact lexLe_refl _
    · rename_i hcond
      simp only [not_or] at hcond
      have hne : cands ≠ [] := by simpa using hcond.1
      split at h
      · simp only [Prod.mk.injEq] at h
        rw [← h.2]; exact lexLe_refl _
      · rename_i rest1 r1 hsome
        have hb1 : r1.badChoice = false := by
          cases hbb : r1.badChoice with
          | false => rfl
          | true =>
            rw [dispatchLoop_bad n rest1 r1 hbb] at h
            simp only [Prod.mk.injEq] at h
            rw [← h.2, hbb] at hb; cases hb
        obtain ⟨hwf1, _, _, _, _⟩ := dispatchPlayer_spec hwf hne hsome hb1
        exact lexLe_trans (ih hwf1 h hb F) (dispatchPlayer_meas hwf hne hsome hb1 F)

/-! ### allocation -/

theorem allocateLoop_same (fuel : Nat) : ∀ (wl reqT : Int) (r : Reg),
    (allocateLoop fuel wl reqT r).tableCount = r.tableCount → (allocateLoop fuel wl reqT r).tables = r.tables := by
  induction fuel with
  | zero => intro _ _ r _; rfl
  | succ n ih =>
    intro wl reqT r h
    rw [allocateLoop_succ] at h ⊢
    split
    · rename_i hcond
      rw [if_pos hcond] at h
      split
      · rfl
      · rename_i hne
        rw [if_neg hne] at h
        exfalso
        simp only at h
        have ht : (r.openTable (r.capWl wl) (r.pullCount wl).toNat).tableCount = r.tableCount + 1 := rfl
        split at h
        · omega
        · have := (allocateLoop_tc n
            (((r.openTable (r.capWl wl) (r.pullCount wl).toNat).queue.length : Int) /
              (reqT - (r.openTable (r.capWl wl) (r.pullCount wl).toNat).tableCount)) reqT
            (r.openTable (r.capWl wl) (r.pullCount wl).toNat)).2.1
          omega
    · rfl

theorem allocateTables_meas (r : Reg) (hm : 0 < r.max) : MLe r.allocateTables r := by
  obtain ⟨hs, h1, h2⟩ := allocateTables_tc r hm
  by_cases hsame : r.allocateTables.tableCount = r.tableCount
  · have ht : r.allocateTables.tables = r.tables := by
      rcases allocateTables_cases r with h | ⟨fuel, wl, reqT, h⟩
      · rw [h]
      · rw [h] at hsame ⊢; exact allocateLoop_same fuel wl reqT r hsame
    exact MLe_of_congr ht hsame hs.pc hs.max
  · apply MLt_le
    apply MLt_of_m1 hs.pc hs.max
    rcases h2 with h2 | h2
    · exact absurd h2 hsame
    · omega

/-! ### draining the queue -/


theorem dispatchLoop_MLe {fuel : Nat} {cands rest : List Nat} {r r' : Reg} (hwf : WF r)
    (h : dispatchLoop fuel cands r = (rest, r')) (hb : r'.badChoice = false) : MLe r' r := by
  have h1 := dispatchLoop_tc fuel cands r
  rw [h] at h1
  exact MLe_of_vec h1.2 h1.1.pc h1.1.max (dispatchLoop_meas fuel hwf h hb (flr r))

theorem drainWaitingQueue_meas (r : Reg) (hwf : WF r) (hb : r.drainWaitingQueue.badChoice = false) :
    MLe r.drainWaitingQueue r := by
  rw [drainWaitingQueue_eq] at hb ⊢
  split
  · exact allocateTables_meas r hwf.maxpos
  · rename_i hn1
    rw [if_neg hn1] at hb
    split
    · rename_i hpos
      rw [if_pos hpos] at hb
      generalize hp1 : dispatchLoop (r.queue.length + 1) r.queue r = p1 at hb ⊢
      obtain ⟨c1, r1⟩ := p1
      simp only at hb ⊢
      generalize hr2 : (if (!c1.isEmpty) = true then r1.updateTableRequirements else r1) = r2 at hb ⊢
      generalize hp3 : dispatchLoop (c1.length + 1) c1 r2 = p3 at hb ⊢
      obtain ⟨c2, r3⟩ := p3
      simp only at hb ⊢
      have hb3 : r3.badChoice = false := by
        split at hb
        · rw [allocateTables_badChoice] at hb; exact hb
        · exact hb
      have hb2 : r2.badChoice = false := by
        cases hbb : r2.badChoice with
        | false => rfl
        | true =>
          rw [dispatchLoop_bad _ c1 r2 hbb] at hp3
          simp only [Prod.mk.injEq] at hp3
          rw [← hp3.2, hbb] at hb3; cases hb3
      have hb1 : r1.badChoice = false := by
        rw [← hr2] at hb2
        split at hb2
        · rw [(updateTableRequirements_eq r1)] at hb2
          split at hb2 <;> exact hb2
        · exact hb2
      obtain ⟨hwf1, _, _, _, hfuel1⟩ := dispatchLoop_spec _ hwf hp1 hb1
      have m1 : MLe r1 r := dispatchLoop_MLe hwf hp1 hb1
      have hwf2 : WF r2 ∧ MLe r2 r1 := by
        rw [← hr2]
        split
        · rename_i hne
          have hc1 : c1 ≠ [] := by simpa using hne
          have hall : ∀ t ∈ r1.tables, t.required ≤ 0 := by
            rcases hfuel1 (by omega) with h | h
            · exact absurd h hc1
            · exact h
          exact ⟨(updateTableRequirements_spec r1 hwf1 c1).1, fire_meas r1 hwf1 hall⟩
        · exact ⟨hwf1, MLe_refl _⟩
      obtain ⟨hwf2, m2⟩ := hwf2
      obtain ⟨hwf3, _, _, _, _⟩ := dispatchLoop_spec _ hwf2 hp3 hb3
      have m3 : MLe r3 r2 := dispatchLoop_MLe hwf2 hp3 hb3
      have m4 : MLe ({ r3 with queue := c2 } : Reg) r3 := MLe_of_congr rfl rfl rfl rfl
      have m04 : MLe ({ r3 with queue := c2 } : Reg) r := MLe_trans m4 (MLe_trans m3 (MLe_trans m2 m1))
      split
      · exact MLe_trans (allocateTables_meas _ (hwf3.setQueue c2).maxpos) m04
      · exact m04
    · exact MLe_refl r

theorem releasePlayers_meas (r : Reg) (rel ch : List Nat) (hwf : WF r)
    (hb : (r.releasePlayers rel ch).badChoice = false) : MLe (r.releasePlayers rel ch) r := by
  unfold releasePlayers enterWaitingQueue at hb ⊢
  simp only at hb ⊢
  split
  · exact MLe_of_congr rfl rfl rfl rfl
  · rename_i hp
    rw [if_neg hp] at hb
    have hwf' : WF ({ r.beginOp ch with queue := (r.beginOp ch).queue ++ rel } : Reg) :=
      (hwf.beginOp ch).setQueue _
    exact MLe_trans (drainWaitingQueue_meas _ hwf' hb) (MLe_of_congr rfl rfl rfl rfl)

end Reg
end Pokerface
