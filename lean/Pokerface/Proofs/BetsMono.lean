import Pokerface.Proofs.BetsActs
/-
  The wager to match never goes down inside a betting round (C12 `cw_monotone`).
-/
namespace Pokerface
open Game

theorem resume_cw (g : Game) : g.resume.cw = g.cw := (noChip_resume g).cw

theorem doCall_cw_mono (g : Game) (i : Nat) : g.cw ≤ (g.doCall i).cw := by
  unfold Game.doCall
  split
  · exact Int.le_refl _
  · rw [resume_cw]; exact pay_cw_mono (g.setActed i) i _ true

theorem doAllin_cw_mono (g : Game) (i : Nat) : g.cw ≤ (g.doAllin i).cw := by
  unfold Game.doAllin
  split
  · exact Int.le_refl _
  · rw [resume_cw]
    refine Int.le_trans ?_ (pay_cw_mono _ i _ true)
    split <;> exact Int.le_refl _

theorem doBet_cw_mono (g : Game) (i : Nat) (x : Int) : g.cw ≤ (g.doBet i x).cw := by
  unfold Game.doBet
  rw [resume_cw]
  exact pay_cw_mono (g.setActed i) i x true

theorem doRaise_cw_mono (g : Game) (i : Nat) (p : Player) (x : Int) : g.cw ≤ (g.doRaise i p x).cw := by
  unfold Game.doRaise
  simp only
  rw [resume_cw]
  exact pay_cw_mono ((g.setActed i).setPrev _) i _ true

theorem act_cw_mono (g : Game) (i : Nat) (a : Act) (x : Int) : g.cw ≤ (g.act i a x).1.cw := by
  unfold Game.act
  cases a <;> simp only
  · split
    · exact Int.le_refl _
    · rw [resume_cw]; exact Int.le_refl _
  · split
    · exact Int.le_refl _
    · unfold Game.doFold; rw [resume_cw]; exact Int.le_refl _
  · split
    · exact Int.le_refl _
    · rw [resume_cw]; exact Int.le_refl _
  · split
    · exact Int.le_refl _
    · exact doCall_cw_mono g i
  · split
    · exact Int.le_refl _
    · exact doAllin_cw_mono g i
  · split
    · exact Int.le_refl _
    · split
      · exact Int.le_refl _
      · exact doBet_cw_mono g i x
  · split
    · exact Int.le_refl _
    · split
      · exact Int.le_refl _
      · split
        · split
          · exact Int.le_refl _
          · exact doCall_cw_mono g i
        · split
          · exact Int.le_refl _
          · split
            · split
              · exact Int.le_refl _
              · exact doAllin_cw_mono g i
            · exact doRaise_cw_mono g i _ x
  · split
    · exact Int.le_refl _
    · rw [resume_cw]; exact pay_cw_mono g i x true

theorem payBlind_cw_mono (g : Game) (i : Nat) : g.cw ≤ (g.payBlind i).cw := by
  unfold Game.payBlind
  split
  · exact Int.le_refl _
  · exact pay_cw_mono g i _ true

theorem foldl_payBlind_cw_mono : ∀ (is : List Nat) (g : Game), g.cw ≤ (is.foldl payBlind g).cw
  | [], _ => Int.le_refl _
  | i :: is, g => Int.le_trans (payBlind_cw_mono g i) (foldl_payBlind_cw_mono is _)

theorem blindsPaid_cw (g : Game) : g.blindsPaid.cw = g.cw := by
  unfold Game.blindsPaid
  exact (((noChip_resetAllAllowed (g.setPrev _)).trans (noChip_setEvent _ _)).trans (noChip_prepareRound _)).cw

theorem readyForAll_cw (g : Game) : g.readyForAll.1.cw = g.cw := by
  unfold Game.readyForAll
  split
  · rfl
  · exact ((noChip_resetAllAllowed g).trans (noChip_readiness _)).cw

theorem payBlinds_cw_mono (g : Game) : g.cw ≤ g.payBlinds.1.cw := by
  unfold Game.payBlinds
  split
  · exact Int.le_refl _
  · show g.cw ≤ (Game.blindsPaid _).cw
    rw [blindsPaid_cw]; exact foldl_payBlind_cw_mono _ g

/-! ### streets -/

theorem requestReady_round (g : Game) : g.requestReady.round = g.round := rfl
theorem roundClosed_round (g : Game) : g.roundClosed.round = g.round := rfl

theorem prepareRound_round (g : Game) : g.prepareRound.round = g.round := by
  unfold Game.prepareRound
  split
  · rfl
  · split <;> rfl

theorem requestBlinds_round (g : Game) : g.requestBlinds.round = g.round := by
  unfold Game.requestBlinds
  split
  · exact prepareRound_round _
  · rfl

theorem afterRoundInitialized_round (g : Game) : g.afterRoundInitialized.round = g.round := by
  unfold Game.afterRoundInitialized
  split
  · exact requestBlinds_round g
  · exact prepareRound_round g

theorem initializeRound_round (g : Game) : g.initializeRound.round = g.round := by
  unfold Game.initializeRound
  rw [afterRoundInitialized_round]
  exact dealStreet_round g

theorem enterRound_round (g : Game) (r : Round) : (g.enterRound r).round = r := by
  unfold Game.enterRound
  rw [initializeRound_round]; rfl

/-- `Next()` either changes nothing, or resets the wager to match to 0 while moving to the next
    street or closing the hand. -/
theorem next_cw (g : Game) :
    g.next.1 = g ∨ (g.next.1.cw = 0 ∧ (g.next.1.round ≠ g.round ∨ g.next.1.event = .gameClosed)) := by
  unfold Game.next
  split
  · exact Or.inl rfl
  · split
    · exact Or.inl rfl
    · rename_i hrn
      right
      unfold Game.nextRound
      refine ⟨(noChip_nextRound' _).cw, ?_⟩
      unfold Game.nextRound'
      have hr : g.resetRoundStatus.resetAllPlayerStatus.round = g.round := rfl
      split
      · exact Or.inr rfl
      · split
        · rename_i h; left; rw [enterRound_round, ← hr, h]; simp
        · rename_i h; left; rw [enterRound_round, ← hr, h]; simp
        · rename_i h; left; rw [enterRound_round, ← hr, h]; simp
        · exact Or.inr rfl
        · rename_i h; rw [hr] at h; exact absurd h hrn

theorem pay_false_cw (g : Game) (i : Nat) (c : Int) : (g.pay i c false).cw = g.cw := by
  unfold Game.pay
  split
  · rfl
  · split
    · unfold Game.payAllin; simp only [Bool.false_eq_true, if_false]; rfl
    · unfold Game.payPart; simp only [Bool.false_and, Bool.false_eq_true, if_false]; rfl

theorem payAnteLoop_cw : ∀ (is : List Nat) (g : Game), (payAnteLoop is g).1.cw = g.cw
  | [], g => rfl
  | i :: is, g => by
    unfold Game.payAnteLoop
    split
    · rfl
    · split
      · rfl
      · rw [payAnteLoop_cw is]; exact pay_false_cw g i _

theorem antePaid_round (g : Game) : g.antePaid.round = .preflop := by
  unfold Game.antePaid
  exact enterRound_round _ _

theorem antePaid_cw (g : Game) : g.antePaid.cw = 0 := by
  unfold Game.antePaid
  rw [(noChip_enterRound _ _).cw]; rfl

/-- `PayAnte()` either leaves the wager to match alone (refused, or stopped in the loop), or it opens
    the preflop round with the wager to match at 0. -/
theorem payAnte_cw (g : Game) :
    g.payAnte.1.cw = g.cw ∨ (g.payAnte.1.cw = 0 ∧ g.payAnte.1.round = .preflop) := by
  unfold Game.payAnte
  split
  · exact Or.inl rfl
  · split
    · exact Or.inl rfl
    · split
      · rename_i g' e heq
        left
        have : g' = (payAnteLoop g.seatsFromDealer g).1 := by rw [heq]
        show g'.cw = g.cw
        rw [this, payAnteLoop_cw]
      · right
        exact ⟨antePaid_cw _, antePaid_round _⟩

end Pokerface

/-! ### a player action moves the chips of the acting seat only -/
namespace Pokerface
open Game

/-- every seat other than `i` keeps its frame (positions and chips) -/
def OnlySeat (i : Nat) (g g' : Game) : Prop :=
  ∀ j, j ≠ i → (g'.players.map Player.frame)[j]? = (g.players.map Player.frame)[j]?

theorem OnlySeat.refl (i : Nat) (g : Game) : OnlySeat i g g := fun _ _ => rfl
theorem OnlySeat.trans {i : Nat} {a b c : Game} (h1 : OnlySeat i a b) (h2 : OnlySeat i b c) : OnlySeat i a c :=
  fun j hj => (h2 j hj).trans (h1 j hj)
theorem OnlySeat.of_noChip {i : Nat} {g g' : Game} (nc : NoChip g g') : OnlySeat i g g' :=
  fun j _ => by rw [nc.frame]
theorem OnlySeat.of_players {i : Nat} {g g' : Game} (h : g'.players = g.players) : OnlySeat i g g' :=
  fun j _ => by rw [h]

theorem onlySeat_pay (g : Game) (i : Nat) (c : Int) (w : Bool) : OnlySeat i g (g.pay i c w) := by
  intro j hj
  cases hp : g.players[i]? with
  | none =>
    have : g.pay i c w = g := by unfold Game.pay; rw [hp]
    rw [this]
  | some p =>
    rw [pay_frame hp c w]
    simp only [List.getElem?_map]
    rw [List.getElem?_modify_ne _ _ (fun h => hj h.symm)]

theorem onlySeat_resume (i : Nat) (g : Game) : OnlySeat i g g.resume := OnlySeat.of_noChip (noChip_resume g)
theorem onlySeat_setActed (i : Nat) (g : Game) : OnlySeat i g (g.setActed i) := OnlySeat.of_noChip (noChip_setActed g i)

theorem onlySeat_doCall (g : Game) (i : Nat) : OnlySeat i g (g.doCall i) := by
  unfold Game.doCall
  split
  · exact OnlySeat.refl i g
  · exact ((onlySeat_setActed i g).trans (onlySeat_pay _ i _ true)).trans (onlySeat_resume i _)

theorem onlySeat_doAllin (g : Game) (i : Nat) : OnlySeat i g (g.doAllin i) := by
  unfold Game.doAllin
  split
  · exact OnlySeat.refl i g
  · refine (OnlySeat.trans ?_ (onlySeat_pay _ i _ true)).trans (onlySeat_resume i _)
    split
    · exact (onlySeat_setActed i g).trans (OnlySeat.of_players rfl)
    · exact onlySeat_setActed i g

theorem onlySeat_doBet (g : Game) (i : Nat) (x : Int) : OnlySeat i g (g.doBet i x) := by
  unfold Game.doBet
  exact (((onlySeat_setActed i g).trans (onlySeat_pay _ i x true)).trans
    (OnlySeat.of_players (g' := ((g.setActed i).pay i x true).setPrev x) rfl)).trans (onlySeat_resume i _)

theorem onlySeat_doRaise (g : Game) (i : Nat) (p : Player) (x : Int) : OnlySeat i g (g.doRaise i p x) := by
  unfold Game.doRaise
  simp only
  generalize (if (g.opts.potLimit && decide (x - g.cw > g.cw + g.prev)) = true then g.cw + g.prev else x - g.cw) = r
  generalize (if (g.opts.potLimit && decide (x - g.cw > g.cw + g.prev)) = true then g.cw + g.prev + g.cw - p.wager
    else x - p.wager) = q
  have h1 : OnlySeat i g ((g.setActed i).setPrev r) := (onlySeat_setActed i g).trans (OnlySeat.of_players rfl)
  exact (h1.trans (onlySeat_pay _ i q true)).trans (onlySeat_resume i _)

theorem onlySeat_act (g : Game) (i : Nat) (a : Act) (x : Int) : OnlySeat i g (g.act i a x).1 := by
  unfold Game.act
  cases a <;> simp only
  · split
    · exact OnlySeat.refl i g
    · exact (onlySeat_setActed i g).trans (onlySeat_resume i _)
  · split
    · exact OnlySeat.refl i g
    · unfold Game.doFold
      exact (OnlySeat.of_noChip (noChip_modP g i (fun p => { p with fold := true, acted := true }) (fun _ => rfl))).trans
        (onlySeat_resume i _)
  · split
    · exact OnlySeat.refl i g
    · exact (onlySeat_setActed i g).trans (onlySeat_resume i _)
  · split
    · exact OnlySeat.refl i g
    · exact onlySeat_doCall g i
  · split
    · exact OnlySeat.refl i g
    · exact onlySeat_doAllin g i
  · split
    · exact OnlySeat.refl i g
    · split
      · exact OnlySeat.refl i g
      · exact onlySeat_doBet g i x
  · split
    · exact OnlySeat.refl i g
    · split
      · exact OnlySeat.refl i g
      · split
        · split
          · exact OnlySeat.refl i g
          · exact onlySeat_doCall g i
        · split
          · exact OnlySeat.refl i g
          · split
            · split
              · exact OnlySeat.refl i g
              · exact onlySeat_doAllin g i
            · exact onlySeat_doRaise g i _ x
  · split
    · exact OnlySeat.refl i g
    · exact (onlySeat_pay g i x true).trans (onlySeat_resume i _)

end Pokerface
