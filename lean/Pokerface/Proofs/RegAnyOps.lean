/-
  Operation-level specifications on the widest domain (Proofs/RegOps.lean redone for `WF0`):
  `AddPlayers`, `SetStatus` to ANY status, `ReleasePlayers` in ANY status.
-/
import Pokerface.Proofs.RegAnySync

namespace Pokerface
namespace Reg

/-- quiescent invariant of the regulator on the widest domain -/
structure RInv0 (r : Reg) : Prop where
  wf : WF0 r
  cnt : r.playerCount = r.queue.length + sumCount r.tables

theorem RInv.toRInv0 {r : Reg} (h : RInv r) : RInv0 r := ⟨h.wf.toWF0, h.cnt⟩

theorem RInv0.beginOp {r : Reg} (h : RInv0 r) (ch : List Nat) : RInv0 (r.beginOp ch) :=
  ⟨h.wf.beginOp ch, h.cnt⟩

/-- `AddPlayers` before the deadline -/
theorem addPlayers_spec0 (r : Reg) (ps ch : List Nat) (h : RInv0 r) (hs : r.status ≠ .afterRegDeadline)
    (hb : (r.addPlayers ps ch).1.badChoice = false) :
    (r.addPlayers ps ch).2 = none ∧ RInv0 (r.addPlayers ps ch).1 ∧ OpExt r (r.addPlayers ps ch).1 ps ∧
    (r.addPlayers ps ch).1.status = r.status ∧
    (r.addPlayers ps ch).1.playerCount = r.playerCount + ps.length := by
  unfold addPlayers at hb ⊢
  simp only at hb ⊢
  have hs' : ¬ (r.beginOp ch).status = .afterRegDeadline := hs
  rw [if_neg hs'] at hb ⊢
  simp only at hb ⊢
  generalize hr1 : ({ r.beginOp ch with playerCount := (r.beginOp ch).playerCount + ps.length } : Reg) = r1 at hb ⊢
  have hwf1 : WF0 r1 := by
    rw [← hr1]; exact ⟨h.wf.tc, h.wf.nodup, h.wf.idlt, h.wf.nn⟩
  obtain ⟨hwf2, hext2, hq2, _, _, _, _⟩ := updateTableRequirements_spec0 r1 hwf1 (r1.queue ++ ps)
  generalize hr2 : r1.updateTableRequirements = r2 at *
  obtain ⟨hwf3, hext3⟩ := enterWaitingQueue_spec0 r2 ps hwf2 hb
  have hst2 : r2.status = r.status := by rw [hext2.status_eq, ← hr1]; rfl
  have hpc2 : r2.playerCount = r.playerCount + ps.length := by rw [hext2.pc_eq, ← hr1]; rfl
  have hr1q : r1.queue = r.queue := by rw [← hr1]; rfl
  have hr1t : r1.tables = r.tables := by rw [← hr1]; rfl
  have hext : Ext r1 (r2.enterWaitingQueue ps) (r1.queue ++ ps) (r2.enterWaitingQueue ps).queue := by
    have := hext2.trans (hq2 ▸ hext3)
    exact this
  refine ⟨trivial, ⟨hwf3, ?_⟩, ?_, ?_, ?_⟩
  · have hc := hext.cnt0 hwf1
    rw [hext3.pc_eq, hpc2]
    rw [hr1q, hr1t, List.length_append] at hc
    have := h.cnt
    omega
  · exact OpExt.of_ext (by rw [← hr1]; rfl) (by rw [← hr1]; rfl) (by rw [← hr1]; rfl) hr1q hr1t
      (by rw [← hr1]; rfl) hext
  · rw [hext3.status_eq, hst2]
  · rw [hext3.pc_eq, hpc2]

/-- `SetStatus` to ANY status (also back to `Pending`) -/
theorem setStatus_spec0 (r : Reg) (st : RStatus) (ch : List Nat) (h : RInv0 r)
    (hb : (r.setStatus st ch).badChoice = false) :
    RInv0 (r.setStatus st ch) ∧ OpExt r (r.setStatus st ch) [] ∧ (r.setStatus st ch).status = st ∧
    (r.setStatus st ch).playerCount = r.playerCount := by
  unfold setStatus at hb ⊢
  simp only at hb ⊢
  split
  · rename_i hsame
    refine ⟨h.beginOp ch, ⟨rfl, rfl, by simp [Reg.beginOp], rfl, trivial, by simp [Reg.beginOp],
      by simp [Reg.beginOp]⟩, hsame, rfl⟩
  · rename_i hne
    rw [if_neg hne] at hb
    generalize hr1 : ({ r.beginOp ch with status := st } : Reg) = r1 at hb ⊢
    have hwf1 : WF0 r1 := by
      rw [← hr1]; exact ⟨h.wf.tc, h.wf.nodup, h.wf.idlt, h.wf.nn⟩
    have hr1q : r1.queue = r.queue := by rw [← hr1]; rfl
    have hr1t : r1.tables = r.tables := by rw [← hr1]; rfl
    have hr1s : r1.status = st := by rw [← hr1]
    have hr1p : r1.playerCount = r.playerCount := by rw [← hr1]; rfl
    split
    · rename_i hdrain
      rw [if_pos hdrain] at hb
      obtain ⟨h1, h2, _⟩ := drainWaitingQueue_spec0 r1 hwf1 hb
      have hc := h2.cnt0 hwf1
      refine ⟨⟨h1, ?_⟩, ?_, ?_, ?_⟩
      · rw [h2.pc_eq, hr1p, h.cnt]; rw [hr1q, hr1t] at hc; omega
      · refine OpExt.of_ext (r := r1) (by rw [← hr1]; rfl) (by rw [← hr1]; rfl) (by rw [← hr1]; rfl) hr1q hr1t
          (by rw [← hr1]; rfl) ?_
        rw [List.append_nil]; exact h2
      · rw [h2.status_eq, hr1s]
      · rw [h2.pc_eq, hr1p]
    · refine ⟨⟨hwf1, ?_⟩, ?_, hr1s, hr1p⟩
      · rw [hr1p, hr1q, hr1t]; exact h.cnt
      · rw [← hr1]
        exact ⟨rfl, rfl, by simp [Reg.beginOp], rfl, trivial, by simp [Reg.beginOp], by simp [Reg.beginOp]⟩

/-- `ReleasePlayers` after a `SyncState` that asked for `rel`, in any status -/
theorem releasePlayers_spec0 (r1 : Reg) (rel ch : List Nat) (hwf : WF0 r1)
    (hcnt : r1.playerCount = r1.queue.length + sumCount r1.tables + rel.length)
    (hb : (r1.releasePlayers rel ch).badChoice = false) :
    RInv0 (r1.releasePlayers rel ch) ∧ OpExt r1 (r1.releasePlayers rel ch) rel ∧
    (r1.releasePlayers rel ch).status = r1.status ∧
    (r1.releasePlayers rel ch).playerCount = r1.playerCount := by
  unfold releasePlayers at hb ⊢
  obtain ⟨h1, h2⟩ := enterWaitingQueue_spec0 (r1.beginOp ch) rel (hwf.beginOp ch) hb
  have hc := h2.cnt0 (hwf.beginOp ch)
  refine ⟨⟨h1, ?_⟩, ?_, h2.status_eq, h2.pc_eq⟩
  · rw [h2.pc_eq]
    show r1.playerCount = _
    rw [hcnt]
    have e1 : (r1.beginOp ch).queue = r1.queue := rfl
    have e2 : (r1.beginOp ch).tables = r1.tables := rfl
    rw [e1, e2, List.length_append] at hc
    omega
  · exact OpExt.of_ext (r := r1.beginOp ch) rfl rfl rfl rfl rfl rfl h2

end Reg
end Pokerface
