import Pokerface.Proofs.SettleSeats
/-
  `gameResults (potsOf es) rows`: what each player ends up with (helper lemmas for C02).
-/
namespace Pokerface

variable {es : List (Nat × Int × Bool)} {rows : List Row}

/-- All `(idx, delta)` updates of a showdown. -/
def allUpdates (es : List (Nat × Int × Bool)) (rows : List Row) : List (Nat × Int) :=
  ((potsOf es).map (fun p => p.levels.map (toInfo rows))).flatMap (fun ls => potUpdates 0 ls)

theorem players_eq (es : List (Nat × Int × Bool)) (rows : List Row) :
    (gameResults (potsOf es) rows).players
      = bumpAll (rows.map (fun row => (⟨row.1, row.2.1, 0⟩ : PlayerResult))) (allUpdates es rows) := by
  rw [gameResults_players, allUpdates, List.flatMap_map]

theorem all_levels (es : List (Nat × Int × Bool)) (rows : List Row) :
    ((potsOf es).map (fun p => p.levels.map (toInfo rows))).flatMap id = (llOf es).levels.map (toInfo rows) := by
  have := getPots_flatMap_levels (llOf_inv es)
  rw [List.flatMap_map]
  simp only [id]
  rw [← this]
  show List.flatMap (fun p => p.levels.map (toInfo rows)) (llOf es).getPots = _
  generalize (llOf es).getPots = ps
  induction ps with
  | nil => rfl
  | cons p ps ih => simp [List.flatMap_cons, ih]

theorem mem_all_levels {ls : List LevelInfo} {li : LevelInfo}
    (hls : ls ∈ (potsOf es).map (fun p => p.levels.map (toInfo rows))) (hli : li ∈ ls) :
    ∃ l ∈ (llOf es).levels, li = toInfo rows l := by
  have : li ∈ ((potsOf es).map (fun p => p.levels.map (toInfo rows))).flatMap id :=
    List.mem_flatMap.2 ⟨ls, hls, hli⟩
  rw [all_levels] at this
  obtain ⟨l, hl, rfl⟩ := List.mem_map.1 this
  exact ⟨l, hl, rfl⟩

theorem all_wf (g : GameIn es rows) :
    ∀ ls ∈ (potsOf es).map (fun p => p.levels.map (toInfo rows)), ∀ li ∈ ls, ∃ xs, LevelWF xs li := by
  intro ls hls li hli
  obtain ⟨l, hl, rfl⟩ := mem_all_levels hls hli
  exact ⟨_, g.level_wf hl⟩

theorem chg_zero (rows : List Row) (i : Nat) :
    chg (rows.map (fun row => (⟨row.1, row.2.1, 0⟩ : PlayerResult))) i = 0 := by
  induction rows with
  | nil => rfl
  | cons r rs ih => rw [List.map_cons, chg_cons]; split <;> simp [ih]

theorem chg_eq_net (g : GameIn es rows) {i : Nat} (hi : i ∈ es.map (·.1)) :
    chg (gameResults (potsOf es) rows).players i = net (allUpdates es rows) i := by
  rw [players_eq, chg_bumpAll _ _ _ (by simpa [List.map_map, Function.comp_def, ← g.idx_eq] using hi), chg_zero]
  omega

/-- The plain record behind a `LevelInfo`. -/
def ofInfo (li : LevelInfo) : Level :=
  { level := li.level, wager := li.wager, total := li.total, contributors := li.contributors }

theorem ofInfo_toInfo (rows : List Row) (l : Level) : ofInfo (toInfo rows l) = l := rfl

/-- Per-level lower bounds add up to a lower bound of `changed`. -/
theorem chg_ge (g : GameIn es rows) {i : Nat} (hi : i ∈ es.map (·.1)) (f : Level → Int)
    (hf : ∀ l ∈ (llOf es).levels, ∀ o, 0 ≤ o → f l ≤ net (levelUpdates (toInfo rows l) o) i) :
    ((llOf es).levels.map f).sum ≤ chg (gameResults (potsOf es) rows).players i := by
  rw [chg_eq_net g hi, allUpdates]
  have := net_all_ge _ i (fun li => f (ofInfo li)) (all_wf g) (by
    intro ls hls li hli o ho
    obtain ⟨l, hl, rfl⟩ := mem_all_levels hls hli
    exact hf l hl o ho)
  rw [all_levels, List.map_map] at this
  exact this

/-- Per-level upper bounds add up to an upper bound of `changed`. -/
theorem chg_le (g : GameIn es rows) {i : Nat} (hi : i ∈ es.map (·.1)) (f : Level → Int)
    (hf : ∀ l ∈ (llOf es).levels, ∀ o, 0 ≤ o → net (levelUpdates (toInfo rows l) o) i ≤ f l) :
    chg (gameResults (potsOf es) rows).players i ≤ ((llOf es).levels.map f).sum := by
  rw [chg_eq_net g hi, allUpdates]
  have := net_all_le _ i (fun li => f (ofInfo li)) (all_wf g) (by
    intro ls hls li hli o ho
    obtain ⟨l, hl, rfl⟩ := mem_all_levels hls hli
    exact hf l hl o ho)
  rw [all_levels, List.map_map] at this
  exact this

/-! ### sums over the levels -/

theorem mem_level_iff (g : GameIn es rows) {i : Nat} {c : Int} {f : Bool} (he : (i, c, f) ∈ es)
    {l : Level} (hl : l ∈ (llOf es).levels) : i ∈ l.contributors ↔ l.level ≤ c := by
  rw [g.mem_level hl]
  constructor
  · rintro ⟨c', f', he', hle⟩
    rw [(g.entry_unique he he').1]; exact hle
  · intro hle; exact ⟨c, f, he, hle⟩

theorem pots_sum_map_zero {α : Type} (xs : List α) : (xs.map (fun _ => (0 : Int))).sum = 0 := by
  induction xs with
  | nil => rfl
  | cons _ _ ih => simp [ih]

theorem sum_map_neg {α : Type} (xs : List α) (f : α → Int) :
    (xs.map (fun x => - f x)).sum = - (xs.map f).sum := by
  induction xs with
  | nil => rfl
  | cons x xs ih => simp only [List.map_cons, List.sum_cons, ih]; omega

theorem sum_map_sub {α : Type} (xs : List α) (f g : α → Int) :
    (xs.map (fun x => f x - g x)).sum = (xs.map f).sum - (xs.map g).sum := by
  induction xs with
  | nil => rfl
  | cons x xs ih => simp only [List.map_cons, List.sum_cons, ih]; omega

/-- A contribution is a level value below the top level. -/
theorem stake_level (g : GameIn es rows) {i : Nat} {c : Int} {f : Bool} (he : (i, c, f) ∈ es) :
    c ∈ (llOf es).levels.map (·.level) ∧ 0 ≤ c ∧ c ≤ lastD 0 ((llOf es).levels.map (·.level)) := by
  have hm : c ∈ (llOf es).levels.map (·.level) := (llOf_levels es c).2 ⟨_, he, rfl⟩
  exact ⟨hm, g.nonneg _ he, le_lastD_of_sorted (llOf_inv es).sorted 0 c hm⟩

/-- The wagers of the levels a player reached add up to the player's stake. -/
theorem sum_wager_upto_stake (g : GameIn es rows) {i : Nat} {c : Int} {f : Bool} (he : (i, c, f) ∈ es) :
    ((llOf es).levels.map (fun l => if l.level ≤ c then l.wager else 0)).sum = c := by
  obtain ⟨hm, h0, hle⟩ := stake_level g he
  have h := (llOf_inv es).levels
  have := mkLevelsFrom_wager_sum_upto (llOf es).contribs 0 ((llOf es).levels.map (·.level)) c
    g.valid.2 (llOf_inv es).sorted (Or.inr (Or.inl hm))
  rw [← h] at this
  rw [this]; omega

theorem sum_wager_upto_le (g : GameIn es rows) (m : Int) (hm : 0 ≤ m) :
    ((llOf es).levels.map (fun l => if l.level ≤ m then l.wager else 0)).sum ≤ m := by
  have h := (llOf_inv es).levels
  have := mkLevelsFrom_wager_sum_upto_le (llOf es).contribs 0 ((llOf es).levels.map (·.level)) m
    g.valid.2 (llOf_inv es).sorted
  rw [← h] at this
  omega

/-- Sum over all entries = the player's own term + the others. -/
theorem sum_split (es : List (Nat × Int × Bool)) (hn : (es.map (·.1)).Nodup) {i : Nat} {c : Int} {f : Bool}
    (he : (i, c, f) ∈ es) (φ : Nat × Int × Bool → Int) :
    (es.map φ).sum = φ (i, c, f) + ((es.filter (fun e => e.1 != i)).map φ).sum := by
  induction es with
  | nil => simp at he
  | cons e es ih =>
    simp only [List.map_cons, List.nodup_cons] at hn
    simp only [List.mem_cons] at he
    rcases he with rfl | he
    · have : (es.filter (fun e => e.1 != i)) = es := by
        apply List.filter_eq_self.2
        intro a ha
        simp only [bne_iff_ne, ne_eq]
        intro e
        exact hn.1 (List.mem_map.2 ⟨a, ha, e⟩)
      simp [this]
    · have hne : e.1 ≠ i := by
        intro e'
        exact hn.1 (List.mem_map.2 ⟨_, he, e'.symm⟩)
      have : (e.1 != i) = true := by simpa using hne
      simp only [List.map_cons, List.sum_cons, List.filter_cons, this, if_true, ih hn.2 he]
      omega

theorem perm_contribs (g : GameIn es rows) :
    (llOf es).contribs.Perm (es.map (fun e => (e.1, e.2.1))) := by
  have n1 : (llOf es).contribs.Nodup := (llOf_inv es).contribs.imp (fun {a b} hab e => by subst e; omega)
  have n2 : (es.map (fun e : Nat × Int × Bool => (e.1, e.2.1))).Nodup := by
    have : (es.map (fun e : Nat × Int × Bool => (e.1, e.2.1))).map (·.1) = es.map (·.1) := by
      simp [List.map_map, Function.comp_def]
    exact nodup_of_nodup_map (·.1) (this ▸ g.nodup)
  rw [List.perm_ext_iff_of_nodup n1 n2]
  intro x
  rw [llOf_contribs es g.nodup]
  simp only [List.mem_map]
  constructor
  · rintro ⟨f, hf⟩; exact ⟨_, hf, rfl⟩
  · rintro ⟨⟨j, c, f⟩, he, rfl⟩; exact ⟨f, he⟩

/-- The totals of the levels a player reached: what everybody put in up to the player's stake. -/
theorem sum_total_upto_stake (g : GameIn es rows) {i : Nat} {c : Int} {f : Bool} (he : (i, c, f) ∈ es) :
    ((llOf es).levels.map (fun l => if l.level ≤ c then l.total else 0)).sum
      = (es.map (fun e => min e.2.1 c)).sum := by
  obtain ⟨hm, h0, hle⟩ := stake_level g he
  have h := (llOf_inv es).levels
  have := mkLevelsFrom_total_sum_upto (llOf es).contribs 0 ((llOf es).levels.map (·.level)) c
    g.valid.2 (llOf_inv es).sorted (by
      intro kv hkv
      right; left
      have := g.valid.1 kv hkv
      rcases Int.le_total c kv.2 with h | h
      · rw [Int.min_eq_left h]; exact hm
      · rw [Int.min_eq_right h]; exact this)
  rw [← h] at this
  rw [this]
  have hp := perm_sum_int ((perm_contribs g).map
    (fun kv => min (min c kv.2) (lastD 0 ((llOf es).levels.map (·.level))) - min (min c kv.2) 0))
  rw [hp, List.map_map]
  congr 1
  apply List.map_congr_left
  intro e hee
  have := g.nonneg e hee
  simp only [Function.comp]
  omega

/-! ### the results -/

theorem players_idx (es : List (Nat × Int × Bool)) (rows : List Row) :
    (gameResults (potsOf es) rows).players.map (·.idx) = rows.map (·.1) := by
  rw [players_eq, bumpAll_idx]; simp [List.map_map, Function.comp_def]

theorem players_base (es : List (Nat × Int × Bool)) (rows : List Row) :
    (gameResults (potsOf es) rows).players.map (fun p => (p.idx, p.finalStack - p.changed))
      = rows.map (fun r => (r.1, r.2.1)) := by
  rw [players_eq, bumpAll_base]; simp [List.map_map, Function.comp_def]

theorem total_zero_sum (g : GameIn es rows) :
    ((gameResults (potsOf es) rows).players.map (·.changed)).sum = 0 := by
  rw [players_eq, sum_changed_bumpAll]
  · have h0 : ((rows.map (fun row => (⟨row.1, row.2.1, 0⟩ : PlayerResult))).map (·.changed)).sum = 0 := by
      simp only [List.map_map, Function.comp_def]
      exact pots_sum_map_zero rows
    rw [h0, allUpdates, sum_map_flatMap]
    have : ∀ ls ∈ (potsOf es).map (fun p => p.levels.map (toInfo rows)),
        ((potUpdates 0 ls).map (·.2)).sum = 0 :=
      fun ls hls => potUpdates_sum ls (all_wf g ls hls) 0 (Int.le_refl _)
    rw [List.map_congr_left this, pots_sum_map_zero]
    rfl
  · intro u hu
    rw [allUpdates] at hu
    obtain ⟨ls, hls, hu⟩ := List.mem_flatMap.1 hu
    obtain ⟨li, hli, hc⟩ := potUpdates_keys ls (all_wf g ls hls) 0 u hu
    obtain ⟨l, hl, rfl⟩ := mem_all_levels hls hli
    obtain ⟨c, f, he, _⟩ := (g.mem_level hl u.1).1 hc
    simp only [List.map_map, Function.comp_def]
    rw [g.idx_eq]
    exact List.mem_map.2 ⟨_, he, rfl⟩

theorem total_lower (g : GameIn es rows) {i : Nat} {c : Int} {f : Bool} (he : (i, c, f) ∈ es) :
    -c ≤ chg (gameResults (potsOf es) rows).players i := by
  have hi : i ∈ es.map (·.1) := List.mem_map.2 ⟨_, he, rfl⟩
  have := chg_ge g hi (fun l => - (if l.level ≤ c then l.wager else 0)) (by
    intro l hl o ho
    by_cases hc : l.level ≤ c
    · simp only [hc, if_true]
      exact (net_bounds g hl o ho ((mem_level_iff g he hl).2 hc)).1
    · simp only [hc, if_false]
      rw [net_not_contributor g hl o (fun h => hc ((mem_level_iff g he hl).1 h))]; omega)
  rw [sum_map_neg, sum_wager_upto_stake g he] at this
  exact this

theorem total_upper (g : GameIn es rows) {i : Nat} {c : Int} {f : Bool} (he : (i, c, f) ∈ es) :
    chg (gameResults (potsOf es) rows).players i
      ≤ ((es.filter (fun e => e.1 != i)).map (fun e => min e.2.1 c)).sum := by
  have hi : i ∈ es.map (·.1) := List.mem_map.2 ⟨_, he, rfl⟩
  have := chg_le g hi (fun l => (if l.level ≤ c then l.total else 0) - (if l.level ≤ c then l.wager else 0)) (by
    intro l hl o ho
    by_cases hc : l.level ≤ c
    · simp only [hc, if_true]
      exact (net_bounds g hl o ho ((mem_level_iff g he hl).2 hc)).2
    · simp only [hc, if_false]
      rw [net_not_contributor g hl o (fun h => hc ((mem_level_iff g he hl).1 h))]; omega)
  rw [sum_map_sub, sum_wager_upto_stake g he, sum_total_upto_stake g he,
    sum_split es g.nodup he (fun e => min e.2.1 c)] at this
  simp only at this
  omega

theorem total_folded_le (g : GameIn es rows) {i : Nat} {c : Int} (he : (i, c, true) ∈ es) :
    chg (gameResults (potsOf es) rows).players i ≤ 0 := by
  have hi : i ∈ es.map (·.1) := List.mem_map.2 ⟨_, he, rfl⟩
  obtain ⟨r, hr, hri, hrf⟩ := g.row_of_entry he
  have heff : eff r = 0 := by simp [eff, hrf]
  have := chg_le g hi (fun _ => 0) (by
    intro l hl o ho
    by_cases hc : i ∈ l.contributors
    · by_cases hex : ∃ r' ∈ rows, r'.1 ∈ l.contributors ∧ 0 < eff r'
      · obtain ⟨r', hr', hc', hpos⟩ := hex
        have := net_loser g hl o hr (hri ▸ hc) hr' hc' (by omega)
        rw [hri] at this
        rw [this]
        have := (g.level_facts hl).1
        omega
      · have hall : ∀ r' ∈ rows, r'.1 ∈ l.contributors → eff r' = 0 := by
          intro r' hr' hc'
          have h1 := g.eff_nonneg hr'
          have h2 : ¬ 0 < eff r' := fun h => hex ⟨r', hr', hc', h⟩
          omega
        rw [net_all_equal g hl o 0 hall]
        exact Int.le_refl _
    · rw [net_not_contributor g hl o hc]; exact Int.le_refl _)
  rw [pots_sum_map_zero] at this
  exact this

theorem total_folded_eq (g : GameIn es rows) {i : Nat} {c : Int} (he : (i, c, true) ∈ es)
    {j : Nat} {c' : Int} (hj : (j, c', false) ∈ es) (hle : c ≤ c') :
    chg (gameResults (potsOf es) rows).players i = -c := by
  have hi : i ∈ es.map (·.1) := List.mem_map.2 ⟨_, he, rfl⟩
  obtain ⟨r, hr, hri, hrf⟩ := g.row_of_entry he
  obtain ⟨r', hr', hri', hrf'⟩ := g.row_of_entry hj
  have heff : eff r = 0 := by simp [eff, hrf]
  have heff' : 0 < eff r' := g.eff_pos hr' hrf'
  have hlow := total_lower g he
  have := chg_le g hi (fun l => - (if l.level ≤ c then l.wager else 0)) (by
    intro l hl o ho
    by_cases hc : l.level ≤ c
    · simp only [hc, if_true]
      have h1 : r.1 ∈ l.contributors := hri ▸ (mem_level_iff g he hl).2 hc
      have h2 : r'.1 ∈ l.contributors := hri' ▸ (mem_level_iff g hj hl).2 (by omega)
      have := net_loser g hl o hr h1 hr' h2 (by omega)
      rw [hri] at this
      rw [this]; exact Int.le_refl _
    · simp only [hc, if_false]
      rw [net_not_contributor g hl o (fun h => hc ((mem_level_iff g he hl).1 h))]; omega)
  rw [sum_map_neg, sum_wager_upto_stake g he] at this
  omega

theorem total_excess (g : GameIn es rows) {i : Nat} {c : Int} {f : Bool} (he : (i, c, f) ∈ es)
    (m : Int) (hm0 : 0 ≤ m) (hmc : m < c) (hothers : ∀ e ∈ es, e.1 ≠ i → e.2.1 ≤ m) :
    -m ≤ chg (gameResults (potsOf es) rows).players i := by
  have hi : i ∈ es.map (·.1) := List.mem_map.2 ⟨_, he, rfl⟩
  obtain ⟨r, hr, hri, hrf⟩ := g.row_of_entry he
  have := chg_ge g hi (fun l => - (if l.level ≤ m then l.wager else 0)) (by
    intro l hl o ho
    by_cases hc : l.level ≤ m
    · simp only [hc, if_true]
      exact (net_bounds g hl o ho ((mem_level_iff g he hl).2 (by omega))).1
    · simp only [hc, if_false]
      have hall : ∀ r' ∈ rows, r'.1 ∈ l.contributors → eff r' = eff r := by
        intro r' hr' hc'
        obtain ⟨c2, f2, he2, hle2⟩ := (g.mem_level hl r'.1).1 hc'
        have : r'.1 = i := by
          apply Classical.byContradiction
          intro hne
          have := hothers _ he2 hne
          simp only at this
          omega
        rw [g.row_unique hr' hr (this.trans hri.symm)]
      rw [net_all_equal g hl o (eff r) hall]; omega)
  rw [sum_map_neg] at this
  have := sum_wager_upto_le g m hm0
  omega

end Pokerface
