import Pokerface.Model.Game
import Pokerface.Generated.LogicFlow
import Pokerface.Proofs.GeneratedLogicBase
/-
  K1, translated logic (flow of the hand): game.go, event.go, action.go.  Each function is translated by
  `harness/cmd/genlogic` (Generated/LogicFlow.lean, regenerated on every run) as the list of steps it
  takes — calls and `EmitEvent`s, in order, under the conditions of the source — and `gameStep` reads a
  step name on the model; the theorems say that the model's function is that reading.  Loops are either
  matched as a whole statement (any edit inside makes the translation fail) and read as the model's
  loop function (`seekBB`, `dealHoles`, `payAnteLoop`, …), or their body is translated as a function of
  one iteration (`aliveCountStep`, `resetPlayerStatusStep`, …).
-/
set_option linter.unusedSimpArgs false
namespace Pokerface.GeneratedLogic
open Pokerface Game

/-! ### game.go / event.go: the flow decisions, translated as the list of steps taken -/

/-- the reading of one step of the flow (a call or an `EmitEvent` with its handler) on the model -/
def gameStep (g : Game) (s : String) : Game :=
  if s = "RoundClosed" then g.roundClosed
  else if s = "SetCurrentPlayer(NextPlayer)" then g.setCurrentPlayer g.nextIdx
  else if s = "RequestReady" then g.requestReady
  else if s = "ResetRoundStatus" then g.resetRoundStatus
  else if s = "ResetAllPlayerStatus" then g.resetAllPlayerStatus
  else if s = "GameCompleted" then g.gameCompleted
  else if s = "EnterPreflopRound" then g.enterRound .preflop
  else if s = "EnterFlopRound" then g.enterRound .flop
  else if s = "EnterTurnRound" then g.enterRound .turn
  else if s = "EnterRiverRound" then g.enterRound .river
  else if s = "ResetAllPlayerAllowedActions" then g.resetAllAllowed
  else if s = "SetCurrentPlayer(Dealer)" then g.setCurrentPlayer g.dealerIdx
  else if s = "StartAtDealer" then g.setCurrentPlayer g.dealerIdx
  else if s = "SeekBB" then seekBB g.n g
  else if s = "RoundStarted" then g.openRound
  else if s = "DealHoles" then dealHoles g.n 0 g
  else if s = "Burn(1)" then g.burn 1
  else if s = "Board(3)" then g.dealBoard 3
  else if s = "Board(1)" then g.dealBoard 1
  else if s = "UpdateCombinationOfAllPlayers" then g.updateCombinations
  else if s = "RoundInitialized" then (g.setEvent .roundInitialized).afterRoundInitialized
  else if s = "RequestAnte" then g.setEvent .anteRequested
  else if s = "updatePots" then g.updatePots
  else if s = "RequestBlinds" then g.requestBlinds
  else if s = "PrepareRound" then g.prepareRound
  else if s = "StartRound" then g.startRound
  else if s = "Readiness" then g.readiness
  else if s = "PayAnteLoop" then (payAnteLoop g.seatsFromDealer g).1
  else if s = "AntePaid" then ((((g.setEvent .antePaid).updatePots).resetAllPlayerStatus).resetRoundStatus).enterRound .preflop
  else if s = "PayBlindsLoop" then g.seatsFromDealer.foldl payBlind g
  else if s = "PreviousRaiseSize = Blind.BB" then g.setPrev g.opts.blindBB
  else if s = "PreviousRaiseSize = Blind.Dealer" then g.setPrev g.opts.blindDealer
  else if s = "BlindsPaid" then (g.setEvent .blindsPaid).prepareRound
  else if s = "CalculateGameResults" then g.calculateGameResults
  else if s = "SettlementCompleted" then g.setEvent .gameClosed
  else g

def runSteps (g : Game) (l : List String) : Game := l.foldl gameStep g

/-- game.go `RequestPlayerAction` -/
theorem requestPlayerAction_eq {g : Game} {p : Player} (hp : g.players[g.nextIdx]? = some p) :
    g.requestPlayerAction = runSteps g (Generated.Logic.requestPlayerAction g.aliveCount g.movableCount p.acted) := by
  unfold Generated.Logic.requestPlayerAction Game.requestPlayerAction
  rw [hp]
  by_cases h1 : g.aliveCount = 1
  · simp [h1, runSteps, gameStep]
  · have h1' : ¬ (g.aliveCount : Int) = 1 := by omega
    by_cases h2 : g.movableCount = 0
    · simp [h1, h1', h2, runSteps, gameStep]
    · have h2' : ¬ (g.movableCount : Int) = 0 := by omega
      cases h3 : p.acted <;> simp [h1, h1', h2, h2', h3, runSteps, gameStep]

/-- game.go `PrepareRound` -/
theorem prepareRound_eq (g : Game) :
    g.prepareRound = runSteps g (Generated.Logic.prepareRound (roundString g.round) g.movableCount) := by
  unfold Generated.Logic.prepareRound Game.prepareRound
  by_cases h1 : g.round = .preflop
  · simp [h1, runSteps, gameStep, roundString]
  · have h1' : ¬ roundString g.round = "preflop" := fun h => h1 (roundString_inj.mp h)
    by_cases h2 : g.movableCount ≤ 1
    · have h2' : (g.movableCount : Int) ≤ 1 := by omega
      simp [h1, h1', h2, h2', runSteps, gameStep]
    · have h2' : ¬ (g.movableCount : Int) ≤ 1 := by omega
      simp [h1, h1', h2, h2', runSteps, gameStep]

/-- game.go `nextRound`; the count of alive players is read after the two resets, as in the source.
    (`ErrUnknownRound` cannot be told from a nil return in the model's `nextRound : Game → Game`;
    `Game.next` does not call it when the street is not set.) -/
theorem nextRound_eq (g : Game) :
    g.nextRound = runSteps g (Generated.Logic.nextRound g.resetRoundStatus.resetAllPlayerStatus.aliveCount
      (roundString g.resetRoundStatus.resetAllPlayerStatus.round)) := by
  unfold Generated.Logic.nextRound Game.nextRound Game.nextRound'
  generalize hg' : g.resetRoundStatus.resetAllPlayerStatus = g'
  by_cases h1 : g'.aliveCount = 1
  · simp [h1, runSteps, gameStep, hg']
  · have h1' : ¬ (g'.aliveCount : Int) = 1 := by omega
    cases hr : g'.round <;> simp [h1, h1', hr, runSteps, gameStep, roundString, hg']

/-- game.go `Next` -/
theorem next_eq (g : Game) :
    g.next =
      (let s := Generated.Logic.next (evString g.event) (roundString g.round)
       if s = ["ErrNotClosedRound"] then (g, some .notClosedRound)
       else if s = ["nextRound"] then (g.nextRound, none)
       else (g, none)) := by
  unfold Generated.Logic.next Game.next
  by_cases h1 : g.event = .roundClosed
  · have h1' : evString g.event = "RoundClosed" := evString_roundClosed.mpr h1
    cases hr : g.round <;> simp [h1, evString, hr, roundString]
  · have h1' : ¬ evString g.event = "RoundClosed" := fun h => h1 (evString_roundClosed.mp h)
    simp [h1, h1']

theorem n_setCurrentPlayer (g : Game) (i : Nat) : (g.setCurrentPlayer i).n = g.n := by
  simp [Game.setCurrentPlayer, Game.offer, Game.modP, Game.setCur, Game.n]

/-- game.go `StartRound` (+ `onRoundStarted`); the count of movable players is read after
    `ResetAllPlayerAllowedActions`, as in the source; the `for` loop that walks to the big blind is
    matched as a whole statement and read as `seekBB`. -/
theorem startRound_eq (g : Game) :
    g.startRound = runSteps g (Generated.Logic.startRound (roundString g.round) g.resetAllAllowed.movableCount) := by
  unfold Generated.Logic.startRound Game.startRound Game.startRound'
  have hround : g.resetAllAllowed.round = g.round := rfl
  by_cases h1 : g.round = .preflop
  · by_cases h2 : g.resetAllAllowed.movableCount = 0
    · simp [h1, h2, hround, runSteps, gameStep, roundString]
    · have h2' : ¬ (g.resetAllAllowed.movableCount : Int) = 0 := by omega
      simp [h1, h2, h2', hround, runSteps, gameStep, roundString, n_setCurrentPlayer]
  · have h1' : ¬ roundString g.round = "preflop" := fun h => h1 (roundString_inj.mp h)
    simp [h1, h1', hround, runSteps, gameStep]

/-- game.go `InitializeRound` (+ `onRoundInitialized`); the loop dealing the hole cards is matched as
    a whole statement and read as `dealHoles`. -/
theorem initializeRound_eq (g : Game) :
    g.initializeRound = runSteps g (Generated.Logic.initializeRound (roundString g.round)) := by
  unfold Generated.Logic.initializeRound Game.initializeRound Game.dealStreet
  cases hr : g.round <;> simp [runSteps, gameStep, roundString] <;> rfl

/-- event.go `onRoundInitialized` -/
theorem afterRoundInitialized_eq (g : Game) :
    g.afterRoundInitialized = runSteps g (Generated.Logic.onRoundInitialized (roundString g.round)) := by
  unfold Generated.Logic.onRoundInitialized Game.afterRoundInitialized
  cases hr : g.round <;> simp [runSteps, gameStep, roundString]

/-- event.go `onReadiness`, `onPrepared`, `onRoundPrepared` -/
theorem readiness_eq (g : Game) :
    g.readiness =
      if Generated.Logic.onReadiness (roundString g.round) = ["Prepared"] then
        runSteps g (Generated.Logic.onPrepared g.opts.ante)
      else runSteps g Generated.Logic.onRoundPrepared := by
  unfold Generated.Logic.onReadiness Generated.Logic.onPrepared Generated.Logic.onRoundPrepared Game.readiness
  cases hr : g.round
  · by_cases ha : g.opts.ante > 0 <;> simp [runSteps, gameStep, roundString, ha]
  all_goals simp [runSteps, gameStep, roundString]

/-- event.go `onRoundClosed` (after `EmitEvent(RoundClosed)` recorded the event) -/
theorem roundClosed_eq (g : Game) :
    g.roundClosed = runSteps (g.setEvent .roundClosed) Generated.Logic.onRoundClosed := by
  simp [Generated.Logic.onRoundClosed, Game.roundClosed, runSteps, gameStep]

/-- the one-line handlers: which function the chain calls next -/
theorem chain_eq :
    Generated.Logic.onStarted = ["Initialize"] ∧ Generated.Logic.onInitialized = ["Prepare"] ∧
    Generated.Logic.prepare = ["RequestReady"] ∧ Generated.Logic.onBlindsPaid = ["PrepareRound"] ∧
    Generated.Logic.onRoundStarted = ["RequestPlayerAction"] ∧
    Generated.Logic.onPreflopRoundEntered = ["InitializeRound"] ∧ Generated.Logic.onFlopRoundEntered = ["InitializeRound"] ∧
    Generated.Logic.onTurnRoundEntered = ["InitializeRound"] ∧ Generated.Logic.onRiverRoundEntered = ["InitializeRound"] ∧
    Generated.Logic.onGameCompleted = ["SettlementRequested"] ∧ Generated.Logic.onSettlementCompleted = ["GameClosed"] := by
  decide

/-- the errors of game.go `Start` by name -/
def startErr (s : List String) : Err :=
  if s = ["ErrInsufficientNumberOfPlayers"] then .insufficientPlayers
  else if s = ["ErrNoDealer"] then .noDealer
  else if s = ["ErrNotEnoughBackroll"] then .notEnoughBankroll
  else if s = ["ErrNoDeck"] then .noDeck
  else .unknownRound

/-- game.go `Start` (the guards in their order; the bankroll loop is matched as a whole statement and
    read as "some bankroll is not positive") and `Initialize` (the minimum bet, then `ResetRoundStatus`);
    `Initialized → Prepare → RequestReady` is in `chain_eq`. -/
theorem start_eq (c : Config) :
    let g0 : Game := { opts := c.opts, players := c.players }
    let s := Generated.Logic.start g0.n g0.dealerIdx?.isNone (g0.players.any fun p => decide (p.bankroll ≤ 0)) c.opts.deck.length
    let ini := Generated.Logic.initializeGame c.opts.blindDealer c.opts.blindBB
    ini.2 = ["ResetRoundStatus", "Initialized"] ∧
    start c = if s = ["Started"] then (({ g0 with miniBet := ini.1 } : Game).resetRoundStatus.requestReady, none)
              else (g0, some (startErr s)) := by
  intro g0 s ini
  constructor
  · show (Generated.Logic.initializeGame c.opts.blindDealer c.opts.blindBB).2 = _
    unfold Generated.Logic.initializeGame
    split <;> rfl
  · show start c = if Generated.Logic.start g0.n g0.dealerIdx?.isNone (g0.players.any fun p => decide (p.bankroll ≤ 0)) c.opts.deck.length = ["Started"]
        then (({ g0 with miniBet := (Generated.Logic.initializeGame c.opts.blindDealer c.opts.blindBB).1 } : Game).resetRoundStatus.requestReady, none)
        else (g0, some (startErr (Generated.Logic.start g0.n g0.dealerIdx?.isNone (g0.players.any fun p => decide (p.bankroll ≤ 0)) c.opts.deck.length)))
    unfold Generated.Logic.start Generated.Logic.initializeGame start
    simp only
    have hg0 : g0 = { opts := c.opts, players := c.players } := rfl
    rw [← hg0]
    by_cases h1 : g0.n < 2
    · have h1' : (g0.n : Int) < 2 := by omega
      simp [h1, h1', startErr]
    · have h1' : ¬ (g0.n : Int) < 2 := by omega
      by_cases h2 : g0.dealerIdx?.isNone = true
      · simp [h1, h1', h2, startErr]
      · by_cases h3 : (g0.players.any fun p => decide (p.bankroll ≤ 0)) = true
        · have h3' : (c.players.any fun p => decide (p.bankroll ≤ 0)) = true := h3
          simp only [h1, h1', h2, h3, h3', if_true, if_false, decide_false, Bool.false_eq_true, List.nil_append, startErr]
          simp
        · have h3' : ¬ (c.players.any fun p => decide (p.bankroll ≤ 0)) = true := h3
          by_cases h4 : c.opts.deck = []
          · simp only [h1, h1', h2, h3, h3', h4, if_true, if_false, decide_false, Bool.false_eq_true, List.nil_append, startErr]
            simp
          · have h4' : ¬ (c.opts.deck.length : Int) = 0 := by
              have : c.opts.deck.length ≠ 0 := fun h => h4 (List.length_eq_zero_iff.mp h)
              omega
            have h4'' : c.opts.deck.isEmpty = false := by simp [List.isEmpty_iff, h4]
            simp only [h1, h1', h2, h3, h3', h4', h4'', if_true, if_false, decide_false, Bool.false_eq_true, List.nil_append, startErr, beq_iff_eq]
            by_cases h5 : c.opts.blindDealer > c.opts.blindBB <;> simp [h5] <;> rfl

/-! ### action.go and the remaining small functions of game.go / event.go / player.go -/

/-- action.go `ReadyForAll` -/
theorem readyForAll_eq (g : Game) :
    g.readyForAll =
      (let r := Generated.Logic.readyForAll (evString g.event)
       if r = ["ErrInvalidAction"] then (g, some .invalidAction) else (runSteps g r, none)) := by
  unfold Generated.Logic.readyForAll Game.readyForAll
  by_cases h : g.event = .readyRequested
  · simp [h, evString, runSteps, gameStep]
  · have h' : ¬ evString g.event = "ReadyRequested" := fun e => h (evString_inj.mp e)
    simp [h, h']

/-- event.go `onAntePaid` (after `EmitEvent(AntePaid)` recorded the event): what the step "AntePaid" stands for -/
theorem onAntePaid_eq (g : Game) :
    gameStep g "AntePaid" = runSteps (g.setEvent .antePaid) Generated.Logic.onAntePaid := by
  simp [Generated.Logic.onAntePaid, runSteps, gameStep]

/-- action.go `PayAnte`: the guards, the loop over the players (matched as a whole statement; it stops at
    the first refusal), `ResetAllPlayerAllowedActions`, `EmitEvent(AntePaid)` -/
theorem gamePayAnte_eq (g : Game) :
    g.payAnte =
      (let loop := payAnteLoop g.seatsFromDealer g
       let r := Generated.Logic.gamePayAnte g.opts.ante (evString g.event) loop.2.isSome
       if r = ["ErrInvalidAction"] then (g, some .invalidAction)
       else if r = ["PayAnteLoop: return err"] then loop
       else (runSteps g r, none)) := by
  unfold Generated.Logic.gamePayAnte Game.payAnte Game.antePaid
  by_cases h0 : g.opts.ante = 0
  · simp [h0]
  · by_cases h : g.event = .anteRequested
    · rcases hl : payAnteLoop g.seatsFromDealer g with ⟨g', _ | e⟩
      · simp [h0, h, hl, evString, runSteps, gameStep]
      · simp [h0, h, hl, evString]
    · have h' : ¬ evString g.event = "AnteRequested" := fun e => h (evString_inj.mp e)
      simp [h0, h, h']

theorem pay_opts (g : Game) (i : Nat) (c : Int) (w : Bool) : (g.pay i c w).opts = g.opts := by
  unfold Game.pay
  split
  · rfl
  · split
    · unfold Game.payAllin
      simp only
      split
      · split <;> split <;> rfl
      · rfl
    · unfold Game.payPart
      simp only
      split <;> rfl

theorem foldl_payBlind_opts (l : List Nat) (g : Game) : (l.foldl payBlind g).opts = g.opts := by
  induction l generalizing g with
  | nil => rfl
  | cons a l ih =>
    rw [List.foldl_cons, ih]
    unfold Game.payBlind
    split
    · rfl
    · exact pay_opts ..

/-- action.go `PayBlinds`: the guard, the loop over the players (matched as a whole statement), the
    minimal raise size, `ResetAllPlayerAllowedActions`, `EmitEvent(BlindsPaid)` -/
theorem gamePayBlinds_eq (g : Game) :
    g.payBlinds =
      (let r := Generated.Logic.gamePayBlinds (evString g.event) g.opts.blindBB
       if r = ["ErrInvalidAction"] then (g, some .invalidAction) else (runSteps g r, none)) := by
  unfold Generated.Logic.gamePayBlinds Game.payBlinds Game.blindsPaid
  by_cases h : g.event = .blindsRequested
  · have hopts := foldl_payBlind_opts g.seatsFromDealer g
    by_cases hb : g.opts.blindBB > 0 <;>
      simp [h, hb, evString, runSteps, gameStep, hopts]
  · have h' : ¬ evString g.event = "BlindsRequested" := fun e => h (evString_inj.mp e)
    simp [h, h']

/-- event.go `onGameCompleted` … `onSettlementCompleted` (`GameCompleted → SettlementRequested`,
    `SettlementCompleted → GameClosed` are in `chain_eq`) -/
theorem gameCompleted_eq (g : Game) :
    g.gameCompleted = runSteps g Generated.Logic.onSettlementRequested := by
  simp [Generated.Logic.onSettlementRequested, Game.gameCompleted, runSteps, gameStep]

/-- game.go `ResetRoundStatus` -/
theorem resetRoundStatus_eq (g : Game) :
    g.resetRoundStatus =
      (let r := Generated.Logic.resetRoundStatus g.dealerIdx
       { g with prev := r.1, roundPot := r.2.1, cw := r.2.2.1, raiser := r.2.2.2.1.toNat, cur := r.2.2.2.2.toNat }) := by
  simp [Generated.Logic.resetRoundStatus, Game.resetRoundStatus]

/-! #### loop bodies (one iteration as a function; the statements around the loop are pinned by the translator) -/

theorem foldl_countStep (q : Player → Bool) (f : Int → Player → Int)
    (hf : ∀ c p, f c p = if q p then c - 1 else c) (l : List Player) (c : Int) :
    l.foldl f c = c - l.length + (l.filter fun p => !q p).length := by
  induction l generalizing c with
  | nil => simp
  | cons a l ih =>
    rw [List.foldl_cons, ih, hf]
    cases h : q a <;> simp [h] <;> omega

/-- game.go `GetAlivePlayerCount`: start from the number of players, one translated step per player -/
theorem aliveCount_eq (g : Game) :
    (g.aliveCount : Int) = g.players.foldl (fun c p => Generated.Logic.aliveCountStep c p.fold) (g.n : Int) := by
  rw [foldl_countStep (fun p => p.fold) _ (by intro c p; unfold Generated.Logic.aliveCountStep; cases p.fold <;> simp)]
  simp [Game.aliveCount, Game.n]

/-- game.go `GetMovablePlayerCount` -/
theorem movableCount_eq (g : Game) :
    (g.movableCount : Int) = g.players.foldl (fun c p => Generated.Logic.movableCountStep c p.fold p.stack) (g.n : Int) := by
  rw [foldl_countStep (fun p => p.fold || p.stack == 0) _
    (by intro c p; unfold Generated.Logic.movableCountStep; cases p.fold <;> by_cases h : p.stack = 0 <;> simp [h])]
  simp [Game.movableCount, Game.n]

/-- game.go `ResetActedPlayers` -/
theorem resetActed_eq (g : Game) :
    g.resetActed = g.mapP fun p => { p with acted := Generated.Logic.resetActedStep p.acted } := rfl

/-- game.go `ResetAllPlayerStatus` -/
theorem resetAllPlayerStatus_eq (g : Game) :
    g.resetAllPlayerStatus = g.mapP fun p =>
      let r := Generated.Logic.resetPlayerStatusStep p.fold p.pot p.wager p.initial p.stack
      { p with allowed := if r.1 then [] else p.allowed, pot := r.2.1, wager := r.2.2.1, initial := r.2.2.2 } := by
  unfold Game.resetAllPlayerStatus
  congr 1
  funext p
  unfold Generated.Logic.resetPlayerStatusStep
  cases p.fold <;> by_cases h : p.stack = 0 <;> simp [h]

/-- the reading of one step of player.go `Reset` on a player -/
def playerStep (p : Player) (s : String) : Player :=
  if s = "Acted = false" then { p with acted := false }
  else if s = "ResetAllowedActions" then { p with allowed := [] }
  else p

/-- game.go `ResetAllPlayerAllowedActions` (the loop calls `p.Reset()`) and player.go `Reset` -/
theorem resetAllAllowed_eq (g : Game) :
    Generated.Logic.resetAllowedLoopStep = ["p.Reset()"] ∧
    g.resetAllAllowed = g.mapP fun p => Generated.Logic.playerReset.foldl playerStep p := by
  refine ⟨by decide, ?_⟩
  unfold Game.resetAllAllowed
  congr 1

/-- game.go `NextPlayer`: the body of its loop, which returns in the first iteration (the loop runs when
    there are at least two players) -/
theorem nextIdx_eq (g : Game) :
    (g.nextIdx : Int) = Generated.Logic.nextPlayerStep g.cur g.n := by
  unfold Generated.Logic.nextPlayerStep Game.nextIdx
  by_cases h : g.cur + 1 = g.n
  · have h' : (g.cur : Int) + 1 = g.n := by omega
    simp [h, h']
  · have h' : ¬ (g.cur : Int) + 1 = g.n := by omega
    simp [h, h']

/-! ### the current player, the event dispatch, `Resume` -/

/-- game.go `setCurrentPlayer`: the field `CurrentPlayer` after the call -/
theorem setCurrentPlayerField_eq (seat cur : Int) :
    Generated.Logic.setCurrentPlayerField false seat cur = seat ∧ Generated.Logic.setCurrentPlayerField true seat cur = -1 := by
  constructor <;> rfl

/-- the reading of one step of game.go `SetCurrentPlayer(p)` for the seat `i` of `p`; the actions offered
    are what the translated `GetAllowedActions` says for the current player at that point -/
def curStep (i : Nat) (g : Game) (s : String) : Game :=
  if s = "GetCurrentPlayer().ResetAllowedActions()" then g.modP g.cur clearAllowed
  else if s = "setCurrentPlayer(p)" then g.setCur (Generated.Logic.setCurrentPlayerField false i g.cur).toNat
  else if s = "p.AllowActions(GetAllowedActions(p))" then
    g.modP i fun p => { p with allowed :=
      if Generated.Logic.getAllowedActions g.cur i = ["GetAvailableActions(p)"] then g.availableActions p else [] }
  else g

/-- game.go `SetCurrentPlayer`, `setCurrentPlayer`, `GetAllowedActions`, for a player that is not nil and a
    current player that is set (the model keeps `cur` a seat number) -/
theorem setCurrentPlayer_eq (g : Game) (i : Nat) :
    g.setCurrentPlayer i = (Generated.Logic.setCurrentPlayer true true).foldl (curStep i) g := by
  simp [Generated.Logic.setCurrentPlayer, Generated.Logic.setCurrentPlayerField, Generated.Logic.getAllowedActions,
    Game.setCurrentPlayer, curStep, Game.offer, Game.setCur, Game.modP]

/-- the handler event.go `triggerEvent` calls for each event -/
def handlerOf (e : Ev) : String := if e = .gameClosed ∨ e = .none then "nil" else "on" ++ evString e

/-- event.go `triggerEvent`: the dispatch table -/
theorem triggerEvent_eq (e : Ev) : Generated.Logic.triggerEvent (evString e) = [handlerOf e] := by
  cases e <;> decide

/-- event.go `EmitEvent`; game.go `Resume` re-emits the recorded event; the handlers of the wait points
    `ReadyRequested`, `AnteRequested`, `BlindsRequested` do nothing; the game-level actions of action.go
    address the current player; the `Enter…Round` functions set the street and emit their event -/
theorem dispatch_eq :
    Generated.Logic.emitEvent = ["CurrentEvent = GameEventSymbols[event]", "triggerEvent(event)"] ∧
    (∀ e : Ev, Generated.Logic.resume (evString e) = if e = .none then ["nil"] else ["EmitEvent(CurrentEvent)"]) ∧
    Generated.Logic.onReadyRequested = ["nil"] ∧ Generated.Logic.onAnteRequested = ["nil"] ∧
    Generated.Logic.onBlindsRequested = ["nil"] ∧ Generated.Logic.requestAnte = ["AnteRequested"] ∧
    Generated.Logic.startAtDealer false = ["SetCurrentPlayer(Dealer)", "nil"] ∧
    Generated.Logic.gamePass = ["GetCurrentPlayer().Pass()"] ∧ Generated.Logic.gamePay = ["GetCurrentPlayer().Pay(chips)"] ∧
    Generated.Logic.gameFold = ["GetCurrentPlayer().Fold()"] ∧ Generated.Logic.gameCheck = ["GetCurrentPlayer().Check()"] ∧
    Generated.Logic.gameCall = ["GetCurrentPlayer().Call()"] ∧ Generated.Logic.gameAllin = ["GetCurrentPlayer().Allin()"] ∧
    Generated.Logic.gameBet = ["GetCurrentPlayer().Bet(chips)"] ∧ Generated.Logic.gameRaise = ["GetCurrentPlayer().Raise(chipLevel)"] ∧
    Generated.Logic.enterPreflopRound = ["Round = preflop", "PreflopRoundEntered"] ∧
    Generated.Logic.enterFlopRound = ["Round = flop", "FlopRoundEntered"] ∧
    Generated.Logic.enterTurnRound = ["Round = turn", "TurnRoundEntered"] ∧
    Generated.Logic.enterRiverRound = ["Round = river", "RiverRoundEntered"] := by
  refine ⟨by decide, fun e => by cases e <;> decide, ?_⟩
  decide

/-- game.go `Resume` on the model: re-emitting `RoundStarted` runs `onRoundStarted` (= `RequestPlayerAction`,
    `chain_eq`), re-emitting `RoundClosed` runs `onRoundClosed` (`roundClosed_eq`); for the other wait points
    the handler does nothing (`dispatch_eq`) and for `GameClosed` there is none (`triggerEvent_eq`) -/
theorem resume_eq (g : Game) :
    g.resume =
      if handlerOf g.event = "onRoundStarted" then g.requestPlayerAction
      else if handlerOf g.event = "onRoundClosed" then runSteps (g.setEvent .roundClosed) Generated.Logic.onRoundClosed
      else g := by
  unfold Game.resume
  cases h : g.event <;> simp [handlerOf, evString, roundClosed_eq]

/-! ### what the translated definitions compute, on concrete inputs (non-vacuity) -/

example : Generated.Logic.requestPlayerAction 3 2 false = ["SetCurrentPlayer(NextPlayer)"] := by decide

example : Generated.Logic.nextRound 2 "turn" = ["ResetRoundStatus", "ResetAllPlayerStatus", "EnterRiverRound"] := by decide

example : Generated.Logic.startRound "preflop" 3
    = ["ResetAllPlayerAllowedActions", "SetCurrentPlayer(Dealer)", "SeekBB", "RoundStarted"] := by decide

example : Generated.Logic.start 2 false true 52 = ["ErrNotEnoughBackroll"] := by decide

end Pokerface.GeneratedLogic
