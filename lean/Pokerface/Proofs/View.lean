import Pokerface.Model.View
/-
  Helper definitions and lemmas about the redaction functions of Model/View.lean
  (`asPlayer`, `asObserver`), used by Properties/C15.lean.  Everything here holds
  for ALL `Game` values; no reachability is involved.
-/
namespace Pokerface
open Game

/-- Who is looking at the state: `some i` = the player whose `Idx` is `i` (`AsPlayer(i)`),
    `none` = an observer (`AsObserver()`). -/
abbrev Viewer := Option Nat

/-- The state prepared for a viewer. -/
def Game.view (g : Game) : Viewer → Game
  | some i => g.asPlayer i
  | none => g.asObserver

/-- The player record `p` of state `g` must be hidden from viewer `v`: it is not the
    viewer's own record, and either the hand is not closed yet or the player folded. -/
def Hidden (g : Game) (v : Viewer) (p : Player) : Prop :=
  v ≠ some p.idx ∧ (g.event ≠ .gameClosed ∨ p.fold = true)

instance (g : Game) (v : Viewer) (p : Player) : Decidable (Hidden g v p) := by
  unfold Hidden; infer_instance

/-- Specification-level redaction: blank the deck, the burned cards, and the hole cards and
    hand evaluation of exactly the players selected by `hid`. -/
def Game.blank (g : Game) (hid : Player → Prop) [DecidablePred hid] : Game :=
  { g with opts := { g.opts with deck := [] }, burned := [],
           players := g.players.map fun p => if hid p then hidePlayer p else p }

theorem stripSecrets_event (g : Game) : g.stripSecrets.event = g.event := rfl
theorem stripSecrets_players (g : Game) : g.stripSecrets.players = g.players := rfl

/-- `AsPlayer(i)` is the specification-level redaction with "hidden from seat i". -/
theorem asPlayer_eq_blank (g : Game) (i : Nat) : g.asPlayer i = g.blank (Hidden g (some i)) := by
  unfold Game.asPlayer Game.blank
  simp only
  by_cases he : g.stripSecrets.event = .gameClosed
  · rw [if_pos he]
    replace he : g.event = .gameClosed := he
    simp only [Game.mapP, Game.stripSecrets]
    congr 1
    apply List.map_congr_left
    intro p _
    by_cases hi : p.idx = i
    · have : ¬ Hidden g (some i) p := fun h => h.1 (by rw [hi])
      simp [hi, this]
    · by_cases hf : p.fold = true
      · have : Hidden g (some i) p := ⟨fun h => hi (Option.some.inj h).symm, Or.inr hf⟩
        simp [hi, hf, this]
      · have : ¬ Hidden g (some i) p := fun h => h.2.elim (fun h => h he) hf
        simp [hi, hf, this]
  · rw [if_neg he]
    replace he : ¬ g.event = .gameClosed := he
    simp only [Game.mapP, Game.stripSecrets]
    congr 1
    apply List.map_congr_left
    intro p _
    by_cases hi : p.idx = i
    · have : ¬ Hidden g (some i) p := fun h => h.1 (by rw [hi])
      simp [hi, this]
    · have : Hidden g (some i) p := ⟨fun h => hi (Option.some.inj h).symm, Or.inl he⟩
      simp [hi, this]

/-- `AsObserver()` is the specification-level redaction with "hidden from an observer". -/
theorem asObserver_eq_blank (g : Game) : g.asObserver = g.blank (Hidden g none) := by
  unfold Game.asObserver Game.blank
  simp only
  by_cases he : g.stripSecrets.event = .gameClosed
  · rw [if_pos he]
    replace he : g.event = .gameClosed := he
    simp only [Game.mapP, Game.stripSecrets]
    congr 1
    apply List.map_congr_left
    intro p _
    by_cases hf : p.fold = true
    · have : Hidden g none p := ⟨(fun h => by cases h), Or.inr hf⟩
      simp [hf, this]
    · have : ¬ Hidden g none p := fun h => h.2.elim (fun h => h he) hf
      simp [hf, this]
  · rw [if_neg he]
    replace he : ¬ g.event = .gameClosed := he
    simp only [Game.mapP, Game.stripSecrets]
    congr 1
    apply List.map_congr_left
    intro p _
    have : Hidden g none p := ⟨(fun h => by cases h), Or.inl he⟩
    simp [this]

theorem view_eq_blank (g : Game) (v : Viewer) : g.view v = g.blank (Hidden g v) := by
  cases v with
  | none => exact asObserver_eq_blank g
  | some i => exact asPlayer_eq_blank g i

theorem blank_getElem? (g : Game) (hid : Player → Prop) [DecidablePred hid] (k : Nat) :
    (g.blank hid).players[k]? = (g.players[k]?).map fun p => if hid p then hidePlayer p else p := by
  simp [Game.blank]

end Pokerface
