import Pokerface.Proofs.Cards
/-
  The cards invariant through whole operations (`step`), runs and reachable states.
-/
namespace Pokerface
open Game

/-- `r` is the street after `a` -/
def Nxt (a r : Round) : Prop :=
  (a = .none ∧ r = .preflop) ∨ (a = .preflop ∧ r = .flop) ∨ (a = .flop ∧ r = .turn) ∨ (a = .turn ∧ r = .river)

/-- after the dealing, `enterRound` only evaluates hands, records events and offers actions -/
theorem cf_enterRound_tail (g : Game) (r : Round) : CF (g.setRound r).dealStreet (g.enterRound r) :=
  ((cf_updateCombinations _).trans (cf_setEvent _ _ (by decide))).trans (cf_afterRoundInitialized _)

theorem cards_enterRound_event_ne (g : Game) (r : Round) : (g.enterRound r).event ≠ .anteRequested := by
  intro h
  have h1 : ((((g.setRound r).dealStreet.updateCombinations).setEvent .roundInitialized).event = .anteRequested) :=
    (cf_afterRoundInitialized _).ante h
  exact Ev.noConfusion h1

theorem ccore_enterRound (g : Game) (hc : CCore g) (r : Round) (hn : Nxt g.round r) : CCore (g.enterRound r) := by
  apply (cf_enterRound_tail g r).core
  rcases hn with ⟨h1, rfl⟩ | ⟨h1, rfl⟩ | ⟨h1, rfl⟩ | ⟨h1, rfl⟩
  · exact ccore_deal_preflop g hc h1
  · exact ccore_deal_street g hc .flop 3 (Or.inl ⟨h1, rfl, rfl⟩) _
  · exact ccore_deal_street g hc .turn 1 (Or.inr (Or.inl ⟨h1, rfl, rfl⟩)) _
  · exact ccore_deal_street g hc .river 1 (Or.inr (Or.inr ⟨h1, rfl, rfl⟩)) _

theorem cinv_enterRound (g : Game) (hc : CCore g) (r : Round) (hn : Nxt g.round r) : CInv (g.enterRound r) :=
  ⟨ccore_enterRound g hc r hn, fun he => absurd he (cards_enterRound_event_ne g r)⟩

theorem stable_street (g : Game) (r : Round) (k d : Nat) :
    Stable g ((((g.setRound r).burn 1).dealBoard k).setCurrentPlayer d) := by
  refine Stable.trans ?_ (cf_setCurrentPlayer _ d).stable
  refine ⟨rfl, rfl, ?_, ?_, ?_, ?_⟩
  · show g.deckPos ≤ g.deckPos + 1 + k
    omega
  · intro i p p' hp hp' _
    have hp'' : g.players[i]? = some p' := hp'
    rw [hp] at hp''
    cases hp''; rfl
  · show g.board <+: g.board ++ _
    exact List.prefix_append _ _
  · show g.burned <+: g.burned ++ _
    exact List.prefix_append _ _

theorem stable_enterRound (g : Game) (hc : CCore g) (r : Round) (hn : Nxt g.round r) : Stable g (g.enterRound r) := by
  refine Stable.trans ?_ (cf_enterRound_tail g r).stable
  rcases hn with ⟨h1, rfl⟩ | ⟨h1, rfl⟩ | ⟨h1, rfl⟩ | ⟨h1, rfl⟩
  · have hs : (g.setRound .preflop).dealStreet = dealHoles g.n 0 (g.setRound .preflop) := rfl
    rw [hs]
    have hd := df_dealHoles g.n 0 (g.setRound .preflop)
    have hcn : g.holeCountNow = 0 := by simp [Game.holeCountNow, h1]
    have hpos : g.deckPos = 0 := by
      have := hc.pos; rw [hcn, h1] at this; simpa [Round.boardCount, Round.burnCount] using this
    refine ⟨by rw [hd.opts]; rfl, hd.n, by rw [hpos]; exact Nat.zero_le _, ?_, by rw [hd.board]; exact List.prefix_refl _,
      by rw [hd.burned]; exact List.prefix_refl _⟩
    intro k p p' hp _ hne
    have := hc.holes p (List.mem_of_getElem? hp)
    rw [hcn] at this
    exact absurd (List.eq_nil_of_length_eq_zero this) hne
  · exact stable_street g .flop 3 _
  · exact stable_street g .turn 1 _
  · exact stable_street g .river 1 _

/-- what an operation can do to the cards: nothing, deal the next street, or ask for antes
    while nothing has been dealt -/
inductive CStep (g : Game) : Game → Prop
  | frame {g' : Game} : CF g g' → CStep g g'
  | deal {g1 : Game} (r : Round) : CF g g1 → Nxt g1.round r → CStep g (g1.enterRound r)
  | ante {g1 : Game} : CF g g1 → g1.round = .none → CStep g (g1.setEvent .anteRequested)

theorem CStep.of_cf {g g1 g' : Game} (h : CF g g1) (s : CStep g1 g') : CStep g g' := by
  cases s with
  | frame h2 => exact .frame (h.trans h2)
  | deal r h2 hn => exact .deal r (h.trans h2) hn
  | ante h2 hr => exact .ante (h.trans h2) hr

theorem CStep.inv {g g' : Game} (s : CStep g g') (hi : CInv g) : CInv g' := by
  cases s with
  | frame h => exact h.inv hi
  | deal r h hn => exact cinv_enterRound _ (h.core hi.core) r hn
  | ante h hr =>
    have hc := h.core hi.core
    exact ⟨⟨hc.nodup, hc.long, hc.holes, hc.board, hc.burned, hc.pos, hc.pref⟩, fun _ => hr⟩

theorem CStep.stable {g g' : Game} (s : CStep g g') (hi : CInv g) : Stable g g' := by
  cases s with
  | frame h => exact h.stable
  | deal r h hn => exact h.stable.trans (stable_enterRound _ (h.core hi.core) r hn)
  | ante h hr =>
    rename_i g1
    refine h.stable.trans ⟨rfl, rfl, Nat.le_refl _, ?_, List.prefix_refl _, List.prefix_refl _⟩
    intro i p p' hp hp' _
    have hp'' : g1.players[i]? = some p' := hp'
    rw [hp] at hp''
    cases hp''; rfl

theorem cstep_readiness (g : Game) : CStep g g.readiness := by
  unfold Game.readiness
  split
  · rename_i hr
    split
    · exact .ante (CF.refl g) hr
    · exact .deal .preflop (CF.refl g) (Or.inl ⟨hr, rfl⟩)
  · exact .frame (cf_startRound g)

theorem cstep_readyForAll (g : Game) : CStep g g.readyForAll.1 := by
  unfold Game.readyForAll
  split
  · exact .frame (CF.refl g)
  · exact CStep.of_cf (cf_resetAllAllowed g) (cstep_readiness _)

theorem cstep_payAnte (g : Game) (hi : CInv g) : CStep g g.payAnte.1 := by
  unfold Game.payAnte
  split
  · exact .frame (CF.refl g)
  · split
    · exact .frame (CF.refl g)
    · rename_i he
      have he' : g.event = .anteRequested := by simpa using he
      have hl := cf_payAnteLoop g.seatsFromDealer g
      split
      · rename_i g' e heq
        have : g' = (payAnteLoop g.seatsFromDealer g).1 := by rw [heq]
        rw [this]; exact .frame hl
      · rename_i g' heq
        have : g' = (payAnteLoop g.seatsFromDealer g).1 := by rw [heq]
        simp only
        rw [this]
        unfold Game.antePaid
        have h1 : CF g ((((((payAnteLoop g.seatsFromDealer g).1.resetAllAllowed.setEvent .antePaid).updatePots).resetAllPlayerStatus).resetRoundStatus)) :=
          ((((hl.trans (cf_resetAllAllowed _)).trans (cf_setEvent _ _ (by decide))).trans (cf_updatePots _)).trans
            (cf_resetAllPlayerStatus _)).trans (cf_resetRoundStatus _)
        exact .deal .preflop h1 (Or.inl ⟨by rw [h1.round]; exact hi.ante he', rfl⟩)

theorem cstep_next (g : Game) : CStep g g.next.1 := by
  unfold Game.next
  split
  · exact .frame (CF.refl g)
  · split
    · exact .frame (CF.refl g)
    · unfold Game.nextRound
      have h1 : CF g g.resetRoundStatus.resetAllPlayerStatus := (cf_resetRoundStatus g).trans (cf_resetAllPlayerStatus _)
      unfold Game.nextRound'
      split
      · exact .frame (h1.trans (cf_gameCompleted _))
      · split
        · rename_i hr; exact .deal .flop h1 (Or.inr (Or.inl ⟨hr, rfl⟩))
        · rename_i hr; exact .deal .turn h1 (Or.inr (Or.inr (Or.inl ⟨hr, rfl⟩)))
        · rename_i hr; exact .deal .river h1 (Or.inr (Or.inr (Or.inr ⟨hr, rfl⟩)))
        · exact .frame (h1.trans (cf_gameCompleted _))
        · exact .frame h1

/-- every operation of the alphabet is a `CStep` -/
theorem cstep_step (g : Game) (hi : CInv g) (op : Op) : CStep g (g.step op).1 := by
  unfold Game.step
  cases op with
  | ready => exact cstep_readyForAll g
  | payAnte => exact cstep_payAnte g hi
  | payBlinds => exact .frame (cf_payBlinds g)
  | next => exact cstep_next g
  | act seat a x =>
    cases seat with
    | none => exact .frame (cf_act g _ a x)
    | some i => exact .frame (cf_act g i a x)

theorem cinv_step (g : Game) (hi : CInv g) (op : Op) : CInv (g.step op).1 := (cstep_step g hi op).inv hi

theorem stable_step (g : Game) (hi : CInv g) (op : Op) : Stable g (g.step op).1 := (cstep_step g hi op).stable hi

theorem cinv_run (g : Game) (hi : CInv g) (ops : List Op) : CInv (g.run ops) := by
  induction ops generalizing g with
  | nil => exact hi
  | cons op ops ih => exact ih _ (cinv_step g hi op)

theorem stable_run (g : Game) (hi : CInv g) (ops : List Op) : Stable g (g.run ops) := by
  induction ops generalizing g with
  | nil => exact Stable.refl g
  | cons op ops ih => exact (stable_step g hi op).trans (ih _ (cinv_step g hi op))

theorem config_players_hole (c : Config) : ∀ p ∈ c.players, p.hole = [] := by
  intro p hp
  simp only [Config.players, List.mem_map] at hp
  obtain ⟨⟨s, i⟩, _, rfl⟩ := hp
  rfl

theorem cards_config_players_length (c : Config) : c.players.length = c.seats.length := by
  simp [Config.players]

theorem cinv_game0 (c : Config) (wc : WFCards c) : CInv c.game0 := by
  have hh := config_players_hole c
  refine ⟨⟨wc.nodup, ?_, ?_, rfl, rfl, ?_, ?_⟩, fun he => by cases he⟩
  · show c.players.length * c.opts.holeCount + 8 ≤ c.opts.deck.length
    rw [cards_config_players_length]; exact wc.long
  · intro p hp
    rw [hh p hp]; rfl
  · show 0 = c.game0.n * 0 + 0 + 0
    simp
  · show c.players.flatMap (·.hole) ++ streetCards [] [] = c.opts.deck.take 0
    rw [List.flatMap_eq_nil_iff.mpr hh]; rfl

theorem cinv_start (c : Config) (wc : WFCards c) (h : (start c).2 = none) : CInv (start c).1 := by
  rw [(start_ok c h).2.2]
  exact ((cf_resetRoundStatus _).trans (cf_requestReady _)).inv (cinv_game0 c wc)

/-- The cards invariant holds in every reachable state of a configuration with a long enough,
    duplicate-free deck. -/
theorem cinv_reachable {g : Game} (h : ReachableC g) : CInv g := by
  obtain ⟨c, ops, _, wc, hs, rfl⟩ := h
  exact cinv_run _ (cinv_start c wc hs) ops

/-- from `Nodup (holes ++ street order)` to `Nodup (holes ++ board ++ burned)` -/
theorem nodup_rearrange (H B F : List Card)
    (hl : (B.length = 0 ∧ F.length = 0) ∨ (B.length = 1 ∧ F.length = 3) ∨ (B.length = 2 ∧ F.length = 4) ∨
          (B.length = 3 ∧ F.length = 5))
    (h : (H ++ streetCards B F).Nodup) : (H ++ F ++ B).Nodup := by
  rcases hl with ⟨hB, hF⟩ | ⟨hB, hF⟩ | ⟨hB, hF⟩ | ⟨hB, hF⟩
  · rcases B with _ | ⟨b, B⟩ <;> simp at hB
    rcases F with _ | ⟨f, F⟩ <;> simp at hF
    simpa [streetCards] using h
  · rcases B with _ | ⟨b, _ | ⟨b2, B⟩⟩ <;> simp at hB
    rcases F with _ | ⟨f1, _ | ⟨f2, _ | ⟨f3, _ | ⟨f4, F⟩⟩⟩⟩ <;> simp at hF
    simp only [streetCards, List.take, List.drop, List.nodup_append, List.nodup_cons, List.mem_cons, List.mem_append,
      List.not_mem_nil, List.nodup_nil, List.append_nil, List.cons_append, List.nil_append] at h ⊢
    grind
  · rcases B with _ | ⟨b, _ | ⟨b2, _ | ⟨b3, B⟩⟩⟩ <;> simp at hB
    rcases F with _ | ⟨f1, _ | ⟨f2, _ | ⟨f3, _ | ⟨f4, _ | ⟨f5, F⟩⟩⟩⟩⟩ <;> simp at hF
    simp only [streetCards, List.take, List.drop, List.nodup_append, List.nodup_cons, List.mem_cons, List.mem_append,
      List.not_mem_nil, List.nodup_nil, List.append_nil, List.cons_append, List.nil_append] at h ⊢
    grind
  · rcases B with _ | ⟨b, _ | ⟨b2, _ | ⟨b3, _ | ⟨b4, B⟩⟩⟩⟩ <;> simp at hB
    rcases F with _ | ⟨f1, _ | ⟨f2, _ | ⟨f3, _ | ⟨f4, _ | ⟨f5, _ | ⟨f6, F⟩⟩⟩⟩⟩⟩ <;> simp at hF
    simp only [streetCards, List.take, List.drop, List.nodup_append, List.nodup_cons, List.mem_cons, List.mem_append,
      List.not_mem_nil, List.nodup_nil, List.cons_append, List.nil_append] at h ⊢
    grind

theorem round_counts (r : Round) :
    (r.burnCount = 0 ∧ r.boardCount = 0) ∨ (r.burnCount = 1 ∧ r.boardCount = 3) ∨
    (r.burnCount = 2 ∧ r.boardCount = 4) ∨ (r.burnCount = 3 ∧ r.boardCount = 5) := by
  cases r <;> decide

end Pokerface

namespace Pokerface
open Game

theorem length_flatMap_const {α β : Type} (f : α → List β) (k : Nat) :
    ∀ (l : List α), (∀ x ∈ l, (f x).length = k) → (l.flatMap f).length = l.length * k
  | [], _ => by simp
  | a :: l, h => by
    have := length_flatMap_const f k l (fun x hx => h x (by simp [hx]))
    simp only [List.flatMap_cons, List.length_append, this, h a (by simp), List.length_cons, Nat.succ_mul]
    omega

theorem CCore.holeCards_length {g : Game} (hc : CCore g) : g.holeCards.length = g.n * g.holeCountNow :=
  length_flatMap_const _ _ _ hc.holes

theorem streetCards_length (B F : List Card)
    (hl : (B.length = 0 ∧ F.length = 0) ∨ (B.length = 1 ∧ F.length = 3) ∨ (B.length = 2 ∧ F.length = 4) ∨
          (B.length = 3 ∧ F.length = 5)) : (streetCards B F).length = F.length + B.length := by
  simp only [streetCards, List.length_append, List.length_take, List.length_drop]
  omega

/-- the hole cards are the top `n·hole` cards of the deck, the table cards the segment after them -/
theorem CCore.segments {g : Game} (hc : CCore g) :
    g.holeCards = g.opts.deck.take (g.n * g.holeCountNow) ∧
    streetCards g.burned g.board =
      (g.opts.deck.drop (g.n * g.holeCountNow)).take (g.board.length + g.burned.length) := by
  have hp := hc.pref
  have hpos : g.deckPos = g.n * g.holeCountNow + (g.board.length + g.burned.length) := by
    rw [hc.pos, hc.board, hc.burned]; omega
  rw [hpos, take_add_dealt] at hp
  have hlen : g.holeCards.length = (g.opts.deck.take (g.n * g.holeCountNow)).length := by
    rw [hc.holeCards_length, List.length_take]
    have := hc.long
    have : g.holeCountNow ≤ g.opts.holeCount := by unfold Game.holeCountNow; split <;> omega
    have := Nat.mul_le_mul_left g.n this
    omega
  exact List.append_inj hp hlen

theorem CCore.pos_le {g : Game} (hc : CCore g) : g.deckPos ≤ g.opts.deck.length := by
  have := hc.pos; have := hc.long
  have h1 : g.holeCountNow ≤ g.opts.holeCount := by unfold Game.holeCountNow; split <;> omega
  have := Nat.mul_le_mul_left g.n h1
  have : g.round.boardCount + g.round.burnCount ≤ 8 := by cases g.round <;> decide
  omega

end Pokerface

namespace Pokerface
open Game

theorem dealStreet_opts (g : Game) : g.dealStreet.opts = g.opts := by
  unfold Game.dealStreet
  split
  · exact (df_dealHoles _ _ _).opts
  all_goals rfl

theorem CStep.opts {g g' : Game} (s : CStep g g') : g'.opts = g.opts := by
  cases s with
  | frame h => exact h.opts
  | deal r h hn => exact ((cf_enterRound_tail _ r).opts.trans (dealStreet_opts _)).trans h.opts
  | ante h hr => exact h.opts

/-- no operation changes the options of the hand -/
theorem opts_run (g : Game) (hi : CInv g) (ops : List Op) : (g.run ops).opts = g.opts := by
  induction ops generalizing g with
  | nil => rfl
  | cons op ops ih =>
    show ((g.step op).1.run ops).opts = _
    rw [ih _ (cinv_step g hi op), (cstep_step g hi op).opts]

end Pokerface
