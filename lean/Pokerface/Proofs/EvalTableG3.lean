import Pokerface.Proofs.EvalTable
/-! C03, step (i), group 3 of 8: kernel evaluation of the class check. -/
namespace Pokerface.C03

theorem nfGroup_3 : nfGroup 3 = true := by decide +kernel

end Pokerface.C03
