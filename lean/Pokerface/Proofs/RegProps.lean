/-
  Small lemmas connecting the system invariant to the property statements.
-/
import Pokerface.Proofs.RegEnv

namespace Pokerface
open Reg

namespace Reg

theorem applyTV_length_le (tv : List (Nat × Int)) (c : RCall) : tv.length ≤ (applyTV tv c).length := by
  cases c <;> simp [applyTV]

theorem applyTVs_length_le (tv : List (Nat × Int)) (cs : List RCall) : tv.length ≤ (applyTVs tv cs).length := by
  induction cs generalizing tv with
  | nil => exact Nat.le_refl _
  | cons c cs ih => exact Nat.le_trans (applyTV_length_le tv c) (ih _)

/-- any valid callback leaves at least one table on the sheet -/
theorem applyTVs_ne_nil (tv : List (Nat × Int)) (cs : List RCall) (hv : validCalls tv cs) (hne : cs ≠ []) :
    applyTVs tv cs ≠ [] := by
  cases cs with
  | nil => exact absurd rfl hne
  | cons c cs =>
    have h1 : 0 < (applyTV tv c).length := by
      cases c with
      | requestTable id ps => simp [applyTV]
      | assign t ps =>
        have : t ∈ tv.map (·.1) := hv.1
        obtain ⟨e, he, _⟩ := List.mem_map.1 this
        simp only [applyTV, List.length_map]
        exact List.length_pos_of_mem he
    have h2 := applyTVs_length_le (applyTV tv c) cs
    intro h
    rw [applyTVs_cons] at h
    rw [h, List.length_nil] at h2
    omega

theorem applyCalls_append (m : List (Nat × List Nat)) (a b : List RCall) :
    Env.applyCalls m (a ++ b) = Env.applyCalls (Env.applyCalls m a) b := by
  simp [Env.applyCalls, List.foldl_append]

/-- callbacks only ever add players to a table -/
theorem applyCalls_grows (m : List (Nat × List Nat)) (cs : List RCall) (e : Nat × List Nat) (he : e ∈ m) :
    ∃ e' ∈ Env.applyCalls m cs, e'.1 = e.1 ∧ e.2.length ≤ e'.2.length := by
  induction cs generalizing m e with
  | nil => exact ⟨e, he, rfl, Nat.le_refl _⟩
  | cons c cs ih =>
    have : ∃ e1 ∈ Env.applyCall m c, e1.1 = e.1 ∧ e.2.length ≤ e1.2.length := by
      cases c with
      | requestTable id ps => exact ⟨e, List.mem_append_left _ he, rfl, Nat.le_refl _⟩
      | assign t ps =>
        refine ⟨if e.1 = t then (e.1, e.2 ++ ps) else e, List.mem_map.2 ⟨e, he, rfl⟩, ?_, ?_⟩
        · split <;> rfl
        · split
          · simp
          · exact Nat.le_refl _
    obtain ⟨e1, h1, h2, h3⟩ := this
    obtain ⟨e2, g1, g2, g3⟩ := ih (Env.applyCall m c) e1 h1
    exact ⟨e2, g1, g2.trans h2, Nat.le_trans h3 g3⟩

end Reg

namespace RSys

theorem step_add_r (s : RSys) (ps ch : List Nat) : (s.step (.add ps ch)).r = (s.r.addPlayers ps ch).1 := by
  simp only [step]
  generalize s.r.addPlayers ps ch = p
  obtain ⟨r', e⟩ := p
  cases e <;> rfl

theorem SInv.members_nil_iff {s : RSys} (h : SInv s) : s.env.members = [] ↔ s.r.tables = [] := by
  have := congrArg List.length h.sim
  simp only [tview, mview, List.length_map] at this
  constructor
  · intro hm; rw [hm] at this; exact List.length_eq_zero_iff.1 this
  · intro ht; rw [ht] at this; exact List.length_eq_zero_iff.1 this.symm

theorem SInv.mem_table {s : RSys} (h : SInv s) {e : Nat × List Nat} (he : e ∈ s.env.members) :
    ∃ tb ∈ s.r.tables, tb.id = e.1 ∧ tb.count = e.2.length := by
  have : (e.1, (e.2.length : Int)) ∈ mview s.env.members := List.mem_map.2 ⟨e, he, rfl⟩
  rw [← h.sim] at this
  obtain ⟨tb, htb, heq⟩ := List.mem_map.1 this
  simp only [Prod.mk.injEq] at heq
  exact ⟨tb, htb, heq.1, heq.2⟩

theorem SInv.capacity {s : RSys} (h : SInv s) {e : Nat × List Nat} (he : e ∈ s.env.members) :
    e.2.length ≤ s.r.max := by
  obtain ⟨tb, htb, _, hc⟩ := h.mem_table he
  have := h.rinv.wf.bnd tb htb
  omega

/-- what `SyncState` answers on a table the environment knows, for any split of its members
    into eliminated and staying ones -/
theorem SInv.sync_known {s : RSys} (h : SInv s) (t : Nat) (elim stay ms : List Nat)
    (hm : s.env.membersOf t = some ms) (hp : ms.Perm (elim ++ stay)) :
    ∃ r1 relc nw t0, s.syncAnswer t elim = (r1, none, relc, nw) ∧ s.r.findTable t = some t0 ∧
      t0.count = ms.length ∧ 0 ≤ relc ∧ relc ≤ (stay.length : Int) + nw.length ∧ (nw = [] ∨ relc = 0) ∧
      s.r.queue = nw ++ r1.queue ∧ r1.calls = [] ∧
      (s.broken t elim = true → relc = stay.length ∧ nw = []) := by
  obtain ⟨r1, relc, nw, t0, hft, hc0, hans, post⟩ := sync_facts h t elim stay ms hm hp
  have hlen := hp.length_eq
  rw [List.length_append] at hlen
  have htb : (adj (-(elim.length : Int)) none t0).count = stay.length := by
    simp only [adj]; omega
  refine ⟨r1, relc, nw, t0, hans, hft, hc0, post.rel0, ?_, post.excl, post.queue, post.calls, ?_⟩
  · rcases post.cases with ⟨_, _, h3, h4⟩ | ⟨a, rq, _, _, h3, _⟩
    · rw [h3, htb, h4]; simp
    · rw [htb] at h3; exact h3
  · intro hb
    rcases post.cases with ⟨_, _, h3, h4⟩ | ⟨a, rq, htab, _, _, _⟩
    · exact ⟨by rw [h3, htb], h4⟩
    · exfalso
      obtain ⟨ht0, hid0⟩ := findTable_some hft
      have hidm : t ∈ r1.tables.map (·.id) := by
        rw [htab, upd_ids _ _ _ (adj_id a rq), syncBase_tables, upd_ids _ _ _ (adj_id _ _)]
        exact List.mem_map.2 ⟨t0, ht0, hid0⟩
      simp only [broken, hans] at hb
      cases hf : r1.findTable t with
      | none => exact findTable_ne_none hidm hf
      | some _ => rw [hf] at hb; cases hb

theorem SInv.unknown_iff {s : RSys} (h : SInv s) (t : Nat) :
    s.env.membersOf t = none ↔ s.r.findTable t = none := by
  have hsf := sim_find s.r.tables s.env.members t h.sim
  unfold Env.membersOf Reg.findTable
  cases h1 : s.r.tables.find? (fun x => x.id == t) <;>
    cases h2 : s.env.members.find? (fun x => x.1 == t) <;> simp_all

end RSys
end Pokerface
