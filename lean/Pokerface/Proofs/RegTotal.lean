/-
  TOTALITY of the environment's validity conditions (`RSys.ok`, `RSys.okAny`): they never block a
  history.  In every reachable state
    * every registration of fresh, distinct ids,
    * every status change (`okAny`; for `ok`: every one that does not return to `Pending`),
    * every sync of every table id with every split of its members into eliminated and staying,
  is valid for SOME dispatch choices and SOME release/keep split — i.e. whatever the real tables
  and the Go runtime's map iteration do, the real history is inside `ReachableAny` (resp.
  `Reachable`), provided the tables follow the instructions.

  The only non-trivial ingredient: whenever `dispatchPlayer` finds a table with `Required > 0`
  there is an admissible choice (that table), and the choices of the two dispatch loops of
  `drainWaitingQueue` can be concatenated (`dispatchLoop_total`, a frame property in the unused
  tail of the choice list).
-/
import Pokerface.Proofs.RegAnyProps

namespace Pokerface
namespace Reg

/-- `r` with its remaining choice inputs replaced -/
def withCh (r : Reg) (ch : List Nat) : Reg := { r with choices := ch }

theorem WF0.withCh {r : Reg} (h : WF0 r) (ch : List Nat) : WF0 (r.withCh ch) :=
  ⟨h.tc, h.nodup, h.idlt, h.nn⟩

theorem WF0.of_withCh {r : Reg} {ch : List Nat} (h : WF0 (r.withCh ch)) : WF0 r :=
  ⟨h.tc, h.nodup, h.idlt, h.nn⟩

theorem findTable_of_mem {r : Reg} (hn : (r.tables.map (·.id)).Nodup) {t : RTable} (ht : t ∈ r.tables) :
    r.findTable t.id = some t := by
  cases hf : r.findTable t.id with
  | none => exact absurd (List.mem_map.2 ⟨t, ht, rfl⟩) (findTable_none hf)
  | some t' =>
    obtain ⟨h1, h2⟩ := findTable_some hf
    rw [eq_of_mem_of_id hn h1 ht h2]

/-- when some table requires players, `dispatchPlayer` has an admissible choice, and what it does
    with that choice does not depend on the rest of the choice list -/
theorem dispatchPlayer_total (r : Reg) (cands : List Nat) (hwf : WF0 r) (hc : cands ≠ [])
    (hany : (r.tables.any fun t => decide (t.required > 0)) = true) (hb : r.badChoice = false) :
    ∃ c rest r1, WF0 r1 ∧ r1.badChoice = false ∧ rest.length < cands.length ∧
      ∀ tail, (r.withCh (c :: tail)).dispatchPlayer cands = some (rest, r1.withCh tail) := by
  obtain ⟨t, ht, hreq⟩ := List.any_eq_true.1 hany
  have hreq' : t.required > 0 := of_decide_eq_true hreq
  have hft := findTable_of_mem hwf.nodup ht
  have hnle : ¬ t.required ≤ 0 := by omega
  have key : ∀ tail, (r.withCh (t.id :: tail)).dispatchPlayer cands =
      some (cands.drop t.required.toNat,
        (({ r with choices := [], calls := r.calls ++ [RCall.assign t.id (cands.take t.required.toNat)] } : Reg).setTable t.id
          fun t' => { t' with required := t'.required - (cands.take t.required.toNat).length,
                              count := t'.count + (cands.take t.required.toNat).length }).withCh tail) := by
    intro tail
    have hft' : (r.withCh (t.id :: tail)).findTable t.id = some t := hft
    have hany' : ((r.withCh (t.id :: tail)).tables.any fun t => decide (t.required > 0)) = true := hany
    unfold dispatchPlayer
    simp only [hany', Bool.not_true, Bool.false_eq_true, if_false]
    have hch : (r.withCh (t.id :: tail)).choices = t.id :: tail := rfl
    rw [hch]
    simp only [hft', hnle, if_false]
    rfl
  refine ⟨t.id, _, _, ?_, ?_, ?_, key⟩
  · have h0 := key []
    have := (dispatchPlayer_spec0 (hwf.withCh _) hc h0 hb).1
    exact this.of_withCh
  · exact hb
  · have hlen : 0 < cands.length := List.length_pos_iff.2 hc
    rw [List.length_drop]; omega

theorem dispatchPlayer_none_of_not_any (r : Reg) (cands : List Nat)
    (hany : (r.tables.any fun t => decide (t.required > 0)) = false) : r.dispatchPlayer cands = none := by
  unfold dispatchPlayer
  simp [hany]

/-- the dispatch loop has admissible choices; it consumes exactly them and leaves the tail -/
theorem dispatchLoop_total (fuel : Nat) : ∀ (cands : List Nat) (r : Reg), WF0 r → r.badChoice = false →
    ∃ ch rest r', WF0 r' ∧ r'.badChoice = false ∧
      ∀ tail, dispatchLoop fuel cands (r.withCh (ch ++ tail)) = (rest, r'.withCh tail) := by
  induction fuel with
  | zero =>
    intro cands r hwf hb
    exact ⟨[], cands, r, hwf, hb, fun tail => rfl⟩
  | succ n ih =>
    intro cands r hwf hb
    by_cases hce : cands = []
    · refine ⟨[], cands, r, hwf, hb, fun tail => ?_⟩
      rw [dispatchLoop, if_pos (Or.inl (by simp [hce]))]
      rfl
    · cases hany : (r.tables.any fun t => decide (t.required > 0)) with
      | false =>
        refine ⟨[], cands, r, hwf, hb, fun tail => ?_⟩
        have hcond : ¬ (cands.isEmpty = true ∨ (r.withCh ([] ++ tail)).badChoice = true) := by
          intro h
          rcases h with h | h
          · exact hce (by simpa using h)
          · have : (r.withCh ([] ++ tail)).badChoice = r.badChoice := rfl
            rw [this, hb] at h; cases h
        rw [dispatchLoop, if_neg hcond, dispatchPlayer_none_of_not_any (r.withCh ([] ++ tail)) cands hany]
        rfl
      | true =>
        obtain ⟨c, rest1, r1, hwf1, hb1, _, hkey⟩ := dispatchPlayer_total r cands hwf hce hany hb
        obtain ⟨ch', rest, r', hwf', hb', hloop⟩ := ih rest1 r1 hwf1 hb1
        refine ⟨c :: ch', rest, r', hwf', hb', fun tail => ?_⟩
        have hcond : ¬ (cands.isEmpty = true ∨ (r.withCh (c :: ch' ++ tail)).badChoice = true) := by
          intro h
          rcases h with h | h
          · exact hce (by simpa using h)
          · have : (r.withCh (c :: ch' ++ tail)).badChoice = r.badChoice := rfl
            rw [this, hb] at h; cases h
        rw [dispatchLoop, if_neg hcond]
        have := hkey (ch' ++ tail)
        rw [List.cons_append, this]
        exact hloop tail

theorem updateTableRequirements_withCh (r : Reg) (ch : List Nat) :
    (r.withCh ch).updateTableRequirements = r.updateTableRequirements.withCh ch := by
  rw [updateTableRequirements_eq, updateTableRequirements_eq]
  have h1 : (r.withCh ch).requiredTables = r.requiredTables := rfl
  have h2 : (r.withCh ch).tables = r.tables := rfl
  have h3 : (r.withCh ch).ceilWl = r.ceilWl := rfl
  rw [h1, h2, h3]
  split <;> rfl

/-- `drainWaitingQueue` has admissible choices -/
theorem drainWaitingQueue_total (r : Reg) (hwf : WF0 r) (hb : r.badChoice = false) :
    ∃ ch, (r.withCh ch).drainWaitingQueue.badChoice = false := by
  by_cases h1 : r.tableCount = 0 ∧ (r.queue.length : Int) ≥ (r.min : Int)
  · refine ⟨[], ?_⟩
    rw [drainWaitingQueue_eq]
    have : (r.withCh []).tableCount = 0 ∧ ((r.withCh []).queue.length : Int) ≥ ((r.withCh []).min : Int) := h1
    rw [if_pos this, allocateTables_badChoice]
    exact hb
  · by_cases h2 : r.tableCount > 0
    · obtain ⟨ch1, c1, r1, hwf1, hb1, hl1⟩ := dispatchLoop_total (r.queue.length + 1) r.queue r hwf hb
      have hx : ∃ r2, WF0 r2 ∧ r2.badChoice = false ∧ ∀ tail,
          (if (!c1.isEmpty) = true then (r1.withCh tail).updateTableRequirements else r1.withCh tail) = r2.withCh tail := by
        by_cases hc1 : (!c1.isEmpty) = true
        · obtain ⟨a, _, _, b, _⟩ := updateTableRequirements_spec0 r1 hwf1 c1
          refine ⟨r1.updateTableRequirements, a, b.trans hb1, fun tail => ?_⟩
          rw [if_pos hc1, updateTableRequirements_withCh]
        · exact ⟨r1, hwf1, hb1, fun tail => by rw [if_neg hc1]⟩
      obtain ⟨r2, hwf2, hb2, hr2⟩ := hx
      obtain ⟨ch2, c2, r3, hwf3, hb3, hl3⟩ := dispatchLoop_total (c1.length + 1) c1 r2 hwf2 hb2
      refine ⟨ch1 ++ ch2, ?_⟩
      rw [drainWaitingQueue_eq]
      have hn1 : ¬ ((r.withCh (ch1 ++ ch2)).tableCount = 0 ∧
          ((r.withCh (ch1 ++ ch2)).queue.length : Int) ≥ ((r.withCh (ch1 ++ ch2)).min : Int)) := h1
      have hp : (r.withCh (ch1 ++ ch2)).tableCount > 0 := h2
      rw [if_neg hn1, if_pos hp]
      have e1 : dispatchLoop ((r.withCh (ch1 ++ ch2)).queue.length + 1) (r.withCh (ch1 ++ ch2)).queue
          (r.withCh (ch1 ++ ch2)) = (c1, r1.withCh ch2) := hl1 ch2
      simp only [e1]
      rw [hr2 ch2]
      have e3 := hl3 []
      rw [List.append_nil] at e3
      rw [e3]
      simp only
      split
      · rw [allocateTables_badChoice]; exact hb3
      · exact hb3
    · refine ⟨[], ?_⟩
      rw [drainWaitingQueue_eq]
      have hn1 : ¬ ((r.withCh []).tableCount = 0 ∧ ((r.withCh []).queue.length : Int) ≥ ((r.withCh []).min : Int)) := h1
      have hn2 : ¬ (r.withCh []).tableCount > 0 := h2
      rw [if_neg hn1, if_neg hn2]
      exact hb

/-- `enterWaitingQueue` has admissible choices -/
theorem enterWaitingQueue_total (r : Reg) (ps : List Nat) (hwf : WF0 r) (hb : r.badChoice = false) :
    ∃ ch, ((r.withCh ch).enterWaitingQueue ps).badChoice = false := by
  by_cases hp : r.status = .pending
  · refine ⟨[], ?_⟩
    unfold enterWaitingQueue
    have : (r.withCh []).status = .pending := hp
    simp only [this, if_true]
    exact hb
  · obtain ⟨ch, hch⟩ := drainWaitingQueue_total { r with queue := r.queue ++ ps } (hwf.setQueue _) hb
    refine ⟨ch, ?_⟩
    unfold enterWaitingQueue
    have : ¬ (r.withCh ch).status = .pending := hp
    simp only [this, if_false]
    exact hch

/-- `AddPlayers` has admissible choices -/
theorem addPlayers_total (r : Reg) (ps : List Nat) (hwf : WF0 r) :
    ∃ ch, (r.addPlayers ps ch).1.badChoice = false := by
  by_cases hs : r.status = .afterRegDeadline
  · refine ⟨[], ?_⟩
    unfold addPlayers
    have : (r.beginOp []).status = .afterRegDeadline := hs
    simp only [this, if_true]
    rfl
  · let r1 : Reg := { r.beginOp [] with playerCount := (r.beginOp []).playerCount + ps.length }
    have hwf1 : WF0 r1 := ⟨hwf.tc, hwf.nodup, hwf.idlt, hwf.nn⟩
    obtain ⟨hwf2, _, _, hb2, _⟩ := updateTableRequirements_spec0 r1 hwf1 []
    obtain ⟨ch, hch⟩ := enterWaitingQueue_total r1.updateTableRequirements ps hwf2 (hb2.trans rfl)
    refine ⟨ch, ?_⟩
    unfold addPlayers
    have : ¬ (r.beginOp ch).status = .afterRegDeadline := hs
    simp only [this, if_false]
    have e : ({ r.beginOp ch with playerCount := (r.beginOp ch).playerCount + ps.length } : Reg) = r1.withCh ch := rfl
    rw [e, updateTableRequirements_withCh]
    exact hch

/-- `SetStatus` has admissible choices -/
theorem setStatus_total (r : Reg) (st : RStatus) (hwf : WF0 r) :
    ∃ ch, (r.setStatus st ch).badChoice = false := by
  by_cases hsame : r.status = st
  · refine ⟨[], ?_⟩
    unfold setStatus
    have : (r.beginOp []).status = st := hsame
    simp only [this, if_true]
    rfl
  · by_cases hd : r.status = .pending ∧ st = .normal
    · let r1 : Reg := { r.beginOp [] with status := st }
      have hwf1 : WF0 r1 := ⟨hwf.tc, hwf.nodup, hwf.idlt, hwf.nn⟩
      obtain ⟨ch, hch⟩ := drainWaitingQueue_total r1 hwf1 rfl
      refine ⟨ch, ?_⟩
      unfold setStatus
      have h1 : ¬ (r.beginOp ch).status = st := hsame
      have h2 : (r.beginOp ch).status = .pending ∧ st = .normal := hd
      simp only []
      rw [if_neg h1, if_pos h2]
      exact hch
    · refine ⟨[], ?_⟩
      unfold setStatus
      have h1 : ¬ (r.beginOp []).status = st := hsame
      have h2 : ¬ ((r.beginOp []).status = .pending ∧ st = .normal) := hd
      simp only []
      rw [if_neg h1, if_neg h2]
      rfl

/-- `ReleasePlayers` has admissible choices -/
theorem releasePlayers_total (r : Reg) (rel : List Nat) (hwf : WF0 r) :
    ∃ ch, (r.releasePlayers rel ch).badChoice = false := by
  obtain ⟨ch, hch⟩ := enterWaitingQueue_total (r.beginOp []) rel (hwf.beginOp []) rfl
  exact ⟨ch, hch⟩

end Reg

namespace RSys
open Reg

/-! ### totality on the widest domain -/

/-- every registration of distinct, never-registered ids is possible -/
theorem SInv0.add_total {s : RSys} (h : SInv0 s) (ps : List Nat) (hnd : ps.Nodup)
    (hfresh : ∀ p ∈ ps, p ∉ s.env.registered) : ∃ ch, s.ok (.add ps ch) := by
  obtain ⟨ch, hch⟩ := addPlayers_total s.r ps h.rinv.wf
  exact ⟨ch, hnd, hfresh, hch⟩

/-- every status change is possible (wide sense) -/
theorem SInv0.status_total {s : RSys} (h : SInv0 s) (st : RStatus) : ∃ ch, s.okAny (.status st ch) :=
  setStatus_total s.r st h.rinv.wf

/-- every sync is possible, with ANY admissible release: any table id (known or not), any split
    `elim`/`stay` of the members of a known table, and ANY split `rel`/`keep` of the members after
    the arrivals in which `rel` has the length the regulator asked for -/
theorem SInv0.sync_total_rel {s : RSys} (h : SInv0 s) (t : Nat) (elim stay rel keep : List Nat)
    (hsplit : ∀ ms, s.env.membersOf t = some ms → ms.Perm (elim ++ stay))
    (hrel : (stay ++ (s.syncAnswer t elim).2.2.2).Perm (rel ++ keep))
    (hlen : (rel.length : Int) = (s.syncAnswer t elim).2.2.1) :
    ∃ ch, s.ok (.sync t elim stay rel keep ch) := by
  cases hm : s.env.membersOf t with
  | none => exact ⟨[], by simp only [ok, hm]⟩
  | some ms =>
    have hp := hsplit ms hm
    obtain ⟨r1, relc, nw, t0, hans, _, _, h0, hle, _, _, _, hbrk⟩ := h.sync_known t elim stay ms hm hp
    have hwf1 : WF0 r1 := by
      obtain ⟨r1', relc', nw', t0', _, _, hans', post⟩ := sync_facts0 h t elim stay ms hm hp
      have e := hans.symm.trans hans'
      simp only [Prod.mk.injEq] at e
      rw [e.1]; exact post.wf
    rw [hans] at hrel hlen
    simp only at hrel hlen
    obtain ⟨ch, hch⟩ := releasePlayers_total r1 rel hwf1
    refine ⟨ch, ?_⟩
    simp only [ok, hm, hans]
    refine ⟨hp, hrel, hlen, ?_, Or.inr hch⟩
    intro hb
    obtain ⟨e1, e2⟩ := hbrk hb
    have hl := hrel.length_eq
    rw [e2, List.append_nil, List.length_append] at hl
    exact List.length_eq_zero_iff.1 (by omega)

/-- every sync is possible: any table id (known or not), any split `elim`/`stay` of the members
    of a known table; the released players can be taken to be the first `release count` of
    `stay ++ new players` -/
theorem SInv0.sync_total {s : RSys} (h : SInv0 s) (t : Nat) (elim stay : List Nat)
    (hsplit : ∀ ms, s.env.membersOf t = some ms → ms.Perm (elim ++ stay)) :
    ∃ rel keep ch, s.ok (.sync t elim stay rel keep ch) := by
  cases hm : s.env.membersOf t with
  | none => exact ⟨[], [], [], by simp only [ok, hm]⟩
  | some ms =>
    have hp := hsplit ms hm
    obtain ⟨r1, relc, nw, t0, hans, _, _, h0, hle, _, _, _, _⟩ := h.sync_known t elim stay ms hm hp
    obtain ⟨ch, hch⟩ := h.sync_total_rel t elim stay ((stay ++ nw).take relc.toNat) ((stay ++ nw).drop relc.toNat)
      hsplit (by rw [hans, List.take_append_drop]) (by rw [hans, List.length_take, List.length_append]; simp only; omega)
    exact ⟨_, _, ch, hch⟩

/-! ### the same, from reachability -/

theorem ReachableAny.add_total {s : RSys} (h : ReachableAny s) (ps : List Nat) (hnd : ps.Nodup)
    (hfresh : ∀ p ∈ ps, p ∉ s.env.registered) : ∃ ch, s.okAny (.add ps ch) :=
  (SInv0.of_reachable h).add_total ps hnd hfresh

theorem ReachableAny.status_total {s : RSys} (h : ReachableAny s) (st : RStatus) :
    ∃ ch, s.okAny (.status st ch) :=
  (SInv0.of_reachable h).status_total st

theorem ReachableAny.sync_total {s : RSys} (h : ReachableAny s) (t : Nat) (elim stay : List Nat)
    (hsplit : ∀ ms, s.env.membersOf t = some ms → ms.Perm (elim ++ stay)) :
    ∃ rel keep ch, s.okAny (.sync t elim stay rel keep ch) :=
  (SInv0.of_reachable h).sync_total t elim stay hsplit

theorem ReachableAny.sync_total_rel {s : RSys} (h : ReachableAny s) (t : Nat) (elim stay rel keep : List Nat)
    (hsplit : ∀ ms, s.env.membersOf t = some ms → ms.Perm (elim ++ stay))
    (hrel : (stay ++ (s.syncAnswer t elim).2.2.2).Perm (rel ++ keep))
    (hlen : (rel.length : Int) = (s.syncAnswer t elim).2.2.1) :
    ∃ ch, s.okAny (.sync t elim stay rel keep ch) :=
  (SInv0.of_reachable h).sync_total_rel t elim stay rel keep hsplit hrel hlen

/-! ### totality on the forward domain of C19/C20 (`ok`): the only operation excluded is a
    `SetStatus(Pending)` on a competition that has left `Pending` -/

theorem Reachable.add_total {s : RSys} (h : Reachable s) (ps : List Nat) (hnd : ps.Nodup)
    (hfresh : ∀ p ∈ ps, p ∉ s.env.registered) : ∃ ch, s.ok (.add ps ch) :=
  (SInv0.of_reachable h.any).add_total ps hnd hfresh

theorem Reachable.status_total {s : RSys} (h : Reachable s) (st : RStatus)
    (hfwd : st ≠ .pending ∨ s.r.status = .pending) : ∃ ch, s.ok (.status st ch) := by
  obtain ⟨ch, hch⟩ := (SInv0.of_reachable h.any).status_total st
  exact ⟨ch, hfwd, hch⟩

theorem Reachable.sync_total {s : RSys} (h : Reachable s) (t : Nat) (elim stay : List Nat)
    (hsplit : ∀ ms, s.env.membersOf t = some ms → ms.Perm (elim ++ stay)) :
    ∃ rel keep ch, s.ok (.sync t elim stay rel keep ch) :=
  (SInv0.of_reachable h.any).sync_total t elim stay hsplit

end RSys
end Pokerface
