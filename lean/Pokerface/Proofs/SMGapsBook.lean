/-
  Review gap (C18, "a player is never seated twice"): double booking is excluded for every *disciplined*
  history — one in which a player only asks to join while he is not sitting anywhere.  Unlike the
  `(joinPids ops).Nodup` hypothesis of `run_noDoubleBooking`, this allows a player to retry after a refused
  join and to join again after leaving.
-/
import Pokerface.Proofs.SMBook

namespace Pokerface
namespace SM

/-- A history is *disciplined* when every `join` operation (accepted or refused, any seat argument) is issued
for a player id that sits on no seat of the state in which the operation is carried out; operations other
than `join` are unrestricted. -/
inductive Disciplined : SM → List SMOp → Prop
  | nil (sm : SM) : Disciplined sm []
  | join {sm : SM} {seat : Int} {pid : Nat} {c : Option Nat} {ops : List SMOp} :
      (∀ i, sm.pidAt i ≠ some pid) → Disciplined (sm.step (.join seat pid c)).1 ops →
      Disciplined sm (.join seat pid c :: ops)
  | other {sm : SM} {op : SMOp} {ops : List SMOp} :
      isJoin op = false → Disciplined (sm.step op).1 ops → Disciplined sm (op :: ops)

/-- One operation keeps `NoDoubleBooking` when, in case it is a `join`, its player sits nowhere. -/
theorem step_noDoubleBooking {sm : SM} (h : Inv sm) (hnd : NoDoubleBooking sm) (op : SMOp)
    (hop : ∀ seat pid c, op = .join seat pid c → ∀ i, sm.pidAt i ≠ some pid) :
    NoDoubleBooking (sm.step op).1 := by
  rcases step_pid_cases h op with hA | ⟨i, hi, hB⟩ | ⟨i, seat, pid, c, rfl, _, hi1, hC⟩
  · intro a b p ha hb; rw [hA] at ha hb; exact hnd a b p ha hb
  · intro a b p ha hb
    by_cases ha' : a = i
    · subst ha'; rw [hi] at ha; cases ha
    · by_cases hb' : b = i
      · subst hb'; rw [hi] at hb; cases hb
      · rw [hB a ha'] at ha; rw [hB b hb'] at hb; exact hnd a b p ha hb
  · have hfr := hop seat pid c rfl
    intro a b p ha hb
    by_cases ha' : a = i
    · by_cases hb' : b = i
      · rw [ha', hb']
      · subst ha'; rw [hi1] at ha; cases ha
        rw [hC b hb'] at hb
        exact absurd hb (hfr b)
    · by_cases hb' : b = i
      · subst hb'; rw [hi1] at hb; cases hb
        rw [hC a ha'] at ha
        exact absurd ha (hfr a)
      · rw [hC a ha'] at ha; rw [hC b hb'] at hb; exact hnd a b p ha hb

/-- Disciplined histories never seat a player twice. -/
theorem run_noDoubleBooking_disciplined {sm : SM} (h : Inv sm) (hnd : NoDoubleBooking sm) {ops : List SMOp}
    (hd : Disciplined sm ops) : NoDoubleBooking (sm.run ops) := by
  induction hd with
  | nil sm => exact hnd
  | @join sm seat pid c ops hfr _ ih =>
    rw [run_cons]
    apply ih (step_inv h _)
    apply step_noDoubleBooking h hnd
    intro seat' pid' c' he
    cases he; exact hfr
  | @other sm op ops hno _ ih =>
    rw [run_cons]
    apply ih (step_inv h _)
    apply step_noDoubleBooking h hnd
    intro seat' pid' c' he
    subst he; simp [isJoin] at hno

theorem run_append (sm : SM) (a b : List SMOp) : sm.run (a ++ b) = (sm.run a).run b := by
  simp [run, List.foldl_append]

/-- Every prefix of a disciplined history is disciplined. -/
theorem Disciplined.prefix {sm : SM} {a b : List SMOp} (hd : Disciplined sm (a ++ b)) : Disciplined sm a := by
  induction a generalizing sm with
  | nil => exact Disciplined.nil sm
  | cons op a ih =>
    cases hd with
    | join hfr hrest => exact Disciplined.join hfr (ih hrest)
    | other hno hrest => exact Disciplined.other hno (ih hrest)

/-! ### a decision procedure (used by the non-vacuity examples) -/

/-- The player ids sitting somewhere. -/
def seatedPids (sm : SM) : List Nat := sm.seats.filterMap (·.player)

theorem mem_seatedPids (sm : SM) (pid : Nat) : pid ∈ sm.seatedPids ↔ ∃ i, sm.pidAt i = some pid := by
  unfold seatedPids pidAt
  rw [List.mem_filterMap]
  constructor
  · rintro ⟨s, hs, hp⟩
    obtain ⟨i, hi⟩ := List.mem_iff_getElem?.mp hs
    exact ⟨i, by simp [hi, hp]⟩
  · rintro ⟨i, hi⟩
    cases hs : sm.seats[i]? with
    | none => simp [hs] at hi
    | some s =>
      simp [hs] at hi
      exact ⟨s, List.mem_of_getElem? hs, hi⟩

theorem notSeated_iff (sm : SM) (pid : Nat) : (∀ i, sm.pidAt i ≠ some pid) ↔ pid ∉ sm.seatedPids := by
  rw [mem_seatedPids]
  constructor
  · rintro h ⟨i, hi⟩; exact h i hi
  · intro h i hi; exact h ⟨i, hi⟩

/-- Executable check of `Disciplined`. -/
def disciplinedB : SM → List SMOp → Bool
  | _, [] => true
  | sm, op :: ops =>
    (match op with
      | .join _ pid _ => !(sm.seatedPids.contains pid)
      | _ => true) && disciplinedB (sm.step op).1 ops

theorem disciplined_iff_check (sm : SM) (ops : List SMOp) : Disciplined sm ops ↔ disciplinedB sm ops = true := by
  induction ops generalizing sm with
  | nil => exact ⟨fun _ => rfl, fun _ => Disciplined.nil sm⟩
  | cons op ops ih =>
    constructor
    · intro hd
      cases hd with
      | join hfr hrest =>
        have := (notSeated_iff _ _).mp hfr
        simp [disciplinedB, this, (ih _).mp hrest]
      | other hno hrest =>
        cases op <;> simp [isJoin] at hno <;> simp [disciplinedB, (ih _).mp hrest]
    · intro hc
      cases op with
      | join seat pid c =>
        simp [disciplinedB] at hc
        exact Disciplined.join ((notSeated_iff _ _).mpr hc.1) ((ih _).mpr hc.2)
      | seat id => simp [disciplinedB] at hc; exact Disciplined.other rfl ((ih _).mpr hc)
      | reserve id => simp [disciplinedB] at hc; exact Disciplined.other rfl ((ih _).mpr hc)
      | leave id => simp [disciplinedB] at hc; exact Disciplined.other rfl ((ih _).mpr hc)
      | next => simp [disciplinedB] at hc; exact Disciplined.other rfl ((ih _).mpr hc)

instance (sm : SM) (ops : List SMOp) : Decidable (Disciplined sm ops) :=
  decidable_of_iff _ (disciplined_iff_check sm ops).symm

/-! ### the older hypothesis is a special case -/

/-- Histories whose join pids are pairwise distinct and fresh (the hypothesis of `run_noDoubleBooking`) are
disciplined. -/
theorem disciplined_of_nodup {sm : SM} (h : Inv sm) (ops : List SMOp)
    (hfresh : ∀ i p, sm.pidAt i = some p → p ∉ joinPids ops) (hops : (joinPids ops).Nodup) :
    Disciplined sm ops := by
  induction ops generalizing sm with
  | nil => exact Disciplined.nil sm
  | cons op ops ih =>
    have hinv := step_inv h op
    -- freshness is kept by every step
    have hkeep : ∀ (rest : List Nat), (∀ i p, sm.pidAt i = some p → p ∉ rest) →
        (∀ seat pid c, op = .join seat pid c → pid ∉ rest) →
        ∀ i p, (sm.step op).1.pidAt i = some p → p ∉ rest := by
      intro rest hfr hj a p ha
      rcases step_pid_cases h op with hA | ⟨i, hi, hB⟩ | ⟨i, seat, pid, c, he, _, hi1, hC⟩
      · rw [hA] at ha; exact hfr a p ha
      · by_cases ha' : a = i
        · subst ha'; rw [hi] at ha; cases ha
        · rw [hB a ha'] at ha; exact hfr a p ha
      · by_cases ha' : a = i
        · subst ha'; rw [hi1] at ha; cases ha; exact hj seat p c he
        · rw [hC a ha'] at ha; exact hfr a p ha
    cases op with
    | join seat pid c =>
      simp only [joinPids, List.nodup_cons] at hops
      refine Disciplined.join ?_ (ih hinv ?_ hops.2)
      · intro i hi
        exact hfresh i pid hi (by simp [joinPids])
      · apply hkeep
        · intro i p hi; have := hfresh i p hi; simp [joinPids] at this; exact this.2
        · intro seat' pid' c' he; cases he; exact hops.1
    | seat id =>
      exact Disciplined.other rfl (ih hinv (hkeep _ (by simpa [joinPids] using hfresh) (by intro _ _ _ he; cases he))
        (by simpa [joinPids] using hops))
    | reserve id =>
      exact Disciplined.other rfl (ih hinv (hkeep _ (by simpa [joinPids] using hfresh) (by intro _ _ _ he; cases he))
        (by simpa [joinPids] using hops))
    | leave id =>
      exact Disciplined.other rfl (ih hinv (hkeep _ (by simpa [joinPids] using hfresh) (by intro _ _ _ he; cases he))
        (by simpa [joinPids] using hops))
    | next =>
      exact Disciplined.other rfl (ih hinv (hkeep _ (by simpa [joinPids] using hfresh) (by intro _ _ _ he; cases he))
        (by simpa [joinPids] using hops))

end SM
end Pokerface
