import Pokerface.Proofs.Forced
import Pokerface.Proofs.GapsAClose
import Pokerface.Proofs.GapsAStatic
/-
  When does a betting round open?  Helpers for Properties/C05Opens.lean.
  * `Folds`: the frame "nobody's fold flag changes" — kept by every table operation (`ReadyForAll`, `PayAnte`,
    `PayBlinds`, `Next`); so after the forced bets nobody has folded (`noFold_afterForcedBets`);
  * `openRound_opens` / `startRound'_opens`: on a state where nobody is marked as having acted and at least two
    players are left, `StartRound` opens a betting round when somebody can move — and closes it at once otherwise;
  * `movable_afterForcedBets`: the number of players who can move after the forced bets, read off the configuration.
-/
namespace Pokerface
open Game

/-! ### the frame `Folds` -/

structure Folds (g g' : Game) : Prop where
  fold : g'.players.map (·.fold) = g.players.map (·.fold)

theorem Folds.refl (g : Game) : Folds g g := ⟨rfl⟩
theorem Folds.trans {a b c : Game} (h1 : Folds a b) (h2 : Folds b c) : Folds a c := ⟨h2.fold.trans h1.fold⟩

theorem Mov.folds {g g' : Game} (h : Mov g g') : Folds g g' := by
  have := congrArg (List.map Prod.fst) h.mov
  simp only [List.map_map, Function.comp_def, Player.mov] at this
  exact ⟨this⟩

theorem folds_modP (g : Game) (i : Nat) (f : Player → Player) (hf : ∀ p, (f p).fold = p.fold) : Folds g (g.modP i f) :=
  ⟨by simp [Game.modP, map_modify_of_proj (·.fold) f hf]⟩

/-- nobody has folded -/
def NoFold (g : Game) : Prop := ∀ p ∈ g.players, p.fold = false

theorem Folds.noFold {g g' : Game} (h : Folds g g') (hn : NoFold g) : NoFold g' := by
  intro p hp
  have : p.fold ∈ g'.players.map (·.fold) := List.mem_map_of_mem (f := (·.fold)) hp
  rw [h.fold] at this
  obtain ⟨q, hq, hqe⟩ := List.mem_map.mp this
  rw [← hqe]; exact hn q hq

theorem NoFold.alive {g : Game} (h : NoFold g) : g.aliveCount = g.n := by
  unfold Game.aliveCount Game.n
  rw [List.filter_eq_self.mpr]
  intro p hp
  simp [h p hp]

theorem folds_payAllin (g : Game) (i : Nat) (p : Player) (w : Bool) : Folds g (g.payAllin i p w) := by
  unfold Game.payAllin
  have h1 : Folds g ((g.addRoundPot (p.initial - p.wager)).modP i goAllin) :=
    (mov_addRoundPot g _).folds.trans (folds_modP _ i _ (fun _ => rfl))
  simp only
  split
  · have h2 : Folds g (if p.initial > g.cw then ((g.addRoundPot (p.initial - p.wager)).modP i goAllin).setCw p.initial
        else (g.addRoundPot (p.initial - p.wager)).modP i goAllin) := by
      split
      · exact h1.trans (mov_setCw _ _).folds
      · exact h1
    split
    · exact h2.trans (mov_becomeRaiser _ i).folds
    · exact h2.trans (mov_resetActed _).folds
  · exact h1

theorem folds_payPart (g : Game) (i : Nat) (p : Player) (c : Int) (w : Bool) : Folds g (g.payPart i p c w) := by
  unfold Game.payPart
  have h1 : Folds g ((g.modP i (putWager (p.wager + c))).addRoundPot c) :=
    (folds_modP g i (putWager (p.wager + c)) (fun _ => rfl)).trans (mov_addRoundPot _ _).folds
  simp only
  split
  · exact (h1.trans (mov_setCw _ _).folds).trans (mov_becomeRaiser _ i).folds
  · exact h1

theorem folds_pay (g : Game) (i : Nat) (c : Int) (w : Bool) : Folds g (g.pay i c w) := by
  unfold Game.pay
  split
  · exact Folds.refl g
  · split
    · exact folds_payAllin g i _ w
    · exact folds_payPart g i _ c w

theorem folds_payBlind (g : Game) (i : Nat) : Folds g (g.payBlind i) := by
  unfold Game.payBlind
  split
  · exact Folds.refl g
  · exact folds_pay g i _ true

theorem folds_foldl_payBlind : ∀ (is : List Nat) (g : Game), Folds g (is.foldl payBlind g)
  | [], g => Folds.refl g
  | i :: is, g => (folds_payBlind g i).trans (folds_foldl_payBlind is _)

theorem folds_payAnteLoop : ∀ (is : List Nat) (g : Game), Folds g (payAnteLoop is g).1
  | [], g => Folds.refl g
  | i :: is, g => by
    unfold Game.payAnteLoop
    split
    · exact Folds.refl g
    · split
      · exact Folds.refl g
      · exact (folds_pay g i _ false).trans (folds_payAnteLoop is _)

theorem mov_readiness (g : Game) : Mov g g.readiness := by
  unfold Game.readiness
  split
  · split
    · exact mov_setEvent g _
    · exact mov_enterRound g _
  · exact mov_startRound g

theorem mov_antePaid (g : Game) : Mov g g.antePaid := by
  unfold Game.antePaid
  exact (((((mov_resetAllAllowed g).trans (mov_setEvent _ _)).trans (mov_updatePots _)).trans
    (mov_resetAllPlayerStatus _)).trans (mov_resetRoundStatus _)).trans (mov_enterRound _ _)

theorem mov_blindsPaid (g : Game) : Mov g g.blindsPaid := by
  unfold Game.blindsPaid
  exact (((mov_setPrev g _).trans (mov_resetAllAllowed _)).trans (mov_setEvent _ _)).trans (mov_prepareRound _)

theorem mov_nextRound (g : Game) : Mov g g.nextRound := by
  unfold Game.nextRound
  exact ((mov_resetRoundStatus g).trans (mov_resetAllPlayerStatus _)).trans (mov_nextRound' _)

/-- no table operation (accepted or refused) changes a fold flag: only the player action `Fold` does -/
theorem folds_step_table (g : Game) (op : Op) (hop : ∀ seat a x, op ≠ .act seat a x) : Folds g (g.step op).1 := by
  cases op with
  | ready =>
    simp only [Game.step]
    unfold Game.readyForAll
    split
    · exact Folds.refl g
    · exact ((mov_resetAllAllowed g).trans (mov_readiness _)).folds
  | payAnte =>
    simp only [Game.step]
    unfold Game.payAnte
    split
    · exact Folds.refl g
    · split
      · exact Folds.refl g
      · have hq := folds_payAnteLoop g.seatsFromDealer g
        split
        · rename_i g' e heq
          have : g' = (payAnteLoop g.seatsFromDealer g).1 := by rw [heq]
          rw [this]; exact hq
        · rename_i g' heq
          have e : g' = (payAnteLoop g.seatsFromDealer g).1 := by rw [heq]
          simp only
          rw [e]
          exact hq.trans (mov_antePaid _).folds
  | payBlinds =>
    simp only [Game.step]
    unfold Game.payBlinds
    split
    · exact Folds.refl g
    · exact (folds_foldl_payBlind g.seatsFromDealer g).trans (mov_blindsPaid _).folds
  | next =>
    simp only [Game.step]
    unfold Game.next
    split
    · exact Folds.refl g
    · split
      · exact Folds.refl g
      · exact (mov_nextRound g).folds
  | act seat a x => exact absurd rfl (hop seat a x)

theorem folds_run_table : ∀ (ops : List Op) (g : Game), (∀ op ∈ ops, ∀ seat a x, op ≠ .act seat a x) → Folds g (g.run ops)
  | [], g, _ => Folds.refl g
  | op :: ops, g, h =>
    (folds_step_table g op (h op (by simp))).trans (folds_run_table ops _ (fun o ho => h o (by simp [ho])))

theorem noFold_config (c : Config) : ∀ p ∈ c.players, p.fold = false := by
  intro p hp
  unfold Config.players at hp
  obtain ⟨⟨s, i⟩, _, rfl⟩ := List.mem_map.mp hp
  rfl

theorem noFold_start (c : Config) (hs : (start c).2 = none) : NoFold (start c).1 := by
  obtain ⟨_, _, he⟩ := start_ok c hs
  rw [he]
  exact ((mov_resetRoundStatus c.game0).trans (mov_requestReady _)).folds.noFold (noFold_config c)

theorem forcedOps_table (m : Meta) : ∀ op ∈ forcedOps m, ∀ seat a x, op ≠ .act seat a x := by
  intro op hop seat a x
  unfold forcedOps at hop
  by_cases h1 : m.ante > 0 <;> by_cases h2 : m.noBlinds <;> simp [h1, h2] at hop
  all_goals (rcases hop with rfl | rfl | rfl <;> simp)

/-- after the forced bets nobody has folded -/
theorem noFold_afterForcedBets (c : Config) (hs : (start c).2 = none) : NoFold (afterForcedBets c) := by
  rw [afterForcedBets_eq_run]
  exact (folds_run_table _ _ (forcedOps_table c.opts)).noFold (noFold_start c hs)

/-! ### when `StartRound` opens a betting round -/

theorem movable_le_alive (g : Game) : g.movableCount ≤ g.aliveCount := by
  unfold Game.movableCount Game.aliveCount
  have : (fun p : Player => !(p.fold || p.stack == 0)) = fun p => (!(p.stack == 0)) && (!p.fold) := by
    funext p; cases p.fold <;> simp
  rw [this, ← List.filter_filter]
  exact List.length_filter_le _ _

theorem exists_of_movable_ne_zero {g : Game} (h : g.movableCount ≠ 0) :
    ∃ (j : Nat) (q : Player), g.players[j]? = some q ∧ q.fold = false ∧ q.stack ≠ 0 := by
  unfold Game.movableCount at h
  cases hl : g.players.filter (fun p => !(p.fold || p.stack == 0)) with
  | nil => rw [hl] at h; exact absurd rfl h
  | cons q _ =>
    have hm : q ∈ g.players.filter (fun p => !(p.fold || p.stack == 0)) := by rw [hl]; simp
    rw [List.mem_filter] at hm
    obtain ⟨j, hj⟩ := List.getElem?_of_mem hm.1
    have h2 := hm.2
    simp only [Bool.not_eq_true', Bool.or_eq_false_iff, beq_eq_false_iff_ne, ne_eq] at h2
    exact ⟨j, q, hj, h2.1, h2.2⟩

/-- on a state where nobody is marked as having acted, at least two players are left and somebody can move,
    `EmitEvent(RoundStarted)` asks the next seat -/
theorem openRound_opens (g : Game) (hs : Struct g) (hu : AllUnacted g) (h1 : g.aliveCount ≠ 1)
    (hm : g.movableCount ≠ 0) : g.openRound = (g.setEvent .roundStarted).setCurrentPlayer g.nextIdx := by
  unfold Game.openRound Game.requestPlayerAction
  rw [if_neg (show ¬ (g.setEvent .roundStarted).aliveCount = 1 from h1),
    if_neg (show ¬ (g.setEvent .roundStarted).movableCount = 0 from hm)]
  obtain ⟨p, hp⟩ := flow_getElem?_nextIdx hs
  have hp' : (g.setEvent .roundStarted).players[(g.setEvent .roundStarted).nextIdx]? = some p := hp
  rw [hp']
  simp only
  rw [if_neg (by simp [hu p (List.mem_of_getElem? hp)])]
  rfl

theorem openRound_opens_event (g : Game) (hs : Struct g) (hu : AllUnacted g) (h1 : g.aliveCount ≠ 1)
    (hm : g.movableCount ≠ 0) : g.openRound.event = .roundStarted := by
  rw [openRound_opens g hs hu h1 hm]; rfl

/-- `StartRound` (after `ResetAllPlayerAllowedActions`) on a state where nobody is marked and at least two players
    are left: a betting round is opened when somebody can move … -/
theorem startRound'_opens (g : Game) (hs : Struct g) (hu : AllUnacted g) (h1 : g.aliveCount ≠ 1)
    (hm : g.movableCount ≠ 0) : g.startRound'.event = .roundStarted := by
  unfold Game.startRound'
  have n1 := noChip_setCurrentPlayer_dealer g
  have a1 := acts_setCurrentPlayer g g.dealerIdx
  have m1 := mov_setCurrentPlayer g g.dealerIdx
  by_cases hr : g.round = .preflop
  · rw [if_pos hr, if_neg hm]
    have m2 := m1.trans (mov_seekBB g.n _)
    exact openRound_opens_event _ ((noChip_seekBB _ _).struct (n1.struct hs)) ((a1.trans (acts_seekBB _ _)).allUnacted hu)
      (by rw [m2.alive]; exact h1) (by rw [m2.movable]; exact hm)
  · rw [if_neg hr]
    exact openRound_opens_event _ (n1.struct hs) (a1.allUnacted hu) (by rw [m1.alive]; exact h1)
      (by rw [m1.movable]; exact hm)

/-- … and in the preflop round it is closed at once when nobody can -/
theorem startRound'_preflop_closed (g : Game) (hr : g.round = .preflop) (hm : g.movableCount = 0) :
    g.startRound' = g.roundClosed := by
  unfold Game.startRound'
  rw [if_pos hr, if_pos hm]

/-- `ReadyForAll` in a round (any street): with at least two players left, a betting round opens iff somebody can
    move; the stacks, the folds and the street are as before -/
theorem ready_opens_iff (g : Game) (hs : Struct g) (he : g.event = .readyRequested) (hrn : g.round ≠ .none)
    (h1 : g.aliveCount ≠ 1) :
    ((g.step .ready).1.event = .roundStarted ↔ g.movableCount ≠ 0) ∧
    (g.movableCount = 0 → g.round = .preflop → (g.step .ready).1.event = .roundClosed) := by
  rw [ready_opens g he hrn]
  have nc : NoChip g g.resetAllAllowed.resetAllAllowed := (noChip_resetAllAllowed g).trans (noChip_resetAllAllowed _)
  have m : Mov g g.resetAllAllowed.resetAllAllowed := (mov_resetAllAllowed g).trans (mov_resetAllAllowed _)
  have hu : AllUnacted g.resetAllAllowed.resetAllAllowed := allUnacted_resetAllAllowed _
  constructor
  · constructor
    · intro hev hm0
      by_cases hr : g.round = .preflop
      · rw [startRound'_preflop_closed g.resetAllAllowed.resetAllAllowed hr (by rw [m.movable]; exact hm0)] at hev
        cases hev
      · unfold Game.startRound' at hev
        rw [if_neg (show ¬ g.resetAllAllowed.resetAllAllowed.round = .preflop from hr)] at hev
        unfold Game.openRound Game.requestPlayerAction at hev
        have m1 := m.trans (mov_setCurrentPlayer _ g.resetAllAllowed.resetAllAllowed.dealerIdx)
        by_cases ha : ((g.resetAllAllowed.resetAllAllowed.setCurrentPlayer
            g.resetAllAllowed.resetAllAllowed.dealerIdx).setEvent .roundStarted).aliveCount = 1
        · rw [if_pos ha] at hev; cases hev
        · rw [if_neg ha, if_pos (show ((g.resetAllAllowed.resetAllAllowed.setCurrentPlayer
            g.resetAllAllowed.resetAllAllowed.dealerIdx).setEvent .roundStarted).movableCount = 0 by
              show (g.resetAllAllowed.resetAllAllowed.setCurrentPlayer _).movableCount = 0
              rw [m1.movable]; exact hm0)] at hev
          cases hev
    · intro hm
      exact startRound'_opens _ (nc.struct hs) hu (by rw [m.alive]; exact h1) (by rw [m.movable]; exact hm)
  · intro hm0 hr
    rw [startRound'_preflop_closed g.resetAllAllowed.resetAllAllowed hr (by rw [m.movable]; exact hm0)]
    rfl

theorem ready_accepted (g : Game) (he : g.event = .readyRequested) : (g.step .ready).2 = none := by
  simp [Game.step, Game.readyForAll, he]

/-- `Next` on a closed river round ends the hand -/
theorem next_river (g : Game) (he : g.event = .roundClosed) (hr : g.round = .river) :
    (g.step .next).2 = none ∧ (g.step .next).1.event = .gameClosed ∧ (g.step .next).1.aliveCount = g.aliveCount := by
  have e : g.step .next = (g.nextRound, none) := by
    simp [Game.step, Game.next, he, hr]
  rw [e]
  refine ⟨rfl, ?_, (mov_nextRound g).alive⟩
  unfold Game.nextRound Game.nextRound'
  have hr' : g.resetRoundStatus.resetAllPlayerStatus.round = .river := hr
  split
  · rfl
  · simp only [hr']; rfl

/-! ### streets dealt without a betting round -/

/-- a closed round with at least two players left of whom at most one has chips -/
structure ClosedNoBet (g : Game) : Prop where
  ev : g.event = .roundClosed
  alive : 2 ≤ g.aliveCount
  mov : g.movableCount ≤ 1

theorem closedNoBet_next (g : Game) (h : ClosedNoBet g) (hr : g.round = .preflop ∨ g.round = .flop ∨ g.round = .turn) :
    (g.step .next).2 = none ∧ ClosedNoBet (g.step .next).1 ∧ (g.step .next).1.round.idx = g.round.idx + 1 ∧
    (g.step .next).1.aliveCount = g.aliveCount := by
  obtain ⟨a, b, c, _, d, e⟩ := next_street g h.ev (by have := h.alive; omega) hr
  exact ⟨a, ⟨c h.mov, by rw [e]; exact h.alive, by rw [d]; exact h.mov⟩, b, e⟩

theorem round_of_idx (r : Round) :
    (r.idx = 1 → r = .preflop) ∧ (r.idx = 2 → r = .flop) ∧ (r.idx = 3 → r = .turn) ∧ (r.idx = 4 → r = .river) := by
  cases r <;> simp [Round.idx]

/-- from a closed preflop round with at most one stack left: flop, turn and river are dealt by `Next` without a betting
    round (each `Next` is accepted and ends in a closed round), and the fourth `Next` closes the hand -/
theorem closed_chain (g : Game) (h : ClosedNoBet g) (hr : g.round = .preflop) :
    ((g.step .next).2 = none ∧ ClosedNoBet (g.run [.next]) ∧ (g.run [.next]).round = .flop) ∧
    (((g.run [.next]).step .next).2 = none ∧ ClosedNoBet (g.run [.next, .next]) ∧ (g.run [.next, .next]).round = .turn) ∧
    (((g.run [.next, .next]).step .next).2 = none ∧ ClosedNoBet (g.run [.next, .next, .next]) ∧
      (g.run [.next, .next, .next]).round = .river) ∧
    (((g.run [.next, .next, .next]).step .next).2 = none ∧ (g.run [.next, .next, .next, .next]).event = .gameClosed ∧
      (g.run [.next, .next, .next, .next]).aliveCount = g.aliveCount) := by
  obtain ⟨a1, c1, r1, l1⟩ := closedNoBet_next g h (Or.inl hr)
  have hr1 : (g.step .next).1.round = .flop := (round_of_idx _).2.1 (by rw [r1, hr]; rfl)
  obtain ⟨a2, c2, r2, l2⟩ := closedNoBet_next _ c1 (Or.inr (Or.inl hr1))
  have hr2 : ((g.step .next).1.step .next).1.round = .turn := (round_of_idx _).2.2.1 (by rw [r2, hr1]; rfl)
  obtain ⟨a3, c3, r3, l3⟩ := closedNoBet_next _ c2 (Or.inr (Or.inr hr2))
  have hr3 : (((g.step .next).1.step .next).1.step .next).1.round = .river :=
    (round_of_idx _).2.2.2 (by rw [r3, hr2]; rfl)
  obtain ⟨a4, e4, l4⟩ := next_river _ c3.ev hr3
  exact ⟨⟨a1, c1, hr1⟩, ⟨a2, c2, hr2⟩, ⟨a3, c3, hr3⟩, a4, e4, by
    show ((((g.step .next).1.step .next).1.step .next).1.step .next).1.aliveCount = _
    rw [l4, l3, l2, l1]⟩

/-! ### the cached dealer, read off the configuration -/

theorem dealerIdx?_congr_static' {g g' : Game} (h : g'.players.map Player.static = g.players.map Player.static) :
    g'.dealerIdx? = g.dealerIdx? := by
  have key : ∀ l : List Player, (l.reverse.find? (·.posDealer)).map (·.idx) =
      ((l.map Player.static).reverse.find? (fun f => f.2.1)).map (fun f => f.1) := by
    intro l
    rw [← List.map_reverse, List.find?_map]
    simp [Function.comp_def, Player.static, Option.map_map]
  unfold Game.dealerIdx?
  rw [key, key, h]

theorem config_dealerIdx? (c : Config) :
    ({ opts := c.opts, players := c.players } : Game).dealerIdx? =
      (c.seats.zipIdx.reverse.find? (fun x => x.1.dealer)).map (·.2) := by
  unfold Game.dealerIdx? Config.players
  rw [← List.map_reverse, List.find?_map]
  simp [Function.comp_def, Option.map_map]

/-- in every state of a hand the cached dealer is the last configured seat carrying the dealer position -/
theorem dealerIdx_of_config (c : Config) (wf : WFConfig c) (hs : (start c).2 = none) (ops : List Op) :
    ((start c).1.run ops).dealerIdx = ((c.seats.zipIdx.reverse.find? (fun x => x.1.dealer)).map (·.2)).getD 0 := by
  have h1 := static_of_config c wf hs ops
  have h2 : ((start c).1.run ops).dealerIdx? = ({ opts := c.opts, players := c.players } : Game).dealerIdx? :=
    dealerIdx?_congr_static' (g := { opts := c.opts, players := c.players }) h1
  unfold Game.dealerIdx
  rw [h2, config_dealerIdx?]

/-! ### who can move after the forced bets -/

/-- counting the seats that can move through a seat-by-seat correspondence with another list -/
theorem movableCount_of_pointwise {α : Type} (g : Game) (l : List α) (P : α → Bool)
    (hlen : g.players.length = l.length)
    (h : ∀ (j : Nat) (q : Player) (a : α), g.players[j]? = some q → l[j]? = some a → (!(q.fold || q.stack == 0)) = P a) :
    g.movableCount = (l.filter P).length := by
  unfold Game.movableCount
  rw [← List.countP_eq_length_filter, ← List.countP_eq_length_filter]
  have hm : g.players.map (fun p => !(p.fold || p.stack == 0)) = l.map P := by
    apply List.ext_getElem?
    intro j
    simp only [List.getElem?_map]
    cases hq : g.players[j]? with
    | none =>
      have : l[j]? = none := by
        rw [List.getElem?_eq_none_iff] at hq ⊢; omega
      rw [this]; rfl
    | some q =>
      cases ha : l[j]? with
      | none =>
        have := (List.getElem?_eq_some_iff.mp hq).1
        rw [List.getElem?_eq_none_iff] at ha; omega
      | some a => simp only [Option.map_some]; rw [h j q a hq ha]
  have e1 : g.players.countP (fun p => !(p.fold || p.stack == 0)) =
      (g.players.map (fun p => !(p.fold || p.stack == 0))).countP id := by
    rw [List.countP_map]; rfl
  have e2 : l.countP P = (l.map P).countP id := by
    rw [List.countP_map]; rfl
  rw [e1, e2, hm]

/-- a seat after the forced bets: not folded, and it has chips left iff its bankroll exceeds the ante plus the
    blind it owes -/
theorem forced_seat_movable (c : Config) (wf : WFConfig c) (hs : (start c).2 = none) {j : Nat} {q : Player}
    (hq : (afterForcedBets c).players[j]? = some q) :
    ∃ s, c.seats[j]? = some s ∧ q.posDealer = s.dealer ∧ q.posSB = s.sb ∧ q.posBB = s.bb ∧ q.fold = false ∧
      0 ≤ q.stack ∧ (0 < q.stack ↔ c.opts.ante + blindOf c.opts q < s.bankroll) := by
  obtain ⟨s, h1, _, h3, h4, h5, _, h7, h8, h9, _⟩ := forced_seat c wf hs hq
  have hf := noFold_afterForcedBets c hs q (List.mem_of_getElem? hq)
  have hb : 0 ≤ blindOf c.opts q := by rw [blindOf_frame]; exact blindOfFr_nonneg wf.opts _
  have ha := wf.opts.ante0
  refine ⟨s, h1, h3, h4, h5, hf, by omega, by omega⟩

end Pokerface
