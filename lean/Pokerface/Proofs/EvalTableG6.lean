import Pokerface.Proofs.EvalTable
/-! C03, step (i), group 6 of 8: kernel evaluation of the class check. -/
namespace Pokerface.C03

theorem nfGroup_6 : nfGroup 6 = true := by decide +kernel

end Pokerface.C03
