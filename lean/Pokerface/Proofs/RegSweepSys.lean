/-
  C20, the small bound, at the level of regulator × environment: every elimination-free sync
  keeps the potential `phi` from rising and lowers it when it asks for something; hence the
  number of asking syncs of an elimination-free script is at most `phi`.
-/
import Pokerface.Proofs.RegSweepSync

namespace Pokerface
open Reg

namespace RSys

/-- one elimination-free sync from a state satisfying the invariant, against the potential -/
theorem quiet_step_phi {s : RSys} (h : SInv s) (hmax : 0 < s.r.max)
    (t : Nat) (stay rel keep ch : List Nat) (hok : s.ok (.sync t [] stay rel keep ch)) :
    phi (s.step (.sync t [] stay rel keep ch)).r ≤ phi s.r ∧
    (s.asks (.sync t [] stay rel keep ch) = true → phi (s.step (.sync t [] stay rel keep ch)).r + 1 ≤ phi s.r) := by
  have hsa : s.syncAnswer t [] = s.r.syncState t 0 := rfl
  cases hm : s.env.membersOf t with
  | none =>
    have hft := (h.unknown_iff t).1 hm
    have h1 : (s.syncAnswer t []).1 = s.r.beginOp [] := by
      simp only [syncAnswer, syncState_eq, hft]
    have hstep : (s.step (.sync t [] stay rel keep ch)).r = s.r.beginOp [] := by
      simp only [step, hm, h1]
    rw [hstep, (beginOp_sheet s.r []).phi rfl]
    refine ⟨Nat.le_refl _, ?_⟩
    intro ha
    simp [asks, hm] at ha
  | some ms =>
    have hok' := hok
    simp only [ok, hm] at hok'
    rw [show s.syncAnswer t [] = ((s.syncAnswer t []).1, (s.syncAnswer t []).2.1,
      (s.syncAnswer t []).2.2.1, (s.syncAnswer t []).2.2.2) from rfl] at hok'
    simp only [] at hok'
    obtain ⟨hp1, hp2, hrl, hkeep, hrelbad⟩ := hok'
    obtain ⟨r1, relc, nw, t0, hft, hc0, hans, post⟩ := sync_facts h t [] stay ms hm hp1
    have hss : s.r.syncState t 0 = (r1, none, relc, nw) := hsa ▸ hans
    have hphi := syncState_phi s.r t t0 h.rinv hft
    obtain ⟨n1, _⟩ := syncState_tc s.r t
    rw [hss] at hphi n1
    simp only at hphi n1
    rw [hans] at hrl hrelbad
    simp only at hrl hrelbad
    have hbrk : s.broken t [] = (r1.findTable t).isNone := by simp only [broken, hans]
    have hask : s.asks (.sync t [] stay rel keep ch) = true →
        (relc ≠ 0 ∨ nw ≠ [] ∨ r1.findTable t = none) := by
      intro ha
      simp only [asks, hm, hans, hbrk, Option.isSome_some, Bool.true_and, Bool.or_eq_true,
        decide_eq_true_eq, Bool.not_eq_true', List.isEmpty_eq_false_iff, Option.isNone_iff_eq_none] at ha
      rcases ha with (h1 | h1) | h1
      · exact Or.inl h1
      · exact Or.inr (Or.inl h1)
      · exact Or.inr (Or.inr h1)
    have hpc1 : 0 ≤ r1.playerCount := by
      rw [n1.pc, h.rinv.cnt]
      have := sumCount_nonneg s.r.tables (fun t ht => (h.rinv.wf.bnd t ht).1)
      omega
    have hmax1 : 0 < r1.max := by rw [n1.max]; exact hmax
    by_cases hc : rel.isEmpty = true ∧ s.broken t [] = false
    · have hstep : (s.step (.sync t [] stay rel keep ch)).r = r1 := by
        simp only [step, hm, hans, hc, and_self, if_true]
      rw [hstep]
      have hrel0 : relc = 0 := by
        have : rel = [] := by simpa using hc.1
        rw [this] at hrl; simp at hrl; omega
      have hfind : r1.findTable t ≠ none := by
        have := hc.2
        rw [hbrk] at this
        intro hn; rw [hn] at this; simp at this
      rcases hphi with ⟨_, _, a3, a4⟩ | ⟨b1, _⟩ | ⟨_, c2, _⟩
      · refine ⟨a3, fun ha => ?_⟩
        rcases hask ha with h1 | h1 | h1
        · exact absurd hrel0 h1
        · exact a4 h1
        · exact absurd h1 hfind
      · exact absurd b1 hfind
      · omega
    · have hstep : (s.step (.sync t [] stay rel keep ch)).r = r1.releasePlayers rel ch := by
        simp only [step, hm, hans]
        rw [if_neg hc]
      have hbad : (r1.releasePlayers rel ch).badChoice = false := by
        rcases hrelbad with h1 | h1
        · exact absurd h1 hc
        · exact h1
      rw [hstep]
      have hq2 := qind_le (r1.releasePlayers rel ch)
      have hlen : (rel.length : Int) = relc := hrl
      rcases hphi with ⟨a1, a2, _, _⟩ | ⟨_, _, b3, b4⟩ | ⟨_, c2, _, c4, c5, c6, c7, c8⟩
      · -- nothing to release and not broken: impossible here
        exfalso
        apply hc
        refine ⟨?_, ?_⟩
        · have : rel.length = 0 := by omega
          simp [List.length_eq_zero_iff.1 this]
        · rw [hbrk]
          cases hfd : r1.findTable t with
          | none => exact absurd hfd a2
          | some _ => rfl
      · -- break
        have := releasePlayers_pot r1 rel ch post.wf hmax1 hpc1 hbad
        have : phi (r1.releasePlayers rel ch) + 1 ≤ phi s.r := by
          unfold phi; omega
        exact ⟨by omega, fun _ => this⟩
      · -- release
        have hrn : relc.toNat = rel.length := by omega
        have : phi (r1.releasePlayers rel ch) + 1 ≤ phi s.r := by
          by_cases hcalm : calm s.r
          · have hq := c8 hcalm
            rw [hrn] at hq
            obtain ⟨k1, k2⟩ := releasePlayers_calm r1 rel ch post.wf hmax1 (c7.2 hcalm) hq hbad
            unfold phi; omega
          · have := releasePlayers_pot r1 rel ch post.wf hmax1 hpc1 hbad
            have hp : psi s.r = psi1 s.r := by
              unfold psi psi1; rw [TP_not_calm hcalm]
            unfold phi; omega
        exact ⟨by omega, fun _ => this⟩

/-- the number of asking syncs of an elimination-free script is at most the potential -/
theorem askCount_le_phi : ∀ (ops : List EOp) (s : RSys), SInv s → 0 < s.r.max →
    (∀ op ∈ ops, quietOp op = true) → s.allOk ops → s.askCount ops ≤ phi s.r := by
  intro ops
  induction ops with
  | nil => intro s _ _ _ _; exact Nat.zero_le _
  | cons op ops ih =>
    intro s h hmax hq hok
    have hqo := hq op (List.mem_cons_self ..)
    cases op with
    | add ps ch => simp [quietOp] at hqo
    | status st ch => simp [quietOp] at hqo
    | sync t elim stay rel keep ch =>
      have he : elim = [] := by simpa [quietOp] using hqo
      subst he
      obtain ⟨q1, q2⟩ := quiet_step_phi h hmax t stay rel keep ch hok.1
      obtain ⟨hS', hF⟩ := h.step_full _ hok.1
      have hrec := ih (s.step (.sync t [] stay rel keep ch)) hS' (by rw [hF.max_eq]; exact hmax)
        (fun op hop => hq op (List.mem_cons_of_mem _ hop)) hok.2
      simp only [askCount]
      by_cases ha : s.asks (.sync t [] stay rel keep ch) = true
      · have := q2 ha
        rw [if_pos ha]; omega
      · rw [if_neg ha]; omega

end RSys
end Pokerface
