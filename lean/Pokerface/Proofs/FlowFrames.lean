import Pokerface.Proofs.EngineReach
/-
  Frames used by the flow properties (C05, C06):
  `Quiet`  – street, board, deck cursor, result, options, number of seats unchanged;
  `Mov`    – per seat (fold, stack) unchanged;
  `Acts`   – per seat `acted` unchanged.
-/
namespace Pokerface
open Game

/-! ## `Quiet` -/

structure Quiet (g g' : Game) : Prop where
  round : g'.round = g.round
  board : g'.board = g.board
  deckPos : g'.deckPos = g.deckPos
  result : g'.result = g.result
  opts : g'.opts = g.opts
  n : g'.n = g.n

theorem Quiet.refl (g : Game) : Quiet g g := ⟨rfl, rfl, rfl, rfl, rfl, rfl⟩
theorem Quiet.trans {a b c : Game} (h1 : Quiet a b) (h2 : Quiet b c) : Quiet a c :=
  ⟨h2.round.trans h1.round, h2.board.trans h1.board, h2.deckPos.trans h1.deckPos, h2.result.trans h1.result,
   h2.opts.trans h1.opts, h2.n.trans h1.n⟩

theorem quiet_modP (g : Game) (i : Nat) (f : Player → Player) : Quiet g (g.modP i f) :=
  ⟨rfl, rfl, rfl, rfl, rfl, by simp [Game.n, Game.modP]⟩
theorem quiet_mapP (g : Game) (f : Player → Player) : Quiet g (g.mapP f) :=
  ⟨rfl, rfl, rfl, rfl, rfl, by simp [Game.n, Game.mapP]⟩
theorem quiet_setEvent (g : Game) (e : Ev) : Quiet g (g.setEvent e) := ⟨rfl, rfl, rfl, rfl, rfl, rfl⟩
theorem quiet_setCur (g : Game) (i : Nat) : Quiet g (g.setCur i) := ⟨rfl, rfl, rfl, rfl, rfl, rfl⟩
theorem quiet_setRaiser (g : Game) (i : Nat) : Quiet g (g.setRaiser i) := ⟨rfl, rfl, rfl, rfl, rfl, rfl⟩
theorem quiet_setCw (g : Game) (x : Int) : Quiet g (g.setCw x) := ⟨rfl, rfl, rfl, rfl, rfl, rfl⟩
theorem quiet_setPrev (g : Game) (x : Int) : Quiet g (g.setPrev x) := ⟨rfl, rfl, rfl, rfl, rfl, rfl⟩
theorem quiet_addRoundPot (g : Game) (x : Int) : Quiet g (g.addRoundPot x) := ⟨rfl, rfl, rfl, rfl, rfl, rfl⟩
theorem quiet_updatePots (g : Game) : Quiet g g.updatePots := ⟨rfl, rfl, rfl, rfl, rfl, rfl⟩
theorem quiet_resetRoundStatus (g : Game) : Quiet g g.resetRoundStatus := ⟨rfl, rfl, rfl, rfl, rfl, rfl⟩
theorem quiet_offer (g : Game) (i : Nat) : Quiet g (g.offer i) := quiet_modP g i _
theorem quiet_setCurrentPlayer (g : Game) (i : Nat) : Quiet g (g.setCurrentPlayer i) :=
  ((quiet_modP g g.cur clearAllowed).trans (quiet_setCur _ i)).trans (quiet_offer _ i)
theorem quiet_resetAllAllowed (g : Game) : Quiet g g.resetAllAllowed := quiet_mapP g _
theorem quiet_resetAllPlayerStatus (g : Game) : Quiet g g.resetAllPlayerStatus := quiet_mapP g _
theorem quiet_resetActed (g : Game) : Quiet g g.resetActed := quiet_mapP g _
theorem quiet_setActed (g : Game) (i : Nat) : Quiet g (g.setActed i) := quiet_modP g i _
theorem quiet_becomeRaiser (g : Game) (i : Nat) : Quiet g (g.becomeRaiser i) :=
  ((quiet_setRaiser g i).trans (quiet_resetActed _)).trans (quiet_setActed _ i)
theorem quiet_updateCombinations (g : Game) : Quiet g g.updateCombinations := quiet_mapP g _

theorem quiet_payAllin (g : Game) (i : Nat) (p : Player) (w : Bool) : Quiet g (g.payAllin i p w) := by
  unfold Game.payAllin
  have h1 : Quiet g ((g.addRoundPot (p.initial - p.wager)).modP i goAllin) :=
    (quiet_addRoundPot g _).trans (quiet_modP _ i _)
  simp only
  split
  · have h2 : Quiet g (if p.initial > g.cw then ((g.addRoundPot (p.initial - p.wager)).modP i goAllin).setCw p.initial
        else (g.addRoundPot (p.initial - p.wager)).modP i goAllin) := by
      split
      · exact h1.trans (quiet_setCw _ _)
      · exact h1
    split
    · exact h2.trans (quiet_becomeRaiser _ i)
    · exact h2.trans (quiet_resetActed _)
  · exact h1

theorem quiet_payPart (g : Game) (i : Nat) (p : Player) (c : Int) (w : Bool) : Quiet g (g.payPart i p c w) := by
  unfold Game.payPart
  have h1 : Quiet g ((g.modP i (putWager (p.wager + c))).addRoundPot c) :=
    (quiet_modP g i (putWager (p.wager + c))).trans (quiet_addRoundPot _ _)
  simp only
  split
  · exact (h1.trans (quiet_setCw _ _)).trans (quiet_becomeRaiser _ i)
  · exact h1

theorem quiet_pay (g : Game) (i : Nat) (c : Int) (w : Bool) : Quiet g (g.pay i c w) := by
  unfold Game.pay
  split
  · exact Quiet.refl g
  · split
    · exact quiet_payAllin g i _ w
    · exact quiet_payPart g i _ c w

theorem quiet_roundClosed (g : Game) : Quiet g g.roundClosed :=
  ((quiet_setEvent g _).trans (quiet_resetAllAllowed _)).trans (quiet_updatePots _)

theorem quiet_requestPlayerAction (g : Game) : Quiet g g.requestPlayerAction := by
  unfold Game.requestPlayerAction
  split
  · exact quiet_roundClosed g
  · split
    · exact quiet_roundClosed g
    · split
      · exact Quiet.refl g
      · split
        · exact quiet_roundClosed g
        · exact quiet_setCurrentPlayer g _

theorem quiet_requestReady (g : Game) : Quiet g g.requestReady :=
  (quiet_resetAllAllowed g).trans (quiet_setEvent _ _)

theorem quiet_prepareRound (g : Game) : Quiet g g.prepareRound := by
  unfold Game.prepareRound
  split
  · exact quiet_requestReady g
  · split
    · exact quiet_roundClosed g
    · exact quiet_requestReady g

theorem quiet_requestBlinds (g : Game) : Quiet g g.requestBlinds := by
  unfold Game.requestBlinds
  split
  · exact (quiet_setEvent g _).trans (quiet_prepareRound _)
  · exact quiet_setEvent g _

theorem quiet_afterRoundInitialized (g : Game) : Quiet g g.afterRoundInitialized := by
  unfold Game.afterRoundInitialized
  split
  · exact quiet_requestBlinds g
  · exact quiet_prepareRound g

theorem quiet_seekBB : ∀ (k : Nat) (g : Game), Quiet g (seekBB k g)
  | 0, g => Quiet.refl g
  | k + 1, g => by
    unfold Game.seekBB
    split
    · split
      · exact quiet_setCurrentPlayer g _
      · exact (quiet_setCurrentPlayer g _).trans (quiet_seekBB k _)
    · exact quiet_setCurrentPlayer g _

theorem quiet_openRound (g : Game) : Quiet g g.openRound :=
  (quiet_setEvent g _).trans (quiet_requestPlayerAction _)

theorem quiet_startRound' (g : Game) : Quiet g g.startRound' := by
  unfold Game.startRound'
  split
  · split
    · exact quiet_roundClosed g
    · exact ((quiet_setCurrentPlayer g _).trans (quiet_seekBB _ _)).trans (quiet_openRound _)
  · exact (quiet_setCurrentPlayer g _).trans (quiet_openRound _)

theorem quiet_startRound (g : Game) : Quiet g g.startRound :=
  (quiet_resetAllAllowed g).trans (quiet_startRound' _)

theorem quiet_resume (g : Game) : Quiet g g.resume := by
  unfold Game.resume
  split
  · exact quiet_requestPlayerAction g
  · exact quiet_roundClosed g
  · exact Quiet.refl g

theorem quiet_payBlind (g : Game) (i : Nat) : Quiet g (g.payBlind i) := by
  unfold Game.payBlind
  split
  · exact Quiet.refl g
  · exact quiet_pay g i _ true

theorem quiet_foldl_payBlind : ∀ (is : List Nat) (g : Game), Quiet g (is.foldl payBlind g)
  | [], g => Quiet.refl g
  | i :: is, g => (quiet_payBlind g i).trans (quiet_foldl_payBlind is _)

theorem quiet_payAnteLoop : ∀ (is : List Nat) (g : Game), Quiet g (payAnteLoop is g).1
  | [], g => Quiet.refl g
  | i :: is, g => by
    unfold Game.payAnteLoop
    split
    · exact Quiet.refl g
    · split
      · exact Quiet.refl g
      · exact (quiet_pay g i _ false).trans (quiet_payAnteLoop is _)

/-! ## `Mov` -/

def Player.mov (p : Player) : Bool × Int := (p.fold, p.stack)

structure Mov (g g' : Game) : Prop where
  mov : g'.players.map Player.mov = g.players.map Player.mov

theorem Mov.refl (g : Game) : Mov g g := ⟨rfl⟩
theorem Mov.trans {a b c : Game} (h1 : Mov a b) (h2 : Mov b c) : Mov a c := ⟨h2.mov.trans h1.mov⟩

theorem aliveCount_eq_map (g : Game) :
    g.aliveCount = ((g.players.map Player.mov).filter (fun x => !x.1)).length := by
  unfold Game.aliveCount
  rw [List.filter_map]
  simp [Function.comp_def, Player.mov]

theorem movableCount_eq_map (g : Game) :
    g.movableCount = ((g.players.map Player.mov).filter (fun x => !(x.1 || x.2 == 0))).length := by
  unfold Game.movableCount
  rw [List.filter_map]
  simp [Function.comp_def, Player.mov]

theorem Mov.alive {g g' : Game} (h : Mov g g') : g'.aliveCount = g.aliveCount := by
  rw [aliveCount_eq_map, aliveCount_eq_map, h.mov]

theorem Mov.movable {g g' : Game} (h : Mov g g') : g'.movableCount = g.movableCount := by
  rw [movableCount_eq_map, movableCount_eq_map, h.mov]

def Game.stackSum (g : Game) : Int := (g.players.map (·.stack)).sum

theorem Mov.stackSum {g g' : Game} (h : Mov g g') : g'.stackSum = g.stackSum := by
  have := congrArg (List.map Prod.snd) h.mov
  simp only [List.map_map, Function.comp_def, Player.mov] at this
  simp only [Game.stackSum, this]

theorem mov_modP (g : Game) (i : Nat) (f : Player → Player) (hf : ∀ p, (f p).mov = p.mov) : Mov g (g.modP i f) :=
  ⟨by simp [Game.modP, map_modify_of_proj Player.mov f hf]⟩
theorem mov_mapP (g : Game) (f : Player → Player) (hf : ∀ p, (f p).mov = p.mov) : Mov g (g.mapP f) :=
  ⟨by simp [Game.mapP, List.map_map, Function.comp_def, hf]⟩
theorem mov_setEvent (g : Game) (e : Ev) : Mov g (g.setEvent e) := ⟨rfl⟩
theorem mov_setCur (g : Game) (i : Nat) : Mov g (g.setCur i) := ⟨rfl⟩
theorem mov_setPrev (g : Game) (x : Int) : Mov g (g.setPrev x) := ⟨rfl⟩
theorem mov_updatePots (g : Game) : Mov g g.updatePots := ⟨rfl⟩
theorem mov_calculateGameResults (g : Game) : Mov g g.calculateGameResults := ⟨rfl⟩
theorem mov_resetRoundStatus (g : Game) : Mov g g.resetRoundStatus := ⟨rfl⟩
theorem mov_offer (g : Game) (i : Nat) : Mov g (g.offer i) := mov_modP g i _ (fun _ => rfl)
theorem mov_setCurrentPlayer (g : Game) (i : Nat) : Mov g (g.setCurrentPlayer i) :=
  ((mov_modP g g.cur clearAllowed (fun _ => rfl)).trans (mov_setCur _ i)).trans (mov_offer _ i)
theorem mov_resetAllAllowed (g : Game) : Mov g g.resetAllAllowed := mov_mapP g _ (fun _ => rfl)
theorem mov_resetAllPlayerStatus (g : Game) : Mov g g.resetAllPlayerStatus := mov_mapP g _ (fun _ => rfl)
theorem mov_resetActed (g : Game) : Mov g g.resetActed := mov_mapP g _ (fun _ => rfl)
theorem mov_setActed (g : Game) (i : Nat) : Mov g (g.setActed i) := mov_modP g i _ (fun _ => rfl)
theorem mov_updateCombinations (g : Game) : Mov g g.updateCombinations :=
  mov_mapP g _ (fun p => by unfold Game.newComb; split <;> rfl)
theorem mov_advance (g : Game) (k : Nat) : Mov g (g.advance k) := ⟨rfl⟩
theorem mov_burn (g : Game) (k : Nat) : Mov g (g.burn k) := ⟨rfl⟩
theorem mov_dealBoard (g : Game) (k : Nat) : Mov g (g.dealBoard k) := ⟨rfl⟩
theorem mov_dealHole (g : Game) (i : Nat) : Mov g (g.dealHole i) :=
  (mov_advance g _).trans (mov_modP _ i _ (fun _ => rfl))
theorem mov_dealHoles : ∀ (k i : Nat) (g : Game), Mov g (dealHoles k i g)
  | 0, _, g => Mov.refl g
  | k + 1, i, g => (mov_dealHole g i).trans (mov_dealHoles k (i + 1) _)

theorem mov_dealStreet (g : Game) : Mov g g.dealStreet := by
  unfold Game.dealStreet
  split
  · exact mov_dealHoles _ _ _
  · exact ((mov_burn g 1).trans (mov_dealBoard _ 3)).trans (mov_setCurrentPlayer _ _)
  · exact ((mov_burn g 1).trans (mov_dealBoard _ 1)).trans (mov_setCurrentPlayer _ _)
  · exact ((mov_burn g 1).trans (mov_dealBoard _ 1)).trans (mov_setCurrentPlayer _ _)
  · exact Mov.refl g

theorem mov_roundClosed (g : Game) : Mov g g.roundClosed :=
  ((mov_setEvent g _).trans (mov_resetAllAllowed _)).trans (mov_updatePots _)

theorem mov_requestPlayerAction (g : Game) : Mov g g.requestPlayerAction := by
  unfold Game.requestPlayerAction
  split
  · exact mov_roundClosed g
  · split
    · exact mov_roundClosed g
    · split
      · exact Mov.refl g
      · split
        · exact mov_roundClosed g
        · exact mov_setCurrentPlayer g _

theorem mov_requestReady (g : Game) : Mov g g.requestReady :=
  (mov_resetAllAllowed g).trans (mov_setEvent _ _)

theorem mov_prepareRound (g : Game) : Mov g g.prepareRound := by
  unfold Game.prepareRound
  split
  · exact mov_requestReady g
  · split
    · exact mov_roundClosed g
    · exact mov_requestReady g

theorem mov_seekBB : ∀ (k : Nat) (g : Game), Mov g (seekBB k g)
  | 0, g => Mov.refl g
  | k + 1, g => by
    unfold Game.seekBB
    split
    · split
      · exact mov_setCurrentPlayer g _
      · exact (mov_setCurrentPlayer g _).trans (mov_seekBB k _)
    · exact mov_setCurrentPlayer g _

theorem mov_openRound (g : Game) : Mov g g.openRound :=
  (mov_setEvent g _).trans (mov_requestPlayerAction _)

theorem mov_startRound' (g : Game) : Mov g g.startRound' := by
  unfold Game.startRound'
  split
  · split
    · exact mov_roundClosed g
    · exact ((mov_setCurrentPlayer g _).trans (mov_seekBB _ _)).trans (mov_openRound _)
  · exact (mov_setCurrentPlayer g _).trans (mov_openRound _)

theorem mov_startRound (g : Game) : Mov g g.startRound :=
  (mov_resetAllAllowed g).trans (mov_startRound' _)

theorem mov_gameCompleted (g : Game) : Mov g g.gameCompleted :=
  ((mov_updatePots g).trans (mov_calculateGameResults _)).trans (mov_setEvent _ _)

theorem mov_resume (g : Game) : Mov g g.resume := by
  unfold Game.resume
  split
  · exact mov_requestPlayerAction g
  · exact mov_roundClosed g
  · exact Mov.refl g

/-! ## `Acts` -/

structure Acts (g g' : Game) : Prop where
  acted : g'.players.map (·.acted) = g.players.map (·.acted)

theorem Acts.refl (g : Game) : Acts g g := ⟨rfl⟩
theorem Acts.trans {a b c : Game} (h1 : Acts a b) (h2 : Acts b c) : Acts a c := ⟨h2.acted.trans h1.acted⟩

/-- number of seats that have not acted -/
def Game.unacted (g : Game) : Nat := (g.players.filter (fun p => !p.acted)).length

theorem unacted_eq_map (g : Game) :
    g.unacted = ((g.players.map (·.acted)).filter (fun x => !x)).length := by
  unfold Game.unacted
  rw [List.filter_map]
  simp [Function.comp_def]

theorem Acts.unacted {g g' : Game} (h : Acts g g') : g'.unacted = g.unacted := by
  rw [unacted_eq_map, unacted_eq_map, h.acted]

theorem unacted_le (g : Game) : g.unacted ≤ g.n := List.length_filter_le _ _

theorem acts_modP (g : Game) (i : Nat) (f : Player → Player) (hf : ∀ p, (f p).acted = p.acted) : Acts g (g.modP i f) :=
  ⟨by simp [Game.modP, map_modify_of_proj (·.acted) f hf]⟩
theorem acts_setEvent (g : Game) (e : Ev) : Acts g (g.setEvent e) := ⟨rfl⟩
theorem acts_setCur (g : Game) (i : Nat) : Acts g (g.setCur i) := ⟨rfl⟩
theorem acts_setPrev (g : Game) (x : Int) : Acts g (g.setPrev x) := ⟨rfl⟩
theorem acts_addRoundPot (g : Game) (x : Int) : Acts g (g.addRoundPot x) := ⟨rfl⟩
theorem acts_offer (g : Game) (i : Nat) : Acts g (g.offer i) := acts_modP g i _ (fun _ => rfl)
theorem acts_setCurrentPlayer (g : Game) (i : Nat) : Acts g (g.setCurrentPlayer i) :=
  ((acts_modP g g.cur clearAllowed (fun _ => rfl)).trans (acts_setCur _ i)).trans (acts_offer _ i)

theorem Acts.getElem {g g' : Game} (h : Acts g g') (i : Nat) :
    (g'.players[i]?).map (·.acted) = (g.players[i]?).map (·.acted) := by
  have := congrArg (fun l => l[i]?) h.acted
  simpa [List.getElem?_map] using this

end Pokerface
