/-
  C20 on the ASYNCHRONOUS system, part 2: the potential `Reg.phi` of Proofs/RegSweepDefs.lean
  against the two halves of a rebalancing move when they are separate operations.

  * `syncState_phiF` : `SyncState(t, 0)` while `f` players are on the way back (the proof of
    `syncState_phi` with the count identity `playerCount = |queue| + Σ PlayerCount + f`);
  * `ASys.potentialA`, `ASys.sync_step_phi`, `ASys.report_step_phi`, `ASys.askCount_le_phiA`.
-/
import Pokerface.Proofs.RegAsyncSettle
import Pokerface.Proofs.RegSweepSys
import Pokerface.Proofs.RegSweepBound

namespace Pokerface
namespace Reg

/-- `syncState_phi` with `f` players on the way back: the regulator's total is
    `|queue| + Σ PlayerCount + f`.  The three ways `SyncState(t, 0)` can go, each with its effect on
    the potential: nothing or a top-up from the queue; a break; a release - and in a calm state the
    released players, the queue AND the players on the way fit into the outstanding `Required`s. -/
theorem syncState_phiF (r : Reg) (t : Nat) (t0 : RTable) (f : Nat) (hwf : WF r) (hQ : Q r)
    (hcnt : r.playerCount = r.queue.length + sumCount r.tables + f) (hf : r.findTable t = some t0) :
    ((r.syncState t 0).2.2.1 = 0 ∧ (r.syncState t 0).1.findTable t ≠ none ∧
        phi (r.syncState t 0).1 ≤ phi r ∧
        ((r.syncState t 0).2.2.2 ≠ [] → phi (r.syncState t 0).1 + 1 ≤ phi r)) ∨
    ((r.syncState t 0).1.findTable t = none ∧ (r.syncState t 0).2.2.2 = [] ∧
        psi1 (r.syncState t 0).1 + 2 ≤ psi r ∧ Ds (r.syncState t 0).1 ≤ Ds r) ∨
    ((r.syncState t 0).2.2.2 = [] ∧ 1 ≤ (r.syncState t 0).2.2.1 ∧ (r.syncState t 0).1.findTable t ≠ none ∧
        psi (r.syncState t 0).1 + (r.syncState t 0).2.2.1.toNat = psi r ∧
        psi1 (r.syncState t 0).1 + (r.syncState t 0).2.2.1.toNat = psi1 r ∧
        Ds (r.syncState t 0).1 = Ds r ∧ (calm (r.syncState t 0).1 ↔ calm r) ∧
        (calm r → (r.syncState t 0).1.queue.length + f + (r.syncState t 0).2.2.1.toNat ≤
          tot rF (r.syncState t 0).1.tables)) := by
  obtain ⟨ht0, hid0⟩ := findTable_some hf
  have hbt := hwf.bnd t0 ht0
  have hidm : t ∈ r.tables.map (·.id) := List.mem_map.2 ⟨t0, ht0, hid0⟩
  have hpc0 : 0 ≤ r.playerCount := by
    rw [hcnt]
    have := sumCount_nonneg r.tables (fun t ht => (hwf.bnd t ht).1)
    omega
  rw [syncState_eq, hf]
  simp only
  rw [syncBase_zero, Int.sub_zero]
  have e1 : (r.beginOp []).requiredTables = r.requiredTables := rfl
  have e2 : (r.beginOp []).tableCount = r.tableCount := rfl
  have e3 : (r.beginOp []).playerCount = r.playerCount := rfl
  have hfb : (r.beginOp []).findTable t = some t0 := hf
  have hshb := beginOp_sheet r []
  have hsame : (0 : Int) = 0 ∧ (r.beginOp []).findTable t ≠ none ∧ phi (r.beginOp []) ≤ phi r ∧
      (([] : List Nat) ≠ [] → phi (r.beginOp []) + 1 ≤ phi r) := by
    refine ⟨rfl, ?_, ?_, fun hh => absurd rfl hh⟩
    · rw [hfb]; intro hh; cases hh
    · rw [hshb.phi rfl]; exact Nat.le_refl _
  -- a break
  have hbreak : r.requiredTables < r.tableCount →
      ((r.beginOp []).breakTable t).findTable t = none ∧ ([] : List Nat) = [] ∧
      psi1 ((r.beginOp []).breakTable t) + 2 ≤ psi r ∧ Ds ((r.beginOp []).breakTable t) ≤ Ds r := by
    intro hlt
    have hsn : SameNeeds r ((r.beginOp []).breakTable t) := ⟨rfl, rfl⟩
    have hF : flr ((r.beginOp []).breakTable t) = flr r := flr_same hsn
    have htab : ((r.beginOp []).breakTable t).tables = r.tables.filter (fun x => x.id != t) := rfl
    have hg := tot_filter_ne (gF (flr r)) r.tables hwf.nodup ht0 hid0
    have hd := tot_filter_ne (dF (flr r)) r.tables hwf.nodup ht0 hid0
    have hl := filter_ne_length r.tables hwf.nodup ht0 hid0
    have hnc : ¬ calm r := fun c => by have := c.1; omega
    refine ⟨breakTable_find _ t, rfl, ?_, ?_⟩
    · unfold psi1 psi
      rw [TP_not_calm hnc]
      have a1 : Gs ((r.beginOp []).breakTable t) ≤ Gs r := by unfold Gs; rw [hF, htab]; omega
      have a2 : dTR ((r.beginOp []).breakTable t) + 1 = dTR r := by
        unfold dTR
        show ((r.tableCount - 1 - r.requiredTables).toNat + 1 = _)
        omega
      have a3 : dRT ((r.beginOp []).breakTable t) = 0 := by
        unfold dRT
        show (r.requiredTables - (r.tableCount - 1)).toNat = 0
        omega
      have a4 : dRT r = 0 := by unfold dRT; omega
      rw [a3, a4, htab]
      simp only [Nat.mul_zero, Nat.add_zero]
      omega
    · unfold Ds; rw [hF, htab]; omega
  split
  · rename_i hc
    exact Or.inr (Or.inl (hbreak (by omega)))
  · split
    · exact Or.inl hsame
    · rename_i hreq
      have hreq' : 0 < r.requiredTables := by omega
      split
      · rename_i hlow
        split
        · rename_i hc
          exact Or.inr (Or.inl (hbreak (by omega)))
        · -- top-up from the queue
          left
          rw [take_norm]
          have hle : t0.count ≤ flr r := le_floor_of_mul_lt hreq' hlow
          have hflr : (r.beginOp []).playerCount / (r.beginOp []).requiredTables = flr r := rfl
          rw [hflr]
          have hbq : (r.beginOp []).queue = r.queue := rfl
          have hbtab : (r.beginOp []).tables = r.tables := rfl
          rw [hbq, hbtab]
          generalize hk : (r.queue.take (flr r - t0.count).toNat).length = k
          have hk0 : (k : Int) ≤ flr r - t0.count := by
            rw [← hk, List.length_take]; omega
          have hq : 1 ≤ (k : Int) → t0.required = 0 := by
            intro hk1
            have hne : r.queue ≠ [] := by
              intro hnil
              rw [hnil] at hk
              simp at hk
              omega
            have := hQ hne t0 ht0
            omega
          generalize hrq : (if flr r - t0.count - (k : Int) > 0 then some (flr r - t0.count - (k : Int)) else none) = rq
          -- the new entry of the table
          have hcov : flr r ≤ (adj k rq t0).count + (adj k rq t0).required := by
            rw [← hrq]
            simp only [adj]
            split
            · simp only [Option.getD_some]; omega
            · simp only [Option.getD_none]; omega
          have hg : gF (flr r) (adj k rq t0) ≤ gF (flr r) t0 := by
            rw [← hrq]
            simp only [gF, adj]
            split
            · simp only [Option.getD_some]; omega
            · simp only [Option.getD_none]
              by_cases hk1 : 1 ≤ (k : Int)
              · have := hq hk1; omega
              · omega
          have hu : uF (flr r) (adj k rq t0) ≤ uF (flr r) t0 := by
            simp only [uF]
            rw [if_neg (by omega)]
            omega
          have hd : dF (flr r) (adj k rq t0) ≤ dF (flr r) t0 := by
            simp only [dF, adj]; omega
          generalize hr1 : ({ r.beginOp [] with queue := r.queue.drop (flr r - t0.count).toNat, tables := upd t (adj k rq) r.tables } : Reg) = r1
          show (0 : Int) = 0 ∧ r1.findTable t ≠ none ∧ phi r1 ≤ phi r ∧
            (r.queue.take (flr r - t0.count).toNat ≠ [] → phi r1 + 1 ≤ phi r)
          have hsn : SameNeeds r r1 := by rw [← hr1]; exact ⟨rfl, rfl⟩
          have hF : flr r1 = flr r := flr_same hsn
          have htab : r1.tables = upd t (adj k rq) r.tables := by rw [← hr1]
          have htc : r1.tableCount = r.tableCount := by rw [← hr1]; rfl
          have hqq : r1.queue = r.queue.drop (flr r - t0.count).toNat := by rw [← hr1]
          have hmax : r1.max = r.max := hsn.max
          have aG : Gs r1 ≤ Gs r := by
            unfold Gs; rw [hF, htab]; exact tot_upd_le _ _ hwf.nodup ht0 hid0 _ hg
          have aU : Us r1 ≤ Us r := by
            unfold Us; rw [hF, htab]; exact tot_upd_le _ _ hwf.nodup ht0 hid0 _ hu
          have aD : Ds r1 ≤ Ds r := by
            unfold Ds; rw [hF, htab]; exact tot_upd_le _ _ hwf.nodup ht0 hid0 _ hd
          have aL : r1.tables.length = r.tables.length := by rw [htab, upd_length]
          have aTP : TP r1 ≤ TP r := by
            by_cases c : calm r
            · have c1 : calm r1 := ⟨by rw [htc, hsn.req]; exact c.1, by have := c.2; omega⟩
              rw [TP_calm c1]; omega
            · rw [TP_not_calm c]
              have := TP_le r1; omega
          have aT : dTR r1 = dTR r := by unfold dTR; rw [htc, hsn.req]
          have aR : dRT r1 = dRT r := by unfold dRT; rw [htc, hsn.req]
          have apsi : psi r1 ≤ psi r := by
            unfold psi; rw [aT, aR, hmax]; omega
          have aq : qind r1 ≤ qind r := by
            unfold qind
            rw [hqq]
            split
            · omega
            · rename_i hne
              have : r.queue ≠ [] := by intro hnil; rw [hnil] at hne; simp at hne
              rw [if_neg this]; omega
          have hfind : r1.findTable t ≠ none := by
            apply findTable_ne_none
            rw [htab, upd_ids _ _ _ (adj_id _ _)]; exact hidm
          refine ⟨rfl, hfind, by unfold phi; omega, fun hnw => ?_⟩
          have hk1 : 1 ≤ k := by
            have : 0 < (r.queue.take (flr r - t0.count).toNat).length := List.length_pos_iff.2 hnw
            omega
          unfold phi
          by_cases hfull : (k : Int) = flr r - t0.count
          · -- the table is filled up to the level
            have hd' : dF (flr r) (adj k rq t0) + 1 = dF (flr r) t0 := by
              simp only [dF, adj]; omega
            have : Ds r1 + 1 = Ds r := by
              unfold Ds; rw [hF, htab]
              have := tot_upd (dF (flr r)) r.tables hwf.nodup ht0 hid0 (adj k rq)
              omega
            omega
          · -- the queue is exhausted
            have hlen : r.queue.length < (flr r - t0.count).toNat := by
              rw [List.length_take] at hk; omega
            have hq1 : r1.queue = [] := by
              rw [hqq]; exact List.drop_eq_nil_of_le (by omega)
            have hq0 : r.queue ≠ [] := by
              intro hnil; rw [hnil] at hk; simp at hk; omega
            have : qind r1 + 1 = qind r := by
              unfold qind; rw [if_pos hq1, if_neg hq0]
            omega
      · split
        · rename_i hhigh
          -- release
          have hflr : (r.beginOp []).playerCount / (r.beginOp []).requiredTables = flr r := rfl
          rw [hflr]
          have hlt : flr r < t0.count := floor_lt_of_lt_mul hreq' hhigh
          obtain ⟨j, hj, he⟩ := releaseLoop_spec (t0.count - flr r).toNat t (flr r) (r.beginOp []) 0
          have hlast := releaseLoop_last (t0.count - flr r).toNat t (flr r) (r.beginOp []) 0 j
            (by rw [he])
          rw [he]
          have hbtab : (r.beginOp []).tables = r.tables := rfl
          rw [hbtab] at hlast ⊢
          generalize hr1 : ({ r.beginOp [] with tables := upd t (adj (-(j : Int)) none) r.tables } : Reg) = r1
          have hsn : SameNeeds r r1 := by rw [← hr1]; exact ⟨rfl, rfl⟩
          have hF : flr r1 = flr r := flr_same hsn
          have htab : r1.tables = upd t (adj (-(j : Int)) none) r.tables := by rw [← hr1]
          have htc : r1.tableCount = r.tableCount := by rw [← hr1]; rfl
          have hqq : r1.queue = r.queue := by rw [← hr1]; rfl
          have hmax : r1.max = r.max := hsn.max
          have hfind : r1.findTable t ≠ none := by
            apply findTable_ne_none
            rw [htab, upd_ids _ _ _ (adj_id _ _)]; exact hidm
          by_cases hj0 : j = 0
          · left
            show ((0 + j : Nat) : Int) = 0 ∧ r1.findTable t ≠ none ∧ phi r1 ≤ phi r ∧
              (([] : List Nat) ≠ [] → phi r1 + 1 ≤ phi r)
            subst hj0
            have hsh : SameSheet r r1 := by
              refine ⟨?_, htc, hsn.pc, hsn.max⟩
              rw [htab]; simp only [Int.natCast_zero, Int.neg_zero, upd_adj_zero]
            exact ⟨rfl, hfind, by rw [hsh.phi hqq]; exact Nat.le_refl _, fun hh => absurd rfl hh⟩
          · right; right
            show ([] : List Nat) = [] ∧ 1 ≤ ((0 + j : Nat) : Int) ∧ r1.findTable t ≠ none ∧
              psi r1 + ((0 + j : Nat) : Int).toNat = psi r ∧ psi1 r1 + ((0 + j : Nat) : Int).toNat = psi1 r ∧
              Ds r1 = Ds r ∧ (calm r1 ↔ calm r) ∧
              (calm r → r1.queue.length + f + ((0 + j : Nat) : Int).toNat ≤ tot rF r1.tables)
            rw [Nat.zero_add]
            have hg : gF (flr r) (adj (-(j : Int)) none t0) + j = gF (flr r) t0 := by
              simp only [gF, adj, Option.getD_none]; omega
            have hu : uF (flr r) (adj (-(j : Int)) none t0) = uF (flr r) t0 := by
              have h1 : uF (flr r) (adj (-(j : Int)) none t0) = 0 := by
                unfold uF; rw [if_neg]; simp only [adj, Option.getD_none]; omega
              have h2 : uF (flr r) t0 = 0 := by
                unfold uF; rw [if_neg]; omega
              rw [h1, h2]
            have hd : dF (flr r) (adj (-(j : Int)) none t0) = dF (flr r) t0 := by
              simp only [dF, adj]; omega
            have hr : rF (adj (-(j : Int)) none t0) = rF t0 := by
              simp only [rF, adj, Option.getD_none]
            have aG : Gs r1 + j = Gs r := by
              unfold Gs; rw [hF, htab]
              have := tot_upd (gF (flr r)) r.tables hwf.nodup ht0 hid0 (adj (-(j : Int)) none)
              omega
            have aU : Us r1 = Us r := by
              unfold Us; rw [hF, htab]; exact tot_upd_eq _ _ hwf.nodup ht0 hid0 _ hu
            have aD : Ds r1 = Ds r := by
              unfold Ds; rw [hF, htab]; exact tot_upd_eq _ _ hwf.nodup ht0 hid0 _ hd
            have aRF : tot rF r1.tables = tot rF r.tables := by
              rw [htab]; exact tot_upd_eq _ _ hwf.nodup ht0 hid0 _ hr
            have aL : r1.tables.length = r.tables.length := by rw [htab, upd_length]
            have acalm : calm r1 ↔ calm r := by unfold calm; rw [aU, htc, hsn.req]
            have aTP : TP r1 = TP r := by
              unfold TP
              by_cases c : calm r
              · rw [if_pos c, if_pos (acalm.2 c)]
              · rw [if_neg c, if_neg (fun c' => c (acalm.1 c')), aL]
            have aT : dTR r1 = dTR r := by unfold dTR; rw [htc, hsn.req]
            have aR : dRT r1 = dRT r := by unfold dRT; rw [htc, hsn.req]
            have hjn : ((j : Int)).toNat = j := by omega
            refine ⟨rfl, by omega, hfind, ?_, ?_, aD, acalm, fun hc => ?_⟩
            · unfold psi; rw [aTP, aT, aR, hmax, hjn]; omega
            · unfold psi1; rw [aL, aT, aR, hmax, hjn]; omega
            · -- the released players fit into the `Required`s
              rw [hjn, hqq, aRF]
              have hl := hlast (by omega)
              generalize hri : ({ r.beginOp [] with tables := upd t (adj (-((j : Int) - 1)) none) r.tables } : Reg) = ri at hl
              have htabi : ri.tables = upd t (adj (-((j : Int) - 1)) none) r.tables := by rw [← hri]
              have hsc : sumCount ri.tables = sumCount r.tables + -((j : Int) - 1) := by
                rw [htabi]; exact sumCount_upd_adj hwf.nodup hidm _ _
              have hpci : ri.playerCount = r.playerCount := by rw [← hri]; rfl
              have hreqi : ri.requiredTables = r.requiredTables := by rw [← hri]; rfl
              have hFi : ri.playerCount / ri.requiredTables = flr r := by rw [hpci, hreqi]; rfl
              have hX : ri.playerCount = ((r.queue.length : Int) + (f : Int) + ((j : Int) - 1)) + sumCount ri.tables := by
                rw [hpci, hsc, hcnt]; omega
              have hlowne : lowOf (flr r) ri.tables ≠ [] := by
                have hflri : flr ri = flr r := hFi
                rw [← hflri]
                apply low_nonempty ri (by rw [hreqi]; exact hreq')
                · rw [hreqi, htabi, upd_length, ← hwf.tc]; exact hc.1.symm
                · rw [hpci, hsc, hcnt]; omega
              rcases not_reached ri (flr r) _ hFi hX hl with ⟨hnil, _⟩ | ⟨_, hlt2⟩
              · exact absurd hnil hlowne
              · have he0 : eF (flr r) (adj (-((j : Int) - 1)) none t0) = eF (flr r) t0 := by
                  simp only [eF, adj]; omega
                have hE : tot (eF (flr r)) ri.tables = tot (eF (flr r)) r.tables := by
                  rw [htabi]; exact tot_upd_eq _ _ hwf.nodup ht0 hid0 _ he0
                have hdr := deficit_le_required (flr r) r.tables hc.2 (fun x hx => (hwf.bnd x hx).2.1)
                rw [hE] at hlt2
                omega
        · exact Or.inl hsame

end Reg

open Reg

namespace ASys
open RSys (membersOf_some)

/-! ### the potential of an asynchronous state -/

/-- somebody is on the way back -/
def find (s : ASys) : Nat := if s.flying = [] then 0 else 1

/-- the asynchronous potential: the synchronous one (`Reg.phi = 2·psi + D + [queue ≠ ∅]`) plus one
    while somebody is on the way back -/
def potentialA (s : ASys) : Nat := phi s.r + find s

theorem find_le (s : ASys) : find s ≤ 1 := by unfold find; split <;> omega

/-- the players on the way after a sync -/
theorem flying_step_sync (s : ASys) (t : Nat) (elim stay rel keep : List Nat) :
    (s.step (.sync t elim stay rel keep)).flying = s.flying ++ s.departing (.sync t elim stay rel keep) := by
  cases hm : s.env.membersOf t with
  | none =>
    have hinf : (s.step (.sync t elim stay rel keep)).inflight = s.inflight := by simp only [step, hm]
    simp only [flying, hinf, departing, hm, List.append_nil]
  | some ms =>
    have hinf : (s.step (.sync t elim stay rel keep)).inflight =
        (if rel.isEmpty then s.inflight else s.inflight ++ [(t, rel)]) := by simp only [step, hm]
    simp only [flying, hinf, departing, hm]
    split
    · rename_i he
      have : rel = [] := by simpa using he
      simp [this]
    · simp

/-- **syncs never raise the potential, whoever is on the way**: a valid elimination-free sync from
    a state satisfying the invariant keeps `potentialA` from rising and lowers it when it asks its
    table to release, receive or break. -/
theorem sync_step_phi {s : ASys} (h : AInvF s) (t : Nat) (stay rel keep : List Nat)
    (hok : s.ok (.sync t [] stay rel keep)) :
    potentialA (s.step (.sync t [] stay rel keep)) ≤ potentialA s ∧
    (s.asks (.sync t [] stay rel keep) = true →
      potentialA (s.step (.sync t [] stay rel keep)) + 1 ≤ potentialA s) := by
  have hsa : s.syncAnswer t [] = s.r.syncState t 0 := rfl
  have hfly := flying_step_sync s t [] stay rel keep
  cases hm : s.env.membersOf t with
  | none =>
    have hft := (h.a.unknown_iff t).1 hm
    have h1 : (s.syncAnswer t []).1 = s.r.beginOp [] := syncState_unknown s.r t _ hft
    have hstep : (s.step (.sync t [] stay rel keep)).r = s.r.beginOp [] := by rw [step_sync_r, h1]
    have hf2 : find (s.step (.sync t [] stay rel keep)) = find s := by
      unfold find; rw [hfly]; simp only [departing, hm, List.append_nil]
    unfold potentialA
    rw [hstep, (beginOp_sheet s.r []).phi rfl, hf2]
    refine ⟨Nat.le_refl _, ?_⟩
    intro ha
    simp [asks, hm] at ha
  | some ms =>
    have hok' := hok
    simp only [ok, hm] at hok'
    rw [show s.syncAnswer t [] = ((s.syncAnswer t []).1, (s.syncAnswer t []).2.1,
      (s.syncAnswer t []).2.2.1, (s.syncAnswer t []).2.2.2) from rfl] at hok'
    simp only [] at hok'
    obtain ⟨hp1, hp2, hrl, hkeep⟩ := hok'
    obtain ⟨r1, relc, nw, t0, hft, hc0, hans, post⟩ := h.a.sync_facts t [] stay ms hm hp1
    have hss : s.r.syncState t 0 = (r1, none, relc, nw) := hsa ▸ hans
    have hphi := syncState_phiF s.r t t0 s.flying.length h.f.wf h.f.q h.a.cnt hft
    rw [hss] at hphi
    simp only at hphi
    rw [hans] at hrl
    simp only at hrl
    have hstep : (s.step (.sync t [] stay rel keep)).r = r1 := by rw [step_sync_r, hans]
    have hbrk : s.broken t [] = (r1.findTable t).isNone := by simp only [broken, hans]
    have hask : s.asks (.sync t [] stay rel keep) = true →
        (relc ≠ 0 ∨ nw ≠ [] ∨ r1.findTable t = none) := by
      intro ha
      simp only [asks, hm, hans, hbrk, Option.isSome_some, Bool.true_and, Bool.or_eq_true,
        decide_eq_true_eq, Bool.not_eq_true', List.isEmpty_eq_false_iff, Option.isNone_iff_eq_none] at ha
      rcases ha with (h1 | h1) | h1
      · exact Or.inl h1
      · exact Or.inr (Or.inl h1)
      · exact Or.inr (Or.inr h1)
    have hdep : s.departing (.sync t [] stay rel keep) = rel := by simp only [departing, hm]
    rw [hdep] at hfly
    have hf1 := find_le (s.step (.sync t [] stay rel keep))
    have hq : (syncBase s.r t (([] : List Nat).length : Int)).queue = s.r.queue := rfl
    unfold potentialA
    rw [hstep]
    rcases hphi with ⟨a1, a2, a3, a4⟩ | ⟨b1, b2, b3, b4⟩ | ⟨c1, c2, _, c4, _, c6, _, _⟩
    · -- nothing, or a top-up from the queue: nobody leaves
      have hrel : rel = [] := List.length_eq_zero_iff.1 (by omega)
      have hf2 : find (s.step (.sync t [] stay rel keep)) = find s := by
        unfold find; rw [hfly, hrel, List.append_nil]
      rw [hf2]
      refine ⟨by omega, fun ha => ?_⟩
      rcases hask ha with h1 | h1 | h1
      · exact absurd a1 h1
      · have := a4 h1; omega
      · exact absurd h1 a2
    · -- break
      have hq1 : r1.queue = s.r.queue := by
        have := post.queue
        rw [b2, hq] at this
        simpa using this.symm
      have hqi : qind r1 = qind s.r := by unfold qind; rw [hq1]
      have h1 := psi_le_psi1 r1
      have : phi r1 + 3 ≤ phi s.r := by unfold phi; omega
      exact ⟨by omega, fun _ => by omega⟩
    · -- release
      have hq1 : r1.queue = s.r.queue := by
        have := post.queue
        rw [c1, hq] at this
        simpa using this.symm
      have hqi : qind r1 = qind s.r := by unfold qind; rw [hq1]
      have hk : 1 ≤ relc.toNat := by omega
      have : phi r1 + 2 ≤ phi s.r := by unfold phi; omega
      exact ⟨by omega, fun _ => by omega⟩

/-! ### reports -/

/-- the outstanding `Required`s cannot take the queue and the reported players, in a calm state:
    `updateTableRequirements` will hand out fresh `Required`s (the one-time bonus of the potential
    is cashed) -/
def overflows (s : ASys) (ps : List Nat) : Prop :=
  calm s.r ∧ tot rF s.r.tables < s.r.queue.length + ps.length

instance (s : ASys) (ps : List Nat) : Decidable (overflows s ps) := inferInstanceAs (Decidable (_ ∧ _))

/-- the report leaves players queued (none were before) while others are still on the way -/
def strands (s : ASys) (op : AOp) : Prop :=
  s.r.queue = [] ∧ (s.step op).r.queue ≠ [] ∧ (s.step op).flying ≠ []

instance (s : ASys) (op : AOp) : Decidable (strands s op) := inferInstanceAs (Decidable (_ ∧ _ ∧ _))

/-- what a report may add to the potential -/
def lateCost (s : ASys) : AOp → Nat
  | .report t ps rest ch =>
      (if overflows s ps then 2 * s.r.tables.length else 0) +
        (if strands s (.report t ps rest ch) then 1 else 0)
  | _ => 0

/-- **a report raises the potential by at most its `lateCost`**: by nothing unless it arrives in a
    calm state with more players than the outstanding `Required`s can take (then by at most twice
    the number of tables) or leaves players queued while others are still on the way (one more). -/
theorem report_step_phi {s : ASys} (h : AInvF s) (t : Nat) (ps rest ch : List Nat)
    (hok : s.ok (.report t ps rest ch)) :
    potentialA (s.step (.report t ps rest ch)) ≤ potentialA s + lateCost s (.report t ps rest ch) := by
  obtain ⟨hperm, hbad⟩ := hok
  have hr : (s.step (.report t ps rest ch)).r = s.r.releasePlayers ps ch := rfl
  have hmax := h.f.wf.maxpos
  have hpc := h.a.pc_nonneg
  -- the players on the way afterwards are among those on the way before
  have hF := (h.a.step_report t ps rest ch ⟨hperm, hbad⟩).2.flying
  have hsub : (s.step (.report t ps rest ch)).flying ≠ [] → s.flying ≠ [] := by
    intro hne hnil
    have := hF.length_eq
    rw [hnil] at this
    simp only [departing, List.append_nil, List.length_nil, List.length_append, reported] at this
    exact hne (List.length_eq_zero_iff.1 (by omega))
  have hps : ps ≠ [] → s.flying ≠ [] := by
    intro hne hnil
    have := hF.length_eq
    rw [hnil] at this
    simp only [departing, List.append_nil, List.length_nil, List.length_append, reported] at this
    exact hne (List.length_eq_zero_iff.1 (by omega))
  by_cases hnil : ps = [] ∧ s.r.queue = []
  · -- nobody reported, nobody queued: only the scratch fields change
    obtain ⟨hp0, hq0⟩ := hnil
    subst hp0
    have hrr : (s.step (.report t [] rest ch)).r = s.r.beginOp ch := by
      rw [hr]; exact releasePlayers_nil s.r ch hq0
    have hfl : find (s.step (.report t [] rest ch)) ≤ find s := by
      unfold find
      split
      · omega
      · rename_i hne; rw [if_neg (hsub hne)]; omega
    unfold potentialA
    rw [hrr, (beginOp_sheet s.r ch).phi rfl]
    omega
  · -- the indicator part
    have hind : qind (s.r.releasePlayers ps ch) + find (s.step (.report t ps rest ch)) ≤
        qind s.r + find s + (if strands s (.report t ps rest ch) then 1 else 0) := by
      have q1 := qind_le (s.r.releasePlayers ps ch)
      have f1 := find_le (s.step (.report t ps rest ch))
      by_cases hq : s.r.queue = []
      · have hpne : ps ≠ [] := fun hp => hnil ⟨hp, hq⟩
        have hfs : find s = 1 := by unfold find; rw [if_neg (hps hpne)]
        by_cases hq' : (s.step (.report t ps rest ch)).r.queue = []
        · have : qind (s.r.releasePlayers ps ch) = 0 := by
            unfold qind; rw [← hr, if_pos hq']
          omega
        · by_cases hf' : (s.step (.report t ps rest ch)).flying = []
          · have : find (s.step (.report t ps rest ch)) = 0 := by unfold find; rw [if_pos hf']
            omega
          · have : strands s (.report t ps rest ch) := ⟨hq, hq', hf'⟩
            rw [if_pos this]; omega
      · have hqs : qind s.r = 1 := by unfold qind; rw [if_neg hq]
        have : find (s.step (.report t ps rest ch)) ≤ find s := by
          unfold find
          split
          · omega
          · rename_i hne; rw [if_neg (hsub hne)]; omega
        omega
    -- the table part
    have htab : 2 * psi (s.r.releasePlayers ps ch) + Ds (s.r.releasePlayers ps ch) ≤
        2 * psi s.r + Ds s.r + (if overflows s ps then 2 * s.r.tables.length else 0) := by
      by_cases hc : calm s.r
      · by_cases hfit : s.r.queue.length + ps.length ≤ tot rF s.r.tables
        · obtain ⟨k1, k2⟩ := releasePlayers_calm s.r ps ch h.f.wf hmax hc hfit hbad
          omega
        · have hov : overflows s ps := ⟨hc, by omega⟩
          rw [if_pos hov]
          have := releasePlayers_pot s.r ps ch h.f.wf hmax hpc hbad
          have e : psi1 s.r = psi s.r + s.r.tables.length := by
            unfold psi1 psi; rw [TP_calm hc]; omega
          omega
      · have := releasePlayers_pot s.r ps ch h.f.wf hmax hpc hbad
        have e : psi1 s.r = psi s.r := by unfold psi1 psi; rw [TP_not_calm hc]
        omega
    unfold potentialA phi
    rw [hr]
    simp only [lateCost]
    omega

/-- the late costs of the reports of a script -/
def lateCostSum : ASys → List AOp → Nat
  | _, [] => 0
  | s, op :: ops => lateCost s op + lateCostSum (s.step op) ops

/-- **accounting**: along every valid script of elimination-free syncs and reports - any
    interleaving, reports as late and in as many parts as one likes - the number of asking syncs
    is at most the potential at the start plus what the reports added. -/
theorem askCount_le_phiA : ∀ (ops : List AOp) (s : ASys), AInvF s →
    (∀ op ∈ ops, quietOp op = true) → s.allOkFwd ops →
    s.askCount ops + potentialA (s.run ops) ≤ potentialA s + lateCostSum s ops := by
  intro ops
  induction ops with
  | nil => intro s _ _ _; simp [askCount, run, lateCostSum]
  | cons op ops ih =>
    intro s h hq hok
    have hqo := hq op (List.mem_cons_self ..)
    obtain ⟨hS', _⟩ := h.step_full op hok.1
    have hrec := ih (s.step op) hS' (fun o ho => hq o (List.mem_cons_of_mem _ ho)) hok.2
    have hrun : s.run (op :: ops) = (s.step op).run ops := rfl
    rw [hrun]
    simp only [askCount, lateCostSum]
    cases op with
    | add ps ch => simp [quietOp] at hqo
    | status st ch => simp [quietOp] at hqo
    | sync t elim stay rel keep =>
      have he : elim = [] := by simpa [quietOp] using hqo
      subst he
      obtain ⟨q1, q2⟩ := sync_step_phi h t stay rel keep (ok_of_okFwd hok.1)
      have hl : lateCost s (.sync t [] stay rel keep) = 0 := rfl
      by_cases ha : s.asks (.sync t [] stay rel keep) = true
      · have := q2 ha
        rw [if_pos ha]; omega
      · rw [if_neg ha]; omega
    | report t ps rest ch =>
      have := report_step_phi h t ps rest ch (ok_of_okFwd hok.1)
      have ha : s.asks (.report t ps rest ch) = false := rfl
      rw [ha]
      simp only [Bool.false_eq_true, if_false]
      omega

theorem potentialA_le {s : ASys} (h : AInvF s) : potentialA s ≤ smallBound s.r + 1 := by
  have := phi_le_smallBound s.r h.f.wf h.f.wf.maxpos h.a.pc_nonneg
  have := find_le s
  unfold potentialA; omega

end ASys
end Pokerface
