/-
  Operation-level specifications of the regulator: `AddPlayers`, `SetStatus`,
  `ReleasePlayers`, and the quiescent invariant `RInv`.
-/
import Pokerface.Proofs.RegSync

namespace Pokerface
namespace Reg

/-- counting consequence of `Ext` -/
theorem Ext.cnt {r r' : Reg} {cands rest : List Nat} (hwf : WF r) (h : Ext r r' cands rest) :
    (cands.length : Int) + sumCount r.tables = rest.length + sumCount r'.tables := by
  obtain ⟨cs, _, e2, e3, e4, _⟩ := h.calls
  have := (applyTVs_spec (tview r.tables) cs (by rw [tview_fst]; exact hwf.nodup) e4).2
  rw [sumCount_eq, sumCount_eq, e3, this, e2, List.length_append]
  omega

theorem enterWaitingQueue_spec (r : Reg) (ps : List Nat) (hwf : WF r)
    (hb : (r.enterWaitingQueue ps).badChoice = false) :
    WF (r.enterWaitingQueue ps) ∧ Ext r (r.enterWaitingQueue ps) (r.queue ++ ps) (r.enterWaitingQueue ps).queue ∧
    (r.status ≠ .pending → Q (r.enterWaitingQueue ps)) ∧
    (r.status = .pending → (r.enterWaitingQueue ps).tables = r.tables ∧ (r.enterWaitingQueue ps).calls = r.calls) := by
  unfold enterWaitingQueue at hb ⊢
  simp only at hb ⊢
  split
  · rename_i hp
    refine ⟨hwf.setQueue _, Ext.setQueue r _ _, fun h => absurd hp h, fun _ => ⟨rfl, rfl⟩⟩
  · rename_i hp
    rw [if_neg hp] at hb
    obtain ⟨h1, h2, h3, _⟩ := drainWaitingQueue_spec _ (hwf.setQueue (r.queue ++ ps)) hb
    exact ⟨h1, (Ext.setQueue r _ _).trans h2, fun _ => h3, fun h => absurd h hp⟩

/-- quiescent invariant of the regulator (between operations) -/
structure RInv (r : Reg) : Prop where
  wf : WF r
  q : Q r
  cnt : r.playerCount = r.queue.length + sumCount r.tables
  pend : r.status = .pending → r.tables = []

/-- what a queue-feeding operation did, read off the final state (`calls` was reset at its start) -/
structure OpExt (r r' : Reg) (incoming : List Nat) : Prop where
  max_eq : r'.max = r.max
  min_eq : r'.min = r.min
  queue : r.queue ++ incoming = handed r'.calls ++ r'.queue
  tv : tview r'.tables = applyTVs (tview r.tables) r'.calls
  valid : validCalls (tview r.tables) r'.calls
  reqmax : ∀ id ps, RCall.requestTable id ps ∈ r'.calls → ps.length ≤ r.max
  newids : ∀ id ps, RCall.requestTable id ps ∈ r'.calls → r.nextId ≤ id

theorem WF.beginOp {r : Reg} (hwf : WF r) (ch : List Nat) : WF (r.beginOp ch) :=
  ⟨hwf.maxpos, hwf.tc, hwf.nodup, hwf.idlt, hwf.bnd⟩

theorem RInv.beginOp {r : Reg} (h : RInv r) (ch : List Nat) : RInv (r.beginOp ch) :=
  ⟨h.wf.beginOp ch, h.q, h.cnt, h.pend⟩

theorem OpExt.of_ext {r0 r r' : Reg} {inc : List Nat} (hc : r.calls = []) (hmax : r.max = r0.max)
    (hmin : r.min = r0.min) (hq : r.queue = r0.queue) (ht : r.tables = r0.tables)
    (hnx : r.nextId = r0.nextId)
    (h : Ext r r' (r.queue ++ inc) r'.queue) : OpExt r0 r' inc := by
  obtain ⟨cs, e1, e2, e3, e4, e5⟩ := h.calls
  rw [hc, List.nil_append] at e1
  subst e1
  refine ⟨h.max_eq.trans hmax, h.min_eq.trans hmin, ?_, ?_, ?_, ?_, ?_⟩
  · rw [← hq]; exact e2
  · rw [← ht]; exact e3
  · rw [← ht]; exact e4
  · rw [← hmax]; exact fun id ps hm => (e5 id ps hm).1
  · rw [← hnx]; exact fun id ps hm => (e5 id ps hm).2

theorem setReq_nil (wl : Int) : setReq wl [] = [] := rfl

/-- `AddPlayers` before the deadline -/
theorem addPlayers_spec (r : Reg) (ps ch : List Nat) (h : RInv r) (hs : r.status ≠ .afterRegDeadline)
    (hb : (r.addPlayers ps ch).1.badChoice = false) :
    (r.addPlayers ps ch).2 = none ∧ RInv (r.addPlayers ps ch).1 ∧ OpExt r (r.addPlayers ps ch).1 ps ∧
    (r.addPlayers ps ch).1.status = r.status ∧
    (r.addPlayers ps ch).1.playerCount = r.playerCount + ps.length := by
  unfold addPlayers at hb ⊢
  simp only at hb ⊢
  have hs' : ¬ (r.beginOp ch).status = .afterRegDeadline := hs
  rw [if_neg hs'] at hb ⊢
  simp only at hb ⊢
  generalize hr1 : ({ r.beginOp ch with playerCount := (r.beginOp ch).playerCount + ps.length } : Reg) = r1 at hb ⊢
  have hwf1 : WF r1 := by
    rw [← hr1]; exact ⟨h.wf.maxpos, h.wf.tc, h.wf.nodup, h.wf.idlt, h.wf.bnd⟩
  obtain ⟨hwf2, hext2, hq2, hbad2, hcalls2, _, _⟩ := updateTableRequirements_spec r1 hwf1 (r1.queue ++ ps)
  generalize hr2 : r1.updateTableRequirements = r2 at *
  obtain ⟨hwf3, hext3, hq3, hp3⟩ := enterWaitingQueue_spec r2 ps hwf2 hb
  have hst2 : r2.status = r.status := by rw [hext2.status_eq, ← hr1]; rfl
  have hpc2 : r2.playerCount = r.playerCount + ps.length := by rw [hext2.pc_eq, ← hr1]; rfl
  have hr1q : r1.queue = r.queue := by rw [← hr1]; rfl
  have hr1t : r1.tables = r.tables := by rw [← hr1]; rfl
  have hext : Ext r1 (r2.enterWaitingQueue ps) (r1.queue ++ ps) (r2.enterWaitingQueue ps).queue := by
    have := hext2.trans (hq2 ▸ hext3)
    exact this
  refine ⟨trivial, ⟨hwf3, ?_, ?_, ?_⟩, ?_, ?_, ?_⟩
  · by_cases hp : r2.status = .pending
    · intro _ t ht
      rw [(hp3 hp).1] at ht
      have : r2.tables = [] := by
        have h0 := h.pend (hst2 ▸ hp)
        rw [← hr2, updateTableRequirements_eq]
        split
        · simp only [hr1t, h0, setReq_nil]
        · rw [hr1t, h0]
      rw [this] at ht; cases ht
    · exact hq3 hp
  · have hc := hext.cnt hwf1
    rw [hext3.pc_eq, hpc2]
    rw [hr1q, hr1t, List.length_append] at hc
    have := h.cnt
    omega
  · intro hp
    rw [hext3.status_eq, hst2] at hp
    have h0 := h.pend hp
    rw [(hp3 (hst2 ▸ hp)).1, ← hr2, updateTableRequirements_eq]
    split
    · simp only [hr1t, h0, setReq_nil]
    · rw [hr1t, h0]
  · exact OpExt.of_ext (by rw [← hr1]; rfl) (by rw [← hr1]; rfl) (by rw [← hr1]; rfl) hr1q hr1t
      (by rw [← hr1]; rfl) hext
  · rw [hext3.status_eq, hst2]
  · rw [hext3.pc_eq, hpc2]

/-- `SetStatus` (never back to pending once started) -/
theorem setStatus_spec (r : Reg) (st : RStatus) (ch : List Nat) (h : RInv r)
    (hdom : st ≠ .pending ∨ r.status = .pending)
    (hb : (r.setStatus st ch).badChoice = false) :
    RInv (r.setStatus st ch) ∧ OpExt r (r.setStatus st ch) [] ∧ (r.setStatus st ch).status = st ∧
    (r.setStatus st ch).playerCount = r.playerCount := by
  unfold setStatus at hb ⊢
  simp only at hb ⊢
  split
  · rename_i hsame
    refine ⟨h.beginOp ch, ⟨rfl, rfl, by simp [Reg.beginOp], rfl, trivial, by simp [Reg.beginOp],
      by simp [Reg.beginOp]⟩, hsame, rfl⟩
  · rename_i hne
    rw [if_neg hne] at hb
    have hne' : r.status ≠ st := hne
    have hstp : st ≠ .pending := by
      rcases hdom with h1 | h1
      · exact h1
      · intro h2; exact hne' (h1.trans h2.symm)
    generalize hr1 : ({ r.beginOp ch with status := st } : Reg) = r1 at hb ⊢
    have hwf1 : WF r1 := by
      rw [← hr1]; exact ⟨h.wf.maxpos, h.wf.tc, h.wf.nodup, h.wf.idlt, h.wf.bnd⟩
    have hr1q : r1.queue = r.queue := by rw [← hr1]; rfl
    have hr1t : r1.tables = r.tables := by rw [← hr1]; rfl
    have hr1s : r1.status = st := by rw [← hr1]
    have hr1p : r1.playerCount = r.playerCount := by rw [← hr1]; rfl
    split
    · rename_i hdrain
      rw [if_pos hdrain] at hb
      obtain ⟨h1, h2, h3, _⟩ := drainWaitingQueue_spec r1 hwf1 hb
      have hc := h2.cnt hwf1
      refine ⟨⟨h1, h3, ?_, ?_⟩, ?_, ?_, ?_⟩
      · rw [h2.pc_eq, hr1p, h.cnt]; rw [hr1q, hr1t] at hc; omega
      · intro hp; rw [h2.status_eq, hr1s] at hp; exact absurd hp hstp
      · refine OpExt.of_ext (r := r1) (by rw [← hr1]; rfl) (by rw [← hr1]; rfl) (by rw [← hr1]; rfl) hr1q hr1t
          (by rw [← hr1]; rfl) ?_
        rw [List.append_nil]; exact h2
      · rw [h2.status_eq, hr1s]
      · rw [h2.pc_eq, hr1p]
    · refine ⟨⟨hwf1, ?_, ?_, ?_⟩, ?_, hr1s, hr1p⟩
      · intro hq; rw [hr1q] at hq; rw [hr1t]; exact h.q hq
      · rw [hr1p, hr1q, hr1t]; exact h.cnt
      · intro hp; rw [hr1s] at hp; exact absurd hp hstp
      · rw [← hr1]
        exact ⟨rfl, rfl, by simp [Reg.beginOp], rfl, trivial, by simp [Reg.beginOp], by simp [Reg.beginOp]⟩

/-- `ReleasePlayers` after a `SyncState` that asked for `rel` -/
theorem releasePlayers_spec (r1 : Reg) (rel ch : List Nat) (hwf : WF r1) (hs : r1.status ≠ .pending)
    (hcnt : r1.playerCount = r1.queue.length + sumCount r1.tables + rel.length)
    (hb : (r1.releasePlayers rel ch).badChoice = false) :
    RInv (r1.releasePlayers rel ch) ∧ OpExt r1 (r1.releasePlayers rel ch) rel ∧
    (r1.releasePlayers rel ch).status = r1.status ∧
    (r1.releasePlayers rel ch).playerCount = r1.playerCount := by
  unfold releasePlayers at hb ⊢
  obtain ⟨h1, h2, h3, _⟩ := enterWaitingQueue_spec (r1.beginOp ch) rel (hwf.beginOp ch) hb
  have hc := h2.cnt (hwf.beginOp ch)
  refine ⟨⟨h1, h3 hs, ?_, ?_⟩, ?_, h2.status_eq, h2.pc_eq⟩
  · rw [h2.pc_eq]
    show r1.playerCount = _
    rw [hcnt]
    have e1 : (r1.beginOp ch).queue = r1.queue := rfl
    have e2 : (r1.beginOp ch).tables = r1.tables := rfl
    rw [e1, e2, List.length_append] at hc
    omega
  · intro hp; rw [h2.status_eq] at hp; exact absurd hp hs
  · exact OpExt.of_ext (r := r1.beginOp ch) rfl rfl rfl rfl rfl rfl h2

/-! ### the initial allocation -/

theorem drain_noop (r : Reg) (_hwf : WF r) (h0 : r.tableCount = 0) (hlt : r.playerCount < r.min) :
    r.drainWaitingQueue = r := by
  rw [drainWaitingQueue_eq]
  split
  · unfold allocateTables
    simp only [h0, if_true, hlt]
  · rw [if_neg (by omega)]

theorem allocateLoop_min (fuel : Nat) : ∀ (wl reqT : Int) (r : Reg), WF r → r.min ≤ r.max →
    (r.tableCount < reqT → wl ≤ r.queue.length) →
    ∃ cs, (allocateLoop fuel wl reqT r).calls = r.calls ++ cs ∧
      ∀ id ps, RCall.requestTable id ps ∈ cs → r.min ≤ ps.length := by
  induction fuel with
  | zero => intro wl reqT r _ _ _; exact ⟨[], by simp [allocateLoop], by simp⟩
  | succ n ih =>
    intro wl reqT r hwf hmm hq
    rw [allocateLoop_succ]
    split
    · rename_i hcond
      have hwlq := hq hcond.2
      have hb := pullCount_bounds r wl
      have hcap : (r.min : Int) ≤ r.capWl wl := capWl_ge r wl _ hcond.1 (by omega)
      have hcapq : r.capWl wl ≤ r.queue.length := by unfold capWl; split <;> omega
      have hpq : r.pullCount wl ≤ r.queue.length := by unfold pullCount; split <;> omega
      split
      · exact ⟨[], by simp, by simp⟩
      · obtain ⟨hwf2, _, _, _⟩ := openTable_spec r (r.capWl wl) (r.pullCount wl).toNat hwf
          (by omega) (capWl_le r wl) (by omega)
        have hlen : (r.queue.take (r.pullCount wl).toNat).length = (r.pullCount wl).toNat := by
          rw [List.length_take]; omega
        simp only
        split
        · refine ⟨[RCall.requestTable r.nextId (r.queue.take (r.pullCount wl).toNat)], rfl, ?_⟩
          intro id ps hm
          simp only [List.mem_cons, List.not_mem_nil, or_false, RCall.requestTable.injEq] at hm
          rw [hm.2, hlen]; omega
        · rename_i hexp
          obtain ⟨cs, hc1, hc2⟩ := ih
            (((r.openTable (r.capWl wl) (r.pullCount wl).toNat).queue.length : Int) /
              (reqT - (r.openTable (r.capWl wl) (r.pullCount wl).toNat).tableCount)) reqT _ hwf2 hmm
            (fun _ => floor_le_self (by omega))
          refine ⟨RCall.requestTable r.nextId (r.queue.take (r.pullCount wl).toNat) :: cs, ?_, ?_⟩
          · rw [hc1]; simp [openTable]
          · intro id ps hm
            rcases List.mem_cons.1 hm with h | h
            · simp only [RCall.requestTable.injEq] at h
              rw [h.2, hlen]; omega
            · exact hc2 id ps h
    · exact ⟨[], by simp, by simp⟩

theorem allocateTables_min (r : Reg) (hwf : WF r) (h0 : r.tableCount = 0)
    (hcnt : r.playerCount = r.queue.length) :
    ∃ cs, r.allocateTables.calls = r.calls ++ cs ∧
      ∀ id ps, RCall.requestTable id ps ∈ cs → r.min ≤ ps.length := by
  have hmaxpos : (0 : Int) < r.max := by have := hwf.maxpos; omega
  unfold allocateTables
  simp only [h0, if_true]
  have hwlle : (if r.requiredTables > 0 then r.playerCount / r.requiredTables else 0) ≤ (r.queue.length : Int) := by
    split
    · have : r.playerCount / r.requiredTables ≤ r.playerCount := floor_le_self (by omega)
      omega
    · omega
  have hwlmax : (if r.requiredTables > 0 then r.playerCount / r.requiredTables else 0) ≤ (r.max : Int) := by
    split
    · rename_i hpos
      exact floor_le_max hpos (le_ceilDiv_mul r.playerCount r.max hwf.maxpos)
    · omega
  generalize (if r.requiredTables > 0 then r.playerCount / r.requiredTables else 0) = wl at hwlle hwlmax ⊢
  by_cases hmm : r.min ≤ r.max
  · split
    · exact ⟨[], by simp, by simp⟩
    · split
      · exact allocateLoop_min _ _ _ r hwf hmm (fun _ => hwlle)
      · apply allocateLoop_min _ _ _ r hwf hmm
        intro hlt
        rw [h0] at hlt
        have : (1 : Int) ≤ r.playerCount / (r.max : Int) := by omega
        rw [Int.le_ediv_iff_mul_le hmaxpos] at this
        omega
  · -- `min > max`: the water level never reaches `min`, no table is opened at all
    split
    · exact ⟨[], by simp, by simp⟩
    · split
      · omega
      · rw [allocateLoop_succ, if_neg (by omega)]
        exact ⟨[], by simp, by simp⟩

theorem drain_min (r : Reg) (hwf : WF r) (h0 : r.tableCount = 0) (hcnt : r.playerCount = r.queue.length) :
    ∃ cs, r.drainWaitingQueue.calls = r.calls ++ cs ∧
      ∀ id ps, RCall.requestTable id ps ∈ cs → r.min ≤ ps.length := by
  rw [drainWaitingQueue_eq]
  split
  · exact allocateTables_min r hwf h0 hcnt
  · rw [if_neg (by omega)]
    exact ⟨[], by simp, by simp⟩

theorem sumCount_nil : sumCount [] = 0 := rfl

/-- tables opened by `AddPlayers` when no table existed get at least `min` players -/
theorem addPlayers_initial (r : Reg) (ps ch : List Nat) (h : RInv r) (h0 : r.tableCount = 0) :
    ∀ id qs, RCall.requestTable id qs ∈ (r.addPlayers ps ch).1.calls → r.min ≤ qs.length := by
  have ht0 := tables_nil_of_tc h.wf h0
  unfold addPlayers
  simp only
  split
  · intro id qs hm; simp [Reg.beginOp] at hm
  · simp only
    generalize hr1 : ({ r.beginOp ch with playerCount := (r.beginOp ch).playerCount + ps.length } : Reg) = r1
    have hwf1 : WF r1 := by
      rw [← hr1]; exact ⟨h.wf.maxpos, h.wf.tc, h.wf.nodup, h.wf.idlt, h.wf.bnd⟩
    obtain ⟨hwf2, hext2, hq2, _, hcalls2, _, htc2⟩ := updateTableRequirements_spec r1 hwf1 []
    have hr1t : r1.tables = [] := by rw [← hr1]; exact ht0
    have hr2t : r1.updateTableRequirements.tables = [] := by
      rw [updateTableRequirements_eq]; split
      · simp only [hr1t, setReq_nil]
      · exact hr1t
    generalize r1.updateTableRequirements = r2 at *
    have hc2 : r2.calls = [] := by rw [hcalls2, ← hr1]; rfl
    unfold enterWaitingQueue
    simp only
    split
    · intro id qs hm; rw [hc2] at hm; cases hm
    · have hwf3 : WF { r2 with queue := r2.queue ++ ps } := hwf2.setQueue _
      obtain ⟨cs, e1, e2⟩ := drain_min { r2 with queue := r2.queue ++ ps } hwf3
        (by show r2.tableCount = 0; rw [htc2, ← hr1]; exact h0)
        (by
          show r2.playerCount = ((r2.queue ++ ps).length : Int)
          rw [hext2.pc_eq, hq2, ← hr1]
          show r.playerCount + ps.length = ((r.queue ++ ps).length : Int)
          rw [h.cnt, ht0, sumCount_nil, List.length_append]; omega)
      intro id qs hm
      rw [e1] at hm
      have : ({ r2 with queue := r2.queue ++ ps } : Reg).calls = [] := hc2
      rw [this, List.nil_append] at hm
      have hmin : ({ r2 with queue := r2.queue ++ ps } : Reg).min = r.min := by
        show r2.min = r.min; rw [hext2.min_eq, ← hr1]; rfl
      rw [← hmin]; exact e2 id qs hm

/-- tables opened by `SetStatus` when no table existed get at least `min` players -/
theorem setStatus_initial (r : Reg) (st : RStatus) (ch : List Nat) (h : RInv r) (h0 : r.tableCount = 0) :
    ∀ id qs, RCall.requestTable id qs ∈ (r.setStatus st ch).calls → r.min ≤ qs.length := by
  have ht0 := tables_nil_of_tc h.wf h0
  unfold setStatus
  simp only
  split
  · intro id qs hm; simp [Reg.beginOp] at hm
  · split
    · generalize hr1 : ({ r.beginOp ch with status := st } : Reg) = r1
      have hwf1 : WF r1 := by
        rw [← hr1]; exact ⟨h.wf.maxpos, h.wf.tc, h.wf.nodup, h.wf.idlt, h.wf.bnd⟩
      obtain ⟨cs, e1, e2⟩ := drain_min r1 hwf1 (by rw [← hr1]; exact h0)
        (by rw [← hr1]; show r.playerCount = (r.queue.length : Int); rw [h.cnt, ht0, sumCount_nil]; omega)
      intro id qs hm
      rw [e1] at hm
      have : r1.calls = [] := by rw [← hr1]; rfl
      rw [this, List.nil_append] at hm
      have hmin : r1.min = r.min := by rw [← hr1]; rfl
      rw [← hmin]; exact e2 id qs hm
    · intro id qs hm; simp [Reg.beginOp] at hm

/-- tables opened by `ReleasePlayers` when no table exists (the last one was just broken) get at
    least `min` players -/
theorem releasePlayers_initial (r1 : Reg) (rel ch : List Nat) (hwf : WF r1) (h0 : r1.tableCount = 0)
    (hcnt : r1.playerCount = r1.queue.length + sumCount r1.tables + rel.length) :
    ∀ id qs, RCall.requestTable id qs ∈ (r1.releasePlayers rel ch).calls → r1.min ≤ qs.length := by
  have ht0 := tables_nil_of_tc hwf h0
  unfold releasePlayers enterWaitingQueue
  simp only
  split
  · intro id qs hm; simp [Reg.beginOp] at hm
  · have hwf3 : WF ({ r1.beginOp ch with queue := (r1.beginOp ch).queue ++ rel } : Reg) :=
      (hwf.beginOp ch).setQueue _
    obtain ⟨cs, e1, e2⟩ := drain_min _ hwf3 h0 (by
      show r1.playerCount = ((r1.queue ++ rel).length : Int)
      rw [hcnt, ht0, sumCount_nil, List.length_append]; omega)
    intro id qs hm
    rw [e1] at hm
    have : ({ r1.beginOp ch with queue := (r1.beginOp ch).queue ++ rel } : Reg).calls = [] := rfl
    rw [this, List.nil_append] at hm
    exact e2 id qs hm

/-- with no table and fewer than `min` players, `AddPlayers`/`SetStatus` open no table -/
theorem addPlayers_before_min (r : Reg) (ps ch : List Nat) (h : RInv r) (h0 : r.tableCount = 0)
    (hlt : r.playerCount + ps.length < r.min) :
    (r.addPlayers ps ch).1.tables = [] ∧ (r.addPlayers ps ch).1.calls = [] := by
  have ht0 := tables_nil_of_tc h.wf h0
  unfold addPlayers
  simp only
  split
  · exact ⟨ht0, rfl⟩
  · simp only
    generalize hr1 : ({ r.beginOp ch with playerCount := (r.beginOp ch).playerCount + ps.length } : Reg) = r1
    have hwf1 : WF r1 := by
      rw [← hr1]; exact ⟨h.wf.maxpos, h.wf.tc, h.wf.nodup, h.wf.idlt, h.wf.bnd⟩
    obtain ⟨hwf2, hext2, hq2, _, hcalls2, _, htc2⟩ := updateTableRequirements_spec r1 hwf1 []
    have hr1t : r1.tables = [] := by rw [← hr1]; exact ht0
    have hr2t : r1.updateTableRequirements.tables = [] := by
      rw [updateTableRequirements_eq]; split
      · simp only [hr1t, setReq_nil]
      · exact hr1t
    generalize r1.updateTableRequirements = r2 at *
    have hc2 : r2.calls = [] := by rw [hcalls2, ← hr1]; rfl
    unfold enterWaitingQueue
    simp only
    split
    · exact ⟨hr2t, hc2⟩
    · rw [drain_noop _ (hwf2.setQueue _) (by show r2.tableCount = 0; rw [htc2, ← hr1]; exact h0)
        (by
          show r2.playerCount < (r2.min : Int)
          rw [hext2.pc_eq, hext2.min_eq, ← hr1]; exact hlt)]
      exact ⟨hr2t, hc2⟩

theorem setStatus_before_min (r : Reg) (st : RStatus) (ch : List Nat) (h : RInv r) (h0 : r.tableCount = 0)
    (hlt : r.playerCount < r.min) :
    (r.setStatus st ch).tables = [] ∧ (r.setStatus st ch).calls = [] := by
  have ht0 := tables_nil_of_tc h.wf h0
  unfold setStatus
  simp only
  split
  · exact ⟨ht0, rfl⟩
  · split
    · generalize hr1 : ({ r.beginOp ch with status := st } : Reg) = r1
      have hwf1 : WF r1 := by
        rw [← hr1]; exact ⟨h.wf.maxpos, h.wf.tc, h.wf.nodup, h.wf.idlt, h.wf.bnd⟩
      rw [drain_noop r1 hwf1 (by rw [← hr1]; exact h0) (by rw [← hr1]; exact hlt), ← hr1]
      exact ⟨ht0, rfl⟩
    · exact ⟨ht0, rfl⟩

end Reg
end Pokerface
