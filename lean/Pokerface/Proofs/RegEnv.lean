/-
  The combined system regulator × environment: the invariant `SInv` and its
  preservation by every valid operation.
-/
import Pokerface.Proofs.RegOps

namespace Pokerface
open Reg

namespace Reg

/-! ### list facts about the two sheets -/

theorem sim_find (ts : List RTable) (m : List (Nat × List Nat)) (t : Nat) (h : tview ts = mview m) :
    (ts.find? (fun x => x.id == t)).map (fun x => x.count) =
    (m.find? (fun e => e.1 == t)).map (fun e => (e.2.length : Int)) := by
  induction ts generalizing m with
  | nil =>
    cases m with
    | nil => rfl
    | cons e m => simp [tview, mview] at h
  | cons x ts ih =>
    cases m with
    | nil => simp [tview, mview] at h
    | cons e m =>
      simp only [tview, mview, List.map_cons, List.cons.injEq, Prod.mk.injEq] at h
      obtain ⟨⟨h1, h2⟩, h3⟩ := h
      simp only [List.find?_cons, h1]
      cases hb : (e.1 == t)
      · exact ih m h3
      · simp [h2]

theorem bump_bump (id : Nat) (a b : Int) (tv : List (Nat × Int)) :
    bump id a (bump id b tv) = bump id (b + a) tv := by
  simp only [bump, List.map_map]
  apply List.map_congr_left
  intro e _
  simp only [Function.comp]
  by_cases h : e.1 = id
  · simp [h, Int.add_assoc]
  · simp [h]

theorem filter_bump (id : Nat) (a : Int) (tv : List (Nat × Int)) :
    (bump id a tv).filter (fun e => e.1 != id) = tv.filter (fun e => e.1 != id) := by
  induction tv with
  | nil => rfl
  | cons e tv ih =>
    simp only [bump, List.map_cons] at ih ⊢
    by_cases h : e.1 = id
    · simp [h, ih]
    · have : (e.1 != id) = true := by simpa using h
      simp [h, this, ih]

theorem mview_filter (m : List (Nat × List Nat)) (t : Nat) :
    mview (m.filter (fun e => e.1 != t)) = (mview m).filter (fun e => e.1 != t) := by
  simp only [mview, List.filter_map]
  rfl

/-- replacing the membership of table `t` -/
def setMembers (t : Nat) (keep : List Nat) (m : List (Nat × List Nat)) : List (Nat × List Nat) :=
  m.map fun e => if e.1 = t then (e.1, keep) else e

theorem mview_setMembers (m : List (Nat × List Nat)) (t : Nat) (ms keep : List Nat)
    (hn : (m.map (·.1)).Nodup) (hf : m.find? (fun e => e.1 == t) = some (t, ms)) :
    mview (setMembers t keep m) = bump t ((keep.length : Int) - ms.length) (mview m) := by
  induction m with
  | nil => simp at hf
  | cons e m ih =>
    simp only [List.map_cons, List.nodup_cons] at hn
    by_cases he : e.1 = t
    · have hnot : t ∉ (mview m).map (·.1) := by rw [mview_fst]; exact he ▸ hn.1
      have hnot' : t ∉ m.map (·.1) := he ▸ hn.1
      have hfe : e = (t, ms) := by
        simp only [List.find?_cons, he, beq_self_eq_true] at hf
        exact Option.some.inj hf
      have hrest : setMembers t keep m = m := by
        clear ih hf hn hnot
        induction m with
        | nil => rfl
        | cons f m ih2 =>
          simp only [List.map_cons, List.mem_cons, not_or] at hnot'
          simp only [setMembers, List.map_cons] at ih2 ⊢
          rw [ih2 hnot'.2, if_neg (fun hh => hnot'.1 hh.symm)]
      have h1 : setMembers t keep (e :: m) = (t, keep) :: setMembers t keep m := by
        simp [setMembers, he]
      have h2 : mview (e :: m) = (t, (ms.length : Int)) :: mview m := by rw [hfe]; rfl
      rw [h1, hrest, h2]
      simp only [bump, List.map_cons, if_true]
      have := bump_of_not_mem t ((keep.length : Int) - ms.length) (mview m) hnot
      simp only [bump] at this
      rw [this]
      simp [mview]; omega
    · have hb : (e.1 == t) = false := by simpa using he
      simp only [List.find?_cons, hb] at hf
      have := ih hn.2 hf
      simp only [setMembers, List.map_cons, if_neg he, mview, bump] at this ⊢
      rw [this]

theorem count_seatedOf_split (m : List (Nat × List Nat)) (t : Nat) (ms keep : List Nat)
    (hn : (m.map (·.1)).Nodup) (hf : m.find? (fun e => e.1 == t) = some (t, ms)) (a : Nat) :
    (seatedOf m).count a = ms.count a + (seatedOf (m.filter (fun e => e.1 != t))).count a ∧
    (seatedOf (setMembers t keep m)).count a =
      keep.count a + (seatedOf (m.filter (fun e => e.1 != t))).count a := by
  induction m with
  | nil => simp at hf
  | cons e m ih =>
    simp only [List.map_cons, List.nodup_cons] at hn
    by_cases he : e.1 = t
    · have hnot' : t ∉ m.map (·.1) := he ▸ hn.1
      have hfe : e = (t, ms) := by
        simp only [List.find?_cons, he, beq_self_eq_true] at hf
        exact Option.some.inj hf
      have hrest : setMembers t keep m = m := by
        clear ih hf hn
        induction m with
        | nil => rfl
        | cons f m ih2 =>
          simp only [List.map_cons, List.mem_cons, not_or] at hnot'
          simp only [setMembers, List.map_cons] at ih2 ⊢
          rw [ih2 hnot'.2, if_neg (fun hh => hnot'.1 hh.symm)]
      have hfil : m.filter (fun e => e.1 != t) = m := by
        rw [List.filter_eq_self]
        intro x hx
        have : x.1 ≠ t := fun h => hnot' (List.mem_map.2 ⟨x, hx, h⟩)
        simpa using this
      have h1 : setMembers t keep (e :: m) = (t, keep) :: setMembers t keep m := by
        simp [setMembers, he]
      rw [h1, hrest]
      simp only [List.filter_cons, he, bne_self_eq_false, Bool.false_eq_true, if_false, hfil]
      rw [hfe]
      simp [seatedOf, List.count_append]
    · have hb : (e.1 == t) = false := by simpa using he
      have hb' : (e.1 != t) = true := by simpa using he
      simp only [List.find?_cons, hb] at hf
      obtain ⟨i1, i2⟩ := ih hn.2 hf
      have h1 : setMembers t keep (e :: m) = e :: setMembers t keep m := by
        simp [setMembers, he]
      rw [h1]
      simp only [List.filter_cons, hb', if_true]
      simp only [seatedOf, List.map_cons, List.flatten_cons, List.count_append] at i1 i2 ⊢
      omega

theorem setMembers_fst (t keep) (m : List (Nat × List Nat)) : (setMembers t keep m).map (·.1) = m.map (·.1) := by
  simp only [setMembers, List.map_map]
  apply List.map_congr_left
  intro e _
  simp only [Function.comp]
  split <;> rfl

theorem findTable_ne_none {r : Reg} {id : Nat} (h : id ∈ r.tables.map (·.id)) : r.findTable id ≠ none :=
  fun hn => findTable_none hn h

theorem opext_env {r r' : Reg} {inc : List Nat} {m : List (Nat × List Nat)} (hx : OpExt r r' inc)
    (hsim : tview r.tables = mview m) (hn : (m.map (·.1)).Nodup) :
    tview r'.tables = mview (Env.applyCalls m r'.calls) ∧
    (seatedOf (Env.applyCalls m r'.calls)).Perm (seatedOf m ++ handed r'.calls) := by
  have hv : validCalls (mview m) r'.calls := hsim ▸ hx.valid
  exact ⟨by rw [mview_applyCalls, ← hsim]; exact hx.tv, seatedOf_applyCalls m r'.calls hn hv⟩

end Reg

namespace RSys

/-- invariant of the combined system at quiescent points -/
structure SInv (s : RSys) : Prop where
  rinv : RInv s.r
  sim : tview s.r.tables = mview s.env.members
  cons : s.env.alive.Perm (s.r.queue ++ seatedOf s.env.members)
  nodup : s.env.alive.Nodup
  sub : ∀ p ∈ s.env.alive, p ∈ s.env.registered
  lenle : s.env.alive.length ≤ s.env.registered.length
  regmin : s.r.tables ≠ [] → s.r.min ≤ s.env.registered.length

theorem SInv.ids_nodup {s : RSys} (h : SInv s) : (s.env.members.map (·.1)).Nodup := by
  rw [← mview_fst, ← h.sim, tview_fst]; exact h.rinv.wf.nodup

theorem SInv.pc {s : RSys} (h : SInv s) : s.r.playerCount = s.env.alive.length := by
  have h1 := h.cons.length_eq
  rw [List.length_append] at h1
  have h2 := seatedOf_length s.env.members
  rw [← h.sim, ← sumCount_eq] at h2
  rw [h.rinv.cnt]
  omega

theorem SInv.init (max min : Nat) (h1 : 1 ≤ max) : SInv (RSys.init max min) := by
  unfold RSys.init
  refine ⟨⟨⟨h1, rfl, List.nodup_nil, (fun _ h => by cases h), (fun _ h => by cases h)⟩,
      (fun _ _ h => by cases h), rfl, (fun _ => rfl)⟩,
    rfl, List.Perm.refl _, List.nodup_nil, (fun _ h => by cases h), Nat.le_refl _, (fun h => absurd rfl h)⟩

/-- what happened inside one step, in terms of the observation functions of the model -/
structure StepFacts (s : RSys) (op : EOp) : Prop where
  max_eq : (s.step op).r.max = s.r.max
  min_eq : (s.step op).r.min = s.r.min
  members : (s.step op).env.members = Env.applyCalls (s.baseMembers op) (s.step op).r.calls
  valid : validCalls (mview (s.baseMembers op)) (s.step op).r.calls
  base_nodup : ((s.baseMembers op).map (·.1)).Nodup
  reqmax : ∀ id ps, RCall.requestTable id ps ∈ (s.step op).r.calls → ps.length ≤ s.r.max
  handout : s.r.queue ++ s.incoming op = s.returned op ++ handed (s.step op).r.calls ++ (s.step op).r.queue
  status_eq : (s.step op).r.status = (match op with | .status st _ => st | _ => s.r.status)
  newids : ∀ id ps, RCall.requestTable id ps ∈ (s.step op).r.calls → s.r.nextId ≤ id

theorem StepFacts_iff (s : RSys) (op : EOp) : StepFacts s op ↔
    ((s.step op).r.max = s.r.max ∧ (s.step op).r.min = s.r.min ∧
     (s.step op).env.members = Env.applyCalls (s.baseMembers op) (s.step op).r.calls ∧
     validCalls (mview (s.baseMembers op)) (s.step op).r.calls ∧
     ((s.baseMembers op).map (·.1)).Nodup ∧
     (∀ id ps, RCall.requestTable id ps ∈ (s.step op).r.calls → ps.length ≤ s.r.max) ∧
     s.r.queue ++ s.incoming op = s.returned op ++ handed (s.step op).r.calls ++ (s.step op).r.queue ∧
     (s.step op).r.status = (match op with | .status st _ => st | _ => s.r.status) ∧
     (∀ id ps, RCall.requestTable id ps ∈ (s.step op).r.calls → s.r.nextId ≤ id)) :=
  ⟨fun h => ⟨h.1, h.2, h.3, h.4, h.5, h.6, h.7, h.8, h.9⟩,
   fun h => ⟨h.1, h.2.1, h.2.2.1, h.2.2.2.1, h.2.2.2.2.1, h.2.2.2.2.2.1, h.2.2.2.2.2.2.1, h.2.2.2.2.2.2.2.1,
     h.2.2.2.2.2.2.2.2⟩⟩

theorem StepFacts.of_eq {s : RSys} {op : EOp} {r' : Reg} {e' : Env} {base : List (Nat × List Nat)}
    {inc ret : List Nat} (hstep : s.step op = { r := r', env := e' })
    (hb : s.baseMembers op = base) (hi : s.incoming op = inc) (hr : s.returned op = ret)
    (max_eq : r'.max = s.r.max) (min_eq : r'.min = s.r.min)
    (members : e'.members = Env.applyCalls base r'.calls)
    (valid : validCalls (mview base) r'.calls)
    (base_nodup : (base.map (·.1)).Nodup)
    (reqmax : ∀ id ps, RCall.requestTable id ps ∈ r'.calls → ps.length ≤ s.r.max)
    (handout : s.r.queue ++ inc = ret ++ handed r'.calls ++ r'.queue)
    (status_eq : r'.status = (match op with | .status st _ => st | _ => s.r.status))
    (newids : ∀ id ps, RCall.requestTable id ps ∈ r'.calls → s.r.nextId ≤ id) : StepFacts s op := by
  subst hb hi hr
  rw [StepFacts_iff, hstep]
  exact ⟨max_eq, min_eq, members, valid, base_nodup, reqmax, handout, status_eq, newids⟩

theorem SInv.step_add {s : RSys} (h : SInv s) (ps ch : List Nat) (hok : s.ok (.add ps ch)) :
    SInv (s.step (.add ps ch)) ∧ StepFacts s (.add ps ch) := by
  obtain ⟨hnd, hfresh, hbad⟩ := hok
  by_cases hs : s.r.status = .afterRegDeadline
  · have heq : s.r.addPlayers ps ch = (s.r.beginOp ch, some .afterRegDeadline) := by
      unfold Reg.addPlayers
      have : (s.r.beginOp ch).status = .afterRegDeadline := hs
      simp only [this, if_true]
    refine ⟨?_, ?_⟩
    · simp only [step, heq]
      exact ⟨h.rinv.beginOp ch, h.sim, h.cons, h.nodup, h.sub, h.lenle, h.regmin⟩
    · refine StepFacts.of_eq (r' := s.r.beginOp ch) (e' := s.env) (base := s.env.members) (inc := []) (ret := [])
        (by simp only [step, heq]) rfl (by simp only [incoming, heq]; rfl) rfl
        rfl rfl rfl trivial h.ids_nodup ?_ ?_ rfl ?_
      · intro id qs hm; simp [Reg.beginOp] at hm
      · simp [Reg.beginOp]
      · intro id qs hm; simp [Reg.beginOp] at hm
  · obtain ⟨he, hri, hx, hst, hpc⟩ := addPlayers_spec s.r ps ch h.rinv hs hbad
    have heq : s.r.addPlayers ps ch = ((s.r.addPlayers ps ch).1, none) := Prod.ext rfl he
    generalize (s.r.addPlayers ps ch).1 = r' at *
    obtain ⟨hsim', hseat'⟩ := opext_env hx h.sim h.ids_nodup
    have hdisj : ∀ p ∈ ps, p ∉ s.env.alive := fun p hp ha => hfresh p hp (h.sub p ha)
    refine ⟨?_, ?_⟩
    rotate_left
    · refine StepFacts.of_eq (r' := r') (base := s.env.members) (inc := ps) (ret := [])
        (by simp only [step, heq]; rfl) rfl (by simp only [incoming, heq]; rfl) rfl
        hx.max_eq hx.min_eq rfl (h.sim ▸ hx.valid) h.ids_nodup hx.reqmax ?_ hst hx.newids
      simpa using hx.queue
    simp only [step, heq]
    refine ⟨hri, hsim', ?_, ?_, ?_, ?_, ?_⟩
    · rw [List.perm_iff_count]
      intro a
      have c1 := h.cons.count_eq a
      have c2 := hseat'.count_eq a
      have c3 := congrArg (List.count a) hx.queue
      simp only [List.count_append] at c1 c2 c3 ⊢
      omega
    · rw [List.nodup_append]
      refine ⟨h.nodup, hnd, ?_⟩
      intro a ha b hb hab
      subst hab
      exact hdisj a hb ha
    · intro p hp
      rcases List.mem_append.1 hp with h1 | h1
      · exact List.mem_append_left _ (h.sub p h1)
      · exact List.mem_append_right _ h1
    · simp only [List.length_append]; have := h.lenle; omega
    · intro hne
      simp only [List.length_append]
      by_cases ht : s.r.tables = []
      · -- a table was opened from none: at least `min` alive players
        have h0 : s.r.tableCount = 0 := by rw [h.rinv.wf.tc, ht]; rfl
        by_cases hlt : s.r.playerCount + ps.length < s.r.min
        · have := (addPlayers_before_min s.r ps ch h.rinv h0 hlt).1
          rw [heq] at this
          exact absurd this hne
        · have := h.pc; have := h.lenle
          rw [hx.min_eq]; omega
      · have := h.regmin ht
        rw [hx.min_eq]; omega

theorem SInv.step_status {s : RSys} (h : SInv s) (st : RStatus) (ch : List Nat) (hok : s.ok (.status st ch)) :
    SInv (s.step (.status st ch)) ∧ StepFacts s (.status st ch) := by
  obtain ⟨hdom, hbad⟩ := hok
  obtain ⟨hri, hx, hst, hpc⟩ := setStatus_spec s.r st ch h.rinv hdom hbad
  have hbm := setStatus_before_min s.r st ch h.rinv
  refine ⟨?_, StepFacts.of_eq (r' := s.r.setStatus st ch) (base := s.env.members) (inc := []) (ret := [])
    rfl rfl rfl rfl hx.max_eq hx.min_eq rfl (h.sim ▸ hx.valid) h.ids_nodup hx.reqmax (by simpa using hx.queue) hst hx.newids⟩
  simp only [step]
  generalize s.r.setStatus st ch = r' at *
  obtain ⟨hsim', hseat'⟩ := opext_env hx h.sim h.ids_nodup
  refine ⟨hri, hsim', ?_, h.nodup, h.sub, h.lenle, ?_⟩
  · rw [List.perm_iff_count]
    intro a
    have c1 := h.cons.count_eq a
    have c2 := hseat'.count_eq a
    have c3 := congrArg (List.count a) hx.queue
    simp only [List.count_append, List.count_nil] at c1 c2 c3 ⊢
    omega
  · intro hne
    by_cases ht : s.r.tables = []
    · have h0 : s.r.tableCount = 0 := by rw [h.rinv.wf.tc, ht]; rfl
      by_cases hlt : s.r.playerCount < s.r.min
      · exact absurd (hbm h0 hlt).1 hne
      · have := h.pc; have := h.lenle
        show r'.min ≤ s.env.registered.length
        rw [hx.min_eq]; omega
    · have := h.regmin ht
      show r'.min ≤ s.env.registered.length
      rw [hx.min_eq]; exact this

/-- finishing a sync whose table releases `rel` through `ReleasePlayers` -/
theorem finish_release (e : Env) (r1 : Reg) (m1 : List (Nat × List Nat)) (alive' rel ch : List Nat)
    (hwf : WF r1) (hs : r1.status ≠ .pending)
    (hcnt : r1.playerCount = r1.queue.length + sumCount r1.tables + rel.length)
    (hsim1 : tview r1.tables = mview m1)
    (hcount : ∀ a, alive'.count a = r1.queue.count a + rel.count a + (seatedOf m1).count a)
    (hnd : alive'.Nodup) (hsub : ∀ p ∈ alive', p ∈ e.registered) (hlen : alive'.length ≤ e.registered.length)
    (hreg : r1.min ≤ e.registered.length)
    (hbad : (r1.releasePlayers rel ch).badChoice = false) :
    SInv { r := r1.releasePlayers rel ch,
           env := { e with members := Env.applyCalls m1 (r1.releasePlayers rel ch).calls, alive := alive' } } ∧
    OpExt r1 (r1.releasePlayers rel ch) rel ∧ (r1.releasePlayers rel ch).status = r1.status := by
  obtain ⟨hri, hx, hst, hpc⟩ := releasePlayers_spec r1 rel ch hwf hs hcnt hbad
  generalize r1.releasePlayers rel ch = r2 at *
  have hn1 : (m1.map (·.1)).Nodup := by rw [← mview_fst, ← hsim1, tview_fst]; exact hwf.nodup
  obtain ⟨hsim', hseat'⟩ := opext_env hx hsim1 hn1
  refine ⟨⟨hri, hsim', ?_, hnd, hsub, hlen, fun _ => ?_⟩, hx, hst⟩
  · rw [List.perm_iff_count]
    intro a
    have c1 := hcount a
    have c2 := hseat'.count_eq a
    have c3 := congrArg (List.count a) hx.queue
    simp only [List.count_append] at c1 c2 c3 ⊢
    omega
  · show r2.min ≤ e.registered.length
    rw [hx.min_eq]; exact hreg

/-- finishing a sync that asks for no release -/
theorem finish_norelease (e : Env) (r1 : Reg) (m1 : List (Nat × List Nat)) (alive' : List Nat)
    (hwf : WF r1) (hs : r1.status ≠ .pending) (hq : Q r1)
    (hcnt : r1.playerCount = r1.queue.length + sumCount r1.tables)
    (hsim1 : tview r1.tables = mview m1)
    (hcount : ∀ a, alive'.count a = r1.queue.count a + (seatedOf m1).count a)
    (hnd : alive'.Nodup) (hsub : ∀ p ∈ alive', p ∈ e.registered) (hlen : alive'.length ≤ e.registered.length)
    (hreg : r1.min ≤ e.registered.length) :
    SInv { r := r1, env := { e with members := m1, alive := alive' } } := by
  refine ⟨⟨hwf, hq, hcnt, fun h => absurd h hs⟩, hsim1, ?_, hnd, hsub, hlen, fun _ => hreg⟩
  rw [List.perm_iff_count]
  intro a
  have c1 := hcount a
  simp only [List.count_append] at c1 ⊢
  omega

theorem membersOf_some {e : Env} {t : Nat} {ms : List Nat} (h : e.membersOf t = some ms) :
    e.members.find? (fun x => x.1 == t) = some (t, ms) := by
  unfold Env.membersOf at h
  cases hf : e.members.find? (fun x => x.1 == t) with
  | none => rw [hf] at h; cases h
  | some x =>
    rw [hf] at h
    simp only [Option.map_some, Option.some.injEq] at h
    have := List.find?_some hf
    simp only [beq_iff_eq] at this
    rw [← h, ← this]

theorem count_filter_elim (alive elim : List Nat) (a : Nat) :
    (alive.filter (fun p => !elim.contains p)).count a = if a ∈ elim then 0 else alive.count a := by
  split
  · rename_i h
    rw [List.count_eq_zero]
    intro hm
    have := (List.mem_filter.1 hm).2
    simp [h] at this
  · rename_i h
    rw [List.count_filter]
    simp [h]

/-- everything the proofs need to know about a sync on a known table -/
structure SyncFacts (s : RSys) (t : Nat) (elim stay rel keep : List Nat) (ms : List Nat)
    (r1 : Reg) (relc : Int) (nw : List Nat) (t0 : RTable) : Prop where
  find : s.r.findTable t = some t0
  count0 : t0.count = ms.length
  ans : s.syncAnswer t elim = (r1, none, relc, nw)
  post : SyncPost (syncBase s.r t elim.length) t (adj (-(elim.length : Int)) none t0) r1 relc nw

theorem sync_facts {s : RSys} (h : SInv s) (t : Nat) (elim stay : List Nat) (ms : List Nat)
    (hm : s.env.membersOf t = some ms) (hperm : ms.Perm (elim ++ stay)) :
    ∃ r1 relc nw t0, s.r.findTable t = some t0 ∧ t0.count = ms.length ∧
      s.syncAnswer t elim = (r1, none, relc, nw) ∧
      SyncPost (syncBase s.r t elim.length) t (adj (-(elim.length : Int)) none t0) r1 relc nw := by
  have hfm := membersOf_some hm
  have hsf := sim_find s.r.tables s.env.members t h.sim
  rw [hfm] at hsf
  simp only [Option.map_some] at hsf
  cases hft : s.r.tables.find? (fun x => x.id == t) with
  | none => rw [hft] at hsf; cases hsf
  | some t0 =>
    rw [hft] at hsf
    simp only [Option.map_some, Option.some.injEq] at hsf
    have hlen := hperm.length_eq
    rw [List.length_append] at hlen
    obtain ⟨r1, relc, nw, heq, post⟩ := syncState_spec s.r t elim.length t0 h.rinv.wf h.rinv.q h.rinv.cnt hft
      (by omega) (by omega)
    exact ⟨r1, relc, nw, t0, hft, hsf, heq, post⟩

theorem SInv.step_sync {s : RSys} (h : SInv s) (t : Nat) (elim stay rel keep ch : List Nat)
    (hok : s.ok (.sync t elim stay rel keep ch)) :
    SInv (s.step (.sync t elim stay rel keep ch)) ∧ StepFacts s (.sync t elim stay rel keep ch) := by
  rw [StepFacts_iff]
  simp only [ok] at hok
  simp only [step, baseMembers, incoming, returned]
  cases hm : s.env.membersOf t with
  | none =>
    simp only []
    have hfind : s.env.members.find? (fun x => x.1 == t) = none := by
      unfold Env.membersOf at hm
      cases hf : s.env.members.find? (fun x => x.1 == t) with
      | none => rfl
      | some x => rw [hf] at hm; cases hm
    have hsf := sim_find s.r.tables s.env.members t h.sim
    rw [hfind] at hsf
    have hft : s.r.findTable t = none := by
      unfold Reg.findTable
      cases hf : s.r.tables.find? (fun x => x.id == t) with
      | none => rfl
      | some x => rw [hf] at hsf; cases hsf
    have : (s.syncAnswer t elim).1 = s.r.beginOp [] := by
      simp only [syncAnswer, syncState_eq, hft]
    rw [this]
    refine ⟨⟨h.rinv.beginOp [], h.sim, h.cons, h.nodup, h.sub, h.lenle, h.regmin⟩,
      rfl, rfl, rfl, trivial, h.ids_nodup, ?_, ?_, rfl, ?_⟩
    · intro id qs hmm; simp [Reg.beginOp] at hmm
    · simp [Reg.beginOp]
    · intro id qs hmm; simp [Reg.beginOp] at hmm
  | some ms =>
    rw [hm] at hok
    simp only [] at hok ⊢
    obtain ⟨r1, relc, nw, t0, hft, hc0, hans, post⟩ := sync_facts h t elim stay ms hm (by
      rw [show s.syncAnswer t elim = ((s.syncAnswer t elim).1, (s.syncAnswer t elim).2.1,
        (s.syncAnswer t elim).2.2.1, (s.syncAnswer t elim).2.2.2) from rfl] at hok
      exact hok.1)
    have hbrk : s.broken t elim = (r1.findTable t).isNone := by simp only [broken, hans]
    rw [hans] at hok
    simp only [] at hok
    rw [hans]
    simp only []
    obtain ⟨hp1, hp2, hrl, hkeep, hrelbad⟩ := hok
    obtain ⟨ht0, hid0⟩ := findTable_some hft
    have hfm := membersOf_some hm
    have hmn := h.ids_nodup
    -- facts about the booked state
    have hbt : tview (syncBase s.r t elim.length).tables = bump t (-(elim.length : Int)) (tview s.r.tables) := by
      rw [syncBase_tables, tview_upd t _ _ (-(elim.length : Int)) (adj_id _ _) (adj_count _ _)]
    have hbq : (syncBase s.r t elim.length).queue = s.r.queue := rfl
    have hne : s.r.tables ≠ [] := fun h0 => by rw [h0] at ht0; cases ht0
    have hst : r1.status ≠ .pending := by
      rw [post.status_eq]
      show s.r.status ≠ .pending
      exact fun hp => hne (h.rinv.pend hp)
    have hmin : r1.min = s.r.min := post.min_eq
    have hmax : r1.max = s.r.max := post.max_eq
    have hreg : r1.min ≤ s.env.registered.length := by rw [hmin]; exact h.regmin hne
    have hnd' : (s.env.alive.filter (fun p => !elim.contains p)).Nodup := h.nodup.filter _
    have hsub' : ∀ p ∈ s.env.alive.filter (fun p => !elim.contains p), p ∈ s.env.registered :=
      fun p hp => h.sub p (List.mem_filter.1 hp).1
    have hlen' : (s.env.alive.filter (fun p => !elim.contains p)).length ≤ s.env.registered.length :=
      Nat.le_trans (List.length_filter_le _ _) h.lenle
    have hq1 : s.r.queue = nw ++ r1.queue := hbq ▸ post.queue
    have hc1 : r1.calls = [] := post.calls
    -- counting of the survivors
    have hcountBase : ∀ (m1 : List (Nat × List Nat)),
        (∀ a, (seatedOf m1).count a = keep.count a +
          (seatedOf (s.env.members.filter (fun e => e.1 != t))).count a) →
        ∀ a, (s.env.alive.filter (fun p => !elim.contains p)).count a =
          r1.queue.count a + rel.count a + (seatedOf m1).count a := by
      intro m1 hm1 a
      have c1 := h.cons.count_eq a
      have c2 := (count_seatedOf_split s.env.members t ms keep hmn hfm a).1
      have c3 := hp1.count_eq a
      have c4 := hp2.count_eq a
      have c5 := congrArg (List.count a) hq1
      have c6 := hm1 a
      have c7 := List.nodup_iff_count.1 h.nodup a
      rw [count_filter_elim]
      simp only [List.count_append] at c1 c3 c4 c5
      split
      · rename_i hin
        have : 0 < elim.count a := List.count_pos_iff.2 hin
        omega
      · rename_i hnin
        have : elim.count a = 0 := List.count_eq_zero.2 hnin
        omega
    have hlen1 := hp1.length_eq
    have hlen2 := hp2.length_eq
    simp only [List.length_append] at hlen1 hlen2
    -- the facts once the release has been analysed
    have hfacts : ∀ (m1 : List (Nat × List Nat)), tview r1.tables = mview m1 →
        OpExt r1 (r1.releasePlayers rel ch) rel → (r1.releasePlayers rel ch).status = r1.status →
        ((r1.releasePlayers rel ch).max = s.r.max ∧ (r1.releasePlayers rel ch).min = s.r.min ∧
          True ∧
          validCalls (mview m1) (r1.releasePlayers rel ch).calls ∧ (m1.map (·.1)).Nodup ∧
          (∀ id ps, RCall.requestTable id ps ∈ (r1.releasePlayers rel ch).calls → ps.length ≤ s.r.max) ∧
          s.r.queue ++ rel = nw ++ handed (r1.releasePlayers rel ch).calls ++ (r1.releasePlayers rel ch).queue ∧
          (r1.releasePlayers rel ch).status = s.r.status ∧
          (∀ id ps, RCall.requestTable id ps ∈ (r1.releasePlayers rel ch).calls → s.r.nextId ≤ id)) := by
      intro m1 hsim1 hx hstx
      have hst1 : r1.status = s.r.status := post.status_eq
      have hnx1 : r1.nextId = s.r.nextId := post.next_eq
      refine ⟨hx.max_eq.trans hmax, hx.min_eq.trans hmin, trivial, hsim1 ▸ hx.valid, ?_, ?_, ?_, hstx.trans hst1,
        fun id ps hmm => hnx1 ▸ hx.newids id ps hmm⟩
      · rw [← mview_fst, ← hsim1, tview_fst]; exact post.wf.nodup
      · intro id ps hmm; rw [← hmax]; exact hx.reqmax id ps hmm
      · rw [hq1, List.append_assoc, hx.queue, List.append_assoc]
    rcases post.cases with ⟨hnone, htab, hrelc, hnw⟩ | ⟨a, rq, htab, ha, hrelle, hQ⟩
    · -- the table was broken
      have hb : s.broken t elim = true := by rw [hbrk, hnone]; rfl
      have hk := hkeep hb
      subst hk
      simp only [hb, if_true, Bool.true_eq_false, and_false, if_false]
      have hbad : (r1.releasePlayers rel ch).badChoice = false := by
        rcases hrelbad with ⟨_, h2⟩ | h2
        · rw [hb] at h2; cases h2
        · exact h2
      have hsim1 : tview r1.tables = mview (s.env.members.filter (fun e => e.1 != t)) := by
        rw [htab, tview_filter, hbt, filter_bump, h.sim, mview_filter]
      obtain ⟨hS, hX, hY⟩ := finish_release s.env r1 (s.env.members.filter (fun e => e.1 != t))
        (s.env.alive.filter (fun p => !elim.contains p)) rel ch post.wf hst
        (by rw [post.cnt]; omega) hsim1 (hcountBase _ (fun a => by simp)) hnd' hsub' hlen' hreg hbad
      exact ⟨hS, hfacts _ hsim1 hX hY⟩
    · -- the table stays
      have hidm : t ∈ r1.tables.map (·.id) := by
        rw [htab, upd_ids _ _ _ (adj_id a rq), syncBase_tables, upd_ids _ _ _ (adj_id _ _)]
        exact List.mem_map.2 ⟨t0, ht0, hid0⟩
      have hb : s.broken t elim = false := by
        rw [hbrk]
        cases hf : r1.findTable t with
        | none => exact absurd hf (findTable_ne_none hidm)
        | some _ => rfl
      simp only [hb, Bool.false_eq_true, if_false]
      have hsim1 : tview r1.tables = mview (setMembers t keep s.env.members) := by
        rw [htab, tview_upd t _ _ a (adj_id _ _) (adj_count _ _), hbt, bump_bump,
          mview_setMembers s.env.members t ms keep hmn hfm, h.sim]
        congr 1
        omega
      have hseat1 : ∀ a, (seatedOf (setMembers t keep s.env.members)).count a = keep.count a +
          (seatedOf (s.env.members.filter (fun e => e.1 != t))).count a :=
        fun a => (count_seatedOf_split s.env.members t ms keep hmn hfm a).2
      by_cases hre : rel.isEmpty = true
      · simp only [hre, and_self, if_true]
        have hrel0 : rel = [] := by simpa using hre
        have hrelc0 : relc = 0 := by rw [← hrl, hrel0]; rfl
        have hQb := (syncBase_facts s.r t elim.length t0 h.rinv.wf h.rinv.q h.rinv.cnt hft (by omega) (by omega)).q
        refine ⟨finish_norelease s.env r1 (setMembers t keep s.env.members) _ post.wf hst (hQ hrelc0 hQb) ?_ hsim1 ?_
          hnd' hsub' hlen' hreg, hmax, hmin, ?_, ?_, ?_, ?_, ?_, post.status_eq, ?_⟩
        · rw [post.cnt, hrelc0]; omega
        · intro a
          have := hcountBase _ hseat1 a
          rw [hrel0] at this
          simpa using this
        · rw [hc1]; rfl
        · rw [hc1]; trivial
        · show ((setMembers t keep s.env.members).map (·.1)).Nodup
          rw [setMembers_fst]; exact hmn
        · intro id ps hmm; rw [hc1] at hmm; cases hmm
        · rw [hc1, hrel0, hq1]; simp
        · intro id ps hmm; rw [hc1] at hmm; cases hmm
      · simp only [hre, Bool.false_eq_true, false_and, if_false]
        have hbad : (r1.releasePlayers rel ch).badChoice = false := by
          rcases hrelbad with ⟨h1, _⟩ | h2
          · exact absurd h1 hre
          · exact h2
        obtain ⟨hS, hX, hY⟩ := finish_release s.env r1 (setMembers t keep s.env.members)
          (s.env.alive.filter (fun p => !elim.contains p)) rel ch post.wf hst
          (by rw [post.cnt]; omega) hsim1 (hcountBase _ hseat1) hnd' hsub' hlen' hreg hbad
        exact ⟨hS, hfacts _ hsim1 hX hY⟩

theorem SInv.step_full {s : RSys} (h : SInv s) (op : EOp) (hok : s.ok op) :
    SInv (s.step op) ∧ StepFacts s op := by
  cases op with
  | add ps ch => exact h.step_add ps ch hok
  | status st ch => exact h.step_status st ch hok
  | sync t elim stay rel keep ch => exact h.step_sync t elim stay rel keep ch hok

theorem SInv.of_reachable {s : RSys} (h : Reachable s) : SInv s := by
  induction h with
  | init max min h1 => exact SInv.init max min h1
  | step op _ hok ih => exact (ih.step_full op hok).1

end RSys
end Pokerface
