/-
  Regulator-level facts for C19 on the ASYNCHRONOUS system (Model/RegulatorAsync.lean).

  The strong tower of the synchronous proof (`WF` with the capacity bound `bnd`, the queue
  invariant `Q`, "no table while pending") does not depend on the count identity
  `playerCount = |queue| + Σ PlayerCount` except to produce that identity again: with release
  reports arriving late the identity has the extra term "players on the way back" (`AInv.cnt`),
  and here the capacity part of the tower is re-derived WITHOUT any assumption on `playerCount`
  beyond `0 ≤ playerCount - out` for a sync.  `FInv` is the regulator invariant of the forward-only
  asynchronous domain; each regulator operation preserves it.
-/
import Pokerface.Proofs.RegAsyncProps

namespace Pokerface
namespace Reg

/-- regulator invariant between operations, forward-only domain, no count identity -/
structure FInv (r : Reg) : Prop where
  wf : WF r
  q : Q r
  pend : r.status = .pending → r.tables = []

theorem FInv.beginOp {r : Reg} (h : FInv r) (ch : List Nat) : FInv (r.beginOp ch) :=
  ⟨h.wf.beginOp ch, h.q, h.pend⟩

theorem FInv.init (max min : Nat) (h1 : 1 ≤ max) : FInv ({ max := max, min := min } : Reg) :=
  ⟨⟨h1, rfl, List.nodup_nil, (fun _ h => by cases h), (fun _ h => by cases h)⟩,
    (fun _ _ h => by cases h), fun _ => rfl⟩

/-- `AddPlayers` (accepted or refused) -/
theorem addPlayers_specF (r : Reg) (ps ch : List Nat) (h : FInv r)
    (hb : (r.addPlayers ps ch).1.badChoice = false) : FInv (r.addPlayers ps ch).1 := by
  by_cases hs : r.status = .afterRegDeadline
  · have heq : r.addPlayers ps ch = (r.beginOp ch, some .afterRegDeadline) := by
      unfold Reg.addPlayers
      have : (r.beginOp ch).status = .afterRegDeadline := hs
      simp only [this, if_true]
    rw [heq]; exact h.beginOp ch
  · unfold addPlayers at hb ⊢
    simp only at hb ⊢
    have hs' : ¬ (r.beginOp ch).status = .afterRegDeadline := hs
    rw [if_neg hs'] at hb ⊢
    simp only at hb ⊢
    generalize hr1 : ({ r.beginOp ch with playerCount := (r.beginOp ch).playerCount + ps.length } : Reg) = r1 at hb ⊢
    have hwf1 : WF r1 := by
      rw [← hr1]; exact ⟨h.wf.maxpos, h.wf.tc, h.wf.nodup, h.wf.idlt, h.wf.bnd⟩
    obtain ⟨hwf2, hext2, hq2, _, _, _, _⟩ := updateTableRequirements_spec r1 hwf1 (r1.queue ++ ps)
    have hr1t : r1.tables = r.tables := by rw [← hr1]; rfl
    have ht2 : r.tables = [] → r1.updateTableRequirements.tables = [] := by
      intro h0
      rw [updateTableRequirements_eq]
      split
      · simp only [hr1t, h0, setReq_nil]
      · rw [hr1t, h0]
    generalize hr2 : r1.updateTableRequirements = r2 at *
    obtain ⟨hwf3, hext3, hq3, hp3⟩ := enterWaitingQueue_spec r2 ps hwf2 hb
    have hst2 : r2.status = r.status := by rw [hext2.status_eq, ← hr1]; rfl
    refine ⟨hwf3, ?_, ?_⟩
    · by_cases hp : r2.status = .pending
      · intro _ t ht
        rw [(hp3 hp).1, ht2 (h.pend (hst2 ▸ hp))] at ht; cases ht
      · exact hq3 hp
    · intro hp
      rw [hext3.status_eq, hst2] at hp
      rw [(hp3 (hst2 ▸ hp)).1]; exact ht2 (h.pend hp)

/-- `SetStatus`, never back to pending once started -/
theorem setStatus_specF (r : Reg) (st : RStatus) (ch : List Nat) (h : FInv r)
    (hdom : st ≠ .pending ∨ r.status = .pending)
    (hb : (r.setStatus st ch).badChoice = false) : FInv (r.setStatus st ch) := by
  unfold setStatus at hb ⊢
  simp only at hb ⊢
  split
  · exact h.beginOp ch
  · rename_i hne
    rw [if_neg hne] at hb
    have hne' : r.status ≠ st := hne
    have hstp : st ≠ .pending := by
      rcases hdom with h1 | h1
      · exact h1
      · intro h2; exact hne' (h1.trans h2.symm)
    generalize hr1 : ({ r.beginOp ch with status := st } : Reg) = r1 at hb ⊢
    have hwf1 : WF r1 := by
      rw [← hr1]; exact ⟨h.wf.maxpos, h.wf.tc, h.wf.nodup, h.wf.idlt, h.wf.bnd⟩
    have hr1q : r1.queue = r.queue := by rw [← hr1]; rfl
    have hr1t : r1.tables = r.tables := by rw [← hr1]; rfl
    have hr1s : r1.status = st := by rw [← hr1]
    split
    · rename_i hdrain
      rw [if_pos hdrain] at hb
      obtain ⟨h1, h2, h3, _⟩ := drainWaitingQueue_spec r1 hwf1 hb
      exact ⟨h1, h3, fun hp => by rw [h2.status_eq, hr1s] at hp; exact absurd hp hstp⟩
    · refine ⟨hwf1, ?_, ?_⟩
      · intro hq; rw [hr1q] at hq; rw [hr1t]; exact h.q hq
      · intro hp; rw [hr1s] at hp; exact absurd hp hstp

/-- `ReleasePlayers` with ANY players, at any time -/
theorem releasePlayers_specF (r : Reg) (ps ch : List Nat) (h : FInv r)
    (hb : (r.releasePlayers ps ch).badChoice = false) : FInv (r.releasePlayers ps ch) := by
  unfold releasePlayers at hb ⊢
  obtain ⟨h1, h2, h3, h4⟩ := enterWaitingQueue_spec (r.beginOp ch) ps (h.wf.beginOp ch) hb
  have hbt : (r.beginOp ch).tables = r.tables := rfl
  refine ⟨h1, ?_, ?_⟩
  · by_cases hp : (r.beginOp ch).status = .pending
    · intro _ t ht
      rw [(h4 hp).1, hbt, h.pend hp] at ht; cases ht
    · exact h3 hp
  · intro hp
    rw [h2.status_eq] at hp
    rw [(h4 hp).1, hbt]; exact h.pend hp

/-! ### `SyncState` -/

theorem Q_upd_none {b : Reg} {id : Nat} {a : Int} {r1 : Reg} (hq : Q b)
    (hqe : r1.queue = b.queue) (ht : r1.tables = upd id (adj a none) b.tables) : Q r1 := by
  intro hne t htm
  rw [hqe] at hne
  rw [ht] at htm
  rcases mem_upd htm with h | ⟨t', ht', _, rfl⟩
  · exact hq hne t h
  · exact hq hne t' ht'

/-- capacity half of `SyncPost`: well-formedness and the queue invariant after `SyncState` -/
structure SyncPostF (b r1 : Reg) : Prop where
  wf : WF r1
  q : Q b → Q r1
  status_eq : r1.status = b.status

theorem sync_breakF {b : Reg} (hwf : WF b) {id : Nat} {tb : RTable} (htb : tb ∈ b.tables) (hid : tb.id = id) :
    SyncPostF b (b.breakTable id) := by
  obtain ⟨h1, _, _⟩ := breakTable_spec hwf htb hid
  refine ⟨h1, ?_, rfl⟩
  intro hq hne t ht
  exact hq hne t (List.mem_filter.1 ht).1

theorem sync_sameF {b : Reg} (hwf : WF b) : SyncPostF b b := ⟨hwf, fun h => h, rfl⟩

theorem sync_takeF {b : Reg} (hwf : WF b) (hq : Q b) {id : Nat} {tb : RTable} (htb : tb ∈ b.tables)
    (hid : tb.id = id) (fl : Int) (hfl : fl ≤ b.max) (hge : tb.count ≤ fl) :
    SyncPostF b
      { b with queue := b.queue.drop (fl - tb.count).toNat,
               tables := upd id (adj ((b.queue.take (fl - tb.count).toNat).length : Int)
                  (if fl - tb.count - ((b.queue.take (fl - tb.count).toNat).length : Int) > 0
                   then some (fl - tb.count - ((b.queue.take (fl - tb.count).toNat).length : Int)) else none)) b.tables } := by
  have hbt := hwf.bnd tb htb
  have hlen : ((b.queue.take (fl - tb.count).toNat).length : Int) ≤ fl - tb.count := by
    rw [List.length_take]; omega
  refine ⟨?_, ?_, rfl⟩
  · refine hwf.upd htb hid _ _ _ rfl rfl rfl rfl rfl ?_
    simp only [adj]
    split
    · simp only [Option.getD_some]; omega
    · rename_i hst
      simp only [Option.getD_none]
      by_cases hqe : b.queue = []
      · simp only [hqe, List.take_nil, List.length_nil]; omega
      · have := hq hqe tb htb
        omega
  · intro hqb hne t ht
    simp only at hne ht
    have hne0 : b.queue ≠ [] := by intro h; rw [h] at hne; simp at hne
    have hlt : (fl - tb.count).toNat < b.queue.length := by
      have : 0 < (b.queue.drop (fl - tb.count).toNat).length := List.length_pos_iff.2 hne
      rw [List.length_drop] at this; omega
    have hfull : ((b.queue.take (fl - tb.count).toNat).length : Int) = fl - tb.count := by
      rw [List.length_take]; omega
    rcases mem_upd ht with h | ⟨t', ht', _, rfl⟩
    · exact hqb hne0 t h
    · have := hqb hne0 t' ht'
      simp only [adj, hfull]
      simp; exact this

theorem sync_releaseF {b : Reg} (hwf : WF b) {id : Nat} {tb : RTable} (htb : tb ∈ b.tables) (hid : tb.id = id)
    (fl : Int) (hfl0 : 0 ≤ fl) :
    SyncPostF b (releaseLoop (tb.count - fl).toNat id fl b 0).2 := by
  obtain ⟨j, hj, he⟩ := releaseLoop_spec (tb.count - fl).toNat id fl b 0
  rw [he]
  have hbt := hwf.bnd tb htb
  refine ⟨?_, ?_, rfl⟩
  · refine hwf.upd htb hid _ _ _ rfl rfl rfl rfl rfl ?_
    simp only [adj, Option.getD_none]
    omega
  · intro hqb
    exact Q_upd_none hqb rfl rfl

/-- the booked state: well-formed, `Q`, and still has the table -/
theorem syncBase_factsF (r : Reg) (id : Nat) (out : Int) (t0 : RTable) (hwf : WF r) (hq : Q r)
    (hf : r.findTable id = some t0) (ho : out ≤ t0.count) (ho0 : 0 ≤ out) :
    WF (syncBase r id out) ∧ Q (syncBase r id out) ∧ adj (-out) none t0 ∈ (syncBase r id out).tables := by
  obtain ⟨ht0, hid0⟩ := findTable_some hf
  have hbt := hwf.bnd t0 ht0
  refine ⟨?_, ?_, ?_⟩
  · refine hwf.upd ht0 hid0 (-out) none _ rfl rfl rfl rfl (syncBase_tables r id out) ?_
    simp only [adj, Option.getD_none]; omega
  · exact Q_upd_none hq rfl (syncBase_tables r id out)
  · rw [syncBase_tables]
    simp only [upd, List.mem_map]
    exact ⟨t0, ht0, by simp [hid0]⟩

/-- `SyncState` on a known table keeps well-formedness (the capacity bound) and `Q`; the only
    assumption on `playerCount` is that the eliminations do not make it negative. -/
theorem syncState_specF (r : Reg) (id : Nat) (out : Int) (t0 : RTable) (hwf : WF r) (hq : Q r)
    (hpc : 0 ≤ r.playerCount - out)
    (hf : r.findTable id = some t0) (ho0 : 0 ≤ out) (ho : out ≤ t0.count) :
    WF (r.syncState id out).1 ∧ Q (r.syncState id out).1 ∧ (r.syncState id out).1.status = r.status := by
  obtain ⟨bwf, bq, bmem⟩ := syncBase_factsF r id out t0 hwf hq hf ho ho0
  have hid0 := (findTable_some hf).2
  have hidb : (adj (-out) none t0).id = id := hid0
  have htc : (adj (-out) none t0).count = t0.count - out := by simp [adj, Int.sub_eq_add_neg]
  have hpcb : 0 ≤ (syncBase r id out).playerCount := hpc
  have hstb : (syncBase r id out).status = r.status := rfl
  suffices h : SyncPostF (syncBase r id out) (r.syncState id out).1 from
    ⟨h.wf, h.q bq, h.status_eq.trans hstb⟩
  rw [syncState_eq, hf]
  simp only
  generalize syncBase r id out = b at *
  have hmaxpos : 0 < b.max := bwf.maxpos
  rw [← htc]
  generalize adj (-out) none t0 = tb at *
  split
  · exact sync_breakF bwf bmem hidb
  · split
    · exact sync_sameF bwf
    · rename_i hreq
      have hreq' : 0 < b.requiredTables := by omega
      have hle : b.playerCount ≤ b.requiredTables * (b.max : Int) := le_ceilDiv_mul b.playerCount b.max hmaxpos
      split
      · rename_i hlow
        split
        · exact sync_breakF bwf bmem hidb
        · simp only
          rw [take_norm]
          exact sync_takeF bwf bq bmem hidb _ (floor_le_max hreq' hle) (le_floor_of_mul_lt hreq' hlow)
      · split
        · exact sync_releaseF bwf bmem hidb _ (floor_nonneg hpcb hreq')
        · exact sync_sameF bwf

/-- `SyncState` on an unknown table only resets the scratch fields -/
theorem syncState_unknown (r : Reg) (id : Nat) (out : Int) (hf : r.findTable id = none) :
    (r.syncState id out).1 = r.beginOp [] := by
  simp only [syncState_eq, hf]

/-! ### the initial allocation, without the count identity

    `allocateLoop` gives every table it opens at least `min` players as soon as the queue holds
    `min` players when it opens the first one (which `drainWaitingQueue` checks before it calls
    `allocateTables` with no table open): the later iterations recompute the water level from the
    queue.  The synchronous proof used `playerCount = |queue|` instead, which is false while
    players are on the way back. -/

theorem allocateLoop_minF (fuel : Nat) : ∀ (wl reqT : Int) (r : Reg), WF r → r.min ≤ r.max →
    (r.tableCount < reqT → (r.min : Int) ≤ wl → r.min ≤ r.queue.length) →
    ∃ cs, (allocateLoop fuel wl reqT r).calls = r.calls ++ cs ∧
      ∀ id ps, RCall.requestTable id ps ∈ cs → r.min ≤ ps.length := by
  induction fuel with
  | zero => intro wl reqT r _ _ _; exact ⟨[], by simp [allocateLoop], by simp⟩
  | succ n ih =>
    intro wl reqT r hwf hmm hq
    rw [allocateLoop_succ]
    split
    · rename_i hcond
      have hminq := hq hcond.2 hcond.1
      have hb := pullCount_bounds r wl
      have hcap : (r.min : Int) ≤ r.capWl wl := capWl_ge r wl _ hcond.1 (by omega)
      split
      · exact ⟨[], by simp, by simp⟩
      · obtain ⟨hwf2, _, _, _⟩ := openTable_spec r (r.capWl wl) (r.pullCount wl).toNat hwf
          (by omega) (capWl_le r wl) (by omega)
        have hlen : r.min ≤ (r.queue.take (r.pullCount wl).toNat).length := by
          rw [List.length_take]; omega
        simp only
        split
        · refine ⟨[RCall.requestTable r.nextId (r.queue.take (r.pullCount wl).toNat)], rfl, ?_⟩
          intro id ps hm
          simp only [List.mem_cons, List.not_mem_nil, or_false, RCall.requestTable.injEq] at hm
          rw [hm.2]; exact hlen
        · rename_i hexp
          obtain ⟨cs, hc1, hc2⟩ := ih
            (((r.openTable (r.capWl wl) (r.pullCount wl).toNat).queue.length : Int) /
              (reqT - (r.openTable (r.capWl wl) (r.pullCount wl).toNat).tableCount)) reqT _ hwf2 hmm
            (fun _ hle => by
              have h1 : ((r.openTable (r.capWl wl) (r.pullCount wl).toNat).queue.length : Int) /
                  (reqT - (r.openTable (r.capWl wl) (r.pullCount wl).toNat).tableCount) ≤
                  ((r.openTable (r.capWl wl) (r.pullCount wl).toNat).queue.length : Int) :=
                floor_le_self (by omega)
              have h2 : (r.openTable (r.capWl wl) (r.pullCount wl).toNat).min = r.min := rfl
              rw [h2] at hle ⊢
              omega)
          refine ⟨RCall.requestTable r.nextId (r.queue.take (r.pullCount wl).toNat) :: cs, ?_, ?_⟩
          · rw [hc1]; simp [openTable]
          · intro id ps hm
            rcases List.mem_cons.1 hm with h | h
            · simp only [RCall.requestTable.injEq] at h
              rw [h.2]; exact hlen
            · exact hc2 id ps h
    · exact ⟨[], by simp, by simp⟩

theorem allocateTables_minF (r : Reg) (hwf : WF r) (h0 : r.tableCount = 0)
    (hq : r.min ≤ r.queue.length) :
    ∃ cs, r.allocateTables.calls = r.calls ++ cs ∧
      ∀ id ps, RCall.requestTable id ps ∈ cs → r.min ≤ ps.length := by
  have hmaxpos : (0 : Int) < r.max := by have := hwf.maxpos; omega
  unfold allocateTables
  simp only [h0, if_true]
  have hwlmax : (if r.requiredTables > 0 then r.playerCount / r.requiredTables else 0) ≤ (r.max : Int) := by
    split
    · rename_i hpos
      exact floor_le_max hpos (le_ceilDiv_mul r.playerCount r.max hwf.maxpos)
    · omega
  generalize (if r.requiredTables > 0 then r.playerCount / r.requiredTables else 0) = wl at hwlmax ⊢
  by_cases hmm : r.min ≤ r.max
  · split
    · exact ⟨[], by simp, by simp⟩
    · split
      · exact allocateLoop_minF _ _ _ r hwf hmm (fun _ _ => hq)
      · exact allocateLoop_minF _ _ _ r hwf hmm (fun _ _ => hq)
  · -- `min > max`: the water level never reaches `min`, no table is opened at all
    split
    · exact ⟨[], by simp, by simp⟩
    · split
      · omega
      · rw [allocateLoop_succ, if_neg (by omega)]
        exact ⟨[], by simp, by simp⟩

theorem drain_minF (r : Reg) (hwf : WF r) (h0 : r.tableCount = 0) :
    ∃ cs, r.drainWaitingQueue.calls = r.calls ++ cs ∧
      ∀ id ps, RCall.requestTable id ps ∈ cs → r.min ≤ ps.length := by
  rw [drainWaitingQueue_eq]
  split
  · rename_i h
    exact allocateTables_minF r hwf h0 (by omega)
  · rw [if_neg (by omega)]
    exact ⟨[], by simp, by simp⟩

/-- tables opened by `AddPlayers` when no table existed get at least `min` players -/
theorem addPlayers_initialF (r : Reg) (ps ch : List Nat) (hwf : WF r) (h0 : r.tableCount = 0) :
    ∀ id qs, RCall.requestTable id qs ∈ (r.addPlayers ps ch).1.calls → r.min ≤ qs.length := by
  have ht0 := tables_nil_of_tc hwf h0
  unfold addPlayers
  simp only
  split
  · intro id qs hm; simp [Reg.beginOp] at hm
  · simp only
    generalize hr1 : ({ r.beginOp ch with playerCount := (r.beginOp ch).playerCount + ps.length } : Reg) = r1
    have hwf1 : WF r1 := by
      rw [← hr1]; exact ⟨hwf.maxpos, hwf.tc, hwf.nodup, hwf.idlt, hwf.bnd⟩
    obtain ⟨hwf2, hext2, hq2, _, hcalls2, _, htc2⟩ := updateTableRequirements_spec r1 hwf1 []
    generalize r1.updateTableRequirements = r2 at *
    have hc2 : r2.calls = [] := by rw [hcalls2, ← hr1]; rfl
    unfold enterWaitingQueue
    simp only
    split
    · intro id qs hm; rw [hc2] at hm; cases hm
    · have hwf3 : WF { r2 with queue := r2.queue ++ ps } := hwf2.setQueue _
      obtain ⟨cs, e1, e2⟩ := drain_minF { r2 with queue := r2.queue ++ ps } hwf3
        (by show r2.tableCount = 0; rw [htc2, ← hr1]; exact h0)
      intro id qs hm
      rw [e1] at hm
      have : ({ r2 with queue := r2.queue ++ ps } : Reg).calls = [] := hc2
      rw [this, List.nil_append] at hm
      have hmin : ({ r2 with queue := r2.queue ++ ps } : Reg).min = r.min := by
        show r2.min = r.min; rw [hext2.min_eq, ← hr1]; rfl
      rw [← hmin]; exact e2 id qs hm

/-- tables opened by `SetStatus` when no table existed get at least `min` players -/
theorem setStatus_initialF (r : Reg) (st : RStatus) (ch : List Nat) (hwf : WF r) (h0 : r.tableCount = 0) :
    ∀ id qs, RCall.requestTable id qs ∈ (r.setStatus st ch).calls → r.min ≤ qs.length := by
  unfold setStatus
  simp only
  split
  · intro id qs hm; simp [Reg.beginOp] at hm
  · split
    · generalize hr1 : ({ r.beginOp ch with status := st } : Reg) = r1
      have hwf1 : WF r1 := by
        rw [← hr1]; exact ⟨hwf.maxpos, hwf.tc, hwf.nodup, hwf.idlt, hwf.bnd⟩
      obtain ⟨cs, e1, e2⟩ := drain_minF r1 hwf1 (by rw [← hr1]; exact h0)
      intro id qs hm
      rw [e1] at hm
      have : r1.calls = [] := by rw [← hr1]; rfl
      rw [this, List.nil_append] at hm
      have hmin : r1.min = r.min := by rw [← hr1]; rfl
      rw [← hmin]; exact e2 id qs hm
    · intro id qs hm; simp [Reg.beginOp] at hm

/-- tables opened by `ReleasePlayers` when no table exists (the last one was broken, its players
    come back — possibly in parts) get at least `min` players -/
theorem releasePlayers_initialF (r1 : Reg) (rel ch : List Nat) (hwf : WF r1) (h0 : r1.tableCount = 0) :
    ∀ id qs, RCall.requestTable id qs ∈ (r1.releasePlayers rel ch).calls → r1.min ≤ qs.length := by
  unfold releasePlayers enterWaitingQueue
  simp only
  split
  · intro id qs hm; simp [Reg.beginOp] at hm
  · have hwf3 : WF ({ r1.beginOp ch with queue := (r1.beginOp ch).queue ++ rel } : Reg) :=
      (hwf.beginOp ch).setQueue _
    obtain ⟨cs, e1, e2⟩ := drain_minF _ hwf3 h0
    intro id qs hm
    rw [e1] at hm
    have : ({ r1.beginOp ch with queue := (r1.beginOp ch).queue ++ rel } : Reg).calls = [] := rfl
    rw [this, List.nil_append] at hm
    exact e2 id qs hm

/-! ### no table before `min` players are in the competition -/

/-- with no table and fewer than `min` players, `AddPlayers` opens no table -/
theorem addPlayers_before_minF (r : Reg) (ps ch : List Nat) (hwf : WF r) (h0 : r.tableCount = 0)
    (hlt : r.playerCount + ps.length < r.min) :
    (r.addPlayers ps ch).1.tables = [] := by
  have ht0 := tables_nil_of_tc hwf h0
  unfold addPlayers
  simp only
  split
  · exact ht0
  · simp only
    generalize hr1 : ({ r.beginOp ch with playerCount := (r.beginOp ch).playerCount + ps.length } : Reg) = r1
    have hwf1 : WF r1 := by
      rw [← hr1]; exact ⟨hwf.maxpos, hwf.tc, hwf.nodup, hwf.idlt, hwf.bnd⟩
    obtain ⟨hwf2, hext2, hq2, _, hcalls2, _, htc2⟩ := updateTableRequirements_spec r1 hwf1 []
    have hr1t : r1.tables = [] := by rw [← hr1]; exact ht0
    have hr2t : r1.updateTableRequirements.tables = [] := by
      rw [updateTableRequirements_eq]; split
      · simp only [hr1t, setReq_nil]
      · exact hr1t
    generalize r1.updateTableRequirements = r2 at *
    unfold enterWaitingQueue
    simp only
    split
    · exact hr2t
    · rw [drain_noop _ (hwf2.setQueue _) (by show r2.tableCount = 0; rw [htc2, ← hr1]; exact h0)
        (by
          show r2.playerCount < (r2.min : Int)
          rw [hext2.pc_eq, hext2.min_eq, ← hr1]; exact hlt)]
      exact hr2t

theorem setStatus_before_minF (r : Reg) (st : RStatus) (ch : List Nat) (hwf : WF r) (h0 : r.tableCount = 0)
    (hlt : r.playerCount < r.min) : (r.setStatus st ch).tables = [] := by
  have ht0 := tables_nil_of_tc hwf h0
  unfold setStatus
  simp only
  split
  · exact ht0
  · split
    · generalize hr1 : ({ r.beginOp ch with status := st } : Reg) = r1
      have hwf1 : WF r1 := by
        rw [← hr1]; exact ⟨hwf.maxpos, hwf.tc, hwf.nodup, hwf.idlt, hwf.bnd⟩
      rw [drain_noop r1 hwf1 (by rw [← hr1]; exact h0) (by rw [← hr1]; exact hlt), ← hr1]
      exact ht0
    · exact ht0

theorem releasePlayers_before_minF (r : Reg) (ps ch : List Nat) (hwf : WF r) (h0 : r.tableCount = 0)
    (hlt : r.playerCount < r.min) : (r.releasePlayers ps ch).tables = [] := by
  have ht0 := tables_nil_of_tc hwf h0
  unfold releasePlayers enterWaitingQueue
  simp only
  split
  · exact ht0
  · rw [drain_noop _ ((hwf.beginOp ch).setQueue _) h0 hlt]
    exact ht0

end Reg
end Pokerface
