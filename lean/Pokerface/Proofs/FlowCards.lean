import Pokerface.Proofs.FlowC06
/-
  Deck cursor and board length by street (for C05 `full_board_at_showdown`).
-/
namespace Pokerface
open Game

/-- the deck is long enough for the whole hand (DESIGN §5: `n·hole + 8` cards) — a static fact -/
def DeckOK (g : Game) : Prop := g.n * g.opts.holeCount + 8 ≤ g.opts.deck.length

def Round.cardsDealt (r : Round) (nh : Nat) : Nat :=
  match r with
  | .none => 0 | .preflop => nh | .flop => nh + 4 | .turn => nh + 6 | .river => nh + 8

def Round.boardLen : Round → Nat
  | .none => 0 | .preflop => 0 | .flop => 3 | .turn => 4 | .river => 5

structure CardsOK (g : Game) : Prop where
  pos : g.deckPos = g.round.cardsDealt (g.n * g.opts.holeCount)
  board : g.board.length = g.round.boardLen

theorem cardsOK_of_eq {g g' : Game} (hr : g'.round = g.round) (hb : g'.board = g.board) (hd : g'.deckPos = g.deckPos)
    (hn : g'.n = g.n) (ho : g'.opts = g.opts) (h : CardsOK g) : CardsOK g' :=
  ⟨by rw [hd, hr, hn, ho]; exact h.pos, by rw [hb, hr]; exact h.board⟩

theorem Quiet.cardsOK {g g' : Game} (q : Quiet g g') (h : CardsOK g) : CardsOK g' :=
  cardsOK_of_eq q.round q.board q.deckPos q.n q.opts h

theorem Quiet.deckOK {g g' : Game} (q : Quiet g g') (h : DeckOK g) : DeckOK g' := by
  unfold DeckOK; rw [q.n, q.opts]; exact h

theorem dealHoles_cards : ∀ (k i : Nat) (g : Game),
    (dealHoles k i g).deckPos = g.deckPos + k * g.opts.holeCount ∧ (dealHoles k i g).board = g.board ∧
    (dealHoles k i g).opts = g.opts ∧ (dealHoles k i g).n = g.n
  | 0, _, g => by simp [Game.dealHoles]
  | k + 1, i, g => by
    unfold Game.dealHoles
    obtain ⟨h1, h2, h3, h4⟩ := dealHoles_cards k (i + 1) (g.dealHole i)
    have e1 : (g.dealHole i).deckPos = g.deckPos + g.opts.holeCount := rfl
    have e2 : (g.dealHole i).board = g.board := rfl
    have e3 : (g.dealHole i).opts = g.opts := rfl
    have e4 : (g.dealHole i).n = g.n := by simp [Game.dealHole, Game.modP, Game.advance, Game.n]
    rw [h1, h2, h3, h4, e1, e2, e3, e4]
    refine ⟨?_, rfl, rfl, rfl⟩
    rw [Nat.add_mul]; omega

theorem dealt_length (g : Game) (k : Nat) (h : g.deckPos + k ≤ g.opts.deck.length) : (g.dealt k).length = k := by
  unfold Game.dealt
  simp; omega

/-- one burnt card and `k` board cards on entering street `r` -/
theorem cardsOK_street (g : Game) (r : Round) (k i : Nat)
    (hpos : g.deckPos + 1 + k = r.cardsDealt (g.n * g.opts.holeCount)) (hb : g.board.length + k = r.boardLen)
    (hlen : g.deckPos + 1 + k ≤ g.opts.deck.length) :
    CardsOK ((((g.setRound r).burn 1).dealBoard k).setCurrentPlayer i) := by
  refine (quiet_setCurrentPlayer (((g.setRound r).burn 1).dealBoard k) i).cardsOK ⟨?_, ?_⟩
  · show g.deckPos + 1 + k = r.cardsDealt (g.n * g.opts.holeCount)
    exact hpos
  · show (g.board ++ ((g.setRound r).burn 1).dealt k).length = r.boardLen
    rw [List.length_append, dealt_length ((g.setRound r).burn 1) k hlen]
    exact hb

theorem cardsOK_enterRound (g : Game) (r : Round) (hd : DeckOK g) (h : CardsOK g)
    (hr : r.idx = g.round.idx + 1) : CardsOK (g.enterRound r) := by
  unfold Game.enterRound Game.initializeRound
  have q := quiet_afterRoundInitialized (((g.setRound r).dealStreet.updateCombinations).setEvent .roundInitialized)
  apply q.cardsOK
  have hpos := h.pos
  have hbd := h.board
  unfold DeckOK at hd
  have key : CardsOK (g.setRound r).dealStreet := by
    cases r with
    | none => simp [Round.idx] at hr
    | preflop =>
      have hg : g.round = .none := by revert hr; cases g.round <;> simp [Round.idx]
      obtain ⟨h1, h2, h3, h4⟩ := dealHoles_cards (g.setRound .preflop).n 0 (g.setRound .preflop)
      have e : (g.setRound .preflop).dealStreet = dealHoles (g.setRound .preflop).n 0 (g.setRound .preflop) := rfl
      rw [hg] at hpos hbd
      refine ⟨?_, ?_⟩
      · rw [e, h1, h4, h3, (soft_dealHoles _ _ _).round]
        show g.deckPos + g.n * g.opts.holeCount = g.n * g.opts.holeCount
        rw [hpos]; simp [Round.cardsDealt]
      · rw [e, h2, (soft_dealHoles _ _ _).round]
        exact hbd
    | flop =>
      have hg : g.round = .preflop := by revert hr; cases g.round <;> simp [Round.idx]
      rw [hg] at hpos hbd
      simp only [Round.cardsDealt, Round.boardLen] at hpos hbd
      exact cardsOK_street g .flop 3 _ (by simp only [Round.cardsDealt]; omega) (by simp only [Round.boardLen]; omega)
        (by omega)
    | turn =>
      have hg : g.round = .flop := by revert hr; cases g.round <;> simp [Round.idx]
      rw [hg] at hpos hbd
      simp only [Round.cardsDealt, Round.boardLen] at hpos hbd
      exact cardsOK_street g .turn 1 _ (by simp only [Round.cardsDealt]; omega) (by simp only [Round.boardLen]; omega)
        (by omega)
    | river =>
      have hg : g.round = .turn := by revert hr; cases g.round <;> simp [Round.idx]
      rw [hg] at hpos hbd
      simp only [Round.cardsDealt, Round.boardLen] at hpos hbd
      exact cardsOK_street g .river 1 _ (by simp only [Round.cardsDealt]; omega) (by simp only [Round.boardLen]; omega)
        (by omega)
  exact cardsOK_of_eq (g := (g.setRound r).dealStreet) rfl rfl rfl
    (quiet_updateCombinations _).n rfl key

theorem quiet_blindsPaid (g : Game) : Quiet g g.blindsPaid := by
  unfold Game.blindsPaid
  exact (((quiet_setPrev g _).trans (quiet_resetAllAllowed _)).trans (quiet_setEvent _ _)).trans (quiet_prepareRound _)

/-- deck long enough and cards by street -/
def CD (g : Game) : Prop := DeckOK g ∧ CardsOK g

theorem Quiet.cd {g g' : Game} (q : Quiet g g') (h : CD g) : CD g' := ⟨q.deckOK h.1, q.cardsOK h.2⟩

theorem cd_enterRound (g : Game) (r : Round) (h : CD g) (hr : r.idx = g.round.idx + 1) : CD (g.enterRound r) := by
  refine ⟨?_, cardsOK_enterRound g r h.1 h.2 hr⟩
  have nc := noChip_enterRound g r
  unfold DeckOK
  rw [nc.length, nc.opts]; exact h.1

theorem cd_gameCompleted (g : Game) (h : CD g) : CD g.gameCompleted :=
  ⟨h.1, cardsOK_of_eq (g := g) rfl rfl rfl rfl rfl h.2⟩

theorem cd_nextRound' (g : Game) (h : CD g) : CD g.nextRound' := by
  unfold Game.nextRound'
  split
  · exact cd_gameCompleted g h
  · split
    · rename_i hr; exact cd_enterRound g _ h (by rw [hr]; rfl)
    · rename_i hr; exact cd_enterRound g _ h (by rw [hr]; rfl)
    · rename_i hr; exact cd_enterRound g _ h (by rw [hr]; rfl)
    · exact cd_gameCompleted g h
    · exact h

theorem cd_step (g : Game) (hi : Inv g) (hf : Flow g) (h : CD g) (op : Op) : CD (g.step op).1 := by
  by_cases hacc' : ¬ (g.step op).2 = none
  · rw [refused_same g hf op hacc']; exact h
  have hacc : (g.step op).2 = none := Classical.not_not.mp hacc'
  cases op with
  | ready =>
    simp only [Game.step] at hacc ⊢
    unfold Game.readyForAll at hacc ⊢
    split
    · exact h
    · simp only
      have q1 := quiet_resetAllAllowed g
      unfold Game.readiness
      split
      · rename_i hr
        split
        · exact (q1.trans (quiet_setEvent _ _)).cd h
        · exact cd_enterRound _ _ (q1.cd h) (by rw [hr]; rfl)
      · exact (q1.trans (quiet_startRound _)).cd h
  | payAnte =>
    simp only [Game.step] at hacc ⊢
    unfold Game.payAnte at hacc ⊢
    split
    · exact h
    · rename_i h0
      split
      · exact h
      · rename_i he
        have he' : g.event = .anteRequested := by simpa using he
        have hq := quiet_payAnteLoop g.seatsFromDealer g
        split
        · rename_i g' e heq
          simp only [h0, he, if_false, heq] at hacc
          cases hacc
        · rename_i g' heq
          have e : g' = (payAnteLoop g.seatsFromDealer g).1 := by rw [heq]
          simp only
          unfold Game.antePaid
          have q2 : Quiet g ((((g'.resetAllAllowed.setEvent .antePaid).updatePots).resetAllPlayerStatus).resetRoundStatus) := by
            rw [e]
            exact hq.trans ((((quiet_resetAllAllowed _).trans (quiet_setEvent _ _)).trans (quiet_updatePots _)).trans
              ((quiet_resetAllPlayerStatus _).trans (quiet_resetRoundStatus _)))
          exact cd_enterRound _ _ (q2.cd h) (by rw [q2.round, (hf.ante he').2]; rfl)
  | payBlinds =>
    simp only [Game.step]
    unfold Game.payBlinds
    split
    · exact h
    · simp only
      exact ((quiet_foldl_payBlind _ g).trans (quiet_blindsPaid _)).cd h
  | next =>
    simp only [Game.step]
    unfold Game.next
    split
    · exact h
    · split
      · exact h
      · simp only
        unfold Game.nextRound
        exact cd_nextRound' _ (((quiet_resetRoundStatus g).trans (quiet_resetAllPlayerStatus _)).cd h)
  | act seat a x =>
    have key : ∀ i, (g.act i a x).2 = none → CD (g.act i a x).1 := by
      intro i hacc
      obtain ⟨p, g1, hp, he, hc, e, sh⟩ := act_shape2 g hi i a x hacc
      obtain ⟨hm, hq, _⟩ := shape_mid hi he sh
      rw [e]
      exact (hq.trans (quiet_resume g1)).cd h
    cases seat with
    | none => exact key _ hacc
    | some i => exact key i hacc

theorem cd_run (g : Game) (hi : Inv g) (hf : Flow g) (h : CD g) (ops : List Op) : CD (g.run ops) := by
  induction ops generalizing g with
  | nil => exact h
  | cons op ops ih => exact ih _ (inv_step g hi op) (flow_step g hi hf op) (cd_step g hi hf h op)

theorem cardsOK_start (c : Config) (h : (start c).2 = none) : CardsOK (start c).1 := by
  obtain ⟨_, _, he⟩ := start_ok c h
  rw [he]
  exact ⟨rfl, rfl⟩

/-- the deck condition is static: `n` and the options never change -/
theorem static_run (g : Game) (hi : Inv g) (hf : Flow g) (ops : List Op) :
    (g.run ops).n = g.n ∧ (g.run ops).opts = g.opts := by
  induction ops generalizing g with
  | nil => exact ⟨rfl, rfl⟩
  | cons op ops ih =>
    have := ih _ (inv_step g hi op) (flow_step g hi hf op)
    have hrun : g.run (op :: ops) = (g.step op).1.run ops := rfl
    rw [hrun, this.1, this.2]
    -- one step
    by_cases hacc' : ¬ (g.step op).2 = none
    · rw [refused_same g hf op hacc']; exact ⟨rfl, rfl⟩
    have hacc : (g.step op).2 = none := Classical.not_not.mp hacc'
    cases op with
    | ready =>
      simp only [Game.step]
      unfold Game.readyForAll
      split
      · exact ⟨rfl, rfl⟩
      · have nc := (noChip_resetAllAllowed g).trans (noChip_readiness _)
        exact ⟨nc.length, nc.opts⟩
    | payAnte =>
      have hi' := inv_step g hi .payAnte
      simp only [Game.step] at hacc ⊢
      unfold Game.payAnte at hacc ⊢
      split
      · exact ⟨rfl, rfl⟩
      · split
        · exact ⟨rfl, rfl⟩
        · have hq := quiet_payAnteLoop g.seatsFromDealer g
          split
          · rename_i g' e heq
            have : g' = (payAnteLoop g.seatsFromDealer g).1 := by rw [heq]
            rw [this]; exact ⟨hq.n, hq.opts⟩
          · rename_i g' heq
            have e : g' = (payAnteLoop g.seatsFromDealer g).1 := by rw [heq]
            simp only
            unfold Game.antePaid
            have q2 : Quiet g ((((g'.resetAllAllowed.setEvent .antePaid).updatePots).resetAllPlayerStatus).resetRoundStatus) := by
              rw [e]
              exact hq.trans ((((quiet_resetAllAllowed _).trans (quiet_setEvent _ _)).trans (quiet_updatePots _)).trans
                ((quiet_resetAllPlayerStatus _).trans (quiet_resetRoundStatus _)))
            have nc := noChip_enterRound ((((g'.resetAllAllowed.setEvent .antePaid).updatePots).resetAllPlayerStatus).resetRoundStatus)
              .preflop
            exact ⟨nc.length.trans q2.n, nc.opts.trans q2.opts⟩
    | payBlinds =>
      simp only [Game.step]
      unfold Game.payBlinds
      split
      · exact ⟨rfl, rfl⟩
      · simp only
        have q := (quiet_foldl_payBlind g.seatsFromDealer g).trans (quiet_blindsPaid _)
        exact ⟨q.n, q.opts⟩
    | next =>
      simp only [Game.step]
      unfold Game.next
      split
      · exact ⟨rfl, rfl⟩
      · split
        · exact ⟨rfl, rfl⟩
        · simp only
          unfold Game.nextRound
          have q := (quiet_resetRoundStatus g).trans (quiet_resetAllPlayerStatus _)
          have nc := noChip_nextRound' g.resetRoundStatus.resetAllPlayerStatus
          exact ⟨nc.length.trans q.n, nc.opts.trans q.opts⟩
    | act seat a x =>
      have key : ∀ i, (g.act i a x).2 = none → (g.act i a x).1.n = g.n ∧ (g.act i a x).1.opts = g.opts := by
        intro i hacc
        obtain ⟨p, g1, hp, he, hc, e, sh⟩ := act_shape2 g hi i a x hacc
        obtain ⟨hm, hq, _⟩ := shape_mid hi he sh
        rw [e]
        have q := hq.trans (quiet_resume g1)
        exact ⟨q.n, q.opts⟩
      cases seat with
      | none => exact key _ hacc
      | some i => exact key i hacc

/-- in every state reached from a configuration whose deck holds `n·hole + 8` cards, the deck
    cursor and the board length are what the street says -/
theorem cd_reachable_from (c : Config) (ops : List Op) (wf : WFConfig c) (hs : (start c).2 = none)
    (hdeck : c.seats.length * c.opts.holeCount + 8 ≤ c.opts.deck.length) : CD ((start c).1.run ops) := by
  apply cd_run _ (inv_start c wf hs) (flow_start c hs)
  refine ⟨?_, cardsOK_start c hs⟩
  obtain ⟨_, _, he⟩ := start_ok c hs
  unfold DeckOK
  rw [he]
  have q := (quiet_resetRoundStatus c.game0).trans (quiet_requestReady _)
  rw [q.n, q.opts]
  show c.players.length * c.opts.holeCount + 8 ≤ c.opts.deck.length
  rw [players_length]; exact hdeck

/-- the same, with the deck condition stated on the reachable state (it is static) -/
theorem cardsOK_reachable {g : Game} (h : Reachable g) (hdeck : DeckOK g) : CardsOK g := by
  obtain ⟨c, ops, wf, hs, rfl⟩ := h
  have hst := static_run _ (inv_start c wf hs) (flow_start c hs) ops
  refine (cd_run _ (inv_start c wf hs) (flow_start c hs) ⟨?_, cardsOK_start c hs⟩ ops).2
  unfold DeckOK at hdeck ⊢
  rw [hst.1, hst.2] at hdeck
  exact hdeck

end Pokerface
