import Pokerface.Model.Game
/-
  `seatsFromDealer` (game.go `GetPlayers`): the seat indices starting at the dealer are a
  permutation of `0 … n-1` — every seat is visited exactly once by the per-seat loops
  (`PayAnte`, `PayBlinds`, …).  Core only; no hypothesis on the state is needed.
-/
namespace Pokerface

theorem rot_mod {r k n : Nat} (hr : r < n) (hk : k < n) :
    (r + k) % n = if r + k < n then r + k else r + k - n := by
  split
  · rename_i h; exact Nat.mod_eq_of_lt h
  · rename_i h
    rw [Nat.mod_eq_sub_mod (by omega)]
    exact Nat.mod_eq_of_lt (by omega)

theorem rot_mod' {d k n : Nat} (hk : k < n) :
    (d + k) % n = if d % n + k < n then d % n + k else d % n + k - n := by
  have hn : 0 < n := by omega
  rw [Nat.add_mod, Nat.mod_eq_of_lt hk]
  exact rot_mod (Nat.mod_lt _ hn) hk

/-- the rotation `k ↦ (d + k) % n` of `0 … n-1` -/
def rotSeats (d n : Nat) : List Nat := (List.range n).map fun k => (d + k) % n

theorem mem_rotSeats {d n i : Nat} : i ∈ rotSeats d n ↔ i < n := by
  unfold rotSeats
  simp only [List.mem_map, List.mem_range]
  constructor
  · rintro ⟨k, hk, rfl⟩
    exact Nat.mod_lt _ (by omega)
  · intro hi
    have hn : 0 < n := by omega
    have hr := Nat.mod_lt d hn
    by_cases h : d % n ≤ i
    · refine ⟨i - d % n, by omega, ?_⟩
      rw [rot_mod' (by omega)]
      split <;> omega
    · refine ⟨i + n - d % n, by omega, ?_⟩
      rw [rot_mod' (by omega)]
      split <;> omega

theorem nodup_rotSeats (d n : Nat) : (rotSeats d n).Nodup := by
  unfold rotSeats
  rw [List.Nodup, List.pairwise_map]
  refine List.Pairwise.imp_of_mem ?_ (List.nodup_range (n := n))
  intro a b ha hb hab
  have ha := List.mem_range.mp ha
  have hb := List.mem_range.mp hb
  rw [rot_mod' ha, rot_mod' hb]
  have hr := Nat.mod_lt d (show 0 < n by omega)
  split <;> split <;> omega

theorem rotSeats_perm (d n : Nat) : (rotSeats d n).Perm (List.range n) :=
  (List.perm_ext_iff_of_nodup (nodup_rotSeats d n) List.nodup_range).mpr
    (fun _ => by rw [mem_rotSeats, List.mem_range])

theorem length_rotSeats (d n : Nat) : (rotSeats d n).length = n := by simp [rotSeats]

namespace Game

theorem seatsFromDealer_eq (g : Game) : g.seatsFromDealer = rotSeats g.dealerIdx g.n := rfl

/-- every seat index below `n`, and nothing else, is visited -/
theorem mem_seatsFromDealer (g : Game) {i : Nat} : i ∈ g.seatsFromDealer ↔ i < g.n := mem_rotSeats

/-- no seat is visited twice -/
theorem nodup_seatsFromDealer (g : Game) : g.seatsFromDealer.Nodup := nodup_rotSeats _ _

/-- the visiting order is a permutation of `0 … n-1` -/
theorem seatsFromDealer_perm (g : Game) : g.seatsFromDealer.Perm (List.range g.n) := rotSeats_perm _ _

theorem length_seatsFromDealer (g : Game) : g.seatsFromDealer.length = g.n := length_rotSeats _ _

end Game

/-! ### per-seat loops over a duplicate-free index list -/

/-- modifying each index of a duplicate-free list once: position `j` is modified iff it is listed -/
theorem getElem?_foldl_modify {α : Type} (f : α → α) :
    ∀ (is : List Nat) (l : List α) (j : Nat), is.Nodup →
      (is.foldl (fun l i => l.modify i f) l)[j]? = if j ∈ is then l[j]?.map f else l[j]?
  | [], l, j, _ => by simp
  | i :: is, l, j, hnd => by
    have ⟨hi, hnd'⟩ := List.nodup_cons.mp hnd
    rw [List.foldl_cons, getElem?_foldl_modify f is _ j hnd', List.getElem?_modify]
    by_cases hji : j = i
    · subst hji; simp [hi]
    · have : i ≠ j := fun h => hji h.symm
      by_cases hj : j ∈ is <;> simp [hji, this, hj]

/-- a loop that modifies every position exactly once is a `map` -/
theorem foldl_modify_eq_map {α : Type} (f : α → α) (is : List Nat) (l : List α) (hnd : is.Nodup)
    (hall : ∀ j, j < l.length → j ∈ is) : is.foldl (fun l i => l.modify i f) l = l.map f := by
  apply List.ext_getElem?
  intro j
  rw [getElem?_foldl_modify f is l j hnd, List.getElem?_map]
  by_cases hj : j < l.length
  · simp [hall j hj]
  · have : l[j]? = none := by simp; omega
    simp [this]

end Pokerface
