import Pokerface.Proofs.EvalTable
/-!
  C03, step (iii): for rank lists of equal length with entries in 2..14, the
  lexicographic order coincides with the numeric order of the base-13 value.
-/
namespace Pokerface.C03

def InRange (l : List Nat) : Prop := ∀ r ∈ l, 2 ≤ r ∧ r ≤ 14

theorem InRange.tail {r : Nat} {l : List Nat} (h : InRange (r :: l)) : InRange l :=
  fun x hx => h x (List.mem_cons_of_mem _ hx)

theorem InRange.head {r : Nat} {l : List Nat} (h : InRange (r :: l)) : 2 ≤ r ∧ r ≤ 14 :=
  h r (List.mem_cons_self ..)

theorem enc_lt_pow (l : List Nat) (h : InRange l) : enc l < 13 ^ l.length := by
  induction l with
  | nil => simp [enc]
  | cons r rs ih =>
    have ih := ih h.tail
    have hr := h.head
    simp only [enc, List.length_cons, Nat.pow_succ]
    have h1 : (r - 2) * 13 ^ rs.length ≤ 12 * 13 ^ rs.length :=
      Nat.mul_le_mul_right _ (by omega)
    omega

theorem enc_lt_iff (l₁ l₂ : List Nat) (hlen : l₁.length = l₂.length)
    (h₁ : InRange l₁) (h₂ : InRange l₂) : enc l₁ < enc l₂ ↔ l₁ < l₂ := by
  induction l₁ generalizing l₂ with
  | nil =>
    cases l₂ with
    | nil => simp [enc]
    | cons _ _ => simp at hlen
  | cons r₁ t₁ ih =>
    cases l₂ with
    | nil => simp at hlen
    | cons r₂ t₂ =>
      have hlen' : t₁.length = t₂.length := by simpa using hlen
      have ih := ih t₂ hlen' h₁.tail h₂.tail
      have b₁ := enc_lt_pow t₁ h₁.tail
      have b₂ := enc_lt_pow t₂ h₂.tail
      have hr₁ := h₁.head
      have hr₂ := h₂.head
      rw [List.cons_lt_cons_iff, ← ih]
      simp only [enc]
      rw [hlen'] at b₁ ⊢
      generalize 13 ^ t₂.length = P at b₁ b₂ ⊢
      rcases Nat.lt_trichotomy r₁ r₂ with hlt | heq | hgt
      · have : (r₁ - 2 + 1) * P ≤ (r₂ - 2) * P := Nat.mul_le_mul_right _ (by omega)
        rw [Nat.add_mul, Nat.one_mul] at this
        constructor
        · intro _; exact Or.inl hlt
        · intro _; omega
      · subst heq
        constructor
        · intro h; exact Or.inr ⟨rfl, by omega⟩
        · rintro (h | ⟨_, h⟩) <;> omega
      · have : (r₂ - 2 + 1) * P ≤ (r₁ - 2) * P := Nat.mul_le_mul_right _ (by omega)
        rw [Nat.add_mul, Nat.one_mul] at this
        constructor
        · intro h; omega
        · rintro (h | ⟨h, _⟩) <;> omega

theorem enc_inj (l₁ l₂ : List Nat) (hlen : l₁.length = l₂.length)
    (h₁ : InRange l₁) (h₂ : InRange l₂) (he : enc l₁ = enc l₂) : l₁ = l₂ := by
  induction l₁ generalizing l₂ with
  | nil =>
    cases l₂ with
    | nil => rfl
    | cons _ _ => simp at hlen
  | cons r₁ t₁ ih =>
    cases l₂ with
    | nil => simp at hlen
    | cons r₂ t₂ =>
      have hlen' : t₁.length = t₂.length := by simpa using hlen
      have b₁ := enc_lt_pow t₁ h₁.tail
      have b₂ := enc_lt_pow t₂ h₂.tail
      have hr₁ := h₁.head
      have hr₂ := h₂.head
      simp only [enc] at he
      rw [hlen'] at b₁ he
      generalize hP : 13 ^ t₂.length = P at b₁ b₂ he
      have hr : r₁ = r₂ := by
        rcases Nat.lt_trichotomy r₁ r₂ with hlt | heq | hgt
        · have : (r₁ - 2 + 1) * P ≤ (r₂ - 2) * P := Nat.mul_le_mul_right _ (by omega)
          rw [Nat.add_mul, Nat.one_mul] at this
          omega
        · exact heq
        · have : (r₂ - 2 + 1) * P ≤ (r₁ - 2) * P := Nat.mul_le_mul_right _ (by omega)
          rw [Nat.add_mul, Nat.one_mul] at this
          omega
      subst hr
      have : enc t₁ = enc t₂ := by omega
      rw [ih t₂ hlen' h₁.tail h₂.tail this]

end Pokerface.C03
