/-
  The newcomer's history in full generality: after his `Join` on `x`, ANY interleaving of other players' operations
  (asides), `next`s and his own `Seat(x)`.
-/
import Pokerface.Proofs.ArrivalFrame

namespace Pokerface
namespace SM

/-- `Pending` without the two exclusions (which are only needed in the states where `next` is called). -/
structure PendF (T : SM) (x d a : Nat) (r : Bool) : Prop where
  inv : Inv T
  dealer : T.dealer = some d
  a_pos : 0 < a
  a_lt : a < T.max
  x_eq : x = (d + a) % T.max
  seat : ∃ sx, T.seats[x]? = some sx ∧ sx.player.isSome = true ∧ sx.reserved = r ∧ sx.active = false

/-- `Arrived` without the count. -/
structure ArrF (T : SM) (x : Nat) (r : Bool) : Prop where
  inv : Inv T
  seat : ∃ sx, T.seats[x]? = some sx ∧ sx.player.isSome = true ∧ sx.reserved = r ∧ sx.active = true

/-- Phase of the newcomer on seat `x`: `sat` = he has sat in, `passed` = the button has passed his seat. -/
def NPh (T : SM) (x : Nat) (sat : Bool) (passed : Prop) : Prop :=
  (¬ passed ∧ ∃ d a, PendF T x d a (!sat)) ∨ (passed ∧ ArrF T x (!sat))

theorem NPh.congr {T : SM} {x : Nat} {sat : Bool} {p q : Prop} (h : NPh T x sat p) (hpq : p ↔ q) : NPh T x sat q := by
  rcases h with ⟨h1, h2⟩ | ⟨h1, h2⟩
  · exact Or.inl ⟨fun hq => h1 (hpq.mpr hq), h2⟩
  · exact Or.inr ⟨hpq.mp h1, h2⟩

theorem NPh.inv {T : SM} {x : Nat} {sat : Bool} {p : Prop} (h : NPh T x sat p) : Inv T := by
  rcases h with ⟨_, _, _, w⟩ | ⟨_, w⟩
  · exact w.inv
  · exact w.inv

theorem NPh.x_lt {T : SM} {x : Nat} {sat : Bool} {p : Prop} (h : NPh T x sat p) : x < T.max := by
  have hw := h.inv.wf
  unfold WF at hw
  rcases h with ⟨_, _, _, w⟩ | ⟨_, w⟩
  · obtain ⟨sx, hs, _⟩ := w.seat
    have := (List.getElem?_eq_some_iff.mp hs).1; omega
  · obtain ⟨sx, hs, _⟩ := w.seat
    have := (List.getElem?_eq_some_iff.mp hs).1; omega

/-- Dealt in (playable) exactly when both have happened. -/
theorem NPh.playable_iff {T : SM} {x : Nat} {sat : Bool} {p : Prop} (h : NPh T x sat p) :
    T.playable x = true ↔ (sat = true ∧ p) := by
  rcases h with ⟨h1, _, _, w⟩ | ⟨h1, w⟩
  · obtain ⟨sx, hs, _, _, ha⟩ := w.seat
    constructor
    · intro hp; simp [playable, hs, ha] at hp
    · intro hq; exact absurd hq.2 h1
  · obtain ⟨sx, hs, ho, hr, ha⟩ := w.seat
    cases sat <;> simp [playable, hs, ho, hr, ha, h1] at *

theorem NPh.aside {T : SM} {x : Nat} {sat : Bool} {p : Prop} (h : NPh T x sat p) {op : SMOp} (ha : Aside x T op) :
    NPh (T.step op).1 x sat p := by
  obtain ⟨hne, hx⟩ := ha
  obtain ⟨g1, g2⟩ := step_dealer_max T hne
  rcases h with ⟨h1, d, a, w⟩ | ⟨h1, w⟩
  · exact Or.inl ⟨h1, d, a, step_inv w.inv op, g1.trans w.dealer, w.a_pos, g2 ▸ w.a_lt, g2 ▸ w.x_eq, hx ▸ w.seat⟩
  · exact Or.inr ⟨h1, step_inv w.inv op, hx ▸ w.seat⟩

theorem NPh.sit {T : SM} {x : Nat} {sat : Bool} {p : Prop} (h : NPh T x sat p) :
    (T.step (.seat (x : Int))).2.1 = none ∧ NPh (T.step (.seat (x : Int))).1 x true p := by
  have hxm := h.x_lt
  have hinv' := step_inv h.inv (.seat (x : Int))
  rw [step_seat_nat T hxm] at hinv' ⊢
  simp only at hinv' ⊢
  refine ⟨trivial, ?_⟩
  rcases h with ⟨h1, d, a, w⟩ | ⟨h1, w⟩
  · obtain ⟨sx, hs, ho, _, ha⟩ := w.seat
    refine Or.inl ⟨h1, d, a, hinv', w.dealer, w.a_pos, w.a_lt, w.x_eq, { sx with reserved := false }, ?_, ho, rfl, ha⟩
    rw [modSeat_seats, if_pos rfl, hs]; rfl
  · obtain ⟨sx, hs, ho, _, ha⟩ := w.seat
    refine Or.inr ⟨h1, hinv', { sx with reserved := false }, ?_, ho, rfl, ha⟩
    rw [modSeat_seats, if_pos rfl, hs]; rfl

/-- The exclusions D10 / D4 for the state in which `next` is called: at least two playable seats; and, as long as seat
`x` is still inactive, at most one playable seat strictly between the dealer and `x`. -/
def ExclN (U : SM) (x : Nat) : Prop :=
  2 ≤ U.playableCount ∧
  ∀ d a sx, U.dealer = some d → 0 < a → a < U.max → x = (d + a) % U.max → U.seats[x]? = some sx → sx.active = false →
    FewBetween U d a

theorem NPh.next {T : SM} {x : Nat} {sat : Bool} {p : Prop} (h : NPh T x sat p) (he : ExclN T x) :
    (T.step .next).2.1 = none ∧ NPh (T.step .next).1 x sat (p ∨ PassedStep T x) := by
  obtain ⟨hD10, hD4⟩ := he
  rcases h with ⟨h1, d, a, w⟩ | ⟨h1, w⟩
  · obtain ⟨sx, hs, ho, hr, ha⟩ := w.seat
    have wp : Pending T x d a (!sat) :=
      ⟨w.inv, w.dealer, hD10, w.a_pos, w.a_lt, w.x_eq, w.seat, hD4 d a sx w.dealer w.a_pos w.a_lt w.x_eq hs ha⟩
    obtain ⟨hok, hmax, k, hk1, hk2, hka, hdk, _, harr, hpend⟩ := wp.step
    have hiff : PassedStep T x ↔ a < k := by
      constructor
      · rintro ⟨d0, e0, g1, g2, g3⟩
        rw [w.dealer] at g1; cases g1
        rw [hdk] at g2; cases g2
        rw [w.x_eq] at g3
        exact (strictlyBetween_iff w.a_lt hk2 w.a_pos).mp g3
      · intro hlt
        refine ⟨d, _, w.dealer, hdk, ?_⟩
        rw [w.x_eq]
        exact (strictlyBetween_iff w.a_lt hk2 w.a_pos).mpr hlt
    refine ⟨hok, ?_⟩
    by_cases hak : a < k
    · have wa := harr hak
      exact Or.inr ⟨Or.inr (hiff.mpr hak), wa.inv, wa.seat⟩
    · have hlt : k < a := by omega
      obtain ⟨w1, _⟩ := hpend hlt
      refine Or.inl ⟨?_, _, _, w1.inv, w1.dealer, w1.a_pos, w1.a_lt, w1.x_eq, w1.seat⟩
      rintro (hp | hp)
      · exact h1 hp
      · exact hak (hiff.mp hp)
  · have wa : Arrived T x (!sat) := ⟨w.inv, hD10, w.seat⟩
    obtain ⟨hok, w1⟩ := wa.step
    exact ⟨hok, Or.inr ⟨Or.inl h1, w1.inv, w1.seat⟩⟩

/-- One operation of a quiet history for `x`: a `next` called in a state satisfying the exclusions, the newcomer's own
`Seat(x)`, or an aside (other players' operation leaving seat `x` alone). -/
def Quiet (x : Nat) (U : SM) (op : SMOp) : Prop :=
  (op = .next ∧ ExclN U x) ∨ op = .seat (x : Int) ∨ Aside x U op

def QuietRun (x : Nat) : SM → List SMOp → Prop
  | _, [] => True
  | U, op :: ops => Quiet x U op ∧ QuietRun x (U.step op).1 ops

/-- The timing statement along a history, with ghost state `sat` (the newcomer has sat in) and `passed` (the button has
passed his seat in some `next` so far): at every point of the history seat `x` is playable iff both have happened; every
`next` succeeds; the newcomer's `Seat(x)` is accepted. -/
def Track (x : Nat) : SM → Bool → Prop → List SMOp → Prop
  | U, sat, passed, [] => (U.playable x = true ↔ (sat = true ∧ passed))
  | U, sat, passed, op :: ops =>
    (U.playable x = true ↔ (sat = true ∧ passed)) ∧
    (op = .next → (U.step op).2.1 = none) ∧
    (op = .seat (x : Int) → (U.step op).2.1 = none) ∧
    Track x (U.step op).1 (sat || decide (op = .seat (x : Int))) (passed ∨ (op = .next ∧ PassedStep U x)) ops

theorem track_of_phase {x : Nat} : ∀ {ops : List SMOp} {U : SM} {sat : Bool} {passed : Prop},
    NPh U x sat passed → QuietRun x U ops → Track x U sat passed ops
  | [], _, _, _, h, _ => h.playable_iff
  | op :: ops, U, sat, passed, h, hq => by
    obtain ⟨hq1, hq2⟩ := hq
    by_cases hseat : op = .seat (x : Int)
    · subst hseat
      obtain ⟨hok, h'⟩ := h.sit
      refine ⟨h.playable_iff, fun hc => (by cases hc), fun _ => hok, ?_⟩
      have h'' : NPh (U.step (.seat (x : Int))).1 x (sat || decide (SMOp.seat (x : Int) = .seat (x : Int)))
          (passed ∨ (SMOp.seat (x : Int) = .next ∧ PassedStep U x)) := by
        simp only [decide_true, Bool.or_true]
        exact h'.congr ⟨Or.inl, fun hc => hc.elim id (fun hc => by cases hc.1)⟩
      exact track_of_phase h'' hq2
    · by_cases hnext : op = .next
      · subst hnext
        have he : ExclN U x := by
          rcases hq1 with ⟨_, he⟩ | hc | ⟨hc, _⟩
          · exact he
          · cases hc
          · exact absurd rfl hc
        obtain ⟨hok, h'⟩ := h.next he
        refine ⟨h.playable_iff, fun _ => hok, fun hc => (by cases hc), ?_⟩
        have h'' : NPh (U.step .next).1 x (sat || decide (SMOp.next = .seat (x : Int)))
            (passed ∨ (SMOp.next = .next ∧ PassedStep U x)) := by
          have : decide (SMOp.next = .seat (x : Int)) = false := by simp
          rw [this, Bool.or_false]
          exact h'.congr ⟨fun hc => hc.elim Or.inl (fun hp => Or.inr ⟨rfl, hp⟩),
            fun hc => hc.elim Or.inl (fun hp => Or.inr hp.2)⟩
        exact track_of_phase h'' hq2
      · have ha : Aside x U op := by
          rcases hq1 with ⟨hc, _⟩ | hc | ha
          · exact absurd hc hnext
          · exact absurd hc hseat
          · exact ha
        have h' := h.aside ha
        refine ⟨h.playable_iff, fun hc => absurd hc hnext, fun hc => absurd hc hseat, ?_⟩
        have h'' : NPh (U.step op).1 x (sat || decide (op = .seat (x : Int)))
            (passed ∨ (op = .next ∧ PassedStep U x)) := by
          have : decide (op = .seat (x : Int)) = false := by simp [hseat]
          rw [this, Bool.or_false]
          exact h'.congr ⟨Or.inl, fun hc => hc.elim id (fun hc => absurd hc.1 hnext)⟩
        exact track_of_phase h'' hq2

/-- Right after an accepted `Join` on an inactive seat `x`, `a` places after the dealer, the newcomer is in phase
"not sat, not passed". -/
theorem phase_after_join {A : SM} (hA : Inv A) {d a x : Nat} {s : Seat}
    (hd : A.dealer = some d) (ha0 : 0 < a) (ha : a < A.max) (hx : x = (d + a) % A.max)
    (hs : A.seats[x]? = some s) (hina : s.active = false) (seat : Int) (pid : Nat) (c : Option Nat)
    (hj : (A.step (.join seat pid c)).2 = (none, some x)) :
    NPh (A.step (.join seat pid c)).1 x false False := by
  obtain ⟨s', hs', _, _, hJ⟩ := join_landed hj
  rw [hs] at hs'; cases hs'
  have hxlen : x < A.seats.length := (List.getElem?_eq_some_iff.mp hs).1
  obtain ⟨j1, j2⟩ := step_dealer_max A (op := .join seat pid c) (by simp)
  refine Or.inl ⟨id, d, a, step_inv hA _, j1.trans hd, ha0, j2 ▸ ha, j2 ▸ hx,
    { player := some pid, active := false, reserved := true }, ?_, rfl, rfl, rfl⟩
  rw [hJ, setSeat_seats, if_pos rfl, if_pos hxlen, hina]

end SM
end Pokerface
