import Pokerface.Proofs.EngineFirst
import Pokerface.Proofs.EngineOpens
import Pokerface.Proofs.RaiseGhost
import Pokerface.Proofs.FlowDecr
/-
  Helpers for C04Openings: arithmetic of the clockwise walk, `seekBB` when no seat holds the big-blind position,
  the case split "first big blind met / none met".
-/
namespace Pokerface
open Game

theorem opCwNext_lt {n s : Nat} (h : s < n) : cwNext n s < n := by
  unfold cwNext; split <;> omega

theorem opCwIter_lt {n : Nat} : ∀ (k : Nat) {s : Nat}, s < n → cwIter n k s < n
  | 0, _, h => h
  | k + 1, _, h => opCwIter_lt k (opCwNext_lt h)

/-- `k` seats clockwise from `s` on a table of `n` seats is seat `(s + k) mod n` -/
theorem opCwIter_eq_mod {n : Nat} : ∀ (k : Nat) {s : Nat}, s < n → cwIter n k s = (s + k) % n
  | 0, s, h => by simp [cwIter, Nat.mod_eq_of_lt h]
  | k + 1, s, h => by
    show cwIter n k (cwNext n s) = _
    rw [opCwIter_eq_mod k (opCwNext_lt h)]
    unfold cwNext
    split
    · rename_i e
      have : s + (k + 1) = n + k := by omega
      rw [this, Nat.add_mod_left, Nat.zero_add]
    · congr 1; omega

/-- once around the table -/
theorem opCwIter_full {n s : Nat} (h : s < n) : cwIter n n s = s := by
  rw [opCwIter_eq_mod n h, Nat.add_mod_right, Nat.mod_eq_of_lt h]

/-- heads-up: the seat after the seat after `s` is `s` -/
theorem cwNext_cwNext_two {s : Nat} (h : s < 2) : cwNext 2 (cwNext 2 s) = s := by
  unfold cwNext; split <;> split <;> omega

/-- `seekBB` when none of the `k` seats met walking clockwise from the current seat holds the big-blind position:
    it walks all `k` steps (player.go / game.go `StartRound`: the loop `for i := 0; i < len(players); i++` ends
    without `break`). -/
theorem seekBB_none : ∀ (k : Nat) (g : Game), g.cur < g.n →
    (∀ j < k, (g.players[cwIter g.n (j + 1) g.cur]?).map (·.posBB) = some false) →
    (seekBB k g).cur = cwIter g.n k g.cur
  | 0, _, _, _ => rfl
  | k + 1, g, hc, hno => by
    unfold Game.seekBB
    have h0 := hno 0 (by omega)
    simp only [cwIter] at h0
    rw [← nextIdx_eq] at h0
    cases hp : g.players[g.nextIdx]? with
    | none => simp [hp] at h0
    | some p =>
      simp only [hp, Option.map_some, Option.some.injEq] at h0
      simp only [h0, Bool.false_eq_true, if_false]
      have hlt : g.nextIdx < g.n := by
        unfold Game.nextIdx; split <;> omega
      have ih := seekBB_none k (g.setCurrentPlayer g.nextIdx)
        (by rw [setCurrentPlayer_cur, setCurrentPlayer_n]; exact hlt)
      simp only [setCurrentPlayer_cur, setCurrentPlayer_n] at ih
      have e : ∀ m, cwIter g.n m g.nextIdx = cwIter g.n (m + 1) g.cur := by
        intro m; simp only [cwIter, nextIdx_eq]
      rw [e] at ih
      apply ih
      intro j' hj'
      have := setCurrentPlayer_posBB g g.nextIdx (cwIter g.n (j' + 1 + 1) g.cur)
      rw [e, this]
      exact hno (j' + 1) (by omega)

/-- the first `true` of a Boolean sequence below `m`, or none -/
theorem first_true (f : Nat → Bool) : ∀ m : Nat,
    (∃ j < m, f j = true ∧ ∀ j' < j, f j' = false) ∨ (∀ j < m, f j = false)
  | 0 => Or.inr (fun _ h => by omega)
  | m + 1 => by
    rcases first_true f m with ⟨j, hj, h1, h2⟩ | hnone
    · exact Or.inl ⟨j, by omega, h1, h2⟩
    · cases hm : f m with
      | true => exact Or.inl ⟨m, by omega, hm, hnone⟩
      | false =>
        refine Or.inr (fun j hj => ?_)
        by_cases e : j = m
        · subst e; exact hm
        · exact hnone j (by omega)

/-- Walking clockwise from seat `d`: either a first seat holding the big-blind position is met within `n` steps,
    or none of the `n` seats met holds it. -/
theorem bb_walk_cases (l : List Player) {d : Nat} (hd : d < l.length) :
    (∃ j < l.length, (l[cwIter l.length (j + 1) d]?).map (·.posBB) = some true ∧
       ∀ j' < j, (l[cwIter l.length (j' + 1) d]?).map (·.posBB) = some false) ∨
    (∀ j < l.length, (l[cwIter l.length (j + 1) d]?).map (·.posBB) = some false) := by
  have key : ∀ j, (l[cwIter l.length (j + 1) d]?).map (·.posBB) =
      some (((l[cwIter l.length (j + 1) d]?).map (·.posBB)).getD false) := by
    intro j
    have := opCwIter_lt (n := l.length) (j + 1) hd
    simp [List.getElem?_eq_getElem this]
  rcases first_true (fun j => ((l[cwIter l.length (j + 1) d]?).map (·.posBB)).getD false) l.length with
    ⟨j, hj, h1, h2⟩ | hnone
  · refine Or.inl ⟨j, hj, ?_, fun j' hj' => ?_⟩
    · rw [key j]; exact congrArg some h1
    · rw [key j']; exact congrArg some (h2 j' hj')
  · refine Or.inr (fun j hj => ?_)
    rw [key j]; exact congrArg some (hnone j hj)

/-- no seat holds the position ⇒ none of the seats met on the walk does -/
theorem walk_no_bb (l : List Player) {d : Nat} (hd : d < l.length) (h : ∀ p ∈ l, p.posBB = false) (j : Nat) :
    (l[cwIter l.length (j + 1) d]?).map (·.posBB) = some false := by
  have hlt := opCwIter_lt (n := l.length) (j + 1) hd
  rw [List.getElem?_eq_getElem hlt, Option.map_some, h _ (List.getElem_mem hlt)]

/-- `ReadyForAll` in the phase "no street yet" never opens a betting round -/
theorem ready_none_not_started (g : Game) (he : g.event = .readyRequested) (hr : g.round = .none) :
    (g.step .ready).1.event ≠ .roundStarted := by
  show g.readyForAll.1.event ≠ _
  unfold Game.readyForAll
  rw [if_neg (by rw [he]; simp)]
  simp only
  unfold Game.readiness
  have : g.resetAllAllowed.round = .none := hr
  rw [if_pos this]
  split
  · intro e; cases e
  · exact (enterRound_facts g.resetAllAllowed .preflop).2.2.2.1

end Pokerface
