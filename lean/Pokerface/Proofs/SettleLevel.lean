import Pokerface.Proofs.SettleAux
/-
  Analysis of the settlement model, level by level (helper lemmas for C02).
-/
namespace Pokerface

/-! ### `settleLevel` / `settlePot` / `calculate` as update lists -/

theorem settleLevel_players (a : Acc) (l : LevelInfo) :
    (settleLevel a l).players = bumpAll a.players (levelUpdates l a.offset) := by
  unfold settleLevel levelUpdates levelWinners levelLosers
  split
  next h => simp [h, bumpAll]
  next g losers h =>
    simp only [h, foldl_losers_players, payWinners_players, bumpAll_append, reward]

theorem settleLevel_offset (a : Acc) (l : LevelInfo) :
    (settleLevel a l).offset = nextOffset l a.offset := by
  unfold settleLevel nextOffset
  split
  next h => simp [h]
  next g losers h =>
    simp only [h, foldl_losers_offset]

theorem foldl_settleLevel_players (ls : List LevelInfo) (a : Acc) :
    (ls.foldl settleLevel a).players = bumpAll a.players (potUpdates a.offset ls) := by
  induction ls generalizing a with
  | nil => rfl
  | cons l ls ih =>
    simp only [List.foldl_cons, ih, potUpdates, bumpAll_append, settleLevel_players, settleLevel_offset]

theorem calculate_go_players (ps : List PlayerResult) (done pots : List PotResult) :
    (Result.calculate.go ps done pots).players = bumpAll ps (pots.flatMap (fun p => potUpdates 0 p.levels)) := by
  induction pots generalizing ps done with
  | nil => rfl
  | cons p pots ih =>
    simp only [Result.calculate.go, settlePot, ih, List.flatMap_cons, bumpAll_append, foldl_settleLevel_players]

theorem calculate_players (r : Result) :
    r.calculate.players = bumpAll r.players (r.pots.flatMap (fun p => potUpdates 0 p.levels)) := by
  unfold Result.calculate
  exact calculate_go_players _ _ _

theorem calculate_go_pots (ps : List PlayerResult) (done pots : List PotResult) :
    (Result.calculate.go ps done pots).pots.map (·.levels) = (done.reverse ++ pots).map (·.levels) := by
  induction pots generalizing ps done with
  | nil => simp [Result.calculate.go]
  | cons p pots ih =>
    simp only [Result.calculate.go, settlePot, ih]
    simp

theorem calculate_pots_levels (r : Result) :
    r.calculate.pots.map (·.levels) = r.pots.map (·.levels) := by
  unfold Result.calculate
  rw [calculate_go_pots]; simp

/-- The registration loop of `CalculateGameResults`. -/
theorem rows_fold (rows : List (Nat × Int × Bool × Int)) (r : Result) :
    (rows.foldl (fun r row =>
        (r.addPlayer row.1 row.2.1).updateScore row.1 (if row.2.2.1 then 0 else row.2.2.2)) r)
    = { players := r.players ++ rows.map (fun row => (⟨row.1, row.2.1, 0⟩ : PlayerResult)),
        pots := r.pots.map fun p => { p with levels := p.levels.map fun l =>
          { l with groups := addScores l.groups (scoredRows rows l.contributors) } } } := by
  induction rows generalizing r with
  | nil =>
    cases r with
    | mk players pots =>
      simp only [List.foldl_nil, List.map_nil, List.append_nil, scoredRows_nil, addScores_nil]
      congr 1
      conv => lhs; rw [← List.map_id pots]
      apply List.map_congr_left
      intro p _
      cases p with
      | mk total levels winners =>
        simp only [id]
        congr 1
        conv => lhs; rw [← List.map_id levels]
        apply List.map_congr_left
        intro l _
        cases l; rfl
  | cons row rows ih =>
    rw [List.foldl_cons, ih]
    simp only [Result.updateScore, Result.addPlayer, List.map_cons, List.append_assoc, List.singleton_append,
      List.map_map]
    congr 1
    apply List.map_congr_left
    intro p _
    simp only [Function.comp, List.map_map]
    congr 1
    apply List.map_congr_left
    intro l _
    simp only [Function.comp]
    rw [scoredRows_cons]
    split
    next h => simp [addScores_cons]
    next h => simp

/-! ### `bumpAll` -/

theorem bumpAll_idx (ps : List PlayerResult) (us : List (Nat × Int)) :
    (bumpAll ps us).map (·.idx) = ps.map (·.idx) := by
  induction us generalizing ps with
  | nil => rfl
  | cons u us ih => rw [bumpAll_cons, ih, bumpPlayer_idx]

theorem bumpAll_base (ps : List PlayerResult) (us : List (Nat × Int)) :
    (bumpAll ps us).map (fun p => (p.idx, p.finalStack - p.changed))
      = ps.map (fun p => (p.idx, p.finalStack - p.changed)) := by
  induction us generalizing ps with
  | nil => rfl
  | cons u us ih => rw [bumpAll_cons, ih, bumpPlayer_base]

theorem net_append (us vs : List (Nat × Int)) (i : Nat) : net (us ++ vs) i = net us i + net vs i := by
  simp [net, List.filter_append]

theorem chg_bumpAll (ps : List PlayerResult) (us : List (Nat × Int)) (i : Nat)
    (h : i ∈ ps.map (·.idx)) : chg (bumpAll ps us) i = chg ps i + net us i := by
  induction us generalizing ps with
  | nil => simp [bumpAll, net]
  | cons u us ih =>
    rw [bumpAll_cons, ih _ (by rw [bumpPlayer_idx]; exact h), chg_bumpPlayer _ _ _ _ h, net_cons]
    omega

theorem sum_changed_bumpAll (ps : List PlayerResult) (us : List (Nat × Int))
    (h : ∀ u ∈ us, u.1 ∈ ps.map (·.idx)) :
    ((bumpAll ps us).map (·.changed)).sum = (ps.map (·.changed)).sum + (us.map (·.2)).sum := by
  induction us generalizing ps with
  | nil => simp [bumpAll]
  | cons u us ih =>
    rw [bumpAll_cons, ih, sum_changed_bumpPlayer _ _ _ (h u (by simp))]
    · simp; omega
    · intro v hv; rw [bumpPlayer_idx]; exact h v (by simp [hv])

/-! ### one level -/

theorem levelWinners_spec {xs : List (Nat × Int)} {l : LevelInfo} (h : LevelWF xs l) :
    ∃ M, (∀ x ∈ xs, x.2 ≤ M) ∧ (∃ x ∈ xs, x.2 = M) ∧
      levelWinners l = (xs.filter (fun x => x.2 = M)).map (·.1) ∧
      (levelWinners l ++ levelLosers l).Perm (xs.map (·.1)) := by
  have inv := groupsInv_addScores xs
  have hg : l.groups = addScores [] xs := h.groups
  rw [← hg] at inv
  have hperm := sortGroups_perm l.groups
  have hsorted := sortGroups_sorted l.groups
  unfold levelWinners levelLosers
  cases hs : sortGroups l.groups with
  | nil =>
    exfalso
    rw [hs] at hperm
    have hnil : l.groups = [] := List.Perm.eq_nil hperm.symm
    obtain ⟨x, xs', rfl⟩ := List.exists_cons_of_ne_nil h.ne
    have := (inv.scores x.2).2 (by simp)
    rw [hnil] at this
    simp at this
  | cons g rest =>
    rw [hs] at hperm hsorted
    have hgmem : g ∈ l.groups := hperm.mem_iff.1 (by simp)
    refine ⟨g.score, ?_, ?_, ?_, ?_⟩
    · intro x hx
      have h1 : x.2 ∈ l.groups.map (·.score) := (inv.scores x.2).2 (List.mem_map.2 ⟨x, hx, rfl⟩)
      obtain ⟨g', hg', he⟩ := List.mem_map.1 h1
      have hg'' : g' ∈ g :: rest := hperm.mem_iff.2 hg'
      rw [← he]
      rcases List.mem_cons.1 hg'' with rfl | hm
      · exact Int.le_refl _
      · exact (List.pairwise_cons.1 hsorted).1 g' hm
    · have := (inv.scores g.score).1 (List.mem_map.2 ⟨g, hgmem, rfl⟩)
      obtain ⟨x, hx, he⟩ := List.mem_map.1 this
      exact ⟨x, hx, he⟩
    · exact inv.contrib g hgmem
    · have := (List.Perm.flatMap_right (fun g : RankGroup => g.contributors) hperm).trans inv.perm
      simpa [List.flatMap_cons] using this

theorem levelUpdates_map_fst (l : LevelInfo) (o : Int) :
    (levelUpdates l o).map (·.1) = levelWinners l ++ levelLosers l := by
  unfold levelUpdates
  simp only [List.map_append, List.map_map]
  congr 1
  · exact List.zipIdx_map_fst 0 _
  · simp [Function.comp_def]

theorem levelUpdates_map_snd (l : LevelInfo) (o : Int) :
    (levelUpdates l o).map (·.2) =
      (List.range (levelWinners l).length).map
        (fun p => reward l.total (levelWinners l).length (Int.tmod o (levelWinners l).length) p - l.wager)
      ++ List.replicate (levelLosers l).length (-l.wager) := by
  unfold levelUpdates
  simp only [List.map_append, List.map_map]
  congr 1
  · rw [List.range_eq_range', ← List.zipIdx_map_snd 0 (levelWinners l), List.map_map]
    rfl
  · simp [Function.comp_def, List.map_const']

theorem sum_map_sub_const (f : Nat → Int) (c : Int) (xs : List Nat) :
    (xs.map (fun p => f p - c)).sum = (xs.map f).sum - xs.length * c := by
  induction xs with
  | nil => simp
  | cons x xs ih =>
    simp only [List.map_cons, List.sum_cons, ih, List.length_cons, Int.natCast_succ, Int.add_mul, Int.one_mul]
    omega

structure LevelFacts (l : LevelInfo) : Prop where
  ne : levelWinners l ≠ []
  perm : (levelWinners l ++ levelLosers l).Perm l.contributors
  nodup : (levelWinners l ++ levelLosers l).Nodup
  wager : 0 ≤ l.wager
  total : l.total = (l.contributors.length : Int) * l.wager

theorem LevelWF.facts {xs : List (Nat × Int)} {l : LevelInfo} (h : LevelWF xs l) : LevelFacts l := by
  obtain ⟨M, _, ⟨x, hx, hxM⟩, hW, hperm⟩ := levelWinners_spec h
  refine ⟨?_, hperm.trans h.perm, hperm.symm.nodup h.nodup, h.wager, h.total⟩
  rw [hW]
  intro e
  have : x.1 ∈ (xs.filter (fun x => x.2 = M)).map (·.1) :=
    List.mem_map.2 ⟨x, List.mem_filter.2 ⟨hx, by simpa using hxM⟩, rfl⟩
  rw [e] at this
  simp at this

theorem LevelFacts.pos {l : LevelInfo} (h : LevelFacts l) : 0 < (levelWinners l).length :=
  List.length_pos_iff.2 h.ne

theorem LevelFacts.len {l : LevelInfo} (h : LevelFacts l) :
    (levelWinners l).length + (levelLosers l).length = l.contributors.length := by
  rw [← List.length_append]; exact h.perm.length_eq

theorem LevelFacts.total_nonneg {l : LevelInfo} (h : LevelFacts l) : 0 ≤ l.total := by
  rw [h.total]; exact Int.mul_nonneg (by omega) h.wager

theorem levelUpdates_mem {l : LevelInfo} {o : Int} {u : Nat × Int} (hu : u ∈ levelUpdates l o) :
    (∃ p, p < (levelWinners l).length ∧ u.1 ∈ levelWinners l ∧
        u.2 = reward l.total (levelWinners l).length (Int.tmod o (levelWinners l).length) p - l.wager) ∨
    (u.1 ∈ levelLosers l ∧ u.2 = -l.wager) := by
  unfold levelUpdates at hu
  rcases List.mem_append.1 hu with hu | hu
  · left
    obtain ⟨⟨w, p⟩, hwp, rfl⟩ := List.mem_map.1 hu
    have := List.mem_zipIdx' hwp
    exact ⟨p, this.1, by simp [this.2], rfl⟩
  · right
    obtain ⟨i, hi, rfl⟩ := List.mem_map.1 hu
    exact ⟨hi, rfl⟩

theorem levelUpdates_keys {xs : List (Nat × Int)} {l : LevelInfo} (h : LevelWF xs l) (o : Int) :
    ((levelUpdates l o).map (·.1)).Perm l.contributors := by
  rw [levelUpdates_map_fst]; exact h.facts.perm

theorem levelUpdates_sum {xs : List (Nat × Int)} {l : LevelInfo} (h : LevelWF xs l) (o : Int) (ho : 0 ≤ o) :
    ((levelUpdates l o).map (·.2)).sum = 0 := by
  have f := h.facts
  have hn := f.pos
  rw [levelUpdates_map_snd, List.sum_append_int, List.sum_replicate_int, sum_map_sub_const,
    sum_reward _ _ _ f.total_nonneg hn (Int.tmod_nonneg _ ho) (Int.tmod_lt_of_pos _ (by omega)),
    List.length_range, f.total, ← f.len]
  simp only [Int.natCast_add, Int.add_mul, Int.mul_neg]
  omega

set_option linter.unusedVariables false in
theorem levelUpdates_bounds {xs : List (Nat × Int)} {l : LevelInfo} (h : LevelWF xs l) (o : Int) (ho : 0 ≤ o) :
    ∀ u ∈ levelUpdates l o, -l.wager ≤ u.2 ∧ u.2 ≤ l.total - l.wager := by
  have f := h.facts
  have hn := f.pos
  have hT := f.total_nonneg
  intro u hu
  rcases levelUpdates_mem hu with ⟨p, _, _, he⟩ | ⟨_, he⟩
  · have := reward_bounds l.total (levelWinners l).length (Int.tmod o (levelWinners l).length) p hT hn
      (Int.le_of_lt (Int.tmod_lt_of_pos _ (by omega)))
    omega
  · omega

set_option linter.unusedVariables false in
theorem levelUpdates_loser {xs : List (Nat × Int)} {l : LevelInfo} (h : LevelWF xs l) (o : Int) :
    ∀ u ∈ levelUpdates l o, u.1 ∉ levelWinners l → u.2 = -l.wager := by
  intro u hu hnw
  rcases levelUpdates_mem hu with ⟨p, _, hw, _⟩ | ⟨_, he⟩
  · exact absurd hw hnw
  · exact he

theorem levelUpdates_all_win {xs : List (Nat × Int)} {l : LevelInfo} (h : LevelWF xs l) (o : Int)
    (hall : levelLosers l = []) : ∀ u ∈ levelUpdates l o, u.2 = 0 := by
  have f := h.facts
  have hn := f.pos
  have hlen := f.len
  rw [hall] at hlen
  simp only [List.length_nil, Nat.add_zero] at hlen
  intro u hu
  rcases levelUpdates_mem hu with ⟨p, _, _, he⟩ | ⟨hm, _⟩
  · rw [he, f.total, ← hlen, reward_dvd _ _ _ _ f.wager hn (Int.le_of_lt (Int.tmod_lt_of_pos _ (by omega)))]
    omega
  · rw [hall] at hm; simp at hm

theorem nextOffset_nonneg {xs : List (Nat × Int)} {l : LevelInfo} (h : LevelWF xs l) (o : Int) (ho : 0 ≤ o) :
    0 ≤ nextOffset l o := by
  have hT := h.facts.total_nonneg
  unfold nextOffset
  split
  · exact ho
  · exact Int.tmod_nonneg _ (Int.add_nonneg (Int.tmod_nonneg _ ho) (Int.tmod_nonneg _ hT))

/-! ### round-robin odd chips over the levels of one pot -/

/-- Sum over the levels (totals `Ts`) of a pot of the gross rewards at winner position `p`
    of `n`, the odd-chip offset threaded from `o` as `settleLevel` does. -/
def rrSum (n : Int) : Int → List Int → Nat → Int
  | _, [], _ => 0
  | o, T :: Ts, p =>
    reward T n (Int.tmod o n) p + rrSum n (Int.tmod (Int.tmod o n + Int.tmod T n) n) Ts p

theorem tmod_small (a n : Int) (h0 : 0 ≤ a) (h1 : a < n) : Int.tmod a n = a := by
  rw [Int.tmod_eq_emod_of_nonneg h0, Int.emod_eq_of_lt h0 h1]

theorem tmod_wrap (a n : Int) (h0 : 0 ≤ a) (h1 : a < 2 * n) :
    Int.tmod a n = if a < n then a else a - n := by
  split
  next h => exact tmod_small a n h0 h
  next h =>
    rw [Int.tmod_eq_emod_of_nonneg h0]
    have : a = (a - n) + n := by omega
    rw [this, Int.add_emod_right, Int.emod_eq_of_lt (by omega) (by omega)]
    omega

/-- Round-robin invariant: up to the chips owed to the positions before the offset, all
    positions have received the same amount. -/
theorem rrSum_inv (n : Nat) (hn : 0 < n) (Ts : List Int) (hT : ∀ T ∈ Ts, 0 ≤ T) (o : Int)
    (ho : 0 ≤ o) (hon : o < n) :
    ∃ Q oEnd : Int, 0 ≤ oEnd ∧ oEnd < n ∧ ∀ p : Nat, p < n →
      rrSum n o Ts p + (if (p : Int) < o then 1 else 0) = Q + (if (p : Int) < oEnd then 1 else 0) := by
  induction Ts generalizing o with
  | nil => exact ⟨0, o, ho, hon, fun p _ => by simp [rrSum]⟩
  | cons T Ts ih =>
    have hT0 : 0 ≤ T := hT T (by simp)
    have h1 : 0 ≤ T % (n : Int) := Int.emod_nonneg _ (by omega)
    have h2 : T % (n : Int) < n := Int.emod_lt_of_pos _ (by omega)
    have ho' : Int.tmod o n = o := tmod_small o n ho hon
    have hr : Int.tmod T n = T % n := Int.tmod_eq_emod_of_nonneg hT0
    have ho2 := tmod_wrap (o + T % n) n (by omega) (by omega)
    obtain ⟨Q', oEnd, he0, he1, hQ⟩ := ih (fun T' hT' => hT T' (by simp [hT']))
      (Int.tmod (o + T % n) n) (Int.tmod_nonneg _ (by omega)) (Int.tmod_lt_of_pos _ (by omega))
    by_cases hc : o + T % n < n
    · refine ⟨T / n + Q', oEnd, he0, he1, ?_⟩
      intro p hp
      have := hQ p hp
      simp only [rrSum, ho', hr]
      rw [reward_eq T n o p hT0 hp ho hon]
      rw [ho2, if_pos hc] at this ⊢
      generalize T % (n : Int) = r at *
      generalize T / (n : Int) = b at *
      generalize rrSum n (o + r) Ts p = X at *
      split at this <;> split at this <;> (try split) <;> (try split) <;> (try split) <;> omega
    · refine ⟨T / n + Q' + 1, oEnd, he0, he1, ?_⟩
      intro p hp
      have := hQ p hp
      simp only [rrSum, ho', hr]
      rw [reward_eq T n o p hT0 hp ho hon]
      rw [ho2, if_neg hc] at this ⊢
      generalize T % (n : Int) = r at *
      generalize T / (n : Int) = b at *
      generalize rrSum n (o + r - n) Ts p = X at *
      split at this <;> split at this <;> (try split) <;> (try split) <;> (try split) <;> omega

theorem net_eq_zero (us : List (Nat × Int)) (i : Nat) (h : i ∉ us.map (·.1)) : net us i = 0 := by
  induction us with
  | nil => rfl
  | cons u us ih =>
    simp only [List.map_cons, List.mem_cons, not_or] at h
    rw [net_cons, ih h.2, if_neg (fun e => h.1 e.symm)]
    rfl

theorem net_zipIdx (F : Nat → Int) (W : List Nat) (hnd : W.Nodup) (k p : Nat) (hp : p < W.length) :
    net ((W.zipIdx k).map (fun wp => (wp.1, F wp.2))) W[p] = F (k + p) := by
  induction W generalizing k p with
  | nil => simp at hp
  | cons w W ih =>
    rw [List.nodup_cons] at hnd
    rw [List.zipIdx_cons, List.map_cons, net_cons]
    cases p with
    | zero =>
      simp only [List.getElem_cons_zero, if_true, Nat.add_zero]
      rw [net_eq_zero]
      · omega
      · rw [List.map_map]
        have : (Prod.fst ∘ fun wp : Nat × Nat => (wp.1, F wp.2)) = Prod.fst := rfl
        rw [this, List.zipIdx_map_fst]
        exact hnd.1
    | succ p =>
      simp only [List.getElem_cons_succ]
      have hp' : p < W.length := by simpa using hp
      have hne : ¬ w = W[p] := fun e => hnd.1 (e ▸ List.getElem_mem hp')
      rw [if_neg hne, ih hnd.2 (k + 1) p hp']
      have : k + 1 + p = k + (p + 1) := by omega
      rw [this]; omega

theorem net_levelUpdates_winner {l : LevelInfo} (f : LevelFacts l) (o : Int) (p : Nat)
    (hp : p < (levelWinners l).length) :
    net (levelUpdates l o) (levelWinners l)[p]
      = reward l.total (levelWinners l).length (Int.tmod o (levelWinners l).length) p - l.wager := by
  have hnd := f.nodup
  rw [List.nodup_append] at hnd
  unfold levelUpdates
  rw [net_append]
  have h1 := net_zipIdx (fun q => reward l.total (levelWinners l).length
    (Int.tmod o (levelWinners l).length) q - l.wager) (levelWinners l) hnd.1 0 p hp
  simp only [Nat.zero_add] at h1
  rw [h1, net_eq_zero]
  · omega
  · rw [List.map_map]
    have : (Prod.fst ∘ fun i : Nat => (i, -l.wager)) = id := rfl
    rw [this, List.map_id]
    intro hm
    exact hnd.2.2 _ (List.getElem_mem hp) _ hm rfl

theorem nextOffset_eq {l : LevelInfo} (f : LevelFacts l) (o : Int) :
    nextOffset l o = Int.tmod (Int.tmod o (levelWinners l).length + Int.tmod l.total (levelWinners l).length)
      (levelWinners l).length := by
  have hne := f.ne
  unfold nextOffset levelWinners at *
  split
  next h => simp [h] at hne
  next g rest h => simp

theorem rrSum_fair (n : Nat) (hn : 0 < n) (Ts : List Int) (hT : ∀ T ∈ Ts, 0 ≤ T)
    (p q : Nat) (hp : p < n) (hq : q < n) :
    rrSum n 0 Ts p - rrSum n 0 Ts q ≤ 1 := by
  obtain ⟨Q, oEnd, _, _, h⟩ := rrSum_inv n hn Ts hT 0 (Int.le_refl _) (by omega)
  have h1 := h p hp
  have h2 := h q hq
  (try split at h1) <;> (try split at h1) <;> (try split at h2) <;> (try split at h2) <;> omega

theorem net_potUpdates_winner {W : List Nat} (ls : List LevelInfo)
    (hW : ∀ l ∈ ls, levelWinners l = W) (hwf : ∀ l ∈ ls, ∃ xs, LevelWF xs l)
    (o : Int) (p : Nat) (hp : p < W.length) :
    net (potUpdates o ls) W[p]
      = rrSum W.length o (ls.map (·.total)) p - (ls.map (·.wager)).sum := by
  induction ls generalizing o with
  | nil => simp [potUpdates, net, rrSum]
  | cons l ls ih =>
    obtain ⟨xs, hxs⟩ := hwf l (by simp)
    have f := hxs.facts
    have hWl : levelWinners l = W := hW l (by simp)
    have ih' := ih (fun l' hl' => hW l' (by simp [hl'])) (fun l' hl' => hwf l' (by simp [hl']))
    have h1 := net_levelUpdates_winner f o p (by rw [hWl]; exact hp)
    have h2 := nextOffset_eq f o
    simp only [hWl] at h1 h2
    simp only [potUpdates, net_append, List.map_cons, rrSum, List.sum_cons, h1, h2, ih']
    omega

/-- Two winners of all the levels of one pot get amounts differing by at most one chip. -/
theorem pot_tie_fair {W : List Nat} (ls : List LevelInfo)
    (hW : ∀ l ∈ ls, levelWinners l = W) (hwf : ∀ l ∈ ls, ∃ xs, LevelWF xs l)
    (i j : Nat) (hi : i ∈ W) (hj : j ∈ W) :
    net (potUpdates 0 ls) i - net (potUpdates 0 ls) j ≤ 1 := by
  obtain ⟨p, hp, rfl⟩ := List.getElem_of_mem hi
  obtain ⟨q, hq, rfl⟩ := List.getElem_of_mem hj
  rw [net_potUpdates_winner ls hW hwf 0 p hp, net_potUpdates_winner ls hW hwf 0 q hq]
  have := rrSum_fair W.length (by omega) (ls.map (·.total)) (by
    intro T hT
    obtain ⟨l, hl, rfl⟩ := List.mem_map.1 hT
    obtain ⟨xs, hxs⟩ := hwf l hl
    exact hxs.facts.total_nonneg) p q hp hq
  omega

end Pokerface
