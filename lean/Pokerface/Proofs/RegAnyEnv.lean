/-
  The combined system regulator × environment on the widest domain: the invariant `SInv0`
  (Proofs/RegEnv.lean's `SInv` without capacity, `Q`, "pending → no table" and the registration
  count) and its preservation by every operation valid in the wide sense (`RSys.okAny`).
-/
import Pokerface.Proofs.RegAnyOps

namespace Pokerface
open Reg

namespace RSys

/-- invariant of the combined system at quiescent points, widest domain -/
structure SInv0 (s : RSys) : Prop where
  rinv : RInv0 s.r
  sim : tview s.r.tables = mview s.env.members
  cons : s.env.alive.Perm (s.r.queue ++ seatedOf s.env.members)
  nodup : s.env.alive.Nodup
  sub : ∀ p ∈ s.env.alive, p ∈ s.env.registered
  lenle : s.env.alive.length ≤ s.env.registered.length

theorem SInv0.ids_nodup {s : RSys} (h : SInv0 s) : (s.env.members.map (·.1)).Nodup := by
  rw [← mview_fst, ← h.sim, tview_fst]; exact h.rinv.wf.nodup

theorem SInv0.pc {s : RSys} (h : SInv0 s) : s.r.playerCount = s.env.alive.length := by
  have h1 := h.cons.length_eq
  rw [List.length_append] at h1
  have h2 := seatedOf_length s.env.members
  rw [← h.sim, ← sumCount_eq] at h2
  rw [h.rinv.cnt]
  omega

theorem SInv.toSInv0 {s : RSys} (h : SInv s) : SInv0 s :=
  ⟨h.rinv.toRInv0, h.sim, h.cons, h.nodup, h.sub, h.lenle⟩

theorem SInv0.init (max min : Nat) : SInv0 (RSys.init max min) := by
  unfold RSys.init
  refine ⟨⟨⟨rfl, List.nodup_nil, (fun _ h => by cases h), (fun _ h => by cases h)⟩, rfl⟩,
    rfl, List.Perm.refl _, List.nodup_nil, (fun _ h => by cases h), Nat.le_refl _⟩

theorem SInv0.step_add {s : RSys} (h : SInv0 s) (ps ch : List Nat) (hok : s.okAny (.add ps ch)) :
    SInv0 (s.step (.add ps ch)) ∧ StepFacts s (.add ps ch) := by
  obtain ⟨hnd, hfresh, hbad⟩ := hok
  by_cases hs : s.r.status = .afterRegDeadline
  · have heq : s.r.addPlayers ps ch = (s.r.beginOp ch, some .afterRegDeadline) := by
      unfold Reg.addPlayers
      have : (s.r.beginOp ch).status = .afterRegDeadline := hs
      simp only [this, if_true]
    refine ⟨?_, ?_⟩
    · simp only [step, heq]
      exact ⟨h.rinv.beginOp ch, h.sim, h.cons, h.nodup, h.sub, h.lenle⟩
    · refine StepFacts.of_eq (r' := s.r.beginOp ch) (e' := s.env) (base := s.env.members) (inc := []) (ret := [])
        (by simp only [step, heq]) rfl (by simp only [incoming, heq]; rfl) rfl
        rfl rfl rfl trivial h.ids_nodup ?_ ?_ rfl ?_
      · intro id qs hm; simp [Reg.beginOp] at hm
      · simp [Reg.beginOp]
      · intro id qs hm; simp [Reg.beginOp] at hm
  · obtain ⟨he, hri, hx, hst, hpc⟩ := addPlayers_spec0 s.r ps ch h.rinv hs hbad
    have heq : s.r.addPlayers ps ch = ((s.r.addPlayers ps ch).1, none) := Prod.ext rfl he
    generalize (s.r.addPlayers ps ch).1 = r' at *
    obtain ⟨hsim', hseat'⟩ := opext_env hx h.sim h.ids_nodup
    have hdisj : ∀ p ∈ ps, p ∉ s.env.alive := fun p hp ha => hfresh p hp (h.sub p ha)
    refine ⟨?_, ?_⟩
    rotate_left
    · refine StepFacts.of_eq (r' := r') (base := s.env.members) (inc := ps) (ret := [])
        (by simp only [step, heq]; rfl) rfl (by simp only [incoming, heq]; rfl) rfl
        hx.max_eq hx.min_eq rfl (h.sim ▸ hx.valid) h.ids_nodup hx.reqmax ?_ hst hx.newids
      simpa using hx.queue
    simp only [step, heq]
    refine ⟨hri, hsim', ?_, ?_, ?_, ?_⟩
    · rw [List.perm_iff_count]
      intro a
      have c1 := h.cons.count_eq a
      have c2 := hseat'.count_eq a
      have c3 := congrArg (List.count a) hx.queue
      simp only [List.count_append] at c1 c2 c3 ⊢
      omega
    · rw [List.nodup_append]
      refine ⟨h.nodup, hnd, ?_⟩
      intro a ha b hb hab
      subst hab
      exact hdisj a hb ha
    · intro p hp
      rcases List.mem_append.1 hp with h1 | h1
      · exact List.mem_append_left _ (h.sub p h1)
      · exact List.mem_append_right _ h1
    · simp only [List.length_append]; have := h.lenle; omega

theorem SInv0.step_status {s : RSys} (h : SInv0 s) (st : RStatus) (ch : List Nat) (hok : s.okAny (.status st ch)) :
    SInv0 (s.step (.status st ch)) ∧ StepFacts s (.status st ch) := by
  have hbad : (s.r.setStatus st ch).badChoice = false := hok
  obtain ⟨hri, hx, hst, hpc⟩ := setStatus_spec0 s.r st ch h.rinv hbad
  refine ⟨?_, StepFacts.of_eq (r' := s.r.setStatus st ch) (base := s.env.members) (inc := []) (ret := [])
    rfl rfl rfl rfl hx.max_eq hx.min_eq rfl (h.sim ▸ hx.valid) h.ids_nodup hx.reqmax (by simpa using hx.queue) hst hx.newids⟩
  simp only [step]
  generalize s.r.setStatus st ch = r' at *
  obtain ⟨hsim', hseat'⟩ := opext_env hx h.sim h.ids_nodup
  refine ⟨hri, hsim', ?_, h.nodup, h.sub, h.lenle⟩
  · rw [List.perm_iff_count]
    intro a
    have c1 := h.cons.count_eq a
    have c2 := hseat'.count_eq a
    have c3 := congrArg (List.count a) hx.queue
    simp only [List.count_append, List.count_nil] at c1 c2 c3 ⊢
    omega

/-- finishing a sync whose table releases `rel` through `ReleasePlayers` -/
theorem finish_release0 (e : Env) (r1 : Reg) (m1 : List (Nat × List Nat)) (alive' rel ch : List Nat)
    (hwf : WF0 r1)
    (hcnt : r1.playerCount = r1.queue.length + sumCount r1.tables + rel.length)
    (hsim1 : tview r1.tables = mview m1)
    (hcount : ∀ a, alive'.count a = r1.queue.count a + rel.count a + (seatedOf m1).count a)
    (hnd : alive'.Nodup) (hsub : ∀ p ∈ alive', p ∈ e.registered) (hlen : alive'.length ≤ e.registered.length)
    (hbad : (r1.releasePlayers rel ch).badChoice = false) :
    SInv0 { r := r1.releasePlayers rel ch,
            env := { e with members := Env.applyCalls m1 (r1.releasePlayers rel ch).calls, alive := alive' } } ∧
    OpExt r1 (r1.releasePlayers rel ch) rel ∧ (r1.releasePlayers rel ch).status = r1.status := by
  obtain ⟨hri, hx, hst, hpc⟩ := releasePlayers_spec0 r1 rel ch hwf hcnt hbad
  generalize r1.releasePlayers rel ch = r2 at *
  have hn1 : (m1.map (·.1)).Nodup := by rw [← mview_fst, ← hsim1, tview_fst]; exact hwf.nodup
  obtain ⟨hsim', hseat'⟩ := opext_env hx hsim1 hn1
  refine ⟨⟨hri, hsim', ?_, hnd, hsub, hlen⟩, hx, hst⟩
  · rw [List.perm_iff_count]
    intro a
    have c1 := hcount a
    have c2 := hseat'.count_eq a
    have c3 := congrArg (List.count a) hx.queue
    simp only [List.count_append] at c1 c2 c3 ⊢
    omega

/-- finishing a sync that asks for no release -/
theorem finish_norelease0 (e : Env) (r1 : Reg) (m1 : List (Nat × List Nat)) (alive' : List Nat)
    (hwf : WF0 r1)
    (hcnt : r1.playerCount = r1.queue.length + sumCount r1.tables)
    (hsim1 : tview r1.tables = mview m1)
    (hcount : ∀ a, alive'.count a = r1.queue.count a + (seatedOf m1).count a)
    (hnd : alive'.Nodup) (hsub : ∀ p ∈ alive', p ∈ e.registered) (hlen : alive'.length ≤ e.registered.length) :
    SInv0 { r := r1, env := { e with members := m1, alive := alive' } } := by
  refine ⟨⟨hwf, hcnt⟩, hsim1, ?_, hnd, hsub, hlen⟩
  rw [List.perm_iff_count]
  intro a
  have c1 := hcount a
  simp only [List.count_append] at c1 ⊢
  omega

theorem sync_facts0 {s : RSys} (h : SInv0 s) (t : Nat) (elim stay : List Nat) (ms : List Nat)
    (hm : s.env.membersOf t = some ms) (hperm : ms.Perm (elim ++ stay)) :
    ∃ r1 relc nw t0, s.r.findTable t = some t0 ∧ t0.count = ms.length ∧
      s.syncAnswer t elim = (r1, none, relc, nw) ∧
      SyncPost0 (syncBase s.r t elim.length) t (adj (-(elim.length : Int)) none t0) r1 relc nw := by
  have hfm := membersOf_some hm
  have hsf := sim_find s.r.tables s.env.members t h.sim
  rw [hfm] at hsf
  simp only [Option.map_some] at hsf
  cases hft : s.r.tables.find? (fun x => x.id == t) with
  | none => rw [hft] at hsf; cases hsf
  | some t0 =>
    rw [hft] at hsf
    simp only [Option.map_some, Option.some.injEq] at hsf
    have hlen := hperm.length_eq
    rw [List.length_append] at hlen
    obtain ⟨r1, relc, nw, heq, post⟩ := syncState_spec0 s.r t elim.length t0 h.rinv.wf h.rinv.cnt hft
      (by omega)
    exact ⟨r1, relc, nw, t0, hft, hsf, heq, post⟩

theorem SInv0.step_sync {s : RSys} (h : SInv0 s) (t : Nat) (elim stay rel keep ch : List Nat)
    (hok : s.okAny (.sync t elim stay rel keep ch)) :
    SInv0 (s.step (.sync t elim stay rel keep ch)) ∧ StepFacts s (.sync t elim stay rel keep ch) := by
  rw [StepFacts_iff]
  simp only [okAny, ok] at hok
  simp only [step, baseMembers, incoming, returned]
  cases hm : s.env.membersOf t with
  | none =>
    simp only []
    have hfind : s.env.members.find? (fun x => x.1 == t) = none := by
      unfold Env.membersOf at hm
      cases hf : s.env.members.find? (fun x => x.1 == t) with
      | none => rfl
      | some x => rw [hf] at hm; cases hm
    have hsf := sim_find s.r.tables s.env.members t h.sim
    rw [hfind] at hsf
    have hft : s.r.findTable t = none := by
      unfold Reg.findTable
      cases hf : s.r.tables.find? (fun x => x.id == t) with
      | none => rfl
      | some x => rw [hf] at hsf; cases hsf
    have : (s.syncAnswer t elim).1 = s.r.beginOp [] := by
      simp only [syncAnswer, syncState_eq, hft]
    rw [this]
    refine ⟨⟨h.rinv.beginOp [], h.sim, h.cons, h.nodup, h.sub, h.lenle⟩,
      rfl, rfl, rfl, trivial, h.ids_nodup, ?_, ?_, rfl, ?_⟩
    · intro id qs hmm; simp [Reg.beginOp] at hmm
    · simp [Reg.beginOp]
    · intro id qs hmm; simp [Reg.beginOp] at hmm
  | some ms =>
    rw [hm] at hok
    simp only [] at hok ⊢
    obtain ⟨r1, relc, nw, t0, hft, hc0, hans, post⟩ := sync_facts0 h t elim stay ms hm (by
      rw [show s.syncAnswer t elim = ((s.syncAnswer t elim).1, (s.syncAnswer t elim).2.1,
        (s.syncAnswer t elim).2.2.1, (s.syncAnswer t elim).2.2.2) from rfl] at hok
      exact hok.1)
    have hbrk : s.broken t elim = (r1.findTable t).isNone := by simp only [broken, hans]
    rw [hans] at hok
    simp only [] at hok
    rw [hans]
    simp only []
    obtain ⟨hp1, hp2, hrl, hkeep, hrelbad⟩ := hok
    obtain ⟨ht0, hid0⟩ := findTable_some hft
    have hfm := membersOf_some hm
    have hmn := h.ids_nodup
    -- facts about the booked state
    have hbt : tview (syncBase s.r t elim.length).tables = bump t (-(elim.length : Int)) (tview s.r.tables) := by
      rw [syncBase_tables, tview_upd t _ _ (-(elim.length : Int)) (adj_id _ _) (adj_count _ _)]
    have hbq : (syncBase s.r t elim.length).queue = s.r.queue := rfl
    have hne : s.r.tables ≠ [] := fun h0 => by rw [h0] at ht0; cases ht0
    have hmin : r1.min = s.r.min := post.min_eq
    have hmax : r1.max = s.r.max := post.max_eq
    have hnd' : (s.env.alive.filter (fun p => !elim.contains p)).Nodup := h.nodup.filter _
    have hsub' : ∀ p ∈ s.env.alive.filter (fun p => !elim.contains p), p ∈ s.env.registered :=
      fun p hp => h.sub p (List.mem_filter.1 hp).1
    have hlen' : (s.env.alive.filter (fun p => !elim.contains p)).length ≤ s.env.registered.length :=
      Nat.le_trans (List.length_filter_le _ _) h.lenle
    have hq1 : s.r.queue = nw ++ r1.queue := hbq ▸ post.queue
    have hc1 : r1.calls = [] := post.calls
    -- counting of the survivors
    have hcountBase : ∀ (m1 : List (Nat × List Nat)),
        (∀ a, (seatedOf m1).count a = keep.count a +
          (seatedOf (s.env.members.filter (fun e => e.1 != t))).count a) →
        ∀ a, (s.env.alive.filter (fun p => !elim.contains p)).count a =
          r1.queue.count a + rel.count a + (seatedOf m1).count a := by
      intro m1 hm1 a
      have c1 := h.cons.count_eq a
      have c2 := (count_seatedOf_split s.env.members t ms keep hmn hfm a).1
      have c3 := hp1.count_eq a
      have c4 := hp2.count_eq a
      have c5 := congrArg (List.count a) hq1
      have c6 := hm1 a
      have c7 := List.nodup_iff_count.1 h.nodup a
      rw [count_filter_elim]
      simp only [List.count_append] at c1 c3 c4 c5
      split
      · rename_i hin
        have : 0 < elim.count a := List.count_pos_iff.2 hin
        omega
      · rename_i hnin
        have : elim.count a = 0 := List.count_eq_zero.2 hnin
        omega
    have hlen1 := hp1.length_eq
    have hlen2 := hp2.length_eq
    simp only [List.length_append] at hlen1 hlen2
    -- the facts once the release has been analysed
    have hfacts : ∀ (m1 : List (Nat × List Nat)), tview r1.tables = mview m1 →
        OpExt r1 (r1.releasePlayers rel ch) rel → (r1.releasePlayers rel ch).status = r1.status →
        ((r1.releasePlayers rel ch).max = s.r.max ∧ (r1.releasePlayers rel ch).min = s.r.min ∧
          True ∧
          validCalls (mview m1) (r1.releasePlayers rel ch).calls ∧ (m1.map (·.1)).Nodup ∧
          (∀ id ps, RCall.requestTable id ps ∈ (r1.releasePlayers rel ch).calls → ps.length ≤ s.r.max) ∧
          s.r.queue ++ rel = nw ++ handed (r1.releasePlayers rel ch).calls ++ (r1.releasePlayers rel ch).queue ∧
          (r1.releasePlayers rel ch).status = s.r.status ∧
          (∀ id ps, RCall.requestTable id ps ∈ (r1.releasePlayers rel ch).calls → s.r.nextId ≤ id)) := by
      intro m1 hsim1 hx hstx
      have hst1 : r1.status = s.r.status := post.status_eq
      have hnx1 : r1.nextId = s.r.nextId := post.next_eq
      refine ⟨hx.max_eq.trans hmax, hx.min_eq.trans hmin, trivial, hsim1 ▸ hx.valid, ?_, ?_, ?_, hstx.trans hst1,
        fun id ps hmm => hnx1 ▸ hx.newids id ps hmm⟩
      · rw [← mview_fst, ← hsim1, tview_fst]; exact post.wf.nodup
      · intro id ps hmm; rw [← hmax]; exact hx.reqmax id ps hmm
      · rw [hq1, List.append_assoc, hx.queue, List.append_assoc]
    rcases post.cases with ⟨hnone, htab, hrelc, hnw⟩ | ⟨a, rq, htab, ha, hrelle⟩
    · -- the table was broken
      have hb : s.broken t elim = true := by rw [hbrk, hnone]; rfl
      have hk := hkeep hb
      subst hk
      simp only [hb, if_true, Bool.true_eq_false, and_false, if_false]
      have hbad : (r1.releasePlayers rel ch).badChoice = false := by
        rcases hrelbad with ⟨_, h2⟩ | h2
        · rw [hb] at h2; cases h2
        · exact h2
      have hsim1 : tview r1.tables = mview (s.env.members.filter (fun e => e.1 != t)) := by
        rw [htab, tview_filter, hbt, filter_bump, h.sim, mview_filter]
      obtain ⟨hS, hX, hY⟩ := finish_release0 s.env r1 (s.env.members.filter (fun e => e.1 != t))
        (s.env.alive.filter (fun p => !elim.contains p)) rel ch post.wf
        (by rw [post.cnt]; omega) hsim1 (hcountBase _ (fun a => by simp)) hnd' hsub' hlen' hbad
      exact ⟨hS, hfacts _ hsim1 hX hY⟩
    · -- the table stays
      have hidm : t ∈ r1.tables.map (·.id) := by
        rw [htab, upd_ids _ _ _ (adj_id a rq), syncBase_tables, upd_ids _ _ _ (adj_id _ _)]
        exact List.mem_map.2 ⟨t0, ht0, hid0⟩
      have hb : s.broken t elim = false := by
        rw [hbrk]
        cases hf : r1.findTable t with
        | none => exact absurd hf (findTable_ne_none hidm)
        | some _ => rfl
      simp only [hb, Bool.false_eq_true, if_false]
      have hsim1 : tview r1.tables = mview (setMembers t keep s.env.members) := by
        rw [htab, tview_upd t _ _ a (adj_id _ _) (adj_count _ _), hbt, bump_bump,
          mview_setMembers s.env.members t ms keep hmn hfm, h.sim]
        congr 1
        omega
      have hseat1 : ∀ a, (seatedOf (setMembers t keep s.env.members)).count a = keep.count a +
          (seatedOf (s.env.members.filter (fun e => e.1 != t))).count a :=
        fun a => (count_seatedOf_split s.env.members t ms keep hmn hfm a).2
      by_cases hre : rel.isEmpty = true
      · simp only [hre, and_self, if_true]
        have hrel0 : rel = [] := by simpa using hre
        have hrelc0 : relc = 0 := by rw [← hrl, hrel0]; rfl
        refine ⟨finish_norelease0 s.env r1 (setMembers t keep s.env.members) _ post.wf ?_ hsim1 ?_
          hnd' hsub' hlen', hmax, hmin, ?_, ?_, ?_, ?_, ?_, post.status_eq, ?_⟩
        · rw [post.cnt, hrelc0]; omega
        · intro a
          have := hcountBase _ hseat1 a
          rw [hrel0] at this
          simpa using this
        · rw [hc1]; rfl
        · rw [hc1]; trivial
        · show ((setMembers t keep s.env.members).map (·.1)).Nodup
          rw [setMembers_fst]; exact hmn
        · intro id ps hmm; rw [hc1] at hmm; cases hmm
        · rw [hc1, hrel0, hq1]; simp
        · intro id ps hmm; rw [hc1] at hmm; cases hmm
      · simp only [hre, Bool.false_eq_true, false_and, if_false]
        have hbad : (r1.releasePlayers rel ch).badChoice = false := by
          rcases hrelbad with ⟨h1, _⟩ | h2
          · exact absurd h1 hre
          · exact h2
        obtain ⟨hS, hX, hY⟩ := finish_release0 s.env r1 (setMembers t keep s.env.members)
          (s.env.alive.filter (fun p => !elim.contains p)) rel ch post.wf
          (by rw [post.cnt]; omega) hsim1 (hcountBase _ hseat1) hnd' hsub' hlen' hbad
        exact ⟨hS, hfacts _ hsim1 hX hY⟩

theorem SInv0.step_full {s : RSys} (h : SInv0 s) (op : EOp) (hok : s.okAny op) :
    SInv0 (s.step op) ∧ StepFacts s op := by
  cases op with
  | add ps ch => exact h.step_add ps ch hok
  | status st ch => exact h.step_status st ch hok
  | sync t elim stay rel keep ch => exact h.step_sync t elim stay rel keep ch hok

theorem SInv0.of_reachable {s : RSys} (h : ReachableAny s) : SInv0 s := by
  induction h with
  | init max min _ => exact SInv0.init max min
  | step op _ hok ih => exact (ih.step_full op hok).1

end RSys
end Pokerface
