import Pokerface.Proofs.FlowGhost
import Pokerface.Proofs.BetsPhase
/-
  C12, ghost history: the specification's own record `lastRaise` of "the size of the previous bet or
  raise of the round (the big blind before any)", run alongside the engine, and the invariant that the
  engine's recorded `prev` (`Status.PreviousRaiseSize`) IS that quantity in every open betting round.
-/
namespace Pokerface
open Game

/-! ## the ghost record and its rules (specification level) -/

/-- "the big blind before any": the big blind, or the dealer blind when there is no big blind -/
def Meta.openBlind (m : Meta) : Int := if m.blindBB > 0 then m.blindBB else m.blindDealer

/-- the value of the record when a betting round is opened: the big blind preflop, nothing later -/
def Game.openSize (g : Game) : Int := if g.round = .preflop then g.opts.openBlind else 0

/-- the action is carried out as a call: `Call`, or `Raise(x)` with `x` equal to the wager to match
    (reading I8: a call that completes a wager below the big blind to the big blind is no bet or raise) -/
def asCall (a : Act) (x cw : Int) : Prop := a = .call ∨ (a = .raise ∧ x = cw)

instance (a : Act) (x cw : Int) : Decidable (asCall a x cw) := by unfold asCall; exact inferInstance

/-- Two versions of the rule "what is a bet or raise of the round".
    `monitor`: the rule of the run-time monitor (harness `engine_monitors.go`): any accepted action that is not
      carried out as a call and lifts the wager to match by `d > 0` counts when nothing was to match before
      or `d` is at least the recorded size.
    `i8`: reading I8 to the letter: every accepted `Bet` is a bet (whatever its size), a raise or all-in counts
      when it lifts the wager to match by at least the recorded size.
    They differ only while nothing is to match although the recorded size is positive (a preflop round
    opened without any blind posted), see `turn_monitor_eq_i8`. -/
inductive RaiseRule | monitor | i8
deriving DecidableEq, Repr

/-- the record after an accepted action `a` with amount `x` that moved the wager to match from `cw` to `cw'` -/
def lastRaiseTurn (r : RaiseRule) (L cw : Int) (a : Act) (x cw' : Int) : Int :=
  match r with
  | .monitor => if ¬ asCall a x cw ∧ 0 < cw' - cw ∧ (cw = 0 ∨ cw' - cw ≥ L) then cw' - cw else L
  | .i8 =>
    if a = .bet then cw' - cw
    else if ¬ asCall a x cw ∧ 0 < cw' - cw ∧ cw' - cw ≥ L then cw' - cw else L

/-- ghost history of the betting round in progress: the size of its last bet or raise -/
structure RGhost where
  lastRaise : Int
deriving Repr, DecidableEq

/-- the record after operation `op` applied in state `g`: refused operations change nothing; an operation
    that opens a betting round (only `ReadyForAll` can: `nonact_step`, `act_step`) sets it to the big blind preflop
    and to 0 on later streets; an accepted action in an open round updates it by `lastRaiseTurn` -/
def RGhost.step (r : RaiseRule) (gh : RGhost) (g : Game) (op : Op) : RGhost :=
  if (g.step op).2 ≠ none then gh
  else if g.event ≠ .roundStarted then
    (if (g.step op).1.event = .roundStarted then ⟨(g.step op).1.openSize⟩ else gh)
  else
    match op with
    | .act _ a x => ⟨lastRaiseTurn r gh.lastRaise g.cw a x (g.step op).1.cw⟩
    | _ => gh

/-- run of operations with the record alongside -/
def Game.runL (r : RaiseRule) : Game → RGhost → List Op → Game × RGhost
  | g, gh, [] => (g, gh)
  | g, gh, op :: ops => Game.runL r (g.step op).1 (gh.step r g op) ops

/-- reachable state together with its record (the record starts at 0, as the monitor's) -/
def LReachable (r : RaiseRule) (g : Game) (gh : RGhost) : Prop :=
  ∃ (c : Config) (ops : List Op), WFConfig c ∧ (start c).2 = none ∧ (g, gh) = (start c).1.runL r ⟨0⟩ ops

/-- the two rules agree unless nothing is to match while the recorded size is positive -/
theorem turn_monitor_eq_i8 (L cw : Int) (a : Act) (x cw' : Int) (h0 : cw = 0 → L = 0) (hb : a = .bet → cw = 0)
    (hm : cw ≤ cw') : lastRaiseTurn .monitor L cw a x cw' = lastRaiseTurn .i8 L cw a x cw' := by
  simp only [lastRaiseTurn]
  by_cases ha : a = .bet
  · have hc := hb ha
    have hL := h0 hc
    subst ha
    have hn : ¬ asCall .bet x cw := by simp [asCall]
    simp only [if_true, hn, not_false_eq_true, true_and]
    split <;> omega
  · simp only [ha, if_false]
    by_cases hP : asCall a x cw
    · simp only [hP, not_true_eq_false, false_and, if_false]
    · simp only [hP, not_false_eq_true, true_and]
      split <;> split <;> omega

/-! ## what each accepted action does to the recorded minimum raise -/

theorem resume_prev (g : Game) : g.resume.prev = g.prev := (noChip_resume g).prev

theorem doCall_prev (g : Game) (i : Nat) : (g.doCall i).prev = g.prev := by
  unfold Game.doCall
  split
  · rfl
  · rw [resume_prev, pay_prev]; rfl

theorem doAllin_prev_cw {g : Game} {i : Nat} {p : Player} (hp : g.players[i]? = some p) :
    (g.doAllin i).prev = (if p.initial - g.cw ≥ g.prev then p.initial - g.cw else g.prev) ∧
    (g.doAllin i).cw = (if p.initial > g.cw then p.initial else g.cw) := by
  unfold Game.doAllin
  rw [hp]
  simp only
  rw [resume_prev, resume_cw, pay_prev]
  have hm : ∀ gm : Game, gm.players[i]? = some { p with acted := true } → gm.cw = g.cw →
      (gm.pay i p.stack true).cw = (if p.initial > g.cw then p.initial else g.cw) := by
    intro gm h1 h2
    rw [pay_cw h1, h2]
    simp
  by_cases h : p.initial - g.cw ≥ g.prev
  · simp only [h, if_true]
    exact ⟨rfl, hm _ (setActed_self hp) rfl⟩
  · simp only [h, if_false]
    exact ⟨rfl, hm _ (setActed_self hp) rfl⟩

theorem doBet_prev_cw {g : Game} {i : Nat} {p : Player} (hp : g.players[i]? = some p) (x : Int) :
    (g.doBet i x).prev = (payF x p).wager ∧
    (g.doBet i x).cw = (if p.stack ≤ x then (if p.initial > g.cw then p.initial else g.cw)
      else (if g.cw < p.wager + x then p.wager + x else g.cw)) := by
  unfold Game.doBet
  rw [resume_prev, resume_cw]
  have hp1 := setActed_self hp
  obtain ⟨q, hq, hf⟩ := pay_self hp1 x true
  refine ⟨?_, ?_⟩
  · obtain ⟨_, _, _, _, c5, _⟩ := frame_chips hf
    simp only [Game.recordBet, Game.setPrev, Game.wagerOf, hq, Option.map_some, Option.getD_some]
    rw [c5]
    simp only [payF]
    split <;> rfl
  · show ((g.setActed i).pay i x true).cw = _
    rw [pay_cw hp1]
    rfl

theorem doRaise_prev_cw {g : Game} {i : Nat} {p : Player} (hp : g.players[i]? = some p) (x : Int) :
    (g.doRaise i p x).prev =
      (if (g.opts.potLimit && decide (x - g.cw > g.cw + g.prev)) = true then g.cw + g.prev else x - g.cw) ∧
    (g.doRaise i p x).cw =
      (if p.stack ≤ (if (g.opts.potLimit && decide (x - g.cw > g.cw + g.prev)) = true
            then g.cw + g.prev + g.cw - p.wager else x - p.wager)
       then (if p.initial > g.cw then p.initial else g.cw)
       else (if g.cw < p.wager + (if (g.opts.potLimit && decide (x - g.cw > g.cw + g.prev)) = true
            then g.cw + g.prev + g.cw - p.wager else x - p.wager)
         then p.wager + (if (g.opts.potLimit && decide (x - g.cw > g.cw + g.prev)) = true
            then g.cw + g.prev + g.cw - p.wager else x - p.wager) else g.cw)) := by
  unfold Game.doRaise
  simp only
  rw [resume_prev, resume_cw, pay_prev]
  refine ⟨rfl, ?_⟩
  have hp1 : ((g.setActed i).setPrev (if (g.opts.potLimit && decide (x - g.cw > g.cw + g.prev)) = true
      then g.cw + g.prev else x - g.cw)).players[i]? = some { p with acted := true } := setActed_self hp
  rw [pay_cw hp1]
  rfl

/-- the facts about the seat to act that the arithmetic below needs -/
theorem seat_facts {g : Game} (hi : Inv g) {i : Nat} {p : Player} (hp : g.players[i]? = some p)
    (he : g.event = .roundStarted) :
    p.stack = p.initial - p.wager ∧ 0 ≤ p.stack ∧ 0 ≤ p.wager ∧ p.wager ≤ g.cw ∧ 0 ≤ g.cw ∧ 0 ≤ g.prev := by
  have ok := hi.chips (by rw [he]; simp)
  have hpi := ok.pinv p (List.mem_of_getElem? hp)
  exact ⟨hpi.rebase, hpi.stack0, hpi.wager0, ok.wle p (List.mem_of_getElem? hp), ok.cw0, ok.prev0⟩

theorem turn_i8_allin {g : Game} {p : Player} {a : Act} {x : Int} (ha : a = .allin ∨ (a = .raise ∧ x ≠ g.cw))
    (h0 : 0 ≤ g.prev) :
    (if p.initial - g.cw ≥ g.prev then p.initial - g.cw else g.prev) =
      lastRaiseTurn .i8 g.prev g.cw a x (if p.initial > g.cw then p.initial else g.cw) := by
  have hb : a ≠ .bet := by rcases ha with rfl | ⟨rfl, _⟩ <;> simp
  have hn : ¬ asCall a x g.cw := by
    rcases ha with rfl | ⟨rfl, h⟩
    · simp [asCall]
    · simp [asCall, h]
  simp only [lastRaiseTurn, hb, if_false, hn, not_false_eq_true, true_and]
  split <;> split <;> split <;> omega

/-- Every accepted action sets the recorded minimum raise to what the rule of reading I8 says, as a
    function of the old recorded value, the action, and the wager to match before and after. -/
theorem act_prev (g : Game) (hi : Inv g) (i : Nat) (a : Act) (x : Int) (hacc : (g.act i a x).2 = none) :
    (g.act i a x).1.prev = lastRaiseTurn .i8 g.prev g.cw a x (g.act i a x).1.cw := by
  have passive : ∀ b : Act, (b = .check ∨ b = .fold ∨ b = .pass) →
      (g.act i b x).1.prev = lastRaiseTurn .i8 g.prev g.cw b x (g.act i b x).1.cw := by
    intro b hb
    have nc := act_passive_noChip g i b x hb
    rw [nc.prev, nc.cw]
    have h1 : b ≠ .bet := by rcases hb with rfl | rfl | rfl <;> simp
    simp [lastRaiseTurn, h1]
  have hcall : g.allows i .call = true → ∀ b : Act, asCall b x g.cw → b ≠ .bet →
      (g.doCall i).prev = lastRaiseTurn .i8 g.prev g.cw b x (g.doCall i).cw := by
    intro _ b hb hb'
    rw [doCall_prev]
    simp [lastRaiseTurn, hb, hb']
  have hallin : g.allows i .allin = true → ∀ b : Act, (b = .allin ∨ (b = .raise ∧ x ≠ g.cw)) →
      (g.doAllin i).prev = lastRaiseTurn .i8 g.prev g.cw b x (g.doAllin i).cw := by
    intro h b hb
    obtain ⟨p, hp, he, _, _⟩ := allows_spec hi h
    obtain ⟨_, _, _, _, _, h0⟩ := seat_facts hi hp he
    obtain ⟨e1, e2⟩ := doAllin_prev_cw hp
    rw [e1, e2]
    exact turn_i8_allin hb h0
  unfold Game.act at hacc ⊢
  cases a with
  | pass => exact passive .pass (by simp)
  | check => exact passive .check (by simp)
  | fold => exact passive .fold (by simp)
  | pay =>
    simp only at hacc
    split at hacc
    · cases hacc
    · rename_i h
      obtain ⟨p, hp, he, _, hav⟩ := allows_spec hi (by simpa using h)
      exact absurd hav (not_available_pay g p)
  | call =>
    simp only at hacc ⊢
    split at hacc
    · cases hacc
    · rename_i h
      simp only [h, if_false, Bool.false_eq_true]
      exact hcall (by simpa using h) .call (Or.inl rfl) (by simp)
  | allin =>
    simp only at hacc ⊢
    split at hacc
    · cases hacc
    · rename_i h
      simp only [h, if_false, Bool.false_eq_true]
      exact hallin (by simpa using h) .allin (Or.inl rfl)
  | bet =>
    simp only at hacc ⊢
    split at hacc
    · cases hacc
    · rename_i h
      split at hacc
      · cases hacc
      · rename_i hx
        obtain ⟨p, hp, he, hc, hav⟩ := allows_spec hi (by simpa using h)
        obtain ⟨f1, f2, f3, f4, f5, f6⟩ := seat_facts hi hp he
        have ok := hi.chips (by rw [he]; simp)
        obtain ⟨_, hs⟩ := stack_pos_of_avail ok hp hav (by simp)
        obtain ⟨hb1, hb2⟩ := avail_bet hav
        simp only [h, hx, if_false, Bool.false_eq_true]
        obtain ⟨e1, e2⟩ := doBet_prev_cw hp x
        rw [e1, e2]
        simp only [lastRaiseTurn, if_true, payF]
        split <;> simp only [goAllin, putWager] <;> (repeat' split) <;> omega
  | raise =>
    simp only at hacc ⊢
    split at hacc
    · cases hacc
    · rename_i h
      split at hacc
      · cases hacc
      · rename_i hx
        simp only [h, hx, if_false, Bool.false_eq_true]
        split at hacc
        · rename_i heq
          split at hacc
          · cases hacc
          · rename_i hc
            simp only [heq, hc, if_true, if_false, Bool.false_eq_true]
            have := hcall (by simpa using hc) .raise (Or.inr ⟨rfl, heq⟩) (by simp)
            rw [heq] at this
            exact this
        · rename_i hne
          simp only [hne, if_false]
          split at hacc
          · rename_i hnone
            obtain ⟨p', hp', _, _, _⟩ := allows_spec hi (by simpa using h)
            rw [hp'] at hnone; cases hnone
          · rename_i p hp
            try simp only [hp]
            split at hacc
            · rename_i hbig
              split at hacc
              · cases hacc
              · rename_i ha
                simp only [hbig, ha, if_true, if_false, Bool.false_eq_true]
                exact hallin (by simpa using ha) .raise (Or.inr ⟨rfl, hne⟩)
            · rename_i hnot
              simp only [hnot, if_false]
              obtain ⟨p', hp', he, hc, hav⟩ := allows_spec hi (by simpa using h)
              rw [hp] at hp'; cases hp'
              obtain ⟨f1, f2, f3, f4, f5, f6⟩ := seat_facts hi hp he
              have hr := (avail_raise hav).1
              obtain ⟨e1, e2⟩ := doRaise_prev_cw hp x
              rw [e1, e2]
              have hn : ¬ asCall .raise x g.cw := by simp [asCall, hne]
              simp only [lastRaiseTurn, hn, not_false_eq_true, true_and]
              cases hcap : (g.opts.potLimit && decide (x - g.cw > g.cw + g.prev)) with
              | true =>
                have hgt : g.cw + g.prev < x - g.cw := by
                  simp only [Bool.and_eq_true, decide_eq_true_eq] at hcap
                  exact hcap.2
                simp only [if_true]
                (repeat' split) <;> omega
              | false =>
                simp only [Bool.false_eq_true, if_false]
                (repeat' split) <;> omega

/-! ## the invariant -/

/-- ties the recorded minimum raise to the ghost record `L`:
    in an open betting round it IS the record; while the hand waits for `ReadyForAll` it already holds the
    value the round will open with; after the flop it never exceeds the wager to match -/
structure RaiseInv (g : Game) (L : Int) : Prop where
  started : g.event = .roundStarted → g.prev = L
  ready : g.event = .readyRequested → g.prev = g.openSize
  post : g.event = .roundStarted → g.round ≠ .preflop → g.prev ≤ g.cw

/-! ### the chains between wait points -/

theorem requestBlinds_ready (g : Game) (h : g.requestBlinds.event = .readyRequested) : g.opts.openBlind = 0 := by
  unfold Game.requestBlinds at h
  split at h
  · rename_i h0
    unfold Meta.openBlind
    split <;> omega
  · cases h

/-- entering a street: the recorded minimum raise and the options are untouched, no betting round is open yet,
    and preflop the hand waits for `ReadyForAll` at once only when there is no blind at all -/
theorem enterRound_facts (g : Game) (r : Round) :
    (g.enterRound r).prev = g.prev ∧ (g.enterRound r).opts = g.opts ∧ (g.enterRound r).round = r ∧
    (g.enterRound r).event ≠ .roundStarted ∧
    ((g.enterRound r).event = .readyRequested → r = .preflop → g.opts.openBlind = 0) := by
  have nc := noChip_enterRound g r
  refine ⟨nc.prev, nc.opts, enterRound_round g r, enterRound_ne g r, ?_⟩
  intro he hr
  subst hr
  unfold Game.enterRound Game.initializeRound Game.afterRoundInitialized at he
  have hround : ((((g.setRound .preflop).dealStreet.updateCombinations).setEvent .roundInitialized)).round = .preflop := by
    show (g.setRound .preflop).dealStreet.round = .preflop
    exact dealStreet_round (g.setRound .preflop)
  rw [if_pos hround] at he
  have := requestBlinds_ready _ he
  have ho : ((((g.setRound .preflop).dealStreet.updateCombinations).setEvent .roundInitialized)).opts = g.opts :=
    (((noChip_setRound g .preflop).trans (noChip_dealStreet _)).trans
      ((noChip_updateCombinations _).trans (noChip_setEvent _ _))).opts
  rw [ho] at this
  exact this

theorem openRound_event (g : Game) : g.openRound.event = .roundStarted ∨ g.openRound.event = .roundClosed := by
  unfold Game.openRound
  rcases requestPlayerAction_event (g.setEvent .roundStarted) with h | h
  · exact Or.inl h
  · exact Or.inr h

theorem startRound_event (g : Game) : g.startRound.event = .roundStarted ∨ g.startRound.event = .roundClosed := by
  unfold Game.startRound Game.startRound'
  split
  · split
    · exact Or.inr rfl
    · exact openRound_event _
  · exact openRound_event _

theorem openSize_congr {g g' : Game} (h1 : g'.round = g.round) (h2 : g'.opts = g.opts) : g'.openSize = g.openSize := by
  unfold Game.openSize; rw [h1, h2]

theorem openSize_of_openBlind {g : Game} (h : g.opts.openBlind = 0) : g.openSize = 0 := by
  unfold Game.openSize; split
  · exact h
  · rfl

/-! ### the operations other than player actions -/

/-- An accepted `ReadyForAll`, `PayAnte`, `PayBlinds` or `Next`: whenever the new state waits for `ReadyForAll`
    the recorded minimum raise is the opening value of its street; and a betting round is opened only by
    `ReadyForAll` on a dealt street, which leaves the recorded value, the wager to match, the street and the
    options alone. -/
theorem nonact_step (g : Game) (hf : Flow g) (hready : g.event = .readyRequested → g.prev = g.openSize)
    (op : Op) (hop : ∀ s a x, op ≠ .act s a x) (hacc : (g.step op).2 = none) :
    ((g.step op).1.event = .readyRequested → (g.step op).1.prev = (g.step op).1.openSize) ∧
    ((g.step op).1.event = .roundStarted →
      op = .ready ∧ g.event = .readyRequested ∧ (g.step op).1.prev = (g.step op).1.openSize ∧
      (g.step op).1.cw = g.cw ∧ (g.step op).1.round = g.round ∧ (g.step op).1.opts = g.opts) := by
  cases op with
  | act s a x => exact absurd rfl (hop s a x)
  | ready =>
    have estep : g.step .ready = g.readyForAll := rfl
    rw [estep] at hacc ⊢
    unfold Game.readyForAll at hacc ⊢
    by_cases h0 : g.event ≠ .readyRequested
    · rw [if_pos h0] at hacc; cases hacc
    · rw [if_neg h0]
      have he : g.event = .readyRequested := Classical.not_not.mp h0
      have hp := hready he
      have nc0 := noChip_resetAllAllowed g
      have q0 := quiet_resetAllAllowed g
      simp only
      unfold Game.readiness
      by_cases hr : g.resetAllAllowed.round = .none
      · rw [if_pos hr]
        have hr' : g.round = .none := by rw [← q0.round]; exact hr
        have hz : g.prev = 0 := by rw [hp]; unfold Game.openSize; rw [hr']; simp
        split
        · exact ⟨fun h => (by cases h), fun h => (by cases h)⟩
        · obtain ⟨f1, f2, f3, f4, f5⟩ := enterRound_facts g.resetAllAllowed .preflop
          refine ⟨fun h => ?_, fun h => absurd h f4⟩
          rw [f1, nc0.prev, hz]
          have := f5 h rfl
          rw [← f2] at this
          exact (openSize_of_openBlind this).symm
      · rw [if_neg hr]
        have nc := noChip_startRound g.resetAllAllowed
        have hround : g.resetAllAllowed.startRound.round = g.round := (startRound_round _).trans q0.round
        have hopts : g.resetAllAllowed.startRound.opts = g.opts := nc.opts.trans nc0.opts
        refine ⟨fun h => ?_, fun _ => ⟨trivial, he, ?_, nc.cw.trans nc0.cw, hround, hopts⟩⟩
        · rcases startRound_event g.resetAllAllowed with h1 | h1 <;> rw [h1] at h <;> cases h
        · rw [nc.prev, nc0.prev, hp]
          exact (openSize_congr hround hopts).symm
  | payAnte =>
    have estep : g.step .payAnte = g.payAnte := rfl
    rw [estep] at hacc ⊢
    unfold Game.payAnte at hacc ⊢
    split
    · rename_i h; rw [if_pos h] at hacc; cases hacc
    · rename_i h
      rw [if_neg h] at hacc
      split
      · rename_i h'; rw [if_pos h'] at hacc; cases hacc
      · rename_i h'
        rw [if_neg h'] at hacc
        split
        · rename_i g' e heq
          rw [heq] at hacc; cases hacc
        · rename_i g' heq
          simp only
          unfold Game.antePaid
          obtain ⟨f1, f2, f3, f4, f5⟩ := enterRound_facts
            ((((g'.resetAllAllowed.setEvent .antePaid).updatePots).resetAllPlayerStatus).resetRoundStatus) .preflop
          refine ⟨fun h => ?_, fun h => absurd h f4⟩
          rw [f1]
          have := f5 h rfl
          rw [← f2] at this
          exact (openSize_of_openBlind this).symm
  | payBlinds =>
    have estep : g.step .payBlinds = g.payBlinds := rfl
    rw [estep] at hacc ⊢
    unfold Game.payBlinds at hacc ⊢
    split
    · rename_i h; rw [if_pos h] at hacc; cases hacc
    · rename_i h
      have he : g.event = .blindsRequested := Classical.not_not.mp h
      have hr := hf.blinds he
      simp only
      unfold Game.blindsPaid
      refine ⟨fun _ => ?_, fun h => absurd h (prepareRound_ne _)⟩
      rw [(noChip_prepareRound _).prev]
      unfold Game.openSize
      rw [prepareRound_round, (noChip_prepareRound _).opts]
      have : ((((g.seatsFromDealer.foldl payBlind g).setPrev
          (if (g.seatsFromDealer.foldl payBlind g).opts.blindBB > 0 then (g.seatsFromDealer.foldl payBlind g).opts.blindBB
            else (g.seatsFromDealer.foldl payBlind g).opts.blindDealer)).resetAllAllowed).setEvent .blindsPaid).round
          = .preflop := by
        show (g.seatsFromDealer.foldl payBlind g).round = .preflop
        rw [(quiet_foldl_payBlind _ g).round]; exact hr
      rw [if_pos this]
      rfl
  | next =>
    have estep : g.step .next = g.next := rfl
    rw [estep] at hacc ⊢
    unfold Game.next at hacc ⊢
    split
    · rename_i h; rw [if_pos h] at hacc; cases hacc
    · rename_i h
      have he : g.event = .roundClosed := Classical.not_not.mp h
      split
      · simp only [he]
        exact ⟨fun h => (by cases h), fun h => (by cases h)⟩
      · simp only
        unfold Game.nextRound Game.nextRound'
        have key : ∀ r : Round, r ≠ .preflop →
            ((g.resetRoundStatus.resetAllPlayerStatus.enterRound r).event = .readyRequested →
              (g.resetRoundStatus.resetAllPlayerStatus.enterRound r).prev =
                (g.resetRoundStatus.resetAllPlayerStatus.enterRound r).openSize) ∧
            ((g.resetRoundStatus.resetAllPlayerStatus.enterRound r).event = .roundStarted →
              Op.next = Op.ready ∧ g.event = .readyRequested ∧
              (g.resetRoundStatus.resetAllPlayerStatus.enterRound r).prev =
                (g.resetRoundStatus.resetAllPlayerStatus.enterRound r).openSize ∧
              (g.resetRoundStatus.resetAllPlayerStatus.enterRound r).cw = g.cw ∧
              (g.resetRoundStatus.resetAllPlayerStatus.enterRound r).round = g.round ∧
              (g.resetRoundStatus.resetAllPlayerStatus.enterRound r).opts = g.opts) := by
          intro r hr
          obtain ⟨f1, f2, f3, f4, f5⟩ := enterRound_facts g.resetRoundStatus.resetAllPlayerStatus r
          refine ⟨fun _ => ?_, fun h => absurd h f4⟩
          rw [f1]
          unfold Game.openSize
          rw [f3, if_neg hr]
          rfl
        have closed : ((g.resetRoundStatus.resetAllPlayerStatus.gameCompleted).event = .readyRequested →
              (g.resetRoundStatus.resetAllPlayerStatus.gameCompleted).prev =
                (g.resetRoundStatus.resetAllPlayerStatus.gameCompleted).openSize) ∧
            ((g.resetRoundStatus.resetAllPlayerStatus.gameCompleted).event = .roundStarted →
              Op.next = Op.ready ∧ g.event = .readyRequested ∧
              (g.resetRoundStatus.resetAllPlayerStatus.gameCompleted).prev =
                (g.resetRoundStatus.resetAllPlayerStatus.gameCompleted).openSize ∧
              (g.resetRoundStatus.resetAllPlayerStatus.gameCompleted).cw = g.cw ∧
              (g.resetRoundStatus.resetAllPlayerStatus.gameCompleted).round = g.round ∧
              (g.resetRoundStatus.resetAllPlayerStatus.gameCompleted).opts = g.opts) :=
          ⟨fun h => (by cases h), fun h => (by cases h)⟩
        split
        · exact closed
        · split
          · exact key .flop (by simp)
          · exact key .turn (by simp)
          · exact key .river (by simp)
          · exact closed
          · have e : g.resetRoundStatus.resetAllPlayerStatus.event = .roundClosed := he
            rw [e]
            exact ⟨fun h => (by cases h), fun h => (by cases h)⟩

/-! ### player actions -/

/-- An accepted player action: it happens in an open betting round, leaves the round open or closes it,
    keeps the street, never lowers the wager to match, and sets the recorded minimum raise by the rule of I8. -/
theorem act_step (g : Game) (hi : Inv g) (i : Nat) (a : Act) (x : Int) (hacc : (g.act i a x).2 = none) :
    g.event = .roundStarted ∧
    ((g.act i a x).1.event = .roundStarted ∨ (g.act i a x).1.event = .roundClosed) ∧
    (g.act i a x).1.prev = lastRaiseTurn .i8 g.prev g.cw a x (g.act i a x).1.cw ∧
    (g.act i a x).1.round = g.round ∧ g.cw ≤ (g.act i a x).1.cw ∧ 0 ≤ g.cw ∧ 0 ≤ g.prev ∧ (a = .bet → g.cw = 0) := by
  obtain ⟨p, g1, hp, he, hc, e, sh⟩ := act_shape2 g hi i a x hacc
  obtain ⟨hm, _, _⟩ := shape_mid hi he sh
  have ok := hi.chips (by rw [he]; simp)
  refine ⟨he, ?_, act_prev g hi i a x hacc, (act_round_event g i a x (by rw [he]; simp)).1, act_cw_mono g i a x,
    ok.cw0, ok.prev0, ?_⟩
  · rw [e]
    unfold Game.resume
    rw [hm.ev]
    simp only
    rcases requestPlayerAction_event g1 with h | h
    · left; rw [h]; exact hm.ev
    · exact Or.inr h
  · intro ha
    subst ha
    obtain ⟨hb, _, _⟩ := act_bet_accepted hacc
    obtain ⟨p', _, _, _, hav⟩ := allows_spec hi hb
    exact (avail_bet hav).2

/-- consequences of the rule that need no case analysis of the engine: the new recorded value is at most the new
    wager to match whenever the old one was at most the old wager to match -/
theorem turn_i8_le (L cw : Int) (a : Act) (x cw' : Int) (h0 : 0 ≤ cw) (hm : cw ≤ cw') (h : L ≤ cw) :
    lastRaiseTurn .i8 L cw a x cw' ≤ cw' := by
  simp only [lastRaiseTurn]
  (repeat' split) <;> omega

theorem turn_i8_zero (L cw : Int) (a : Act) (x cw' : Int) (h0 : 0 ≤ cw) (hm : cw ≤ cw') (h : cw = 0 → L = 0)
    (hc : cw' = 0) : lastRaiseTurn .i8 L cw a x cw' = 0 := by
  have : cw = 0 := by omega
  have := h this
  simp only [lastRaiseTurn]
  (repeat' split) <;> omega

/-! ## the invariant along every run -/

theorem step_act_eq (g : Game) (s : Option Nat) (a : Act) (x : Int) :
    ∃ i, g.step (.act s a x) = g.act i a x := by
  cases s with
  | none => exact ⟨g.cur, rfl⟩
  | some i => exact ⟨i, rfl⟩

theorem rghost_step_refused {r : RaiseRule} {gh : RGhost} {g : Game} {op : Op} (h : (g.step op).2 ≠ none) :
    gh.step r g op = gh := by
  unfold RGhost.step; rw [if_pos h]

theorem rghost_step_act {r : RaiseRule} {gh : RGhost} {g : Game} {s : Option Nat} {a : Act} {x : Int}
    (he : g.event = .roundStarted) (hacc : (g.step (.act s a x)).2 = none) :
    gh.step r g (.act s a x) = ⟨lastRaiseTurn r gh.lastRaise g.cw a x (g.step (.act s a x)).1.cw⟩ := by
  unfold RGhost.step
  rw [if_neg (by rw [hacc]; simp), if_neg (by rw [he]; simp)]

theorem rghost_step_open {r : RaiseRule} {gh : RGhost} {g : Game} {op : Op}
    (he : g.event ≠ .roundStarted) (hacc : (g.step op).2 = none) :
    gh.step r g op = if (g.step op).1.event = .roundStarted then ⟨(g.step op).1.openSize⟩ else gh := by
  unfold RGhost.step
  rw [if_neg (by rw [hacc]; simp), if_pos he]

/-- the invariant is kept by every operation, with the record updated by the rule of I8 -/
theorem raiseInv_step (g : Game) (gh : RGhost) (hi : Inv g) (hf : Flow g) (h : RaiseInv g gh.lastRaise) (op : Op) :
    RaiseInv (g.step op).1 (gh.step .i8 g op).lastRaise := by
  by_cases hacc' : (g.step op).2 ≠ none
  · rw [rghost_step_refused hacc', refused_same g hf op hacc']; exact h
  have hacc : (g.step op).2 = none := Classical.not_not.mp hacc'
  cases op with
  | act s a x =>
    obtain ⟨i, ei⟩ := step_act_eq g s a x
    have hacc2 : (g.act i a x).2 = none := by rw [← ei]; exact hacc
    obtain ⟨he, hev, hprev, hround, hmono, hcw0, hprev0, _⟩ := act_step g hi i a x hacc2
    rw [rghost_step_act he hacc, ei]
    refine ⟨fun _ => ?_, fun h' => ?_, fun _ hr => ?_⟩
    · rw [hprev, h.started he]
    · rcases hev with h1 | h1 <;> rw [h1] at h' <;> cases h'
    · rw [hprev]
      exact turn_i8_le _ _ _ _ _ hcw0 hmono (h.post he (by rw [← hround]; exact hr))
  | ready | payAnte | payBlinds | next =>
    have hne : g.event ≠ .roundStarted := by
      intro he
      obtain ⟨s, a, x, e⟩ := accepted_at_started g he _ hacc
      cases e
    obtain ⟨n1, n2⟩ := nonact_step g hf h.ready _ (by intro s a x e; cases e) hacc
    rw [rghost_step_open hne hacc]
    refine ⟨fun he' => ?_, n1, fun he' hr => ?_⟩
    · rw [if_pos he']; exact (n2 he').2.2.1
    · obtain ⟨_, _, e1, e2, _, _⟩ := n2 he'
      rw [e1, e2]
      unfold Game.openSize
      rw [if_neg hr]
      exact hi.chips0.cw0

theorem raiseInv_runL : ∀ (ops : List Op) (g : Game) (gh : RGhost), Inv g → Flow g → RaiseInv g gh.lastRaise →
    Inv (g.runL .i8 gh ops).1 ∧ Flow (g.runL .i8 gh ops).1 ∧ RaiseInv (g.runL .i8 gh ops).1 (g.runL .i8 gh ops).2.lastRaise
  | [], _, _, hi, hf, h => ⟨hi, hf, h⟩
  | op :: ops, g, gh, hi, hf, h =>
    raiseInv_runL ops _ _ (inv_step g hi op) (flow_step g hi hf op) (raiseInv_step g gh hi hf h op)

theorem runL_fst (r : RaiseRule) : ∀ (ops : List Op) (g : Game) (gh : RGhost), (g.runL r gh ops).1 = g.run ops
  | [], _, _ => rfl
  | _ :: ops, _, _ => runL_fst r ops _ _

theorem raiseInv_start (c : Config) (hs : (start c).2 = none) (L : Int) : RaiseInv (start c).1 L := by
  obtain ⟨_, _, hst⟩ := start_ok c hs
  rw [hst]
  refine ⟨fun h => (by cases h), fun _ => ?_, fun h => (by cases h)⟩
  rfl

theorem lreachable_reachable {r : RaiseRule} {g : Game} {gh : RGhost} (h : LReachable r g gh) : Reachable g := by
  obtain ⟨c, ops, wf, hs, e⟩ := h
  have e1 : g = ((start c).1.runL r ⟨0⟩ ops).1 := congrArg Prod.fst e
  exact ⟨c, ops, wf, hs, by rw [e1, runL_fst]⟩

/-- every reachable state has a record -/
theorem reachable_lreachable (r : RaiseRule) {g : Game} (h : Reachable g) : ∃ gh, LReachable r g gh := by
  obtain ⟨c, ops, wf, hs, e⟩ := h
  refine ⟨((start c).1.runL r ⟨0⟩ ops).2, c, ops, wf, hs, ?_⟩
  rw [e, ← runL_fst r ops _ ⟨0⟩]

theorem lreachable_inv {g : Game} {gh : RGhost} (h : LReachable .i8 g gh) : RaiseInv g gh.lastRaise := by
  obtain ⟨c, ops, wf, hs, e⟩ := h
  obtain ⟨_, _, h3⟩ := raiseInv_runL ops _ ⟨0⟩ (inv_start c wf hs) (flow_start c hs) (raiseInv_start c hs 0)
  have e1 : g = ((start c).1.runL .i8 ⟨0⟩ ops).1 := congrArg Prod.fst e
  have e2 : gh = ((start c).1.runL .i8 ⟨0⟩ ops).2 := congrArg Prod.snd e
  rw [e1, e2]; exact h3

theorem runL_append (r : RaiseRule) : ∀ (ops : List Op) (g : Game) (gh : RGhost) (op : Op),
    g.runL r gh (ops ++ [op]) = (((g.runL r gh ops).1.step op).1, (g.runL r gh ops).2.step r (g.runL r gh ops).1 op)
  | [], _, _, _ => rfl
  | _ :: ops, _, _, op => runL_append r ops _ _ op

theorem lreachable_step {r : RaiseRule} {g : Game} {gh : RGhost} (h : LReachable r g gh) (op : Op) :
    LReachable r (g.step op).1 (gh.step r g op) := by
  obtain ⟨c, ops, wf, hs, e⟩ := h
  refine ⟨c, ops ++ [op], wf, hs, ?_⟩
  rw [runL_append, ← e]

/-! ## the rule of the run-time monitor

  It agrees with the rule of I8 along every history, except a hand whose preflop round is opened with nothing to
  match although the big blind is positive. -/

/-- the hand waits for `ReadyForAll` to open the preflop round with NOTHING to match although "the big blind" is
    positive: no seat owing a blind had a chip left after the ante, or no seat holds the position -/
def Game.deadBlind (g : Game) : Prop :=
  g.event = .readyRequested ∧ g.round = .preflop ∧ g.cw = 0 ∧ 0 < g.opts.openBlind

instance (g : Game) : Decidable g.deadBlind := by unfold Game.deadBlind; exact inferInstance

/-- the history `ops` from `g` never passes through such a state -/
def NoDeadBlind : Game → List Op → Prop
  | _, [] => True
  | g, op :: ops => ¬ g.deadBlind ∧ NoDeadBlind (g.step op).1 ops

def decNoDeadBlind : (ops : List Op) → (g : Game) → Decidable (NoDeadBlind g ops)
  | [], _ => isTrue trivial
  | op :: ops, g =>
    have := decNoDeadBlind ops (g.step op).1
    inferInstanceAs (Decidable (¬ g.deadBlind ∧ NoDeadBlind (g.step op).1 ops))

instance (g : Game) (ops : List Op) : Decidable (NoDeadBlind g ops) := decNoDeadBlind ops g

/-- in an open round with nothing to match the recorded minimum raise is 0 -/
def ZeroAtZero (g : Game) : Prop := g.event = .roundStarted → g.cw = 0 → g.prev = 0

theorem openBlind_nonneg {m : Meta} (h : OptsOK m) : 0 ≤ m.openBlind := by
  unfold Meta.openBlind
  have := h.bb0; have := h.bd0
  split <;> omega

theorem step_monitor_eq_i8 (g : Game) (gh : RGhost) (hi : Inv g) (h : RaiseInv g gh.lastRaise) (hz : ZeroAtZero g) (op : Op) :
    gh.step .monitor g op = gh.step .i8 g op := by
  by_cases hacc' : (g.step op).2 ≠ none
  · rw [rghost_step_refused hacc', rghost_step_refused hacc']
  have hacc : (g.step op).2 = none := Classical.not_not.mp hacc'
  by_cases he : g.event = .roundStarted
  · cases op with
    | act s a x =>
      obtain ⟨i, ei⟩ := step_act_eq g s a x
      have hacc2 : (g.act i a x).2 = none := by rw [← ei]; exact hacc
      obtain ⟨_, _, _, _, hmono, _, _, hb⟩ := act_step g hi i a x hacc2
      rw [rghost_step_act he hacc, rghost_step_act he hacc, ei]
      have hL := h.started he
      rw [turn_monitor_eq_i8 _ _ _ _ _ (fun h0 => by rw [← hL]; exact hz he h0) hb hmono]
    | ready | payAnte | payBlinds | next =>
      obtain ⟨s, a, x, e⟩ := accepted_at_started g he _ hacc
      cases e
  · rw [rghost_step_open he hacc, rghost_step_open he hacc]

theorem zeroAtZero_step (g : Game) (hi : Inv g) (hf : Flow g) (hr : g.event = .readyRequested → g.prev = g.openSize)
    (hz : ZeroAtZero g) (hd : ¬ g.deadBlind) (op : Op) : ZeroAtZero (g.step op).1 := by
  by_cases hacc' : (g.step op).2 ≠ none
  · rw [refused_same g hf op hacc']; exact hz
  have hacc : (g.step op).2 = none := Classical.not_not.mp hacc'
  cases op with
  | act s a x =>
    obtain ⟨i, ei⟩ := step_act_eq g s a x
    have hacc2 : (g.act i a x).2 = none := by rw [← ei]; exact hacc
    obtain ⟨he, _, hprev, _, hmono, hcw0, _, _⟩ := act_step g hi i a x hacc2
    rw [ei]
    intro _ hc
    rw [hprev]
    exact turn_i8_zero _ _ _ _ _ hcw0 hmono (hz he) hc
  | ready | payAnte | payBlinds | next =>
    obtain ⟨_, n2⟩ := nonact_step g hf hr _ (by intro s a x e; cases e) hacc
    intro he' hc
    obtain ⟨_, he, e1, e2, e3, e4⟩ := n2 he'
    rw [e1]
    unfold Game.openSize
    split
    · rename_i hpre
      rw [e4]
      have h0 := openBlind_nonneg hi.opts
      have : ¬ 0 < g.opts.openBlind := fun hpos => hd ⟨he, by rw [← e3]; exact hpre, by rw [← e2]; exact hc, hpos⟩
      omega
    · rfl

/-- Along a history that never opens the preflop round on a dead blind, the monitor's rule and the rule of I8
    produce the same record at every step. -/
theorem monitor_eq_i8_runL : ∀ (ops : List Op) (g : Game) (gh : RGhost), Inv g → Flow g → RaiseInv g gh.lastRaise →
    ZeroAtZero g → NoDeadBlind g ops → g.runL .monitor gh ops = g.runL .i8 gh ops
  | [], _, _, _, _, _, _, _ => rfl
  | op :: ops, g, gh, hi, hf, h, hz, hnd => by
    show Game.runL .monitor (g.step op).1 (gh.step .monitor g op) ops = Game.runL .i8 (g.step op).1 (gh.step .i8 g op) ops
    rw [step_monitor_eq_i8 g gh hi h hz op]
    exact monitor_eq_i8_runL ops _ _ (inv_step g hi op) (flow_step g hi hf op) (raiseInv_step g gh hi hf h op)
      (zeroAtZero_step g hi hf h.ready hz hnd.1 op) hnd.2

theorem monitor_eq_i8_start (c : Config) (wf : WFConfig c) (hs : (start c).2 = none) (ops : List Op)
    (hnd : NoDeadBlind (start c).1 ops) : (start c).1.runL .monitor ⟨0⟩ ops = (start c).1.runL .i8 ⟨0⟩ ops := by
  refine monitor_eq_i8_runL ops _ ⟨0⟩ (inv_start c wf hs) (flow_start c hs) (raiseInv_start c hs 0) ?_ hnd
  intro he
  obtain ⟨_, _, hst⟩ := start_ok c hs
  rw [hst] at he; cases he

/-! ## the statements -/

/-- **The recorded minimum raise is the specification's "size of the previous bet or raise of the round (the big
    blind before any)".**  For every history from every accepted configuration, with the record `lastRaise` kept by
    the rule of reading I8 (every accepted `Bet` is a bet; a raise or all-in counts when it lifts the wager to match
    by at least the record; calls — including `Raise` to the wager to match and the completion to the big blind —
    never count; the record starts at the big blind preflop and at 0 on later streets): in every open betting round
    `Status.PreviousRaiseSize` equals the record. -/
theorem prev_is_last_raise {g : Game} {gh : RGhost} (h : LReachable .i8 g gh) (he : g.event = .roundStarted) :
    g.prev = gh.lastRaise := (lreachable_inv h).started he

/-- The same with the rule of the run-time monitor, for every history that never opens the preflop round on a dead
    blind (`NoDeadBlind`); without that hypothesis the statement is false (`C12.monitor_rule_counterexample`). -/
theorem prev_is_last_raise_monitor (c : Config) (wf : WFConfig c) (hs : (start c).2 = none) (ops : List Op)
    (hnd : NoDeadBlind (start c).1 ops) (he : ((start c).1.runL .monitor ⟨0⟩ ops).1.event = .roundStarted) :
    ((start c).1.runL .monitor ⟨0⟩ ops).1.prev = ((start c).1.runL .monitor ⟨0⟩ ops).2.lastRaise := by
  rw [monitor_eq_i8_start c wf hs ops hnd] at he ⊢
  exact prev_is_last_raise ⟨c, ops, wf, hs, rfl⟩ he

/-- after the flop the recorded minimum raise never exceeds the wager to match -/
theorem prev_le_cw_of_reachable {g : Game} (h : Reachable g) (he : g.event = .roundStarted) (hr : g.round ≠ .preflop) :
    g.prev ≤ g.cw := by
  obtain ⟨gh, hG⟩ := reachable_lreachable .i8 h
  exact (lreachable_inv hG).post he hr

end Pokerface
