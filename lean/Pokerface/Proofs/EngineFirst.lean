import Pokerface.Proofs.EngineAct
/-
  Who is first to act when a betting round opens (C04).
-/
namespace Pokerface
open Game

/-- one seat clockwise on a table of `n` seats (game.go `NextPlayer`) -/
def cwNext (n s : Nat) : Nat := if s + 1 = n then 0 else s + 1

/-- `k` seats clockwise -/
def cwIter (n : Nat) : Nat → Nat → Nat
  | 0, s => s
  | k + 1, s => cwIter n k (cwNext n s)

theorem nextIdx_eq (g : Game) : g.nextIdx = cwNext g.n g.cur := rfl

theorem setCurrentPlayer_cur (g : Game) (i : Nat) : (g.setCurrentPlayer i).cur = i := rfl

theorem setCurrentPlayer_n (g : Game) (i : Nat) : (g.setCurrentPlayer i).n = g.n := by
  simp [Game.setCurrentPlayer, Game.offer, Game.modP, Game.setCur, Game.n]

theorem setCurrentPlayer_posBB (g : Game) (i j : Nat) :
    ((g.setCurrentPlayer i).players[j]?).map (·.posBB) = (g.players[j]?).map (·.posBB) := by
  simp only [Game.setCurrentPlayer, Game.offer, Game.modP, Game.setCur, List.getElem?_modify]
  cases g.players[j]? with
  | none => rfl
  | some p =>
    simp only [Option.map_some]
    by_cases h1 : g.cur = j <;> by_cases h2 : i = j <;> simp [h1, h2, clearAllowed]

/-- `seekBB` stops on the first seat with the big-blind position met walking clockwise from
    the current seat. -/
theorem seekBB_cur : ∀ (k : Nat) (g : Game) (j : Nat), j < k → g.cur < g.n →
    ((g.players[cwIter g.n (j + 1) g.cur]?).map (·.posBB) = some true) →
    (∀ j' < j, (g.players[cwIter g.n (j' + 1) g.cur]?).map (·.posBB) = some false) →
    (seekBB k g).cur = cwIter g.n (j + 1) g.cur
  | 0, _, _, hj, _, _, _ => by omega
  | k + 1, g, j, hj, hc, hb, hno => by
    unfold Game.seekBB
    cases j with
    | zero =>
      simp only [cwIter, Nat.zero_add] at hb ⊢
      rw [← nextIdx_eq] at hb ⊢
      cases hp : g.players[g.nextIdx]? with
      | none => simp [hp] at hb
      | some p =>
        simp only [hp, Option.map_some, Option.some.injEq] at hb
        simp only [hb, if_true]
        rfl
    | succ j =>
      have h0 := hno 0 (by omega)
      simp only [cwIter, Nat.zero_add] at h0
      rw [← nextIdx_eq] at h0
      cases hp : g.players[g.nextIdx]? with
      | none => simp [hp] at h0
      | some p =>
        simp only [hp, Option.map_some, Option.some.injEq] at h0
        simp only [h0, Bool.false_eq_true, if_false]
        have hlt : g.nextIdx < g.n := by
          unfold Game.nextIdx; split <;> omega
        have ih := seekBB_cur k (g.setCurrentPlayer g.nextIdx) j (by omega)
          (by rw [setCurrentPlayer_cur, setCurrentPlayer_n]; exact hlt)
        simp only [setCurrentPlayer_cur, setCurrentPlayer_n] at ih
        have e : ∀ m, cwIter g.n (m + 1) g.nextIdx = cwIter g.n (m + 1 + 1) g.cur := by
          intro m; simp only [cwIter, nextIdx_eq]
        rw [e] at ih
        apply ih
        · have := setCurrentPlayer_posBB g g.nextIdx (cwIter g.n (j + 1 + 1) g.cur)
          rw [← e] at this ⊢
          rw [this]; rw [e]; exact hb
        · intro j' hj'
          have := setCurrentPlayer_posBB g g.nextIdx (cwIter g.n (j' + 1 + 1) g.cur)
          rw [e, this]
          exact hno (j' + 1) (by omega)

/-- what `openRound` does to the seat to act -/
theorem openRound_cur (g : Game) (hs : Struct g) (hopen : g.openRound.event = .roundStarted) :
    g.openRound.cur = cwNext g.n g.cur := by
  unfold Game.openRound at hopen ⊢
  unfold Game.requestPlayerAction at hopen ⊢
  have hn : (g.setEvent .roundStarted).nextIdx = g.nextIdx := rfl
  have hpl : (g.setEvent .roundStarted).players = g.players := rfl
  split
  · rename_i h1; simp only [h1, if_true] at hopen; cases hopen
  · rename_i h1
    simp only [h1, if_false] at hopen
    split
    · rename_i h2; simp only [h2, if_true] at hopen; cases hopen
    · rename_i h2
      simp only [h2, if_false] at hopen
      split
      · rename_i hnone
        have := nextIdx_lt hs
        simp [Game.n] at this
        rw [hn, hpl] at hnone
        have : g.players[g.nextIdx]? ≠ none := by simp [this]
        contradiction
      · rename_i p hp
        simp only [hp] at hopen
        split
        · rename_i ha; simp only [ha, if_true] at hopen; cases hopen
        · rfl

end Pokerface

namespace Pokerface
open Game

theorem dealerIdx_congr {g g' : Game} (h : g'.players.map Player.frame = g.players.map Player.frame) :
    g'.dealerIdx = g.dealerIdx := by
  have key : ∀ l : List Player, (l.reverse.find? (·.posDealer)).map (·.idx) =
      ((l.map Player.frame).reverse.find? (fun f => f.1.2.1)).map (fun f => f.1.1) := by
    intro l
    rw [← List.map_reverse, List.find?_map]
    simp [Function.comp_def, Player.frame, Option.map_map]
  unfold Game.dealerIdx Game.dealerIdx?
  rw [key, key, h]

theorem NoChip.dealerIdx {g g' : Game} (h : NoChip g g') : g'.dealerIdx = g.dealerIdx :=
  dealerIdx_congr h.frame

theorem posBB_congr {g g' : Game} (h : g'.players.map Player.frame = g.players.map Player.frame) (j : Nat) :
    (g'.players[j]?).map (·.posBB) = (g.players[j]?).map (·.posBB) := by
  have := congrArg (fun l => (l[j]?).map (fun f : (Nat × Bool × Bool × Bool) × (Int × Int × Int × Int × Int) => f.1.2.2.2)) h
  simpa [List.getElem?_map, Option.map_map, Function.comp_def, Player.frame] using this

/-- the state in which `ready` opens a betting round -/
theorem ready_opens (g : Game) (he : g.event = .readyRequested) (hr : g.round ≠ .none) :
    (g.step .ready).1 = g.resetAllAllowed.resetAllAllowed.startRound' := by
  simp [Game.step, Game.readyForAll, he, Game.readiness, Game.startRound]
  have : g.resetAllAllowed.round = g.round := rfl
  simp [this, hr]

end Pokerface
