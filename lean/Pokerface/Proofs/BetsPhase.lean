import Pokerface.Proofs.Forced
import Pokerface.Proofs.BetsMono
/-
  A small phase invariant: the ante is only ever requested before the first round of the hand,
  with the wager to match at 0.  Used to state `cw_monotone` "within a round" for reachable states.
-/
namespace Pokerface
open Game

/-- (1) the ante is requested only before any round, with nothing to match;
    (2) before any round the hand waits for `ReadyForAll` or for the ante, with nothing to match -/
structure Phase (g : Game) : Prop where
  ante : g.event = .anteRequested → g.round = .none ∧ g.cw = 0
  none : g.round = .none → g.cw = 0 ∧ (g.event = .readyRequested ∨ g.event = .anteRequested)

/-! ### events after the chain functions -/

theorem prepareRound_event (g : Game) : g.prepareRound.event = .readyRequested ∨ g.prepareRound.event = .roundClosed := by
  unfold Game.prepareRound
  split
  · exact Or.inl rfl
  · split
    · exact Or.inr rfl
    · exact Or.inl rfl

theorem requestBlinds_event_ne (g : Game) : g.requestBlinds.event ≠ .anteRequested := by
  unfold Game.requestBlinds
  split
  · rcases prepareRound_event (g.setEvent .blindsPaid) with h | h <;> rw [h] <;> simp
  · show Ev.blindsRequested ≠ _; simp

theorem enterRound_event_ne (g : Game) (r : Round) : (g.enterRound r).event ≠ .anteRequested := by
  unfold Game.enterRound Game.initializeRound Game.afterRoundInitialized
  split
  · exact requestBlinds_event_ne _
  · rcases prepareRound_event ((((g.setRound r).dealStreet.updateCombinations).setEvent .roundInitialized)) with h | h <;>
      rw [h] <;> simp

theorem requestPlayerAction_event (g : Game) :
    g.requestPlayerAction.event = g.event ∨ g.requestPlayerAction.event = .roundClosed := by
  unfold Game.requestPlayerAction
  split
  · exact Or.inr rfl
  · split
    · exact Or.inr rfl
    · split
      · exact Or.inl rfl
      · split
        · exact Or.inr rfl
        · exact Or.inl rfl

theorem requestPlayerAction_round (g : Game) : g.requestPlayerAction.round = g.round := by
  unfold Game.requestPlayerAction
  split
  · rfl
  · split
    · rfl
    · split
      · rfl
      · split <;> rfl

theorem resume_event_ne (g : Game) (h : g.event ≠ .anteRequested) : g.resume.event ≠ .anteRequested := by
  unfold Game.resume
  split
  · rename_i he
    rcases requestPlayerAction_event g with h1 | h1 <;> rw [h1]
    · exact h
    · simp
  · show Ev.roundClosed ≠ _; simp
  · exact h

theorem resume_round (g : Game) : g.resume.round = g.round := by
  unfold Game.resume
  split
  · exact requestPlayerAction_round g
  · rfl
  · rfl

theorem seekBB_round : ∀ (k : Nat) (g : Game), (seekBB k g).round = g.round
  | 0, _ => rfl
  | k + 1, g => by
    unfold Game.seekBB
    split
    · split
      · rfl
      · rw [seekBB_round k]; rfl
    · rfl

theorem openRound_round (g : Game) : g.openRound.round = g.round := by
  unfold Game.openRound; rw [requestPlayerAction_round]; rfl

theorem openRound_event_ne (g : Game) : g.openRound.event ≠ .anteRequested := by
  unfold Game.openRound
  rcases requestPlayerAction_event (g.setEvent .roundStarted) with h | h <;> rw [h]
  · show Ev.roundStarted ≠ _; simp
  · simp

theorem startRound_round (g : Game) : g.startRound.round = g.round := by
  unfold Game.startRound Game.startRound'
  split
  · split
    · rfl
    · rw [openRound_round, seekBB_round]; rfl
  · rw [openRound_round]; rfl

theorem startRound_event_ne (g : Game) : g.startRound.event ≠ .anteRequested := by
  unfold Game.startRound Game.startRound'
  split
  · split
    · show Ev.roundClosed ≠ _; simp
    · exact openRound_event_ne _
  · exact openRound_event_ne _

/-! ### player actions keep the street and never produce `AnteRequested` -/

theorem pay_round (g : Game) (i : Nat) (c : Int) (w : Bool) : (g.pay i c w).round = g.round := (soft_pay g i c w).round

theorem act_round_event (g : Game) (i : Nat) (a : Act) (x : Int) (h : g.event ≠ .anteRequested) :
    (g.act i a x).1.round = g.round ∧ (g.act i a x).1.event ≠ .anteRequested := by
  have key : ∀ X : Game, X.round = g.round → X.event = g.event →
      X.resume.round = g.round ∧ X.resume.event ≠ .anteRequested :=
    fun X h1 h2 => ⟨(resume_round X).trans h1, resume_event_ne X (by rw [h2]; exact h)⟩
  have hcall : (g.doCall i).round = g.round ∧ (g.doCall i).event ≠ .anteRequested := by
    unfold Game.doCall
    split
    · exact ⟨rfl, h⟩
    · exact key _ (pay_round _ _ _ _) (pay_event _ _ _ _)
  have hallin : (g.doAllin i).round = g.round ∧ (g.doAllin i).event ≠ .anteRequested := by
    unfold Game.doAllin
    split
    · exact ⟨rfl, h⟩
    · refine key _ ((pay_round _ _ _ _).trans ?_) ((pay_event _ _ _ _).trans ?_) <;> split <;> rfl
  unfold Game.act
  cases a <;> simp only
  · split
    · exact ⟨rfl, h⟩
    · exact key _ rfl rfl
  · split
    · exact ⟨rfl, h⟩
    · unfold Game.doFold; exact key _ rfl rfl
  · split
    · exact ⟨rfl, h⟩
    · exact key _ rfl rfl
  · split
    · exact ⟨rfl, h⟩
    · exact hcall
  · split
    · exact ⟨rfl, h⟩
    · exact hallin
  · split
    · exact ⟨rfl, h⟩
    · split
      · exact ⟨rfl, h⟩
      · unfold Game.doBet
        exact key _ (pay_round (g.setActed i) i x true) (pay_event (g.setActed i) i x true)
  · split
    · exact ⟨rfl, h⟩
    · split
      · exact ⟨rfl, h⟩
      · split
        · split
          · exact ⟨rfl, h⟩
          · exact hcall
        · split
          · exact ⟨rfl, h⟩
          · split
            · split
              · exact ⟨rfl, h⟩
              · exact hallin
            · unfold Game.doRaise
              simp only
              exact key _ (pay_round _ _ _ _) (pay_event _ _ _ _)
  · split
    · exact ⟨rfl, h⟩
    · exact key _ (pay_round _ _ _ _) (pay_event _ _ _ _)

end Pokerface

namespace Pokerface
open Game

theorem Phase.of_later {g : Game} (h1 : g.round ≠ .none) (h2 : g.event ≠ .anteRequested) : Phase g :=
  ⟨fun h => absurd h h2, fun h => absurd h h1⟩

theorem pay_false_round_event (g : Game) (i : Nat) (c : Int) :
    (g.pay i c false).round = g.round ∧ (g.pay i c false).event = g.event :=
  ⟨pay_round g i c false, pay_event g i c false⟩

theorem payAnteLoop_round_event : ∀ (is : List Nat) (g : Game),
    (payAnteLoop is g).1.round = g.round ∧ (payAnteLoop is g).1.event = g.event
  | [], _ => ⟨rfl, rfl⟩
  | i :: is, g => by
    unfold Game.payAnteLoop
    split
    · exact ⟨rfl, rfl⟩
    · split
      · exact ⟨rfl, rfl⟩
      · obtain ⟨h1, h2⟩ := payAnteLoop_round_event is (g.pay i g.opts.ante false)
        exact ⟨h1.trans (pay_round _ _ _ _), h2.trans (pay_event _ _ _ _)⟩

theorem phase_payAnte (g : Game) (hp : Phase g) : Phase g.payAnte.1 := by
  unfold Game.payAnte
  split
  · exact hp
  · split
    · exact hp
    · rename_i he
      have he' : g.event = .anteRequested := by simpa using he
      obtain ⟨hr, hc⟩ := hp.ante he'
      obtain ⟨l1, l2⟩ := payAnteLoop_round_event g.seatsFromDealer g
      have l3 := payAnteLoop_cw g.seatsFromDealer g
      split
      · rename_i g' e heq
        have e1 : g' = (payAnteLoop g.seatsFromDealer g).1 := by rw [heq]
        show Phase g'
        rw [e1]
        exact ⟨fun _ => ⟨l1.trans hr, l3.trans hc⟩, fun _ => ⟨l3.trans hc, Or.inr (l2.trans he')⟩⟩
      · rename_i g' heq
        show Phase g'.antePaid
        refine Phase.of_later (by rw [antePaid_round]; simp) ?_
        rw [antePaid_eq]; exact enterRound_event_ne _ _

theorem phase_readyForAll (g : Game) (hp : Phase g) : Phase g.readyForAll.1 := by
  unfold Game.readyForAll
  split
  · exact hp
  · rename_i he
    have he' : g.event = .readyRequested := by simpa using he
    unfold Game.readiness
    split
    · rename_i hr
      have hr' : g.round = .none := hr
      obtain ⟨hc, _⟩ := hp.none hr'
      split
      · exact ⟨fun _ => ⟨hr', hc⟩, fun _ => ⟨hc, Or.inr rfl⟩⟩
      · exact Phase.of_later (by rw [enterRound_round]; simp) (enterRound_event_ne _ _)
    · rename_i hr
      exact Phase.of_later (by rw [startRound_round]; exact hr) (startRound_event_ne _)

theorem phase_payBlinds (g : Game) (hp : Phase g) : Phase g.payBlinds.1 := by
  unfold Game.payBlinds
  split
  · exact hp
  · rename_i he
    have he' : g.event = .blindsRequested := by simpa using he
    have hr : g.round ≠ .none := by
      intro h
      rcases (hp.none h).2 with h1 | h1 <;> rw [he'] at h1 <;> cases h1
    show Phase (Game.blindsPaid _)
    have hfr := (foldl_payBlind_soft g.seatsFromDealer g).round
    unfold Game.blindsPaid
    refine Phase.of_later ?_ ?_
    · rw [prepareRound_round]
      show (g.seatsFromDealer.foldl payBlind g).round ≠ .none
      rw [hfr]; exact hr
    · rcases prepareRound_event ((((g.seatsFromDealer.foldl payBlind g).setPrev _).resetAllAllowed).setEvent .blindsPaid)
        with h | h <;> rw [h] <;> simp

theorem phase_next (g : Game) (hp : Phase g) : Phase g.next.1 := by
  unfold Game.next
  split
  · exact hp
  · split
    · exact hp
    · rename_i hr
      unfold Game.nextRound Game.nextRound'
      have hr1 : g.resetRoundStatus.resetAllPlayerStatus.round = g.round := rfl
      split
      · exact Phase.of_later (by show g.round ≠ .none; exact hr) (by show Ev.gameClosed ≠ _; simp)
      · split
        · exact Phase.of_later (by rw [enterRound_round]; simp) (enterRound_event_ne _ _)
        · exact Phase.of_later (by rw [enterRound_round]; simp) (enterRound_event_ne _ _)
        · exact Phase.of_later (by rw [enterRound_round]; simp) (enterRound_event_ne _ _)
        · exact Phase.of_later (by show g.round ≠ .none; exact hr) (by show Ev.gameClosed ≠ _; simp)
        · rename_i h; rw [hr1] at h; exact absurd h hr

theorem phase_act (g : Game) (hi : Inv g) (hp : Phase g) (i : Nat) (a : Act) (x : Int) : Phase (g.act i a x).1 := by
  by_cases hr : g.round = .none
  · -- nobody is offered anything before the first round: refused without effect
    have hne : g.event ≠ .roundStarted := by
      rcases (hp.none hr).2 with h | h <;> rw [h] <;> simp
    have hn : NoneAllowed g := by
      have := hi.post.allowed; simpa [hne] using this
    rw [act_refused_of_noneAllowed hn]; exact hp
  · have he : g.event ≠ .anteRequested := fun h => hr (hp.ante h).1
    obtain ⟨h1, h2⟩ := act_round_event g i a x he
    exact Phase.of_later (by rw [h1]; exact hr) h2

theorem phase_step (g : Game) (hi : Inv g) (hp : Phase g) (op : Op) : Phase (g.step op).1 := by
  unfold Game.step
  cases op with
  | ready => exact phase_readyForAll g hp
  | payAnte => exact phase_payAnte g hp
  | payBlinds => exact phase_payBlinds g hp
  | next => exact phase_next g hp
  | act seat a x =>
    cases seat with
    | none => exact phase_act g hi hp _ a x
    | some i => exact phase_act g hi hp i a x

theorem phase_run : ∀ (ops : List Op) (g : Game), Inv g → Phase g → Phase (g.run ops)
  | [], _, _, hp => hp
  | op :: ops, g, hi, hp => phase_run ops _ (inv_step g hi op) (phase_step g hi hp op)

theorem phase_reachable {g : Game} (h : Reachable g) : Phase g := by
  obtain ⟨c, ops, wf, hs, rfl⟩ := h
  obtain ⟨hpre, hev, hrd⟩ := pre_start c hs
  exact phase_run ops _ (inv_start c wf hs) ⟨fun h => (by rw [hev] at h; cases h), fun _ => ⟨hpre.cw, Or.inl hev⟩⟩

/-- `PayAnte()`: either the wager to match is untouched, or the hand was waiting for the ante and the
    preflop round is opened with the wager to match at 0 -/
theorem payAnte_cw' (g : Game) :
    g.payAnte.1.cw = g.cw ∨ (g.event = .anteRequested ∧ g.payAnte.1.cw = 0 ∧ g.payAnte.1.round = .preflop) := by
  unfold Game.payAnte
  split
  · exact Or.inl rfl
  · split
    · exact Or.inl rfl
    · rename_i he
      split
      · rename_i g' e heq
        left
        have : g' = (payAnteLoop g.seatsFromDealer g).1 := by rw [heq]
        show g'.cw = g.cw
        rw [this, payAnteLoop_cw]
      · right
        exact ⟨by simpa using he, antePaid_cw _, antePaid_round _⟩

end Pokerface
