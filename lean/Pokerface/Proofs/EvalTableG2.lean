import Pokerface.Proofs.EvalTable
/-! C03, step (i), group 2 of 8: kernel evaluation of the class check. -/
namespace Pokerface.C03

theorem nfGroup_2 : nfGroup 2 = true := by decide +kernel

end Pokerface.C03
