import Pokerface.Proofs.CombosGosper
/-
  C10, part 2: the enumerated selections are exactly the admissible ones.
-/
namespace Pokerface

/-- The sub-list of `cards` picked by the one-bits of `v` (bit `i` ↔ position `i`). -/
def selectByMask {α : Type} : Nat → List α → List α
  | _, [] => []
  | v, c :: cs => if v % 2 = 1 then c :: selectByMask (v / 2) cs else selectByMask (v / 2) cs

theorem bit_shift_succ (v i : Nat) : ((v >>> (i + 1)) &&& 1 == 1) = (((v / 2) >>> i) &&& 1 == 1) := by
  rw [Nat.shiftRight_succ_inside]

theorem binaryOnesPositions_succ (v n : Nat) :
    binaryOnesPositions v (n + 1) =
      (if v % 2 = 1 then [0] else []) ++ (binaryOnesPositions (v / 2) n).map (· + 1) := by
  simp only [binaryOnesPositions, List.range_succ_eq_map, List.filter_cons, List.filter_map]
  have h0 : ((v >>> 0) &&& 1 == 1) = decide (v % 2 = 1) := by
    rw [Nat.shiftRight_zero, Nat.and_one_is_mod]
    by_cases h : v % 2 = 1 <;> simp [h]
  have hf : ((fun i => (v >>> i) &&& 1 == 1) ∘ Nat.succ) = (fun i => ((v / 2) >>> i) &&& 1 == 1) := by
    funext i; exact bit_shift_succ v i
  rw [h0, hf]
  by_cases h : v % 2 = 1 <;> simp [h]

theorem map_positions_eq_select {α : Type} [Inhabited α] :
    ∀ (cards : List α) (v : Nat),
      (binaryOnesPositions v cards.length).map (fun p => cards[p]!) = selectByMask v cards
  | [], v => by simp [binaryOnesPositions, selectByMask]
  | c :: cs, v => by
    rw [List.length_cons, binaryOnesPositions_succ, selectByMask, List.map_append, List.map_map]
    have ih := map_positions_eq_select cs (v / 2)
    have hc : ((fun p => (c :: cs)[p]!) ∘ fun x => x + 1) = fun p => cs[p]! := by
      funext p; simp
    rw [hc, ih]
    by_cases h : v % 2 = 1 <;> simp [h]

theorem selectByMask_sublist {α : Type} : ∀ (cards : List α) (v : Nat), (selectByMask v cards).Sublist cards
  | [], _ => by simp [selectByMask]
  | c :: cs, v => by
    rw [selectByMask]
    split
    · exact (selectByMask_sublist cs _).cons_cons c
    · exact (selectByMask_sublist cs _).cons c

theorem testBit_eq_and (v i : Nat) : v.testBit i = ((v >>> i) &&& 1 == 1) := by
  rw [Nat.testBit, Nat.and_comm, Nat.and_one_is_mod]
  have : (v >>> i) % 2 = 0 ∨ (v >>> i) % 2 = 1 := by omega
  rcases this with h | h <;> simp [h]

theorem bitCount_eq (v n : Nat) : bitCount v n = (binaryOnesPositions v n).length := by
  simp only [bitCount, binaryOnesPositions]
  congr 2
  funext i
  exact testBit_eq_and v i

theorem length_selectByMask {α : Type} [Inhabited α] (cards : List α) (v : Nat) :
    (selectByMask v cards).length = bitCount v cards.length := by
  rw [← map_positions_eq_select, List.length_map, bitCount_eq]

theorem exists_mask_of_sublist {α : Type} {s cards : List α} (h : s.Sublist cards) :
    ∃ v, v < 2 ^ cards.length ∧ selectByMask v cards = s := by
  induction h with
  | slnil => exact ⟨0, by simp, rfl⟩
  | @cons l₁ l₂ a _ ih =>
    obtain ⟨v, hv, hs⟩ := ih
    refine ⟨2 * v, ?_, ?_⟩
    · rw [List.length_cons, Nat.pow_succ]; omega
    · rw [selectByMask]
      have h2 : 2 * v / 2 = v := by omega
      simp [h2, hs]
  | @cons_cons l₁ l₂ a _ ih =>
    obtain ⟨v, hv, hs⟩ := ih
    refine ⟨2 * v + 1, ?_, ?_⟩
    · rw [List.length_cons, Nat.pow_succ]; omega
    · rw [selectByMask]
      have h1 : (2 * v + 1) % 2 = 1 := by omega
      have h2 : (2 * v + 1) / 2 = v := by omega
      simp [h1, h2, hs]

theorem gospersHack_eq {n k : Nat} (hn : n ≤ 9) (hk : 0 < k) (hkn : k ≤ n) :
    gospersHack k n = wordsOfWeight k n := by
  have h := gospersCheck_of_le hn hk hkn
  simp only [gospersCheck, Bool.and_eq_true] at h
  exact eq_of_beq h.1

theorem mem_wordsOfWeight {k n v : Nat} : v ∈ wordsOfWeight k n ↔ v < 2 ^ n ∧ bitCount v n = k := by
  simp [wordsOfWeight, List.mem_filter]

/-- `GetPossibleCombinations`: for `0 < n` and at most 9 cards, the result consists exactly of the
    sub-lists of `cards` (same relative order) with `min n |cards|` elements. -/
theorem mem_possibleCombinations {α : Type} [Inhabited α] {cards : List α} {n : Nat}
    (hn : 0 < n) (hlen : cards.length ≤ 9) (s : List α) :
    s ∈ possibleCombinations cards n ↔ s.Sublist cards ∧ s.length = min n cards.length := by
  unfold possibleCombinations
  split
  · next hle =>
    rw [List.mem_singleton, Nat.min_eq_right hle]
    constructor
    · rintro rfl; exact ⟨List.Sublist.refl _, rfl⟩
    · rintro ⟨hs, hl⟩; exact hs.eq_of_length hl
  · next hlt =>
    have hlt : n < cards.length := by omega
    rw [gospersHack_eq hlen hn (by omega), Nat.min_eq_left (by omega)]
    simp only [List.mem_map, mem_wordsOfWeight, map_positions_eq_select]
    constructor
    · rintro ⟨v, ⟨_, hb⟩, rfl⟩
      exact ⟨selectByMask_sublist _ _, by rw [length_selectByMask, hb]⟩
    · rintro ⟨hs, hl⟩
      obtain ⟨v, hv, rfl⟩ := exists_mask_of_sublist hs
      exact ⟨v, ⟨hv, by rw [← length_selectByMask, hl]⟩, rfl⟩

theorem possibleCombinations_ne_nil {α : Type} [Inhabited α] {cards : List α} {n : Nat}
    (hn : 0 < n) (hlen : cards.length ≤ 9) : possibleCombinations cards n ≠ [] := by
  have : cards.take n ∈ possibleCombinations cards n := by
    rw [mem_possibleCombinations hn hlen]
    exact ⟨List.take_sublist _ _, List.length_take⟩
  exact List.ne_nil_of_mem this

/-! ### Each selection occurs once (for distinct cards) -/

theorem selectByMask_inj {α : Type} : ∀ (cards : List α), cards.Nodup → ∀ (v w : Nat),
    v < 2 ^ cards.length → w < 2 ^ cards.length → selectByMask v cards = selectByMask w cards → v = w
  | [], _, v, w, hv, hw, _ => by simp at hv hw; omega
  | c :: cs, hnd, v, w, hv, hw, h => by
    have ⟨hc, hcs⟩ := List.nodup_cons.mp hnd
    rw [List.length_cons, Nat.pow_succ] at hv hw
    have ih := selectByMask_inj cs hcs (v / 2) (w / 2) (by omega) (by omega)
    rw [selectByMask, selectByMask] at h
    have hsub : ∀ u, c ∉ selectByMask u cs := fun u hm => hc ((selectByMask_sublist cs u).subset hm)
    by_cases h1 : v % 2 = 1 <;> by_cases h2 : w % 2 = 1 <;> simp only [h1, h2, if_true, if_false] at h
    · have := ih (List.cons.inj h).2; omega
    · exact absurd (h ▸ List.mem_cons_self ..) (hsub _)
    · exact absurd (h ▸ List.mem_cons_self ..) (hsub _)
    · have := ih h; omega

theorem nodup_wordsOfWeight (k n : Nat) : (wordsOfWeight k n).Nodup := by
  have : (wordsOfWeight k n).Pairwise (· < ·) := List.Pairwise.filter _ List.pairwise_lt_range
  exact this.imp (fun h => Nat.ne_of_lt h)

/-- For pairwise distinct cards no selection is enumerated twice. -/
theorem nodup_possibleCombinations {α : Type} [Inhabited α] {cards : List α} {n : Nat}
    (hn : 0 < n) (hlen : cards.length ≤ 9) (hnd : cards.Nodup) : (possibleCombinations cards n).Nodup := by
  unfold possibleCombinations
  split
  · simp
  · next hlt =>
    rw [gospersHack_eq hlen hn (by omega)]
    simp only [map_positions_eq_select]
    rw [List.Nodup, List.pairwise_map]
    apply (nodup_wordsOfWeight n cards.length).imp_of_mem
    intro a b ha hb hab heq
    exact hab (selectByMask_inj cards hnd a b (mem_wordsOfWeight.mp ha).1 (mem_wordsOfWeight.mp hb).1 heq)

theorem nodup_allPossibleCombinations {α : Type} [Inhabited α] {board hole : List α} {req : Nat}
    (hreq : req < 5) (hh : hole.length ≤ 9) (hb : board.length ≤ 9)
    (hall : req = 0 → hole.length + board.length ≤ 9) (hnd : (hole ++ board).Nodup) :
    (allPossibleCombinations board hole req).Nodup := by
  unfold allPossibleCombinations
  split
  · next h0 => exact nodup_possibleCombinations (by omega) (by simpa using hall h0) hnd
  · next h0 =>
    have hndh : hole.Nodup := (List.nodup_append.mp hnd).1
    have hndb : board.Nodup := (List.nodup_append.mp hnd).2.1
    have hH := nodup_possibleCombinations (n := req) (by omega) hh hndh
    have hB := nodup_possibleCombinations (n := 5 - req) (by omega) hb hndb
    rw [List.Nodup, List.pairwise_flatMap]
    constructor
    · intro hs _
      rw [List.pairwise_map]
      exact hB.imp (fun hne heq => hne (List.append_cancel_left heq))
    · apply hH.imp_of_mem
      intro a b ha hb' hab x hx y hy hxy
      obtain ⟨b1, _, rfl⟩ := List.mem_map.mp hx
      obtain ⟨b2, _, rfl⟩ := List.mem_map.mp hy
      have la := ((mem_possibleCombinations (by omega) hh a).mp ha).2
      have lb := ((mem_possibleCombinations (by omega) hh b).mp hb').2
      exact hab (List.append_inj hxy (by rw [la, lb])).1

/-- The counts the repository's own test checks (21 and 60), for any cards. -/
theorem length_allPossibleCombinations_any {α : Type} [Inhabited α] {board hole : List α}
    (h : hole.length + board.length = 7) : (allPossibleCombinations board hole 0).length = 21 := by
  simp only [allPossibleCombinations, possibleCombinations, if_true, List.length_append, h]
  have : ¬ (7 ≤ 5) := by omega
  simp only [this, if_false, List.length_map]
  decide

theorem length_allPossibleCombinations_two_of_four {α : Type} [Inhabited α] {board hole : List α}
    (hh : hole.length = 4) (hb : board.length = 5) : (allPossibleCombinations board hole 2).length = 60 := by
  have h1 : (possibleCombinations hole 2).length = 6 := by
    simp only [possibleCombinations, hh, show ¬ (4 ≤ 2) by omega, if_false, List.length_map]; decide
  have h2 : (possibleCombinations board (5 - 2)).length = 10 := by
    simp only [possibleCombinations, hb, show ¬ (5 ≤ 5 - 2) by omega, if_false, List.length_map]; decide
  simp only [allPossibleCombinations, show (2 : Nat) ≠ 0 by omega, if_false, List.length_flatMap,
    List.length_map, h2]
  rw [List.map_const', List.sum_replicate_nat, h1]

/-- Specification-level: `s` is an admissible five-card selection for a player holding `hole`
    on `board` under the rule "exactly `req` hole cards" (`req = 0`: any five of the seven).
    When fewer cards are available than asked for, all available ones are taken
    (this is what makes the pre-flop / flop "hands" of fewer than five cards). -/
def Admissible {α : Type} (board hole : List α) (req : Nat) (s : List α) : Prop :=
  if req = 0 then s.Sublist (hole ++ board) ∧ s.length = min 5 (hole.length + board.length)
  else ∃ hs bs, s = hs ++ bs ∧ hs.Sublist hole ∧ hs.length = min req hole.length ∧
         bs.Sublist board ∧ bs.length = min (5 - req) board.length

/-- `GetAllPossibleCombinations` enumerates exactly the admissible selections. -/
theorem mem_allPossibleCombinations {α : Type} [Inhabited α] {board hole : List α} {req : Nat}
    (hreq : req < 5) (hh : hole.length ≤ 9) (hb : board.length ≤ 9)
    (hall : req = 0 → hole.length + board.length ≤ 9) (s : List α) :
    s ∈ allPossibleCombinations board hole req ↔ Admissible board hole req s := by
  unfold allPossibleCombinations Admissible
  split
  · next h0 =>
    rw [mem_possibleCombinations (by omega) (by simpa using hall h0), List.length_append]
  · next h0 =>
    simp only [List.mem_flatMap, List.mem_map]
    constructor
    · rintro ⟨hs, hhs, bs, hbs, rfl⟩
      rw [mem_possibleCombinations (by omega) hh] at hhs
      rw [mem_possibleCombinations (by omega) hb] at hbs
      exact ⟨hs, bs, rfl, hhs.1, hhs.2, hbs.1, hbs.2⟩
    · rintro ⟨hs, bs, rfl, h1, h2, h3, h4⟩
      exact ⟨hs, (mem_possibleCombinations (by omega) hh _).mpr ⟨h1, h2⟩,
             bs, (mem_possibleCombinations (by omega) hb _).mpr ⟨h3, h4⟩, rfl⟩

theorem allPossibleCombinations_ne_nil {α : Type} [Inhabited α] {board hole : List α} {req : Nat}
    (hreq : req < 5) (hh : hole.length ≤ 9) (hb : board.length ≤ 9)
    (hall : req = 0 → hole.length + board.length ≤ 9) : allPossibleCombinations board hole req ≠ [] := by
  unfold allPossibleCombinations
  split
  · next h0 => exact possibleCombinations_ne_nil (by omega) (by simpa using hall h0)
  · next h0 =>
    have h1 := possibleCombinations_ne_nil (cards := hole) (n := req) (by omega) hh
    have h2 := possibleCombinations_ne_nil (cards := board) (n := 5 - req) (by omega) hb
    obtain ⟨a, ha⟩ := List.exists_mem_of_ne_nil _ h1
    obtain ⟨b, hb'⟩ := List.exists_mem_of_ne_nil _ h2
    apply List.ne_nil_of_mem (a := a ++ b)
    simp only [List.mem_flatMap, List.mem_map]
    exact ⟨a, ha, b, hb', rfl⟩

/-- An admissible selection is made of the player's own hole cards and the board. -/
theorem Admissible.sublist {α : Type} {board hole : List α} {req : Nat} {s : List α}
    (h : Admissible board hole req s) : s.Sublist (hole ++ board) := by
  unfold Admissible at h
  split at h
  · exact h.1
  · obtain ⟨hs, bs, rfl, h1, _, h3, _⟩ := h
    exact h1.append h3

/-- With enough cards available an admissible selection has exactly five cards. -/
theorem Admissible.length_eq_five {α : Type} {board hole : List α} {req : Nat} {s : List α}
    (h : Admissible board hole req s) (hreq : req ≤ 5) (hh : req ≤ hole.length)
    (hb : 5 - req ≤ board.length) : s.length = 5 := by
  unfold Admissible at h
  split at h
  · rw [h.2]; omega
  · obtain ⟨hs, bs, rfl, _, h2, _, h4⟩ := h
    rw [List.length_append, h2, h4]; omega

end Pokerface
