/-
  Structural lemmas for the regulator model: table views, the abstract effect
  of callbacks on the (id, count) view, well-formedness.
-/
import Pokerface.Model.RegulatorEnv
import Pokerface.Proofs.RegArith

namespace Pokerface
namespace Reg

/-! ### views -/

/-- the regulator's (id, PlayerCount) sheet, in creation order -/
def tview (ts : List RTable) : List (Nat × Int) := ts.map fun t => (t.id, t.count)

def sumTV (tv : List (Nat × Int)) : Int := (tv.map (·.2)).sum

def sumCount (ts : List RTable) : Int := (ts.map (·.count)).sum

theorem sumCount_eq (ts : List RTable) : sumCount ts = sumTV (tview ts) := by
  simp [sumCount, sumTV, tview, List.map_map, Function.comp_def]

theorem tview_fst (ts : List RTable) : (tview ts).map (·.1) = ts.map (·.id) := by
  simp [tview, List.map_map, Function.comp_def]

/-- effect of one callback on the sheet -/
def applyTV (tv : List (Nat × Int)) : RCall → List (Nat × Int)
  | .requestTable id ps => tv ++ [(id, (ps.length : Int))]
  | .assign t ps => tv.map fun e => if e.1 = t then (e.1, e.2 + (ps.length : Int)) else e

def applyTVs (tv : List (Nat × Int)) (cs : List RCall) : List (Nat × Int) := cs.foldl applyTV tv

/-- every `assign` names a table on the sheet, every `requestTable` a fresh id -/
def validCalls : List (Nat × Int) → List RCall → Prop
  | _, [] => True
  | tv, c :: cs =>
    (match c with
      | .assign t _ => t ∈ tv.map (·.1)
      | .requestTable id _ => id ∉ tv.map (·.1)) ∧ validCalls (applyTV tv c) cs

@[simp] theorem applyTVs_nil (tv) : applyTVs tv [] = tv := rfl
@[simp] theorem applyTVs_cons (tv c cs) : applyTVs tv (c :: cs) = applyTVs (applyTV tv c) cs := rfl
theorem applyTVs_append (tv a b) : applyTVs tv (a ++ b) = applyTVs (applyTVs tv a) b := by
  simp [applyTVs, List.foldl_append]

theorem validCalls_append (tv a b) :
    validCalls tv (a ++ b) ↔ validCalls tv a ∧ validCalls (applyTVs tv a) b := by
  induction a generalizing tv with
  | nil => simp [validCalls]
  | cons c cs ih => simp [validCalls, ih, and_assoc]

@[simp] theorem handed_nil : handed [] = [] := rfl
theorem handed_append (a b : List RCall) : handed (a ++ b) = handed a ++ handed b := by
  simp [handed]
@[simp] theorem handed_single (c : RCall) : handed [c] = c.players := by simp [handed]

/-- bumping the count of table `id` by `d` -/
def bump (id : Nat) (d : Int) (tv : List (Nat × Int)) : List (Nat × Int) :=
  tv.map fun e => if e.1 = id then (e.1, e.2 + d) else e

theorem bump_fst (id d tv) : (bump id d tv).map (·.1) = tv.map (·.1) := by
  induction tv with
  | nil => rfl
  | cons e tv ih =>
    simp only [bump, List.map_cons] at ih ⊢
    rw [ih]; split <;> rfl

theorem bump_of_not_mem (id d) (tv : List (Nat × Int)) (h : id ∉ tv.map (·.1)) : bump id d tv = tv := by
  induction tv with
  | nil => rfl
  | cons e tv ih =>
    simp only [List.map_cons, List.mem_cons, not_or] at h
    simp only [bump, List.map_cons] at ih ⊢
    rw [ih h.2, if_neg (fun hh => h.1 hh.symm)]

theorem sumTV_cons (e : Nat × Int) (tv) : sumTV (e :: tv) = e.2 + sumTV tv := by simp [sumTV]

theorem sumTV_append (a b) : sumTV (a ++ b) = sumTV a + sumTV b := by simp [sumTV, List.sum_append]

theorem sumTV_bump (id d) (tv : List (Nat × Int)) (hn : (tv.map (·.1)).Nodup) (hm : id ∈ tv.map (·.1)) :
    sumTV (bump id d tv) = sumTV tv + d := by
  induction tv with
  | nil => simp at hm
  | cons e tv ih =>
    simp only [List.map_cons, List.nodup_cons] at hn
    simp only [List.map_cons, List.mem_cons] at hm
    by_cases he : e.1 = id
    · have hnot : id ∉ tv.map (·.1) := he ▸ hn.1
      have : bump id d (e :: tv) = (e.1, e.2 + d) :: bump id d tv := by simp [bump, he]
      rw [this, bump_of_not_mem id d tv hnot, sumTV_cons, sumTV_cons]; simp; omega
    · have hm' : id ∈ tv.map (·.1) := by
        rcases hm with h | h
        · exact absurd h.symm he
        · exact h
      have : bump id d (e :: tv) = e :: bump id d tv := by simp [bump, he]
      rw [this, sumTV_cons, sumTV_cons, ih hn.2 hm']; omega

theorem applyTV_assign (tv t ps) : applyTV tv (.assign t ps) = bump t ps.length tv := rfl

theorem applyTV_spec (tv : List (Nat × Int)) (c : RCall) (hn : (tv.map (·.1)).Nodup)
    (hv : validCalls tv [c]) :
    ((applyTV tv c).map (·.1)).Nodup ∧ sumTV (applyTV tv c) = sumTV tv + (c.players.length : Int) := by
  cases c with
  | requestTable id ps =>
    simp only [validCalls, and_true] at hv
    constructor
    · simp only [applyTV, List.map_append, List.map_cons, List.map_nil]
      rw [List.nodup_append]
      refine ⟨hn, by simp, ?_⟩
      intro a ha b hb
      simp at hb; subst hb
      intro h; subst h; exact hv ha
    · simp [applyTV, sumTV, RCall.players]
  | assign t ps =>
    simp only [validCalls, and_true] at hv
    constructor
    · rw [applyTV_assign, bump_fst]; exact hn
    · rw [applyTV_assign, sumTV_bump t _ tv hn hv]; rfl

theorem applyTVs_spec (tv : List (Nat × Int)) (cs : List RCall) (hn : (tv.map (·.1)).Nodup)
    (hv : validCalls tv cs) :
    ((applyTVs tv cs).map (·.1)).Nodup ∧ sumTV (applyTVs tv cs) = sumTV tv + ((handed cs).length : Int) := by
  induction cs generalizing tv with
  | nil => simp [hn]
  | cons c cs ih =>
    have hv1 : validCalls tv [c] := ⟨hv.1, trivial⟩
    obtain ⟨h1, h2⟩ := applyTV_spec tv c hn hv1
    obtain ⟨h3, h4⟩ := ih (applyTV tv c) h1 hv.2
    refine ⟨h3, ?_⟩
    rw [applyTVs_cons, h4, h2]
    simp [handed]; omega

/-! ### the environment's side of the same callbacks -/

/-- the real (id, number of members) sheet -/
def mview (m : List (Nat × List Nat)) : List (Nat × Int) := m.map fun e => (e.1, (e.2.length : Int))

theorem mview_fst (m) : (mview m).map (·.1) = m.map (·.1) := by
  simp [mview, List.map_map, Function.comp_def]

theorem mview_applyCall (m c) : mview (Env.applyCall m c) = applyTV (mview m) c := by
  cases c with
  | requestTable id ps => simp [Env.applyCall, applyTV, mview]
  | assign t ps =>
    simp only [Env.applyCall, applyTV, mview, List.map_map]
    apply List.map_congr_left
    intro e _
    simp only [Function.comp]
    split <;> simp_all

theorem mview_applyCalls (m cs) : mview (Env.applyCalls m cs) = applyTVs (mview m) cs := by
  induction cs generalizing m with
  | nil => rfl
  | cons c cs ih =>
    show mview (Env.applyCalls (Env.applyCall m c) cs) = _
    rw [ih, mview_applyCall]; rfl

/-- all players seated in a membership sheet -/
def seatedOf (m : List (Nat × List Nat)) : List Nat := (m.map (·.2)).flatten

theorem seatedOf_length (m) : ((seatedOf m).length : Int) = sumTV (mview m) := by
  induction m with
  | nil => rfl
  | cons e m ih =>
    simp only [seatedOf, List.map_cons, List.flatten_cons, List.length_append] at ih ⊢
    simp only [mview, List.map_cons, sumTV_cons] at ih ⊢
    omega

theorem seatedOf_assign (m : List (Nat × List Nat)) (t : Nat) (ps : List Nat)
    (hn : (m.map (·.1)).Nodup) (hm : t ∈ m.map (·.1)) :
    (seatedOf (Env.applyCall m (.assign t ps))).Perm (seatedOf m ++ ps) := by
  induction m with
  | nil => simp at hm
  | cons e m ih =>
    simp only [List.map_cons, List.nodup_cons] at hn
    simp only [List.map_cons, List.mem_cons] at hm
    by_cases he : e.1 = t
    · have hnot : t ∉ m.map (·.1) := he ▸ hn.1
      have hrest : (m.map fun e => if e.1 = t then (e.1, e.2 ++ ps) else e) = m := by
        clear ih hn hm
        induction m with
        | nil => rfl
        | cons f m ih2 =>
          simp only [List.map_cons, List.mem_cons, not_or] at hnot
          simp only [List.map_cons]
          rw [ih2 hnot.2, if_neg (fun hh => hnot.1 hh.symm)]
      simp only [Env.applyCall, List.map_cons, if_pos he, hrest, seatedOf, List.flatten_cons]
      rw [List.append_assoc, List.append_assoc]
      exact List.Perm.append_left _ List.perm_append_comm
    · have hm' : t ∈ m.map (·.1) := by
        rcases hm with h | h
        · exact absurd h.symm he
        · exact h
      have := ih hn.2 hm'
      simp only [Env.applyCall, List.map_cons, if_neg he, seatedOf, List.flatten_cons] at this ⊢
      rw [List.append_assoc]
      exact List.Perm.append_left _ this

theorem seatedOf_applyCall (m : List (Nat × List Nat)) (c : RCall)
    (hn : (m.map (·.1)).Nodup) (hv : validCalls (mview m) [c]) :
    (seatedOf (Env.applyCall m c)).Perm (seatedOf m ++ c.players) := by
  cases c with
  | requestTable id ps => simp [Env.applyCall, seatedOf, RCall.players]
  | assign t ps =>
    simp only [validCalls, and_true, mview_fst] at hv
    exact seatedOf_assign m t ps hn hv

theorem seatedOf_applyCalls (m : List (Nat × List Nat)) (cs : List RCall)
    (hn : (m.map (·.1)).Nodup) (hv : validCalls (mview m) cs) :
    (seatedOf (Env.applyCalls m cs)).Perm (seatedOf m ++ handed cs) := by
  induction cs generalizing m with
  | nil => simp [Env.applyCalls]
  | cons c cs ih =>
    have hv1 : validCalls (mview m) [c] := ⟨hv.1, trivial⟩
    have h1 := seatedOf_applyCall m c hn hv1
    have hn' : ((Env.applyCall m c).map (·.1)).Nodup := by
      have := (applyTV_spec (mview m) c (by rw [mview_fst]; exact hn) hv1).1
      rwa [← mview_applyCall, mview_fst] at this
    have hv' : validCalls (mview (Env.applyCall m c)) cs := by rw [mview_applyCall]; exact hv.2
    have h2 := ih (Env.applyCall m c) hn' hv'
    show (seatedOf (Env.applyCalls (Env.applyCall m c) cs)).Perm _
    refine h2.trans ?_
    have : handed (c :: cs) = c.players ++ handed cs := by simp [handed]
    rw [this, ← List.append_assoc]
    exact List.Perm.append_right _ h1

end Reg
end Pokerface
