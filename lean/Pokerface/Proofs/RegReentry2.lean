/-
  RE-ENTRIES on the forward-only domains (C19, C20): `RSys.okReFwd` / `ReachableReFwd` and
  `ASys.okReFwd` / `AReachableReFwd` are `RSys.ok` / `Reachable` and `ASys.okFwd` /
  `AReachableFwd` with the freshness demand of a registration weakened from "never registered"
  to "not alive now" (Proofs/RegReentry.lean).  The invariants `SInv` and `AInvF` of the
  original proofs hold on the new domains as they stand; only their `add` step is re-proved.
  (`regmin : tables ≠ [] → min ≤ registered.length` stays an invariant: `registered` is the
  list of ACCEPTED REGISTRATIONS, in which a re-entered name occurs once per registration.)
-/
import Pokerface.Proofs.RegReentry
import Pokerface.Proofs.RegAsyncCapEnv
import Pokerface.Proofs.RegAsyncSettle

namespace Pokerface
open Reg

namespace RSys

/-- Validity of an operation, forward-only domain WITH RE-ENTRIES: exactly `RSys.ok`, except that
    the names of a registration need only not be those of players currently alive. -/
def okReFwd (s : RSys) : EOp → Prop
  | .add ps ch => s.okRe (.add ps ch)
  | .status st ch => s.ok (.status st ch)
  | .sync t elim stay rel keep ch => s.ok (.sync t elim stay rel keep ch)

instance (s : RSys) (op : EOp) : Decidable (s.okReFwd op) := by
  cases op <;> simp only [okReFwd] <;> infer_instance

theorem okRe_of_okReFwd {s : RSys} {op : EOp} (h : s.okReFwd op) : s.okRe op := by
  cases op with
  | add ps ch => exact h
  | status st ch => exact h.2
  | sync t elim stay rel keep ch => exact h

/-- States reachable from a fresh regulator with any setting `1 ≤ max` by operations valid in the
    sense `okReFwd` (the status only moves forward, re-entries allowed). -/
inductive ReachableReFwd : RSys → Prop
  | init (max min : Nat) (h1 : 1 ≤ max) : ReachableReFwd (init max min)
  | step {s : RSys} (op : EOp) : ReachableReFwd s → s.okReFwd op → ReachableReFwd (s.step op)

theorem ReachableReFwd.re {s : RSys} (h : ReachableReFwd s) : ReachableRe s := by
  induction h with
  | init max min h1 => exact .init max min h1
  | step op _ hok ih => exact .step op ih (okRe_of_okReFwd hok)

def allOkReFwd : RSys → List EOp → Prop
  | _, [] => True
  | s, op :: ops => s.okReFwd op ∧ allOkReFwd (s.step op) ops

instance decAllOkReFwd : (s : RSys) → (ops : List EOp) → Decidable (allOkReFwd s ops)
  | _, [] => isTrue trivial
  | s, op :: ops =>
    match (inferInstance : Decidable (s.okReFwd op)), decAllOkReFwd (s.step op) ops with
    | isTrue h1, isTrue h2 => isTrue ⟨h1, h2⟩
    | isFalse h1, _ => isFalse fun h => h1 h.1
    | _, isFalse h2 => isFalse fun h => h2 h.2

theorem ReachableReFwd.run {s : RSys} (h : ReachableReFwd s) :
    ∀ (ops : List EOp), allOkReFwd s ops → ReachableReFwd (s.run ops) := by
  intro ops
  induction ops generalizing s with
  | nil => intro _; exact h
  | cons op ops ih => intro hok; exact ih (ReachableReFwd.step op h hok.1) hok.2

/-- a script without registrations is valid with re-entries iff it is valid without -/
theorem allOk_of_allOkReFwd : ∀ (ops : List EOp) (s : RSys), s.allOkReFwd ops →
    (∀ op ∈ ops, ∀ ps ch, op ≠ .add ps ch) → s.allOk ops := by
  intro ops
  induction ops with
  | nil => intro _ _ _; trivial
  | cons op ops ih =>
    intro s hok hna
    refine ⟨?_, ih _ hok.2 (fun o ho => hna o (List.mem_cons_of_mem _ ho))⟩
    cases op with
    | add ps ch => exact absurd rfl (hna _ (List.mem_cons_self ..) ps ch)
    | status st ch => exact hok.1
    | sync t elim stay rel keep ch => exact hok.1

theorem allOk_of_allOkReFwd_quiet (ops : List EOp) (s : RSys) (h : s.allOkReFwd ops)
    (hq : ∀ op ∈ ops, quietOp op = true) : s.allOk ops :=
  allOk_of_allOkReFwd ops s h (fun op ho ps ch he => by
    have := hq op ho; rw [he] at this; cases this)

/-- the `add` step of `SInv` from "the new names are not alive" alone -/
theorem SInv.step_add_re {s : RSys} (h : SInv s) (ps ch : List Nat) (hok : s.okRe (.add ps ch)) :
    SInv (s.step (.add ps ch)) ∧ StepFacts s (.add ps ch) := by
  obtain ⟨hnd, hdisj, hbad⟩ := hok
  by_cases hs : s.r.status = .afterRegDeadline
  · have heq : s.r.addPlayers ps ch = (s.r.beginOp ch, some .afterRegDeadline) := by
      unfold Reg.addPlayers
      have : (s.r.beginOp ch).status = .afterRegDeadline := hs
      simp only [this, if_true]
    refine ⟨?_, ?_⟩
    · simp only [step, heq]
      exact ⟨h.rinv.beginOp ch, h.sim, h.cons, h.nodup, h.sub, h.lenle, h.regmin⟩
    · refine StepFacts.of_eq (r' := s.r.beginOp ch) (e' := s.env) (base := s.env.members) (inc := []) (ret := [])
        (by simp only [step, heq]) rfl (by simp only [incoming, heq]; rfl) rfl
        rfl rfl rfl trivial h.ids_nodup ?_ ?_ rfl ?_
      · intro id qs hm; simp [Reg.beginOp] at hm
      · simp [Reg.beginOp]
      · intro id qs hm; simp [Reg.beginOp] at hm
  · obtain ⟨he, hri, hx, hst, hpc⟩ := addPlayers_spec s.r ps ch h.rinv hs hbad
    have heq : s.r.addPlayers ps ch = ((s.r.addPlayers ps ch).1, none) := Prod.ext rfl he
    generalize (s.r.addPlayers ps ch).1 = r' at *
    obtain ⟨hsim', hseat'⟩ := opext_env hx h.sim h.ids_nodup
    refine ⟨?_, ?_⟩
    rotate_left
    · refine StepFacts.of_eq (r' := r') (base := s.env.members) (inc := ps) (ret := [])
        (by simp only [step, heq]; rfl) rfl (by simp only [incoming, heq]; rfl) rfl
        hx.max_eq hx.min_eq rfl (h.sim ▸ hx.valid) h.ids_nodup hx.reqmax ?_ hst hx.newids
      simpa using hx.queue
    simp only [step, heq]
    refine ⟨hri, hsim', ?_, ?_, ?_, ?_, ?_⟩
    · rw [List.perm_iff_count]
      intro a
      have c1 := h.cons.count_eq a
      have c2 := hseat'.count_eq a
      have c3 := congrArg (List.count a) hx.queue
      simp only [List.count_append] at c1 c2 c3 ⊢
      omega
    · rw [List.nodup_append]
      refine ⟨h.nodup, hnd, ?_⟩
      intro a ha b hb hab
      subst hab
      exact hdisj a hb ha
    · intro p hp
      rcases List.mem_append.1 hp with h1 | h1
      · exact List.mem_append_left _ (h.sub p h1)
      · exact List.mem_append_right _ h1
    · simp only [List.length_append]; have := h.lenle; omega
    · intro hne
      simp only [List.length_append]
      by_cases ht : s.r.tables = []
      · have h0 : s.r.tableCount = 0 := by rw [h.rinv.wf.tc, ht]; rfl
        by_cases hlt : s.r.playerCount + ps.length < s.r.min
        · have := (addPlayers_before_min s.r ps ch h.rinv h0 hlt).1
          rw [heq] at this
          exact absurd this hne
        · have := h.pc; have := h.lenle
          rw [hx.min_eq]; omega
      · have := h.regmin ht
        rw [hx.min_eq]; omega

theorem SInv.step_full_re {s : RSys} (h : SInv s) (op : EOp) (hok : s.okReFwd op) :
    SInv (s.step op) ∧ StepFacts s op := by
  cases op with
  | add ps ch => exact h.step_add_re ps ch hok
  | status st ch => exact h.step_status st ch hok
  | sync t elim stay rel keep ch => exact h.step_sync t elim stay rel keep ch hok

theorem SInv.of_reachableReFwd {s : RSys} (h : ReachableReFwd s) : SInv s := by
  induction h with
  | init max min h1 => exact SInv.init max min h1
  | step op _ hok ih => exact (ih.step_full_re op hok).1

theorem SInv.okReFwd_of_ok {s : RSys} (h : SInv s) {op : EOp} (hok : s.ok op) : s.okReFwd op := by
  cases op with
  | status st ch => exact hok
  | sync t elim stay rel keep ch => exact hok
  | add ps ch =>
    obtain ⟨hnd, hfresh, hbad⟩ := hok
    exact ⟨hnd, fun p hp ha => hfresh p hp (h.sub p ha), hbad⟩

theorem Reachable.reFwd {s : RSys} (h : Reachable s) : ReachableReFwd s := by
  induction h with
  | init max min h1 => exact .init max min h1
  | step op hr hok ih => exact .step op ih ((SInv.of_reachable hr).okReFwd_of_ok hok)

theorem allOkReFwd_of_allOk : ∀ (ops : List EOp) (s : RSys), SInv s → s.allOk ops → s.allOkReFwd ops := by
  intro ops
  induction ops with
  | nil => intro _ _ _; trivial
  | cons op ops ih =>
    intro s hS hok
    exact ⟨hS.okReFwd_of_ok hok.1, ih _ (hS.step_full op hok.1).1 hok.2⟩

end RSys

namespace ASys

/-- Validity of an asynchronous operation, forward-only WITH RE-ENTRIES: exactly `ASys.okFwd`,
    except that the names of a registration need only not be those of players currently alive. -/
def okReFwd (s : ASys) : AOp → Prop
  | .add ps ch => s.okRe (.add ps ch)
  | .status st ch => s.okFwd (.status st ch)
  | .sync t elim stay rel keep => s.okFwd (.sync t elim stay rel keep)
  | .report t ps rest ch => s.okFwd (.report t ps rest ch)

instance (s : ASys) (op : AOp) : Decidable (s.okReFwd op) := by
  cases op <;> simp only [okReFwd] <;> infer_instance

theorem okRe_of_okReFwd {s : ASys} {op : AOp} (h : s.okReFwd op) : s.okRe op := by
  cases op with
  | add ps ch => exact h
  | status st ch => exact h.2
  | sync t elim stay rel keep => exact h
  | report t ps rest ch => exact h

inductive AReachableReFwd : ASys → Prop
  | init (max min : Nat) (h1 : 1 ≤ max) : AReachableReFwd (init max min)
  | step {s : ASys} (op : AOp) : AReachableReFwd s → s.okReFwd op → AReachableReFwd (s.step op)

theorem AReachableReFwd.re {s : ASys} (h : AReachableReFwd s) : AReachableRe s := by
  induction h with
  | init max min h1 => exact .init max min h1
  | step op _ hok ih => exact .step op ih (okRe_of_okReFwd hok)

def allOkReFwd : ASys → List AOp → Prop
  | _, [] => True
  | s, op :: ops => s.okReFwd op ∧ allOkReFwd (s.step op) ops

instance decAllOkReFwd : (s : ASys) → (ops : List AOp) → Decidable (allOkReFwd s ops)
  | _, [] => isTrue trivial
  | s, op :: ops =>
    match (inferInstance : Decidable (s.okReFwd op)), decAllOkReFwd (s.step op) ops with
    | isTrue h1, isTrue h2 => isTrue ⟨h1, h2⟩
    | isFalse h1, _ => isFalse fun h => h1 h.1
    | _, isFalse h2 => isFalse fun h => h2 h.2

theorem AReachableReFwd.run {s : ASys} (h : AReachableReFwd s) :
    ∀ (ops : List AOp), allOkReFwd s ops → AReachableReFwd (s.run ops) := by
  intro ops
  induction ops generalizing s with
  | nil => intro _; exact h
  | cons op ops ih => intro hok; exact ih (AReachableReFwd.step op h hok.1) hok.2

/-- a script without registrations is valid with re-entries iff it is valid without -/
theorem allOkFwd_of_allOkReFwd : ∀ (ops : List AOp) (s : ASys), s.allOkReFwd ops →
    (∀ op ∈ ops, ∀ ps ch, op ≠ .add ps ch) → s.allOkFwd ops := by
  intro ops
  induction ops with
  | nil => intro _ _ _; trivial
  | cons op ops ih =>
    intro s hok hna
    refine ⟨?_, ih _ hok.2 (fun o ho => hna o (List.mem_cons_of_mem _ ho))⟩
    cases op with
    | add ps ch => exact absurd rfl (hna _ (List.mem_cons_self ..) ps ch)
    | status st ch => exact hok.1
    | sync t elim stay rel keep => exact hok.1
    | report t ps rest ch => exact hok.1

/-- the `add` step of `AInvF` from "the new names are not alive" alone -/
theorem AInvF.step_add_re {s : ASys} (h : AInvF s) (ps ch : List Nat) (hok : s.okRe (.add ps ch)) :
    AInvF (s.step (.add ps ch)) ∧ AStepFactsF s (.add ps ch) := by
  obtain ⟨hA', hF'⟩ := h.a.step_add_re ps ch hok
  obtain ⟨hnd, hfree, hbad⟩ := hok
  have hf' : FInv (s.step (.add ps ch)).r := by
    rw [step_add_r]; exact addPlayers_specF s.r ps ch h.f hbad
  have hst : (s.step (.add ps ch)).r.status = s.r.status := hF'.status_eq
  refine ⟨⟨hA', hf', ?_, ?_⟩, ?_⟩
  · intro hne
    rw [hF'.min_eq]
    by_cases ht : s.r.tables = []
    · have h0 : s.r.tableCount = 0 := by rw [h.f.wf.tc, ht]; rfl
      by_cases hs : s.r.status = .afterRegDeadline
      · exfalso; apply hne
        have heq : s.r.addPlayers ps ch = (s.r.beginOp ch, some .afterRegDeadline) := by
          unfold Reg.addPlayers
          have : (s.r.beginOp ch).status = .afterRegDeadline := hs
          simp only [this, if_true]
        rw [step_add_r, heq]; exact ht
      · by_cases hlt : s.r.playerCount + ps.length < s.r.min
        · exfalso; apply hne
          rw [step_add_r]; exact addPlayers_before_minF s.r ps ch h.f.wf h0 hlt
        · obtain ⟨_, _, _, _, hpc⟩ := addPlayers_specA s.r ps ch h.a.wf hs hbad
          have h1 := hA'.pc
          have h2 := hA'.lenle
          rw [step_add_r, hpc] at h1
          omega
    · have := h.regmin ht
      have hmono := registered_mono s (.add ps ch)
      omega
  · intro hp
    rw [hst] at hp
    have : (s.step (.add ps ch)).inflight = s.inflight := by
      simp only [step]
      generalize s.r.addPlayers ps ch = p
      obtain ⟨r', e⟩ := p
      cases e <;> rfl
    rw [this]; exact h.pendfly hp
  · by_cases hs : s.r.status = .afterRegDeadline
    · have heq : s.r.addPlayers ps ch = (s.r.beginOp ch, some .afterRegDeadline) := by
        unfold Reg.addPlayers
        have : (s.r.beginOp ch).status = .afterRegDeadline := hs
        simp only [this, if_true]
      have hstep : s.step (.add ps ch) = { r := s.r.beginOp ch, env := s.env, inflight := s.inflight } := by
        simp only [step, heq]
      constructor
      · rw [hstep]; rfl
      · rw [hstep]; trivial
    · obtain ⟨he, _, hx, _, _⟩ := addPlayers_specA s.r ps ch h.a.wf hs hbad
      have heq : s.r.addPlayers ps ch = ((s.r.addPlayers ps ch).1, none) := Prod.ext rfl he
      have hstep : s.step (.add ps ch) =
          { r := (s.r.addPlayers ps ch).1,
            env := { members := Env.applyCalls s.env.members (s.r.addPlayers ps ch).1.calls,
                     alive := s.env.alive ++ ps, registered := s.env.registered ++ ps },
            inflight := s.inflight } := by
        simp only [step]; rw [heq]
      constructor
      · rw [hstep]; rfl
      · rw [hstep]
        show validCalls (mview s.env.members) _
        rw [← h.a.sim]; exact hx.valid

theorem AInvF.step_full_re {s : ASys} (h : AInvF s) (op : AOp) (hok : s.okReFwd op) :
    AInvF (s.step op) ∧ AStepFactsF s op := by
  cases op with
  | add ps ch => exact h.step_add_re ps ch hok
  | status st ch => exact h.step_status st ch hok
  | sync t elim stay rel keep => exact h.step_sync t elim stay rel keep hok
  | report t ps rest ch => exact h.step_report t ps rest ch hok

theorem AInvF.of_reachableReFwd {s : ASys} (h : AReachableReFwd s) : AInvF s := by
  induction h with
  | init max min h1 => exact AInvF.init max min h1
  | step op _ hok ih => exact (ih.step_full_re op hok).1

theorem AInvF.okReFwd_of_okFwd {s : ASys} (h : AInvF s) {op : AOp} (hok : s.okFwd op) : s.okReFwd op := by
  cases op with
  | status st ch => exact hok
  | sync t elim stay rel keep => exact hok
  | report t ps rest ch => exact hok
  | add ps ch =>
    obtain ⟨hnd, hfresh, hbad⟩ := hok
    exact ⟨hnd, fun p hp ha => hfresh p hp (h.a.sub p ha), hbad⟩

theorem AReachableFwd.reFwd {s : ASys} (h : AReachableFwd s) : AReachableReFwd s := by
  induction h with
  | init max min h1 => exact .init max min h1
  | step op hr hok ih => exact .step op ih ((AInvF.of_reachable hr).okReFwd_of_okFwd hok)

theorem allOkReFwd_of_allOkFwd : ∀ (ops : List AOp) (s : ASys), AInvF s → s.allOkFwd ops → s.allOkReFwd ops := by
  intro ops
  induction ops with
  | nil => intro _ _ _; trivial
  | cons op ops ih =>
    intro s hS hok
    exact ⟨hS.okReFwd_of_okFwd hok.1, ih _ (hS.step_full op hok.1).1 hok.2⟩

/-- every synchronous forward-only history with re-entries is an asynchronous one -/
theorem AReachableReFwd.ofRSys {s : RSys} (h : RSys.ReachableReFwd s) : AReachableReFwd (ASys.ofRSys s) := by
  induction h with
  | init max min h1 => exact .init max min h1
  | @step s op hr hok ih =>
    rw [← run_expand s op]
    refine ih.run _ ?_
    have hS := RSys.SInv.of_reachableReFwd hr
    cases op with
    | add ps ch => exact ⟨hok, trivial⟩
    | status st ch =>
      exact allOkReFwd_of_allOkFwd _ _ (AInvF.of_reachableReFwd ih) (allOkFwd_expand s _ hok)
    | sync t elim stay rel keep ch =>
      exact allOkReFwd_of_allOkFwd _ _ (AInvF.of_reachableReFwd ih) (allOkFwd_expand s _ hok)

end ASys
end Pokerface
