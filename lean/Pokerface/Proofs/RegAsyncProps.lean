/-
  The asynchronous system (Model/RegulatorAsync.lean): consequences of the invariant `AInv` used
  by the statements of C09, TOTALITY of the validity conditions `ASys.ok`, and the EMBEDDING of the
  synchronous system `RSys` (every synchronous history is the asynchronous history in which each
  sync is followed at once by the report of everybody it released).
-/
import Pokerface.Proofs.RegAsyncEnv

namespace Pokerface
open Reg

namespace ASys
open RSys (membersOf_some)

/-! ### "exactly one table" -/

/-- in a sheet whose concatenation has no duplicate, a player is in one entry only -/
theorem seatedOf_one_entry {m : List (Nat × List Nat)} (hn : (seatedOf m).Nodup)
    {e e' : Nat × List Nat} (he : e ∈ m) (he' : e' ∈ m) {p : Nat} (hp : p ∈ e.2) (hp' : p ∈ e'.2) :
    e = e' := by
  induction m with
  | nil => cases he
  | cons x m ih =>
    have hx : seatedOf (x :: m) = x.2 ++ seatedOf m := rfl
    rw [hx, List.nodup_append] at hn
    obtain ⟨_, hn2, hdis⟩ := hn
    have hin : ∀ {f : Nat × List Nat}, f ∈ m → p ∈ f.2 → p ∈ seatedOf m := by
      intro f hf hpf
      simp only [seatedOf, List.mem_flatten, List.mem_map]
      exact ⟨f.2, ⟨f, hf, rfl⟩, hpf⟩
    rcases List.mem_cons.1 he with rfl | he1 <;> rcases List.mem_cons.1 he' with rfl | he1'
    · rfl
    · exact absurd rfl (hdis p hp p (hin he1' hp'))
    · exact absurd rfl (hdis p hp' p (hin he1 hp))
    · exact ih hn2 he1 he1'

theorem mem_flyingOf {s : ASys} {t p : Nat} (h : p ∈ s.flyingOf t) :
    ∃ e ∈ s.inflight, e.1 = t ∧ p ∈ e.2 := by
  simp only [flyingOf, List.mem_flatten, List.mem_map, List.mem_filter] at h
  obtain ⟨l, ⟨e, ⟨he, het⟩, rfl⟩, hp⟩ := h
  exact ⟨e, he, by simpa using het, hp⟩

theorem mem_flying_of_flyingOf {s : ASys} {t p : Nat} (h : p ∈ s.flyingOf t) : p ∈ s.flying := by
  obtain ⟨e, he, _, hp⟩ := mem_flyingOf h
  simp only [flying, List.mem_flatten, List.mem_map]
  exact ⟨e.2, ⟨e, he, rfl⟩, hp⟩

theorem mem_members_of_membersOf {e : Env} {t : Nat} {ms : List Nat} (h : e.membersOf t = some ms) :
    (t, ms) ∈ e.members := List.mem_of_find?_eq_some (membersOf_some h)

/-! ### what `SyncState` answers -/

/-- what `SyncState` answers on a table the environment knows, for any split of its members
    into eliminated and staying ones -/
theorem AInv.sync_known {s : ASys} (h : AInv s) (t : Nat) (elim stay ms : List Nat)
    (hm : s.env.membersOf t = some ms) (hp : ms.Perm (elim ++ stay)) :
    ∃ r1 relc nw t0, s.syncAnswer t elim = (r1, none, relc, nw) ∧ s.r.findTable t = some t0 ∧
      t0.count = ms.length ∧ 0 ≤ relc ∧ relc ≤ (stay.length : Int) + nw.length ∧ (nw = [] ∨ relc = 0) ∧
      s.r.queue = nw ++ r1.queue ∧ r1.calls = [] ∧ WF0 r1 ∧
      (s.broken t elim = true → relc = stay.length ∧ nw = []) := by
  obtain ⟨r1, relc, nw, t0, hft, hc0, hans, post⟩ := h.sync_facts t elim stay ms hm hp
  have hlen := hp.length_eq
  rw [List.length_append] at hlen
  have htb : (adj (-(elim.length : Int)) none t0).count = stay.length := by
    simp only [adj]; omega
  refine ⟨r1, relc, nw, t0, hans, hft, hc0, post.rel0, ?_, post.excl, post.queue, post.calls, post.wf, ?_⟩
  · rcases post.cases with ⟨_, _, h3, h4⟩ | ⟨a, rq, _, _, h3⟩
    · rw [h3, htb, h4]; simp
    · rw [htb] at h3; exact h3
  · intro hb
    rcases post.cases with ⟨_, _, h3, h4⟩ | ⟨a, rq, htab, _, _⟩
    · exact ⟨by rw [h3, htb], h4⟩
    · exfalso
      obtain ⟨ht0, hid0⟩ := findTable_some hft
      have hidm : t ∈ r1.tables.map (·.id) := by
        rw [htab, upd_ids _ _ _ (adj_id a rq), syncBase_tables, upd_ids _ _ _ (adj_id _ _)]
        exact List.mem_map.2 ⟨t0, ht0, hid0⟩
      simp only [broken, hans] at hb
      cases hf : r1.findTable t with
      | none => exact findTable_ne_none hidm hf
      | some _ => rw [hf] at hb; cases hb

/-! ### totality: the validity conditions never block a history -/

/-- every registration of distinct, never-registered ids is possible -/
theorem AInv.add_total {s : ASys} (h : AInv s) (ps : List Nat) (hnd : ps.Nodup)
    (hfresh : ∀ p ∈ ps, p ∉ s.env.registered) : ∃ ch, s.ok (.add ps ch) := by
  obtain ⟨ch, hch⟩ := addPlayers_total s.r ps h.wf
  exact ⟨ch, hnd, hfresh, hch⟩

/-- every status change is possible -/
theorem AInv.status_total {s : ASys} (h : AInv s) (st : RStatus) : ∃ ch, s.ok (.status st ch) :=
  setStatus_total s.r st h.wf

/-- every sync is possible, with ANY admissible departure: any table id (known or not, with or
    without earlier releases still unreported), any split `elim`/`stay` of the members of a known
    table, and ANY split `rel`/`keep` of the members after the arrivals in which `rel` has the
    length the regulator asked for -/
theorem AInv.sync_total_rel {s : ASys} (h : AInv s) (t : Nat) (elim stay rel keep : List Nat)
    (hsplit : ∀ ms, s.env.membersOf t = some ms → ms.Perm (elim ++ stay))
    (hrel : (stay ++ (s.syncAnswer t elim).2.2.2).Perm (rel ++ keep))
    (hlen : (rel.length : Int) = (s.syncAnswer t elim).2.2.1) :
    s.ok (.sync t elim stay rel keep) := by
  cases hm : s.env.membersOf t with
  | none => simp only [ok, hm]
  | some ms =>
    have hp := hsplit ms hm
    obtain ⟨r1, relc, nw, t0, hans, _, _, h0, hle, _, _, _, _, hbrk⟩ := h.sync_known t elim stay ms hm hp
    rw [hans] at hrel hlen
    simp only at hrel hlen
    simp only [ok, hm, hans]
    refine ⟨hp, hrel, hlen, ?_⟩
    intro hb
    obtain ⟨e1, e2⟩ := hbrk hb
    have hl := hrel.length_eq
    rw [e2, List.append_nil, List.length_append] at hl
    exact List.length_eq_zero_iff.1 (by omega)

/-- every sync is possible; the departing players can be taken to be the first `release count` of
    `stay ++ new players` -/
theorem AInv.sync_total {s : ASys} (h : AInv s) (t : Nat) (elim stay : List Nat)
    (hsplit : ∀ ms, s.env.membersOf t = some ms → ms.Perm (elim ++ stay)) :
    ∃ rel keep, s.ok (.sync t elim stay rel keep) := by
  cases hm : s.env.membersOf t with
  | none => exact ⟨[], [], by simp only [ok, hm]⟩
  | some ms =>
    have hp := hsplit ms hm
    obtain ⟨r1, relc, nw, t0, hans, _, _, h0, hle, _, _, _, _, _⟩ := h.sync_known t elim stay ms hm hp
    exact ⟨_, _, h.sync_total_rel t elim stay ((stay ++ nw).take relc.toNat) ((stay ++ nw).drop relc.toNat)
      hsplit (by rw [hans, List.take_append_drop])
      (by rw [hans, List.length_take, List.length_append]; simp only; omega)⟩

/-- every report is possible, at any time: any table id, any part `ps` of the players on the way
    back from it (all of them, some, or none) -/
theorem AInv.report_total {s : ASys} (h : AInv s) (t : Nat) (ps rest : List Nat)
    (hsplit : (s.flyingOf t).Perm (ps ++ rest)) : ∃ ch, s.ok (.report t ps rest ch) := by
  obtain ⟨ch, hch⟩ := releasePlayers_total s.r ps h.wf
  exact ⟨ch, hsplit, hch⟩

/-! ### the synchronous system embeds -/

theorem ofRSys_broken (s : RSys) (t : Nat) (elim : List Nat) :
    (ofRSys s).broken t elim = s.broken t elim := rfl

/-- **a sync followed at once by its report is the synchronous step**: running the asynchronous
    script of a synchronous operation from a state with nobody on the way gives the synchronous
    successor, again with nobody on the way (a plain computation: no invariant is needed). -/
theorem run_expand (s : RSys) (op : EOp) : (ofRSys s).run (expand s op) = ofRSys (s.step op) := by
  cases op with
  | add ps ch =>
    show (ofRSys s).step (.add ps ch) = ofRSys (s.step (.add ps ch))
    simp only [step, RSys.step]
    have : (ofRSys s).r = s.r := rfl
    rw [this]
    rcases s.r.addPlayers ps ch with ⟨r', _ | e⟩ <;> rfl
  | status st ch => rfl
  | sync t elim stay rel keep ch =>
    simp only [expand]
    cases hm : s.env.membersOf t with
    | none =>
      have hm' : (ofRSys s).env.membersOf t = none := hm
      show (ofRSys s).step (.sync t elim stay rel keep) = ofRSys (s.step (.sync t elim stay rel keep ch))
      simp only [step, RSys.step, hm, hm']
      rfl
    | some ms =>
      have hm' : (ofRSys s).env.membersOf t = some ms := hm
      simp only []
      have hA : (ofRSys s).step (.sync t elim stay rel keep) =
          { r := (s.syncAnswer t elim).1,
            env := { s.env with
                     members := if s.broken t elim then s.env.members.filter (fun e => e.1 != t)
                                else s.env.members.map fun e => if e.1 = t then (e.1, keep) else e,
                     alive := s.env.alive.filter (fun p => !elim.contains p) },
            inflight := if rel.isEmpty then [] else [(t, rel)] } := by
        simp only [step, hm']; rfl
      by_cases hq : rel.isEmpty ∧ s.broken t elim = false
      · rw [if_pos hq]
        show (ofRSys s).step (.sync t elim stay rel keep) = ofRSys (s.step (.sync t elim stay rel keep ch))
        have hR : s.step (.sync t elim stay rel keep ch) =
            { r := (s.syncAnswer t elim).1,
              env := { s.env with
                       members := if s.broken t elim then s.env.members.filter (fun e => e.1 != t)
                                  else s.env.members.map fun e => if e.1 = t then (e.1, keep) else e,
                       alive := s.env.alive.filter (fun p => !elim.contains p) } } := by
          simp only [RSys.step, hm]; rw [if_pos hq]
        rw [hA, hR]
        simp only [ofRSys, hq.1, if_true]
      · rw [if_neg hq]
        show ((ofRSys s).step (.sync t elim stay rel keep)).step (.report t rel [] ch) =
          ofRSys (s.step (.sync t elim stay rel keep ch))
        have hR : s.step (.sync t elim stay rel keep ch) =
            { r := (s.syncAnswer t elim).1.releasePlayers rel ch,
              env := { s.env with
                       members := Env.applyCalls
                         (if s.broken t elim then s.env.members.filter (fun e => e.1 != t)
                          else s.env.members.map fun e => if e.1 = t then (e.1, keep) else e)
                         ((s.syncAnswer t elim).1.releasePlayers rel ch).calls,
                       alive := s.env.alive.filter (fun p => !elim.contains p) } } := by
          simp only [RSys.step, hm]; rw [if_neg hq]
        rw [hA, hR]
        simp only [step, ofRSys, List.isEmpty_nil, if_true, List.append_nil, ASys.mk.injEq, true_and]
        split
        · rfl
        · simp

/-- the asynchronous script of a valid synchronous operation is valid -/
theorem allOk_expand (s : RSys) (op : EOp) (hok : s.okAny op) : (ofRSys s).allOk (expand s op) := by
  cases op with
  | add ps ch => exact ⟨hok, trivial⟩
  | status st ch => exact ⟨hok, trivial⟩
  | sync t elim stay rel keep ch =>
    simp only [expand]
    have hok' : s.ok (.sync t elim stay rel keep ch) := hok
    simp only [RSys.ok] at hok'
    cases hm : s.env.membersOf t with
    | none =>
      have hm' : (ofRSys s).env.membersOf t = none := hm
      exact ⟨by simp only [ok, hm'], trivial⟩
    | some ms =>
      have hm' : (ofRSys s).env.membersOf t = some ms := hm
      rw [hm] at hok'
      simp only [] at hok' ⊢
      have hsync : (ofRSys s).ok (.sync t elim stay rel keep) := by
        simp only [ok, hm']
        exact ⟨hok'.1, hok'.2.1, hok'.2.2.1, hok'.2.2.2.1⟩
      by_cases hq : rel.isEmpty ∧ s.broken t elim = false
      · rw [if_pos hq]; exact ⟨hsync, trivial⟩
      · rw [if_neg hq]
        refine ⟨hsync, ?_, trivial⟩
        have hbad : ((s.syncAnswer t elim).1.releasePlayers rel ch).badChoice = false := by
          rcases hok'.2.2.2.2 with h1 | h2
          · exact absurd h1 hq
          · exact h2
        simp only [step, hm']
        refine ⟨?_, hbad⟩
        simp only [flyingOf, ofRSys]
        split
        · rename_i hre
          have : rel = [] := by simpa using hre
          simp [this]
        · simp

/-- every state of the synchronous system is a state of the asynchronous one -/
theorem AReachable.ofRSys {s : RSys} (h : RSys.ReachableAny s) : AReachable (ASys.ofRSys s) := by
  induction h with
  | init max min h1 => exact AReachable.init max min h1
  | step op _ hok ih =>
    rw [← run_expand]
    exact ih.run _ (allOk_expand _ op hok)

/-! ### from reachability -/

theorem AReachable.add_total {s : ASys} (h : AReachable s) (ps : List Nat) (hnd : ps.Nodup)
    (hfresh : ∀ p ∈ ps, p ∉ s.env.registered) : ∃ ch, s.ok (.add ps ch) :=
  (AInv.of_reachable h).add_total ps hnd hfresh

theorem AReachable.status_total {s : ASys} (h : AReachable s) (st : RStatus) : ∃ ch, s.ok (.status st ch) :=
  (AInv.of_reachable h).status_total st

theorem AReachable.sync_total {s : ASys} (h : AReachable s) (t : Nat) (elim stay : List Nat)
    (hsplit : ∀ ms, s.env.membersOf t = some ms → ms.Perm (elim ++ stay)) :
    ∃ rel keep, s.ok (.sync t elim stay rel keep) :=
  (AInv.of_reachable h).sync_total t elim stay hsplit

theorem AReachable.sync_total_rel {s : ASys} (h : AReachable s) (t : Nat) (elim stay rel keep : List Nat)
    (hsplit : ∀ ms, s.env.membersOf t = some ms → ms.Perm (elim ++ stay))
    (hrel : (stay ++ (s.syncAnswer t elim).2.2.2).Perm (rel ++ keep))
    (hlen : (rel.length : Int) = (s.syncAnswer t elim).2.2.1) :
    s.ok (.sync t elim stay rel keep) :=
  (AInv.of_reachable h).sync_total_rel t elim stay rel keep hsplit hrel hlen

theorem AReachable.report_total {s : ASys} (h : AReachable s) (t : Nat) (ps rest : List Nat)
    (hsplit : (s.flyingOf t).Perm (ps ++ rest)) : ∃ ch, s.ok (.report t ps rest ch) :=
  (AInv.of_reachable h).report_total t ps rest hsplit

end ASys
end Pokerface
