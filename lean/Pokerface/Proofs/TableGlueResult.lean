/-
  The glue between the seat manager and the hand engine, part 3: the closing state of a hand
  (`updatePlayerStates`): the stacks written back to the sheet, the chips on the sheet, busted players.
-/
import Pokerface.Proofs.TableGlueGame

namespace Pokerface
namespace Table

/-! ### the chips on the sheet -/

/-- the bankroll a sheet slot shows (an empty slot shows nothing) -/
def bank (o : Option TPlayer) : Int :=
  match o with
  | some p => p.bankroll
  | none => 0

/-- all the chips on the sheet of the table -/
def sheetTotal (t : Table) : Int := (t.players.map bank).sum

theorem sum_set {α} (g : α → Int) (l : List α) (i : Nat) (hi : i < l.length) (x : α) :
    ((l.set i x).map g).sum = (l.map g).sum - g l[i] + g x := by
  induction l generalizing i with
  | nil => simp at hi
  | cons a l ih =>
    cases i with
    | zero => simp; omega
    | succ i =>
      simp only [List.set_cons_succ, List.map_cons, List.sum_cons, List.getElem_cons_succ]
      rw [ih i (by simpa using hi)]
      omega

theorem bank_playerAt (t : Table) (i : Nat) (hi : i < t.players.length) : bank (t.playerAt i) = bank t.players[i] := by
  unfold playerAt
  rw [List.getElem?_eq_getElem hi]; rfl

theorem playerAt_of_ge (t : Table) (i : Nat) (hi : t.players.length ≤ i) : t.playerAt i = none := by
  unfold playerAt
  rw [List.getElem?_eq_none_iff.mpr hi]; rfl

theorem sheetTotal_setPl (t : Table) (i : Nat) (hi : i < t.players.length) (o : Option TPlayer) :
    (t.setPl i o).sheetTotal = t.sheetTotal - bank (t.playerAt i) + bank o := by
  unfold sheetTotal setPl
  rw [sum_set bank _ _ hi, bank_playerAt t i hi]

theorem setPl_none_of_ge (t : Table) (i : Nat) (hi : t.players.length ≤ i) (o) : t.setPl i o = t := by
  unfold setPl
  rw [List.set_eq_of_length_le hi]

theorem sheetTotal_setPl_none (t : Table) (i : Nat) :
    (t.setPl i none).sheetTotal = t.sheetTotal - bank (t.playerAt i) := by
  by_cases hi : i < t.players.length
  · rw [sheetTotal_setPl t i hi]; simp [bank]
  · rw [setPl_none_of_ge t i (by omega), playerAt_of_ge t i (by omega)]; simp [bank]

theorem modPl_eq_setPl {t : Table} {i : Nat} {q : TPlayer} (h : t.playerAt i = some q) (f : TPlayer → TPlayer) :
    t.modPl i f = t.setPl i (some (f q)) := by
  unfold modPl setPl
  rw [SM.modify_eq_set_of_getElem? _ (playerAt_eq_some.mp h)]; rfl

theorem sheetTotal_congr {t t' : Table} (h : t'.players.map bank = t.players.map bank) : t'.sheetTotal = t.sheetTotal := by
  unfold sheetTotal; rw [h]

theorem copyPositions_banks (sm' : SM) (pls : List (Option TPlayer)) : (copyPositions sm' pls).map bank = pls.map bank := by
  apply List.ext_getElem?
  intro i
  rw [List.getElem?_map, List.getElem?_map, copyPositions_getElem?]
  cases pls[i]? with
  | none => rfl
  | some o => cases o <;> rfl

theorem setupPosition_banks (t : Table) : t.setupPosition.1.players.map bank = t.players.map bank := by
  rw [setupPosition_eq]
  split
  · rfl
  · split
    · rfl
    · exact copyPositions_banks _ _

theorem setupPosition_sheetTotal (t : Table) : t.setupPosition.1.sheetTotal = t.sheetTotal :=
  sheetTotal_congr (setupPosition_banks t)

theorem banks_of_playerAt {t t' : Table} (hl : t'.players.length = t.players.length)
    (h : ∀ j, bank (t'.playerAt j) = bank (t.playerAt j)) : t'.players.map bank = t.players.map bank := by
  apply List.ext_getElem
  · simp [hl]
  · intro j h1 h2
    simp only [List.length_map] at h1 h2
    simp only [List.getElem_map]
    rw [← bank_playerAt t' j h1, ← bank_playerAt t j h2]; exact h j

theorem assignGameIdx_sheetTotal (t : Table) (seats : List Nat) (hnd : seats.Nodup) :
    (t.assignGameIdx seats).sheetTotal = t.sheetTotal := by
  apply sheetTotal_congr
  apply banks_of_playerAt (by simp)
  intro j
  rw [assignGameIdx_playerAt _ _ hnd]
  cases t.playerAt j <;> rfl

/-- who holds how much: what `setupPosition` / `startGame` never change on the sheet -/
def money (p : TPlayer) : Nat × Int := (p.pid, p.bankroll)

theorem setupPosition_money (t : Table) (i : Nat) :
    (t.setupPosition.1.playerAt i).map money = (t.playerAt i).map money := by
  rcases setupPosition_playerAt t i with h | h <;> rw [h]
  cases t.playerAt i <;> rfl

/-! ### `Leave` of an occupied seat succeeds -/

theorem _root_.Pokerface.SM.step_leave_ok {sm : SM} {i : Nat} {s : Seat} (hw : sm.WF) (hs : sm.seats[i]? = some s)
    (hp : s.player.isSome = true) :
    sm.step (.leave (i : Int)) = (sm.setSeat i { s with player := none, reserved := false }, none, none) := by
  have hi : i < sm.max := by rw [← hw]; exact (List.getElem?_eq_some_iff.mp hs).1
  rcases SM.step_leave_cases sm (i : Int) with ⟨e, he⟩ | ⟨i', s', hi', hs', _, he⟩
  · exfalso
    unfold SM.step at he
    simp only at he
    rw [if_neg (by omega)] at he
    simp only [Int.toNat_natCast, hs] at he
    have : s.player.isNone = false := by cases hq : s.player <;> simp_all
    simp [this] at he
  · have : i' = i := by omega
    subst this
    rw [hs] at hs'; cases hs'
    exact he

theorem leave_ok {t : Table} (h : TInv t) {s : Nat} {q : TPlayer} (hq : t.playerAt s = some q) :
    t.leave (s : Int) = (({ t with sm := (t.sm.step (.leave (s : Int))).1 }).setPl s none, none) := by
  obtain ⟨st, hst, hp⟩ := h.sm_of_player (playerAt_eq_some.mp hq)
  have hok := SM.step_leave_ok h.smr.inv.wf hst (by rw [hp]; rfl)
  unfold leave
  rw [hok]
  simp

/-! ### one entry of the result -/

/-- `updatePlayerStates` for the entry of game index `k`, when seat `s` carries that index -/
theorem applyFinal_eq {t : Table} {k s : Nat} (hk : t.seatOfGameIdx k = some s) (f : Int) :
    t.applyFinal k f =
      if f = 0 then
        if t.opts.leaveMode = true then
          (({ t.modPl s (fun p => { p with bankroll := f }) with
              sm := (t.sm.step (.reserve (s : Int))).1 } : Table).leave (s : Int)).1
        else { t.modPl s (fun p => { p with bankroll := f }) with sm := (t.sm.step (.reserve (s : Int))).1 }
      else t.modPl s (fun p => { p with bankroll := f }) := by
  unfold Table.applyFinal
  rw [hk]
  rfl

theorem applyFinal_none {t : Table} {k : Nat} (hk : t.seatOfGameIdx k = none) (f : Int) : t.applyFinal k f = t := by
  unfold Table.applyFinal
  rw [hk]

/-- the sheet entry written for a closing stack `f` -/
def written (lm : Bool) (q : TPlayer) (f : Int) : Option TPlayer :=
  if f = 0 ∧ lm = true then none else some { q with bankroll := f }

theorem applyFinal_spec {t : Table} (h : TInv t) {k s : Nat} {q : TPlayer} (hk : t.seatOfGameIdx k = some s)
    (hq : t.playerAt s = some q) (f : Int) :
    (∀ j, (t.applyFinal k f).playerAt j = if j = s then written t.opts.leaveMode q f else t.playerAt j) ∧
    (t.applyFinal k f).opts = t.opts ∧
    (t.applyFinal k f).sheetTotal = t.sheetTotal - q.bankroll + f ∧
    (t.applyFinal k f).players.length = t.players.length := by
  have hmod : ∀ j, (t.modPl s fun p => { p with bankroll := f }).playerAt j =
      if j = s then some { q with bankroll := f } else t.playerAt j := by
    intro j
    rw [playerAt_modPl]
    by_cases hjs : j = s
    · subst hjs; simp [hq]
    · have : ¬ s = j := fun h => hjs h.symm
      simp [hjs, this]
  have hsl : s < t.players.length := by
    by_contra hc
    rw [playerAt_of_ge t s (by omega)] at hq; cases hq
  have htot : (t.modPl s fun p => { p with bankroll := f }).sheetTotal = t.sheetTotal - q.bankroll + f := by
    rw [modPl_eq_setPl hq, sheetTotal_setPl t s hsl, hq]; rfl
  rw [applyFinal_eq hk]
  by_cases hf : f = 0
  · rw [if_pos hf]
    by_cases hlm : t.opts.leaveMode = true
    · rw [if_pos hlm]
      -- reserved, then left
      let t1 : Table := { t.modPl s (fun p => { p with bankroll := f }) with sm := (t.sm.step (.reserve (s : Int))).1 }
      have ht1 : TInv t1 :=
        (h.modPl s (fun p => { p with bankroll := f }) (fun _ => rfl)).sm_step_same (.reserve (s : Int)) (reserve_pidAt _ _)
      have hq1 : t1.playerAt s = some { q with bankroll := f } := by
        show (t.modPl s fun p => { p with bankroll := f }).playerAt s = _
        rw [hmod]; simp
      have hl := leave_ok ht1 hq1
      show (∀ j, (t1.leave (s : Int)).1.playerAt j = _) ∧ (t1.leave (s : Int)).1.opts = _ ∧
        (t1.leave (s : Int)).1.sheetTotal = _ ∧ (t1.leave (s : Int)).1.players.length = _
      rw [hl]
      refine ⟨?_, rfl, ?_, by simp [t1]⟩
      · intro j
        rw [playerAt_setPl]
        by_cases hjs : j = s
        · subst hjs
          have : j < ({ t1 with sm := (t1.sm.step (.leave (j : Int))).1 } : Table).players.length := by
            show j < (t.modPl j fun p => { p with bankroll := f }).players.length
            simpa using hsl
          simp [this, written, hf, hlm]
        · have : ¬ s = j := fun h => hjs h.symm
          simp only [this, false_and, if_false, hjs]
          show (t.modPl s fun p => { p with bankroll := f }).playerAt j = _
          rw [hmod, if_neg hjs]
      · rw [sheetTotal_setPl_none]
        show (t.modPl s fun p => { p with bankroll := f }).sheetTotal -
          bank ((t.modPl s fun p => { p with bankroll := f }).playerAt s) = _
        rw [htot, hmod]
        simp [bank, hf]
    · rw [if_neg hlm]
      refine ⟨?_, rfl, htot, by simp⟩
      intro j
      show (t.modPl s fun p => { p with bankroll := f }).playerAt j = _
      rw [hmod]
      have : ¬ (f = 0 ∧ t.opts.leaveMode = true) := fun h => hlm h.2
      simp [written, this]
  · rw [if_neg hf]
    refine ⟨?_, rfl, htot, by simp⟩
    intro j
    rw [hmod]
    have : ¬ (f = 0 ∧ t.opts.leaveMode = true) := fun h => hf h.1
    simp [written, this]

/-! ### the whole result -/

/-- the closing stack the result carries for the player `q` (by game index) -/
def finalOf (finals : List Int) (q : TPlayer) : Option Int :=
  if 0 ≤ q.gameIdx then finals[q.gameIdx.toNat]? else none

/-- the sheet entry of player `q` after `updatePlayerStates` -/
def writeBack (lm : Bool) (finals : List Int) (q : TPlayer) : Option TPlayer :=
  match finalOf finals q with
  | none => some q
  | some f => written lm q f

theorem writeBack_gameIdx {lm : Bool} {finals : List Int} {q q' : TPlayer} (h : writeBack lm finals q = some q') :
    q'.gameIdx = q.gameIdx := by
  unfold writeBack at h
  split at h
  · cases h; rfl
  · unfold written at h
    split at h
    · cases h
    · cases h; rfl

/-- the game indices on the sheet are those of `seats`: seat `seats[k]` carries `k`, nobody else carries `k` -/
structure IdxOK (t : Table) (seats : List Nat) : Prop where
  has : ∀ (k s : Nat), seats[k]? = some s → ∃ q, t.playerAt s = some q ∧ q.gameIdx = ((k : Nat) : Int)
  only : ∀ j q (k : Nat), t.playerAt j = some q → q.gameIdx = (k : Int) → seats[k]? = some j

theorem finalOf_of_idx {finals : List Int} {q : TPlayer} {k : Nat} (hk : q.gameIdx = (k : Int)) :
    finalOf finals q = finals[k]? := by
  unfold finalOf
  rw [hk, if_pos (by omega), Int.toNat_natCast]

theorem finalOf_append_ne {fs : List Int} {f : Int} {q : TPlayer} (hne : q.gameIdx ≠ (fs.length : Int)) :
    finalOf (fs ++ [f]) q = finalOf fs q := by
  unfold finalOf
  split
  · next h0 =>
    have hne' : q.gameIdx.toNat ≠ fs.length := by omega
    rw [List.getElem?_append]
    split
    · rfl
    · next hge =>
      have e1 : fs[q.gameIdx.toNat]? = none := List.getElem?_eq_none_iff.mpr (by omega)
      have e2 : [f][q.gameIdx.toNat - fs.length]? = none := List.getElem?_eq_none_iff.mpr (by simp; omega)
      rw [e1, e2]
  · rfl

/-- while the result is being written back, the seat of the next game index is still the one `startGame` gave it,
with the player untouched -/
theorem seatOf_of_closed {t T : Table} {seats : List Nat} (hi : IdxOK t seats) {fs : List Int} {lm : Bool}
    (hlt : fs.length < seats.length) (hpl : ∀ j, T.playerAt j = (t.playerAt j).bind (writeBack lm fs)) :
    ∃ q, t.playerAt seats[fs.length] = some q ∧ q.gameIdx = (fs.length : Int) ∧
      T.playerAt seats[fs.length] = some q ∧ T.seatOfGameIdx fs.length = some seats[fs.length] := by
  obtain ⟨q, hq, hqk⟩ := hi.has fs.length seats[fs.length] (List.getElem?_eq_getElem hlt)
  have hqT : T.playerAt seats[fs.length] = some q := by
    rw [hpl, hq]
    simp only [Option.bind_some, writeBack, finalOf_of_idx hqk]
    rw [List.getElem?_eq_none_iff.mpr (Nat.le_refl _)]
  refine ⟨q, hq, hqk, hqT, ?_⟩
  apply seatOfGameIdx_some (playerAt_eq_some.mp hqT) hqk
  intro j q' hj hk'
  have hj' := playerAt_eq_some.mpr hj
  rw [hpl] at hj'
  cases hq0 : t.playerAt j with
  | none => rw [hq0] at hj'; cases hj'
  | some q0 =>
    rw [hq0] at hj'
    simp only [Option.bind_some] at hj'
    have hg := writeBack_gameIdx hj'
    have := hi.only j q0 fs.length hq0 (by rw [← hg]; exact hk')
    rw [List.getElem?_eq_getElem hlt] at this
    exact (Option.some.inj this).symm

/-- **The sheet after `updatePlayerStates`**, closed form, together with the chips on the sheet: each closing stack
replaces the bankroll it was dealt from. -/
theorem applyResult_spec {t : Table} (h : TInv t) {seats : List Nat} (hi : IdxOK t seats) (finals : List Int)
    (hlen : finals.length ≤ seats.length) :
    TInv (t.applyResult finals) ∧
    (t.applyResult finals).opts = t.opts ∧
    (t.applyResult finals).players.length = t.players.length ∧
    (∀ j, (t.applyResult finals).playerAt j = (t.playerAt j).bind (writeBack t.opts.leaveMode finals)) ∧
    (t.applyResult finals).sheetTotal + (((t.gameSeats seats).take finals.length).map (·.bankroll)).sum =
      t.sheetTotal + finals.sum := by
  induction finals using List.reverseRecOn with
  | nil =>
    refine ⟨h, rfl, rfl, ?_, by simp [Table.applyResult]⟩
    intro j
    show t.playerAt j = _
    cases hq : t.playerAt j with
    | none => rfl
    | some q => simp [writeBack, finalOf]
  | append_singleton fs f ih =>
    have hlt : fs.length < seats.length := by simp at hlen; omega
    obtain ⟨hT, hopts, hlenT, hpl, htot⟩ := ih (by omega)
    rw [applyResult_append]
    -- the seat that carries index `fs.length`
    obtain ⟨q, hq, hqk, hqT, hseat⟩ := seatOf_of_closed hi hlt hpl
    obtain ⟨a1, a2, a3, a4⟩ := applyFinal_spec hT hseat hqT f
    refine ⟨hT.applyFinal _ _, a2.trans hopts, a4.trans hlenT, ?_, ?_⟩
    · intro j
      rw [a1 j, hopts]
      by_cases hjs : j = seats[fs.length]
      · rw [if_pos hjs, hjs, hq]
        simp only [Option.bind_some, writeBack, finalOf_of_idx hqk]
        rw [List.getElem?_append_right (Nat.le_refl _)]
        simp
      · rw [if_neg hjs, hpl]
        cases hq0 : t.playerAt j with
        | none => rfl
        | some q0 =>
          simp only [Option.bind_some, writeBack]
          have hne : q0.gameIdx ≠ (fs.length : Int) := by
            intro he
            have := hi.only j q0 fs.length hq0 he
            rw [List.getElem?_eq_getElem hlt] at this
            exact hjs (Option.some.inj this).symm
          rw [finalOf_append_ne hne]
    · rw [a3]
      have hcl : fs.length < (t.gameSeats seats).length := by rw [gameSeats_length]; exact hlt
      have hcfg : (t.gameSeats seats)[fs.length] = q.cfg := by
        have := gameSeats_getElem? t seats fs.length
        rw [List.getElem?_eq_getElem hcl, List.getElem?_eq_getElem hlt] at this
        simp only [Option.map_some, Option.some.injEq] at this
        rw [this, seatCfgAt_of_player (playerAt_eq_some.mp hq)]
      have htk : (t.gameSeats seats).take (fs ++ [f]).length =
          (t.gameSeats seats).take fs.length ++ [q.cfg] := by
        rw [List.length_append, List.length_singleton, List.take_add_one, List.getElem?_eq_getElem hcl, hcfg]; rfl
      rw [htk]
      simp only [List.map_append, List.sum_append, List.map_cons, List.map_nil, List.sum_cons, List.sum_nil]
      show _ + (_ + (q.bankroll + 0)) = _
      omega

/-- after `startGame` has handed out the indices of the playable seats, the sheet is `IdxOK` -/
theorem idxOK_assignGameIdx {t : Table} {seats : List Nat} (hnd : seats.Nodup)
    (hpl : ∀ s ∈ seats, ∃ p, t.playerAt s = some p) : IdxOK (t.assignGameIdx seats) seats := by
  constructor
  · intro k s hks
    obtain ⟨p, hp⟩ := hpl s (List.mem_of_getElem? hks)
    refine ⟨_, by rw [assignGameIdx_playerAt _ _ hnd, hp]; rfl, ?_⟩
    simp only [List.mem_of_getElem? hks, if_true]
    obtain ⟨hk, hks'⟩ := List.getElem?_eq_some_iff.mp hks
    rw [← hks', hnd.idxOf_getElem]
  · intro j q k hq hk
    rw [assignGameIdx_playerAt _ _ hnd] at hq
    cases hp : t.playerAt j with
    | none => rw [hp] at hq; cases hq
    | some p =>
      rw [hp] at hq
      simp only [Option.map_some, Option.some.injEq] at hq
      subst hq
      simp only at hk
      split at hk
      · next hmem =>
        have : seats.idxOf j = k := by omega
        subst this
        have hlt : seats.idxOf j < seats.length := List.idxOf_lt_length_iff.mpr hmem
        rw [List.getElem?_eq_getElem hlt, List.getElem_idxOf hlt]
      · omega

/-! ### busted players are held out -/

theorem held_of_reserve {sm : SM} (hinv : SM.Inv sm) (s : Nat) : SM.Held (sm.step (.reserve (s : Int))).1 s := by
  rcases SM.step_reserve_cases sm (s : Int) with ⟨hr, he⟩ | ⟨i, hi, _, he⟩
  · rw [he]
    intro x hx
    have := (List.getElem?_eq_some_iff.mp hx).1
    rw [hinv.wf] at this
    omega
  · rw [he]
    have : i = s := by omega
    subst this
    intro x hx
    rw [SM.modSeat_seats, if_pos rfl] at hx
    cases hq : sm.seats[i]? with
    | none => rw [hq] at hx; cases hx
    | some y => rw [hq] at hx; simp at hx; subst hx; left; rfl

theorem leave_sm (t : Table) (seat : Int) : (t.leave seat).1.sm = t.sm ∨ (t.leave seat).1.sm = (t.sm.step (.leave seat)).1 := by
  rcases leave_cases t seat with ⟨e, he⟩ | ⟨i, s, _, _, _, _, hl⟩
  · left; rw [he]
  · right; rw [hl]; rfl

theorem leave_held {t : Table} (h : TInv t) {i : Nat} (hh : SM.Held t.sm i) (seat : Int) : SM.Held (t.leave seat).1.sm i := by
  rcases leave_sm t seat with he | he <;> rw [he]
  · exact hh
  · exact SM.step_held h.smr.inv hh _ (by simp)

/-- `updatePlayerStates` only reserves and removes: a seat that is held out stays held out -/
theorem applyFinal_held {t : Table} (h : TInv t) {i : Nat} (hh : SM.Held t.sm i) (k : Nat) (f : Int) :
    SM.Held (t.applyFinal k f).sm i := by
  cases hk : t.seatOfGameIdx k with
  | none => rw [applyFinal_none hk]; exact hh
  | some s =>
    rw [applyFinal_eq hk]
    have h1 : TInv ({ t.modPl s (fun p => { p with bankroll := f }) with sm := (t.sm.step (.reserve (s : Int))).1 } : Table) :=
      (h.modPl s (fun p => { p with bankroll := f }) (fun _ => rfl)).sm_step_same (.reserve (s : Int)) (reserve_pidAt _ _)
    have h2 : SM.Held (t.sm.step (.reserve (s : Int))).1 i := SM.step_held h.smr.inv hh _ (by simp)
    split
    · split
      · exact leave_held h1 h2 _
      · exact h2
    · exact hh

/-- a player whose closing stack is 0 is reserved (and, in leave mode, removed) -/
theorem applyFinal_busted {t : Table} (h : TInv t) {k s : Nat} (hk : t.seatOfGameIdx k = some s) :
    SM.Held (t.applyFinal k 0).sm s := by
  rw [applyFinal_eq hk, if_pos rfl]
  have h1 : TInv ({ t.modPl s (fun p => { p with bankroll := 0 }) with sm := (t.sm.step (.reserve (s : Int))).1 } : Table) :=
    (h.modPl s (fun p => { p with bankroll := 0 }) (fun _ => rfl)).sm_step_same (.reserve (s : Int)) (reserve_pidAt _ _)
  have h2 := held_of_reserve h.smr.inv s
  split
  · exact leave_held h1 h2 _
  · exact h2

theorem applyResult_held {t : Table} (h : TInv t) {i : Nat} (hh : SM.Held t.sm i) (finals : List Int) :
    SM.Held (t.applyResult finals).sm i := by
  induction finals using List.reverseRecOn with
  | nil => exact hh
  | append_singleton fs f ih => rw [applyResult_append]; exact applyFinal_held (h.applyResult fs) ih _ _

/-- a player whose closing stack is 0 is held out after the whole result has been written back -/
theorem applyResult_busted {t : Table} (h : TInv t) {seats : List Nat} (hi : IdxOK t seats) (finals : List Int)
    (hlen : finals.length ≤ seats.length) {k s : Nat} (hk : finals[k]? = some 0) (hs : seats[k]? = some s) :
    SM.Held (t.applyResult finals).sm s := by
  induction finals using List.reverseRecOn with
  | nil => simp at hk
  | append_singleton fs f ih =>
    have hlt : fs.length < seats.length := by simp at hlen; omega
    rw [applyResult_append]
    obtain ⟨hT, _, _, hpl, _⟩ := applyResult_spec h hi fs (by omega)
    by_cases hkl : k < fs.length
    · rw [List.getElem?_append_left hkl] at hk
      exact applyFinal_held hT (ih (by omega) hk) _ _
    · have hkl' : k = fs.length := by
        have := (List.getElem?_eq_some_iff.mp hk).1
        simp at this; omega
      subst hkl'
      rw [List.getElem?_append_right (Nat.le_refl _)] at hk
      simp at hk
      subst hk
      obtain ⟨q, _, _, _, hseat⟩ := seatOf_of_closed hi hlt hpl
      rw [List.getElem?_eq_getElem hlt] at hs
      cases hs
      exact applyFinal_busted hT hseat

end Table
end Pokerface
