import Pokerface.Proofs.FlowGhost
/-
  Gap C05: betting rounds that are closed WITHOUT any player action (at `ReadyForAll`, when the
  preflop round finds nobody able to move; at `Next`, when a later street finds fewer than two
  stacks).  In both cases every non-folded seat with chips is level with the wager to match.
-/
namespace Pokerface
open Game

/-- every non-folded seat with chips has exactly the wager to match on the table -/
def AllLevel (g : Game) : Prop := ∀ p ∈ g.players, p.fold = false → 0 < p.stack → p.wager = g.cw

theorem level_of_movable0 {g : Game} (h : g.movableCount = 0) : AllLevel g := by
  intro p hp hf hs
  obtain ⟨j, hj⟩ := List.getElem?_of_mem hp
  exact absurd h (movable_pos_of_seat hj hf hs)

theorem level_of_zero {g : Game} (hw : ∀ p ∈ g.players, p.wager = 0) (hc : g.cw = 0) : AllLevel g := by
  intro p hp _ _
  rw [hw p hp, hc]

theorem wager_zero_of_noChip {g g' : Game} (nc : NoChip g g') (hw : ∀ p ∈ g.players, p.wager = 0) :
    ∀ p ∈ g'.players, p.wager = 0 :=
  fun p hp => forall_of_chips (fun c => c.2.2.2.2 = 0) nc.chips (fun q hq => hw q hq) p hp

/-- why `requestPlayerAction` closes a round -/
theorem requestPlayerAction_closed_why (g : Game) (he : g.event = .roundStarted)
    (hc : g.requestPlayerAction.event = .roundClosed) :
    g.aliveCount = 1 ∨ g.movableCount = 0 ∨ ∃ p, g.players[g.nextIdx]? = some p ∧ p.acted = true := by
  unfold Game.requestPlayerAction at hc
  by_cases h1 : g.aliveCount = 1
  · exact Or.inl h1
  · rw [if_neg h1] at hc
    by_cases h2 : g.movableCount = 0
    · exact Or.inr (Or.inl h2)
    · rw [if_neg h2] at hc
      cases hp : g.players[g.nextIdx]? with
      | none => rw [hp] at hc; simp only at hc; rw [he] at hc; cases hc
      | some p =>
        rw [hp] at hc
        simp only at hc
        by_cases ha : p.acted = true
        · exact Or.inr (Or.inr ⟨p, rfl, ha⟩)
        · rw [if_neg ha] at hc
          have : (g.setCurrentPlayer g.nextIdx).event = g.event := rfl
          rw [this, he] at hc; cases hc

/-- opening a betting round on a state where nobody is marked and two players are left closes it at once
    only when nobody can move -/
theorem openRound_closed (g : Game) (hu : AllUnacted g) (h2 : 2 ≤ g.aliveCount)
    (hc : g.openRound.event = .roundClosed) : g.movableCount = 0 := by
  unfold Game.openRound at hc
  rcases requestPlayerAction_closed_why (g.setEvent .roundStarted) rfl hc with h | h | ⟨p, hp, ha⟩
  · have : (g.setEvent .roundStarted).aliveCount = g.aliveCount := rfl
    omega
  · exact h
  · have hp' : g.players[g.nextIdx]? = some p := hp
    rw [hu p (List.mem_of_getElem? hp')] at ha; cases ha

theorem startRound'_closed (g : Game) (hu : AllUnacted g) (h2 : 2 ≤ g.aliveCount)
    (hc : g.startRound'.event = .roundClosed) : g.movableCount = 0 := by
  unfold Game.startRound' at hc
  have a1 := acts_setCurrentPlayer g g.dealerIdx
  have m1 := mov_setCurrentPlayer g g.dealerIdx
  by_cases hr : g.round = .preflop
  · rw [if_pos hr] at hc
    by_cases hm : g.movableCount = 0
    · exact hm
    · rw [if_neg hm] at hc
      have m2 := m1.trans (mov_seekBB g.n _)
      have := openRound_closed _ ((a1.trans (acts_seekBB _ _)).allUnacted hu) (by rw [m2.alive]; exact h2) hc
      rw [m2.movable] at this; exact this
  · rw [if_neg hr] at hc
    have := openRound_closed _ (a1.allUnacted hu) (by rw [m1.alive]; exact h2) hc
    rw [m1.movable] at this; exact this

/-- entering the preflop round never closes it: the chain stops at `BlindsRequested` or `ReadyRequested` -/
theorem enterRound_preflop_event (g : Game) :
    (g.enterRound .preflop).event = .blindsRequested ∨ (g.enterRound .preflop).event = .readyRequested := by
  unfold Game.enterRound Game.initializeRound Game.afterRoundInitialized
  have hr : (((g.setRound .preflop).dealStreet.updateCombinations).setEvent .roundInitialized).round = .preflop := by
    show (g.setRound .preflop).dealStreet.round = .preflop
    rw [dealStreet_round]; rfl
  rw [if_pos hr]
  unfold Game.requestBlinds
  split
  · right
    unfold Game.prepareRound
    have : ((((g.setRound .preflop).dealStreet.updateCombinations).setEvent .roundInitialized).setEvent .blindsPaid).round
        = .preflop := hr
    rw [if_pos this]; rfl
  · left; rfl

theorem enterRound_preflop_ne (g : Game) : (g.enterRound .preflop).event ≠ .roundClosed := by
  rcases enterRound_preflop_event g with h | h <;> rw [h] <;> simp

theorem prepareRound_preflop_event (g : Game) (hr : g.round = .preflop) : g.prepareRound.event = .readyRequested := by
  unfold Game.prepareRound
  rw [if_pos hr]; rfl

/-- `ReadyForAll` closes a round at once (two players left) only preflop and only when nobody can move -/
theorem ready_closed (g : Game) (hi : Inv g) (hf : Flow g) (he : g.event = .readyRequested)
    (hc : (g.step .ready).1.event = .roundClosed) (h2 : 2 ≤ (g.step .ready).1.aliveCount) :
    g.round = .preflop ∧ g.movableCount = 0 ∧ (g.step .ready).1.movableCount = 0 := by
  by_cases hr : g.round = .none
  · exfalso
    have e : (g.step .ready).1 = g.resetAllAllowed.readiness := by
      simp [Game.step, Game.readyForAll, he]
    rw [e] at hc
    unfold Game.readiness at hc
    have : g.resetAllAllowed.round = g.round := rfl
    rw [this, if_pos hr] at hc
    split at hc
    · cases hc
    · exact enterRound_preflop_ne _ hc
  · obtain ⟨hmv, hal, _⟩ := ready_postflop g he hr
    rw [ready_opens g he hr] at hc
    have hu : AllUnacted g.resetAllAllowed.resetAllAllowed := allUnacted_resetAllAllowed _
    have m : Mov g g.resetAllAllowed.resetAllAllowed := (mov_resetAllAllowed g).trans (mov_resetAllAllowed _)
    have h0 := startRound'_closed _ hu (by rw [m.alive, ← hal]; exact h2) hc
    rw [m.movable] at h0
    refine ⟨?_, h0, by rw [hmv]; exact h0⟩
    apply Classical.byContradiction
    intro hp
    have := hf.ready2 he hr hp
    omega

/-- `Next` on a closed round (dealt street): the wagers are swept and the wager to match is 0 afterwards,
    whatever the chain does next -/
theorem next_zero (g : Game) (he : g.event = .roundClosed) (hr : g.round ≠ .none) :
    (g.step .next).2 = none ∧ (g.step .next).1 = g.nextRound ∧
    (∀ p ∈ (g.step .next).1.players, p.wager = 0) ∧ (g.step .next).1.cw = 0 := by
  have e : g.step .next = (g.nextRound, none) := by
    simp [Game.step, Game.next, he, hr]
  rw [e]
  refine ⟨rfl, rfl, ?_, ?_⟩
  · unfold Game.nextRound
    refine wager_zero_of_noChip (noChip_nextRound' _) ?_
    intro p hp
    simp only [Game.resetAllPlayerStatus, Game.mapP] at hp
    obtain ⟨q, _, rfl⟩ := List.mem_map.mp hp
    rfl
  · unfold Game.nextRound
    rw [(noChip_nextRound' _).cw]; rfl

/-- when `Next` closes the following street at once, fewer than two players had chips -/
theorem next_closed_movable (g : Game) (he : g.event = .roundClosed) (hr : g.round ≠ .none)
    (hc : (g.step .next).1.event = .roundClosed) :
    g.movableCount ≤ 1 ∧ (g.step .next).1.movableCount = g.movableCount ∧
    (g.round = .preflop ∨ g.round = .flop ∨ g.round = .turn) := by
  by_cases h1 : g.aliveCount = 1
  · have hf' : g.resetRoundStatus.resetAllPlayerStatus.aliveCount = 1 := by
      rw [((mov_resetRoundStatus g).trans (mov_resetAllPlayerStatus _)).alive]; exact h1
    rw [(next_zero g he hr).2.1] at hc
    unfold Game.nextRound Game.nextRound' at hc
    rw [if_pos hf'] at hc; cases hc
  · have hrr : g.round = .preflop ∨ g.round = .flop ∨ g.round = .turn := by
      cases hrd : g.round with
      | none => exact absurd hrd hr
      | preflop => exact Or.inl rfl
      | flop => exact Or.inr (Or.inl rfl)
      | turn => exact Or.inr (Or.inr rfl)
      | river =>
        exfalso
        have hf' : ¬ g.resetRoundStatus.resetAllPlayerStatus.aliveCount = 1 := by
          rw [((mov_resetRoundStatus g).trans (mov_resetAllPlayerStatus _)).alive]; exact h1
        have hr' : g.resetRoundStatus.resetAllPlayerStatus.round = .river := hrd
        rw [(next_zero g he hr).2.1] at hc
        unfold Game.nextRound Game.nextRound' at hc
        rw [if_neg hf'] at hc
        simp only [hr'] at hc
        cases hc
    obtain ⟨_, _, _, h2, hm, _⟩ := next_street g he h1 hrr
    refine ⟨?_, hm, hrr⟩
    apply Classical.byContradiction
    intro hlt
    have := h2 (by omega)
    rw [this] at hc; cases hc

/-- The complete list of ways a round is closed by an operation that is not a player action: from a state
    that is not an open betting round, an accepted operation ending in `RoundClosed` is either the
    `ReadyForAll` that opens the preflop round with nobody able to move, or the `Next` that deals a later
    street with fewer than two stacks (wagers swept, wager to match 0). -/
theorem skip_close_cases (g : Game) (hi : Inv g) (hf : Flow g) (hne : g.event ≠ .roundStarted) (op : Op)
    (hacc : (g.step op).2 = none) (hc : (g.step op).1.event = .roundClosed) (h2 : 2 ≤ (g.step op).1.aliveCount) :
    (op = .ready ∧ g.event = .readyRequested ∧ g.round = .preflop ∧ (g.step op).1.movableCount = 0) ∨
    (op = .next ∧ g.event = .roundClosed ∧ (g.round = .preflop ∨ g.round = .flop ∨ g.round = .turn) ∧
      (g.step op).1.movableCount ≤ 1 ∧ (∀ p ∈ (g.step op).1.players, p.wager = 0) ∧ (g.step op).1.cw = 0) := by
  cases op with
  | ready =>
    have he : g.event = .readyRequested := by
      apply Classical.byContradiction
      intro h
      simp [Game.step, Game.readyForAll, h] at hacc
    obtain ⟨hr, _, hm⟩ := ready_closed g hi hf he hc h2
    exact Or.inl ⟨rfl, he, hr, hm⟩
  | payAnte =>
    exfalso
    simp only [Game.step] at hacc hc
    unfold Game.payAnte at hacc hc
    split at hacc
    · cases hacc
    · rename_i h0
      rw [if_neg h0] at hc
      split at hacc
      · cases hacc
      · rename_i h1
        rw [if_neg h1] at hc
        split at hacc
        · cases hacc
        · rename_i g' heq
          rw [heq] at hc
          simp only at hc
          unfold Game.antePaid at hc
          exact enterRound_preflop_ne _ hc
  | payBlinds =>
    exfalso
    simp only [Game.step] at hacc hc
    unfold Game.payBlinds at hacc hc
    split at hacc
    · cases hacc
    · rename_i he
      have he' : g.event = .blindsRequested := by simpa using he
      rw [if_neg he] at hc
      simp only at hc
      unfold Game.blindsPaid at hc
      have hr := hf.blinds he'
      have q : Quiet g ((((g.seatsFromDealer.foldl payBlind g).setPrev
          (if (g.seatsFromDealer.foldl payBlind g).opts.blindBB > 0 then (g.seatsFromDealer.foldl payBlind g).opts.blindBB
           else (g.seatsFromDealer.foldl payBlind g).opts.blindDealer)).resetAllAllowed).setEvent .blindsPaid) :=
        (quiet_foldl_payBlind _ g).trans (((quiet_setPrev _ _).trans (quiet_resetAllAllowed _)).trans (quiet_setEvent _ _))
      rw [prepareRound_preflop_event _ (by rw [q.round]; exact hr)] at hc
      cases hc
  | next =>
    have he : g.event = .roundClosed := by
      apply Classical.byContradiction
      intro h
      simp [Game.step, Game.next, h] at hacc
    have hr := hf.round_ne (by rw [he]; simp) (by rw [he]; simp)
    obtain ⟨_, _, hw, hcw⟩ := next_zero g he hr
    obtain ⟨hm, hm', hrr⟩ := next_closed_movable g he hr hc
    exact Or.inr ⟨rfl, he, hrr, by rw [hm']; exact hm, hw, hcw⟩
  | act seat a x =>
    exfalso
    cases seat with
    | none =>
      obtain ⟨_, _, _, he, _⟩ := act_shape2 g hi _ a x hacc
      exact hne he
    | some i =>
      obtain ⟨_, _, _, he, _⟩ := act_shape2 g hi i a x hacc
      exact hne he

/-- … and in each of them every non-folded seat with chips is level with the wager to match -/
theorem skip_close_level (g : Game) (hi : Inv g) (hf : Flow g) (hne : g.event ≠ .roundStarted) (op : Op)
    (hacc : (g.step op).2 = none) (hc : (g.step op).1.event = .roundClosed) (h2 : 2 ≤ (g.step op).1.aliveCount) :
    AllLevel (g.step op).1 := by
  rcases skip_close_cases g hi hf hne op hacc hc h2 with ⟨_, _, _, hm⟩ | ⟨_, _, _, _, hw, hcw⟩
  · exact level_of_movable0 hm
  · exact level_of_zero hw hcw

/-- every reachable state carries a ghost record -/
theorem greachable_of_reachable {g : Game} (h : Reachable g) : ∃ gh, GReachable g gh := by
  obtain ⟨c, ops, wf, hs, rfl⟩ := h
  refine ⟨((start c).1.runG (Ghost.fresh c.seats.length) ops).2, c, ops, wf, hs, ?_⟩
  rw [← runG_fst ops (start c).1 (Ghost.fresh c.seats.length)]

end Pokerface
