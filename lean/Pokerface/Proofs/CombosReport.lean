import Pokerface.Proofs.CombosSelect
import Pokerface.Proofs.CombosBest
/-
  C10, part 4: the reported category, cards and strength describe one and the same hand.
  Needs: `sortCards` only permutes, and re-sorting its output changes nothing, so that
  `calculatePower` of the reported (sorted) cards is the reported power.
-/
namespace Pokerface

section isort
variable {α : Type} (f : α → Nat)

/-- The comparison of all `sort.Slice(…, key(i) > key(j))` calls. -/
def gtBy (a b : α) : Bool := decide (f a > f b)

theorem combos_insertBy_perm (lt : α → α → Bool) (x : α) : ∀ l : List α, (insertBy lt x l).Perm (x :: l)
  | [] => List.Perm.refl _
  | y :: ys => by
    rw [insertBy]
    split
    · exact List.Perm.refl _
    · exact ((combos_insertBy_perm lt x ys).cons y).trans (List.Perm.swap x y ys)

theorem combos_foldl_insertBy_perm (lt : α → α → Bool) :
    ∀ (l acc : List α), (l.foldl (fun acc x => insertBy lt x acc) acc).Perm (acc ++ l)
  | [], acc => by simp
  | x :: t, acc => by
    rw [List.foldl_cons]
    refine (combos_foldl_insertBy_perm lt t _).trans ?_
    refine ((combos_insertBy_perm lt x acc).append_right t).trans ?_
    simpa using (List.perm_middle (a := x) (l₁ := acc) (l₂ := t)).symm

theorem combos_isort_perm (lt : α → α → Bool) (l : List α) : (isort lt l).Perm l := by
  simpa [isort] using combos_foldl_insertBy_perm lt l []

theorem insertBy_of_all_ge (x : α) : ∀ (l : List α), (∀ y ∈ l, f y ≥ f x) → insertBy (gtBy f) x l = l ++ [x]
  | [], _ => rfl
  | y :: ys, h => by
    rw [insertBy]
    have hy : gtBy f x y = false := by
      have := h y (List.mem_cons_self ..)
      simp only [gtBy, decide_eq_false_iff_not]; omega
    simp only [hy, Bool.false_eq_true, if_false, List.cons_append]
    rw [insertBy_of_all_ge x ys (fun z hz => h z (List.mem_cons_of_mem _ hz))]

theorem foldl_insertBy_of_sorted :
    ∀ (l acc : List α), (acc ++ l).Pairwise (fun a b => f a ≥ f b) →
      l.foldl (fun acc x => insertBy (gtBy f) x acc) acc = acc ++ l
  | [], acc, _ => by simp
  | x :: t, acc, h => by
    rw [List.foldl_cons]
    have hx : ∀ y ∈ acc, f y ≥ f x := by
      intro y hy
      exact (List.pairwise_append.mp h).2.2 y hy x (List.mem_cons_self ..)
    rw [insertBy_of_all_ge f x acc hx]
    have h' : ((acc ++ [x]) ++ t).Pairwise (fun a b => f a ≥ f b) := by simpa using h
    rw [foldl_insertBy_of_sorted t _ h']
    simp

theorem insertBy_sorted (x : α) : ∀ (l : List α), l.Pairwise (fun a b => f a ≥ f b) →
    (insertBy (gtBy f) x l).Pairwise (fun a b => f a ≥ f b)
  | [], _ => by simp [insertBy]
  | y :: ys, h => by
    rw [insertBy]
    have ⟨hy, hys⟩ := List.pairwise_cons.mp h
    split
    · next hlt =>
      have hxy : f x > f y := by simpa [gtBy] using hlt
      refine List.pairwise_cons.mpr ⟨?_, h⟩
      intro z hz
      rcases List.mem_cons.mp hz with rfl | hz
      · omega
      · have := hy z hz; omega
    · next hlt =>
      have hxy : ¬ f x > f y := by simpa [gtBy] using hlt
      refine List.pairwise_cons.mpr ⟨?_, insertBy_sorted x ys hys⟩
      intro z hz
      have hz' := (combos_insertBy_perm (gtBy f) x ys).mem_iff.mp hz
      rcases List.mem_cons.mp hz' with rfl | hz'
      · omega
      · exact hy z hz'

theorem combos_foldl_insertBy_sorted :
    ∀ (l acc : List α), acc.Pairwise (fun a b => f a ≥ f b) →
      (l.foldl (fun acc x => insertBy (gtBy f) x acc) acc).Pairwise (fun a b => f a ≥ f b)
  | [], _, h => h
  | x :: t, acc, h => by
    rw [List.foldl_cons]
    exact combos_foldl_insertBy_sorted t _ (insertBy_sorted f x acc h)

theorem combos_isort_sorted (l : List α) : (isort (gtBy f) l).Pairwise (fun a b => f a ≥ f b) :=
  combos_foldl_insertBy_sorted f l [] List.Pairwise.nil

theorem isort_of_sorted (l : List α) (h : l.Pairwise (fun a b => f a ≥ f b)) : isort (gtBy f) l = l := by
  simpa [isort] using foldl_insertBy_of_sorted f l [] (by simpa using h)

theorem isort_idem (l : List α) : isort (gtBy f) (isort (gtBy f) l) = isort (gtBy f) l :=
  isort_of_sorted f _ (combos_isort_sorted f l)

end isort

theorem sortCards_eq (cards : List Card) : sortCards cards = isort (gtBy (·.rank)) cards := rfl

theorem sortCards_perm (cards : List Card) : (sortCards cards).Perm cards := combos_isort_perm _ _

theorem sortCards_idem (cards : List Card) : sortCards (sortCards cards) = sortCards cards := by
  simp only [sortCards_eq]; exact isort_idem _ _

theorem sortCards_sorted (cards : List Card) : (sortCards cards).Pairwise (fun a b => a.rank ≥ b.rank) := by
  rw [sortCards_eq]; exact combos_isort_sorted _ _

/-- Evaluating the cards `CalculatePower` reports gives the very same power state. -/
theorem calculatePower_cards (lvl : Cat → Nat) (pr : List Cat) (cards : List Card) :
    calculatePower lvl pr (calculatePower lvl pr cards).cards = calculatePower lvl pr cards := by
  have h : (calculatePower lvl pr cards).cards = sortCards cards := rfl
  rw [h]
  simp only [calculatePower, sortCards_idem]

theorem calculatePower_cards_eq (lvl : Cat → Nat) (pr : List Cat) (cards : List Card) :
    (calculatePower lvl pr cards).cards = sortCards cards := rfl

/-! ### The evaluation does not depend on the order in which the five cards are handed over -/

theorem ranks_sortCards_of_perm {l₁ l₂ : List Card} (h : l₁.Perm l₂) :
    (sortCards l₁).map (·.rank) = (sortCards l₂).map (·.rank) := by
  have hp : ((sortCards l₁).map (·.rank)).Perm ((sortCards l₂).map (·.rank)) :=
    (((sortCards_perm l₁).trans h).trans (sortCards_perm l₂).symm).map _
  have s1 : ((sortCards l₁).map (·.rank)).Pairwise (· ≥ ·) := List.pairwise_map.mpr (sortCards_sorted l₁)
  have s2 : ((sortCards l₂).map (·.rank)).Pairwise (· ≥ ·) := List.pairwise_map.mpr (sortCards_sorted l₂)
  exact List.Perm.eq_of_pairwise (le := (· ≥ ·)) (fun a b _ _ h1 h2 => Nat.le_antisymm h2 h1) s1 s2 hp

theorem isFlush_iff (l : List Card) :
    isFlush l = true ↔ l ≠ [] ∧ ∀ a ∈ l, ∀ b ∈ l, a.suit = b.suit := by
  cases l with
  | nil => simp [isFlush]
  | cons c t =>
    simp only [isFlush, List.all_eq_true, beq_iff_eq, ne_eq, reduceCtorEq, not_false_eq_true, true_and]
    constructor
    · intro h a ha b hb
      rw [h a ha, h b hb]
    · intro h d hd
      exact h d hd c (List.mem_cons_self ..)

theorem isFlush_of_perm {l₁ l₂ : List Card} (h : l₁.Perm l₂) : isFlush l₁ = isFlush l₂ := by
  rw [Bool.eq_iff_iff, isFlush_iff, isFlush_iff]
  constructor
  · rintro ⟨hne, hall⟩
    exact ⟨fun h0 => hne (h0 ▸ h).eq_nil, fun a ha b hb => hall a (h.mem_iff.mpr ha) b (h.mem_iff.mpr hb)⟩
  · rintro ⟨hne, hall⟩
    exact ⟨fun h0 => hne (h0 ▸ h.symm).eq_nil, fun a ha b hb => hall a (h.mem_iff.mp ha) b (h.mem_iff.mp hb)⟩

/-- Category and strength only depend on the multiset of cards. -/
theorem calculatePower_of_perm (lvl : Cat → Nat) (pr : List Cat) {l₁ l₂ : List Card} (h : l₁.Perm l₂) :
    (calculatePower lvl pr l₁).cat = (calculatePower lvl pr l₂).cat ∧
    (calculatePower lvl pr l₁).score = (calculatePower lvl pr l₂).score := by
  have hr := ranks_sortCards_of_perm h
  have hf : isFlush (sortCards l₁) = isFlush (sortCards l₂) :=
    isFlush_of_perm (((sortCards_perm l₁).trans h).trans (sortCards_perm l₂).symm)
  simp only [calculatePower, hr, hf, and_self]

/-- `CalculatePlayerPower` returns the evaluation of an enumerated selection that no
    enumerated selection beats. -/
theorem playerPower_spec {lvl : Cat → Nat} {pr : List Cat} {board hole : List Card} {req : Nat} {pw : Power}
    (h : playerPower lvl pr board hole req = some pw) :
    (∃ sel ∈ allPossibleCombinations board hole req, pw = calculatePower lvl pr sel) ∧
    ∀ sel ∈ allPossibleCombinations board hole req, (calculatePower lvl pr sel).score ≤ pw.score := by
  have ⟨hm, hmax⟩ := bestPower_spec h
  constructor
  · obtain ⟨sel, hsel, rfl⟩ := List.mem_map.mp hm
    exact ⟨sel, hsel, rfl⟩
  · intro sel hsel
    exact hmax _ (List.mem_map_of_mem hsel)

theorem playerPower_isSome {lvl : Cat → Nat} {pr : List Cat} {board hole : List Card} {req : Nat}
    (hreq : req < 5) (hh : hole.length ≤ 9) (hb : board.length ≤ 9)
    (hall : req = 0 → hole.length + board.length ≤ 9) :
    ∃ pw, playerPower lvl pr board hole req = some pw := by
  cases hp : playerPower lvl pr board hole req with
  | some pw => exact ⟨pw, rfl⟩
  | none =>
    exfalso
    have := bestPower_eq_none.mp hp
    simp only [List.map_eq_nil_iff] at this
    exact allPossibleCombinations_ne_nil hreq hh hb hall this

end Pokerface
