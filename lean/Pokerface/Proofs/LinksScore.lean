import Pokerface.Proofs.CombosReport
import Pokerface.Generated.Tables
/-
  Links, part 1: the strength `CalculatePower` assigns is POSITIVE as soon as at least one
  card is evaluated, all ranks are ≥ 2, and the cards are not five or more deuces.

  This is the bridge between the evaluator and C02, whose theorems need a strictly positive
  strength for every non-folded player (`C02.Valid`): settlement.go treats score 0 as "folded".

  The only way to score 0 is category "high card" (offset 0 in both ranking tables) with all
  kicker values `rank - 2 = 0`, i.e. nothing but deuces.  Two, three, four deuces are a pair, trips,
  quads and get a positive offset.  ONE deuce is — surprisingly — not a high card either:
  `isFlush` has no five-card check, so a single card (and any two..four suited cards) is classed
  "Flush" and gets the flush offset (observation, reported).  Five (or more) deuces in mixed
  suits would be classed "high card" by the chain of `CalculatePower` (no count is 4, 3 or 2)
  with score 0 — no four-suit deck has them, and the statement excludes them explicitly.  The
  empty list scores 0.
-/
namespace Pokerface
open Generated

/-- The ranking table is one of the two tables shipped in combination.go. -/
def ShippedTable (T : List Cat) : Prop := T = powerStandard ∨ T = powerShortDeck

/-- In both shipped tables, with the shipped sizes, every category except high card has a
    positive offset (`decide` on the regenerated constants: a changed constant that makes an
    offset 0 breaks this lemma). -/
theorem powerLevels_pos {T : List Cat} (hT : ShippedTable T) {c : Cat} (hc : c ≠ .highCard) :
    0 < powerLevels combinationLevel T c := by
  rcases hT with rfl | rfl <;> cases c <;> first | exact absurd rfl hc | decide

theorem positional_pos : ∀ {es : List Elem}, (∃ e ∈ es, 2 < e.rank) → 0 < positional es
  | [], h => by obtain ⟨e, he, _⟩ := h; cases he
  | e :: es, h => by
    obtain ⟨x, hx, hr⟩ := h
    unfold positional
    rcases List.mem_cons.mp hx with rfl | hx
    · have h1 : 0 < x.rank - 2 := by omega
      have h2 : 0 < 13 ^ es.length := Nat.pow_pos (by decide)
      have := Nat.mul_pos h1 h2
      omega
    · have := positional_pos ⟨x, hx, hr⟩
      omega

theorem addElem_keeps (r : Nat) : ∀ (es : List Elem) (r' : Nat), (∃ e ∈ es, e.rank = r) → ∃ e ∈ addElem es r', e.rank = r
  | [], _, h => by obtain ⟨e, he, _⟩ := h; cases he
  | e :: es, r', h => by
    obtain ⟨x, hx, hr⟩ := h
    unfold addElem
    split
    · next heq =>
      rcases List.mem_cons.mp hx with rfl | hx
      · exact ⟨{ x with count := x.count + 1 }, List.mem_cons_self .., hr⟩
      · exact ⟨x, List.mem_cons_of_mem _ hx, hr⟩
    · rcases List.mem_cons.mp hx with rfl | hx
      · exact ⟨x, List.mem_cons_self .., hr⟩
      · obtain ⟨y, hy, hyr⟩ := addElem_keeps r es r' ⟨x, hx, hr⟩
        exact ⟨y, List.mem_cons_of_mem _ hy, hyr⟩

theorem addElem_has : ∀ (es : List Elem) (r : Nat), ∃ e ∈ addElem es r, e.rank = r
  | [], r => ⟨_, List.mem_cons_self .., rfl⟩
  | e :: es, r => by
    unfold addElem
    split
    · next heq => exact ⟨{ e with count := e.count + 1 }, List.mem_cons_self .., heq⟩
    · obtain ⟨y, hy, hyr⟩ := addElem_has es r
      exact ⟨y, List.mem_cons_of_mem _ hy, hyr⟩

theorem foldl_addElem_has (r : Nat) : ∀ (rs : List Nat) (acc : List Elem),
    (r ∈ rs ∨ ∃ e ∈ acc, e.rank = r) → ∃ e ∈ rs.foldl addElem acc, e.rank = r
  | [], acc, h => by
    rcases h with h | h
    · cases h
    · exact h
  | x :: rs, acc, h => by
    rw [List.foldl_cons]
    apply foldl_addElem_has r rs
    rcases h with h | h
    · rcases List.mem_cons.mp h with rfl | h
      · exact Or.inr (addElem_has acc _)
      · exact Or.inl h
    · exact Or.inr (addElem_keeps r acc x h)

/-- every rank of the hand has an element in `GetElementsByRank` -/
theorem elements_has {rs : List Nat} {r : Nat} (h : r ∈ rs) : ∃ e ∈ elements rs, e.rank = r := by
  obtain ⟨e, he, hr⟩ := foldl_addElem_has r rs [] (Or.inl h)
  exact ⟨e, (combos_isort_perm _ _).mem_iff.mpr he, hr⟩

/-- Score from the sorted ranks: positive when some rank exceeds 2 or the category is not
    high card. -/
theorem scoreOfRanks_pos {T : List Cat} (hT : ShippedTable T) (rs : List Nat) (fl : Bool)
    (h : (∃ r ∈ rs, 2 < r) ∨ category rs fl ≠ .highCard) :
    0 < (scoreOfRanks combinationLevel T rs fl).2 := by
  show 0 < powerScore (category rs fl) (elements rs) + powerLevels combinationLevel T (category rs fl)
  by_cases hc : category rs fl = .highCard
  · rcases h with ⟨r, hr, h2⟩ | h
    · obtain ⟨e, he, her⟩ := elements_has hr
      have : 0 < positional (elements rs) := positional_pos ⟨e, he, by omega⟩
      rw [hc]
      have hs : powerScore .highCard (elements rs) = positional (elements rs) := by
        simp [powerScore]
      omega
    · exact absurd hc h
  · have := powerLevels_pos hT hc
    omega

/-- two, three or four deuces are a pair, trips, quads -/
theorem category_deuces (n : Nat) (h2 : 2 ≤ n) (h4 : n ≤ 4) (fl : Bool) :
    category (List.replicate n 2) fl ≠ .highCard := by
  have : n = 2 ∨ n = 3 ∨ n = 4 := by omega
  rcases this with rfl | rfl | rfl <;> cases fl <;> decide

theorem calculatePower_score (lvl : Cat → Nat) (pr : List Cat) (cards : List Card) :
    (calculatePower lvl pr cards).score =
      (scoreOfRanks lvl pr ((sortCards cards).map (·.rank)) (isFlush (sortCards cards))).2 := rfl

/-- one card is a "flush" -/
theorem isFlush_of_length_one {l : List Card} (h : l.length = 1) : isFlush l = true := by
  match l, h with
  | [c], _ => simp [isFlush]

/-- **`score_pos`.**  `CalculatePower` with the shipped category sizes and a shipped ranking table
    gives a strictly positive strength to every non-empty list of cards with ranks ≥ 2, provided
    it has at most four cards or contains a card above the deuce (i.e. it is not five or more
    deuces).  Any suits, any order, duplicates allowed, any number of cards. -/
theorem score_pos {T : List Cat} (hT : ShippedTable T) (cards : List Card)
    (h2 : cards ≠ []) (hr : ∀ c ∈ cards, 2 ≤ c.rank)
    (hd : cards.length ≤ 4 ∨ ∃ c ∈ cards, 2 < c.rank) :
    0 < (calculatePower combinationLevel T cards).score := by
  rw [calculatePower_score]
  apply scoreOfRanks_pos hT
  have hp := sortCards_perm cards
  by_cases hex : ∃ c ∈ cards, 2 < c.rank
  · obtain ⟨c, hc, h⟩ := hex
    exact Or.inl ⟨c.rank, List.mem_map.mpr ⟨c, hp.mem_iff.mpr hc, rfl⟩, h⟩
  · right
    have hlen : cards.length ≤ 4 := by
      rcases hd with h | h
      · exact h
      · exact absurd h hex
    have hall : ∀ r ∈ (sortCards cards).map (·.rank), r = 2 := by
      intro r hr'
      obtain ⟨c, hc, rfl⟩ := List.mem_map.mp hr'
      have hc' := hp.mem_iff.mp hc
      have h1 := hr c hc'
      have h3 : ¬ 2 < c.rank := fun h => hex ⟨c, hc', h⟩
      omega
    have heq : (sortCards cards).map (·.rank) = List.replicate cards.length 2 := by
      rw [List.eq_replicate_iff]
      exact ⟨by rw [List.length_map, hp.length_eq], hall⟩
    rw [heq]
    have hpos : 0 < cards.length := List.length_pos_iff.mpr h2
    by_cases h1 : cards.length = 1
    · rw [isFlush_of_length_one (by rw [hp.length_eq, h1]), h1]
      decide
    · exact category_deuces _ (by omega) hlen _

/-- The hypotheses are sharp: no card at all scores 0 under both tables, … -/
example : (calculatePower combinationLevel powerStandard []).score = 0 ∧
    (calculatePower combinationLevel powerShortDeck []).score = 0 := by decide
/-- … ONE deuce is classed a flush (`isFlush` does not ask for five cards) and scores the flush
    offset, … -/
example : (calculatePower combinationLevel powerStandard [⟨83, 2⟩]).cat = .flush ∧
    (calculatePower combinationLevel powerStandard [⟨83, 2⟩]).score = 371293 + 28561 + 2197 + 2197 + 13 := by decide
/-- … two deuces get the pair offset, … -/
example : (calculatePower combinationLevel powerStandard [⟨83, 2⟩, ⟨72, 2⟩]).score = 371293 := by decide
/-- … the weakest two-card holding 3-2 scores 13, … -/
example : (calculatePower combinationLevel powerStandard [⟨83, 2⟩, ⟨72, 3⟩]).score = 13 := by decide
/-- … two suited cards are a "flush" and outrank a pair of aces (such short "hands" are published
    before the flop only; a showdown between live hands has a full board, C05), … -/
example : (calculatePower combinationLevel powerStandard [⟨83, 14⟩, ⟨72, 14⟩]).score
    < (calculatePower combinationLevel powerStandard [⟨83, 7⟩, ⟨83, 2⟩]).score := by decide
/-- … and five deuces (not in any deck) would score 0 again. -/
example : (calculatePower combinationLevel powerStandard [⟨83, 2⟩, ⟨72, 2⟩, ⟨68, 2⟩, ⟨67, 2⟩, ⟨1, 2⟩]).score = 0 := by
  decide

end Pokerface
