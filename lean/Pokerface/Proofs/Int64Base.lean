import Pokerface.Proofs.EngineReach
import Pokerface.Proofs.Bets
/-
  Helpers for Properties/Int64Exact.lean: sums of bankrolls, the list predicate `AllFit`.
-/
namespace Pokerface.I64
open Pokerface Game

/-- the value is an int64 -/
def Fits (v : Int) : Prop := -(2^63) ≤ v ∧ v < 2^63

/-- every value of the list is an int64 -/
def AllFit (l : List Int) : Prop := ∀ v ∈ l, Fits v

theorem allFit_nil : AllFit [] := fun _ h => by cases h

theorem allFit_cons {a : Int} {l : List Int} (ha : Fits a) (hl : AllFit l) : AllFit (a :: l) := by
  intro v hv
  rcases List.mem_cons.mp hv with rfl | h
  · exact ha
  · exact hl v h

theorem allFit_append {l m : List Int} (hl : AllFit l) (hm : AllFit m) : AllFit (l ++ m) := by
  intro v hv
  rcases List.mem_append.mp hv with h | h
  · exact hl v h
  · exact hm v h

/-- the chips in the hand: the sum of the bankrolls -/
def total (g : Game) : Int := (g.players.map (·.bankroll)).sum

theorem le_sum_of_mem {α : Type} (f : α → Int) : ∀ (l : List α), (∀ a ∈ l, 0 ≤ f a) → ∀ a ∈ l, f a ≤ (l.map f).sum
  | [], _, a, h => by cases h
  | b :: l, h0, a, h => by
    have ih := le_sum_of_mem f l (fun a ha => h0 a (List.mem_cons_of_mem _ ha))
    have hs : 0 ≤ (l.map f).sum := by
      clear ih h
      induction l with
      | nil => simp
      | cons c l ihl =>
        have := h0 c (by simp)
        have := ihl (fun a ha => h0 a (by
          rcases List.mem_cons.mp ha with rfl | h
          · simp
          · simp [h]))
        simp only [List.map_cons, List.sum_cons]; omega
    have hb := h0 b (by simp)
    simp only [List.map_cons, List.sum_cons]
    rcases List.mem_cons.mp h with rfl | h
    · omega
    · have := ih a h; omega

theorem sum_le_sum {α : Type} (f k : α → Int) : ∀ (l : List α), (∀ a ∈ l, f a ≤ k a) → (l.map f).sum ≤ (l.map k).sum
  | [], _ => by simp
  | b :: l, h => by
    have ih := sum_le_sum f k l (fun a ha => h a (List.mem_cons_of_mem _ ha))
    have := h b (by simp)
    simp only [List.map_cons, List.sum_cons]; omega

theorem sum_nonneg {α : Type} (f : α → Int) : ∀ (l : List α), (∀ a ∈ l, 0 ≤ f a) → 0 ≤ (l.map f).sum
  | [], _ => by simp
  | b :: l, h => by
    have ih := sum_nonneg f l (fun a ha => h a (List.mem_cons_of_mem _ ha))
    have := h b (by simp)
    simp only [List.map_cons, List.sum_cons]; omega

/-- per-player facts in the form `omega` uses -/
theorem pinv_facts {g : Game} (pinv : ∀ p ∈ g.players, PInv p) (p : Player) (hp : p ∈ g.players) :
    0 ≤ p.stack ∧ 0 ≤ p.wager ∧ 0 ≤ p.pot ∧ p.bankroll = p.stack + p.wager + p.pot ∧
    p.stack = p.initial - p.wager ∧ p.bankroll ≤ total g := by
  have h := pinv p hp
  refine ⟨h.stack0, h.wager0, h.pot0, h.split, h.rebase, ?_⟩
  exact le_sum_of_mem (·.bankroll) g.players (fun a ha => by
    have q := pinv a ha
    have := q.split; have := q.stack0; have := q.wager0; have := q.pot0; omega) p hp

theorem roundPot_bounds {g : Game} (ok : ChipsOK0 g) : 0 ≤ g.roundPot ∧ g.roundPot ≤ total g := by
  rw [ok.rp]
  constructor
  · exact sum_nonneg (·.wager) g.players (fun a ha => (ok.pinv a ha).wager0)
  · exact sum_le_sum (·.wager) (·.bankroll) g.players (fun a ha => by
      have q := ok.pinv a ha
      have := q.split; have := q.stack0; have := q.wager0; have := q.pot0; omega)

theorem sum_add_le {α : Type} (f k : α → Int) : ∀ (l : List α), (∀ a ∈ l, f a ≤ k a) →
    ∀ a ∈ l, (l.map f).sum + (k a - f a) ≤ (l.map k).sum
  | [], _, a, h => by cases h
  | b :: l, h0, a, h => by
    have h0' : ∀ a ∈ l, f a ≤ k a := fun a ha => h0 a (List.mem_cons_of_mem _ ha)
    have hb := h0 b (by simp)
    simp only [List.map_cons, List.sum_cons]
    rcases List.mem_cons.mp h with rfl | h
    · have := sum_le_sum f k l h0'; omega
    · have := sum_add_le f k l h0' a h; omega

/-- the wagers on the table plus what one player still holds are chips of the hand -/
theorem roundPot_stack {g : Game} (ok : ChipsOK0 g) (p : Player) (hp : p ∈ g.players) :
    g.roundPot + p.stack ≤ total g := by
  rw [ok.rp]
  have := sum_add_le (·.wager) (·.bankroll) g.players (fun a ha => by
      have q := ok.pinv a ha
      have := q.split; have := q.stack0; have := q.wager0; have := q.pot0; omega) p hp
  have q := ok.pinv p hp
  have := q.split; have := q.pot0
  simp only [Game.wagerSum, total] at *
  omega

end Pokerface.I64
