/-
  Analysis of `nextDealer` and `renewSeatStatus`.
-/
import Pokerface.Proofs.SMBasic

namespace Pokerface
namespace SM

/-- seat update "activate". -/
def actv (s : Seat) : Seat := { s with active := true }
/-- seat update "deactivate when empty". -/
def deact (s : Seat) : Seat := if s.player.isNone then { s with active := false } else s
/-- seat update "activate when occupied and not reserved". -/
def actvOcc (s : Seat) : Seat := if !s.reserved && s.player.isSome then { s with active := true } else s

@[simp] theorem actv_actv (s : Seat) : actv (actv s) = actv s := rfl
@[simp] theorem deact_deact (s : Seat) : deact (deact s) = deact s := by
  unfold deact; split <;> simp_all
@[simp] theorem actvOcc_actvOcc (s : Seat) : actvOcc (actvOcc s) = actvOcc s := by
  unfold actvOcc; split <;> simp_all

theorem activate_eq (sm : SM) (ids : List Nat) : sm.activate ids = sm.modAll ids actv := rfl

/-! ### "only `active` flags went up" -/

def SeatUp (o o' : Option Seat) : Prop := o' = o ∨ o' = o.map actv

theorem SeatUp.refl (o : Option Seat) : SeatUp o o := Or.inl rfl

theorem SeatUp.trans {a b c : Option Seat} (h1 : SeatUp a b) (h2 : SeatUp b c) : SeatUp a c := by
  unfold SeatUp at *
  rcases h1 with rfl | rfl <;> rcases h2 with rfl | rfl
  · left; rfl
  · right; rfl
  · right; rfl
  · right; cases a <;> simp

/-- `sm'` is `sm` with some seats activated (dealer may differ). -/
structure ActUp (sm sm' : SM) : Prop where
  max : sm'.max = sm.max
  len : sm'.seats.length = sm.seats.length
  sb : sm'.sb = sm.sb
  bb : sm'.bb = sm.bb
  seat : ∀ i : Nat, SeatUp sm.seats[i]? sm'.seats[i]?

theorem ActUp.refl (sm : SM) : ActUp sm sm := ⟨rfl, rfl, rfl, rfl, fun _ => SeatUp.refl _⟩

theorem ActUp.trans {a b c : SM} (h1 : ActUp a b) (h2 : ActUp b c) : ActUp a c :=
  ⟨h2.max.trans h1.max, h2.len.trans h1.len, h2.sb.trans h1.sb, h2.bb.trans h1.bb,
   fun i => (h1.seat i).trans (h2.seat i)⟩

theorem ActUp.setDealer (sm : SM) (d : Option Nat) : ActUp sm { sm with dealer := d } :=
  ⟨rfl, rfl, rfl, rfl, fun _ => SeatUp.refl _⟩

theorem ActUp.modSeat (sm : SM) (i : Nat) (f : Seat → Seat) (hf : ∀ s, f s = s ∨ f s = actv s) :
    ActUp sm (sm.modSeat i f) := by
  refine ⟨rfl, by simp, rfl, rfl, fun j => ?_⟩
  rw [modSeat_seats]
  unfold SeatUp
  split
  · cases h : sm.seats[j]? with
    | none => simp
    | some s => rcases hf s with h' | h' <;> simp [h']
  · left; rfl

theorem ActUp.modAll (sm : SM) (ids : List Nat) (f : Seat → Seat) (hf : ∀ s, f s = s ∨ f s = actv s) :
    ActUp sm (sm.modAll ids f) := by
  induction ids generalizing sm with
  | nil => exact ActUp.refl sm
  | cons i ids ih => exact (ActUp.modSeat sm i f hf).trans (ih _)

theorem actv_up (s : Seat) : actv s = s ∨ actv s = actv s := Or.inr rfl
theorem actvOcc_up (s : Seat) : actvOcc s = s ∨ actvOcc s = actv s := by
  unfold actvOcc; split
  · right; rfl
  · left; rfl

theorem ActUp.wf {sm sm' : SM} (h : ActUp sm sm') (hw : sm.WF) : sm'.WF := by
  unfold WF at *; rw [h.len, h.max, hw]

theorem ActUp.playable {sm sm' : SM} (h : ActUp sm sm') {i : Nat} (hp : sm.playable i = true) :
    sm'.playable i = true := by
  unfold SM.playable at *
  rcases h.seat i with h' | h' <;> rw [h']
  · exact hp
  · cases hs : sm.seats[i]? with
    | none => simp [hs] at hp
    | some s =>
      simp [hs, actv] at hp ⊢
      obtain ⟨⟨_, h2⟩, h3⟩ := hp
      exact ⟨h2, h3⟩


/-! ### nextDealer: general facts -/

/-- The scan list of `nextDealer`'s normal path. -/
def scanIds (sm : SM) : List Nat :=
  match sm.dealer with
  | none => sm.normalize 0
  | some d => (sm.normalize d).drop 1

theorem nextDealer_actUp (sm : SM) : ActUp sm sm.nextDealer.1 := by
  unfold nextDealer
  split
  · split
    · exact ActUp.refl sm
    · split
      · exact ActUp.refl sm
      · next d hd =>
        exact (ActUp.setDealer sm (some d)).trans (ActUp.modAll _ _ actvOcc actvOcc_up)
  · simp only
    split
    · next d k hf =>
      exact (ActUp.modAll sm _ actv actv_up).trans (ActUp.setDealer _ _)
    · split
      · exact (ActUp.modAll sm _ actv actv_up).trans (ActUp.setDealer _ _)
      · exact (ActUp.modAll sm _ actv actv_up).trans (ActUp.setDealer _ _)


@[simp] theorem playable_setDealer (sm : SM) (d : Option Nat) (i : Nat) :
    ({ sm with dealer := d } : SM).playable i = sm.playable i := rfl
@[simp] theorem playable_setSb (sm : SM) (d : Option Nat) (i : Nat) :
    ({ sm with sb := d } : SM).playable i = sm.playable i := rfl
@[simp] theorem playable_setBb (sm : SM) (d : Option Nat) (i : Nat) :
    ({ sm with bb := d } : SM).playable i = sm.playable i := rfl

/-- `nextDealer` restated with named seat updates. -/
theorem nextDealer_eq (sm : SM) : sm.nextDealer =
    if sm.playableCount = 1 then
      if sm.nonEmptyCount ≤ 1 then (sm, false)
      else match sm.firstPlayable with
        | none => (sm, false)
        | some d => (({ sm with dealer := some d } : SM).modAll ((sm.normalize d).drop 1) actvOcc, true)
    else
      match sm.findActive sm.scanIds with
      | some (d, k) => ({ sm.modAll (sm.scanIds.take k) actv with dealer := some d }, true)
      | none =>
        match (sm.modAll sm.scanIds actv).findActive sm.scanIds with
        | some (d, _) => ({ sm.modAll sm.scanIds actv with dealer := some d }, true)
        | none => ({ sm.modAll sm.scanIds actv with dealer := none }, false) := by
  rfl

/-- When `nextDealer` reports a dealer, that seat is playable in the resulting state. -/
theorem nextDealer_found (sm : SM) (h : sm.nextDealer.2 = true) :
    ∃ d, sm.nextDealer.1.dealer = some d ∧ sm.nextDealer.1.playable d = true := by
  rw [nextDealer_eq] at h ⊢
  split
  · next h1 =>
    rw [if_pos h1] at h
    split
    · next h2 => rw [if_pos h2] at h; cases h
    · next h2 =>
      rw [if_neg h2] at h
      split
      · next hd => rw [hd] at h; cases h
      · next d hd =>
        refine ⟨d, by simp, ?_⟩
        have hp : sm.playable d = true := by
          have := List.find?_some hd; simpa using this
        exact (ActUp.modAll _ _ actvOcc actvOcc_up).playable (by simpa using hp)
  · next h1 =>
    rw [if_neg h1] at h
    split
    · next d k hf =>
      refine ⟨d, rfl, ?_⟩
      have hp := ((findActive_some _ _ _ _).mp hf).2.1
      simp only [playable_setDealer]
      exact (ActUp.modAll sm _ actv actv_up).playable hp
    · next hf =>
      rw [hf] at h
      split
      · next d k hf2 =>
        refine ⟨d, rfl, ?_⟩
        exact ((findActive_some _ _ _ _).mp hf2).2.1
      · next hf2 => simp only [hf2] at h; cases h


/-! ### membership in prefixes / suffixes of `normalize` by offsets -/

theorem mem_normalize_take (sm : SM) (d : Nat) {j : Nat} (n : Nat) (hj : j < sm.max) :
    (d + j) % sm.max ∈ (sm.normalize d).take n ↔ j < n := by
  rw [List.mem_iff_getElem?]
  constructor
  · rintro ⟨i, hi⟩
    rw [List.getElem?_take] at hi
    split at hi
    · next hin =>
      rw [normalize_getElem?] at hi
      split at hi
      · next him =>
        have := offset_inj him hj (by simpa using hi)
        omega
      · cases hi
    · cases hi
  · intro h
    exact ⟨j, by rw [List.getElem?_take, if_pos h, normalize_getElem?, if_pos hj]⟩

theorem mem_normalize_drop (sm : SM) (d : Nat) {j : Nat} (n : Nat) (hj : j < sm.max) :
    (d + j) % sm.max ∈ (sm.normalize d).drop n ↔ n ≤ j := by
  rw [List.mem_iff_getElem?]
  constructor
  · rintro ⟨i, hi⟩
    rw [normalize_drop_getElem?] at hi
    split at hi
    · next him =>
      have := offset_inj him hj (by simpa using hi)
      omega
    · cases hi
  · intro h
    refine ⟨j - n, ?_⟩
    rw [normalize_drop_getElem?]
    have : n + (j - n) = j := by omega
    rw [this, if_pos hj]

theorem takeWhile_ne_of_nodup {l : List Nat} (hn : l.Nodup) {n b : Nat} (h : l[n]? = some b) :
    l.takeWhile (· != b) = l.take n := by
  induction l generalizing n with
  | nil => simp
  | cons a l ih =>
    cases n with
    | zero =>
      simp at h; subst h; simp
    | succ n =>
      simp at h
      have hne : a ≠ b := by
        intro hab; subst hab
        have : a ∈ l := List.mem_of_getElem? h
        exact (List.nodup_cons.mp hn).1 this
      simp [hne, ih (List.nodup_cons.mp hn).2 h]


/-! ### renewSeatStatus -/

/-- Second half of `renewSeatStatus`: big blind, deactivation, activation. -/
def renewTail (sm : SM) (orig seats : List Nat) : Option SM :=
  if seats.isEmpty then none
  else
    match sm.findActive (seats.drop 1) with
    | none => none
    | some (b, k) =>
      some ((({ sm with bb := some b } : SM).modAll (orig.takeWhile (· != b)) deact).modAll
        (((seats.drop 1).drop k).drop 1) actv)

theorem renewSeatStatus_eq (sm : SM) : sm.renewSeatStatus =
    match sm.dealer with
    | none => none
    | some d =>
      if sm.playableCount = 2 then
        renewTail { sm with sb := some d } (sm.normalize d) (sm.normalize d)
      else
        match sm.findActive ((sm.normalize d).drop 1) with
        | none => none
        | some (s, k) =>
          renewTail { sm with sb := some s } (sm.normalize d) (((sm.normalize d).drop 1).drop k) := by
  unfold renewSeatStatus
  cases sm.dealer with
  | none => rfl
  | some d =>
    by_cases h : sm.playableCount = 2
    · simp only [h, if_true]; rfl
    · simp only [h, if_false]
      cases sm.findActive ((sm.normalize d).drop 1) with
      | none => rfl
      | some p => rfl

/-- Seat update applied by `renewSeatStatus` at offset `j` from the dealer when the big blind is at offset `kb`. -/
def renewF (kb j : Nat) : Seat → Seat := if j < kb then deact else if j = kb then id else actv

theorem renewTail_spec (sm : SM) (d ks : Nat) (hks : ks < sm.max)
    (hcnt : 1 ≤ ((sm.normalize d).drop (ks + 1)).countP sm.playable) :
    ∃ kb sm', ks < kb ∧ kb < sm.max ∧ sm.playable ((d + kb) % sm.max) = true ∧
      (∀ j, ks < j → j < kb → sm.playable ((d + j) % sm.max) = false) ∧
      renewTail sm (sm.normalize d) ((sm.normalize d).drop ks) = some sm' ∧
      sm'.max = sm.max ∧ sm'.dealer = sm.dealer ∧ sm'.sb = sm.sb ∧ sm'.bb = some ((d + kb) % sm.max) ∧
      sm'.seats.length = sm.seats.length ∧
      ∀ j, j < sm.max → sm'.seats[(d + j) % sm.max]? = (sm.seats[(d + j) % sm.max]?).map (renewF kb j) := by
  obtain ⟨b, k, hf⟩ := findActive_some_of_countP_pos sm _ hcnt
  have hf' := (findActive_some _ _ _ _).mp hf
  obtain ⟨hget, hpb, hall⟩ := hf'
  rw [normalize_drop_getElem?] at hget
  split at hget
  case isFalse => cases hget
  next hlt =>
  simp only [Option.some.injEq] at hget
  have hne : ((sm.normalize d).drop ks).isEmpty = false := by
    rw [List.isEmpty_eq_false_iff]
    intro h
    have := congrArg List.length h
    simp at this; omega
  have hbget : (sm.normalize d)[ks + 1 + k]? = some b := by
    rw [normalize_getElem?, if_pos hlt, hget]
  have hrt : renewTail sm (sm.normalize d) ((sm.normalize d).drop ks) =
      some ((({ sm with bb := some b } : SM).modAll ((sm.normalize d).takeWhile (· != b)) deact).modAll
        ((sm.normalize d).drop (ks + 1 + k + 1)) actv) := by
    unfold renewTail
    rw [hne]
    simp only [Bool.false_eq_true, if_false, List.drop_drop]
    rw [hf]
  refine ⟨ks + 1 + k, _, by omega, hlt, by rw [hget]; exact hpb, ?_, hrt, ?_⟩
  · intro j hj1 hj2
    have := hall (j - (ks + 1)) (by omega) ((d + j) % sm.max) (by
      rw [normalize_drop_getElem?]
      have e : ks + 1 + (j - (ks + 1)) = j := by omega
      rw [e, if_pos (by omega)])
    exact this
  · refine ⟨by simp, by simp, by simp, by simp [hget], by simp, ?_⟩
    intro j hj
    rw [modAll_seats _ _ _ actv_actv, modAll_seats _ _ _ deact_deact,
      takeWhile_ne_of_nodup (normalize_nodup sm d) hbget]
    simp only [mem_normalize_take sm d _ hj, mem_normalize_drop sm d _ hj]
    unfold renewF
    by_cases h1 : j < ks + 1 + k
    · have : ¬ (ks + 1 + k + 1 ≤ j) := by omega
      simp [h1, this]
    · by_cases h2 : j = ks + 1 + k
      · subst h2
        simp
        intro h; omega
      · have : ks + 1 + k + 1 ≤ j := by omega
        simp [h1, h2, this]


theorem playableCount_le_max (sm : SM) : sm.playableCount ≤ sm.max := by
  unfold playableCount
  exact (List.length_filter_le _ _).trans (by simp)

/-- Complete description of a `renewSeatStatus` call made with a dealer and at least two playable seats:
it does not panic; small blind at offset `ks`, big blind at offset `kb` from the dealer; seats before the
big blind are deactivated when empty, seats after it are activated. -/
theorem renew_spec (sm : SM) (d : Nat) (hd : sm.dealer = some d) (hdlt : d < sm.max)
    (hc : 2 ≤ sm.playableCount) :
    ∃ ks kb sm', ks < kb ∧ kb < sm.max ∧
      (sm.playableCount = 2 ∧ ks = 0 ∨
        sm.playableCount ≠ 2 ∧ 0 < ks ∧ sm.playable ((d + ks) % sm.max) = true ∧
          ∀ j, 0 < j → j < ks → sm.playable ((d + j) % sm.max) = false) ∧
      sm.playable ((d + kb) % sm.max) = true ∧
      (∀ j, ks < j → j < kb → sm.playable ((d + j) % sm.max) = false) ∧
      sm.renewSeatStatus = some sm' ∧
      sm'.max = sm.max ∧ sm'.dealer = some d ∧ sm'.sb = some ((d + ks) % sm.max) ∧
      sm'.bb = some ((d + kb) % sm.max) ∧ sm'.seats.length = sm.seats.length ∧
      ∀ j, j < sm.max → sm'.seats[(d + j) % sm.max]? = (sm.seats[(d + j) % sm.max]?).map (renewF kb j) := by
  have hmax : 2 ≤ sm.max := hc.trans (playableCount_le_max sm)
  have hcn := playableCount_eq_normalize sm d
  have h1 := countP_drop_one_ge sm.playable (sm.normalize d)
  rw [renewSeatStatus_eq, hd]
  simp only
  by_cases h2 : sm.playableCount = 2
  · rw [if_pos h2]
    obtain ⟨kb, sm', hk1, hk2, hp, hall, hrt, e1, e2, e3, e4, e5, e6⟩ :=
      renewTail_spec ({ sm with sb := some d } : SM) d 0 (by show 0 < sm.max; omega)
        (by show 1 ≤ ((sm.normalize d).drop (0 + 1)).countP sm.playable; simp only [Nat.zero_add]; omega)
    refine ⟨0, kb, sm', hk1, hk2, Or.inl ⟨h2, rfl⟩, hp, hall, (by rw [hd] at hrt; exact hrt), e1, ?_, ?_, e4, e5, e6⟩
    · rw [e2]; exact hd
    · rw [e3]; simp [Nat.mod_eq_of_lt hdlt]
  · rw [if_neg h2]
    have hc3 : 2 ≤ ((sm.normalize d).drop 1).countP sm.playable := by omega
    obtain ⟨s, k, hf⟩ := findActive_some_of_countP_pos sm ((sm.normalize d).drop 1) (by omega)
    rw [hf]
    simp only
    have hcd := countP_drop_of_findActive hf
    obtain ⟨hget, hps, halls⟩ := (findActive_some _ _ _ _).mp hf
    rw [normalize_drop_getElem?] at hget
    split at hget
    case isFalse => cases hget
    next hlt =>
    simp only [Option.some.injEq] at hget
    have h3 := countP_drop_one_ge sm.playable (((sm.normalize d).drop 1).drop k)
    simp only [List.drop_drop] at h3 hcd ⊢
    obtain ⟨kb, sm', hk1, hk2, hp, hall, hrt, e1, e2, e3, e4, e5, e6⟩ :=
      renewTail_spec ({ sm with sb := some s } : SM) d (1 + k) hlt
        (by show 1 ≤ ((sm.normalize d).drop (1 + k + 1)).countP sm.playable; omega)
    refine ⟨1 + k, kb, sm', hk1, hk2, Or.inr ⟨h2, by omega, by rw [hget]; exact hps, ?_⟩,
      hp, hall, (by rw [hd] at hrt; exact hrt), e1, ?_, ?_, e4, e5, e6⟩
    · intro j hj1 hj2
      have := halls (j - 1) (by omega) ((d + j) % sm.max) (by
        rw [normalize_drop_getElem?]
        have e : 1 + (j - 1) = j := by omega
        rw [e, if_pos (by omega)])
      exact this
    · rw [e2]; exact hd
    · rw [e3]; simp [hget]

end SM
end Pokerface
