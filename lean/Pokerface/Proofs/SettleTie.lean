import Pokerface.Proofs.SettleTotal
/-
  Winners of a level, per-pot decomposition and fairness of ties (helper lemmas for C02).
-/
namespace Pokerface

variable {es : List (Nat × Int × Bool)} {rows : List Row}

theorem eff_of_not_folded {r : Row} (h : r.2.2.1 = false) : eff r = r.2.2.2 := by simp [eff, h]

theorem not_folded_of_eff_pos {r : Row} (h : 0 < eff r) : r.2.2.1 = false := by
  unfold eff at h
  split at h
  · omega
  · rename_i hf; simpa using hf

/-- With a non-folded contributor, the winners of a level are exactly its non-folded
    contributors of maximal score. -/
theorem level_winners_rows (g : GameIn es rows) {l : Level} (hl : l ∈ (llOf es).levels)
    (hex : ∃ r ∈ rows, r.1 ∈ l.contributors ∧ r.2.2.1 = false) (i : Nat) :
    i ∈ levelWinners (toInfo rows l) ↔
      ∃ r ∈ rows, r.1 = i ∧ i ∈ l.contributors ∧ r.2.2.1 = false ∧
        ∀ r' ∈ rows, r'.1 ∈ l.contributors → r'.2.2.1 = false → r'.2.2.2 ≤ r.2.2.2 := by
  obtain ⟨M, h1, ⟨r0, hr0, hc0, hM0⟩, hW⟩ := mem_levelWinners g hl
  obtain ⟨rn, hrn, hcn, hfn⟩ := hex
  have hMpos : 0 < M := by
    have := h1 rn hrn hcn
    have := g.eff_pos hrn hfn
    omega
  have hf0 : r0.2.2.1 = false := not_folded_of_eff_pos (by omega)
  rw [hW]
  simp only [List.mem_map, List.mem_filter, Bool.and_eq_true, List.contains_eq_mem, decide_eq_true_eq]
  constructor
  · rintro ⟨r, ⟨hr, hc, he⟩, rfl⟩
    have hf : r.2.2.1 = false := not_folded_of_eff_pos (by omega)
    refine ⟨r, hr, rfl, hc, hf, ?_⟩
    intro r' hr' hc' hf'
    have := h1 r' hr' hc'
    rw [eff_of_not_folded hf'] at this
    rw [eff_of_not_folded hf] at he
    omega
  · rintro ⟨r, hr, rfl, hc, hf, hmax⟩
    refine ⟨r, ⟨hr, hc, ?_⟩, rfl⟩
    have h2 := h1 r hr hc
    have h3 := hmax r0 hr0 hc0 hf0
    rw [eff_of_not_folded hf] at h2 ⊢
    rw [eff_of_not_folded hf0] at hM0
    omega

/-- What one level pays, for any incoming odd-chip offset `o ≥ 0`: nothing to non-contributors,
    minus the wager to contributors that are not winners, and to each of the `n` winners the `n`-th part
    of the level total (rounded down, plus possibly one odd chip) minus the wager. -/
theorem level_payout_rows (g : GameIn es rows) {l : Level} (hl : l ∈ (llOf es).levels) (o : Int) (i : Nat) :
    (i ∉ l.contributors → net (levelUpdates (toInfo rows l) o) i = 0) ∧
    (i ∈ l.contributors → i ∉ levelWinners (toInfo rows l) →
      net (levelUpdates (toInfo rows l) o) i = -l.wager) ∧
    (i ∈ levelWinners (toInfo rows l) →
      Int.tdiv l.total (levelWinners (toInfo rows l)).length - l.wager ≤ net (levelUpdates (toInfo rows l) o) i ∧
      net (levelUpdates (toInfo rows l) o) i ≤ Int.tdiv l.total (levelWinners (toInfo rows l)).length + 1 - l.wager) := by
  have hwf := g.level_wf hl
  refine ⟨fun hi => net_not_contributor g hl o hi, ?_, ?_⟩
  · intro hi hnw
    obtain ⟨d, hu, hd⟩ := exists_update g hl o hi
    rw [hd]
    exact levelUpdates_loser hwf o _ hu hnw
  · intro hw
    have hf := hwf.facts
    have hi : i ∈ l.contributors := hf.perm.subset (List.mem_append_left _ hw)
    obtain ⟨d, hu, hd⟩ := exists_update g hl o hi
    rw [hd]
    rcases levelUpdates_mem hu with ⟨p, _, _, he⟩ | ⟨hlo, _⟩
    · have e1 : (toInfo rows l).total = l.total := rfl
      have e2 : (toInfo rows l).wager = l.wager := rfl
      rw [e1, e2] at he
      simp only at he
      rw [he]
      unfold reward
      split <;> constructor <;> omega
    · have := (List.nodup_append.1 hf.nodup).2.2 i hw i hlo
      exact absurd rfl this

/-! ### per-pot decomposition -/

/-- Net amount player `i` gets out of one pot: `settlePot` run on a fresh entry for `i`. -/
def potNetOf (pr : PotResult) (i : Nat) : Int :=
  chg (settlePot [({ idx := i, finalStack := 0, changed := 0 } : PlayerResult)] { pr with winners := [] }).1 i

theorem potNetOf_eq (pr : PotResult) (i : Nat) : potNetOf pr i = net (potUpdates 0 pr.levels) i := by
  unfold potNetOf settlePot
  simp only []
  rw [foldl_settleLevel_players, chg_bumpAll _ _ _ (by simp)]
  simp [chg]

/-- `changed` is the sum of the per-pot net amounts. -/
theorem chg_eq_sum_potNet (g : GameIn es rows) {i : Nat} (hi : i ∈ es.map (·.1)) :
    chg (gameResults (potsOf es) rows).players i
      = ((gameResults (potsOf es) rows).pots.map (fun pr => potNetOf pr i)).sum := by
  rw [chg_eq_net g hi, allUpdates, net_flatMap, ← gameResults_pots_levels, List.map_map]
  congr 1
  apply List.map_congr_left
  intro pr _
  simp only [Function.comp, potNetOf_eq]

/-! ### ties -/

/-- `i` is a non-folded entry with contribution at least `L`. -/
def eligibleB (es : List (Nat × Int × Bool)) (L : Int) (i : Nat) : Bool :=
  es.any (fun e => e.1 == i && !e.2.2 && decide (L ≤ e.2.1))

theorem eligibleB_iff (es : List (Nat × Int × Bool)) (L : Int) (i : Nat) :
    eligibleB es L i = true ↔ ∃ c, (i, c, false) ∈ es ∧ L ≤ c := by
  simp only [eligibleB, List.any_eq_true, Bool.and_eq_true, beq_iff_eq, Bool.not_eq_eq_eq_not, Bool.not_true,
    decide_eq_true_eq]
  constructor
  · rintro ⟨⟨j, c, f⟩, he, ⟨h1, h2⟩, h3⟩
    simp only at h1 h2 h3
    subst h1; subst h2
    exact ⟨c, he, h3⟩
  · rintro ⟨c, he, h⟩
    exact ⟨_, he, ⟨rfl, rfl⟩, h⟩

/-- All levels of one published pot have the same winner list when the pot has a non-folded
    eligible player: the non-folded eligible players of maximal score `S`, in row order. -/
theorem pot_winners_common (g : GameIn es rows) {pre post : List Pot} {p : Pot}
    (hp : potsOf es = pre ++ p :: post) (S : Int)
    (hmax : ∀ r ∈ rows, r.2.2.1 = false → (∃ c, (r.1, c, false) ∈ es ∧ p.level ≤ c) → r.2.2.2 ≤ S)
    (hatt : ∃ r ∈ rows, r.2.2.1 = false ∧ (∃ c, (r.1, c, false) ∈ es ∧ p.level ≤ c) ∧ r.2.2.2 = S) :
    ∀ l ∈ p.levels, levelWinners (toInfo rows l)
      = (rows.filter (fun r => !r.2.2.1 && eligibleB es p.level r.1 &&
          decide (r.2.2.2 = S))).map (·.1) := by
  obtain ⟨_, _, _, _, _, hnf, _⟩ := getPots_at (llOf_inv es) g.valid.1 g.valid.2 hp
  intro l hlp
  have hl : l ∈ (llOf es).levels := by
    rw [← getPots_flatMap_levels (llOf_inv es)]
    show l ∈ List.flatMap (·.levels) (potsOf es)
    rw [hp]
    simp only [List.flatMap_append, List.flatMap_cons, List.mem_append]
    exact Or.inr (Or.inl hlp)
  -- membership in the common non-folded set
  have hN : ∀ j, (j ∈ l.contributors ∧ j ∉ (llOf es).folded) ↔ ∃ c, (j, c, false) ∈ es ∧ p.level ≤ c := by
    intro j
    have h1 := hnf l hlp
    have : j ∈ nf (llOf es).folded l ↔ j ∈ (contribsAt (llOf es).contribs p.level).filter
        (fun i => !(llOf es).folded.contains i) := by rw [h1]
    simp only [nf, List.mem_filter, List.contains_eq_mem, Bool.not_eq_eq_eq_not, Bool.not_true,
      decide_eq_false_iff_not, mem_contribsAt] at this
    rw [this]
    constructor
    · rintro ⟨⟨v, hv, hle⟩, hnf'⟩
      rw [llOf_contribs es g.nodup] at hv
      obtain ⟨f, hf⟩ := hv
      cases f with
      | false => exact ⟨v, hf, hle⟩
      | true => exact absurd ((llOf_folded es j).2 ⟨v, hf⟩) hnf'
    · rintro ⟨c, hc, hle⟩
      refine ⟨⟨c, (llOf_contribs es g.nodup (j, c)).2 ⟨false, hc⟩, hle⟩, ?_⟩
      intro hf
      obtain ⟨c', hc'⟩ := (llOf_folded es j).1 hf
      have := (g.entry_unique hc hc').2
      simp at this
  have hfolded : ∀ r ∈ rows, (r.1 ∈ (llOf es).folded ↔ r.2.2.1 = true) := by
    intro r hr
    obtain ⟨c, hc⟩ := g.entry_of_row hr
    rw [llOf_folded]
    constructor
    · rintro ⟨c', hc'⟩
      exact ((g.entry_unique hc hc').2)
    · intro hf; rw [hf] at hc; exact ⟨c, hc⟩
  obtain ⟨M, h1, ⟨r0, hr0, hc0, hM0⟩, hW⟩ := mem_levelWinners g hl
  obtain ⟨ra, hra, hfa, hea, hSa⟩ := hatt
  have hca : ra.1 ∈ l.contributors := ((hN ra.1).2 hea).1
  have hSpos : 0 < S := by rw [← hSa]; exact g.pos ra hra hfa
  have hMS : M = S := by
    have h2 := h1 ra hra hca
    rw [eff_of_not_folded hfa, hSa] at h2
    have hf0 : r0.2.2.1 = false := not_folded_of_eff_pos (by omega)
    have hnf0 : r0.1 ∉ (llOf es).folded := by
      rw [hfolded r0 hr0, hf0]; simp
    have h3 := hmax r0 hr0 hf0 ((hN r0.1).1 ⟨hc0, hnf0⟩)
    rw [eff_of_not_folded hf0] at hM0
    omega
  rw [hW, hMS]
  congr 1
  apply List.filter_congr
  intro r hr
  rw [Bool.eq_iff_iff]
  simp only [Bool.and_eq_true, List.contains_eq_mem, decide_eq_true_eq, Bool.not_eq_eq_eq_not, Bool.not_true,
    eligibleB_iff]
  constructor
  · rintro ⟨hc, he⟩
    have hf : r.2.2.1 = false := not_folded_of_eff_pos (by omega)
    have hnfr : r.1 ∉ (llOf es).folded := by rw [hfolded r hr, hf]; simp
    rw [eff_of_not_folded hf] at he
    exact ⟨⟨hf, (hN r.1).1 ⟨hc, hnfr⟩⟩, he⟩
  · rintro ⟨⟨hf, hel⟩, he⟩
    refine ⟨((hN r.1).2 hel).1, ?_⟩
    rw [eff_of_not_folded hf]; exact he

/-- A non-folded player who reached the pot's level is a contributor of every level of the pot. -/
theorem pot_level_mem (g : GameIn es rows) {pre post : List Pot} {p : Pot}
    (hp : potsOf es = pre ++ p :: post) {j : Nat} (hj : ∃ c, (j, c, false) ∈ es ∧ p.level ≤ c) :
    ∀ l ∈ p.levels, j ∈ l.contributors := by
  obtain ⟨_, _, _, _, _, hnf, _⟩ := getPots_at (llOf_inv es) g.valid.1 g.valid.2 hp
  intro l hlp
  obtain ⟨c, hc, hle⟩ := hj
  have : j ∈ (contribsAt (llOf es).contribs p.level).filter (fun i => !(llOf es).folded.contains i) := by
    simp only [List.mem_filter, mem_contribsAt, List.contains_eq_mem, Bool.not_eq_eq_eq_not, Bool.not_true,
      decide_eq_false_iff_not]
    refine ⟨⟨c, (llOf_contribs es g.nodup (j, c)).2 ⟨false, hc⟩, hle⟩, ?_⟩
    intro hf
    obtain ⟨c', hc'⟩ := (llOf_folded es j).1 hf
    have := (g.entry_unique hc hc').2
    simp at this
  rw [← hnf l hlp] at this
  exact (List.mem_filter.1 this).1

/-- Tied best hands of one published pot get amounts differing by at most one chip. -/
theorem pot_tie (g : GameIn es rows) {pre post : List Pot} {p : Pot}
    (hp : potsOf es = pre ++ p :: post) (S : Int)
    (hmax : ∀ r ∈ rows, r.2.2.1 = false → (∃ c, (r.1, c, false) ∈ es ∧ p.level ≤ c) → r.2.2.2 ≤ S)
    {ri rj : Row} (hri : ri ∈ rows) (hrj : rj ∈ rows)
    (hfi : ri.2.2.1 = false) (hfj : rj.2.2.1 = false)
    (hei : ∃ c, (ri.1, c, false) ∈ es ∧ p.level ≤ c) (hej : ∃ c, (rj.1, c, false) ∈ es ∧ p.level ≤ c)
    (hsi : ri.2.2.2 = S) (hsj : rj.2.2.2 = S) :
    net (potUpdates 0 (p.levels.map (toInfo rows))) ri.1
      - net (potUpdates 0 (p.levels.map (toInfo rows))) rj.1 ≤ 1 := by
  have hcommon := pot_winners_common g hp S hmax ⟨ri, hri, hfi, hei, hsi⟩
  have hlmem : ∀ l ∈ p.levels, l ∈ (llOf es).levels := by
    intro l hlp
    rw [← getPots_flatMap_levels (llOf_inv es)]
    show l ∈ List.flatMap (·.levels) (potsOf es)
    rw [hp]
    simp only [List.flatMap_append, List.flatMap_cons, List.mem_append]
    exact Or.inr (Or.inl hlp)
  apply pot_tie_fair (W := (rows.filter (fun r => !r.2.2.1 &&
      eligibleB es p.level r.1 && decide (r.2.2.2 = S))).map (·.1))
  · intro li hli
    obtain ⟨l, hl, rfl⟩ := List.mem_map.1 hli
    exact hcommon l hl
  · intro li hli
    obtain ⟨l, hl, rfl⟩ := List.mem_map.1 hli
    exact ⟨_, g.level_wf (hlmem l hl)⟩
  · apply List.mem_map.2
    refine ⟨ri, ?_, rfl⟩
    simp only [List.mem_filter, Bool.and_eq_true, decide_eq_true_eq, Bool.not_eq_eq_eq_not, Bool.not_true,
      eligibleB_iff]
    exact ⟨hri, ⟨hfi, hei⟩, hsi⟩
  · apply List.mem_map.2
    refine ⟨rj, ?_, rfl⟩
    simp only [List.mem_filter, Bool.and_eq_true, decide_eq_true_eq, Bool.not_eq_eq_eq_not, Bool.not_true,
      eligibleB_iff]
    exact ⟨hrj, ⟨hfj, hej⟩, hsj⟩

end Pokerface
