import Pokerface.Proofs.FlowStep
/-
  Termination measure of a hand (C06): every accepted operation strictly decreases
  `mu g = n · Σ stacks + phase g`.
-/
namespace Pokerface
open Game

/-- streets still to come -/
def Round.left : Round → Int
  | .none => 4 | .preflop => 3 | .flop => 2 | .turn => 1 | .river => 0

/-- position inside the hand: street by street `ready > open betting round (+ seats that have not
    acted) > closed round`, the forced-bet phases before the first street on top -/
def Game.phase (g : Game) : Int :=
  match g.event with
  | .gameClosed => 0
  | .roundClosed => 1 + g.round.left * (g.n + 2)
  | .roundStarted => 1 + g.round.left * (g.n + 2) + g.unacted
  | .readyRequested => if g.round = .none then 4 * ((g.n : Int) + 2) + 4 else g.round.left * (g.n + 2) + g.n + 2
  | .blindsRequested => 4 * ((g.n : Int) + 2) + 2
  | .anteRequested => 4 * ((g.n : Int) + 2) + 3
  | _ => 0

/-- the termination measure -/
def Game.mu (g : Game) : Int := g.n * g.stackSum + g.phase

theorem Mov.n {g g' : Game} (h : Mov g g') : g'.n = g.n := by
  have := congrArg List.length h.mov
  simpa [Game.n] using this

/-! ### more `Mov` lemmas -/

theorem mov_setCw (g : Game) (x : Int) : Mov g (g.setCw x) := ⟨rfl⟩
theorem mov_setRaiser (g : Game) (i : Nat) : Mov g (g.setRaiser i) := ⟨rfl⟩
theorem mov_setRound (g : Game) (r : Round) : Mov g (g.setRound r) := ⟨rfl⟩
theorem mov_addRoundPot (g : Game) (x : Int) : Mov g (g.addRoundPot x) := ⟨rfl⟩
theorem mov_becomeRaiser (g : Game) (i : Nat) : Mov g (g.becomeRaiser i) :=
  ((mov_setRaiser g i).trans (mov_resetActed _)).trans (mov_setActed _ i)

theorem mov_requestBlinds (g : Game) : Mov g g.requestBlinds := by
  unfold Game.requestBlinds
  split
  · exact (mov_setEvent g _).trans (mov_prepareRound _)
  · exact mov_setEvent g _

theorem mov_afterRoundInitialized (g : Game) : Mov g g.afterRoundInitialized := by
  unfold Game.afterRoundInitialized
  split
  · exact mov_requestBlinds g
  · exact mov_prepareRound g

theorem mov_initializeRound (g : Game) : Mov g g.initializeRound :=
  (((mov_dealStreet g).trans (mov_updateCombinations _)).trans (mov_setEvent _ _)).trans (mov_afterRoundInitialized _)

theorem mov_enterRound (g : Game) (r : Round) : Mov g (g.enterRound r) :=
  (mov_setRound g r).trans (mov_initializeRound _)

theorem mov_nextRound' (g : Game) : Mov g g.nextRound' := by
  unfold Game.nextRound'
  split
  · exact mov_gameCompleted g
  · split
    · exact mov_enterRound g _
    · exact mov_enterRound g _
    · exact mov_enterRound g _
    · exact mov_gameCompleted g
    · exact Mov.refl g

/-! ### stacks under `pay` -/

theorem stackSum_of_players {g g' : Game} (h : g'.players.map (·.stack) = g.players.map (·.stack)) :
    g'.stackSum = g.stackSum := by
  simp only [Game.stackSum, h]

theorem stackSum_payAllin (g : Game) (i : Nat) (p : Player) (w : Bool) (hp : g.players[i]? = some p) :
    (g.payAllin i p w).stackSum = g.stackSum - p.stack := by
  have h0 : ((g.addRoundPot (p.initial - p.wager)).modP i goAllin).stackSum = g.stackSum - p.stack := by
    simp only [Game.stackSum, Game.modP, Game.addRoundPot]
    rw [sum_map_modify (·.stack) goAllin g.players i p hp]
    simp [goAllin]
  unfold Game.payAllin
  simp only
  split
  · have h2 : (if p.initial > g.cw then ((g.addRoundPot (p.initial - p.wager)).modP i goAllin).setCw p.initial
        else (g.addRoundPot (p.initial - p.wager)).modP i goAllin).stackSum = g.stackSum - p.stack := by
      split
      · rw [(mov_setCw _ _).stackSum]; exact h0
      · exact h0
    split
    · rw [(mov_becomeRaiser _ i).stackSum]; exact h2
    · rw [(mov_resetActed _).stackSum]; exact h2
  · exact h0

theorem stackSum_payPart (g : Game) (i : Nat) (p : Player) (c : Int) (w : Bool) (hp : g.players[i]? = some p)
    (hr : p.stack = p.initial - p.wager) : (g.payPart i p c w).stackSum = g.stackSum - c := by
  have h0 : ((g.modP i (putWager (p.wager + c))).addRoundPot c).stackSum = g.stackSum - c := by
    simp only [Game.stackSum, Game.modP, Game.addRoundPot]
    rw [sum_map_modify (·.stack) _ g.players i p hp]
    simp [putWager]; omega
  unfold Game.payPart
  simp only
  split
  · rw [(mov_becomeRaiser _ i).stackSum, (mov_setCw _ _).stackSum]; exact h0
  · exact h0

theorem stackSum_pay (g : Game) (i : Nat) (p : Player) (c : Int) (w : Bool) (hp : g.players[i]? = some p)
    (hr : p.stack = p.initial - p.wager) :
    (g.pay i c w).stackSum = g.stackSum - (if p.stack ≤ c then p.stack else c) := by
  unfold Game.pay
  rw [hp]
  simp only
  split
  · exact stackSum_payAllin g i p w hp
  · exact stackSum_payPart g i p c w hp hr

/-- a payment of a non-negative amount never increases the stacks -/
theorem stackSum_pay_le (g : Game) (i : Nat) (c : Int) (w : Bool) (hpi : ∀ p ∈ g.players, PInv p) (hc : 0 ≤ c) :
    (g.pay i c w).stackSum ≤ g.stackSum := by
  cases hp : g.players[i]? with
  | none => unfold Game.pay; rw [hp]; exact Int.le_refl _
  | some p =>
    have h := hpi p (List.mem_of_getElem? hp)
    rw [stackSum_pay g i p c w hp h.rebase]
    have := h.stack0
    split <;> omega

/-! ### the `acted` marks -/

theorem length_filter_modify {α : Type} (P : α → Bool) (f : α → α) :
    ∀ (l : List α) (i : Nat) (x : α), l[i]? = some x →
      ((l.modify i f).filter P).length + (if P x then 1 else 0) = (l.filter P).length + (if P (f x) then 1 else 0)
  | [], i, x, hx => by simp at hx
  | a :: l, 0, x, hx => by
      simp at hx; subst hx
      simp only [List.modify_zero_cons, List.filter_cons]
      by_cases h1 : P a <;> by_cases h2 : P (f a) <;> simp [h1, h2]
  | a :: l, i + 1, x, hx => by
      simp at hx
      have := length_filter_modify P f l i x hx
      simp only [List.modify_succ_cons, List.filter_cons]
      by_cases h1 : P a <;> simp [h1] <;> omega

theorem unacted_mark (g : Game) (i : Nat) (p : Player) (f : Player → Player) (hp : g.players[i]? = some p)
    (h0 : p.acted = false) (h1 : (f p).acted = true) : (g.modP i f).unacted + 1 = g.unacted := by
  have := length_filter_modify (fun p : Player => !p.acted) f g.players i p hp
  simp only [h0, h1, Bool.not_false, Bool.not_true, if_true, Bool.false_eq_true, if_false] at this
  simpa [Game.unacted, Game.modP] using this

theorem stackSum_modP (g : Game) (i : Nat) (f : Player → Player) (hf : ∀ p, (f p).stack = p.stack) :
    (g.modP i f).stackSum = g.stackSum :=
  stackSum_of_players (by simp [Game.modP, map_modify_of_proj (·.stack) f hf])

theorem acts_pay_zero (g : Game) (i : Nat) (p : Player) (hp : g.players[i]? = some p) (hs : 0 < p.stack)
    (hw : p.wager ≤ g.cw) : Acts g (g.pay i 0 true) := by
  unfold Game.pay
  rw [hp]
  simp only
  split
  · omega
  · unfold Game.payPart
    have : ¬ g.cw < p.wager + 0 := by omega
    simp only [this, decide_false, Bool.and_false, Bool.false_eq_true, if_false]
    exact (acts_modP g i (putWager (p.wager + 0)) (fun _ => rfl)).trans (acts_addRoundPot _ _)

/-- the potential `n · Σ stacks + #not acted` does not grow under a wager payment by a seat with chips -/
theorem pay_prog (g : Game) (ok : ChipsOK g) (i : Nat) (p : Player) (c : Int) (hp : g.players[i]? = some p)
    (hs : 0 < p.stack) (hc : 0 ≤ c) :
    (g.n : Int) * (g.pay i c true).stackSum + (g.pay i c true).unacted ≤ (g.n : Int) * g.stackSum + g.unacted := by
  have hpi := ok.pinv p (List.mem_of_getElem? hp)
  by_cases h0 : c = 0
  · subst h0
    rw [(acts_pay_zero g i p hp hs (ok.wle p (List.mem_of_getElem? hp))).unacted, stackSum_pay g i p 0 true hp hpi.rebase]
    have : ¬ p.stack ≤ 0 := by omega
    simp [this]
  · have hn : (g.pay i c true).n = g.n := (quiet_pay g i c true).n
    have hu := unacted_le (g.pay i c true)
    rw [hn] at hu
    rw [stackSum_pay g i p c true hp hpi.rebase]
    have hd : 1 ≤ (if p.stack ≤ c then p.stack else c) := by split <;> omega
    have h1 : (g.n : Int) * 1 ≤ (g.n : Int) * (if p.stack ≤ c then p.stack else c) :=
      Int.mul_le_mul_of_nonneg_left hd (by omega)
    rw [Int.mul_sub]
    omega

end Pokerface
