import Pokerface.Proofs.ShowdownPlayEngine
/-
  `Covered g` for every reachable state: base case (after the forced bets), the states before
  the forced bets are complete (nobody has folded), and the run from there (`linv_run`).
-/
namespace Pokerface
open Game

/-- some non-folded player has put in (`pot + wager`) at least as much as every player of the hand -/
def Covered (g : Game) : Prop :=
  ∃ q ∈ g.players, q.fold = false ∧ ∀ p ∈ g.players, p.pot + p.wager ≤ q.pot + q.wager

theorem covered_of_lvl {g : Game} (ok : ChipsOK g) (h : Lvl g.lvs g.cw) : Covered g := by
  obtain ⟨j, a, ha, hf, hmax⟩ := h.cover (lvOK_of_chips ok)
  obtain ⟨q, hq, rfl⟩ := lvs_getElem ha
  refine ⟨q, List.mem_of_getElem? hq, hf, ?_⟩
  intro p hp
  obtain ⟨k, hk⟩ := List.getElem?_of_mem hp
  exact hmax k p.lv (by simp [Game.lvs, hk])

theorem covered_of_noFold {g : Game} (hs : Struct g) (hn : NoFold g) : Covered g := by
  have hne : g.players ≠ [] := by
    intro e; have := hs.pos; simp [Game.n, e] at this
  obtain ⟨j, q, hq, hmax⟩ := exists_argmax (fun p : Player => p.pot + p.wager) g.players hne
  have hm := List.mem_of_getElem? hq
  refine ⟨q, hm, hn q hm, ?_⟩
  intro p hp
  obtain ⟨k, hk⟩ := List.getElem?_of_mem hp
  exact hmax k p hk

theorem noFold_afterReady (c : Config) (hs : (start c).2 = none) : NoFold (afterReady c) :=
  (folds_step_table _ .ready (by intro _ _ _ h; cases h)).noFold (noFold_start c hs)

theorem noFold_afterAnte (c : Config) (hs : (start c).2 = none) : NoFold (afterAnte c) := by
  have h1 := noFold_afterReady c hs
  unfold afterAnte
  split
  · exact (folds_step_table _ .payAnte (by intro _ _ _ h; cases h)).noFold h1
  · exact h1

/-- after the ante: the seats that still have chips have all paid the full ante -/
theorem lvl_afterAnte (c : Config) (wf : WFConfig c) (hs : (start c).2 = none) :
    Lvl (afterAnte c).lvs (afterAnte c).cw := by
  have sp := forcedSpec c hs
  have hR := reachable_afterAnte c wf hs
  have hst := (inv_reachable hR).struct
  have hnf := noFold_afterAnte c hs
  rw [sp.anteCw]
  refine ⟨?_, fun h => absurd h (by omega)⟩
  have hne : (afterAnte c).players ≠ [] := by
    intro e; have := hst.pos; simp [Game.n, e] at this
  obtain ⟨j, q, hq, hmax⟩ := exists_argmax (fun p : Player => p.pot) _ hne
  refine ⟨j, q.lv, by simp [Game.lvs, hq], hnf q (List.mem_of_getElem? hq), ?_, ?_⟩
  · intro k a ha
    obtain ⟨p, hp, rfl⟩ := lvs_getElem ha
    exact hmax k p hp
  · intro k a ha _ hi
    obtain ⟨p, hp, rfl⟩ := lvs_getElem ha
    obtain ⟨s, _, e1, e2, e3, e4, e5⟩ := ante_seat c wf hs hp
    obtain ⟨s2, _, f1, f2, f3, f4, f5⟩ := ante_seat c wf hs hq
    have h1 := hmax k p hp
    have hi' : 0 < p.initial := hi
    show p.pot = q.pot
    omega

theorem lvl_foldl_payBlind : ∀ (is : List Nat) (g : Game), BInv g → NoFold g → Lvl g.lvs g.cw →
    Lvl (is.foldl payBlind g).lvs (is.foldl payBlind g).cw
  | [], _, _, _, h => h
  | i :: is, g, hb, hn, h => by
    apply lvl_foldl_payBlind is _ (bInv_payBlind g i hb) ((folds_payBlind g i).noFold hn)
    unfold Game.payBlind
    split
    · exact h
    · rename_i p hp
      have hpi := hb.chips.pinv p (List.mem_of_getElem? hp)
      have hbn := blindOf_nonneg hb.opts p
      have hc : 0 ≤ (if p.stack < blindOf g.opts p then p.stack else blindOf g.opts p) := by
        have := hpi.stack0
        split <;> omega
      exact lvl_pay_game hb.chips h i _ hc (fun q hq => hn q (List.mem_of_getElem? hq))

theorem lvl_blindsPaid (g : Game) (h : Lvl g.lvs g.cw) : Lvl g.blindsPaid.lvs g.blindsPaid.cw := by
  unfold Game.blindsPaid
  have nc := ((noChip_resetAllAllowed (g.setPrev (if g.opts.blindBB > 0 then g.opts.blindBB else g.opts.blindDealer))).trans
    (noChip_setEvent _ .blindsPaid)).trans (noChip_prepareRound _)
  have mv := ((mov_resetAllAllowed (g.setPrev (if g.opts.blindBB > 0 then g.opts.blindBB else g.opts.blindDealer))).trans
    (mov_setEvent _ .blindsPaid)).trans (mov_prepareRound _)
  exact (LvSame.of nc mv).lvl h

theorem linv_afterForcedBets (c : Config) (wf : WFConfig c) (hs : (start c).2 = none) : LInv (afterForcedBets c) := by
  have sp := forcedSpec c hs
  refine ⟨by rw [sp.round]; simp, ⟨?_, by rw [sp.ev]; simp⟩, fun he => by rw [sp.ev] at he; cases he⟩
  have hA := lvl_afterAnte c wf hs
  have hfb : afterForcedBets c = if c.opts.noBlinds then afterAnte c else ((afterAnte c).step .payBlinds).1 := rfl
  by_cases hb : c.opts.noBlinds
  · rw [hfb, if_pos hb]; exact hA
  · rw [hfb, if_neg hb]
    have hev := sp.blinds_ev hb
    have hi := inv_reachable (reachable_afterAnte c wf hs)
    have hbi : BInv (afterAnte c) := ⟨hi.opts, hi.struct, hi.chips (by rw [hev]; simp), by
      have := hi.post.allowed; simpa [hev] using this⟩
    show Lvl (afterAnte c).payBlinds.1.lvs (afterAnte c).payBlinds.1.cw
    unfold Game.payBlinds
    rw [if_neg (by simp [hev])]
    exact lvl_blindsPaid _ (lvl_foldl_payBlind _ _ hbi (noFold_afterAnte c hs) hA)

/-- **The invariant**: in every reachable state some non-folded player has put in at least as
    much as every player (in particular as every folded player). -/
theorem covered_reachable {g : Game} (h : Reachable g) : Covered g := by
  obtain ⟨c, ops, wf, hs, rfl⟩ := h
  have hR := reachable_run wf hs ops
  rcases run_through_forced c wf hs ops (start c).1 (Or.inl rfl) with hb | ⟨o1, o2, e, h1⟩
  · apply covered_of_noFold (inv_reachable hR).struct
    rcases hb with e | ⟨_, e⟩ | ⟨_, e⟩
    · rw [e]; exact noFold_start c hs
    · rw [e]; exact noFold_afterReady c hs
    · rw [e]; exact noFold_afterAnte c hs
  · rw [e, run_append, h1]
    have hR2 := (reachable_afterForcedBets c wf hs).run o2
    have hl := linv_run o2 _ (reachable_afterForcedBets c wf hs) (linv_afterForcedBets c wf hs)
    have hev : ((afterForcedBets c).run o2).event ≠ .anteRequested :=
      fun e => hl.rnd ((flow_reachable hR2).ante e).2
    exact covered_of_lvl ((inv_reachable hR2).chips hev) hl.good.lvl

end Pokerface
