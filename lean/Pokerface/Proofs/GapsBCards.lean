import Pokerface.Proofs.CardsOps
/-
  C14 without the no-duplicates hypothesis.

  `CCore` (Proofs/Cards.lean) bundles `deck.Nodup` with the facts about where the cards are.
  `Nodup` is only ever carried along by the preservation proofs and is needed only by the
  no-duplicate theorems of C14.  Here the same invariant is proved WITHOUT it (`CCoreL`), for
  every hand whose deck is merely long enough (`ReachableL`), so that "the dealt cards are the
  consumed top of the deck" and the counts hold for ALL deck contents.
-/
namespace Pokerface
open Game

/-- `CCore` minus `nodup`: where the cards are, as a function of the street. -/
structure CCoreL (g : Game) : Prop where
  long : g.n * g.opts.holeCount + 8 ≤ g.opts.deck.length
  holes : ∀ p ∈ g.players, p.hole.length = g.holeCountNow
  board : g.board.length = g.round.boardCount
  burned : g.burned.length = g.round.burnCount
  pos : g.deckPos = g.n * g.holeCountNow + g.round.boardCount + g.round.burnCount
  pref : g.dealtCards = g.opts.deck.take g.deckPos

/-- `CInv` minus `nodup`. -/
structure CInvL (g : Game) : Prop where
  core : CCoreL g
  ante : g.event = .anteRequested → g.round = .none

theorem CCore.toL {g : Game} (h : CCore g) : CCoreL g := ⟨h.long, h.holes, h.board, h.burned, h.pos, h.pref⟩
theorem CInv.toL {g : Game} (h : CInv g) : CInvL g := ⟨h.core.toL, h.ante⟩

theorem CF.coreL {g g' : Game} (h : CF g g') (hc : CCoreL g) : CCoreL g' := by
  have hn := h.length
  have hcn : g'.holeCountNow = g.holeCountNow := by simp only [Game.holeCountNow, h.round, h.opts]
  refine ⟨by rw [hn, h.opts]; exact hc.long, ?_, by rw [h.board, h.round]; exact hc.board,
    by rw [h.burned, h.round]; exact hc.burned, by rw [h.pos, hn, hcn, h.round]; exact hc.pos, ?_⟩
  · intro p hp
    have : p.hole ∈ g'.players.map (·.hole) := List.mem_map_of_mem hp
    rw [h.holes] at this
    obtain ⟨q, hq, hqe⟩ := List.mem_map.mp this
    rw [hcn, ← hqe]; exact hc.holes q hq
  · simp only [Game.dealtCards, h.holeCards, h.burned, h.board, h.opts, h.pos]
    exact hc.pref

theorem CF.invL {g g' : Game} (h : CF g g') (hi : CInvL g) : CInvL g' :=
  ⟨h.coreL hi.core, fun he => by rw [h.round]; exact hi.ante (h.ante he)⟩

/-- entering the preflop round from a state in which nothing has been dealt (no `Nodup`) -/
theorem ccoreL_deal_preflop (g : Game) (hc : CCoreL g) (hr : g.round = .none) :
    CCoreL (g.setRound .preflop).dealStreet := by
  have hs : (g.setRound .preflop).dealStreet = dealHoles g.n 0 (g.setRound .preflop) := rfl
  rw [hs]
  have hcn : g.holeCountNow = 0 := by simp [Game.holeCountNow, hr]
  have hpos : g.deckPos = 0 := by
    have := hc.pos; rw [hcn, hr] at this; simpa [Round.boardCount, Round.burnCount] using this
  have hb : g.board = [] := List.eq_nil_of_length_eq_zero (by rw [hc.board, hr]; rfl)
  have hu : g.burned = [] := List.eq_nil_of_length_eq_zero (by rw [hc.burned, hr]; rfl)
  have h0 : HD g.opts.deck g.opts.holeCount 0 (g.setRound .preflop) :=
    ⟨rfl, rfl, by rw [Nat.zero_mul]; exact hpos, by simp, by simp⟩
  have hl : g.n * g.opts.holeCount ≤ g.opts.deck.length := by have := hc.long; omega
  have h1 := hd_dealHoles g.n 0 (g.setRound .preflop) h0 (by simp [Game.n, Game.setRound]) hl
  have hd := df_dealHoles g.n 0 (g.setRound .preflop)
  generalize dealHoles g.n 0 (g.setRound .preflop) = g2 at h1 hd
  have hn2 : g2.n = g.n := hd.n
  have hround : g2.round = .preflop := hd.round
  have hopts : g2.opts = g.opts := hd.opts
  have htake : g2.players.take (0 + g.n) = g2.players := by
    apply List.take_of_length_le; show g2.n ≤ 0 + g.n; omega
  have hcn2 : g2.holeCountNow = g.opts.holeCount := by rw [holeCountNow_of_ne (by rw [hround]; decide), hopts]
  have hpos2 : g2.deckPos = g.n * g.opts.holeCount := by simpa using h1.pos
  refine ⟨by rw [hn2, hopts]; exact hc.long, ?_, by rw [hd.board, hround]; show g.board.length = 0; rw [hb]; rfl,
    by rw [hd.burned, hround]; show g.burned.length = 0; rw [hu]; rfl, ?_, ?_⟩
  · intro p hp
    rw [hcn2]
    exact h1.len p (by rw [htake]; exact hp)
  · rw [hpos2, hn2, hcn2, hround]; rfl
  · have hcards := h1.cards
    rw [htake] at hcards
    have hbb : g2.board = [] := hd.board.trans hb
    have huu : g2.burned = [] := hd.burned.trans hu
    simp only [Game.dealtCards, Game.holeCards, hcards, hbb, huu, streetCards_nil, List.append_nil, hopts, hpos2]
    simp

/-- entering the flop, turn or river (no `Nodup`) -/
theorem ccoreL_deal_street (g : Game) (hc : CCoreL g) (r : Round) (k : Nat)
    (hr : (g.round = .preflop ∧ r = .flop ∧ k = 3) ∨ (g.round = .flop ∧ r = .turn ∧ k = 1) ∨
          (g.round = .turn ∧ r = .river ∧ k = 1)) (d : Nat) :
    CCoreL ((((g.setRound r).burn 1).dealBoard k).setCurrentPlayer d) := by
  apply (cf_setCurrentPlayer _ d).coreL
  have hne : g.round ≠ .none := by rcases hr with ⟨h, _⟩ | ⟨h, _⟩ | ⟨h, _⟩ <;> rw [h] <;> decide
  have hne' : r ≠ .none := by rcases hr with ⟨_, h, _⟩ | ⟨_, h, _⟩ | ⟨_, h, _⟩ <;> rw [h] <;> decide
  have hcn := holeCountNow_of_ne hne
  have hpos := hc.pos
  rw [hcn] at hpos
  have hcounts : r.boardCount = g.round.boardCount + k ∧ r.burnCount = g.round.burnCount + 1 ∧
      g.round.boardCount + g.round.burnCount + 1 + k ≤ 8 := by
    rcases hr with ⟨h, h2, h3⟩ | ⟨h, h2, h3⟩ | ⟨h, h2, h3⟩ <;> rw [h, h2, h3] <;> decide
  have hlen : g.deckPos + 1 + k ≤ g.opts.deck.length := by have := hc.long; omega
  let X := (g.opts.deck.drop g.deckPos).take 1
  let Y := (g.opts.deck.drop (g.deckPos + 1)).take k
  have hX : X.length = 1 := length_drop_take (by omega)
  have hY : Y.length = k := length_drop_take (by omega)
  have hst : streetCards (g.burned ++ X) (g.board ++ Y) = streetCards g.burned g.board ++ X ++ Y := by
    apply streetCards_step _ _ _ _ hX
    have hb := hc.board; have hu := hc.burned
    rcases hr with ⟨h, _, h3⟩ | ⟨h, _, h3⟩ | ⟨h, _, h3⟩
    · left; rw [h] at hb hu; exact ⟨hu, hb, by rw [hY, h3]⟩
    · right; left; rw [h] at hb hu; exact ⟨hu, hb, by rw [hY, h3]⟩
    · right; right; rw [h] at hb hu; exact ⟨hu, hb, by rw [hY, h3]⟩
  have hcn2 : (((g.setRound r).burn 1).dealBoard k).holeCountNow = g.opts.holeCount := by
    simp [Game.holeCountNow, Game.dealBoard, Game.burn, Game.advance, Game.setRound, hne']
  refine ⟨hc.long, ?_, ?_, ?_, ?_, ?_⟩
  · intro p hp
    rw [hcn2, ← hcn]; exact hc.holes p hp
  · show (g.board ++ Y).length = r.boardCount
    rw [List.length_append, hY, hc.board, hcounts.1]
  · show (g.burned ++ X).length = r.burnCount
    rw [List.length_append, hX, hc.burned, hcounts.2.1]
  · rw [hcn2]
    show g.deckPos + 1 + k = g.n * g.opts.holeCount + r.boardCount + r.burnCount
    rw [hcounts.1, hcounts.2.1]; omega
  · show g.holeCards ++ streetCards (g.burned ++ X) (g.board ++ Y) = g.opts.deck.take (g.deckPos + 1 + k)
    rw [hst, take_add_dealt, take_add_dealt, ← hc.pref]
    simp only [Game.dealtCards, List.append_assoc, X, Y]

theorem ccoreL_enterRound (g : Game) (hc : CCoreL g) (r : Round) (hn : Nxt g.round r) : CCoreL (g.enterRound r) := by
  apply (cf_enterRound_tail g r).coreL
  rcases hn with ⟨h1, rfl⟩ | ⟨h1, rfl⟩ | ⟨h1, rfl⟩ | ⟨h1, rfl⟩
  · exact ccoreL_deal_preflop g hc h1
  · exact ccoreL_deal_street g hc .flop 3 (Or.inl ⟨h1, rfl, rfl⟩) _
  · exact ccoreL_deal_street g hc .turn 1 (Or.inr (Or.inl ⟨h1, rfl, rfl⟩)) _
  · exact ccoreL_deal_street g hc .river 1 (Or.inr (Or.inr ⟨h1, rfl, rfl⟩)) _

theorem CStep.invL {g g' : Game} (s : CStep g g') (hi : CInvL g) : CInvL g' := by
  cases s with
  | frame h => exact h.invL hi
  | deal r h hn =>
    exact ⟨ccoreL_enterRound _ (h.coreL hi.core) r hn, fun he => absurd he (cards_enterRound_event_ne _ r)⟩
  | ante h hr =>
    have hc := h.coreL hi.core
    exact ⟨⟨hc.long, hc.holes, hc.board, hc.burned, hc.pos, hc.pref⟩, fun _ => hr⟩

/-- `cstep_payAnte` only reads the `ante` field of the invariant -/
theorem cstep_payAnteL (g : Game) (hi : CInvL g) : CStep g g.payAnte.1 := by
  unfold Game.payAnte
  split
  · exact .frame (CF.refl g)
  · split
    · exact .frame (CF.refl g)
    · rename_i he
      have he' : g.event = .anteRequested := by simpa using he
      have hl := cf_payAnteLoop g.seatsFromDealer g
      split
      · rename_i g' e heq
        have : g' = (payAnteLoop g.seatsFromDealer g).1 := by rw [heq]
        rw [this]; exact .frame hl
      · rename_i g' heq
        have : g' = (payAnteLoop g.seatsFromDealer g).1 := by rw [heq]
        simp only
        rw [this]
        unfold Game.antePaid
        have h1 : CF g ((((((payAnteLoop g.seatsFromDealer g).1.resetAllAllowed.setEvent .antePaid).updatePots).resetAllPlayerStatus).resetRoundStatus)) :=
          ((((hl.trans (cf_resetAllAllowed _)).trans (cf_setEvent _ _ (by decide))).trans (cf_updatePots _)).trans
            (cf_resetAllPlayerStatus _)).trans (cf_resetRoundStatus _)
        exact .deal .preflop h1 (Or.inl ⟨by rw [h1.round]; exact hi.ante he', rfl⟩)

theorem cstep_stepL (g : Game) (hi : CInvL g) (op : Op) : CStep g (g.step op).1 := by
  unfold Game.step
  cases op with
  | ready => exact cstep_readyForAll g
  | payAnte => exact cstep_payAnteL g hi
  | payBlinds => exact .frame (cf_payBlinds g)
  | next => exact cstep_next g
  | act seat a x =>
    cases seat with
    | none => exact .frame (cf_act g _ a x)
    | some i => exact .frame (cf_act g i a x)

theorem cinvL_step (g : Game) (hi : CInvL g) (op : Op) : CInvL (g.step op).1 := (cstep_stepL g hi op).invL hi

theorem cinvL_run (g : Game) (hi : CInvL g) (ops : List Op) : CInvL (g.run ops) := by
  induction ops generalizing g with
  | nil => exact hi
  | cons op ops ih => exact ih _ (cinvL_step g hi op)

theorem cinvL_game0 (c : Config) (hlong : c.seats.length * c.opts.holeCount + 8 ≤ c.opts.deck.length) :
    CInvL c.game0 := by
  have hh := config_players_hole c
  refine ⟨⟨?_, ?_, rfl, rfl, ?_, ?_⟩, fun he => by cases he⟩
  · show c.players.length * c.opts.holeCount + 8 ≤ c.opts.deck.length
    rw [cards_config_players_length]; exact hlong
  · intro p hp
    rw [hh p hp]; rfl
  · show 0 = c.game0.n * 0 + 0 + 0
    simp
  · show c.players.flatMap (·.hole) ++ streetCards [] [] = c.opts.deck.take 0
    rw [List.flatMap_eq_nil_iff.mpr hh]; rfl

theorem cinvL_start (c : Config) (hlong : c.seats.length * c.opts.holeCount + 8 ≤ c.opts.deck.length)
    (h : (start c).2 = none) : CInvL (start c).1 := by
  rw [(start_ok c h).2.2]
  exact ((cf_resetRoundStatus _).trans (cf_requestReady _)).invL (cinvL_game0 c hlong)

/-- Reachable states of hands whose deck is long enough for all hole cards, five board cards
    and three burned cards — ANY deck contents (duplicates allowed), any forced bets. -/
def ReachableL (g : Game) : Prop :=
  ∃ (c : Config) (ops : List Op), c.seats.length * c.opts.holeCount + 8 ≤ c.opts.deck.length ∧
    (start c).2 = none ∧ g = (start c).1.run ops

theorem ReachableC.toL {g : Game} (h : ReachableC g) : ReachableL g := by
  obtain ⟨c, ops, _, wc, hs, he⟩ := h
  exact ⟨c, ops, wc.long, hs, he⟩

/-- The cards invariant without `Nodup` holds in every state of every hand with a long enough deck. -/
theorem cinvL_reachable {g : Game} (h : ReachableL g) : CInvL g := by
  obtain ⟨c, ops, hl, hs, rfl⟩ := h
  exact cinvL_run _ (cinvL_start c hl hs) ops

end Pokerface
