/-
  The regulator on the WIDEST domain (`RSys.ReachableAny`: any setting with `1 ≤ max`, any `min`,
  `SetStatus` to any status at any time — also back to `Pending`, which the Go code accepts).

  On that domain the capacity part of `WF` (`count + required ≤ max`) and the supporting invariant
  `Q` are FALSE (`C19.capacity_fails_after_return_to_pending`): a `SyncState` during a second
  pending phase tops a table up without clearing its `Required`.  What survives is `WF0` below;
  it is all that conservation and counter agreement (C09) need.  This file redoes the
  queue-draining half of Proofs/RegDrain.lean for `WF0` (same `Ext`, no `Q`).
-/
import Pokerface.Proofs.RegProps

namespace Pokerface
namespace Reg

/-- well-formedness without any capacity bound -/
structure WF0 (r : Reg) : Prop where
  tc : r.tableCount = r.tables.length
  nodup : (r.tables.map (·.id)).Nodup
  idlt : ∀ t ∈ r.tables, t.id < r.nextId
  nn : ∀ t ∈ r.tables, 0 ≤ t.count ∧ 0 ≤ t.required

theorem WF.toWF0 {r : Reg} (h : WF r) : WF0 r :=
  ⟨h.tc, h.nodup, h.idlt, fun t ht => ⟨(h.bnd t ht).1, (h.bnd t ht).2.1⟩⟩

theorem WF0.beginOp {r : Reg} (hwf : WF0 r) (ch : List Nat) : WF0 (r.beginOp ch) :=
  ⟨hwf.tc, hwf.nodup, hwf.idlt, hwf.nn⟩

theorem WF0.setQueue {r : Reg} (hwf : WF0 r) (q : List Nat) : WF0 { r with queue := q } :=
  ⟨hwf.tc, hwf.nodup, hwf.idlt, hwf.nn⟩

theorem tables_nil_of_tc0 {r : Reg} (hwf : WF0 r) (h : r.tableCount = 0) : r.tables = [] := by
  have := hwf.tc; rw [h] at this
  exact List.length_eq_zero_iff.1 (by omega)

/-! ### dispatchPlayer, dispatchLoop -/

theorem dispatchPlayer_spec0 {r r' : Reg} {cands rest : List Nat} (hwf : WF0 r) (hc : cands ≠ [])
    (h : r.dispatchPlayer cands = some (rest, r')) (hb : r'.badChoice = false) :
    WF0 r' ∧ Ext r r' cands rest ∧ rest.length < cands.length ∧ r'.queue = r.queue ∧
    r.badChoice = false := by
  unfold dispatchPlayer at h
  split at h
  · cases h
  · split at h
    · cases h; simp at hb
    · rename_i c cs hch
      split at h
      · cases h; simp at hb
      · rename_i t hft
        split at h
        · cases h; simp at hb
        · rename_i hreq
          obtain ⟨htm, hid⟩ := findTable_some hft
          have hreq' : 0 < t.required := by omega
          simp only [Option.some.injEq, Prod.mk.injEq] at h
          obtain ⟨hrest, hr'⟩ := h
          subst hrest hr'
          have hlen : 0 < cands.length := List.length_pos_iff.2 hc
          have hpl : ((cands.take t.required.toNat).length : Int) ≤ t.required := by
            rw [List.length_take]; omega
          have hpos : 0 < (cands.take t.required.toNat).length := by
            rw [List.length_take]; omega
          refine ⟨?_, ?_, ?_, rfl, hb⟩
          · simp only [setTable_eq]
            constructor
            · simp only [upd_length]; exact hwf.tc
            · simp only []; rw [upd_ids]
              · exact hwf.nodup
              · intro _; rfl
            · intro t' ht'
              rcases mem_upd ht' with h1 | ⟨t0, h0, _, rfl⟩
              · exact hwf.idlt t' h1
              · exact hwf.idlt t0 h0
            · intro t' ht'
              rcases mem_upd ht' with h1 | ⟨t0, h0, hid0, rfl⟩
              · exact hwf.nn t' h1
              · have := eq_of_mem_of_id hwf.nodup h0 htm hid0
                subst this
                have := hwf.nn t0 h0
                simp only
                omega
          · simp only [setTable_eq]
            refine ⟨rfl, rfl, rfl, rfl, ⟨[RCall.assign t.id (cands.take t.required.toNat)], rfl, ?_, ?_, ?_, ?_⟩, Nat.le_refl _⟩
            · simp [RCall.players]
            · simp only []
              rw [tview_upd t.id _ r.tables ((cands.take t.required.toNat).length : Int)]
              · rfl
              · intro _; rfl
              · intro _; rfl
            · refine ⟨?_, trivial⟩
              simp only [tview_fst]
              exact List.mem_map.2 ⟨t, htm, rfl⟩
            · intro id ps hm; simp at hm
          · rw [List.length_drop]; omega

theorem dispatchLoop_spec0 (fuel : Nat) : ∀ {cands rest : List Nat} {r r' : Reg}, WF0 r →
    dispatchLoop fuel cands r = (rest, r') → r'.badChoice = false →
    WF0 r' ∧ Ext r r' cands rest ∧ r'.queue = r.queue ∧ r.badChoice = false := by
  induction fuel with
  | zero =>
    intro cands rest r r' hwf h hb
    simp only [dispatchLoop, Prod.mk.injEq] at h
    obtain ⟨rfl, rfl⟩ := h
    exact ⟨hwf, Ext.refl _ _, rfl, hb⟩
  | succ n ih =>
    intro cands rest r r' hwf h hb
    rw [dispatchLoop] at h
    split at h
    · simp only [Prod.mk.injEq] at h
      obtain ⟨rfl, rfl⟩ := h
      exact ⟨hwf, Ext.refl _ _, rfl, hb⟩
    · rename_i hcond
      simp only [not_or] at hcond
      have hne : cands ≠ [] := by simpa using hcond.1
      split at h
      · simp only [Prod.mk.injEq] at h
        obtain ⟨rfl, rfl⟩ := h
        exact ⟨hwf, Ext.refl _ _, rfl, hb⟩
      · rename_i rest1 r1 hsome
        have hb1 : r1.badChoice = false := by
          cases hbb : r1.badChoice with
          | false => rfl
          | true =>
            rw [dispatchLoop_bad n rest1 r1 hbb] at h
            simp only [Prod.mk.injEq] at h
            rw [← h.2, hbb] at hb; cases hb
        obtain ⟨hwf1, hext1, _, hq1, hbr⟩ := dispatchPlayer_spec0 hwf hne hsome hb1
        obtain ⟨hwf2, hext2, hq2, _⟩ := ih hwf1 h hb
        exact ⟨hwf2, hext1.trans hext2, hq2.trans hq1, hbr⟩

/-! ### updateTableRequirements -/

theorem updateTableRequirements_spec0 (r : Reg) (hwf : WF0 r) (cands : List Nat) :
    WF0 r.updateTableRequirements ∧ Ext r r.updateTableRequirements cands cands ∧
    r.updateTableRequirements.queue = r.queue ∧ r.updateTableRequirements.badChoice = r.badChoice ∧
    r.updateTableRequirements.calls = r.calls ∧
    r.updateTableRequirements.tableCount = r.tableCount ∧
    sumCount r.updateTableRequirements.tables = sumCount r.tables := by
  rw [updateTableRequirements_eq]
  split
  · refine ⟨?_, ?_, rfl, rfl, rfl, rfl, ?_⟩
    · constructor
      · simp only [setReq, List.length_map]; exact hwf.tc
      · simp only [setReq_ids]; exact hwf.nodup
      · intro t' ht'
        obtain ⟨t, ht, hid, _, _⟩ := mem_setReq ht'
        rw [hid]; exact hwf.idlt t ht
      · intro t' ht'
        obtain ⟨t, ht, _, hc, hr⟩ := mem_setReq ht'
        have hb := hwf.nn t ht
        rcases hr with hr | ⟨hlt, hr⟩ <;> omega
    · refine ⟨rfl, rfl, rfl, rfl, ⟨[], by simp, by simp, ?_, trivial, by simp⟩, Nat.le_refl _⟩
      simp only [applyTVs_nil, setReq_tview]
    · simp only [sumCount_eq, setReq_tview]
  · exact ⟨hwf, Ext.refl _ _, rfl, rfl, rfl, rfl, rfl⟩

/-! ### allocateLoop, allocateTables -/

theorem openTable_spec0 (r : Reg) (wl : Int) (k : Nat) (hwf : WF0 r) (hk : k ≤ r.max) :
    WF0 (r.openTable wl k) ∧ Ext r (r.openTable wl k) r.queue (r.openTable wl k).queue ∧
    (r.openTable wl k).badChoice = r.badChoice := by
  have hlen : (r.queue.take k).length ≤ k := by rw [List.length_take]; omega
  refine ⟨?_, ?_, rfl⟩
  · constructor
    · simp only [openTable, List.length_append, List.length_cons, List.length_nil]
      have := hwf.tc; omega
    · simp only [openTable, List.map_append, List.map_cons, List.map_nil]
      rw [List.nodup_append]
      refine ⟨hwf.nodup, by simp, ?_⟩
      intro a ha b hb
      simp at hb; subst hb
      obtain ⟨t, ht, rfl⟩ := List.mem_map.1 ha
      have := hwf.idlt t ht
      omega
    · intro t ht
      simp only [openTable, List.mem_append, List.mem_cons, List.not_mem_nil, or_false] at ht ⊢
      rcases ht with ht | rfl
      · have := hwf.idlt t ht; omega
      · simp
    · intro t ht
      simp only [openTable, List.mem_append, List.mem_cons, List.not_mem_nil, or_false] at ht ⊢
      rcases ht with ht | rfl
      · exact hwf.nn t ht
      · simp only
        split <;> omega
  · refine ⟨rfl, rfl, rfl, rfl, ⟨[RCall.requestTable r.nextId (r.queue.take k)], rfl, ?_, ?_, ?_, ?_⟩, Nat.le_succ _⟩
    · simp [openTable, RCall.players]
    · simp [openTable, tview, applyTVs, applyTV]
    · refine ⟨?_, trivial⟩
      simp only [tview_fst]
      intro hm
      obtain ⟨t, ht, hid⟩ := List.mem_map.1 hm
      have := hwf.idlt t ht
      omega
    · intro id ps hm
      simp only [List.mem_cons, List.not_mem_nil, or_false, RCall.requestTable.injEq] at hm
      rw [hm.2, hm.1]; exact ⟨by omega, Nat.le_refl _⟩

theorem allocateLoop_spec0 (fuel : Nat) : ∀ (wl reqT : Int) (r : Reg), WF0 r →
    WF0 (allocateLoop fuel wl reqT r) ∧
    Ext r (allocateLoop fuel wl reqT r) r.queue (allocateLoop fuel wl reqT r).queue ∧
    (allocateLoop fuel wl reqT r).badChoice = r.badChoice := by
  induction fuel with
  | zero => intro wl reqT r hwf; exact ⟨hwf, Ext.refl _ _, rfl⟩
  | succ n ih =>
    intro wl reqT r hwf
    rw [allocateLoop_succ]
    split
    · have hb := pullCount_bounds r wl
      split
      · rename_i hemp
        have hq : r.queue.drop (r.pullCount wl).toNat = r.queue := by
          simp only [List.isEmpty_iff, List.take_eq_nil_iff] at hemp
          rcases hemp with h | h
          · rw [h, List.drop_zero]
          · rw [h, List.drop_nil]
        have : ({ r with queue := r.queue.drop (r.pullCount wl).toNat } : Reg) = r := by
          rw [hq]
        rw [this]
        exact ⟨hwf, Ext.refl _ _, rfl⟩
      · obtain ⟨hwf2, hext2, hbad2⟩ := openTable_spec0 r (r.capWl wl) (r.pullCount wl).toNat hwf (by omega)
        simp only
        split
        · exact ⟨hwf2, hext2, hbad2⟩
        · obtain ⟨hwf3, hext3, hbad3⟩ := ih
            (((r.openTable (r.capWl wl) (r.pullCount wl).toNat).queue.length : Int) /
              (reqT - (r.openTable (r.capWl wl) (r.pullCount wl).toNat).tableCount)) reqT _ hwf2
          exact ⟨hwf3, hext2.trans hext3, hbad3.trans hbad2⟩
    · exact ⟨hwf, Ext.refl _ _, rfl⟩

theorem allocateTables_spec0 (r : Reg) (hwf : WF0 r) :
    WF0 r.allocateTables ∧ Ext r r.allocateTables r.queue r.allocateTables.queue ∧
    r.allocateTables.badChoice = r.badChoice := by
  rcases allocateTables_cases r with h | ⟨fuel, wl, reqT, h⟩
  · rw [h]; exact ⟨hwf, Ext.refl _ _, rfl⟩
  · rw [h]; exact allocateLoop_spec0 _ _ _ r hwf

/-! ### drainWaitingQueue, enterWaitingQueue -/

theorem drainWaitingQueue_spec0 (r : Reg) (hwf : WF0 r) (hb : r.drainWaitingQueue.badChoice = false) :
    WF0 r.drainWaitingQueue ∧ Ext r r.drainWaitingQueue r.queue r.drainWaitingQueue.queue ∧
    r.badChoice = false := by
  rw [drainWaitingQueue_eq] at hb ⊢
  split
  · rename_i h
    obtain ⟨h1, h2, h3⟩ := allocateTables_spec0 r hwf
    rw [if_pos h] at hb
    exact ⟨h1, h2, h3 ▸ hb⟩
  · rename_i hn1
    rw [if_neg hn1] at hb
    split
    · rename_i hpos
      rw [if_pos hpos] at hb
      generalize hp1 : dispatchLoop (r.queue.length + 1) r.queue r = p1 at hb ⊢
      obtain ⟨c1, r1⟩ := p1
      simp only at hb ⊢
      generalize hr2 : (if (!c1.isEmpty) = true then r1.updateTableRequirements else r1) = r2 at hb ⊢
      generalize hp3 : dispatchLoop (c1.length + 1) c1 r2 = p3 at hb ⊢
      obtain ⟨c2, r3⟩ := p3
      simp only at hb ⊢
      have hb3 : r3.badChoice = false := by
        split at hb
        · rw [allocateTables_badChoice] at hb; exact hb
        · exact hb
      have hb2 : r2.badChoice = false := by
        cases hbb : r2.badChoice with
        | false => rfl
        | true =>
          rw [dispatchLoop_bad _ c1 r2 hbb] at hp3
          simp only [Prod.mk.injEq] at hp3
          rw [← hp3.2, hbb] at hb3; cases hb3
      have hb1 : r1.badChoice = false := by
        rw [← hr2] at hb2
        split at hb2
        · rw [(updateTableRequirements_eq r1)] at hb2
          split at hb2 <;> exact hb2
        · exact hb2
      obtain ⟨hwf1, hext1, hq1, hb0⟩ := dispatchLoop_spec0 _ hwf hp1 hb1
      have hwf2 : WF0 r2 ∧ Ext r1 r2 c1 c1 ∧ r2.queue = r1.queue := by
        rw [← hr2]
        split
        · obtain ⟨a, b, c, _⟩ := updateTableRequirements_spec0 r1 hwf1 c1
          exact ⟨a, b, c⟩
        · exact ⟨hwf1, Ext.refl _ _, rfl⟩
      obtain ⟨hwf2, hext2, hq2⟩ := hwf2
      obtain ⟨hwf3, hext3, hq3, _⟩ := dispatchLoop_spec0 _ hwf2 hp3 hb3
      have hwf4 : WF0 { r3 with queue := c2 } := hwf3.setQueue c2
      have hext4 : Ext r { r3 with queue := c2 } r.queue c2 :=
        ((hext1.trans hext2).trans hext3).trans (Ext.setQueue r3 c2 c2)
      split
      · obtain ⟨h1, h2, _⟩ := allocateTables_spec0 _ hwf4
        exact ⟨h1, hext4.trans h2, hb0⟩
      · exact ⟨hwf4, hext4, hb0⟩
    · rw [if_neg ‹_›] at hb
      exact ⟨hwf, Ext.refl _ _, hb⟩

/-- counting consequence of `Ext` -/
theorem Ext.cnt0 {r r' : Reg} {cands rest : List Nat} (hwf : WF0 r) (h : Ext r r' cands rest) :
    (cands.length : Int) + sumCount r.tables = rest.length + sumCount r'.tables := by
  obtain ⟨cs, _, e2, e3, e4, _⟩ := h.calls
  have := (applyTVs_spec (tview r.tables) cs (by rw [tview_fst]; exact hwf.nodup) e4).2
  rw [sumCount_eq, sumCount_eq, e3, this, e2, List.length_append]
  omega

theorem enterWaitingQueue_spec0 (r : Reg) (ps : List Nat) (hwf : WF0 r)
    (hb : (r.enterWaitingQueue ps).badChoice = false) :
    WF0 (r.enterWaitingQueue ps) ∧
    Ext r (r.enterWaitingQueue ps) (r.queue ++ ps) (r.enterWaitingQueue ps).queue := by
  unfold enterWaitingQueue at hb ⊢
  simp only at hb ⊢
  split
  · exact ⟨hwf.setQueue _, Ext.setQueue r _ _⟩
  · rename_i hp
    rw [if_neg hp] at hb
    obtain ⟨h1, h2, _⟩ := drainWaitingQueue_spec0 _ (hwf.setQueue (r.queue ++ ps)) hb
    exact ⟨h1, (Ext.setQueue r _ _).trans h2⟩

end Reg
end Pokerface
