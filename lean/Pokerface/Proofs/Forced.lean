import Pokerface.Proofs.BetsActs
import Pokerface.Proofs.Seats
/-
  The forced bets (C13): what the ante loop and the blinds loop do to every seat.
  Players are observed through `Player.frame = ((idx, dealer, sb, bb), (bankroll, initial, stack, pot, wager))`.
-/
namespace Pokerface
open Game

abbrev Fr := (Nat × Bool × Bool × Bool) × (Int × Int × Int × Int × Int)

/-- `payF` on frames -/
def payFr (c : Int) (fr : Fr) : Fr :=
  if fr.2.2.2.1 ≤ c then (fr.1, (fr.2.1, fr.2.2.1, 0, fr.2.2.2.2.1, fr.2.2.1))
  else (fr.1, (fr.2.1, fr.2.2.1, fr.2.2.1 - (fr.2.2.2.2.2 + c), fr.2.2.2.2.1, fr.2.2.2.2.2 + c))

theorem payF_frame (c : Int) (p : Player) : (payF c p).frame = payFr c p.frame := by
  unfold payF payFr
  by_cases h : p.stack ≤ c
  · rw [if_pos h, if_pos (show p.frame.2.2.2.1 ≤ c from h)]; rfl
  · rw [if_neg h, if_neg (show ¬ p.frame.2.2.2.1 ≤ c from h)]; rfl

/-- `ResetAllPlayerStatus` on frames: the wager is swept into the pot, the stack becomes the round-start stack -/
def sweepFr (fr : Fr) : Fr :=
  (fr.1, (fr.2.1, fr.2.2.2.1, fr.2.2.2.1, fr.2.2.2.2.1 + fr.2.2.2.2.2, 0))

/-- `blindOf` on frames -/
def blindOfFr (m : Meta) (fr : Fr) : Int :=
  if m.blindBB > 0 ∧ fr.1.2.2.2 = true then m.blindBB
  else if m.blindSB > 0 ∧ fr.1.2.2.1 = true then m.blindSB
  else if m.blindDealer > 0 ∧ fr.1.2.1 = true then m.blindDealer
  else 0

theorem blindOf_frame (m : Meta) (p : Player) : blindOf m p = blindOfFr m p.frame := rfl

/-- `payBlind` on frames -/
def blindFr (m : Meta) (fr : Fr) : Fr :=
  payFr (if fr.2.2.2.1 < blindOfFr m fr then fr.2.2.2.1 else blindOfFr m fr) fr

theorem map_frame_modify (f : Player → Player) (f' : Fr → Fr) (hf : ∀ p, (f p).frame = f' p.frame)
    (l : List Player) (i : Nat) : (l.modify i f).map Player.frame = (l.map Player.frame).modify i f' := by
  apply List.ext_getElem?
  intro j
  simp only [List.getElem?_map, List.getElem?_modify]
  cases l[j]? with
  | none => simp
  | some p => by_cases h : i = j <;> simp [h, hf]

theorem pay_frames {g : Game} {i : Nat} {p : Player} (hp : g.players[i]? = some p) (c : Int) (w : Bool) :
    (g.pay i c w).players.map Player.frame = (g.players.map Player.frame).modify i (payFr c) := by
  rw [pay_frame hp c w]
  exact map_frame_modify _ _ (payF_frame c) _ _

theorem pay_opts (g : Game) (i : Nat) (c : Int) (w : Bool) : (g.pay i c w).opts = g.opts := (static_pay g i c w).opts

/-! ### the blinds loop -/

theorem payBlind_frames (g : Game) (i : Nat) :
    (g.payBlind i).players.map Player.frame = (g.players.map Player.frame).modify i (blindFr g.opts) := by
  unfold Game.payBlind
  cases hp : g.players[i]? with
  | none =>
    simp only
    apply List.ext_getElem?
    intro j
    simp only [List.getElem?_modify, List.getElem?_map]
    by_cases h : i = j
    · subst h; simp [hp]
    · simp [h]
  | some p =>
    simp only
    rw [pay_frames hp]
    apply List.ext_getElem?
    intro j
    simp only [List.getElem?_modify, List.getElem?_map]
    by_cases h : i = j
    · subst h; simp [hp, blindFr, blindOf_frame]; rfl
    · simp [h]

theorem payBlind_opts (g : Game) (i : Nat) : (g.payBlind i).opts = g.opts := by
  unfold Game.payBlind
  split
  · rfl
  · exact pay_opts _ _ _ _

theorem foldl_payBlind_frames : ∀ (is : List Nat) (g : Game),
    (is.foldl payBlind g).opts = g.opts ∧
    (is.foldl payBlind g).players.map Player.frame =
      is.foldl (fun L i => L.modify i (blindFr g.opts)) (g.players.map Player.frame)
  | [], g => ⟨rfl, rfl⟩
  | i :: is, g => by
    obtain ⟨h1, h2⟩ := foldl_payBlind_frames is (g.payBlind i)
    rw [payBlind_opts] at h1 h2
    rw [payBlind_frames] at h2
    exact ⟨h1, h2⟩

end Pokerface

/-! ### the ante loop -/
namespace Pokerface
open Game

theorem pay_other {g : Game} {i j : Nat} (hij : i ≠ j) (c : Int) (w : Bool) {q : Player}
    (hq : (g.pay i c w).players[j]? = some q) : ∃ q0, g.players[j]? = some q0 ∧ q.frame = q0.frame := by
  cases hp : g.players[i]? with
  | none =>
    have : g.pay i c w = g := by unfold Game.pay; rw [hp]
    rw [this] at hq
    exact ⟨q, hq, rfl⟩
  | some p =>
    have h := pay_frames hp c w
    have h1 : ((g.pay i c w).players.map Player.frame)[j]? = some q.frame := by simp [hq]
    rw [h, List.getElem?_modify_ne _ _ hij] at h1
    simp only [List.getElem?_map, Option.map_eq_some_iff] at h1
    obtain ⟨q0, hq0, he⟩ := h1
    exact ⟨q0, hq0, he.symm⟩

theorem payAnteLoop_spec : ∀ (is : List Nat) (g : Game),
    is.Nodup → (∀ i ∈ is, i < g.n) → (∀ i ∈ is, ∀ p, g.players[i]? = some p → p.wager ≤ 0) →
    (payAnteLoop is g).2 = none ∧ (payAnteLoop is g).1.opts = g.opts ∧
    (payAnteLoop is g).1.players.map Player.frame =
      is.foldl (fun L i => L.modify i (payFr g.opts.ante)) (g.players.map Player.frame)
  | [], g, _, _, _ => ⟨rfl, rfl, rfl⟩
  | i :: is, g, hnd, hlt, hw => by
    have ⟨hi, hnd'⟩ := List.nodup_cons.mp hnd
    have hin : i < g.players.length := hlt i (by simp)
    have hp : g.players[i]? = some g.players[i] := by simp [List.getElem?_eq_getElem hin]
    have hwi := hw i (by simp) _ hp
    unfold Game.payAnteLoop
    rw [hp]
    simp only
    rw [if_neg (by omega)]
    have hst := static_pay g i g.opts.ante false
    obtain ⟨r1, r2, r3⟩ := payAnteLoop_spec is (g.pay i g.opts.ante false) hnd'
      (fun j hj => by rw [hst.length]; exact hlt j (by simp [hj]))
      (fun j hj q hq => by
        have hij : i ≠ j := fun h => hi (h ▸ hj)
        obtain ⟨q0, hq0, he⟩ := pay_other hij _ _ hq
        rw [(frame_chips he).2.2.2.2.1]
        exact hw j (by simp [hj]) q0 hq0)
    rw [hst.opts] at r2 r3
    rw [pay_frames hp] at r3
    exact ⟨r1, r2, r3⟩

end Pokerface

/-! ### the path from `start` to the first betting round -/
namespace Pokerface
open Game

/-- all three blinds are 0: `RequestBlinds` skips `PayBlinds` -/
def Meta.noBlinds (m : Meta) : Prop := m.blindDealer = 0 ∧ m.blindSB = 0 ∧ m.blindBB = 0
instance (m : Meta) : Decidable m.noBlinds := by unfold Meta.noBlinds; exact inferInstance

/-- the operations that take a freshly started hand through the forced bets -/
def forcedOps (m : Meta) : List Op :=
  .ready :: ((if m.ante > 0 then [.payAnte] else []) ++ (if m.noBlinds then [] else [.payBlinds]))

/-- state after `ReadyForAll` on the freshly started hand -/
def afterReady (c : Config) : Game := ((start c).1.step .ready).1
/-- … after `PayAnte` when there is an ante -/
def afterAnte (c : Config) : Game := if c.opts.ante > 0 then ((afterReady c).step .payAnte).1 else afterReady c
/-- … after `PayBlinds` when there are blinds: the state that waits for `ReadyForAll` before the first betting round -/
def afterForcedBets (c : Config) : Game :=
  if c.opts.noBlinds then afterAnte c else ((afterAnte c).step .payBlinds).1

theorem afterForcedBets_eq_run (c : Config) : afterForcedBets c = (start c).1.run (forcedOps c.opts) := by
  unfold afterForcedBets afterAnte afterReady forcedOps Game.run
  by_cases h1 : c.opts.ante > 0 <;> by_cases h2 : c.opts.noBlinds <;> simp [h1, h2]

/-- what is tracked along the path: the frames of all seats, the options, and the round scalars at zero -/
structure Pre (m : Meta) (L : List Fr) (g : Game) : Prop where
  opts : g.opts = m
  frames : g.players.map Player.frame = L
  cw : g.cw = 0
  prev : g.prev = 0

theorem Pre.of_noChip {m : Meta} {L : List Fr} {g g' : Game} (h : Pre m L g) (nc : NoChip g g') : Pre m L g' :=
  ⟨nc.opts.trans h.opts, nc.frame.trans h.frames, nc.cw.trans h.cw, nc.prev.trans h.prev⟩

theorem pre_start (c : Config) (hs : (start c).2 = none) :
    Pre c.opts (c.players.map Player.frame) (start c).1 ∧ (start c).1.event = .readyRequested ∧
    (start c).1.round = .none := by
  obtain ⟨_, _, he⟩ := start_ok c hs
  rw [he]
  refine ⟨?_, rfl, rfl⟩
  have h0 : Pre c.opts (c.players.map Player.frame) c.game0.resetRoundStatus := ⟨rfl, rfl, rfl, rfl⟩
  exact h0.of_noChip (noChip_requestReady _)

/-- the state in which `InitializeRound` (preflop) hands over to `RequestBlinds` -/
def preflopEntry (g : Game) : Game :=
  (((g.setRound .preflop).dealStreet.updateCombinations).setEvent .roundInitialized)

theorem preflopEntry_round (g : Game) : (preflopEntry g).round = .preflop := by
  unfold preflopEntry
  show (g.setRound .preflop).dealStreet.round = .preflop
  rw [dealStreet_round]; rfl

theorem noChip_preflopEntry (g : Game) : NoChip g (preflopEntry g) :=
  (((noChip_setRound g _).trans (noChip_dealStreet _)).trans (noChip_updateCombinations _)).trans (noChip_setEvent _ _)

theorem enterRound_preflop (g : Game) : g.enterRound .preflop = (preflopEntry g).requestBlinds := by
  unfold Game.enterRound Game.initializeRound Game.afterRoundInitialized
  exact if_pos (preflopEntry_round g)

/-- `RequestBlinds` in the preflop round -/
theorem requestBlinds_preflop (g : Game) (hr : g.round = .preflop) :
    g.requestBlinds = if g.opts.noBlinds then (g.setEvent .blindsPaid).requestReady else g.setEvent .blindsRequested := by
  unfold Game.requestBlinds
  by_cases h : g.opts.noBlinds
  · rw [if_pos h, if_pos (show g.opts.blindDealer = 0 ∧ g.opts.blindSB = 0 ∧ g.opts.blindBB = 0 from h)]
    unfold Game.prepareRound
    rw [if_pos (show (g.setEvent .blindsPaid).round = .preflop from hr)]
  · rw [if_neg h, if_neg (show ¬ (g.opts.blindDealer = 0 ∧ g.opts.blindSB = 0 ∧ g.opts.blindBB = 0) from h)]

theorem readyForAll_fresh {g : Game} (he : g.event = .readyRequested) (hr : g.round = .none) :
    g.readyForAll = (if g.opts.ante > 0 then g.resetAllAllowed.setEvent .anteRequested
      else g.resetAllAllowed.enterRound .preflop, none) := by
  unfold Game.readyForAll Game.readiness
  rw [if_neg (by simp [he]), if_pos (show g.resetAllAllowed.round = .none from hr)]
  by_cases h : g.opts.ante > 0
  · rw [if_pos h, if_pos (show g.resetAllAllowed.opts.ante > 0 from h)]
  · rw [if_neg h, if_neg (show ¬ g.resetAllAllowed.opts.ante > 0 from h)]

end Pokerface

namespace Pokerface
open Game

theorem mapP_frames (g : Game) (f : Player → Player) (f' : Fr → Fr) (hf : ∀ p, (f p).frame = f' p.frame) :
    (g.mapP f).players.map Player.frame = (g.players.map Player.frame).map f' := by
  simp [Game.mapP, List.map_map, Function.comp_def, hf]

/-- the state `onAntePaid` hands to `enterRound .preflop` -/
def anteSwept (g : Game) : Game :=
  ((((g.resetAllAllowed.setEvent .antePaid).updatePots).resetAllPlayerStatus).resetRoundStatus)

theorem antePaid_eq (g : Game) : g.antePaid = (anteSwept g).enterRound .preflop := rfl

theorem pre_anteSwept {m : Meta} {L : List Fr} {g : Game} (ho : g.opts = m) (hf : g.players.map Player.frame = L) :
    Pre m (L.map sweepFr) (anteSwept g) := by
  refine ⟨ho, ?_, rfl, rfl⟩
  have n1 : NoChip g ((g.resetAllAllowed.setEvent .antePaid).updatePots) :=
    ((noChip_resetAllAllowed g).trans (noChip_setEvent _ _)).trans (noChip_updatePots _)
  show (Game.resetAllPlayerStatus _).players.map Player.frame = _
  unfold Game.resetAllPlayerStatus
  rw [mapP_frames _ _ sweepFr (fun _ => rfl), n1.frame, hf]

/-- `PayAnte()` in a state that waits for the ante and in which nobody has a wager yet -/
theorem payAnte_fresh {g : Game} (he : g.event = .anteRequested) (ha : g.opts.ante > 0)
    (hw : ∀ p ∈ g.players, p.wager ≤ 0) :
    g.payAnte = ((anteSwept (payAnteLoop g.seatsFromDealer g).1).enterRound .preflop, none) ∧
    (payAnteLoop g.seatsFromDealer g).1.opts = g.opts ∧
    (payAnteLoop g.seatsFromDealer g).1.players.map Player.frame =
      (g.players.map Player.frame).map (payFr g.opts.ante) := by
  obtain ⟨r1, r2, r3⟩ := payAnteLoop_spec g.seatsFromDealer g g.nodup_seatsFromDealer
    (fun i hi => g.mem_seatsFromDealer.mp hi) (fun i _ p hp => hw p (List.mem_of_getElem? hp))
  rw [foldl_modify_eq_map _ _ _ g.nodup_seatsFromDealer
    (fun j hj => g.mem_seatsFromDealer.mpr (by simpa [Game.n] using hj))] at r3
  refine ⟨?_, r2, r3⟩
  unfold Game.payAnte
  rw [if_neg (by omega), if_neg (by simp [he])]
  generalize payAnteLoop g.seatsFromDealer g = r at r1
  obtain ⟨g', e⟩ := r
  simp only at r1
  subst r1
  rfl

theorem payBlind_soft (g : Game) (i : Nat) : Soft g (g.payBlind i) := by
  unfold Game.payBlind
  split
  · exact Soft.refl g
  · exact soft_pay _ _ _ _

theorem foldl_payBlind_soft : ∀ (is : List Nat) (g : Game), Soft g (is.foldl payBlind g)
  | [], g => Soft.refl g
  | i :: is, g => (payBlind_soft g i).trans (foldl_payBlind_soft is _)

theorem payBlind_event (g : Game) (i : Nat) : (g.payBlind i).event = g.event := by
  unfold Game.payBlind
  split
  · rfl
  · exact pay_event _ _ _ _

/-- the minimum raise recorded by `PayBlinds` -/
def Meta.firstPrev (m : Meta) : Int := if m.blindBB > 0 then m.blindBB else m.blindDealer

/-- `onBlindsPaid` in the preflop round -/
theorem blindsPaid_preflop (g : Game) (hr : g.round = .preflop) :
    g.blindsPaid.event = .readyRequested ∧ g.blindsPaid.round = .preflop ∧ g.blindsPaid.opts = g.opts ∧
    g.blindsPaid.players.map Player.frame = g.players.map Player.frame ∧ g.blindsPaid.prev = g.opts.firstPrev ∧
    g.blindsPaid.cw = g.cw := by
  have e : g.blindsPaid = (((g.setPrev g.opts.firstPrev).resetAllAllowed).setEvent .blindsPaid).requestReady := by
    unfold Game.blindsPaid Game.prepareRound
    exact if_pos hr
  rw [e]
  have nc : NoChip (g.setPrev g.opts.firstPrev) ((((g.setPrev g.opts.firstPrev).resetAllAllowed).setEvent .blindsPaid).requestReady) :=
    ((noChip_resetAllAllowed _).trans (noChip_setEvent _ _)).trans (noChip_requestReady _)
  exact ⟨rfl, hr, nc.opts, nc.frame, nc.prev, nc.cw⟩

end Pokerface

namespace Pokerface
open Game

/-- frames of the configured seats, after the ante, after the blinds -/
def Config.L0 (c : Config) : List Fr := c.players.map Player.frame
def Config.LA (c : Config) : List Fr :=
  if c.opts.ante > 0 then (c.L0.map (payFr c.opts.ante)).map sweepFr else c.L0
def Config.LB (c : Config) : List Fr :=
  if c.opts.noBlinds then c.LA else c.LA.map (blindFr c.opts)

/-- a configured seat starts with its whole bankroll as stack, nothing wagered, nothing in the pot -/
theorem config_frame (c : Config) (hs : (start c).2 = none) :
    ∀ fr ∈ c.L0, 0 < fr.2.1 ∧ fr.2.2.1 = fr.2.1 ∧ fr.2.2.2.1 = fr.2.1 ∧ fr.2.2.2.2.1 = 0 ∧ fr.2.2.2.2.2 = 0 := by
  intro fr hfr
  obtain ⟨p, hp, rfl⟩ := List.mem_map.mp hfr
  obtain ⟨i, hi, hpi⟩ := List.getElem_of_mem hp
  have h := config_players_getElem c i p (by simp [List.getElem?_eq_getElem hi, hpi])
  have hb := (start_ok c hs).2.1 p hp
  exact ⟨hb, h.2.2.1, h.2.1, h.2.2.2.2.1, h.2.2.2.1⟩

theorem readyStep_spec (c : Config) (hs : (start c).2 = none) :
    ((start c).1.step .ready).2 = none ∧
    (c.opts.ante > 0 → Pre c.opts c.L0 (afterReady c) ∧ (afterReady c).event = .anteRequested ∧
      (afterReady c).round = .none) ∧
    (¬ c.opts.ante > 0 → ∃ X, Pre c.opts c.L0 X ∧ afterReady c = (preflopEntry X).requestBlinds) := by
  obtain ⟨hpre, hev, hrd⟩ := pre_start c hs
  have e : (start c).1.step .ready = (start c).1.readyForAll := rfl
  unfold afterReady
  rw [e, readyForAll_fresh hev hrd, hpre.opts]
  have hpre' := hpre.of_noChip (noChip_resetAllAllowed _)
  refine ⟨rfl, ?_, ?_⟩
  · intro ha
    simp only [if_pos ha]
    exact ⟨hpre'.of_noChip (noChip_setEvent _ _), rfl, hrd⟩
  · intro ha
    simp only [if_neg ha]
    exact ⟨_, hpre', enterRound_preflop _⟩

theorem anteStep_spec (c : Config) (hs : (start c).2 = none) :
    (c.opts.ante > 0 → ((afterReady c).step .payAnte).2 = none) ∧
    ∃ X, Pre c.opts c.LA X ∧ afterAnte c = (preflopEntry X).requestBlinds := by
  obtain ⟨_, h1, h2⟩ := readyStep_spec c hs
  unfold afterAnte Config.LA
  by_cases ha : c.opts.ante > 0
  · obtain ⟨hpre, hev, _⟩ := h1 ha
    simp only [if_pos ha]
    have hw : ∀ p ∈ (afterReady c).players, p.wager ≤ 0 := by
      intro p hp
      have : p.frame ∈ c.L0 := by rw [← hpre.frames]; exact List.mem_map_of_mem hp
      have := (config_frame c hs _ this).2.2.2.2
      exact Int.le_of_eq this
    have e : (afterReady c).step .payAnte = (afterReady c).payAnte := rfl
    obtain ⟨r1, r2, r3⟩ := payAnte_fresh hev (by rw [hpre.opts]; exact ha) hw
    rw [hpre.frames, hpre.opts] at r3
    rw [e, r1]
    refine ⟨fun _ => rfl, anteSwept (payAnteLoop (afterReady c).seatsFromDealer (afterReady c)).1,
      pre_anteSwept (r2.trans hpre.opts) r3, ?_⟩
    dsimp only
    exact enterRound_preflop _
  · simp only [if_neg ha]
    exact ⟨fun h => absurd h ha, h2 ha⟩

/-- Everything about the state that waits for `ReadyForAll` before the first betting round. -/
structure ForcedSpec (c : Config) : Prop where
  ready_ok : ((start c).1.step .ready).2 = none
  ante_ok : c.opts.ante > 0 → ((afterReady c).step .payAnte).2 = none
  ante_ev : c.opts.ante > 0 → (afterReady c).event = .anteRequested
  blinds_ok : ¬ c.opts.noBlinds → ((afterAnte c).step .payBlinds).2 = none
  blinds_ev : ¬ c.opts.noBlinds → (afterAnte c).event = .blindsRequested
  anteFrames : (afterAnte c).players.map Player.frame = c.LA
  anteCw : (afterAnte c).cw = 0
  ev : (afterForcedBets c).event = .readyRequested
  round : (afterForcedBets c).round = .preflop
  opts : (afterForcedBets c).opts = c.opts
  frames : (afterForcedBets c).players.map Player.frame = c.LB
  prev : (afterForcedBets c).prev = c.opts.firstPrev

theorem forcedSpec (c : Config) (hs : (start c).2 = none) : ForcedSpec c := by
  obtain ⟨hr, h1, _⟩ := readyStep_spec c hs
  obtain ⟨ha, X, hpre, hX⟩ := anteStep_spec c hs
  have hY := hpre.of_noChip (noChip_preflopEntry X)
  have hYr := preflopEntry_round X
  rw [requestBlinds_preflop _ hYr, hY.opts] at hX
  have hfb : afterForcedBets c = if c.opts.noBlinds then afterAnte c else ((afterAnte c).step .payBlinds).1 := rfl
  have hlb : c.LB = if c.opts.noBlinds then c.LA else c.LA.map (blindFr c.opts) := rfl
  by_cases hb : c.opts.noBlinds
  · rw [if_pos hb] at hX hfb hlb
    have hP : Pre c.opts c.LA (afterAnte c) := by
      rw [hX]; exact (hY.of_noChip (noChip_setEvent _ _)).of_noChip (noChip_requestReady _)
    refine ⟨hr, ha, fun h => (h1 h).2.1, fun h => absurd hb h, fun h => absurd hb h, hP.frames, hP.cw, ?_, ?_,
      ?_, ?_, ?_⟩
    · rw [hfb, hX]; rfl
    · rw [hfb, hX]; exact hYr
    · rw [hfb]; exact hP.opts
    · rw [hfb, hlb]; exact hP.frames
    · rw [hfb, hP.prev]
      obtain ⟨b1, _, b3⟩ := hb
      simp [Meta.firstPrev, b1, b3]
  · rw [if_neg hb] at hX hfb hlb
    have hP : Pre c.opts c.LA (afterAnte c) := by
      rw [hX]; exact hY.of_noChip (noChip_setEvent _ _)
    have hPe : (afterAnte c).event = .blindsRequested := by rw [hX]; rfl
    have hPr : (afterAnte c).round = .preflop := by rw [hX]; exact hYr
    have e : (afterAnte c).step .payBlinds =
        (((afterAnte c).seatsFromDealer.foldl payBlind (afterAnte c)).blindsPaid, none) := by
      show (afterAnte c).payBlinds = _
      unfold Game.payBlinds
      rw [if_neg (by simp [hPe])]
    rw [e] at hfb
    obtain ⟨f1, f2⟩ := foldl_payBlind_frames (afterAnte c).seatsFromDealer (afterAnte c)
    rw [foldl_modify_eq_map _ _ _ (afterAnte c).nodup_seatsFromDealer
      (fun j hj => (afterAnte c).mem_seatsFromDealer.mpr (by simpa [Game.n] using hj)), hP.frames, hP.opts] at f2
    have fr := (foldl_payBlind_soft (afterAnte c).seatsFromDealer (afterAnte c)).round
    obtain ⟨b1, b2, b3, b4, b5, _⟩ := blindsPaid_preflop _ (fr.trans hPr)
    have hfb' : afterForcedBets c = ((afterAnte c).seatsFromDealer.foldl payBlind (afterAnte c)).blindsPaid := hfb
    refine ⟨hr, ha, fun h => (h1 h).2.1, fun _ => by rw [e], fun _ => hPe, hP.frames, hP.cw, ?_, ?_, ?_, ?_, ?_⟩
    · rw [hfb']; exact b1
    · rw [hfb']; exact b2
    · rw [hfb']; exact b3.trans (f1.trans hP.opts)
    · rw [hfb', hlb]; exact b4.trans f2
    · rw [hfb', b5, f1, hP.opts]

end Pokerface

/-! ### arithmetic of one seat -/
namespace Pokerface
open Game

theorem blindOfFr_congr (m : Meta) {a b : Fr} (h : a.1 = b.1) : blindOfFr m a = blindOfFr m b := by
  unfold blindOfFr; rw [h]

theorem blindOfFr_nonneg {m : Meta} (ho : OptsOK m) (fr : Fr) : 0 ≤ blindOfFr m fr := by
  unfold blindOfFr
  have := ho.bd0; have := ho.sb0; have := ho.bb0
  split
  · omega
  · split
    · omega
    · split <;> omega

/-- what the ante step does to a fresh seat `(b, b, b, 0, 0)` -/
theorem ante_frame_arith (a : Int) (_ha : 0 < a) (fr : Fr) (hb : 0 < fr.2.1) (h1 : fr.2.2.1 = fr.2.1)
    (h2 : fr.2.2.2.1 = fr.2.1) (h3 : fr.2.2.2.2.1 = 0) (h4 : fr.2.2.2.2.2 = 0) :
    (sweepFr (payFr a fr)).1 = fr.1 ∧ (sweepFr (payFr a fr)).2.1 = fr.2.1 ∧
    (sweepFr (payFr a fr)).2.2.2.2.1 = min a fr.2.1 ∧ (sweepFr (payFr a fr)).2.2.2.2.2 = 0 ∧
    (sweepFr (payFr a fr)).2.2.2.1 = fr.2.1 - min a fr.2.1 ∧ (sweepFr (payFr a fr)).2.2.1 = fr.2.1 - min a fr.2.1 := by
  obtain ⟨s, b, ini, st, pot, w⟩ := fr
  simp only at hb h1 h2 h3 h4
  subst h1 h2 h3 h4
  unfold sweepFr payFr
  simp only
  split <;> simp <;> omega

/-- what the blinds step does to a seat with nothing wagered and `stack = initial ≥ 0` -/
theorem blind_frame_arith (m : Meta) (ho : OptsOK m) (fr : Fr) (hst : 0 ≤ fr.2.2.2.1) (h1 : fr.2.2.1 = fr.2.2.2.1)
    (h4 : fr.2.2.2.2.2 = 0) :
    (blindFr m fr).1 = fr.1 ∧ (blindFr m fr).2.1 = fr.2.1 ∧ (blindFr m fr).2.2.2.2.1 = fr.2.2.2.2.1 ∧
    (blindFr m fr).2.2.2.2.2 = min fr.2.2.2.1 (blindOfFr m fr) ∧
    (blindFr m fr).2.2.2.1 = fr.2.2.2.1 - min fr.2.2.2.1 (blindOfFr m fr) ∧ (blindFr m fr).2.2.1 = fr.2.2.2.1 := by
  have hbl := blindOfFr_nonneg ho fr
  unfold blindFr
  generalize blindOfFr m fr = bl at hbl ⊢
  obtain ⟨s, b, ini, st, pot, w⟩ := fr
  simp only at hst h1 h4
  subst h1 h4
  unfold payFr
  simp only
  split <;> split <;> simp <;> omega

/-- specification of one seat after the forced bets, in terms of the frame it was configured with -/
def ForcedSeat (m : Meta) (fr0 fr : Fr) : Prop :=
  fr.1 = fr0.1 ∧ fr.2.1 = fr0.2.1 ∧
  fr.2.2.2.2.1 = min m.ante fr0.2.1 ∧
  fr.2.2.2.2.2 = min (fr0.2.1 - min m.ante fr0.2.1) (blindOfFr m fr0) ∧
  fr.2.2.2.1 = fr0.2.1 - min m.ante fr0.2.1 - min (fr0.2.1 - min m.ante fr0.2.1) (blindOfFr m fr0) ∧
  fr.2.2.1 = fr0.2.1 - min m.ante fr0.2.1

/-- … and after the ante only -/
def AnteSeat (m : Meta) (fr0 fr : Fr) : Prop :=
  fr.1 = fr0.1 ∧ fr.2.1 = fr0.2.1 ∧ fr.2.2.2.2.1 = min m.ante fr0.2.1 ∧ fr.2.2.2.2.2 = 0 ∧
  fr.2.2.2.1 = fr0.2.1 - min m.ante fr0.2.1 ∧ fr.2.2.1 = fr0.2.1 - min m.ante fr0.2.1

theorem LA_seat (c : Config) (ho : OptsOK c.opts) (hs : (start c).2 = none) (j : Nat) (fr : Fr)
    (h : c.LA[j]? = some fr) : ∃ fr0, c.L0[j]? = some fr0 ∧ AnteSeat c.opts fr0 fr := by
  unfold Config.LA at h
  have ha0 := ho.ante0
  by_cases ha : c.opts.ante > 0
  · rw [if_pos ha] at h
    simp only [List.getElem?_map, Option.map_eq_some_iff] at h
    obtain ⟨_, ⟨fr0, h0, rfl⟩, rfl⟩ := h
    obtain ⟨hb, h1, h2, h3, h4⟩ := config_frame c hs fr0 (List.mem_of_getElem? h0)
    exact ⟨fr0, h0, ante_frame_arith _ ha fr0 hb h1 h2 h3 h4⟩
  · rw [if_neg ha] at h
    obtain ⟨hb, h1, h2, h3, h4⟩ := config_frame c hs fr (List.mem_of_getElem? h)
    refine ⟨fr, h, rfl, rfl, ?_, h4, ?_, ?_⟩ <;> omega

theorem LB_seat (c : Config) (ho : OptsOK c.opts) (hs : (start c).2 = none) (j : Nat) (fr : Fr)
    (h : c.LB[j]? = some fr) : ∃ fr0, c.L0[j]? = some fr0 ∧ ForcedSeat c.opts fr0 fr := by
  unfold Config.LB at h
  by_cases hb : c.opts.noBlinds
  · rw [if_pos hb] at h
    obtain ⟨fr0, h0, a1, a2, a3, a4, a5, a6⟩ := LA_seat c ho hs j fr h
    have hbl : blindOfFr c.opts fr0 = 0 := by
      obtain ⟨b1, b2, b3⟩ := hb
      simp [blindOfFr, b1, b2, b3]
    have hbk := (config_frame c hs fr0 (List.mem_of_getElem? h0)).1
    have := ho.ante0
    refine ⟨fr0, h0, a1, a2, a3, ?_, ?_, a6⟩
    · rw [a4, hbl]; omega
    · rw [a5, hbl]; omega
  · rw [if_neg hb] at h
    simp only [List.getElem?_map, Option.map_eq_some_iff] at h
    obtain ⟨frA, hA, rfl⟩ := h
    obtain ⟨fr0, h0, a1, a2, a3, a4, a5, a6⟩ := LA_seat c ho hs j frA hA
    have hbk := (config_frame c hs fr0 (List.mem_of_getElem? h0)).1
    have := ho.ante0
    obtain ⟨b1, b2, b3, b4, b5, b6⟩ := blind_frame_arith c.opts ho frA (by rw [a5]; omega) (by rw [a6, a5]) a4
    rw [blindOfFr_congr c.opts a1] at b4 b5
    refine ⟨fr0, h0, b1.trans a1, b2.trans a2, b3.trans a3, ?_, ?_, ?_⟩
    · rw [b4, a5]
    · rw [b5, a5]
    · rw [b6, a5]

end Pokerface

/-! ### the wager to match is the largest wager -/
namespace Pokerface
open Game

/-- the wager to match is attained by some seat (or nobody has wagered and it is 0) -/
def CwMax (g : Game) : Prop := g.cw = 0 ∨ ∃ (j : Nat) (q : Player), g.players[j]? = some q ∧ q.wager = g.cw

theorem CwMax.of_noChip {g g' : Game} (h : CwMax g) (nc : NoChip g g') : CwMax g' := by
  rcases h with h | ⟨j, q, hq, hw⟩
  · exact Or.inl (nc.cw.trans h)
  · obtain ⟨q', hq', he⟩ := nc.at hq
    exact Or.inr ⟨j, q', hq', by rw [(frame_chips he).2.2.2.2.1, hw, nc.cw]⟩

theorem cwMax_pay {g : Game} (ok : ChipsOK g) (h : CwMax g) (i : Nat) (c : Int) (hc : 0 ≤ c) :
    CwMax (g.pay i c true) := by
  cases hp : g.players[i]? with
  | none =>
    have : g.pay i c true = g := by unfold Game.pay; rw [hp]
    rw [this]; exact h
  | some p =>
    have hpi := ok.pinv p (List.mem_of_getElem? hp)
    have hwle := ok.wle p (List.mem_of_getElem? hp)
    have := hpi.rebase; have := hpi.stack0; have := hpi.wager0
    have hcw := pay_cw hp c
    obtain ⟨qi, hqi, hfi⟩ := pay_self hp c true
    have hwi : qi.wager = if p.stack ≤ c then p.initial else p.wager + c := by
      rw [(frame_chips hfi).2.2.2.2.1]
      unfold payF
      split <;> simp [goAllin, putWager]
    by_cases hraised : g.cw < (g.pay i c true).cw
    · -- the payer set the new wager to match
      refine Or.inr ⟨i, qi, hqi, ?_⟩
      rw [hwi, hcw]
      rw [hcw] at hraised
      split <;> split <;> simp_all <;> omega
    · have heq : (g.pay i c true).cw = g.cw := by
        have := pay_cw_mono g i c true
        omega
      rcases h with h | ⟨j, q, hq, hw⟩
      · exact Or.inl (heq.trans h)
      · by_cases hij : i = j
        · subst hij
          rw [hp] at hq; cases hq
          refine Or.inr ⟨i, qi, hqi, ?_⟩
          rw [hwi, heq]
          rw [hcw] at heq
          split <;> split at heq <;> omega
        · have h1 : ((g.pay i c true).players.map Player.frame)[j]? = some q.frame := by
            rw [pay_frames hp, List.getElem?_modify_ne _ _ hij]; simp [hq]
          simp only [List.getElem?_map, Option.map_eq_some_iff] at h1
          obtain ⟨q', hq', he⟩ := h1
          exact Or.inr ⟨j, q', hq', by rw [(frame_chips he).2.2.2.2.1, hw, heq]⟩

theorem bInv_cwMax_payBlind (g : Game) (i : Nat) (h : BInv g) (hm : CwMax g) : CwMax (g.payBlind i) := by
  unfold Game.payBlind
  split
  · exact hm
  · rename_i p hp
    have hpi := h.chips.pinv p (List.mem_of_getElem? hp)
    have hb := blindOf_nonneg h.opts p
    have hc : 0 ≤ (if p.stack < blindOf g.opts p then p.stack else blindOf g.opts p) := by
      have := hpi.stack0
      split <;> omega
    exact cwMax_pay h.chips hm i _ hc

theorem cwMax_foldl : ∀ (is : List Nat) (g : Game), BInv g → CwMax g → CwMax (is.foldl payBlind g)
  | [], _, _, h => h
  | i :: is, g, hb, h => cwMax_foldl is _ (bInv_payBlind g i hb) (bInv_cwMax_payBlind g i hb h)

theorem cwMax_blindsPaid (g : Game) (h : CwMax g) : CwMax g.blindsPaid := by
  unfold Game.blindsPaid
  have h1 : CwMax (g.setPrev (if g.opts.blindBB > 0 then g.opts.blindBB else g.opts.blindDealer)) := by
    unfold CwMax at h ⊢; exact h
  exact h1.of_noChip (((noChip_resetAllAllowed _).trans (noChip_setEvent _ _)).trans (noChip_prepareRound _))

end Pokerface

namespace Pokerface
open Game

theorem reachable_afterReady (c : Config) (wf : WFConfig c) (hs : (start c).2 = none) : Reachable (afterReady c) :=
  (reachable_run wf hs []).step .ready

theorem reachable_afterAnte (c : Config) (wf : WFConfig c) (hs : (start c).2 = none) : Reachable (afterAnte c) := by
  unfold afterAnte
  split
  · exact (reachable_afterReady c wf hs).step _
  · exact reachable_afterReady c wf hs

theorem reachable_afterForcedBets (c : Config) (wf : WFConfig c) (hs : (start c).2 = none) :
    Reachable (afterForcedBets c) := by
  unfold afterForcedBets
  split
  · exact reachable_afterAnte c wf hs
  · exact (reachable_afterAnte c wf hs).step _

/-- after the forced bets the wager to match is attained by a seat, or it is 0 -/
theorem cwMax_afterForcedBets (c : Config) (wf : WFConfig c) (hs : (start c).2 = none) :
    CwMax (afterForcedBets c) := by
  have sp := forcedSpec c hs
  have hA : CwMax (afterAnte c) := Or.inl sp.anteCw
  have hfb : afterForcedBets c = if c.opts.noBlinds then afterAnte c else ((afterAnte c).step .payBlinds).1 := rfl
  by_cases hb : c.opts.noBlinds
  · rw [hfb, if_pos hb]; exact hA
  · rw [hfb, if_neg hb]
    have hev := sp.blinds_ev hb
    have hi := inv_reachable (reachable_afterAnte c wf hs)
    have hbi : BInv (afterAnte c) := ⟨hi.opts, hi.struct, hi.chips (by rw [hev]; simp), by
      have := hi.post.allowed; simpa [hev] using this⟩
    show CwMax (afterAnte c).payBlinds.1
    unfold Game.payBlinds
    rw [if_neg (by simp [hev])]
    exact cwMax_blindsPaid _ (cwMax_foldl _ _ hbi hA)

end Pokerface

namespace Pokerface
open Game

theorem config_seat (c : Config) (j : Nat) (p0 : Player) (h : c.players[j]? = some p0) :
    ∃ s, c.seats[j]? = some s ∧ p0.idx = j ∧ p0.posDealer = s.dealer ∧ p0.posSB = s.sb ∧ p0.posBB = s.bb ∧
      p0.bankroll = s.bankroll := by
  unfold Config.players at h
  simp only [List.getElem?_map, List.getElem?_zipIdx] at h
  cases hs : c.seats[j]? with
  | none => simp [hs] at h
  | some s =>
    simp [hs] at h
    subst h
    exact ⟨s, rfl, rfl, rfl, rfl, rfl, rfl⟩

theorem config_players_length (c : Config) : c.players.length = c.seats.length := by
  simp [Config.players]

/-- A seat of a state whose frames are `L`, traced back to the configured seat. -/
theorem seat_of_frames {g : Game} {L : List Fr} (hf : g.players.map Player.frame = L)
    {j : Nat} {q : Player} (hq : g.players[j]? = some q) : L[j]? = some q.frame := by
  rw [← hf]; simp [hq]

theorem L0_seat (c : Config) {j : Nat} {fr0 : Fr} (h : c.L0[j]? = some fr0) :
    ∃ s, c.seats[j]? = some s ∧ fr0.1 = (j, s.dealer, s.sb, s.bb) ∧ fr0.2.1 = s.bankroll := by
  unfold Config.L0 at h
  simp only [List.getElem?_map, Option.map_eq_some_iff] at h
  obtain ⟨p0, hp0, rfl⟩ := h
  obtain ⟨s, hs, h1, h2, h3, h4, h5⟩ := config_seat c j p0 hp0
  refine ⟨s, hs, ?_, h5⟩
  simp [Player.frame, h1, h2, h3, h4]

/-- The complete description of a seat after the forced bets. -/
theorem forced_seat (c : Config) (wf : WFConfig c) (hs : (start c).2 = none) {j : Nat} {q : Player}
    (hq : (afterForcedBets c).players[j]? = some q) :
    ∃ s, c.seats[j]? = some s ∧ q.idx = j ∧ q.posDealer = s.dealer ∧ q.posSB = s.sb ∧ q.posBB = s.bb ∧
      q.bankroll = s.bankroll ∧ q.pot = min c.opts.ante s.bankroll ∧
      q.wager = min (s.bankroll - q.pot) (blindOf c.opts q) ∧
      q.stack = s.bankroll - q.pot - q.wager ∧ q.initial = s.bankroll - q.pot := by
  have sp := forcedSpec c hs
  obtain ⟨fr0, h0, a1, a2, a3, a4, a5, a6⟩ := LB_seat c wf.opts hs j q.frame (seat_of_frames sp.frames hq)
  obtain ⟨s, hs', e1, e2⟩ := L0_seat c h0
  have hbl : blindOf c.opts q = blindOfFr c.opts fr0 := by
    rw [blindOf_frame]; exact blindOfFr_congr _ a1
  rw [e1] at a1
  rw [e2] at a2 a3 a4 a5 a6
  simp only [Player.frame, Player.chips, Prod.mk.injEq] at a1 a2 a3 a4 a5 a6
  obtain ⟨i1, i2, i3, i4⟩ := a1
  refine ⟨s, hs', i1, i2, i3, i4, a2, a3, ?_, ?_, ?_⟩
  · rw [hbl, a3]; exact a4
  · rw [a5, a3, a4]
  · rw [a6, a3]

theorem afterForcedBets_n (c : Config) (hs : (start c).2 = none) : (afterForcedBets c).n = c.seats.length := by
  have sp := forcedSpec c hs
  have := congrArg List.length sp.frames
  have hl : c.LB.length = c.seats.length := by
    unfold Config.LB Config.LA Config.L0
    split <;> split <;> simp [config_players_length]
  simp only [List.length_map] at this
  rw [Game.n, this, hl]

/-- … and after the ante alone (the state in which `PayBlinds` is requested, or the final one without blinds). -/
theorem ante_seat (c : Config) (wf : WFConfig c) (hs : (start c).2 = none) {j : Nat} {q : Player}
    (hq : (afterAnte c).players[j]? = some q) :
    ∃ s, c.seats[j]? = some s ∧ q.bankroll = s.bankroll ∧ q.pot = min c.opts.ante s.bankroll ∧ q.wager = 0 ∧
      q.stack = s.bankroll - q.pot ∧ q.initial = s.bankroll - q.pot := by
  have sp := forcedSpec c hs
  obtain ⟨fr0, h0, a1, a2, a3, a4, a5, a6⟩ := LA_seat c wf.opts hs j q.frame (seat_of_frames sp.anteFrames hq)
  obtain ⟨s, hs', e1, e2⟩ := L0_seat c h0
  rw [e2] at a2 a3 a5 a6
  simp only [Player.frame, Player.chips] at a2 a3 a4 a5 a6
  exact ⟨s, hs', a2, a3, a4, by rw [a5, a3], by rw [a6, a3]⟩

end Pokerface

/-! ### every history of the hand goes through the forced bets -/
namespace Pokerface
open Game

theorem allows_false_of_noneAllowed {g : Game} (hn : NoneAllowed g) (i : Nat) (a : Act) : g.allows i a = false := by
  unfold Game.allows
  split
  · rename_i p hp
    rw [hn p (List.mem_of_getElem? hp)]; rfl
  · rfl

theorem act_refused_of_noneAllowed {g : Game} (hn : NoneAllowed g) (i : Nat) (a : Act) (x : Int) :
    (g.act i a x).1 = g := by
  unfold Game.act
  cases a <;> simp [allows_false_of_noneAllowed hn]

/-- at a wait point that is not a player decision, every operation except the awaited one is without effect -/
theorem step_unchanged {g : Game} (hi : Inv g) (op : Op)
    (h : (g.event = .readyRequested ∧ op ≠ .ready) ∨ (g.event = .anteRequested ∧ op ≠ .payAnte) ∨
      (g.event = .blindsRequested ∧ op ≠ .payBlinds)) : (g.step op).1 = g := by
  have hne : g.event ≠ .roundStarted ∧ g.event ≠ .roundClosed := by
    rcases h with h | h | h <;> rw [h.1] <;> simp
  have hn : NoneAllowed g := by
    have := hi.post.allowed; simpa [hne.1] using this
  unfold Game.step
  cases op with
  | ready =>
    simp only; unfold Game.readyForAll
    rcases h with h | h | h
    · exact absurd rfl h.2
    · rw [if_pos (by rw [h.1]; simp)]
    · rw [if_pos (by rw [h.1]; simp)]
  | payAnte =>
    simp only; unfold Game.payAnte
    split
    · rfl
    · rcases h with h | h | h
      · rw [if_pos (by rw [h.1]; simp)]
      · exact absurd rfl h.2
      · rw [if_pos (by rw [h.1]; simp)]
  | payBlinds =>
    simp only; unfold Game.payBlinds
    rcases h with h | h | h
    · rw [if_pos (by rw [h.1]; simp)]
    · rw [if_pos (by rw [h.1]; simp)]
    · exact absurd rfl h.2
  | next =>
    simp only; unfold Game.next
    rw [if_pos hne.2]
  | act seat a x =>
    cases seat with
    | none => exact act_refused_of_noneAllowed hn _ a x
    | some i => exact act_refused_of_noneAllowed hn i a x

/-- the states of a hand before its forced bets are complete -/
def BeforeForced (c : Config) (g : Game) : Prop :=
  g = (start c).1 ∨ (c.opts.ante > 0 ∧ g = afterReady c) ∨ (¬ c.opts.noBlinds ∧ g = afterAnte c)

theorem afterAnte_next (c : Config) : BeforeForced c (afterAnte c) ∨ afterAnte c = afterForcedBets c := by
  by_cases hb : c.opts.noBlinds
  · right; unfold afterForcedBets; rw [if_pos hb]
  · exact Or.inl (Or.inr (Or.inr ⟨hb, rfl⟩))

theorem beforeForced_step (c : Config) (wf : WFConfig c) (hs : (start c).2 = none) {g : Game}
    (h : BeforeForced c g) (op : Op) :
    BeforeForced c (g.step op).1 ∨ (g.step op).1 = afterForcedBets c := by
  have sp := forcedSpec c hs
  rcases h with rfl | ⟨ha, rfl⟩ | ⟨hb, rfl⟩
  · by_cases hop : op = .ready
    · subst hop
      by_cases ha : c.opts.ante > 0
      · exact Or.inl (Or.inr (Or.inl ⟨ha, rfl⟩))
      · have : ((start c).1.step .ready).1 = afterAnte c := by unfold afterAnte afterReady; rw [if_neg ha]
        rw [this]; exact afterAnte_next c
    · rw [step_unchanged (inv_start c wf hs) op (Or.inl ⟨(pre_start c hs).2.1, hop⟩)]
      exact Or.inl (Or.inl rfl)
  · by_cases hop : op = .payAnte
    · subst hop
      have : ((afterReady c).step .payAnte).1 = afterAnte c := by unfold afterAnte; rw [if_pos ha]
      rw [this]; exact afterAnte_next c
    · rw [step_unchanged (inv_reachable (reachable_afterReady c wf hs)) op (Or.inr (Or.inl ⟨sp.ante_ev ha, hop⟩))]
      exact Or.inl (Or.inr (Or.inl ⟨ha, rfl⟩))
  · by_cases hop : op = .payBlinds
    · subst hop
      right; unfold afterForcedBets; rw [if_neg hb]
    · rw [step_unchanged (inv_reachable (reachable_afterAnte c wf hs)) op (Or.inr (Or.inr ⟨sp.blinds_ev hb, hop⟩))]
      exact Or.inl (Or.inr (Or.inr ⟨hb, rfl⟩))

/-- Every history of the hand either is still before the forced bets are complete, or it passes through
    `afterForcedBets c`. -/
theorem run_through_forced (c : Config) (wf : WFConfig c) (hs : (start c).2 = none) :
    ∀ (ops : List Op) (g : Game), BeforeForced c g →
      BeforeForced c (g.run ops) ∨ ∃ ops1 ops2, ops = ops1 ++ ops2 ∧ g.run ops1 = afterForcedBets c
  | [], g, h => Or.inl h
  | op :: ops, g, h => by
    rcases beforeForced_step c wf hs h op with h1 | h1
    · rcases run_through_forced c wf hs ops _ h1 with h2 | ⟨o1, o2, e1, e2⟩
      · exact Or.inl h2
      · exact Or.inr ⟨op :: o1, o2, by rw [e1]; rfl, e2⟩
    · exact Or.inr ⟨[op], ops, rfl, h1⟩

theorem beforeForced_not_preflop_ready (c : Config) (hs : (start c).2 = none) {g : Game} (h : BeforeForced c g) :
    ¬ (g.round = .preflop ∧ g.event = .readyRequested) := by
  have sp := forcedSpec c hs
  rcases h with rfl | ⟨ha, rfl⟩ | ⟨hb, rfl⟩
  · rw [(pre_start c hs).2.2]; simp
  · rw [sp.ante_ev ha]; simp
  · rw [sp.blinds_ev hb]; simp

end Pokerface
