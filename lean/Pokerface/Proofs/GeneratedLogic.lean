import Pokerface.Model.Game
import Pokerface.Generated.Logic
import Pokerface.Proofs.ListLemmas
import Pokerface.Proofs.GeneratedLogicBase
/-
  K1, translated logic (hand evaluation and betting): the decision logic that `harness/cmd/genlogic`
  translates from the Go AST of the repository under test on every run (Generated/Logic.lean) equals
  the hand-written model.  If a Go function changes, its generated definition changes and the
  corresponding theorem below no longer checks; a body the translator cannot read makes the generated
  file fail to compile.  (Flow of the hand: Proofs/GeneratedLogicFlow.lean; seat manager:
  Proofs/GeneratedLogicSM.lean.)

  Player actions are translated as `(error, effects in order)`: every state-changing statement of the Go
  method is recorded, in order, as a named effect (`("acted", 0)`, `("pay", delta)`, `("prev", raised)`,
  `("Call", 0)` for `return p.Call()`, …); `effect`/`interp` below read the names on the model, and the
  theorems `act…_eq` say that `Game.act` is that reading of the translated method.
-/
set_option linter.unusedSimpArgs false
namespace Pokerface.GeneratedLogic
open Pokerface Game

/-- the strings of game.go for the actions -/
def actString : Act → String
  | .pass => "pass" | .fold => "fold" | .check => "check" | .call => "call" | .allin => "allin"
  | .bet => "bet" | .raise => "raise" | .pay => "pay"

/-- game.go `GetAvailableActions` as translated from the source = the model's `availableActions`. -/
theorem availableActions_eq (g : Game) (p : Player) :
    Generated.Logic.availableActions p.fold p.stack p.wager p.initial g.cw g.prev g.miniBet
      = (g.availableActions p).map actString := by
  unfold Generated.Logic.availableActions Game.availableActions
  by_cases h1 : p.fold = true
  · simp [h1, actString]
  · by_cases h2 : p.stack = 0
    · simp [h1, h2, actString]
    · by_cases h3 : p.wager < g.cw
      · by_cases h4 : p.initial > g.cw
        · by_cases h5 : p.initial > g.cw + g.prev <;> simp [h1, h2, h3, h4, h5, actString]
        · simp [h1, h2, h3, h4, actString]
      · simp only [h1, h2, h3, Bool.false_eq_true, if_false, decide_false, decide_true, beq_iff_eq]
        by_cases h4 : p.initial ≥ g.miniBet
        · by_cases h5 : g.cw = 0 <;> simp [h2, h4, h5, actString]
        · simp [h2, h4, actString]

/-- player.go `PayBlinds`, the amount posted, as translated from the source = the model's
    `blindOf` capped at the stack (what `payBlind` pays). -/
theorem blindChips_eq (m : Meta) (p : Player) :
    Generated.Logic.blindChips m.blindBB m.blindSB m.blindDealer p.posBB p.posSB p.posDealer p.stack
      = (if p.stack < blindOf m p then p.stack else blindOf m p) := by
  unfold Generated.Logic.blindChips Game.blindOf
  by_cases h1 : m.blindBB > 0 ∧ p.posBB = true
  · simp [h1]
  · by_cases h2 : m.blindSB > 0 ∧ p.posSB = true
    · simp [h1, h2]
    · by_cases h3 : m.blindDealer > 0 ∧ p.posDealer = true
      · simp [h1, h2, h3]
      · simp [h1, h2, h3]

/-- game.go `RequestBlinds` as translated from the source = the model's `requestBlinds`. -/
theorem requestBlinds_eq (g : Game) :
    g.requestBlinds = (if Generated.Logic.skipBlinds g.opts.blindDealer g.opts.blindSB g.opts.blindBB
      then (g.setEvent .blindsPaid).prepareRound else g.setEvent .blindsRequested) := by
  unfold Generated.Logic.skipBlinds Game.requestBlinds
  by_cases h : g.opts.blindDealer = 0 ∧ g.opts.blindSB = 0 ∧ g.opts.blindBB = 0
  · simp [h]
  · have : ¬ (g.opts.blindDealer = 0 ∧ g.opts.blindSB = 0 ∧ g.opts.blindBB = 0) := h
    simp only [h, if_false]
    by_cases a : g.opts.blindDealer = 0 <;> by_cases b : g.opts.blindSB = 0 <;> by_cases c : g.opts.blindBB = 0 <;> simp_all

/-- combination/power.go `CalculatePower`, the category chain, as translated from the source =
    the model's `category`. -/
theorem categoryChain_eq (ranks : List Nat) (flush : Bool) :
    Generated.Logic.categoryChain flush (isStraight ranks) (hasCount (elements ranks) 4)
      (hasCount (elements ranks) 3 && hasCount (elements ranks) 2) (hasCount (elements ranks) 3)
      (pairCount (elements ranks) == 2) (pairCount (elements ranks) == 1)
      = category ranks flush := by
  simp only [category]
  generalize hasCount (elements ranks) 4 = a
  generalize hasCount (elements ranks) 3 = b
  generalize hasCount (elements ranks) 2 = c
  generalize isStraight ranks = st
  generalize hp : pairCount (elements ranks) = pc
  unfold Generated.Logic.categoryChain
  by_cases h2 : pc = 2 <;> by_cases h1 : pc = 1 <;>
    cases flush <;> cases st <;> cases a <;> cases b <;> cases c <;> simp_all

/-! ### player.go `pay` -/

/-- what the tuple computed by the translated `pay` says about the state -/
def applyPay (g : Game) (i : Nat) (r : Int × Int × Int × Int × String) : Game :=
  let g1 : Game := { g with players := g.players.modify i (fun p => { p with stack := r.1, wager := r.2.1 }),
                            roundPot := r.2.2.1, cw := r.2.2.2.1 }
  if r.2.2.2.2 = "raiser" then g1.becomeRaiser i
  else if r.2.2.2.2 = "reset" then g1.resetActed else g1

theorem modify_congr_at {l : List Player} {i : Nat} {p : Player} (hp : l[i]? = some p) (f f' : Player → Player)
    (h : f p = f' p) : l.modify i f = l.modify i f' := by
  apply List.ext_getElem?
  intro j
  rw [List.getElem?_modify, List.getElem?_modify]
  by_cases hij : i = j
  · subst hij; simp [hp, h]
  · simp [hij]

theorem pay_eq {g : Game} {i : Nat} {p : Player} (hp : g.players[i]? = some p) (chips : Int) (w : Bool) :
    g.pay i chips w = applyPay g i (Generated.Logic.pay p.stack p.initial p.wager g.roundPot g.cw g.prev chips w) := by
  unfold Game.pay
  rw [hp]
  simp only
  unfold Generated.Logic.pay applyPay
  by_cases h1 : p.stack ≤ chips
  · have hm := modify_congr_at hp goAllin (fun q => { q with stack := 0, wager := p.initial }) rfl
    cases w
    · simp [h1, Game.payAllin, Game.addRoundPot, Game.modP, hm]
    · by_cases h2 : p.initial > g.cw <;> by_cases h3 : p.initial - g.cw ≥ g.cw + g.prev <;>
        simp [h1, h2, h3, Game.payAllin, Game.addRoundPot, Game.modP, Game.setCw, hm]
  · have hm := modify_congr_at hp (putWager (p.wager + chips))
      (fun q => { q with stack := p.initial - (p.wager + chips), wager := p.wager + chips }) rfl
    cases w
    · simp [h1, Game.payPart, Game.addRoundPot, Game.modP, hm]
    · by_cases h2 : g.cw < p.wager + chips <;>
        simp [h1, h2, Game.payPart, Game.addRoundPot, Game.modP, Game.setCw, hm]

theorem pay_mark (a b c d e f x : Int) (w : Bool) :
    (Generated.Logic.pay a b c d e f x w).2.2.2.2 = "raiser" ∨ (Generated.Logic.pay a b c d e f x w).2.2.2.2 = "reset" ∨
      (Generated.Logic.pay a b c d e f x w).2.2.2.2 = "" := by
  unfold Generated.Logic.pay
  simp only
  repeat' split
  all_goals simp

/-- the field-by-field reading of `pay_eq` -/
theorem pay_fields {g : Game} {i : Nat} {p : Player} (hp : g.players[i]? = some p) (chips : Int) (w : Bool) :
    let r := Generated.Logic.pay p.stack p.initial p.wager g.roundPot g.cw g.prev chips w
    let g' := g.pay i chips w
    (∃ q, g'.players[i]? = some q ∧ q.stack = r.1 ∧ q.wager = r.2.1 ∧
        { q with stack := p.stack, wager := p.wager, acted := p.acted } = p) ∧
    g'.roundPot = r.2.2.1 ∧ g'.cw = r.2.2.2.1 ∧ g'.prev = g.prev ∧
    g'.players.length = g.players.length ∧
    (∀ (j : Nat) (q : Player), j ≠ i → g.players[j]? = some q → ∃ q', g'.players[j]? = some q' ∧ { q' with acted := q.acted } = q) ∧
    (r.2.2.2.2 = "raiser" ∨ r.2.2.2.2 = "reset" ∨ r.2.2.2.2 = "") ∧
    (r.2.2.2.2 = "raiser" → g'.raiser = i ∧ ∀ (j : Nat) (q : Player), g'.players[j]? = some q → q.acted = decide (j = i)) ∧
    (r.2.2.2.2 = "reset" → g'.raiser = g.raiser ∧ ∀ (j : Nat) (q : Player), g'.players[j]? = some q → q.acted = false) ∧
    (r.2.2.2.2 = "" → g'.raiser = g.raiser ∧ g'.players.map Player.acted = g.players.map Player.acted) := by
  intro r g'
  have hg : g' = applyPay g i r := pay_eq hp chips w
  have hmark : r.2.2.2.2 = "raiser" ∨ r.2.2.2.2 = "reset" ∨ r.2.2.2.2 = "" := pay_mark ..
  clear_value r g'
  subst hg
  obtain ⟨a, b, c, d, m⟩ := r
  simp only at hmark
  refine ⟨?_, ?_, ?_, ?_, ?_, ?_, hmark, ?_, ?_, ?_⟩
  · rcases hmark with rfl | rfl | rfl <;>
      simp [applyPay, Game.becomeRaiser, Game.resetActed, Game.setActed, Game.setRaiser, Game.modP, Game.mapP, hp]
  · rcases hmark with rfl | rfl | rfl <;> simp [applyPay, Game.becomeRaiser, Game.resetActed, Game.setActed, Game.setRaiser, Game.modP, Game.mapP]
  · rcases hmark with rfl | rfl | rfl <;> simp [applyPay, Game.becomeRaiser, Game.resetActed, Game.setActed, Game.setRaiser, Game.modP, Game.mapP]
  · rcases hmark with rfl | rfl | rfl <;> simp [applyPay, Game.becomeRaiser, Game.resetActed, Game.setActed, Game.setRaiser, Game.modP, Game.mapP]
  · rcases hmark with rfl | rfl | rfl <;> simp [applyPay, Game.becomeRaiser, Game.resetActed, Game.setActed, Game.setRaiser, Game.modP, Game.mapP]
  · intro j q hj hq
    have hj' : ¬ i = j := fun h => hj h.symm
    rcases hmark with rfl | rfl | rfl <;>
      simp [applyPay, Game.becomeRaiser, Game.resetActed, Game.setActed, Game.setRaiser, Game.modP, Game.mapP, hq, hj']
  · intro hm
    simp only at hm
    subst hm
    refine ⟨by simp [applyPay, Game.becomeRaiser, Game.resetActed, Game.setActed, Game.setRaiser, Game.modP, Game.mapP], ?_⟩
    intro j q
    simp only [applyPay, Game.becomeRaiser, Game.resetActed, Game.setActed, Game.setRaiser, Game.modP, Game.mapP, if_true, List.getElem?_modify, List.getElem?_map]
    by_cases hij : i = j
    · subst hij; simp [hp]; rintro rfl; rfl
    · have hji : ¬ j = i := fun h => hij h.symm
      cases hq : g.players[j]? <;> simp [hij, hji]
      rintro rfl; rfl
  · intro hm
    simp only at hm
    subst hm
    refine ⟨by simp [applyPay, Game.resetActed, Game.mapP], ?_⟩
    intro j q
    simp only [applyPay, Game.resetActed, Game.mapP]
    simp
    rintro x - rfl; rfl
  · intro hm
    simp only at hm
    subst hm
    refine ⟨by simp [applyPay], ?_⟩
    have : (applyPay g i (a, b, c, d, "")).players
        = g.players.modify i (fun p => { p with stack := a, wager := b }) := by simp [applyPay]
    rw [this]
    exact map_modify_of_proj Player.acted (fun p => { p with stack := a, wager := b }) (fun _ => rfl) _ _

/-! ### player.go: the player actions, translated as (error, effects in order) -/

/-- the errors of player.go by name -/
def errOf (s : String) : Err :=
  if s = "ErrInvalidAction" then .invalidAction
  else if s = "ErrIllegalRaise" then .illegalRaise
  else .unknownRound

/-- the reading of one recorded effect of a player action on seat `i` -/
def effect (i : Nat) (g : Game) (e : String × Int) : Game × Option Err :=
  if e.1 = "acted" then (g.setActed i, none)
  else if e.1 = "fold" then (g.modP i fun p => { p with fold := true }, none)
  else if e.1 = "pay" then (g.pay i e.2 true, none)
  else if e.1 = "payNoWager" then (g.pay i e.2 false, none)
  else if e.1 = "setRaiser" then (g.setRaiser i, none)
  else if e.1 = "resetActed" then (g.resetActed, none)
  else if e.1 = "prev" then (g.setPrev e.2, none)
  else if e.1 = "recordBet" then (g.recordBet i, none)
  else if e.1 = "resume" then (g.resume, none)
  else if e.1 = "Call" then g.act i .call 0
  else if e.1 = "Allin" then g.act i .allin 0
  else (g, some .unknownRound)

def runEffects (i : Nat) : List (String × Int) → Game → Game × Option Err
  | [], g => (g, none)
  | e :: es, g =>
    match effect i g e with
    | (g', none) => runEffects i es g'
    | (g', some err) => (g', some err)

/-- what a translated player action (error, effects) says about the state -/
def interp (g : Game) (i : Nat) (r : Option String × List (String × Int)) : Game × Option Err :=
  match r.1 with
  | some s => ((runEffects i r.2 g).1, some (errOf s))
  | none => runEffects i r.2 g

theorem actPass_eq (g : Game) (i : Nat) (x : Int) :
    g.act i .pass x = interp g i (Generated.Logic.actPass (g.allows i .pass)) := by
  unfold Generated.Logic.actPass Game.act
  cases h : g.allows i .pass <;> simp [interp, runEffects, effect, errOf]

theorem actCheck_eq (g : Game) (i : Nat) (x : Int) :
    g.act i .check x = interp g i (Generated.Logic.actCheck (g.allows i .check)) := by
  unfold Generated.Logic.actCheck Game.act
  cases h : g.allows i .check <;> simp [interp, runEffects, effect, errOf]

theorem actFold_eq (g : Game) (i : Nat) (x : Int) :
    g.act i .fold x = interp g i (Generated.Logic.actFold (g.allows i .fold)) := by
  unfold Generated.Logic.actFold Game.act
  cases h : g.allows i .fold <;> simp [interp, runEffects, effect, errOf, Game.doFold, Game.setActed, Game.modP, List.modify_modify_eq]
  rfl

theorem actPay_eq (g : Game) (i : Nat) (x : Int) (ri bb sb : Bool) :
    g.act i .pay x = interp g i (Generated.Logic.actPay (g.allows i .pay) x ri bb sb) := by
  unfold Generated.Logic.actPay Game.act
  cases h : g.allows i .pay <;> cases ri <;> cases bb <;> cases sb <;> simp [interp, runEffects, effect, errOf]

theorem actCall_eq {g : Game} {i : Nat} {p : Player} (hp : g.players[i]? = some p) (x : Int) :
    g.act i .call x = interp g i (Generated.Logic.actCall (g.allows i .call) g.cw p.wager g.opts.blindBB) := by
  unfold Generated.Logic.actCall Game.act
  cases h : g.allows i .call
  · simp [interp, runEffects, effect, errOf]
  · by_cases h2 : g.cw < g.opts.blindBB <;>
      simp [interp, runEffects, effect, errOf, Game.doCall, hp, h2]

theorem actAllin_eq {g : Game} {i : Nat} {p : Player} (hp : g.players[i]? = some p) (x : Int) :
    g.act i .allin x = interp g i (Generated.Logic.actAllin (g.allows i .allin) p.stack p.initial g.cw g.prev) := by
  unfold Generated.Logic.actAllin Game.act
  cases h : g.allows i .allin
  · simp [interp, runEffects, effect, errOf]
  · by_cases h2 : p.initial - g.cw ≥ g.prev <;>
      simp [interp, runEffects, effect, errOf, Game.doAllin, hp, h2]

theorem actBet_eq (g : Game) (i : Nat) (x : Int) :
    g.act i .bet x = interp g i (Generated.Logic.actBet (g.allows i .bet) x) := by
  unfold Generated.Logic.actBet Game.act
  cases h : g.allows i .bet
  · simp [interp, runEffects, effect, errOf]
  · by_cases h2 : x < 0 <;>
      simp [interp, runEffects, effect, errOf, Game.doBet, h2]

theorem actRaise_eq {g : Game} {i : Nat} {p : Player} (hp : g.players[i]? = some p) (x : Int) :
    g.act i .raise x = interp g i
      (Generated.Logic.actRaise (g.allows i .raise) x g.cw p.wager p.initial g.prev g.opts.potLimit) := by
  unfold Generated.Logic.actRaise
  conv => lhs; unfold Game.act
  cases h : g.allows i .raise
  · simp [interp, runEffects, effect, errOf]
  · by_cases h2 : x = 0 ∨ x < g.cw
    · simp [interp, runEffects, effect, errOf, h2]
    · have h2a : ¬ x = 0 := fun h => h2 (Or.inl h)
      have h2b : ¬ x < g.cw := fun h => h2 (Or.inr h)
      have hact : ∀ a, (match g.act i a 0 with | (g', none) => (g', none) | (g', some err) => (g', some err)) = g.act i a 0 := by
        intro a; rcases g.act i a 0 with ⟨g', _ | e⟩ <;> rfl
      by_cases h3 : x = g.cw
      · subst h3
        simp only [interp, runEffects, effect, h2, h2a, h2b, if_true, if_false, Bool.not_true, Bool.false_eq_true,
          beq_self_eq_true, Bool.or_self, decide_false, beq_iff_eq, List.nil_append, String.reduceEq, hact, Bool.or_false]
        simp [Game.act]
      · by_cases h4 : x ≥ p.initial ∨ x - g.cw < g.prev
        · have h4' : (decide (x ≥ p.initial) || decide (x - g.cw < g.prev)) = true := by simpa using h4
          simp only [interp, runEffects, effect, h2, h2a, h2b, h3, h4, h4', if_true, if_false, Bool.not_true, Bool.false_eq_true,
            Bool.or_self, decide_false, beq_iff_eq, List.nil_append, String.reduceEq, hact, Bool.or_false, hp]
          simp [Game.act]
        · have h4' : (decide (x ≥ p.initial) || decide (x - g.cw < g.prev)) = false := by simpa using h4
          simp only [h2, h2a, h2b, h3, h4, h4', if_true, if_false, Bool.not_true, Bool.false_eq_true,
            Bool.or_self, decide_false, beq_iff_eq, List.nil_append, Bool.or_false, hp]
          cases hpl : g.opts.potLimit
          · simp [interp, runEffects, effect, Game.doRaise, hpl]
          · by_cases h5 : x - g.cw > g.cw + g.prev <;>
              simp [interp, runEffects, effect, Game.doRaise, hpl, h5]

/-- game.go `BecomeRaiser` -/
theorem becomeRaiser_eq (g : Game) (i : Nat) (wager : Int) :
    (g.becomeRaiser i, none) = interp g i (Generated.Logic.becomeRaiser wager) := by
  unfold Generated.Logic.becomeRaiser Game.becomeRaiser
  by_cases h : wager > 0 <;> simp [h, interp, runEffects, effect]

/-- player.go `PayAnte`, one turn of the loop of action.go `PayAnte` (whose guards make the first two
    guards of the player's method pass) -/
theorem playerPayAnte_eq {g : Game} {i : Nat} {p : Player} (hp : g.players[i]? = some p)
    (ha : g.opts.ante ≠ 0) (he : g.event = .anteRequested) (is : List Nat) :
    payAnteLoop (i :: is) g =
      match interp g i (Generated.Logic.playerPayAnte g.opts.ante (evString g.event) p.wager) with
      | (g', none) => payAnteLoop is g'
      | (g', some e) => (g', some e) := by
  unfold Generated.Logic.playerPayAnte
  rw [Game.payAnteLoop, hp]
  by_cases hw : p.wager > 0 <;> simp [ha, he, hw, evString, interp, runEffects, effect, errOf]

/-- player.go `PayBlinds` for one seat (the guard on the event passes inside action.go `PayBlinds`) -/
theorem playerPayBlinds_eq {g : Game} {i : Nat} {p : Player} (hp : g.players[i]? = some p)
    (he : g.event = .blindsRequested) :
    (g.payBlind i, none) = interp g i (Generated.Logic.playerPayBlinds (evString g.event) g.opts.blindBB g.opts.blindSB
      g.opts.blindDealer p.posBB p.posSB p.posDealer p.stack) := by
  unfold Generated.Logic.playerPayBlinds Game.payBlind Game.blindOf
  rw [hp]
  simp only [he, evString]
  by_cases h1 : g.opts.blindBB > 0 ∧ p.posBB = true
  · by_cases c : p.stack < g.opts.blindBB <;> simp [h1, c, interp, runEffects, effect]
  · by_cases h2 : g.opts.blindSB > 0 ∧ p.posSB = true
    · by_cases c : p.stack < g.opts.blindSB <;> simp [h1, h2, c, interp, runEffects, effect]
    · by_cases h3 : g.opts.blindDealer > 0 ∧ p.posDealer = true
      · by_cases c : p.stack < g.opts.blindDealer <;> simp [h1, h2, h3, c, interp, runEffects, effect]
      · by_cases c : p.stack < 0 <;> simp [h1, h2, h3, c, interp, runEffects, effect]

/-! ### what the translated definitions compute, on concrete inputs (non-vacuity) -/

-- a raise to 10 over a wager of 4 (own wager 2, 100 behind, last raise 2, no limit)
example : Generated.Logic.actRaise true 10 4 2 100 2 false
    = (none, [("acted", 0), ("prev", 6), ("pay", 8), ("resume", 0)]) := by decide

-- the same under pot limit with a request far above the cap: raised = cw + prev = 6, required = 6 + 4 - 2
example : Generated.Logic.actRaise true 50 4 2 100 2 true
    = (none, [("acted", 0), ("prev", 6), ("pay", 8), ("resume", 0)]) := by decide

example : Generated.Logic.actRaise true 4 4 2 100 2 false = (none, [("Call", 0)]) := by decide

example : Generated.Logic.actRaise true 5 4 2 100 2 false = (none, [("Allin", 0)]) := by decide

example : Generated.Logic.actRaise true 3 4 2 100 2 false = (some "ErrIllegalRaise", []) := by decide

example : Generated.Logic.actRaise false 10 4 2 100 2 false = (some "ErrInvalidAction", []) := by decide

-- a call below the big blind completes to the big blind
example : Generated.Logic.actCall true 0 0 10 = (none, [("acted", 0), ("pay", 10), ("resume", 0)]) := by decide

example : Generated.Logic.actBet true (-1) = (some "ErrInvalidAction", []) := by decide

example : Generated.Logic.pay 100 100 0 0 0 0 100 true = (0, 100, 100, 100, "raiser") := by decide

example : Generated.Logic.pay 5 100 95 200 100 10 5 true = (0, 100, 205, 100, "reset") := by decide

end Pokerface.GeneratedLogic
