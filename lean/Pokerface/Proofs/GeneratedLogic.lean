import Pokerface.Model.Game
import Pokerface.Generated.Logic
/-
  K1, translated logic: the decision logic that `harness/cmd/genlogic` translates from the Go
  AST of the repository under test on every run (Generated/Logic.lean) equals the hand-written
  model.  If a Go function changes, its generated definition changes and the corresponding
  theorem below no longer checks.
-/
namespace Pokerface.GeneratedLogic
open Pokerface Game

/-- the strings of game.go for the actions -/
def actString : Act → String
  | .pass => "pass" | .fold => "fold" | .check => "check" | .call => "call" | .allin => "allin"
  | .bet => "bet" | .raise => "raise" | .pay => "pay"

/-- game.go `GetAvailableActions` as translated from the source = the model's `availableActions`. -/
theorem availableActions_eq (g : Game) (p : Player) :
    Generated.Logic.availableActions p.fold p.stack p.wager p.initial g.cw g.prev g.miniBet
      = (g.availableActions p).map actString := by
  unfold Generated.Logic.availableActions Game.availableActions
  by_cases h1 : p.fold = true
  · simp [h1, actString]
  · by_cases h2 : p.stack = 0
    · simp [h1, h2, actString]
    · by_cases h3 : p.wager < g.cw
      · by_cases h4 : p.initial > g.cw
        · by_cases h5 : p.initial > g.cw + g.prev <;> simp [h1, h2, h3, h4, h5, actString]
        · simp [h1, h2, h3, h4, actString]
      · simp only [h1, h2, h3, Bool.false_eq_true, if_false, decide_false, decide_true, beq_iff_eq]
        by_cases h4 : p.initial ≥ g.miniBet
        · by_cases h5 : g.cw = 0 <;> simp [h2, h4, h5, actString]
        · simp [h2, h4, actString]

/-- player.go `PayBlinds`, the amount posted, as translated from the source = the model's
    `blindOf` capped at the stack (what `payBlind` pays). -/
theorem blindChips_eq (m : Meta) (p : Player) :
    Generated.Logic.blindChips m.blindBB m.blindSB m.blindDealer p.posBB p.posSB p.posDealer p.stack
      = (if p.stack < blindOf m p then p.stack else blindOf m p) := by
  unfold Generated.Logic.blindChips Game.blindOf
  by_cases h1 : m.blindBB > 0 ∧ p.posBB = true
  · simp [h1]
  · by_cases h2 : m.blindSB > 0 ∧ p.posSB = true
    · simp [h1, h2]
    · by_cases h3 : m.blindDealer > 0 ∧ p.posDealer = true
      · simp [h1, h2, h3]
      · simp [h1, h2, h3]

/-- game.go `RequestBlinds` as translated from the source = the model's `requestBlinds`. -/
theorem requestBlinds_eq (g : Game) :
    g.requestBlinds = (if Generated.Logic.skipBlinds g.opts.blindDealer g.opts.blindSB g.opts.blindBB
      then (g.setEvent .blindsPaid).prepareRound else g.setEvent .blindsRequested) := by
  unfold Generated.Logic.skipBlinds Game.requestBlinds
  by_cases h : g.opts.blindDealer = 0 ∧ g.opts.blindSB = 0 ∧ g.opts.blindBB = 0
  · simp [h]
  · have : ¬ (g.opts.blindDealer = 0 ∧ g.opts.blindSB = 0 ∧ g.opts.blindBB = 0) := h
    simp only [h, if_false]
    by_cases a : g.opts.blindDealer = 0 <;> by_cases b : g.opts.blindSB = 0 <;> by_cases c : g.opts.blindBB = 0 <;> simp_all

/-- combination/power.go `CalculatePower`, the category chain, as translated from the source =
    the model's `category`. -/
theorem categoryChain_eq (ranks : List Nat) (flush : Bool) :
    Generated.Logic.categoryChain flush (isStraight ranks) (hasCount (elements ranks) 4)
      (hasCount (elements ranks) 3 && hasCount (elements ranks) 2) (hasCount (elements ranks) 3)
      (pairCount (elements ranks) == 2) (pairCount (elements ranks) == 1)
      = category ranks flush := by
  simp only [category]
  generalize hasCount (elements ranks) 4 = a
  generalize hasCount (elements ranks) 3 = b
  generalize hasCount (elements ranks) 2 = c
  generalize isStraight ranks = st
  generalize hp : pairCount (elements ranks) = pc
  unfold Generated.Logic.categoryChain
  by_cases h2 : pc = 2 <;> by_cases h1 : pc = 1 <;>
    cases flush <;> cases st <;> cases a <;> cases b <;> cases c <;> simp_all

end Pokerface.GeneratedLogic
