import Pokerface.Proofs.EnginePay
/-
  Control part of the engine invariant: who is offered actions, and at which
  events the chain stops.
-/
namespace Pokerface
open Game

def Ev.isWait : Ev → Bool
  | .readyRequested | .anteRequested | .blindsRequested | .roundStarted | .roundClosed | .gameClosed => true
  | _ => false

def NoneAllowed (g : Game) : Prop := ∀ p ∈ g.players, p.allowed = []

def OnlyCur (g : Game) : Prop :=
  ∀ (i : Nat) (p : Player), g.players[i]? = some p → i ≠ g.cur → p.allowed = []

/-- the seat to act is offered exactly what its situation yields; nobody else is offered anything -/
def Offered (g : Game) : Prop :=
  ∀ (i : Nat) (p : Player), g.players[i]? = some p → p.allowed = if i = g.cur then g.availableActions p else []

/-- what holds whenever the chain has stopped -/
structure Post (g : Game) : Prop where
  wait : g.event.isWait = true
  allowed : if g.event = .roundStarted then Offered g else NoneAllowed g

theorem NoneAllowed.onlyCur {g : Game} (h : NoneAllowed g) : OnlyCur g :=
  fun _ p hp _ => h p (List.mem_of_getElem? hp)

theorem Offered.onlyCur {g : Game} (h : Offered g) : OnlyCur g := by
  intro i p hp hne
  have := h i p hp
  simpa [hne] using this

/-- frame: same allowed lists (and same seat to act, same street) -/
structure Soft (g g' : Game) : Prop where
  allowed : g'.players.map (·.allowed) = g.players.map (·.allowed)
  cur : g'.cur = g.cur
  round : g'.round = g.round

theorem Soft.refl (g : Game) : Soft g g := ⟨rfl, rfl, rfl⟩
theorem Soft.trans {a b c : Game} (h1 : Soft a b) (h2 : Soft b c) : Soft a c :=
  ⟨h2.allowed.trans h1.allowed, h2.cur.trans h1.cur, h2.round.trans h1.round⟩

theorem noneAllowed_of_map {g g' : Game} (h : g'.players.map (·.allowed) = g.players.map (·.allowed))
    (hn : NoneAllowed g) : NoneAllowed g' := by
  intro p hp
  have : p.allowed ∈ g'.players.map (·.allowed) := List.mem_map_of_mem hp
  rw [h] at this
  obtain ⟨q, hq, hqe⟩ := List.mem_map.mp this
  rw [← hqe]; exact hn q hq

theorem Soft.noneAllowed {g g' : Game} (h : Soft g g') (hn : NoneAllowed g) : NoneAllowed g' :=
  noneAllowed_of_map h.allowed hn

theorem Soft.onlyCur {g g' : Game} (h : Soft g g') (hn : OnlyCur g) : OnlyCur g' := by
  intro i p hp hne
  have h1 : (g'.players.map (·.allowed))[i]? = some p.allowed := by simp [hp]
  rw [h.allowed] at h1
  simp at h1
  obtain ⟨q, hq, hqe⟩ := h1
  rw [← hqe]
  exact hn i q hq (by rw [← h.cur]; exact hne)

theorem soft_modP (g : Game) (i : Nat) (f : Player → Player) (hf : ∀ p, (f p).allowed = p.allowed) :
    Soft g (g.modP i f) :=
  ⟨by simp [Game.modP, map_modify_of_proj (·.allowed) f hf], rfl, rfl⟩

theorem soft_mapP (g : Game) (f : Player → Player) (hf : ∀ p, (f p).allowed = p.allowed) :
    Soft g (g.mapP f) :=
  ⟨by simp [Game.mapP, List.map_map, Function.comp_def, hf], rfl, rfl⟩

theorem soft_setEvent (g : Game) (e : Ev) : Soft g (g.setEvent e) := ⟨rfl, rfl, rfl⟩
theorem soft_setPrev (g : Game) (x : Int) : Soft g (g.setPrev x) := ⟨rfl, rfl, rfl⟩
theorem soft_setCw (g : Game) (x : Int) : Soft g (g.setCw x) := ⟨rfl, rfl, rfl⟩
theorem soft_setRaiser (g : Game) (i : Nat) : Soft g (g.setRaiser i) := ⟨rfl, rfl, rfl⟩
theorem soft_addRoundPot (g : Game) (x : Int) : Soft g (g.addRoundPot x) := ⟨rfl, rfl, rfl⟩
theorem soft_updatePots (g : Game) : Soft g g.updatePots := ⟨rfl, rfl, rfl⟩
theorem soft_calculateGameResults (g : Game) : Soft g g.calculateGameResults := ⟨rfl, rfl, rfl⟩
theorem soft_advance (g : Game) (k : Nat) : Soft g (g.advance k) := ⟨rfl, rfl, rfl⟩
theorem soft_burn (g : Game) (k : Nat) : Soft g (g.burn k) := ⟨rfl, rfl, rfl⟩
theorem soft_dealBoard (g : Game) (k : Nat) : Soft g (g.dealBoard k) := ⟨rfl, rfl, rfl⟩
theorem soft_setActed (g : Game) (i : Nat) : Soft g (g.setActed i) := soft_modP g i _ (fun _ => rfl)
theorem soft_resetActed (g : Game) : Soft g g.resetActed := soft_mapP g _ (fun _ => rfl)
theorem soft_becomeRaiser (g : Game) (i : Nat) : Soft g (g.becomeRaiser i) :=
  ((soft_setRaiser g i).trans (soft_resetActed _)).trans (soft_setActed _ i)
theorem soft_dealHole (g : Game) (i : Nat) : Soft g (g.dealHole i) :=
  (soft_advance g _).trans (soft_modP _ i _ (fun _ => rfl))
theorem soft_dealHoles : ∀ (k i : Nat) (g : Game), Soft g (dealHoles k i g)
  | 0, _, g => Soft.refl g
  | k + 1, i, g => (soft_dealHole g i).trans (soft_dealHoles k (i + 1) _)

theorem newComb_allowed (p : Player) (pw : Option Power) : (newComb p pw).allowed = p.allowed := by
  unfold Game.newComb; split <;> rfl

theorem soft_updateCombinations (g : Game) : Soft g g.updateCombinations :=
  soft_mapP g _ (fun p => newComb_allowed p _)

theorem soft_payAllin (g : Game) (i : Nat) (p : Player) (w : Bool) : Soft g (g.payAllin i p w) := by
  unfold Game.payAllin
  have h1 : Soft g ((g.addRoundPot (p.initial - p.wager)).modP i goAllin) :=
    (soft_addRoundPot g _).trans (soft_modP _ i _ (fun _ => rfl))
  simp only
  split
  · have h2 : Soft g (if p.initial > g.cw then ((g.addRoundPot (p.initial - p.wager)).modP i goAllin).setCw p.initial
        else (g.addRoundPot (p.initial - p.wager)).modP i goAllin) := by
      split
      · exact h1.trans (soft_setCw _ _)
      · exact h1
    split
    · exact h2.trans (soft_becomeRaiser _ i)
    · exact h2.trans (soft_resetActed _)
  · exact h1

theorem soft_payPart (g : Game) (i : Nat) (p : Player) (c : Int) (w : Bool) : Soft g (g.payPart i p c w) := by
  unfold Game.payPart
  have h1 : Soft g ((g.modP i (putWager (p.wager + c))).addRoundPot c) :=
    (soft_modP g i (putWager (p.wager + c)) (fun _ => rfl)).trans (soft_addRoundPot _ _)
  simp only
  split
  · exact (h1.trans (soft_setCw _ _)).trans (soft_becomeRaiser _ i)
  · exact h1

theorem soft_pay (g : Game) (i : Nat) (c : Int) (w : Bool) : Soft g (g.pay i c w) := by
  unfold Game.pay
  split
  · exact Soft.refl g
  · split
    · exact soft_payAllin g i _ w
    · exact soft_payPart g i _ c w

/-! ### establishing the postcondition -/

theorem noneAllowed_resetAllAllowed (g : Game) : NoneAllowed g.resetAllAllowed := by
  intro p hp
  simp [Game.resetAllAllowed, Game.mapP] at hp
  obtain ⟨q, _, rfl⟩ := hp
  rfl

theorem noneAllowed_resetAllPlayerStatus (g : Game) : NoneAllowed g.resetAllPlayerStatus := by
  intro p hp
  simp [Game.resetAllPlayerStatus, Game.mapP] at hp
  obtain ⟨q, _, rfl⟩ := hp
  rfl

theorem post_roundClosed (g : Game) : Post g.roundClosed := by
  refine ⟨rfl, ?_⟩
  have : g.roundClosed.event = .roundClosed := rfl
  simp only [this]
  exact (soft_updatePots _).noneAllowed (noneAllowed_resetAllAllowed _)

theorem post_requestReady (g : Game) : Post g.requestReady := by
  refine ⟨rfl, ?_⟩
  have : g.requestReady.event = .readyRequested := rfl
  simp only [this]
  exact (soft_setEvent _ _).noneAllowed (noneAllowed_resetAllAllowed _)

theorem availableActions_congr (g g' : Game) (p p' : Player)
    (hg : g'.cw = g.cw ∧ g'.prev = g.prev ∧ g'.miniBet = g.miniBet)
    (hp : p'.fold = p.fold ∧ p'.stack = p.stack ∧ p'.wager = p.wager ∧ p'.initial = p.initial) :
    g'.availableActions p' = g.availableActions p := by
  unfold Game.availableActions
  rw [hg.1, hg.2.1, hg.2.2, hp.1, hp.2.1, hp.2.2.1, hp.2.2.2]

theorem offered_setCurrentPlayer (g : Game) (i : Nat) (h : OnlyCur g) : Offered (g.setCurrentPlayer i) := by
  intro j p hp
  have hcur : (g.setCurrentPlayer i).cur = i := rfl
  rw [hcur]
  simp only [Game.setCurrentPlayer, Game.offer, Game.modP, Game.setCur, List.getElem?_modify] at hp
  cases hq : g.players[j]? with
  | none => simp [hq] at hp
  | some q =>
    simp [hq] at hp
    by_cases hji : i = j
    · subst hji
      simp at hp
      subst hp
      simp only [if_true]
      split <;> exact (availableActions_congr _ _ _ _ ⟨rfl, rfl, rfl⟩ ⟨rfl, rfl, rfl, rfl⟩)
    · simp [hji] at hp
      have hji' : ¬ j = i := fun h => hji h.symm
      simp only [hji', if_false]
      by_cases hc : g.cur = j
      · simp [hc] at hp; subst hp; rfl
      · simp [hc] at hp; subst hp
        exact h j q hq (fun h => hc h.symm)

theorem post_requestPlayerAction (g : Game) (hs : Struct g) (he : g.event = .roundStarted) (h : OnlyCur g) :
    Post g.requestPlayerAction := by
  unfold Game.requestPlayerAction
  split
  · exact post_roundClosed g
  · split
    · exact post_roundClosed g
    · split
      · rename_i hnone
        have := nextIdx_lt hs
        simp [Game.n] at this
        have : g.players[g.nextIdx]? ≠ none := by simp [this]
        contradiction
      · split
        · exact post_roundClosed g
        · have hev : (g.setCurrentPlayer g.nextIdx).event = .roundStarted := he
          refine ⟨by rw [hev]; rfl, ?_⟩
          simp only [hev, if_true]
          exact offered_setCurrentPlayer g _ h

theorem post_prepareRound (g : Game) : Post g.prepareRound := by
  unfold Game.prepareRound
  split
  · exact post_requestReady g
  · split
    · exact post_roundClosed g
    · exact post_requestReady g

theorem post_requestBlinds (g : Game) (h : NoneAllowed g) : Post g.requestBlinds := by
  unfold Game.requestBlinds
  split
  · exact post_prepareRound _
  · refine ⟨rfl, ?_⟩
    have : (g.setEvent .blindsRequested).event = .blindsRequested := rfl
    simp only [this]
    exact h

theorem post_afterRoundInitialized (g : Game) (h : g.round = .preflop → NoneAllowed g) :
    Post g.afterRoundInitialized := by
  unfold Game.afterRoundInitialized
  split
  · rename_i hr; exact post_requestBlinds g (h hr)
  · exact post_prepareRound g

theorem dealStreet_round (g : Game) : g.dealStreet.round = g.round := by
  unfold Game.dealStreet
  split
  · exact (soft_dealHoles _ _ _).round
  · rfl
  · rfl
  · rfl
  · rfl

theorem post_initializeRound (g : Game) (h : g.round = .preflop → NoneAllowed g) : Post g.initializeRound := by
  unfold Game.initializeRound
  apply post_afterRoundInitialized
  intro hr
  have hr' : g.round = .preflop := by
    have h1 : ((g.dealStreet.updateCombinations).setEvent .roundInitialized).round = g.dealStreet.round := rfl
    rw [h1, dealStreet_round] at hr; exact hr
  have hs : g.dealStreet = dealHoles g.n 0 g := by
    unfold Game.dealStreet; rw [hr']
  rw [hs]
  exact ((soft_dealHoles _ _ g).trans ((soft_updateCombinations _).trans (soft_setEvent _ _))).noneAllowed (h hr')

theorem post_enterRound (g : Game) (r : Round) (h : r = .preflop → NoneAllowed g) : Post (g.enterRound r) := by
  unfold Game.enterRound
  exact post_initializeRound _ (fun hr => h hr)

theorem onlyCur_seekBB : ∀ (k : Nat) (g : Game), OnlyCur g → OnlyCur (seekBB k g)
  | 0, _, h => h
  | k + 1, g, h => by
    unfold Game.seekBB
    split
    · split
      · exact (offered_setCurrentPlayer g _ h).onlyCur
      · exact onlyCur_seekBB k _ (offered_setCurrentPlayer g _ h).onlyCur
    · exact (offered_setCurrentPlayer g _ h).onlyCur

theorem post_openRound (g : Game) (hs : Struct g) (h : OnlyCur g) : Post g.openRound := by
  unfold Game.openRound
  exact post_requestPlayerAction _ (struct_same (g := g) (g' := g.setEvent .roundStarted) rfl rfl hs) rfl ((soft_setEvent g _).onlyCur h)

theorem post_startRound' (g : Game) (hs : Struct g) (h : NoneAllowed g) : Post g.startRound' := by
  unfold Game.startRound'
  have h1 := noChip_setCurrentPlayer_dealer g
  have o1 : OnlyCur (g.setCurrentPlayer g.dealerIdx) := (offered_setCurrentPlayer g _ h.onlyCur).onlyCur
  split
  · split
    · exact post_roundClosed g
    · exact post_openRound _ ((noChip_seekBB _ _).struct (h1.struct hs)) (onlyCur_seekBB _ _ o1)
  · exact post_openRound _ (h1.struct hs) o1

theorem post_startRound (g : Game) (hs : Struct g) : Post g.startRound :=
  post_startRound' _ ((noChip_resetAllAllowed g).struct hs) (noneAllowed_resetAllAllowed g)

theorem post_gameCompleted (g : Game) (h : NoneAllowed g) : Post g.gameCompleted := by
  refine ⟨rfl, ?_⟩
  have : g.gameCompleted.event = .gameClosed := rfl
  simp only [this]
  exact ((soft_updatePots g).trans ((soft_calculateGameResults _).trans (soft_setEvent _ _))).noneAllowed h

theorem post_nextRound' (g : Game) (h : NoneAllowed g) (hr : g.round ≠ .none) : Post g.nextRound' := by
  unfold Game.nextRound'
  split
  · exact post_gameCompleted g h
  · split
    · exact post_enterRound g _ (fun hr => by cases hr)
    · exact post_enterRound g _ (fun hr => by cases hr)
    · exact post_enterRound g _ (fun hr => by cases hr)
    · exact post_gameCompleted g h
    · rename_i hn; exact absurd hn hr

end Pokerface
