/-
  Specifications of the queue-draining half of the regulator:
  `dispatchPlayer`, `dispatchLoop`, `updateTableRequirements`, `allocateLoop`,
  `allocateTables`, `drainWaitingQueue`, `enterWaitingQueue`.
-/
import Pokerface.Proofs.RegBasic

namespace Pokerface
namespace Reg

/-! ### well-formedness (holds at every point of every operation) -/

structure WF (r : Reg) : Prop where
  maxpos : 0 < r.max
  tc : r.tableCount = r.tables.length
  nodup : (r.tables.map (·.id)).Nodup
  idlt : ∀ t ∈ r.tables, t.id < r.nextId
  bnd : ∀ t ∈ r.tables, 0 ≤ t.count ∧ 0 ≤ t.required ∧ t.count + t.required ≤ r.max

/-- `r'` is `r` after handing out the prefix `cands \ rest` through callbacks. -/
structure Ext (r r' : Reg) (cands rest : List Nat) : Prop where
  max_eq : r'.max = r.max
  min_eq : r'.min = r.min
  pc_eq : r'.playerCount = r.playerCount
  status_eq : r'.status = r.status
  calls : ∃ cs, r'.calls = r.calls ++ cs ∧ cands = handed cs ++ rest ∧
      tview r'.tables = applyTVs (tview r.tables) cs ∧ validCalls (tview r.tables) cs ∧
      (∀ id ps, RCall.requestTable id ps ∈ cs → ps.length ≤ r.max ∧ r.nextId ≤ id)
  next_le : r.nextId ≤ r'.nextId

theorem Ext.refl (r : Reg) (cands : List Nat) : Ext r r cands cands :=
  ⟨rfl, rfl, rfl, rfl, ⟨[], by simp, by simp, by simp, trivial, by simp⟩, Nat.le_refl _⟩

theorem Ext.trans {r r' r'' : Reg} {a b c : List Nat} (h1 : Ext r r' a b) (h2 : Ext r' r'' b c) :
    Ext r r'' a c := by
  obtain ⟨cs1, e1, e2, e3, e4, e5⟩ := h1.calls
  obtain ⟨cs2, f1, f2, f3, f4, f5⟩ := h2.calls
  refine ⟨h2.max_eq.trans h1.max_eq, h2.min_eq.trans h1.min_eq, h2.pc_eq.trans h1.pc_eq,
    h2.status_eq.trans h1.status_eq, ⟨cs1 ++ cs2, ?_, ?_, ?_, ?_, ?_⟩, Nat.le_trans h1.next_le h2.next_le⟩
  · rw [f1, e1, List.append_assoc]
  · rw [e2, f2, handed_append, List.append_assoc]
  · rw [f3, e3, applyTVs_append]
  · rw [validCalls_append]; exact ⟨e4, e3 ▸ f4⟩
  · intro id ps hm
    rcases List.mem_append.1 hm with h | h
    · exact e5 id ps h
    · have := f5 id ps h; rw [h1.max_eq] at this; exact ⟨this.1, Nat.le_trans h1.next_le this.2⟩

/-! ### updating one table -/

def upd (id : Nat) (f : RTable → RTable) (ts : List RTable) : List RTable :=
  ts.map fun t => if t.id = id then f t else t

theorem setTable_eq (r : Reg) (id f) : r.setTable id f = { r with tables := upd id f r.tables } := rfl

theorem upd_length (id f ts) : (upd id f ts).length = ts.length := by simp [upd]

theorem upd_ids (id : Nat) (f : RTable → RTable) (ts : List RTable) (hid : ∀ t, (f t).id = t.id) :
    (upd id f ts).map (·.id) = ts.map (·.id) := by
  simp only [upd, List.map_map]
  apply List.map_congr_left
  intro t _
  simp only [Function.comp]
  split
  · exact hid t
  · rfl

theorem mem_upd {id : Nat} {f : RTable → RTable} {ts : List RTable} {t' : RTable} (h : t' ∈ upd id f ts) :
    t' ∈ ts ∨ ∃ t ∈ ts, t.id = id ∧ t' = f t := by
  simp only [upd, List.mem_map] at h
  obtain ⟨t, ht, rfl⟩ := h
  split
  · exact Or.inr ⟨t, ht, ‹_›, rfl⟩
  · exact Or.inl ht

theorem tview_upd (id : Nat) (f : RTable → RTable) (ts : List RTable) (d : Int)
    (hid : ∀ t, (f t).id = t.id) (hc : ∀ t, (f t).count = t.count + d) :
    tview (upd id f ts) = bump id d (tview ts) := by
  simp only [upd, tview, bump, List.map_map]
  apply List.map_congr_left
  intro t _
  simp only [Function.comp]
  split
  · rw [hid, hc]
  · rfl

theorem findTable_some {r : Reg} {c : Nat} {t : RTable} (h : r.findTable c = some t) :
    t ∈ r.tables ∧ t.id = c := by
  unfold findTable at h
  refine ⟨List.mem_of_find?_eq_some h, ?_⟩
  have := List.find?_some h
  simpa using this

theorem findTable_none {r : Reg} {c : Nat} (h : r.findTable c = none) : c ∉ r.tables.map (·.id) := by
  unfold findTable at h
  rw [List.find?_eq_none] at h
  intro hm
  obtain ⟨t, ht, rfl⟩ := List.mem_map.1 hm
  exact h t ht (by simp)

/-- a table found by id is the only one with that id -/
theorem eq_of_mem_of_id {ts : List RTable} (hn : (ts.map (·.id)).Nodup) {a b : RTable}
    (ha : a ∈ ts) (hb : b ∈ ts) (h : a.id = b.id) : a = b := by
  induction ts with
  | nil => cases ha
  | cons t ts ih =>
    simp only [List.map_cons, List.nodup_cons] at hn
    rcases List.mem_cons.1 ha with rfl | ha' <;> rcases List.mem_cons.1 hb with rfl | hb'
    · rfl
    · exact absurd (List.mem_map.2 ⟨b, hb', h.symm⟩) hn.1
    · exact absurd (List.mem_map.2 ⟨a, ha', h⟩) hn.1
    · exact ih hn.2 ha' hb'

/-! ### dispatchPlayer -/

theorem dispatchPlayer_none {r : Reg} {cands : List Nat} (h : r.dispatchPlayer cands = none) :
    ∀ t ∈ r.tables, t.required ≤ 0 := by
  unfold dispatchPlayer at h
  split at h
  · rename_i hany
    intro t ht
    simp only [Bool.not_eq_true', List.any_eq_false, decide_eq_true_eq] at hany
    exact Int.not_lt.1 (hany t ht)
  · split at h
    · cases h
    · split at h
      · cases h
      · split at h <;> cases h

theorem dispatchPlayer_spec {r r' : Reg} {cands rest : List Nat} (hwf : WF r) (hc : cands ≠ [])
    (h : r.dispatchPlayer cands = some (rest, r')) (hb : r'.badChoice = false) :
    WF r' ∧ Ext r r' cands rest ∧ rest.length < cands.length ∧ r'.queue = r.queue ∧
    r.badChoice = false := by
  unfold dispatchPlayer at h
  split at h
  · cases h
  · split at h
    · cases h; simp at hb
    · rename_i c cs hch
      split at h
      · cases h; simp at hb
      · rename_i t hft
        split at h
        · cases h; simp at hb
        · rename_i hreq
          obtain ⟨htm, hid⟩ := findTable_some hft
          have hreq' : 0 < t.required := by omega
          simp only [Option.some.injEq, Prod.mk.injEq] at h
          obtain ⟨hrest, hr'⟩ := h
          subst hrest hr'
          have hlen : 0 < cands.length := List.length_pos_iff.2 hc
          have hpl : ((cands.take t.required.toNat).length : Int) ≤ t.required := by
            rw [List.length_take]; omega
          have hpos : 0 < (cands.take t.required.toNat).length := by
            rw [List.length_take]; omega
          refine ⟨?_, ?_, ?_, rfl, hb⟩
          · simp only [setTable_eq]
            constructor
            · exact hwf.maxpos
            · simp only [upd_length]; exact hwf.tc
            · simp only []; rw [upd_ids]
              · exact hwf.nodup
              · intro _; rfl
            · intro t' ht'
              rcases mem_upd ht' with h1 | ⟨t0, h0, _, rfl⟩
              · exact hwf.idlt t' h1
              · exact hwf.idlt t0 h0
            · intro t' ht'
              rcases mem_upd ht' with h1 | ⟨t0, h0, hid0, rfl⟩
              · exact hwf.bnd t' h1
              · have := eq_of_mem_of_id hwf.nodup h0 htm hid0
                subst this
                have := hwf.bnd t0 h0
                simp only
                omega
          · simp only [setTable_eq]
            refine ⟨rfl, rfl, rfl, rfl, ⟨[RCall.assign t.id (cands.take t.required.toNat)], rfl, ?_, ?_, ?_, ?_⟩, Nat.le_refl _⟩
            · simp [RCall.players]
            · simp only []
              rw [tview_upd t.id _ r.tables ((cands.take t.required.toNat).length : Int)]
              · rfl
              · intro _; rfl
              · intro _; rfl
            · refine ⟨?_, trivial⟩
              simp only [tview_fst]
              exact List.mem_map.2 ⟨t, htm, rfl⟩
            · intro id ps hm; simp at hm
          · rw [List.length_drop]; omega

/-! ### dispatchLoop -/

theorem dispatchLoop_bad (fuel : Nat) (cands : List Nat) (r : Reg) (hb : r.badChoice = true) :
    dispatchLoop fuel cands r = (cands, r) := by
  cases fuel with
  | zero => rfl
  | succ n => simp [dispatchLoop, hb]

theorem dispatchLoop_spec (fuel : Nat) : ∀ {cands rest : List Nat} {r r' : Reg}, WF r →
    dispatchLoop fuel cands r = (rest, r') → r'.badChoice = false →
    WF r' ∧ Ext r r' cands rest ∧ r'.queue = r.queue ∧ r.badChoice = false ∧
    (cands.length < fuel → rest = [] ∨ ∀ t ∈ r'.tables, t.required ≤ 0) := by
  induction fuel with
  | zero =>
    intro cands rest r r' hwf h hb
    simp only [dispatchLoop, Prod.mk.injEq] at h
    obtain ⟨rfl, rfl⟩ := h
    exact ⟨hwf, Ext.refl _ _, rfl, hb, fun h => absurd h (Nat.not_lt_zero _)⟩
  | succ n ih =>
    intro cands rest r r' hwf h hb
    rw [dispatchLoop] at h
    split at h
    · rename_i hcond
      simp only [Prod.mk.injEq] at h
      obtain ⟨rfl, rfl⟩ := h
      refine ⟨hwf, Ext.refl _ _, rfl, hb, fun _ => Or.inl ?_⟩
      rcases hcond with h1 | h1
      · simpa using h1
      · rw [hb] at h1; cases h1
    · rename_i hcond
      simp only [not_or] at hcond
      have hne : cands ≠ [] := by simpa using hcond.1
      split at h
      · rename_i hnone
        simp only [Prod.mk.injEq] at h
        obtain ⟨rfl, rfl⟩ := h
        exact ⟨hwf, Ext.refl _ _, rfl, hb, fun _ => Or.inr (dispatchPlayer_none hnone)⟩
      · rename_i rest1 r1 hsome
        have hb1 : r1.badChoice = false := by
          cases hbb : r1.badChoice with
          | false => rfl
          | true =>
            rw [dispatchLoop_bad n rest1 r1 hbb] at h
            simp only [Prod.mk.injEq] at h
            rw [← h.2, hbb] at hb; cases hb
        obtain ⟨hwf1, hext1, hlt, hq1, hbr⟩ := dispatchPlayer_spec hwf hne hsome hb1
        obtain ⟨hwf2, hext2, hq2, _, hfuel⟩ := ih hwf1 h hb
        refine ⟨hwf2, hext1.trans hext2, hq2.trans hq1, hbr, fun hf => hfuel (by omega)⟩

/-! ### updateTableRequirements -/

def setReq (wl : Int) (ts : List RTable) : List RTable :=
  ts.map fun t => if t.count < wl then { t with required := wl - t.count } else t

/-- the ceiling water level used by `updateTableRequirements` -/
def ceilWl (r : Reg) : Int :=
  if r.requiredTables > 0 then (r.playerCount + r.requiredTables - 1) / r.requiredTables else 0

theorem updateTableRequirements_eq (r : Reg) : r.updateTableRequirements =
    if r.requiredTables = (r.tables.length : Int) then { r with tables := setReq r.ceilWl r.tables } else r := rfl

theorem mem_setReq {wl : Int} {ts : List RTable} {t' : RTable} (h : t' ∈ setReq wl ts) :
    ∃ t ∈ ts, t'.id = t.id ∧ t'.count = t.count ∧
      (t'.required = t.required ∨ (t.count < wl ∧ t'.required = wl - t.count)) := by
  simp only [setReq, List.mem_map] at h
  obtain ⟨t, ht, rfl⟩ := h
  refine ⟨t, ht, ?_⟩
  split
  · rename_i hlt; exact ⟨rfl, rfl, Or.inr ⟨hlt, rfl⟩⟩
  · exact ⟨rfl, rfl, Or.inl rfl⟩

theorem setReq_ids (wl ts) : (setReq wl ts).map (·.id) = ts.map (·.id) := by
  simp only [setReq, List.map_map]
  apply List.map_congr_left
  intro t _
  simp only [Function.comp]
  split <;> rfl

theorem setReq_tview (wl ts) : tview (setReq wl ts) = tview ts := by
  simp only [setReq, tview, List.map_map]
  apply List.map_congr_left
  intro t _
  simp only [Function.comp]
  split <;> rfl

theorem ceilWl_le_max (r : Reg) (hmax : 0 < r.max) : r.ceilWl ≤ (r.max : Int) := by
  unfold ceilWl
  split
  · rename_i hpos
    exact ceil_le_max hpos (le_ceilDiv_mul r.playerCount r.max hmax)
  · omega

theorem updateTableRequirements_spec (r : Reg) (hwf : WF r) (cands : List Nat) :
    WF r.updateTableRequirements ∧ Ext r r.updateTableRequirements cands cands ∧
    r.updateTableRequirements.queue = r.queue ∧ r.updateTableRequirements.badChoice = r.badChoice ∧
    r.updateTableRequirements.calls = r.calls ∧
    r.updateTableRequirements.choices = r.choices ∧
    r.updateTableRequirements.tableCount = r.tableCount := by
  rw [updateTableRequirements_eq]
  split
  · refine ⟨?_, ?_, rfl, rfl, rfl, rfl, rfl⟩
    · constructor
      · exact hwf.maxpos
      · simp only [setReq, List.length_map]; exact hwf.tc
      · simp only [setReq_ids]; exact hwf.nodup
      · intro t' ht'
        obtain ⟨t, ht, hid, _, _⟩ := mem_setReq ht'
        rw [hid]; exact hwf.idlt t ht
      · intro t' ht'
        obtain ⟨t, ht, _, hc, hr⟩ := mem_setReq ht'
        have hb := hwf.bnd t ht
        have hmaxpos : 0 < r.max := hwf.maxpos
        have := ceilWl_le_max r hmaxpos
        simp only
        rcases hr with hr | ⟨hlt, hr⟩ <;> omega
    · refine ⟨rfl, rfl, rfl, rfl, ⟨[], by simp, by simp, ?_, trivial, by simp⟩, Nat.le_refl _⟩
      simp only [applyTVs_nil, setReq_tview]
  · exact ⟨hwf, Ext.refl _ _, rfl, rfl, rfl, rfl, rfl⟩

/-! ### allocateLoop -/

/-- supporting invariant Q of DESIGN §6 C09: a non-empty queue means nobody is waiting for players -/
def Q (r : Reg) : Prop := r.queue ≠ [] → ∀ t ∈ r.tables, t.required ≤ 0

/-- one table opened by `allocateLoop` for the first `k` queued players at water level `wl` -/
def openTable (r : Reg) (wl : Int) (k : Nat) : Reg :=
  let players := r.queue.take k
  let t : RTable := { id := r.nextId, count := players.length,
                      required := if (players.length : Int) < wl then wl - players.length else 0 }
  { r with queue := r.queue.drop k, nextId := r.nextId + 1,
           calls := r.calls ++ [RCall.requestTable r.nextId players],
           tableCount := r.tableCount + 1, tables := r.tables ++ [t] }

/-- the capped water level and the number of players pulled in one iteration -/
def capWl (r : Reg) (wl : Int) : Int := if wl > (r.max : Int) then (r.max : Int) else wl

def pullCount (r : Reg) (wl : Int) : Int :=
  if (r.queue.length : Int) > r.capWl wl ∧ (r.queue.length : Int) < (r.max : Int) then (r.queue.length : Int) else r.capWl wl

theorem allocateLoop_succ (n : Nat) (wl reqT : Int) (r : Reg) :
    allocateLoop (n + 1) wl reqT r =
      if wl ≥ (r.min : Int) ∧ r.tableCount < reqT then
        if (r.queue.take (r.pullCount wl).toNat).isEmpty then { r with queue := r.queue.drop (r.pullCount wl).toNat }
        else
          let r2 := r.openTable (r.capWl wl) (r.pullCount wl).toNat
          if reqT - r2.tableCount ≤ 0 then r2
          else allocateLoop n ((r2.queue.length : Int) / (reqT - r2.tableCount)) reqT r2
      else r := rfl

theorem openTable_spec (r : Reg) (wl : Int) (k : Nat) (hwf : WF r) (hk : k ≤ r.max) (hwl : wl ≤ r.max)
    (hkwl : wl ≤ k) :
    WF (r.openTable wl k) ∧ Ext r (r.openTable wl k) r.queue (r.openTable wl k).queue ∧
    (r.openTable wl k).badChoice = r.badChoice ∧ (Q r → Q (r.openTable wl k)) := by
  have hlen : (r.queue.take k).length ≤ k := by rw [List.length_take]; omega
  refine ⟨?_, ?_, rfl, ?_⟩
  · constructor
    · exact hwf.maxpos
    · simp only [openTable, List.length_append, List.length_cons, List.length_nil]
      have := hwf.tc; omega
    · simp only [openTable, List.map_append, List.map_cons, List.map_nil]
      rw [List.nodup_append]
      refine ⟨hwf.nodup, by simp, ?_⟩
      intro a ha b hb
      simp at hb; subst hb
      obtain ⟨t, ht, rfl⟩ := List.mem_map.1 ha
      have := hwf.idlt t ht
      omega
    · intro t ht
      simp only [openTable, List.mem_append, List.mem_cons, List.not_mem_nil, or_false] at ht ⊢
      rcases ht with ht | rfl
      · have := hwf.idlt t ht; omega
      · simp
    · intro t ht
      simp only [openTable, List.mem_append, List.mem_cons, List.not_mem_nil, or_false] at ht ⊢
      rcases ht with ht | rfl
      · exact hwf.bnd t ht
      · simp only
        split <;> omega
  · refine ⟨rfl, rfl, rfl, rfl, ⟨[RCall.requestTable r.nextId (r.queue.take k)], rfl, ?_, ?_, ?_, ?_⟩, Nat.le_succ _⟩
    · simp [openTable, RCall.players]
    · simp [openTable, tview, applyTVs, applyTV]
    · refine ⟨?_, trivial⟩
      simp only [tview_fst]
      intro hm
      obtain ⟨t, ht, hid⟩ := List.mem_map.1 hm
      have := hwf.idlt t ht
      omega
    · intro id ps hm
      simp only [List.mem_cons, List.not_mem_nil, or_false, RCall.requestTable.injEq] at hm
      rw [hm.2, hm.1]; exact ⟨by omega, Nat.le_refl _⟩
  · intro hq hne t ht
    simp only [openTable] at hne
    have hne0 : r.queue ≠ [] := by intro h; rw [h] at hne; simp at hne
    simp only [openTable, List.mem_append, List.mem_cons, List.not_mem_nil, or_false] at ht
    rcases ht with ht | rfl
    · exact hq hne0 t ht
    · simp only
      have hlt : k < r.queue.length := by
        have : 0 < (r.queue.drop k).length := List.length_pos_iff.2 hne
        rw [List.length_drop] at this; omega
      rw [List.length_take]
      split <;> omega

theorem capWl_le (r : Reg) (wl : Int) : r.capWl wl ≤ (r.max : Int) := by unfold capWl; split <;> omega

theorem capWl_ge (r : Reg) (wl : Int) (m : Int) (h1 : m ≤ wl) (h2 : m ≤ (r.max : Int)) : m ≤ r.capWl wl := by
  unfold capWl; split <;> omega

theorem pullCount_bounds (r : Reg) (wl : Int) :
    r.capWl wl ≤ r.pullCount wl ∧ r.pullCount wl ≤ (r.max : Int) := by
  have := capWl_le r wl
  unfold pullCount; split <;> omega

theorem allocateLoop_spec (fuel : Nat) : ∀ (wl reqT : Int) (r : Reg), WF r →
    WF (allocateLoop fuel wl reqT r) ∧
    Ext r (allocateLoop fuel wl reqT r) r.queue (allocateLoop fuel wl reqT r).queue ∧
    (allocateLoop fuel wl reqT r).badChoice = r.badChoice ∧ (Q r → Q (allocateLoop fuel wl reqT r)) := by
  induction fuel with
  | zero => intro wl reqT r hwf; exact ⟨hwf, Ext.refl _ _, rfl, fun h => h⟩
  | succ n ih =>
    intro wl reqT r hwf
    rw [allocateLoop_succ]
    split
    · rename_i hcond
      have hb := pullCount_bounds r wl
      split
      · rename_i hemp
        have hq : r.queue.drop (r.pullCount wl).toNat = r.queue := by
          simp only [List.isEmpty_iff, List.take_eq_nil_iff] at hemp
          rcases hemp with h | h
          · rw [h, List.drop_zero]
          · rw [h, List.drop_nil]
        have : ({ r with queue := r.queue.drop (r.pullCount wl).toNat } : Reg) = r := by
          rw [hq]
        rw [this]
        exact ⟨hwf, Ext.refl _ _, rfl, fun h => h⟩
      · obtain ⟨hwf2, hext2, hbad2, hq2⟩ := openTable_spec r (r.capWl wl) (r.pullCount wl).toNat hwf
          (by omega) (capWl_le r wl) (by omega)
        simp only
        split
        · exact ⟨hwf2, hext2, hbad2, hq2⟩
        · obtain ⟨hwf3, hext3, hbad3, hq3⟩ := ih
            (((r.openTable (r.capWl wl) (r.pullCount wl).toNat).queue.length : Int) /
              (reqT - (r.openTable (r.capWl wl) (r.pullCount wl).toNat).tableCount)) reqT _ hwf2
          exact ⟨hwf3, hext2.trans hext3, hbad3.trans hbad2, fun h => hq3 (hq2 h)⟩
    · exact ⟨hwf, Ext.refl _ _, rfl, fun h => h⟩

/-! ### allocateTables, drainWaitingQueue, enterWaitingQueue -/

theorem allocateTables_cases (r : Reg) :
    r.allocateTables = r ∨ ∃ fuel wl reqT, r.allocateTables = allocateLoop fuel wl reqT r := by
  unfold allocateTables
  simp only
  repeat' split
  all_goals first | (left; rfl) | (right; exact ⟨_, _, _, rfl⟩)

theorem allocateTables_spec (r : Reg) (hwf : WF r) :
    WF r.allocateTables ∧ Ext r r.allocateTables r.queue r.allocateTables.queue ∧
    r.allocateTables.badChoice = r.badChoice ∧ (Q r → Q r.allocateTables) := by
  rcases allocateTables_cases r with h | ⟨fuel, wl, reqT, h⟩
  · rw [h]; exact ⟨hwf, Ext.refl _ _, rfl, fun h => h⟩
  · rw [h]; exact allocateLoop_spec _ _ _ r hwf

theorem allocateLoop_badChoice (fuel : Nat) : ∀ (wl reqT : Int) (r : Reg),
    (allocateLoop fuel wl reqT r).badChoice = r.badChoice := by
  induction fuel with
  | zero => intro _ _ _; rfl
  | succ n ih =>
    intro wl reqT r
    rw [allocateLoop_succ]
    split
    · split
      · rfl
      · simp only
        split
        · rfl
        · rw [ih]; rfl
    · rfl

theorem allocateTables_badChoice (r : Reg) : r.allocateTables.badChoice = r.badChoice := by
  rcases allocateTables_cases r with h | ⟨fuel, wl, reqT, h⟩
  · rw [h]
  · rw [h, allocateLoop_badChoice]

theorem WF.setQueue {r : Reg} (hwf : WF r) (q : List Nat) : WF { r with queue := q } :=
  ⟨hwf.maxpos, hwf.tc, hwf.nodup, hwf.idlt, hwf.bnd⟩

theorem Ext.setQueue (r : Reg) (q c : List Nat) : Ext r { r with queue := q } c c :=
  ⟨rfl, rfl, rfl, rfl, ⟨[], by simp, by simp, by simp, trivial, by simp⟩, Nat.le_refl _⟩

theorem drainWaitingQueue_eq (r : Reg) : r.drainWaitingQueue =
    if r.tableCount = 0 ∧ (r.queue.length : Int) ≥ (r.min : Int) then r.allocateTables
    else if r.tableCount > 0 then
      let p1 := dispatchLoop (r.queue.length + 1) r.queue r
      let r2 := if !p1.1.isEmpty then p1.2.updateTableRequirements else p1.2
      let p3 := dispatchLoop (p1.1.length + 1) p1.1 r2
      let r4 := { p3.2 with queue := p3.1 }
      if !p3.1.isEmpty then r4.allocateTables else r4
    else r := rfl

theorem tables_nil_of_tc {r : Reg} (hwf : WF r) (h : r.tableCount = 0) : r.tables = [] := by
  have := hwf.tc; rw [h] at this
  exact List.length_eq_zero_iff.1 (by omega)

theorem drainWaitingQueue_spec (r : Reg) (hwf : WF r) (hb : r.drainWaitingQueue.badChoice = false) :
    WF r.drainWaitingQueue ∧ Ext r r.drainWaitingQueue r.queue r.drainWaitingQueue.queue ∧
    Q r.drainWaitingQueue ∧ r.badChoice = false := by
  rw [drainWaitingQueue_eq] at hb ⊢
  split
  · rename_i h
    have hq : Q r := by intro _ t ht; rw [tables_nil_of_tc hwf h.1] at ht; cases ht
    obtain ⟨h1, h2, h3, h4⟩ := allocateTables_spec r hwf
    rw [if_pos h] at hb
    exact ⟨h1, h2, h4 hq, h3 ▸ hb⟩
  · rename_i hn1
    rw [if_neg hn1] at hb
    split
    · rename_i hpos
      rw [if_pos hpos] at hb
      generalize hp1 : dispatchLoop (r.queue.length + 1) r.queue r = p1 at hb ⊢
      obtain ⟨c1, r1⟩ := p1
      simp only at hb ⊢
      generalize hr2 : (if (!c1.isEmpty) = true then r1.updateTableRequirements else r1) = r2 at hb ⊢
      generalize hp3 : dispatchLoop (c1.length + 1) c1 r2 = p3 at hb ⊢
      obtain ⟨c2, r3⟩ := p3
      simp only at hb ⊢
      have hb3 : r3.badChoice = false := by
        split at hb
        · rw [allocateTables_badChoice] at hb; exact hb
        · exact hb
      have hb2 : r2.badChoice = false := by
        cases hbb : r2.badChoice with
        | false => rfl
        | true =>
          rw [dispatchLoop_bad _ c1 r2 hbb] at hp3
          simp only [Prod.mk.injEq] at hp3
          rw [← hp3.2, hbb] at hb3; cases hb3
      have hb1 : r1.badChoice = false := by
        rw [← hr2] at hb2
        split at hb2
        · rw [(updateTableRequirements_eq r1)] at hb2
          split at hb2 <;> exact hb2
        · exact hb2
      obtain ⟨hwf1, hext1, hq1, hb0, _⟩ := dispatchLoop_spec _ hwf hp1 hb1
      have hwf2 : WF r2 ∧ Ext r1 r2 c1 c1 ∧ r2.queue = r1.queue := by
        rw [← hr2]
        split
        · obtain ⟨a, b, c, _⟩ := updateTableRequirements_spec r1 hwf1 c1
          exact ⟨a, b, c⟩
        · exact ⟨hwf1, Ext.refl _ _, rfl⟩
      obtain ⟨hwf2, hext2, hq2⟩ := hwf2
      obtain ⟨hwf3, hext3, hq3, _, hfuel⟩ := dispatchLoop_spec _ hwf2 hp3 hb3
      have hwf4 : WF { r3 with queue := c2 } := hwf3.setQueue c2
      have hext4 : Ext r { r3 with queue := c2 } r.queue c2 :=
        ((hext1.trans hext2).trans hext3).trans (Ext.setQueue r3 c2 c2)
      have hQ4 : Q { r3 with queue := c2 } := by
        intro hne t ht
        rcases hfuel (by omega) with h | h
        · exact absurd h hne
        · exact h t ht
      split
      · obtain ⟨h1, h2, _, h4⟩ := allocateTables_spec _ hwf4
        exact ⟨h1, hext4.trans h2, h4 hQ4, hb0⟩
      · exact ⟨hwf4, hext4, hQ4, hb0⟩
    · rename_i hn2
      have h0 : r.tableCount = 0 := by have := hwf.tc; omega
      have hq : Q r := by intro _ t ht; rw [tables_nil_of_tc hwf h0] at ht; cases ht
      rw [if_neg hn2] at hb
      exact ⟨hwf, Ext.refl _ _, hq, hb⟩

end Reg
end Pokerface
