import Pokerface.Proofs.CombosEngineResult
/-
  C10, domain bounds over all histories: in every reachable state the board has at most five
  cards and every player at most `holeCount` hole cards.  (Needed only to discharge the
  size hypotheses of the `gospersHack` table; the event bookkeeping shows that `PayAnte` cannot
  re-enter the pre-flop street later in the hand.)
-/
namespace Pokerface
namespace Game

/-! ### Where the event goes -/

@[simp] theorem event_modP (g : Game) (i : Nat) (f : Player → Player) : (g.modP i f).event = g.event := rfl
@[simp] theorem event_mapP (g : Game) (f : Player → Player) : (g.mapP f).event = g.event := rfl
@[simp] theorem event_setEvent (g : Game) (e : Ev) : (g.setEvent e).event = e := rfl
@[simp] theorem event_setRound (g : Game) (e : Round) : (g.setRound e).event = g.event := rfl
@[simp] theorem event_setCur (g : Game) (i : Nat) : (g.setCur i).event = g.event := rfl
@[simp] theorem event_setRaiser (g : Game) (i : Nat) : (g.setRaiser i).event = g.event := rfl
@[simp] theorem event_setCw (g : Game) (x : Int) : (g.setCw x).event = g.event := rfl
@[simp] theorem event_setPrev (g : Game) (x : Int) : (g.setPrev x).event = g.event := rfl
@[simp] theorem event_recordBet (g : Game) (i : Nat) : (g.recordBet i).event = g.event := rfl
@[simp] theorem event_addRoundPot (g : Game) (x : Int) : (g.addRoundPot x).event = g.event := rfl
@[simp] theorem event_setCurrentPlayer (g : Game) (i : Nat) : (g.setCurrentPlayer i).event = g.event := rfl
@[simp] theorem event_resetAllAllowed (g : Game) : g.resetAllAllowed.event = g.event := rfl
@[simp] theorem event_resetAllPlayerStatus (g : Game) : g.resetAllPlayerStatus.event = g.event := rfl
@[simp] theorem event_resetRoundStatus (g : Game) : g.resetRoundStatus.event = g.event := rfl
@[simp] theorem event_resetActed (g : Game) : g.resetActed.event = g.event := rfl
@[simp] theorem event_setActed (g : Game) (i : Nat) : (g.setActed i).event = g.event := rfl
@[simp] theorem event_updatePots (g : Game) : g.updatePots.event = g.event := rfl
@[simp] theorem event_becomeRaiser (g : Game) (i : Nat) : (g.becomeRaiser i).event = g.event := rfl

@[simp] theorem event_payAllin (g : Game) (i : Nat) (p : Player) (w : Bool) : (g.payAllin i p w).event = g.event := by
  unfold payAllin
  dsimp only
  repeat' split
  all_goals simp

@[simp] theorem event_payPart (g : Game) (i : Nat) (p : Player) (c : Int) (w : Bool) :
    (g.payPart i p c w).event = g.event := by
  unfold payPart
  dsimp only
  split <;> simp

@[simp] theorem event_pay (g : Game) (i : Nat) (chips : Int) (w : Bool) : (g.pay i chips w).event = g.event := by
  unfold pay
  split
  · rfl
  · split <;> simp

@[simp] theorem event_roundClosed (g : Game) : g.roundClosed.event = .roundClosed := rfl
@[simp] theorem event_requestReady (g : Game) : g.requestReady.event = .readyRequested := rfl
@[simp] theorem event_gameCompleted (g : Game) : g.gameCompleted.event = .gameClosed := rfl

@[simp] theorem event_payAnteLoop : ∀ (is : List Nat) (g : Game), (payAnteLoop is g).1.event = g.event
  | [], g => rfl
  | i :: is, g => by
    unfold payAnteLoop
    split
    · rfl
    · split
      · rfl
      · rw [event_payAnteLoop is]; simp

@[simp] theorem event_payBlind (g : Game) (i : Nat) : (g.payBlind i).event = g.event := by
  unfold payBlind
  split <;> simp

/-- "never `AnteRequested`" lemmas, as rewriting rules to `False`. -/
@[simp] theorem prepareRound_not_ante (g : Game) : (g.prepareRound.event = .anteRequested) = False := by
  unfold prepareRound
  repeat' split
  all_goals simp

@[simp] theorem requestBlinds_not_ante (g : Game) : (g.requestBlinds.event = .anteRequested) = False := by
  unfold requestBlinds
  split <;> simp

@[simp] theorem afterRoundInitialized_not_ante (g : Game) :
    (g.afterRoundInitialized.event = .anteRequested) = False := by
  unfold afterRoundInitialized
  split <;> simp

@[simp] theorem enterRound_not_ante (g : Game) (r : Round) : ((g.enterRound r).event = .anteRequested) = False := by
  simp [enterRound, initializeRound]

theorem ante_requestPlayerAction (g : Game) (h : g.requestPlayerAction.event = .anteRequested) :
    g.event = .anteRequested := by
  unfold requestPlayerAction at h
  repeat' split at h
  all_goals simp_all

@[simp] theorem openRound_not_ante (g : Game) : (g.openRound.event = .anteRequested) = False := by
  apply eq_false
  intro h
  have := ante_requestPlayerAction _ h
  simp at this

@[simp] theorem startRound_not_ante (g : Game) : (g.startRound.event = .anteRequested) = False := by
  unfold startRound startRound'
  repeat' split
  all_goals simp

@[simp] theorem blindsPaid_not_ante (g : Game) : (g.blindsPaid.event = .anteRequested) = False := by
  simp [blindsPaid]

theorem ante_resume (g : Game) (h : g.resume.event = .anteRequested) : g.event = .anteRequested := by
  unfold resume at h
  split at h
  · next he => have := ante_requestPlayerAction _ h; simp_all
  · simp at h
  · exact h

theorem ante_act (g : Game) (i : Nat) (a : Act) (x : Int) (h : (g.act i a x).1.event = .anteRequested) :
    g.event = .anteRequested := by
  unfold act at h
  repeat' split at h
  all_goals first
    | exact h
    | (simp only [doCall, doAllin, doFold, doBet, doRaise] at h
       repeat' split at h
       all_goals first
         | exact h
         | (have := ante_resume _ h; simpa using this))

/-! ### The bounds -/

/-- Board capacity by street. -/
def boardCap : Round → Nat
  | .none => 0 | .preflop => 0 | .flop => 3 | .turn => 4 | .river => 5

/-- At most `holeCount` hole cards, and a combination object exists (Go: `Combination != nil`). -/
def HandOK (m : Meta) (h : List Card × Option Comb) : Prop := h.1.length ≤ m.holeCount ∧ h.2.isSome

/-- Board never exceeds the capacity of the street; nobody holds more than `holeCount` hole cards;
    `AnteRequested` is only ever current before the first street. -/
structure BoundInv (g : Game) : Prop where
  board : g.board.length ≤ boardCap g.round
  holes : ∀ h ∈ g.players.map handOf, HandOK g.opts h
  ante : g.event = .anteRequested → g.round = .none

theorem boardCap_le (r : Round) : boardCap r ≤ 5 := by cases r <;> decide

theorem BoundInv.of_key {g g' : Game} (hk : g'.key = g.key) (hi : BoundInv g)
    (he : g'.event = .anteRequested → g.event = .anteRequested) : BoundInv g' := by
  obtain ⟨ho, hb, hr, hp⟩ := key_eq_iff.mp hk
  refine ⟨?_, ?_, ?_⟩
  · rw [hb, hr]; exact hi.board
  · rw [hp, ho]; exact hi.holes
  · intro h; rw [hr]; exact hi.ante (he h)

theorem length_dealt_le (g : Game) (k : Nat) : (g.dealt k).length ≤ k := by
  simp only [dealt, List.length_take]; omega

theorem holes_dealHole (g : Game) (i : Nat)
    (h : ∀ h ∈ g.players.map handOf, HandOK g.opts h) :
    ∀ h ∈ (g.dealHole i).players.map handOf, HandOK (g.dealHole i).opts h := by
  intro x hx
  simp only [dealHole, modP, advance, List.mem_map] at hx
  obtain ⟨p, hp, rfl⟩ := hx
  have hall := forall_mem_modify_at (fun q : Player => HandOK g.opts (handOf q))
    (fun p => { p with hole := g.dealt g.opts.holeCount }) g.players i
    (fun q hq => h _ (List.mem_map_of_mem hq))
    (fun q hq => ⟨length_dealt_le g _, (h (handOf q) (List.mem_map_of_mem (List.mem_of_getElem? hq))).2⟩)
  exact hall p hp

theorem dealHoles_frame : ∀ (k i : Nat) (g : Game),
    (dealHoles k i g).board = g.board ∧ (dealHoles k i g).round = g.round ∧ (dealHoles k i g).opts = g.opts ∧
    ((∀ h ∈ g.players.map handOf, HandOK g.opts h) →
      ∀ h ∈ (dealHoles k i g).players.map handOf, HandOK g.opts h)
  | 0, _, g => ⟨rfl, rfl, rfl, fun h => h⟩
  | k + 1, i, g => by
    rw [dealHoles]
    obtain ⟨h1, h2, h3, h4⟩ := dealHoles_frame k (i + 1) (g.dealHole i)
    refine ⟨h1, h2, h3, fun h => ?_⟩
    exact h4 (holes_dealHole g i h)

/-- Effect of entering street `r` on the three bounded quantities. -/
theorem enterRound_bounds (g : Game) (r : Round)
    (hh : ∀ h ∈ g.players.map handOf, HandOK g.opts h) :
    (g.enterRound r).round = r ∧
    (g.enterRound r).board.length ≤ g.board.length + (boardCap r - boardCap (match r with
        | .flop => .preflop | .turn => .flop | .river => .turn | _ => r)) ∧
    (∀ h ∈ (g.enterRound r).players.map handOf, HandOK (g.enterRound r).opts h) := by
  have hk : (g.enterRound r).key = ((g.setRound r).dealStreet.updateCombinations).key := by
    simp [enterRound, initializeRound]
  obtain ⟨ho, hb, hr, hp⟩ := key_eq_iff.mp hk
  have hU : ∀ g : Game, g.updateCombinations.players.map handOf =
      g.players.map (fun p => (p.hole, (newComb p (playerPower g.opts.lvl g.opts.table g.board p.hole g.opts.required)).comb)) := by
    intro g
    simp only [updateCombinations, mapP, List.map_map]
    apply List.map_congr_left
    intro p _
    simp only [Function.comp, handOf, Prod.mk.injEq, and_true]
    unfold newComb; split <;> rfl
  have hUh : ∀ g : Game, (∀ h ∈ g.players.map handOf, HandOK g.opts h) →
      ∀ h ∈ g.updateCombinations.players.map handOf, HandOK g.opts h := by
    intro g hg x hx
    rw [hU] at hx
    obtain ⟨p, hp, rfl⟩ := List.mem_map.mp hx
    have := hg (handOf p) (List.mem_map_of_mem hp)
    refine ⟨this.1, ?_⟩
    have h2 : p.comb.isSome := this.2
    show (newComb p _).comb.isSome
    unfold newComb
    split
    · rfl
    · exact h2
  rw [hr, hb, hp, ho]
  change (g.setRound r).dealStreet.round = r ∧ (g.setRound r).dealStreet.board.length ≤ _ ∧
    ∀ h ∈ (g.setRound r).dealStreet.updateCombinations.players.map handOf, HandOK (g.setRound r).dealStreet.opts h
  cases r with
  | none =>
    refine ⟨rfl, by simp [dealStreet, setRound], hUh _ ?_⟩
    simpa [dealStreet, setRound] using hh
  | preflop =>
    have := dealHoles_frame (g.setRound .preflop).n 0 (g.setRound .preflop)
    have hd : (g.setRound .preflop).dealStreet = dealHoles (g.setRound .preflop).n 0 (g.setRound .preflop) := rfl
    rw [hd]
    refine ⟨this.2.1, by rw [this.1]; simp [setRound], ?_⟩
    apply hUh
    rw [this.2.2.1]; exact this.2.2.2 hh
  | flop =>
    have hd : (g.setRound .flop).dealStreet = (((g.setRound .flop).burn 1).dealBoard 3).setCurrentPlayer (g.setRound .flop).dealerIdx := rfl
    have hk' := key_eq_iff.mp (key_setCurrentPlayer (((g.setRound .flop).burn 1).dealBoard 3) (g.setRound .flop).dealerIdx)
    rw [hd]
    refine ⟨hk'.2.2.1, ?_, ?_⟩
    · rw [hk'.2.1]
      have := length_dealt_le ((g.setRound .flop).burn 1) 3
      simp only [dealBoard, List.length_append, boardCap]
      show g.board.length + _ ≤ _
      omega
    · apply hUh
      rw [hk'.2.2.2, hk'.1]; exact hh
  | turn =>
    have hd : (g.setRound .turn).dealStreet = (((g.setRound .turn).burn 1).dealBoard 1).setCurrentPlayer (g.setRound .turn).dealerIdx := rfl
    have hk' := key_eq_iff.mp (key_setCurrentPlayer (((g.setRound .turn).burn 1).dealBoard 1) (g.setRound .turn).dealerIdx)
    rw [hd]
    refine ⟨hk'.2.2.1, ?_, ?_⟩
    · rw [hk'.2.1]
      have := length_dealt_le ((g.setRound .turn).burn 1) 1
      simp only [dealBoard, List.length_append, boardCap]
      show g.board.length + _ ≤ _
      omega
    · apply hUh
      rw [hk'.2.2.2, hk'.1]; exact hh
  | river =>
    have hd : (g.setRound .river).dealStreet = (((g.setRound .river).burn 1).dealBoard 1).setCurrentPlayer (g.setRound .river).dealerIdx := rfl
    have hk' := key_eq_iff.mp (key_setCurrentPlayer (((g.setRound .river).burn 1).dealBoard 1) (g.setRound .river).dealerIdx)
    rw [hd]
    refine ⟨hk'.2.2.1, ?_, ?_⟩
    · rw [hk'.2.1]
      have := length_dealt_le ((g.setRound .river).burn 1) 1
      simp only [dealBoard, List.length_append, boardCap]
      show g.board.length + _ ≤ _
      omega
    · apply hUh
      rw [hk'.2.2.2, hk'.1]; exact hh

theorem opts_enterRound (g : Game) (r : Round) : (g.enterRound r).opts = g.opts := by
  have hk : (g.enterRound r).key = ((g.setRound r).dealStreet.updateCombinations).key := by
    simp [enterRound, initializeRound]
  rw [(key_eq_iff.mp hk).1]
  show (g.setRound r).dealStreet.opts = g.opts
  unfold dealStreet
  split
  · exact (dealHoles_frame _ _ _).2.2.1
  all_goals first
    | rfl
    | exact (key_eq_iff.mp (key_setCurrentPlayer _ _)).1

theorem BoundInv.enter {g0 : Game} (r : Round)
    (hb : g0.board.length + (boardCap r - boardCap (match r with
        | .flop => .preflop | .turn => .flop | .river => .turn | _ => r)) ≤ boardCap r)
    (hh : ∀ h ∈ g0.players.map handOf, HandOK g0.opts h) : BoundInv (g0.enterRound r) := by
  obtain ⟨h1, h2, h3⟩ := enterRound_bounds g0 r hh
  refine ⟨?_, h3, ?_⟩
  · rw [h1]; omega
  · intro h; simp at h

theorem key_act (g : Game) (i : Nat) (a : Act) (x : Int) : (g.act i a x).1.key = g.key := by
  unfold act
  repeat' split
  all_goals simp

theorem boundInv_step (g : Game) (op : Op) (hi : BoundInv g) : BoundInv (g.step op).1 := by
  cases op with
  | ready =>
    simp only [step, readyForAll]
    split
    · exact hi
    · have hk : g.resetAllAllowed.key = g.key := key_resetAllAllowed g
      have hi' : BoundInv g.resetAllAllowed := hi.of_key hk (by simp)
      simp only [readiness]
      split
      · next hr =>
        split
        · exact ⟨hi'.board, hi'.holes, fun _ => hr⟩
        · apply BoundInv.enter
          · have := hi'.board; rw [hr] at this; simpa [boardCap] using this
          · exact hi'.holes
      · exact hi'.of_key (by simp) (by simp)
  | payAnte =>
    simp only [step, payAnte]
    split
    · exact hi
    · split
      · exact hi
      · next hev =>
        have hev : g.event = .anteRequested := Classical.not_not.mp hev
        have hr := hi.ante hev
        split
        · next g' e h =>
          have h1 := key_payAnteLoop g.seatsFromDealer g
          have h2 := event_payAnteLoop g.seatsFromDealer g
          rw [h] at h1 h2
          exact hi.of_key h1 (fun _ => by rw [← h2]; assumption)
        · next g' h =>
          have h1 := key_payAnteLoop g.seatsFromDealer g
          rw [h] at h1
          have hk : ((((g'.resetAllAllowed.setEvent .antePaid).updatePots).resetAllPlayerStatus).resetRoundStatus).key = g.key := by
            simpa using h1
          obtain ⟨ho, hb, hr', hp⟩ := key_eq_iff.mp hk
          show BoundInv (g'.antePaid)
          unfold antePaid
          apply BoundInv.enter
          · rw [hb]
            have := hi.board; rw [hr] at this; simpa [boardCap] using this
          · rw [hp, ho]; exact hi.holes
  | payBlinds =>
    simp only [step, payBlinds]
    split
    · exact hi
    · exact hi.of_key (by simp) (by simp)
  | next =>
    simp only [step, next]
    split
    · exact hi
    · split
      · exact hi
      · have hk : g.resetRoundStatus.resetAllPlayerStatus.key = g.key := by simp
        have hi' : BoundInv g.resetRoundStatus.resetAllPlayerStatus := hi.of_key hk (by simp)
        simp only [nextRound]
        generalize g.resetRoundStatus.resetAllPlayerStatus = g1 at hi'
        unfold nextRound'
        split
        · exact hi'.of_key (by simp) (by simp)
        · split
          · next hr =>
            apply BoundInv.enter
            · have := hi'.board; rw [hr] at this; simp only [boardCap] at this ⊢; omega
            · exact hi'.holes
          · next hr =>
            apply BoundInv.enter
            · have := hi'.board; rw [hr] at this; simp only [boardCap] at this ⊢; omega
            · exact hi'.holes
          · next hr =>
            apply BoundInv.enter
            · have := hi'.board; rw [hr] at this; simp only [boardCap] at this ⊢; omega
            · exact hi'.holes
          · exact hi'.of_key (by simp) (by simp)
          · exact hi'
  | act seat a x =>
    cases seat with
    | none => exact hi.of_key (key_act _ _ _ _) (ante_act _ _ _ _)
    | some i => exact hi.of_key (key_act _ _ _ _) (ante_act _ _ _ _)

theorem boundInv_run (g : Game) (ops : List Op) (h : BoundInv g) : BoundInv (g.run ops) := by
  induction ops generalizing g with
  | nil => exact h
  | cons op ops ih => exact ih _ (boundInv_step g op h)

theorem boundInv_start (c : Config) : BoundInv (start c).1 := by
  have h0 : ∀ h ∈ (Config.players c).map handOf, HandOK c.opts h := by
    intro h hh
    simp only [Config.players, List.map_map, List.mem_map] at hh
    obtain ⟨a, _, rfl⟩ := hh
    simp [handOf, HandOK]
  unfold start
  dsimp only
  split
  · exact ⟨Nat.le_refl _, h0, fun _ => rfl⟩
  · split
    · exact ⟨Nat.le_refl _, h0, fun _ => rfl⟩
    · split
      · exact ⟨Nat.le_refl _, h0, fun _ => rfl⟩
      · split
        · exact ⟨Nat.le_refl _, h0, fun _ => rfl⟩
        · refine ⟨Nat.le_refl _, ?_, fun _ => rfl⟩
          intro h hh
          apply h0
          simpa [requestReady, resetAllAllowed, resetRoundStatus, setEvent, mapP, handOf, Function.comp] using hh

/-- All histories: at most five board cards, at most `holeCount` hole cards per seat, and every
    seat has a combination object. -/
theorem bounds_on_all_histories (c : Config) (ops : List Op) :
    ((start c).1.run ops).board.length ≤ 5 ∧
    ∀ p ∈ ((start c).1.run ops).players,
      p.hole.length ≤ ((start c).1.run ops).opts.holeCount ∧ p.comb.isSome := by
  have hi := boundInv_run _ ops (boundInv_start c)
  refine ⟨Nat.le_trans hi.board (boardCap_le _), ?_⟩
  intro p hp
  exact hi.holes (handOf p) (List.mem_map_of_mem hp)

/-- The options never change. -/
theorem opts_run (c : Config) (ops : List Op) : ((start c).1.run ops).opts = c.opts := by
  have hs : (start c).1.opts = c.opts := by
    unfold start
    dsimp only
    repeat' split
    all_goals rfl
  have : ∀ (ops : List Op) (g : Game), (g.run ops).opts = g.opts := by
    intro ops
    induction ops with
    | nil => intro g; rfl
    | cons op ops ih =>
      intro g
      show ((g.step op).1.run ops).opts = g.opts
      rw [ih]
      rcases step_key_or_enter g op with hk | ⟨g0, r, hk0, he⟩
      · exact (key_eq_iff.mp hk).1
      · rw [he, opts_enterRound]; exact (key_eq_iff.mp hk0).1
  rw [this, hs]

end Game
end Pokerface
