/-
  The termination measure behind C20 `rebalancing_settles`.

  With `N` players, `R = ⌈N/max⌉` tables needed, `F = ⌊N/R⌋`, the measure is the
  lexicographic tuple
      ( |T − R| , #deficit tables , B , A , S , Λ )
  where, over the tables (count `c`, Required `ρ`):
    deficit   : c < F
    B = Σ ρ over tables whose Required cannot even fill them to F   (c + ρ < F)
    A = number of deficit tables nobody is asked to fill            (c < F, ρ = 0)
    S = Σ (c + ρ − max c F)⁺   (Required that would lift a table above F)
    Λ = Σ |c − F|
  and the whole tuple counts as zero once nobody is in deficit and T = R.
-/
import Pokerface.Proofs.RegTableCount

namespace Pokerface
namespace Reg

structure Vec where
  m2 : Nat
  b : Nat
  a : Nat
  s : Nat
  l : Nat

def lexLe (v' v : Vec) : Prop :=
  v'.m2 < v.m2 ∨ (v'.m2 = v.m2 ∧ (v'.b < v.b ∨ (v'.b = v.b ∧ (v'.a < v.a ∨ (v'.a = v.a ∧
    (v'.s < v.s ∨ (v'.s = v.s ∧ v'.l ≤ v.l)))))))

def lexLt (v' v : Vec) : Prop :=
  v'.m2 < v.m2 ∨ (v'.m2 = v.m2 ∧ (v'.b < v.b ∨ (v'.b = v.b ∧ (v'.a < v.a ∨ (v'.a = v.a ∧
    (v'.s < v.s ∨ (v'.s = v.s ∧ v'.l < v.l)))))))

def dF (F : Int) (t : RTable) : Nat := Min.min 1 (F - t.count).toNat
def bF (F : Int) (t : RTable) : Nat := if t.count + t.required < F then t.required.toNat else 0
def aF (F : Int) (t : RTable) : Nat := Min.min (Min.min 1 (F - t.count).toNat) (Min.min 1 (1 - t.required).toNat)
def sF (F : Int) (t : RTable) : Nat := (t.count + t.required - Max.max t.count F).toNat
def lF (F : Int) (t : RTable) : Nat := (t.count - F).natAbs

def cv (F : Int) (t : RTable) : Vec := ⟨dF F t, bF F t, aF F t, sF F t, lF F t⟩

def tot (g : RTable → Nat) (ts : List RTable) : Nat := (ts.map g).sum

def vecOf (F : Int) (ts : List RTable) : Vec :=
  ⟨tot (dF F) ts, tot (bF F) ts, tot (aF F) ts, tot (sF F) ts, tot (lF F) ts⟩

theorem tot_cons (g : RTable → Nat) (t : RTable) (ts : List RTable) : tot g (t :: ts) = g t + tot g ts := by
  simp [tot]

theorem tot_append (g : RTable → Nat) (a b : List RTable) : tot g (a ++ b) = tot g a + tot g b := by
  simp [tot, List.sum_append]

theorem upd_of_not_mem (id : Nat) (f : RTable → RTable) (ts : List RTable) (h : id ∉ ts.map (·.id)) :
    upd id f ts = ts := by
  induction ts with
  | nil => rfl
  | cons t ts ih =>
    simp only [List.map_cons, List.mem_cons, not_or] at h
    simp only [upd, List.map_cons] at ih ⊢
    rw [ih h.2, if_neg (fun hh => h.1 hh.symm)]

theorem tot_upd (g : RTable → Nat) (ts : List RTable) (hn : (ts.map (·.id)).Nodup) {t0 : RTable}
    (ht0 : t0 ∈ ts) {id : Nat} (hid : t0.id = id) (f : RTable → RTable) :
    tot g (upd id f ts) + g t0 = tot g ts + g (f t0) := by
  induction ts with
  | nil => cases ht0
  | cons t ts ih =>
    simp only [List.map_cons, List.nodup_cons] at hn
    by_cases he : t.id = id
    · have htt : t = t0 := by
        rcases List.mem_cons.1 ht0 with h | h
        · exact h.symm
        · exact absurd (List.mem_map.2 ⟨t0, h, by rw [hid, he]⟩) hn.1
      have hnot : id ∉ ts.map (·.id) := he ▸ hn.1
      have : upd id f (t :: ts) = f t :: upd id f ts := by simp [upd, he]
      rw [this, upd_of_not_mem id f ts hnot, tot_cons, tot_cons, htt]
      omega
    · have ht0' : t0 ∈ ts := by
        rcases List.mem_cons.1 ht0 with h | h
        · rw [h] at hid; exact absurd hid he
        · exact h
      have : upd id f (t :: ts) = t :: upd id f ts := by simp [upd, he]
      rw [this, tot_cons, tot_cons]
      have := ih hn.2 ht0'
      omega

/-- updating one table moves the vector by that table's contribution -/
theorem vec_upd (F : Int) (ts : List RTable) (hn : (ts.map (·.id)).Nodup) {t0 : RTable}
    (ht0 : t0 ∈ ts) {id : Nat} (hid : t0.id = id) (f : RTable → RTable) :
    (vecOf F (upd id f ts)).m2 + (cv F t0).m2 = (vecOf F ts).m2 + (cv F (f t0)).m2 ∧
    (vecOf F (upd id f ts)).b + (cv F t0).b = (vecOf F ts).b + (cv F (f t0)).b ∧
    (vecOf F (upd id f ts)).a + (cv F t0).a = (vecOf F ts).a + (cv F (f t0)).a ∧
    (vecOf F (upd id f ts)).s + (cv F t0).s = (vecOf F ts).s + (cv F (f t0)).s ∧
    (vecOf F (upd id f ts)).l + (cv F t0).l = (vecOf F ts).l + (cv F (f t0)).l :=
  ⟨tot_upd _ ts hn ht0 hid f, tot_upd _ ts hn ht0 hid f, tot_upd _ ts hn ht0 hid f,
   tot_upd _ ts hn ht0 hid f, tot_upd _ ts hn ht0 hid f⟩

theorem lexLe_of_upd {F : Int} {ts : List RTable} (hn : (ts.map (·.id)).Nodup) {t0 : RTable}
    (ht0 : t0 ∈ ts) {id : Nat} (hid : t0.id = id) (f : RTable → RTable)
    (h : lexLe (cv F (f t0)) (cv F t0)) : lexLe (vecOf F (upd id f ts)) (vecOf F ts) := by
  obtain ⟨e1, e2, e3, e4, e5⟩ := vec_upd F ts hn ht0 hid f
  unfold lexLe at h ⊢
  omega

theorem lexLt_of_upd {F : Int} {ts : List RTable} (hn : (ts.map (·.id)).Nodup) {t0 : RTable}
    (ht0 : t0 ∈ ts) {id : Nat} (hid : t0.id = id) (f : RTable → RTable)
    (h : lexLt (cv F (f t0)) (cv F t0)) : lexLt (vecOf F (upd id f ts)) (vecOf F ts) := by
  obtain ⟨e1, e2, e3, e4, e5⟩ := vec_upd F ts hn ht0 hid f
  unfold lexLt at h ⊢
  omega

theorem lexLe_refl (v : Vec) : lexLe v v := by unfold lexLe; omega
theorem lexLe_trans {a b c : Vec} (h1 : lexLe a b) (h2 : lexLe b c) : lexLe a c := by
  unfold lexLe at *; omega
theorem lexLt_le {a b : Vec} (h : lexLt a b) : lexLe a b := by unfold lexLt at h; unfold lexLe; omega

/-! ### the effect of the three kinds of moves on one table -/

/-- dispatch: `k` players (1 ≤ k ≤ Required) are handed to the table -/
theorem cv_dispatch (F : Int) (t : RTable) (k : Int) (h1 : 1 ≤ k) (h2 : k ≤ t.required) :
    lexLe (cv F { t with required := t.required - k, count := t.count + k }) (cv F t) := by
  simp only [lexLe, cv, dF, bF, aF, sF, lF]
  have e : t.count + k + (t.required - k) = t.count + t.required := by omega
  rw [e]
  split <;> omega

/-- release: the table goes down by `j` but not below `F` -/
theorem cv_release (F : Int) (t : RTable) (j : Int) (h0 : 0 ≤ j) (h1 : F ≤ t.count - j)
    (hr : 0 ≤ t.required) :
    lexLe (cv F (adj (-j) none t)) (cv F t) ∧ (1 ≤ j → lexLt (cv F (adj (-j) none t)) (cv F t)) := by
  simp only [lexLe, lexLt, cv, dF, bF, aF, sF, lF, adj, Option.getD_none]
  by_cases ha : t.count + -j + t.required < F <;> by_cases hb : t.count + t.required < F <;>
    simp only [ha, hb, if_true, if_false, true_and] <;> refine ⟨?_, fun hj => ?_⟩ <;> omega

/-- take: a table at or below `F` receives `k ≥ 0` queued players (not beyond `F`) and is given
    `Required = F − c − k` when that is positive.  (When `k ≥ 1` its Required was 0 by invariant Q;
    the lemma turns out not to need it.) -/
theorem cv_take (F : Int) (t : RTable) (k : Int) (h0 : 0 ≤ k) (h1 : t.count + k ≤ F)
    (hr : 0 ≤ t.required) (_hq : 1 ≤ k → t.required = 0) :
    lexLe (cv F (adj k (if F - t.count - k > 0 then some (F - t.count - k) else none) t)) (cv F t) ∧
    (1 ≤ k → lexLt (cv F (adj k (if F - t.count - k > 0 then some (F - t.count - k) else none) t)) (cv F t)) := by
  by_cases hs : F - t.count - k > 0
  · simp only [hs, if_true, lexLe, lexLt, cv, dF, bF, aF, sF, lF, adj, Option.getD_some]
    by_cases ha : t.count + k + (F - t.count - k) < F <;> by_cases hb : t.count + t.required < F <;>
      simp only [ha, hb, if_true, if_false, true_and] <;> refine ⟨?_, fun hk => ?_⟩ <;>
      first
        | omega
        | (have := _hq hk; omega)
        | (by_cases hk : 1 ≤ k
           · have := _hq hk; omega
           · have : k = 0 := by omega
             subst this; omega)
  · simp only [hs, if_false, lexLe, lexLt, cv, dF, bF, aF, sF, lF, adj, Option.getD_none]
    by_cases ha : t.count + k + t.required < F <;> by_cases hb : t.count + t.required < F <;>
      simp only [ha, hb, if_true, if_false, true_and] <;> refine ⟨?_, fun hk => ?_⟩ <;>
      first
        | omega
        | (have := _hq hk; omega)
        | (by_cases hk : 1 ≤ k
           · have := _hq hk; omega
           · have : k = 0 := by omega
             subst this; omega)

/-! ### the measure of a regulator state -/

/-- floor of the water level -/
def flr (r : Reg) : Int := r.playerCount / r.requiredTables

/-- nobody in deficit and exactly the tables needed: nothing will ever be asked again -/
def zeroed (r : Reg) : Prop := (vecOf (flr r) r.tables).m2 = 0 ∧ r.tableCount = r.requiredTables

instance (r : Reg) : Decidable (zeroed r) := inferInstanceAs (Decidable (_ ∧ _))

def mu1 (r : Reg) : Nat := if zeroed r then 0 else (r.tableCount - r.requiredTables).natAbs
def muv (r : Reg) : Vec := if zeroed r then ⟨0, 0, 0, 0, 0⟩ else vecOf (flr r) r.tables

/-- the measure did not increase from `r` to `r'` -/
def MLe (r' r : Reg) : Prop := mu1 r' < mu1 r ∨ (mu1 r' = mu1 r ∧ lexLe (muv r') (muv r))
/-- the measure decreased from `r` to `r'` -/
def MLt (r' r : Reg) : Prop := mu1 r' < mu1 r ∨ (mu1 r' = mu1 r ∧ lexLt (muv r') (muv r))

theorem MLe_refl (r : Reg) : MLe r r := Or.inr ⟨rfl, lexLe_refl _⟩
theorem MLe_trans {a b c : Reg} (h1 : MLe a b) (h2 : MLe b c) : MLe a c := by
  unfold MLe lexLe at *; omega
theorem MLt_le {a b : Reg} (h : MLt a b) : MLe a b := by unfold MLt lexLt at h; unfold MLe lexLe; omega
theorem MLt_of_lt_le {a b c : Reg} (h1 : MLt a b) (h2 : MLe b c) : MLt a c := by
  unfold MLt MLe lexLt lexLe at *; omega
theorem MLt_of_le_lt {a b c : Reg} (h1 : MLe a b) (h2 : MLt b c) : MLt a c := by
  unfold MLt MLe lexLt lexLe at *; omega

/-- the measure only looks at the tables, their number, the player total and `max` -/
theorem mu_congr {r r' : Reg} (h1 : r'.tables = r.tables) (h2 : r'.tableCount = r.tableCount)
    (h3 : r'.playerCount = r.playerCount) (h4 : r'.max = r.max) : mu1 r' = mu1 r ∧ muv r' = muv r := by
  have hR : r'.requiredTables = r.requiredTables := by unfold requiredTables; rw [h3, h4]
  have hF : flr r' = flr r := by unfold flr; rw [h3, hR]
  have hz : zeroed r' ↔ zeroed r := by unfold zeroed; rw [hF, h1, h2, hR]
  unfold mu1 muv
  by_cases z : zeroed r
  · rw [if_pos z, if_pos (hz.2 z), if_pos z, if_pos (hz.2 z)]; exact ⟨rfl, rfl⟩
  · rw [if_neg z, if_neg (fun h => z (hz.1 h)), if_neg z, if_neg (fun h => z (hz.1 h)), h2, hR, hF, h1]
    exact ⟨rfl, rfl⟩

theorem MLe_of_congr {r r' : Reg} (h1 : r'.tables = r.tables) (h2 : r'.tableCount = r.tableCount)
    (h3 : r'.playerCount = r.playerCount) (h4 : r'.max = r.max) : MLe r' r := by
  obtain ⟨e1, e2⟩ := mu_congr h1 h2 h3 h4
  unfold MLe; rw [e1, e2]; exact Or.inr ⟨rfl, lexLe_refl _⟩

theorem mu1_pos {r : Reg} (z : zeroed r) : mu1 r = 0 := by unfold mu1; rw [if_pos z]
theorem mu1_neg {r : Reg} (z : ¬ zeroed r) : mu1 r = (r.tableCount - r.requiredTables).natAbs := by
  unfold mu1; rw [if_neg z]
theorem muv_pos {r : Reg} (z : zeroed r) : muv r = ⟨0, 0, 0, 0, 0⟩ := by unfold muv; rw [if_pos z]
theorem muv_neg {r : Reg} (z : ¬ zeroed r) : muv r = vecOf (flr r) r.tables := by unfold muv; rw [if_neg z]

section
variable {r r' : Reg} (h2 : r'.tableCount = r.tableCount) (h3 : r'.playerCount = r.playerCount)
  (h4 : r'.max = r.max)
include h2 h3 h4

theorem MLe_of_vec (hv : lexLe (vecOf (flr r) r'.tables) (vecOf (flr r) r.tables)) : MLe r' r := by
  have hR : r'.requiredTables = r.requiredTables := by unfold requiredTables; rw [h3, h4]
  have hF : flr r' = flr r := by unfold flr; rw [h3, hR]
  have hz' : zeroed r' ↔ ((vecOf (flr r) r'.tables).m2 = 0 ∧ r.tableCount = r.requiredTables) := by
    unfold zeroed; rw [hF, h2, hR]
  unfold MLe
  by_cases za : zeroed r <;> by_cases zb : zeroed r'
  · rw [mu1_pos za, mu1_pos zb, muv_pos za, muv_pos zb]; unfold lexLe; omega
  · have zb' : ¬ ((vecOf (flr r) r'.tables).m2 = 0 ∧ r.tableCount = r.requiredTables) := fun h => zb (hz'.2 h)
    have za' : (vecOf (flr r) r.tables).m2 = 0 ∧ r.tableCount = r.requiredTables := za
    rw [mu1_pos za, mu1_neg zb, muv_pos za, muv_neg zb, hF, h2, hR]
    unfold lexLe at *; simp only; omega
  · have zb' := hz'.1 zb
    have za' : ¬ ((vecOf (flr r) r.tables).m2 = 0 ∧ r.tableCount = r.requiredTables) := za
    rw [mu1_neg za, mu1_pos zb, muv_neg za, muv_pos zb]
    unfold lexLe at *; simp only; omega
  · rw [mu1_neg za, mu1_neg zb, muv_neg za, muv_neg zb, hF, h2, hR]
    unfold lexLe at *; omega

theorem MLt_of_vec (hz : ¬ zeroed r) (hv : lexLt (vecOf (flr r) r'.tables) (vecOf (flr r) r.tables)) :
    MLt r' r := by
  have hR : r'.requiredTables = r.requiredTables := by unfold requiredTables; rw [h3, h4]
  have hF : flr r' = flr r := by unfold flr; rw [h3, hR]
  have hz' : zeroed r' ↔ ((vecOf (flr r) r'.tables).m2 = 0 ∧ r.tableCount = r.requiredTables) := by
    unfold zeroed; rw [hF, h2, hR]
  have za' : ¬ ((vecOf (flr r) r.tables).m2 = 0 ∧ r.tableCount = r.requiredTables) := hz
  unfold MLt
  by_cases zb : zeroed r'
  · have zb' := hz'.1 zb
    rw [mu1_neg hz, mu1_pos zb, muv_neg hz, muv_pos zb]
    unfold lexLt at *; simp only; omega
  · rw [mu1_neg hz, mu1_neg zb, muv_neg hz, muv_neg zb, hF, h2, hR]
    unfold lexLt at *; omega

end

/-- getting closer to the number of tables needed lowers the measure, whatever else happens -/
theorem MLt_of_m1 {r r' : Reg} (h3 : r'.playerCount = r.playerCount) (h4 : r'.max = r.max)
    (h : (r'.tableCount - r.requiredTables).natAbs < (r.tableCount - r.requiredTables).natAbs) : MLt r' r := by
  have hR : r'.requiredTables = r.requiredTables := by unfold requiredTables; rw [h3, h4]
  unfold MLt
  by_cases za : zeroed r
  · have : r.tableCount = r.requiredTables := za.2
    omega
  · by_cases zb : zeroed r'
    · rw [mu1_neg za, mu1_pos zb]; omega
    · rw [mu1_neg za, mu1_neg zb, hR]; omega

end Reg
end Pokerface
