import Pokerface.Proofs.Int64Base
import Pokerface.Proofs.GapsAStatic
/-
  The table fields `cw` (CurrentWager) and `prev` (PreviousRaiseSize) are bounded by any `M` that
  bounds every bankroll, the big blind and the dealer blind: an invariant carried through `step`.
-/
namespace Pokerface.I64
open Pokerface Game

structure Bd (M : Int) (g : Game) : Prop where
  cw : g.cw ≤ M
  prev : g.prev ≤ M
  bank : ∀ p ∈ g.players, p.bankroll ≤ M
  bb : g.opts.blindBB ≤ M
  bd : g.opts.blindDealer ≤ M

theorem Bd.static {M : Int} {g g' : Game} (h : Bd M g) (st : Static g g') (hcw : g'.cw ≤ M) (hprev : g'.prev ≤ M) :
    Bd M g' := by
  refine ⟨hcw, hprev, ?_, by rw [st.opts]; exact h.bb, by rw [st.opts]; exact h.bd⟩
  intro p hp
  have h1 : p.static ∈ g'.players.map Player.static := List.mem_map_of_mem hp
  rw [st.ids] at h1
  obtain ⟨q, hq, hqe⟩ := List.mem_map.mp h1
  have : q.bankroll = p.bankroll := by
    have := congrArg (fun t : Nat × Bool × Bool × Bool × Int => t.2.2.2.2) hqe
    simpa [Player.static] using this
  rw [← this]; exact h.bank q hq

theorem Bd.noChip {M : Int} {g g' : Game} (h : Bd M g) (nc : NoChip g g') : Bd M g' :=
  h.static nc.static (by rw [nc.cw]; exact h.cw) (by rw [nc.prev]; exact h.prev)

theorem Bd.setPrev {M : Int} {g : Game} (h : Bd M g) (v : Int) (hv : v ≤ M) : Bd M (g.setPrev v) :=
  ⟨h.cw, hv, h.bank, h.bb, h.bd⟩

theorem pay_prev (g : Game) (i : Nat) (c : Int) (w : Bool) : (g.pay i c w).prev = g.prev := by
  unfold Game.pay
  split
  · rfl
  · split
    · unfold Game.payAllin
      simp only
      split
      · split
        · split <;> rfl
        · split <;> rfl
      · rfl
    · unfold Game.payPart
      simp only
      split <;> rfl

theorem pay_cw (g : Game) (i : Nat) (c : Int) (w : Bool) :
    (g.pay i c w).cw = g.cw ∨
    ∃ p, g.players[i]? = some p ∧ ((g.pay i c w).cw = p.initial ∨ (¬ p.stack ≤ c ∧ (g.pay i c w).cw = p.wager + c)) := by
  unfold Game.pay
  split
  · exact Or.inl rfl
  · rename_i p hp
    split
    · unfold Game.payAllin
      simp only
      split
      · split
        · split
          · exact Or.inr ⟨p, by assumption, Or.inl rfl⟩
          · exact Or.inl rfl
        · split
          · exact Or.inr ⟨p, by assumption, Or.inl rfl⟩
          · exact Or.inl rfl
      · exact Or.inl rfl
    · rename_i hlt
      unfold Game.payPart
      simp only
      split
      · exact Or.inr ⟨p, by assumption, Or.inr ⟨hlt, rfl⟩⟩
      · exact Or.inl rfl

theorem pay_false_cw (g : Game) (i : Nat) (c : Int) : (g.pay i c false).cw = g.cw := by
  unfold Game.pay
  split
  · rfl
  · split
    · unfold Game.payAllin; simp
      rfl
    · unfold Game.payPart; simp
      rfl

theorem Bd.pay {M : Int} {g : Game} (h : Bd M g) (pinv : ∀ p ∈ g.players, PInv p) (i : Nat) (c : Int) (w : Bool) :
    Bd M (g.pay i c w) := by
  refine h.static (static_pay g i c w) ?_ (by rw [pay_prev]; exact h.prev)
  rcases pay_cw g i c w with h1 | ⟨p, hp, h1⟩
  · rw [h1]; exact h.cw
  · have hm := List.mem_of_getElem? hp
    have q := pinv p hm
    have := h.bank p hm
    have := q.split; have := q.stack0; have := q.wager0; have := q.pot0; have := q.rebase
    rcases h1 with h1 | ⟨hlt, h1⟩ <;> rw [h1] <;> omega

/-! ### the operations -/

theorem bd_readyForAll {M : Int} (g : Game) (h : Bd M g) : Bd M g.readyForAll.1 := by
  unfold Game.readyForAll
  split
  · exact h
  · exact h.noChip ((noChip_resetAllAllowed g).trans (noChip_readiness _))

theorem bd_payAnteLoop {M : Int} : ∀ (is : List Nat) (g : Game), Bd M g → Bd M (payAnteLoop is g).1
  | [], g, h => h
  | i :: is, g, h => by
    unfold payAnteLoop
    split
    · exact h
    · split
      · exact h
      · exact bd_payAnteLoop is _
          (h.static (static_pay g i _ false) (by rw [pay_false_cw]; exact h.cw) (by rw [pay_prev]; exact h.prev))

theorem bd_zero {M : Int} {g g' : Game} (h : Bd M g) (hM : 0 ≤ M) (st : Static g g') (hcw : g'.cw = 0) (hprev : g'.prev = 0) :
    Bd M g' := h.static st (by omega) (by omega)

theorem bd_antePaid {M : Int} (g : Game) (h : Bd M g) (hM : 0 ≤ M) : Bd M g.antePaid := by
  unfold Game.antePaid
  let g1 := (((g.resetAllAllowed.setEvent .antePaid).updatePots).resetAllPlayerStatus).resetRoundStatus
  have st : Static g g1 :=
    ((((noChip_resetAllAllowed g).trans (noChip_setEvent _ _)).trans (noChip_updatePots _)).static.trans
      (static_resetAllPlayerStatus _)).trans (static_resetRoundStatus _)
  exact (bd_zero h hM st rfl rfl).noChip (noChip_enterRound g1 .preflop)

theorem bd_payAnte {M : Int} (g : Game) (h : Bd M g) (hM : 0 ≤ M) : Bd M g.payAnte.1 := by
  unfold Game.payAnte
  split
  · exact h
  · split
    · exact h
    · have hl := bd_payAnteLoop g.seatsFromDealer g h
      split
      · rename_i g' e heq
        have : g' = (payAnteLoop g.seatsFromDealer g).1 := by rw [heq]
        rw [this]; exact hl
      · rename_i g' heq
        have : g' = (payAnteLoop g.seatsFromDealer g).1 := by rw [heq]
        simp only
        rw [this]; exact bd_antePaid _ hl hM

theorem bd_payBlind {M : Int} (g : Game) (i : Nat) (hb : BInv g) (h : Bd M g) : Bd M (g.payBlind i) := by
  unfold Game.payBlind
  split
  · exact h
  · exact h.pay hb.chips.pinv i _ true

theorem bd_foldl {M : Int} : ∀ (is : List Nat) (g : Game), BInv g → Bd M g → Bd M (is.foldl payBlind g)
  | [], _, _, h => h
  | i :: is, g, hb, h => bd_foldl is _ (bInv_payBlind g i hb) (bd_payBlind g i hb h)

theorem bd_blindsPaid {M : Int} (g : Game) (h : Bd M g) : Bd M g.blindsPaid := by
  unfold Game.blindsPaid
  have hx : (if g.opts.blindBB > 0 then g.opts.blindBB else g.opts.blindDealer) ≤ M := by
    have := h.bb; have := h.bd; split <;> omega
  exact (h.setPrev _ hx).noChip
    (((noChip_resetAllAllowed _).trans (noChip_setEvent _ _)).trans (noChip_prepareRound _))

theorem bd_payBlinds {M : Int} (g : Game) (hi : Inv g) (h : Bd M g) : Bd M g.payBlinds.1 := by
  unfold Game.payBlinds
  split
  · exact h
  · rename_i he
    have he' : g.event = .blindsRequested := by simpa using he
    have hb : BInv g := ⟨hi.opts, hi.struct, hi.chips (by rw [he']; simp), by
      have := hi.post.allowed; simpa [he'] using this⟩
    exact bd_blindsPaid _ (bd_foldl _ g hb h)

theorem bd_next {M : Int} (g : Game) (h : Bd M g) (hM : 0 ≤ M) : Bd M g.next.1 := by
  unfold Game.next
  split
  · exact h
  · split
    · exact h
    · unfold Game.nextRound
      let g1 := g.resetRoundStatus.resetAllPlayerStatus
      have st : Static g g1 := (static_resetRoundStatus g).trans (static_resetAllPlayerStatus _)
      exact (bd_zero h hM st rfl rfl).noChip (noChip_nextRound' g1)

theorem bd_doCall {M : Int} (g : Game) (hi : Inv g) (h : Bd M g) (i : Nat) (ha : g.allows i .call = true) :
    Bd M (g.doCall i) := by
  obtain ⟨p, hp, he, _, _⟩ := allows_spec hi ha
  unfold Game.doCall
  rw [hp]
  simp only
  have hm := midAct_setActed (hi.midAct he) i
  exact ((h.noChip (noChip_setActed g i)).pay hm.chips.pinv i _ true).noChip (noChip_resume _)

theorem bd_doAllin {M : Int} (g : Game) (hi : Inv g) (h : Bd M g) (i : Nat) (ha : g.allows i .allin = true) :
    Bd M (g.doAllin i) := by
  obtain ⟨p, hp, he, _, _⟩ := allows_spec hi ha
  unfold Game.doAllin
  rw [hp]
  simp only
  have hm := midAct_setActed (hi.midAct he) i
  have h1 := h.noChip (noChip_setActed g i)
  have hmem := List.mem_of_getElem? hp
  have q := hi.chips0.pinv p hmem
  have := h.bank p hmem
  have := q.split; have := q.stack0; have := q.wager0; have := q.pot0; have := q.rebase
  have := hi.chips0.cw0
  refine Bd.noChip ?_ (noChip_resume _)
  split
  · rename_i hge
    have hm2 := midAct_setPrev hm (p.initial - g.cw) (Int.le_trans hm.chips.prev0 hge)
    exact (h1.setPrev _ (by omega)).pay hm2.chips.pinv i _ true
  · exact h1.pay hm.chips.pinv i _ true

theorem wagerOf_le {M : Int} {g : Game} (h : Bd M g) (pinv : ∀ p ∈ g.players, PInv p) (i : Nat) (hM : 0 ≤ M) :
    g.wagerOf i ≤ M := by
  unfold Game.wagerOf
  cases hp : g.players[i]? with
  | none => simpa using hM
  | some p =>
    have hmem := List.mem_of_getElem? hp
    have q := pinv p hmem
    have := h.bank p hmem
    have := q.split; have := q.stack0; have := q.pot0
    simp only [Option.map_some, Option.getD_some]
    omega

theorem bd_act {M : Int} (g : Game) (hi : Inv g) (h : Bd M g) (hM : 0 ≤ M) (i : Nat) (a : Act) (x : Int) :
    Bd M (g.act i a x).1 := by
  unfold Game.act
  cases a with
  | pass =>
    simp only
    split
    · exact h
    · exact h.noChip ((noChip_setActed g i).trans (noChip_resume _))
  | pay =>
    simp only
    split
    · exact h
    · rename_i ha
      obtain ⟨p, hp, he, _, hav⟩ := allows_spec hi (by simpa using ha)
      exact absurd hav (not_available_pay g p)
  | fold =>
    simp only
    split
    · exact h
    · unfold Game.doFold
      exact h.noChip ((noChip_modP g i (fun p => { p with fold := true, acted := true }) (fun _ => rfl)).trans (noChip_resume _))
  | check =>
    simp only
    split
    · exact h
    · exact h.noChip ((noChip_setActed g i).trans (noChip_resume _))
  | call =>
    simp only
    split
    · exact h
    · rename_i ha; exact bd_doCall g hi h i (by simpa using ha)
  | allin =>
    simp only
    split
    · exact h
    · rename_i ha; exact bd_doAllin g hi h i (by simpa using ha)
  | bet =>
    simp only
    split
    · exact h
    · rename_i ha
      split
      · exact h
      · rename_i hx
        obtain ⟨p, hp, he, _, _⟩ := allows_spec hi (by simpa using ha)
        have hx' : 0 ≤ x := by omega
        unfold Game.doBet
        have hm := midAct_pay (midAct_setActed (hi.midAct he) i) i x hx'
        have h2 : Bd M ((g.setActed i).pay i x true) :=
          (h.noChip (noChip_setActed g i)).pay (midAct_setActed (hi.midAct he) i).chips.pinv i x true
        unfold Game.recordBet
        exact (h2.setPrev _ (wagerOf_le h2 hm.chips.pinv i hM)).noChip (noChip_resume _)
  | raise =>
    simp only
    split
    · exact h
    · rename_i ha
      split
      · exact h
      · rename_i hx
        split
        · split
          · exact h
          · rename_i hc; exact bd_doCall g hi h i (by simpa using hc)
        · rename_i hne
          split
          · exact h
          · rename_i p hp
            split
            · split
              · exact h
              · rename_i hal; exact bd_doAllin g hi h i (by simpa using hal)
            · rename_i hnot
              obtain ⟨p', hp', he, _, _⟩ := allows_spec hi (by simpa using ha)
              have hm := hi.midAct he
              have hmem := List.mem_of_getElem? hp
              have hw := hm.chips.wle p hmem
              have hprev := hm.chips.prev0
              have hcw := hm.chips.cw0
              have q := hm.chips.pinv p hmem
              have := h.bank p hmem
              have := q.split; have := q.stack0; have := q.wager0; have := q.pot0; have := q.rebase
              unfold Game.doRaise
              simp only
              refine Bd.noChip ?_ (noChip_resume _)
              have hm2 : MidAct ((g.setActed i).setPrev
                  (if (g.opts.potLimit && decide (x - g.cw > g.cw + g.prev)) = true then g.cw + g.prev else x - g.cw)) := by
                apply midAct_setPrev (midAct_setActed hm i)
                split <;> omega
              refine Bd.pay ?_ hm2.chips.pinv i _ true
              apply (h.noChip (noChip_setActed g i)).setPrev
              split
              · rename_i hcap
                simp only [Bool.and_eq_true, decide_eq_true_eq] at hcap
                omega
              · omega

theorem bd_step {M : Int} (g : Game) (hi : Inv g) (h : Bd M g) (hM : 0 ≤ M) (op : Op) : Bd M (g.step op).1 := by
  unfold Game.step
  cases op with
  | ready => exact bd_readyForAll g h
  | payAnte => exact bd_payAnte g h hM
  | payBlinds => exact bd_payBlinds g hi h
  | next => exact bd_next g h hM
  | act seat a x =>
    cases seat with
    | none => exact bd_act g hi h hM _ a x
    | some i => exact bd_act g hi h hM i a x

theorem bd_run {M : Int} (hM : 0 ≤ M) : ∀ (ops : List Op) (g : Game), Inv g → Bd M g → Bd M (g.run ops)
  | [], _, _, h => h
  | op :: ops, g, hi, h => bd_run hM ops _ (inv_step g hi op) (bd_step g hi h hM op)

theorem bank_transfer {M : Int} {l l' : List Player} (e : l'.map Player.static = l.map Player.static)
    (h : ∀ p ∈ l, p.bankroll ≤ M) : ∀ p ∈ l', p.bankroll ≤ M := by
  intro p hp
  have h1 : p.static ∈ l'.map Player.static := List.mem_map_of_mem hp
  rw [e] at h1
  obtain ⟨q, hq, hqe⟩ := List.mem_map.mp h1
  have : q.bankroll = p.bankroll := by
    have := congrArg (fun t : Nat × Bool × Bool × Bool × Int => t.2.2.2.2) hqe
    simpa [Player.static] using this
  rw [← this]; exact h q hq

/-- the invariant on every reachable state, for every `M` above the chips in the hand and the two blinds -/
theorem bd_reachable {g : Game} (hr : Reachable g) {M : Int} (hT : total g ≤ M)
    (hbb : g.opts.blindBB ≤ M) (hbd : g.opts.blindDealer ≤ M) : Bd M g := by
  have hg := inv_reachable hr
  have hM : 0 ≤ M := Int.le_trans hg.opts.bb0 hbb
  have hbank : ∀ p ∈ g.players, p.bankroll ≤ M := fun p hp => by
    have := pinv_facts hg.chips0.pinv p hp; omega
  obtain ⟨c, ops, wf, hs, rfl⟩ := hr
  have hi0 := inv_start c wf hs
  have st : Static (start c).1 ((start c).1.run ops) := static_run_full _ hi0 ops
  have h0 : Bd M (start c).1 := by
    refine ⟨?_, ?_, bank_transfer st.ids.symm hbank, by rw [← st.opts]; exact hbb, by rw [← st.opts]; exact hbd⟩
    · rw [(start_ok c hs).2.2, (noChip_requestReady _).cw]; exact hM
    · rw [(start_ok c hs).2.2, (noChip_requestReady _).prev]; exact hM
  exact bd_run hM ops _ hi0 h0

end Pokerface.I64
