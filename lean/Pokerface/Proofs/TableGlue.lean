/-
  The glue between the seat manager and the hand engine (Model/Table.lean), part 1:
  * `startRefusal` is the engine model's `start` (theorem A),
  * `setupPosition` restated, the positions it copies,
  * the invariant `TInv` of a table (sheet as long as the seat map, sheet in sync with the seat map, seat manager
    reachable) and its preservation by every operation; `TReachable`.
-/
import Pokerface.Model.Table
import Pokerface.Proofs.FlowC06
import Pokerface.Proofs.SMBook
import Pokerface.Proofs.SMLayout

namespace Pokerface
namespace Table

/-! ### A. `startRefusal` = `start` -/

theorem startRefusal_eq (ps : List SeatCfg) : startRefusal ps =
    if ps.length < 2 then some .insufficientPlayers
    else if ¬ ∃ s ∈ ps, s.dealer = true then some .noDealer
    else if ∃ s ∈ ps, s.bankroll ≤ 0 then some .notEnoughBankroll
    else none := by
  unfold startRefusal
  have e2 : (!(ps.any (·.dealer))) = true ↔ ¬ ∃ s ∈ ps, s.dealer = true := by simp
  have e3 : (ps.any (fun p => decide (p.bankroll ≤ 0))) = true ↔ ∃ s ∈ ps, s.bankroll ≤ 0 := by simp
  simp only [e2, e3]

/-- **A.** With a deck, the refusal `Start()` of the engine model gives for the configuration is the table model's
`startRefusal` of its player settings. -/
theorem startRefusal_eq_start (c : Config) (hd : c.opts.deck ≠ []) : (start c).2 = startRefusal c.seats := by
  rw [start_err, startRefusal_eq, if_neg hd]

theorem startRefusal_none_iff (ps : List SeatCfg) :
    startRefusal ps = none ↔ 2 ≤ ps.length ∧ (∃ s ∈ ps, s.dealer = true) ∧ ∀ s ∈ ps, 0 < s.bankroll := by
  rw [startRefusal_eq]
  constructor
  · intro h
    split at h
    · cases h
    · rename_i h1
      split at h
      · cases h
      · rename_i h2
        split at h
        · cases h
        · rename_i h3
          refine ⟨by omega, Classical.not_not.mp h2, ?_⟩
          intro s hs
          have : ¬ s.bankroll ≤ 0 := fun hle => h3 ⟨s, hs, hle⟩
          omega
  · rintro ⟨h1, h2, h3⟩
    have h3' : ¬ ∃ s ∈ ps, s.bankroll ≤ 0 := by
      rintro ⟨s, hs, hle⟩
      have := h3 s hs
      omega
    rw [if_neg (by omega), if_neg (fun h => h h2), if_neg h3']

/-! ### the sheet -/

/-- the player id the sheet shows on seat `i` -/
def pidAt (t : Table) (i : Nat) : Option Nat := (t.players[i]?).bind (·.map (·.pid))

/-- the player the sheet shows on seat `i` -/
def playerAt (t : Table) (i : Nat) : Option TPlayer := (t.players[i]?).join

theorem playerAt_eq_some {t : Table} {i : Nat} {p : TPlayer} :
    t.playerAt i = some p ↔ t.players[i]? = some (some p) := by
  unfold playerAt
  cases h : t.players[i]? with
  | none => simp
  | some o => cases o <;> simp

theorem pidAt_eq (t : Table) (i : Nat) : t.pidAt i = (t.playerAt i).map (·.pid) := by
  unfold pidAt playerAt
  cases h : t.players[i]? with
  | none => rfl
  | some o => cases o <;> rfl

theorem playerAt_setPl (t : Table) (i : Nat) (p : Option TPlayer) (j : Nat) :
    (t.setPl i p).playerAt j = if i = j ∧ j < t.players.length then p else t.playerAt j := by
  unfold playerAt setPl
  simp only [List.getElem?_set]
  by_cases hij : i = j
  · subst hij
    by_cases hl : i < t.players.length
    · simp [hl]
    · simp [hl]
  · simp [hij]

theorem playerAt_modPl (t : Table) (i : Nat) (f : TPlayer → TPlayer) (j : Nat) :
    (t.modPl i f).playerAt j = if i = j then (t.playerAt j).map f else t.playerAt j := by
  unfold playerAt modPl
  simp only [List.getElem?_modify]
  by_cases hij : i = j
  · subst hij
    cases h : t.players[i]? with
    | none => simp
    | some o => cases o <;> simp
  · simp [hij]

@[simp] theorem setPl_sm (t : Table) (i p) : (t.setPl i p).sm = t.sm := rfl
@[simp] theorem modPl_sm (t : Table) (i f) : (t.modPl i f).sm = t.sm := rfl
@[simp] theorem setPl_opts (t : Table) (i p) : (t.setPl i p).opts = t.opts := rfl
@[simp] theorem modPl_opts (t : Table) (i f) : (t.modPl i f).opts = t.opts := rfl
@[simp] theorem setPl_length (t : Table) (i p) : (t.setPl i p).players.length = t.players.length := by
  simp [setPl]
@[simp] theorem modPl_length (t : Table) (i f) : (t.modPl i f).players.length = t.players.length := by
  simp [modPl]
@[simp] theorem setPl_inPosition (t : Table) (i p) : (t.setPl i p).inPosition = t.inPosition := rfl
@[simp] theorem modPl_inPosition (t : Table) (i f) : (t.modPl i f).inPosition = t.inPosition := rfl
@[simp] theorem setPl_gameCount (t : Table) (i p) : (t.setPl i p).gameCount = t.gameCount := rfl
@[simp] theorem modPl_gameCount (t : Table) (i f) : (t.modPl i f).gameCount = t.gameCount := rfl

/-! ### `setupPosition` restated -/

/-- how `setupPosition` passes on an error of `Next()` -/
def nextErr : SMErr → TErr
  | .insufficientPlayers => .insufficient
  | .panic => .panic
  | e => .sm e

/-- the positions of the seat manager `sm'` written onto one sheet entry of seat `i` -/
def copyPos (sm' : SM) (i : Nat) (p : TPlayer) : TPlayer :=
  { p with dealer := decide (sm'.dealer = some i),
           sb := decide (sm'.sb = some i),
           bb := decide (sm'.sb ≠ some i) && decide (sm'.bb = some i),
           playable := sm'.playable i }

/-- the loop of `setupPosition` -/
def copyPositions (sm' : SM) (pls : List (Option TPlayer)) : List (Option TPlayer) :=
  pls.zipIdx.map fun (p, i) => p.map (copyPos sm' i)

theorem setupPosition_eq (t : Table) : t.setupPosition =
    if t.inPosition then (t, none)
    else match (t.sm.step .next).2.1 with
      | some e => ({ t with sm := (t.sm.step .next).1 }, some (nextErr e))
      | none => ({ t with sm := (t.sm.step .next).1, players := copyPositions (t.sm.step .next).1 t.players,
                          inPosition := true }, none) := by
  unfold setupPosition
  split
  · rfl
  · rcases h : t.sm.step .next with ⟨sm', e, r⟩
    cases e with
    | none => rfl
    | some e => cases e <;> rfl

theorem copyPositions_length (sm' : SM) (pls) : (copyPositions sm' pls).length = pls.length := by
  simp [copyPositions]

theorem copyPositions_getElem? (sm' : SM) (pls : List (Option TPlayer)) (i : Nat) :
    (copyPositions sm' pls)[i]? = (pls[i]?).map (·.map (copyPos sm' i)) := by
  unfold copyPositions
  rw [List.getElem?_map, List.getElem?_zipIdx]
  cases pls[i]? <;> simp

/-- a successful `setupPosition` that really ran `Next()` -/
theorem setupPosition_ok {t t' : Table} (hp : t.inPosition = false) (h : t.setupPosition = (t', none)) :
    (t.sm.step .next).2.1 = none ∧
    t' = { t with sm := (t.sm.step .next).1, players := copyPositions (t.sm.step .next).1 t.players,
                  inPosition := true } := by
  rw [setupPosition_eq, if_neg (by simp [hp])] at h
  split at h
  · cases h
  · next he => exact ⟨he, (Prod.mk.inj h).1.symm⟩

/-- `setupPosition` when the positions are already there -/
theorem setupPosition_inPosition {t : Table} (hp : t.inPosition = true) : t.setupPosition = (t, none) := by
  rw [setupPosition_eq, if_pos hp]

/-- the seat manager after `setupPosition`: untouched, or one `Next()` later -/
theorem setupPosition_sm (t : Table) :
    t.setupPosition.1.sm = t.sm ∨ t.setupPosition.1.sm = (t.sm.step .next).1 := by
  rw [setupPosition_eq]
  split
  · left; rfl
  · right; split <;> rfl

theorem setupPosition_opts (t : Table) : t.setupPosition.1.opts = t.opts := by
  rw [setupPosition_eq]
  split
  · rfl
  · split <;> rfl

theorem setupPosition_gameCount (t : Table) : t.setupPosition.1.gameCount = t.gameCount := by
  rw [setupPosition_eq]
  split
  · rfl
  · split <;> rfl

/-- `setupPosition` changes, on the sheet, only the copied fields -/
theorem setupPosition_playerAt (t : Table) (i : Nat) :
    t.setupPosition.1.playerAt i = t.playerAt i ∨
    t.setupPosition.1.playerAt i = (t.playerAt i).map (copyPos (t.sm.step .next).1 i) := by
  rw [setupPosition_eq]
  split
  · left; rfl
  · split
    · left; rfl
    · right
      unfold playerAt
      simp only [copyPositions_getElem?]
      cases h : t.players[i]? with
      | none => rfl
      | some o => cases o <;> rfl

/-! ### the seat manager keeps its size -/

theorem _root_.Pokerface.SM.step_max {sm : SM} (h : SM.Inv sm) (op : SMOp) : (sm.step op).1.max = sm.max := by
  cases op with
  | join seat pid chose =>
    rcases SM.step_join_cases sm seat pid chose with ⟨e, he⟩ | ⟨i, s, _, _, _, he⟩ <;> rw [he] <;> rfl
  | seat id =>
    rcases SM.step_seat_cases sm id with ⟨_, he⟩ | ⟨i, _, _, he⟩ <;> rw [he] <;> rfl
  | reserve id =>
    rcases SM.step_reserve_cases sm id with ⟨_, he⟩ | ⟨i, _, _, he⟩ <;> rw [he] <;> rfl
  | leave id =>
    rcases SM.step_leave_cases sm id with ⟨e, he⟩ | ⟨i, s, _, _, _, he⟩ <;> rw [he] <;> rfl
  | next =>
    rcases SM.step_next_cases h with ⟨he, _⟩ | ⟨hf, hc, sm', hr, he⟩
    · rw [he]; exact (SM.nextDealer_actUp sm).max
    · have hok : (sm.step .next).2.1 = none := by rw [he]
      obtain ⟨d, ks, kb, hn⟩ := SM.next_ok h hok
      exact hn.max_eq

/-! ### B. the invariant -/

/-- Invariant of a table: the sheet has one slot per seat, it shows a player exactly where the seat manager has
one (with the same id), and the seat manager is in a state reachable from a fresh one by its own operations. -/
structure TInv (t : Table) : Prop where
  len : t.players.length = t.sm.max
  smr : SM.Reachable t.sm
  sync : ∀ i, t.pidAt i = t.sm.pidAt i

theorem TInv.seats_len {t : Table} (h : TInv t) : t.sm.seats.length = t.sm.max := h.smr.inv.wf

theorem tinv_new (max : Nat) (o : TOpts) : TInv (Table.new max o) := by
  refine ⟨by simp [Table.new, SM.new], ⟨max, [], rfl⟩, ?_⟩
  intro i
  rw [show (Table.new max o).sm = SM.new max from rfl, SM.pidAt_new]
  unfold pidAt Table.new
  simp only [List.getElem?_replicate]
  split <;> rfl

/-- sheet side: the player (hence the pid) is there iff the seat manager has one -/
theorem TInv.player_of_sm {t : Table} (h : TInv t) {i : Nat} {s : Seat} (hs : t.sm.seats[i]? = some s)
    (hp : s.player.isSome = true) : ∃ p, t.players[i]? = some (some p) ∧ s.player = some p.pid := by
  have := h.sync i
  rw [pidAt_eq] at this
  unfold SM.pidAt at this
  rw [hs] at this
  simp only [Option.bind_some] at this
  cases hq : t.playerAt i with
  | none => rw [hq] at this; rw [← this] at hp; cases hp
  | some p =>
    rw [hq] at this
    exact ⟨p, playerAt_eq_some.mp hq, this.symm⟩

theorem TInv.player_of_playable {t : Table} (h : TInv t) {i : Nat} (hp : t.sm.playable i = true) :
    ∃ p, t.players[i]? = some (some p) := by
  unfold SM.playable at hp
  cases hs : t.sm.seats[i]? with
  | none => rw [hs] at hp; cases hp
  | some s =>
    rw [hs] at hp
    simp only [Bool.and_eq_true] at hp
    obtain ⟨p, hp', _⟩ := h.player_of_sm hs hp.2
    exact ⟨p, hp'⟩

theorem TInv.sm_of_player {t : Table} (h : TInv t) {i : Nat} {p : TPlayer} (hp : t.players[i]? = some (some p)) :
    ∃ s, t.sm.seats[i]? = some s ∧ s.player = some p.pid := by
  have := h.sync i
  rw [pidAt_eq, playerAt_eq_some.mpr hp] at this
  unfold SM.pidAt at this
  cases hs : t.sm.seats[i]? with
  | none => rw [hs] at this; cases this
  | some s => rw [hs] at this; exact ⟨s, rfl, this.symm⟩

/-- a change of the seat manager by one of its own operations that keeps everybody seated -/
theorem TInv.sm_step_same {t : Table} (h : TInv t) (op : SMOp)
    (hpid : ∀ j, (t.sm.step op).1.pidAt j = t.sm.pidAt j) : TInv { t with sm := (t.sm.step op).1 } :=
  ⟨by show t.players.length = (t.sm.step op).1.max; rw [SM.step_max h.smr.inv]; exact h.len,
   h.smr.step op, fun i => by show t.pidAt i = _; rw [hpid i]; exact h.sync i⟩

theorem seat_pidAt (sm : SM) (id : Int) (j : Nat) : (sm.step (.seat id)).1.pidAt j = sm.pidAt j := by
  rcases SM.step_seat_cases sm id with ⟨_, he⟩ | ⟨i, _, _, he⟩
  · rw [he]
  · rw [he]; exact SM.pidAt_modSeat_same sm i (fun s => { s with reserved := false }) (fun _ => rfl) j

theorem reserve_pidAt (sm : SM) (id : Int) (j : Nat) : (sm.step (.reserve id)).1.pidAt j = sm.pidAt j := by
  rcases SM.step_reserve_cases sm id with ⟨_, he⟩ | ⟨i, _, _, he⟩
  · rw [he]
  · rw [he]; exact SM.pidAt_modSeat_same sm i (fun s => { s with reserved := true }) (fun _ => rfl) j

/-- changing sheet entries without touching the pids -/
theorem TInv.of_same_pids {t t' : Table} (h : TInv t) (hsm : t'.sm = t.sm) (hl : t'.players.length = t.players.length)
    (hp : ∀ i, t'.pidAt i = t.pidAt i) : TInv t' :=
  ⟨by rw [hl, hsm]; exact h.len, by rw [hsm]; exact h.smr, fun i => by rw [hp i, hsm]; exact h.sync i⟩

theorem TInv.modPl {t : Table} (h : TInv t) (i : Nat) (f : TPlayer → TPlayer) (hf : ∀ p, (f p).pid = p.pid) :
    TInv (t.modPl i f) := by
  refine h.of_same_pids rfl (by simp) ?_
  intro j
  rw [pidAt_eq, pidAt_eq, playerAt_modPl]
  split
  · cases t.playerAt j <;> simp [hf]
  · rfl

/-- table.go `leave` -/
theorem leave_cases (t : Table) (seat : Int) :
    (∃ e, t.leave seat = (t, some e)) ∨
    (∃ (i : Nat) (s : Seat), seat = (i : Int) ∧ t.sm.seats[i]? = some s ∧ s.player.isSome = true ∧
      t.sm.step (.leave seat) = (t.sm.setSeat i { s with player := none, reserved := false }, none, none) ∧
      t.leave seat = (({ t with sm := (t.sm.step (.leave seat)).1 }).setPl i none, none)) := by
  rcases SM.step_leave_cases t.sm seat with ⟨e, he⟩ | ⟨i, s, hi, hs, hp, he⟩
  · left; exact ⟨.sm e, by unfold leave; rw [he]⟩
  · right
    refine ⟨i, s, hi, hs, hp, he, ?_⟩
    unfold leave
    rw [he]
    subst hi
    simp

theorem TInv.leave {t : Table} (h : TInv t) (seat : Int) : TInv (t.leave seat).1 := by
  rcases leave_cases t seat with ⟨e, he⟩ | ⟨i, s, hi, hs, hp, he, hl⟩
  · rw [he]; exact h
  · rw [hl]
    have hil : i < t.players.length := by
      rw [h.len, ← h.seats_len]; exact (List.getElem?_eq_some_iff.mp hs).1
    refine ⟨?_, h.smr.step _, ?_⟩
    · show (t.players.set i none).length = (t.sm.step (.leave seat)).1.max
      rw [SM.step_max h.smr.inv]; simpa using h.len
    · intro j
      show (({ t with sm := (t.sm.step (.leave seat)).1 } : Table).setPl i none).pidAt j = (t.sm.step (.leave seat)).1.pidAt j
      rw [he, SM.pidAt_setSeat _ hs, pidAt_eq, playerAt_setPl]
      by_cases hij : i = j
      · subst hij
        simp [show i < ({ t with sm := t.sm.setSeat i { s with player := none, reserved := false } } : Table).players.length from hil]
      · simp only [hij, false_and, if_false]
        have := h.sync j
        rw [pidAt_eq] at this
        exact this

theorem TInv.setupPosition {t : Table} (h : TInv t) : TInv t.setupPosition.1 := by
  rw [setupPosition_eq]
  split
  · exact h
  · have hpid := fun j => (SM.next_samePlayers h.smr.inv).pidAt j
    split
    · exact h.sm_step_same .next hpid
    · refine (h.sm_step_same .next hpid).of_same_pids rfl (by simp [copyPositions_length]) ?_
      intro i
      unfold pidAt
      show ((copyPositions (t.sm.step .next).1 t.players)[i]?).bind _ = (t.players[i]?).bind _
      rw [copyPositions_getElem?]
      cases t.players[i]? with
      | none => rfl
      | some o => cases o <;> rfl

/-! ### game indices -/

/-- the loop of `startGame` that hands out the game indices -/
def assignFold (t : Table) (seats : List Nat) (k0 : Nat) : Table :=
  (seats.zipIdx k0).foldl (fun t (s, i) => t.modPl s fun p => { p with gameIdx := (i : Int) }) t

/-- `startGame`'s first loop -/
def clearIdx (t : Table) : Table := { t with players := t.players.map (·.map fun p => { p with gameIdx := -1 }) }

theorem assignGameIdx_eq (t : Table) (seats : List Nat) : t.assignGameIdx seats = t.clearIdx.assignFold seats 0 := rfl

theorem assignFold_cons (t : Table) (s : Nat) (seats : List Nat) (k0 : Nat) :
    t.assignFold (s :: seats) k0 = (t.modPl s fun p => { p with gameIdx := (k0 : Int) }).assignFold seats (k0 + 1) := by
  simp [assignFold, List.zipIdx_cons]

theorem TInv.assignFold {t : Table} (h : TInv t) (seats : List Nat) (k0 : Nat) : TInv (t.assignFold seats k0) := by
  induction seats generalizing t k0 with
  | nil => exact h
  | cons s seats ih => rw [assignFold_cons]; exact ih (h.modPl s (fun p => { p with gameIdx := (k0 : Int) }) (fun _ => rfl)) _

theorem TInv.clearIdx {t : Table} (h : TInv t) : TInv t.clearIdx := by
  refine h.of_same_pids rfl (by simp [Table.clearIdx]) ?_
  intro i
  unfold pidAt Table.clearIdx
  simp only [List.getElem?_map]
  cases t.players[i]? with
  | none => rfl
  | some o => cases o <;> rfl

theorem TInv.assignGameIdx {t : Table} (h : TInv t) (seats : List Nat) : TInv (t.assignGameIdx seats) := by
  rw [assignGameIdx_eq]; exact h.clearIdx.assignFold _ _

/-! ### the closing state of a hand -/

theorem TInv.applyFinal {t : Table} (h : TInv t) (k : Nat) (final : Int) : TInv (t.applyFinal k final) := by
  unfold Table.applyFinal
  split
  · exact h
  · next s _ =>
    have h1 : TInv (t.modPl s fun p => { p with bankroll := final }) := h.modPl s (fun p => { p with bankroll := final }) (fun _ => rfl)
    simp only
    split
    · have h2 := h1.sm_step_same (.reserve (s : Int)) (reserve_pidAt _ _)
      split
      · exact h2.leave _
      · exact h2
    · exact h1

theorem applyResult_append (t : Table) (fs : List Int) (f : Int) :
    t.applyResult (fs ++ [f]) = (t.applyResult fs).applyFinal fs.length f := by
  simp [Table.applyResult, List.zipIdx_append, List.foldl_append]

theorem TInv.applyResult {t : Table} (h : TInv t) (finals : List Int) : TInv (t.applyResult finals) := by
  induction finals using List.reverseRecOn with
  | nil => exact h
  | append_singleton fs f ih => rw [applyResult_append]; exact ih.applyFinal _ _

/-! ### every operation -/

theorem TInv.prepareNextGame {t : Table} (h : TInv t) (finals : List Int) : TInv (t.prepareNextGame finals).1 := by
  unfold Table.prepareNextGame
  split
  · exact h
  · have h1 := h.setupPosition
    rcases hs : t.setupPosition with ⟨t1, e⟩
    rw [hs] at h1
    simp only at h1
    cases e with
    | some e => exact h1
    | none =>
      simp only
      split
      · exact h1
      · split
        · exact h1
        · next seats _ =>
          have h2 := h1.assignGameIdx seats
          split
          · exact h2
          · split
            · exact h2
            · have h3 := h2.applyResult finals
              have h4 : TInv { (t1.assignGameIdx seats).applyResult finals with
                  gameCount := ((t1.assignGameIdx seats).applyResult finals).gameCount + 1, inPosition := false } :=
                h3.of_same_pids rfl rfl (fun _ => rfl)
              split
              · exact h4
              · exact h4.setupPosition

theorem TInv.step {t : Table} (h : TInv t) (op : TOp) : TInv (t.step op).1 := by
  cases op with
  | join seat pid bankroll chose =>
    rcases SM.step_join_cases t.sm seat pid chose with ⟨e, he⟩ | ⟨i, s, hs, hp, _, he⟩
    · simp only [Table.step, he]; exact h
    · simp only [Table.step, he]
      have hil : i < t.players.length := by
        rw [h.len, ← h.seats_len]; exact (List.getElem?_eq_some_iff.mp hs).1
      have hsm : t.sm.setSeat i { s with reserved := true, player := some pid } = (t.sm.step (.join seat pid chose)).1 := by
        rw [he]
      refine ⟨?_, ?_, ?_⟩
      · show (t.players.set i _).length = (t.sm.setSeat i _).max
        simpa [SM.setSeat] using h.len
      · show SM.Reachable (t.sm.setSeat i _)
        rw [hsm]; exact h.smr.step _
      · intro j
        show (({ t with sm := t.sm.setSeat i { s with reserved := true, player := some pid } } : Table).setPl i
          (some { pid := pid, bankroll := bankroll })).pidAt j = (t.sm.setSeat i _).pidAt j
        rw [SM.pidAt_setSeat _ hs, pidAt_eq, playerAt_setPl]
        by_cases hij : i = j
        · subst hij
          simp [show i < ({ t with sm := t.sm.setSeat i { s with reserved := true, player := some pid } } : Table).players.length from hil]
        · simp only [hij, false_and, if_false]
          have := h.sync j
          rw [pidAt_eq] at this
          exact this
  | leave seat => exact h.leave seat
  | activate seat => exact h.sm_step_same (.seat seat) (seat_pidAt _ _)
  | reserve seat =>
    rcases SM.step_reserve_cases t.sm seat with ⟨_, he⟩ | ⟨i, _, _, he⟩
    · simp only [Table.step, he]; exact h
    · have := h.sm_step_same (.reserve seat) (reserve_pidAt _ _)
      simp only [Table.step, he]
      rw [he] at this
      exact this
  | setup => exact h.setupPosition
  | hand finals => exact h.prepareNextGame finals

theorem TInv.run {t : Table} (h : TInv t) (ops : List TOp) : TInv (t.run ops) := by
  induction ops generalizing t with
  | nil => exact h
  | cons op ops ih => exact ih (h.step op)

/-- **B.** The tables reachable from a fresh one (`NewTable`) by any sequence of `Join` / `Leave` / `Activate` /
`Reserve` / `setupPosition` / `prepareNextGame` (the latter with any closing stacks). -/
def TReachable (t : Table) : Prop := ∃ (max : Nat) (o : TOpts) (ops : List TOp), t = (Table.new max o).run ops

theorem TReachable.inv {t : Table} (h : TReachable t) : TInv t := by
  obtain ⟨max, o, ops, rfl⟩ := h
  exact (tinv_new max o).run ops

theorem TReachable.step {t : Table} (h : TReachable t) (op : TOp) : TReachable (t.step op).1 := by
  obtain ⟨max, o, ops, rfl⟩ := h
  exact ⟨max, o, ops ++ [op], by simp [Table.run, List.foldl_append]⟩

theorem TReachable.run {t : Table} (h : TReachable t) (ops : List TOp) : TReachable (t.run ops) := by
  obtain ⟨max, o, ops0, rfl⟩ := h
  exact ⟨max, o, ops0 ++ ops, by simp [Table.run, List.foldl_append]⟩

theorem run_cons (t : Table) (op : TOp) (ops : List TOp) : t.run (op :: ops) = (t.step op).1.run ops := rfl

end Table
end Pokerface
