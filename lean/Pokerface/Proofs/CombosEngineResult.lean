import Pokerface.Proofs.CombosEngine
/-
  C10, part 5 (continued): the `Result` field is written by `gameCompleted` only, so on every
  history the published result is the settlement of the published strengths.
-/
namespace Pokerface
namespace Game

@[simp] theorem result_modP (g : Game) (i : Nat) (f : Player → Player) : (g.modP i f).result = g.result := rfl
@[simp] theorem result_mapP (g : Game) (f : Player → Player) : (g.mapP f).result = g.result := rfl
@[simp] theorem result_setEvent (g : Game) (e : Ev) : (g.setEvent e).result = g.result := rfl
@[simp] theorem result_setRound (g : Game) (e : Round) : (g.setRound e).result = g.result := rfl
@[simp] theorem result_setCur (g : Game) (i : Nat) : (g.setCur i).result = g.result := rfl
@[simp] theorem result_setRaiser (g : Game) (i : Nat) : (g.setRaiser i).result = g.result := rfl
@[simp] theorem result_setCw (g : Game) (x : Int) : (g.setCw x).result = g.result := rfl
@[simp] theorem result_setPrev (g : Game) (x : Int) : (g.setPrev x).result = g.result := rfl
@[simp] theorem result_recordBet (g : Game) (i : Nat) : (g.recordBet i).result = g.result := rfl
@[simp] theorem result_addRoundPot (g : Game) (x : Int) : (g.addRoundPot x).result = g.result := rfl
@[simp] theorem result_offer (g : Game) (i : Nat) : (g.offer i).result = g.result := rfl
@[simp] theorem result_setCurrentPlayer (g : Game) (i : Nat) : (g.setCurrentPlayer i).result = g.result := rfl
@[simp] theorem result_resetAllAllowed (g : Game) : g.resetAllAllowed.result = g.result := rfl
@[simp] theorem result_resetAllPlayerStatus (g : Game) : g.resetAllPlayerStatus.result = g.result := rfl
@[simp] theorem result_resetRoundStatus (g : Game) : g.resetRoundStatus.result = g.result := rfl
@[simp] theorem result_resetActed (g : Game) : g.resetActed.result = g.result := rfl
@[simp] theorem result_setActed (g : Game) (i : Nat) : (g.setActed i).result = g.result := rfl
@[simp] theorem result_updatePots (g : Game) : g.updatePots.result = g.result := rfl
@[simp] theorem result_becomeRaiser (g : Game) (i : Nat) : (g.becomeRaiser i).result = g.result := rfl
@[simp] theorem result_advance (g : Game) (k : Nat) : (g.advance k).result = g.result := rfl
@[simp] theorem result_burn (g : Game) (k : Nat) : (g.burn k).result = g.result := rfl
@[simp] theorem result_dealBoard (g : Game) (k : Nat) : (g.dealBoard k).result = g.result := rfl
@[simp] theorem result_dealHole (g : Game) (i : Nat) : (g.dealHole i).result = g.result := rfl
@[simp] theorem result_updateCombinations (g : Game) : g.updateCombinations.result = g.result := rfl

@[simp] theorem result_dealHoles : ∀ (k i : Nat) (g : Game), (dealHoles k i g).result = g.result
  | 0, _, _ => rfl
  | k + 1, i, g => by rw [dealHoles, result_dealHoles k]; rfl

@[simp] theorem result_payAllin (g : Game) (i : Nat) (p : Player) (w : Bool) : (g.payAllin i p w).result = g.result := by
  unfold payAllin
  dsimp only
  repeat' split
  all_goals simp

@[simp] theorem result_payPart (g : Game) (i : Nat) (p : Player) (c : Int) (w : Bool) :
    (g.payPart i p c w).result = g.result := by
  unfold payPart
  dsimp only
  split <;> simp

@[simp] theorem result_pay (g : Game) (i : Nat) (chips : Int) (w : Bool) : (g.pay i chips w).result = g.result := by
  unfold pay
  split
  · rfl
  · split <;> simp

@[simp] theorem result_roundClosed (g : Game) : g.roundClosed.result = g.result := rfl

@[simp] theorem result_requestPlayerAction (g : Game) : g.requestPlayerAction.result = g.result := by
  unfold requestPlayerAction
  repeat' split
  all_goals simp

@[simp] theorem result_requestReady (g : Game) : g.requestReady.result = g.result := rfl

@[simp] theorem result_prepareRound (g : Game) : g.prepareRound.result = g.result := by
  unfold prepareRound
  repeat' split
  all_goals simp

@[simp] theorem result_requestBlinds (g : Game) : g.requestBlinds.result = g.result := by
  unfold requestBlinds
  split <;> simp

@[simp] theorem result_afterRoundInitialized (g : Game) : g.afterRoundInitialized.result = g.result := by
  unfold afterRoundInitialized
  split <;> simp

@[simp] theorem result_dealStreet (g : Game) : g.dealStreet.result = g.result := by
  unfold dealStreet
  split <;> simp

@[simp] theorem result_initializeRound (g : Game) : g.initializeRound.result = g.result := by
  simp [initializeRound]

@[simp] theorem result_enterRound (g : Game) (r : Round) : (g.enterRound r).result = g.result := by
  simp [enterRound]

@[simp] theorem result_seekBB : ∀ (k : Nat) (g : Game), (seekBB k g).result = g.result
  | 0, g => rfl
  | k + 1, g => by
    unfold seekBB
    split
    · split
      · simp
      · rw [result_seekBB k]; simp
    · simp

@[simp] theorem result_openRound (g : Game) : g.openRound.result = g.result := by simp [openRound]

@[simp] theorem result_startRound' (g : Game) : g.startRound'.result = g.result := by
  unfold startRound'
  repeat' split
  all_goals simp

@[simp] theorem result_startRound (g : Game) : g.startRound.result = g.result := by simp [startRound]

@[simp] theorem result_resume (g : Game) : g.resume.result = g.result := by
  unfold resume
  split <;> simp

@[simp] theorem result_payAnteLoop : ∀ (is : List Nat) (g : Game), (payAnteLoop is g).1.result = g.result
  | [], g => rfl
  | i :: is, g => by
    unfold payAnteLoop
    split
    · rfl
    · split
      · rfl
      · rw [result_payAnteLoop is]; simp

@[simp] theorem result_payBlind (g : Game) (i : Nat) : (g.payBlind i).result = g.result := by
  unfold payBlind
  split <;> simp

@[simp] theorem result_foldl_payBlind : ∀ (is : List Nat) (g : Game), (is.foldl payBlind g).result = g.result
  | [], g => rfl
  | i :: is, g => by simp [List.foldl_cons, result_foldl_payBlind is]

@[simp] theorem result_blindsPaid (g : Game) : g.blindsPaid.result = g.result := by simp [blindsPaid]
@[simp] theorem result_antePaid (g : Game) : g.antePaid.result = g.result := by simp [antePaid]
@[simp] theorem result_doCall (g : Game) (i : Nat) : (g.doCall i).result = g.result := by
  unfold doCall; split <;> simp
@[simp] theorem result_doAllin (g : Game) (i : Nat) : (g.doAllin i).result = g.result := by
  unfold doAllin; split
  · rfl
  · simp only [result_resume, result_pay]; split <;> simp
@[simp] theorem result_doFold (g : Game) (i : Nat) : (g.doFold i).result = g.result := by simp [doFold]
@[simp] theorem result_doBet (g : Game) (i : Nat) (x : Int) : (g.doBet i x).result = g.result := by simp [doBet]
@[simp] theorem result_doRaise (g : Game) (i : Nat) (p : Player) (x : Int) : (g.doRaise i p x).result = g.result := by
  simp [doRaise]

/-- Every operation either leaves `Result` untouched or ends with `gameCompleted` applied to a
    state whose street is not `none`. -/
theorem step_result_or_completed (g : Game) (op : Op) :
    (g.step op).1.result = g.result ∨
      ∃ g0 : Game, g0.round ≠ .none ∧ (g.step op).1 = g0.gameCompleted := by
  have hact : ∀ i a x, (g.act i a x).1.result = g.result := by
    intro i a x
    unfold act
    repeat' split
    all_goals simp
  cases op with
  | ready =>
    left
    simp only [step, readyForAll]
    split
    · rfl
    · simp only [readiness]
      repeat' split
      all_goals simp
  | payAnte =>
    left
    simp only [step, payAnte]
    split
    · rfl
    · split
      · rfl
      · split
        · next g' e h =>
          have := result_payAnteLoop g.seatsFromDealer g
          rw [h] at this
          exact this
        · next g' h =>
          have := result_payAnteLoop g.seatsFromDealer g
          rw [h] at this
          simpa using this
  | payBlinds =>
    left
    simp only [step, payBlinds]
    split
    · rfl
    · simp
  | next =>
    simp only [step, next]
    split
    · left; rfl
    · split
      · left; rfl
      · next hr =>
        have hr' : g.resetRoundStatus.resetAllPlayerStatus.round ≠ .none := hr
        simp only [nextRound, nextRound']
        split
        · right; exact ⟨_, hr', rfl⟩
        · split
          · left; simp
          · left; simp
          · left; simp
          · right; exact ⟨_, hr', rfl⟩
          · left; simp
  | act seat a x =>
    cases seat with
    | none => left; exact hact _ _ _
    | some i => left; exact hact _ _ _

end Game
end Pokerface
