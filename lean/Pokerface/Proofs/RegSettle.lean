/-
  Lemmas for C20: fixed points of `SyncState`, direction of the moves.
-/
import Pokerface.Proofs.RegProps

namespace Pokerface
namespace Reg

theorem syncBase_zero (r : Reg) (t : Nat) : syncBase r t 0 = r.beginOp [] := by
  have hf : (fun t : RTable => { t with count := t.count - 0 }) = adj 0 none := by
    funext t; simp [adj]
  unfold syncBase
  rw [setTable_eq, hf, upd_adj_zero]
  simp only [Int.sub_zero]
  rfl

theorem sumCount_cons (t : RTable) (ts : List RTable) : sumCount (t :: ts) = t.count + sumCount ts := by
  simp [sumCount]

/-- the counts split into those at or below a level and those above it -/
theorem sumCount_partition (ts : List RTable) (wl : Int) :
    sumCount ts = sumCount (ts.filter fun t => decide (t.count ≤ wl)) +
      ((ts.filter fun t => !decide (t.count ≤ wl)).map (·.count)).sum := by
  induction ts with
  | nil => rfl
  | cons t ts ih =>
    by_cases h : t.count ≤ wl
    · simp only [List.filter_cons, h, decide_true, if_true, Bool.not_true, Bool.false_eq_true, if_false,
        sumCount_cons]
      omega
    · simp only [List.filter_cons, h, decide_false, Bool.false_eq_true, if_false, Bool.not_false, if_true,
        sumCount_cons, List.map_cons, List.sum_cons]
      omega

theorem mul_length_le_sumCount (ts : List RTable) (c : Int) (h : ∀ t ∈ ts, c ≤ t.count) :
    c * (ts.length : Int) ≤ sumCount ts := by
  induction ts with
  | nil => simp [sumCount]
  | cons t ts ih =>
    have h1 := h t (List.mem_cons_self ..)
    have h2 := ih (fun t' ht' => h t' (List.mem_cons_of_mem _ ht'))
    rw [sumCount_cons, List.length_cons]
    have : c * ((ts.length + 1 : Nat) : Int) = c * (ts.length : Int) + c := by
      rw [Int.natCast_add, Int.mul_add]; simp
    omega

/-- in a balanced state the release loop stops before releasing anybody -/
theorem lowerWaterLevelReached_of_balanced (r : Reg) (hreq : 0 < r.requiredTables)
    (hlen : r.requiredTables = (r.tables.length : Int))
    (hpc : sumCount r.tables ≤ r.playerCount)
    (hfl : ∀ tb ∈ r.tables, r.playerCount / r.requiredTables ≤ tb.count) :
    r.lowerWaterLevelReached (r.playerCount / r.requiredTables) = true := by
  unfold lowerWaterLevelReached
  simp only
  have hpart := sumCount_partition r.tables (r.playerCount / r.requiredTables)
  generalize hlow : (r.tables.filter fun t => decide (t.count ≤ r.playerCount / r.requiredTables)) = low at *
  generalize hhigh : ((r.tables.filter fun t => !decide (t.count ≤ r.playerCount / r.requiredTables)).map (·.count)).sum = hs at *
  have hlowge : r.playerCount / r.requiredTables * (low.length : Int) ≤ sumCount low := by
    apply mul_length_le_sumCount
    intro t ht
    rw [← hlow] at ht
    exact hfl t (List.mem_filter.1 ht).1
  split
  · rename_i h0
    -- every table is above the floor: impossible, the floor is the floor of the average
    exfalso
    have hl0 : low = [] := List.length_eq_zero_iff.1 (by omega)
    have hall : ∀ t ∈ r.tables, r.playerCount / r.requiredTables + 1 ≤ t.count := by
      intro t ht
      by_cases hle : t.count ≤ r.playerCount / r.requiredTables
      · have : t ∈ low := by rw [← hlow]; exact List.mem_filter.2 ⟨ht, by simpa using hle⟩
        rw [hl0] at this; cases this
      · omega
    have h1 := mul_length_le_sumCount r.tables _ hall
    rw [← hlen] at h1
    have h2 : r.playerCount / r.requiredTables < r.playerCount / r.requiredTables + 1 := by omega
    rw [Int.ediv_lt_iff_lt_mul hreq] at h2
    omega
  · simp only [decide_eq_true_eq]
    omega

/-- a balanced regulator state is a fixed point of `SyncState(t, 0)` for every table `t` -/
theorem syncState_stable (r : Reg) (t : Nat) (t0 : RTable) (hf : r.findTable t = some t0)
    (hlen : r.tableCount = r.tables.length) (hT : r.tableCount = r.requiredTables)
    (hpc : r.playerCount = sumCount r.tables)
    (hfl : ∀ tb ∈ r.tables, r.playerCount / r.requiredTables ≤ tb.count) :
    r.syncState t 0 = (r.beginOp [], none, 0, []) := by
  obtain ⟨ht0, _⟩ := findTable_some hf
  have e1 : (r.beginOp []).requiredTables = r.requiredTables := rfl
  have e2 : (r.beginOp []).tableCount = r.tableCount := rfl
  have e3 : (r.beginOp []).playerCount = r.playerCount := rfl
  rw [syncState_eq, hf]
  simp only
  rw [syncBase_zero]
  generalize hb : r.beginOp [] = b at *
  have hbt : b.tables = r.tables := by rw [← hb]; rfl
  have hbq : b.queue = r.queue := by rw [← hb]; rfl
  rw [Int.sub_zero]
  split
  · rename_i h; omega
  · split
    · rfl
    · rename_i hreq
      have hreq' : 0 < r.requiredTables := by omega
      split
      · rename_i hlow
        split
        · rename_i h; omega
        · have h1 := hfl t0 ht0
          have h2 : t0.count ≤ b.playerCount / b.requiredTables := le_floor_of_mul_lt (by omega) hlow
          rw [e1, e3] at h2
          have hz : b.playerCount / b.requiredTables - t0.count = 0 := by rw [e1, e3]; omega
          rw [take_norm, hz]
          simp only [Int.toNat_zero, List.take_zero, List.length_nil, List.drop_zero, Int.natCast_zero,
            Int.sub_zero, Int.lt_irrefl, gt_iff_lt, if_false, upd_adj_zero]
      · split
        · have hstop : b.lowerWaterLevelReached (b.playerCount / b.requiredTables) = true := by
            rw [← hb]
            exact lowerWaterLevelReached_of_balanced r hreq' (by omega) (by omega) hfl
          cases hk : (t0.count - b.playerCount / b.requiredTables).toNat with
          | zero => rfl
          | succ k =>
            rw [releaseLoop, if_pos hstop]
            rfl
        · rfl

theorem breakTable_find (b : Reg) (t : Nat) : (b.breakTable t).findTable t = none := by
  simp only [breakTable, findTable]
  rw [List.find?_eq_none]
  intro x hx
  have := (List.mem_filter.1 hx).2
  simpa using this

/-- direction of the moves ordered by `SyncState` (no invariant needed) -/
theorem syncState_directed (r : Reg) (t : Nat) (out : Int) (t0 : RTable) (hf : r.findTable t = some t0) :
    ((r.syncState t out).1.findTable t ≠ none → 0 < (r.syncState t out).2.2.1 →
        r.playerCount - out < (t0.count - out) * ceilDiv (r.playerCount - out) r.max ∧
        (r.playerCount - out) / ceilDiv (r.playerCount - out) r.max ≤ t0.count - out - (r.syncState t out).2.2.1) ∧
    ((r.syncState t out).2.2.2 ≠ [] →
        (t0.count - out) * ceilDiv (r.playerCount - out) r.max < r.playerCount - out ∧
        t0.count - out + ((r.syncState t out).2.2.2.length : Int) ≤
          (r.playerCount - out) / ceilDiv (r.playerCount - out) r.max ∧
        (r.syncState t out).2.2.1 = 0) := by
  have e1 : (syncBase r t out).requiredTables = ceilDiv (r.playerCount - out) r.max := rfl
  have e3 : (syncBase r t out).playerCount = r.playerCount - out := rfl
  rw [syncState_eq, hf]
  simp only
  rw [e1, e3]
  generalize syncBase r t out = b
  generalize ceilDiv (r.playerCount - out) r.max = req
  generalize r.playerCount - out = pc1
  generalize t0.count - out = tc
  split
  · exact ⟨fun h => absurd (breakTable_find b t) h, fun h => absurd rfl h⟩
  · split
    · exact ⟨fun _ h => absurd h (Int.lt_irrefl 0), fun h => absurd rfl h⟩
    · rename_i hreq
      split
      · rename_i hlow
        split
        · exact ⟨fun h => absurd (breakTable_find b t) h, fun h => absurd rfl h⟩
        · refine ⟨fun _ h => absurd h (Int.lt_irrefl 0), fun hne => ⟨hlow, ?_, rfl⟩⟩
          simp only at hne ⊢
          have hl : (b.queue.take (pc1 / req - tc).toNat).length ≤ (pc1 / req - tc).toNat := by
            rw [List.length_take]; omega
          have hpos : 0 < (b.queue.take (pc1 / req - tc).toNat).length := List.length_pos_iff.2 hne
          omega
      · split
        · rename_i hhigh
          refine ⟨fun _ hpos => ⟨hhigh, ?_⟩, fun h => absurd rfl h⟩
          obtain ⟨j, hj, he⟩ := releaseLoop_spec (tc - pc1 / req).toNat t (pc1 / req) b 0
          rw [he] at hpos ⊢
          simp only at hpos ⊢
          omega
        · exact ⟨fun _ h => absurd h (Int.lt_irrefl 0), fun h => absurd rfl h⟩

/-- `dispatchPlayer` hands a table at most what it requires -/
theorem dispatchPlayer_directed {r r' : Reg} {cands rest : List Nat}
    (h : r.dispatchPlayer cands = some (rest, r')) (hb : r'.badChoice = false) :
    ∃ tb ∈ r.tables, 0 < tb.required ∧ ∃ picked, r'.calls = r.calls ++ [RCall.assign tb.id picked] ∧
      (picked.length : Int) ≤ tb.required ∧ cands = picked ++ rest := by
  unfold dispatchPlayer at h
  split at h
  · cases h
  · split at h
    · cases h; simp at hb
    · split at h
      · cases h; simp at hb
      · rename_i tb hft
        split at h
        · cases h; simp at hb
        · rename_i hreq
          simp only [Option.some.injEq, Prod.mk.injEq] at h
          obtain ⟨h1, h2⟩ := h
          subst h1 h2
          refine ⟨tb, (findTable_some hft).1, by omega, cands.take tb.required.toNat, rfl, ?_, ?_⟩
          · rw [List.length_take]; omega
          · simp

theorem applyCalls_ids (m : List (Nat × List Nat)) (cs : List RCall) (id : Nat)
    (h : id ∈ (Env.applyCalls m cs).map (·.1)) :
    id ∈ m.map (·.1) ∨ ∃ ps, RCall.requestTable id ps ∈ cs := by
  induction cs generalizing m with
  | nil => exact Or.inl h
  | cons c cs ih =>
    rcases ih (Env.applyCall m c) h with h1 | ⟨ps, h1⟩
    · cases c with
      | requestTable id' ps' =>
        simp only [Env.applyCall, List.map_append, List.map_cons, List.map_nil, List.mem_append,
          List.mem_cons, List.not_mem_nil, or_false] at h1
        rcases h1 with h1 | h1
        · exact Or.inl h1
        · subst h1; exact Or.inr ⟨ps', List.mem_cons_self ..⟩
      | assign t ps' =>
        left
        have : (Env.applyCall m (.assign t ps')).map (·.1) = m.map (·.1) := by
          simp only [Env.applyCall, List.map_map]
          apply List.map_congr_left
          intro e _
          simp only [Function.comp]
          split <;> rfl
        rw [this] at h1; exact h1
    · exact Or.inr ⟨ps, List.mem_cons_of_mem _ h1⟩

theorem mem_seatedOf {m : List (Nat × List Nat)} {p : Nat} :
    p ∈ seatedOf m ↔ ∃ e ∈ m, p ∈ e.2 := by
  simp only [seatedOf, List.mem_flatten, List.mem_map]
  constructor
  · rintro ⟨l, ⟨e, he, rfl⟩, hp⟩; exact ⟨e, he, hp⟩
  · rintro ⟨e, he, hp⟩; exact ⟨e.2, ⟨e, he, rfl⟩, hp⟩

end Reg
end Pokerface
