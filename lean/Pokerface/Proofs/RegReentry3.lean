/-
  RE-ENTRIES: table ids on the asynchronous domain `AReachableRe` — `AInv.step_ids`,
  `AInvN.of_reachable`, `gone_stays_gone` (Proofs/RegAsyncSettle.lean) for operations valid in the
  sense `ASys.okRe`.  Only a registration differs from `ASys.ok`, and the conclusions do not
  mention the ghost list `env.registered`: the `add` case is obtained from the old lemma applied
  to the same state with `registered := alive` (there "not alive" IS "not registered").
-/
import Pokerface.Proofs.RegReentry2

namespace Pokerface
open Reg

namespace ASys

theorem step_add_inflight (s : ASys) (ps ch : List Nat) : (s.step (.add ps ch)).inflight = s.inflight := by
  simp only [step]
  generalize s.r.addPlayers ps ch = p
  obtain ⟨r', e⟩ := p
  cases e <;> rfl

/-- the same state with the ghost list of registrations replaced by the alive players -/
def forgetReg (s : ASys) : ASys :=
  { r := s.r, env := { members := s.env.members, alive := s.env.alive, registered := s.env.alive },
    inflight := s.inflight }

/-- `AInv.step_ids` for operations valid with re-entries -/
theorem AInv.step_ids_re {s : ASys} (h : AInv s) (op : AOp) (hok : s.okRe op) :
    s.r.nextId ≤ (s.step op).r.nextId ∧
    (∀ t, t < s.r.nextId → s.r.findTable t = none → (s.step op).r.findTable t = none) ∧
    (AInvN s → AInvN (s.step op)) := by
  cases op with
  | status st ch => exact h.step_ids _ hok
  | sync t elim stay rel keep => exact h.step_ids _ hok
  | report t ps rest ch => exact h.step_ids _ hok
  | add ps ch =>
    have h0 : AInv (forgetReg s) :=
      ⟨h.wf, h.cnt, h.sim, h.cons, h.nodup, fun _ hp => hp, Nat.le_refl _⟩
    obtain ⟨a, b, c⟩ := h0.step_ids (.add ps ch) hok
    rw [step_add_r] at a b
    refine ⟨by rw [step_add_r]; exact a, by rw [step_add_r]; exact b, fun hn e he => ?_⟩
    have := c hn e (by rw [step_add_inflight]; rw [step_add_inflight] at he; exact he)
    rw [step_add_r] at this
    show e.1 < (s.step (.add ps ch)).r.nextId
    rw [step_add_r]; exact this

theorem AInvN.of_reachableRe {s : ASys} (h : AReachableRe s) : AInvN s := by
  induction h with
  | init max min _ => intro e he; cases he
  | step op hr hok ih => exact ((AInv.of_reachableRe hr).step_ids_re op hok).2.2 ih

/-- broken tables do not come back, along any script valid with re-entries -/
theorem gone_stays_gone_re : ∀ (ops : List AOp) (s : ASys), AInv s → s.allOkRe ops → ∀ t, t < s.r.nextId →
    s.env.membersOf t = none → (s.run ops).env.membersOf t = none ∧ t < (s.run ops).r.nextId := by
  intro ops
  induction ops with
  | nil => intro s _ _ t hlt hun; exact ⟨hun, hlt⟩
  | cons op ops ih =>
    intro s h hok t hlt hun
    obtain ⟨h1, h2, _⟩ := h.step_ids_re op hok.1
    have hS' := (h.step_full_re op hok.1).1
    have hun' : (s.step op).env.membersOf t = none :=
      (hS'.unknown_iff t).2 (h2 t hlt ((h.unknown_iff t).1 hun))
    exact ih (s.step op) hS' hok.2 t (by omega) hun'

end ASys
end Pokerface
