/-
  Basic lemmas about the seat-manager model: seat lookup after `modSeat` folds,
  `findActive`, `normalize`, counting.
-/
import Pokerface.Model.SeatManager
import Mathlib.Data.List.Rotate

namespace Pokerface
namespace SM

/-- Well-formedness: the seat list has exactly `max` entries. -/
def WF (sm : SM) : Prop := sm.seats.length = sm.max

/-! ### modSeat and folds of modSeat -/

@[simp] theorem modSeat_max (sm : SM) (i f) : (sm.modSeat i f).max = sm.max := rfl
@[simp] theorem modSeat_dealer (sm : SM) (i f) : (sm.modSeat i f).dealer = sm.dealer := rfl
@[simp] theorem modSeat_sb (sm : SM) (i f) : (sm.modSeat i f).sb = sm.sb := rfl
@[simp] theorem modSeat_bb (sm : SM) (i f) : (sm.modSeat i f).bb = sm.bb := rfl
@[simp] theorem modSeat_length (sm : SM) (i f) : (sm.modSeat i f).seats.length = sm.seats.length := by
  simp [modSeat]

theorem modSeat_seats (sm : SM) (i f j) :
    (sm.modSeat i f).seats[j]? = if i = j then (sm.seats[j]?).map f else sm.seats[j]? := by
  simp only [modSeat, List.getElem?_modify]
  split <;> simp

/-- Fold of `modSeat` over a list of ids (the shape of every loop of the Go code that touches seats). -/
def modAll (sm : SM) (ids : List Nat) (f : Seat → Seat) : SM :=
  ids.foldl (fun sm i => sm.modSeat i f) sm

@[simp] theorem modAll_nil (sm : SM) (f) : sm.modAll [] f = sm := rfl
@[simp] theorem modAll_cons (sm : SM) (i ids f) : sm.modAll (i :: ids) f = (sm.modSeat i f).modAll ids f := rfl

@[simp] theorem modAll_max (sm : SM) (ids f) : (sm.modAll ids f).max = sm.max := by
  induction ids generalizing sm <;> simp_all
@[simp] theorem modAll_dealer (sm : SM) (ids f) : (sm.modAll ids f).dealer = sm.dealer := by
  induction ids generalizing sm <;> simp_all
@[simp] theorem modAll_sb (sm : SM) (ids f) : (sm.modAll ids f).sb = sm.sb := by
  induction ids generalizing sm <;> simp_all
@[simp] theorem modAll_bb (sm : SM) (ids f) : (sm.modAll ids f).bb = sm.bb := by
  induction ids generalizing sm <;> simp_all
@[simp] theorem modAll_length (sm : SM) (ids f) : (sm.modAll ids f).seats.length = sm.seats.length := by
  induction ids generalizing sm <;> simp_all

/-- Seat lookup after a fold with an idempotent seat update. -/
theorem modAll_seats (sm : SM) (ids : List Nat) (f : Seat → Seat) (hf : ∀ s, f (f s) = f s) (j : Nat) :
    (sm.modAll ids f).seats[j]? = if j ∈ ids then (sm.seats[j]?).map f else sm.seats[j]? := by
  induction ids generalizing sm with
  | nil => simp
  | cons i ids ih =>
    rw [modAll_cons, ih, modSeat_seats]
    by_cases hij : i = j
    · subst hij
      cases h : sm.seats[i]? <;> simp [hf]
    · have : ¬ j = i := fun h => hij h.symm
      simp [hij, this]

theorem activate_eq_modAll (sm : SM) (ids : List Nat) :
    sm.activate ids = sm.modAll ids (fun s => { s with active := true }) := rfl

/-! ### playable -/

theorem playable_eq (sm : SM) (i : Nat) :
    sm.playable i = match sm.seats[i]? with
      | some s => s.active && !s.reserved && s.player.isSome
      | none => false := rfl

theorem playable_lt {sm : SM} (h : sm.WF) {i : Nat} (hp : sm.playable i = true) : i < sm.max := by
  unfold playable at hp
  split at hp
  · next s hs =>
    have := (List.getElem?_eq_some_iff.mp hs).1
    rw [← h]; exact this
  · cases hp

/-- Two states with the same seat at `i` agree on `playable i`. -/
theorem playable_congr {sm sm' : SM} {i : Nat} (h : sm'.seats[i]? = sm.seats[i]?) :
    sm'.playable i = sm.playable i := by
  simp [playable, h]

/-! ### findActive -/

theorem findActive_go_some (sm : SM) (ids : List Nat) (k0 i k : Nat) :
    findActive.go sm ids k0 = some (i, k) ↔
      ∃ k', k = k0 + k' ∧ ids[k']? = some i ∧ sm.playable i = true ∧
        ∀ j, j < k' → ∀ x, ids[j]? = some x → sm.playable x = false := by
  induction ids generalizing k0 with
  | nil => simp [findActive.go]
  | cons a ids ih =>
    unfold findActive.go
    by_cases ha : sm.playable a = true
    · simp only [ha, if_true, Option.some.injEq, Prod.mk.injEq]
      constructor
      · rintro ⟨rfl, rfl⟩
        exact ⟨0, by simp, by simp, ha, by intro j hj; omega⟩
      · rintro ⟨k', hk, hget, _, hall⟩
        cases k' with
        | zero => simp at hget; exact ⟨hget, by omega⟩
        | succ k' =>
          have := hall 0 (by omega) a (by simp)
          simp [ha] at this
    · simp only [ha, if_false, Bool.false_eq_true]
      rw [ih]
      constructor
      · rintro ⟨k', hk, hget, hp, hall⟩
        refine ⟨k' + 1, by omega, by simpa using hget, hp, ?_⟩
        intro j hj x hx
        cases j with
        | zero => simp at hx; subst hx; simpa using ha
        | succ j => exact hall j (by omega) x (by simpa using hx)
      · rintro ⟨k', hk, hget, hp, hall⟩
        cases k' with
        | zero => simp at hget; subst hget; exact absurd hp ha
        | succ k' =>
          refine ⟨k', by omega, by simpa using hget, hp, ?_⟩
          intro j hj x hx
          exact hall (j + 1) (by omega) x (by simpa using hx)

theorem findActive_some (sm : SM) (ids : List Nat) (i k : Nat) :
    sm.findActive ids = some (i, k) ↔
      ids[k]? = some i ∧ sm.playable i = true ∧
        ∀ j, j < k → ∀ x, ids[j]? = some x → sm.playable x = false := by
  unfold findActive
  rw [findActive_go_some]
  constructor
  · rintro ⟨k', hk, h⟩
    have : k = k' := by omega
    subst this; exact h
  · intro h; exact ⟨k, by omega, h⟩

theorem findActive_go_none (sm : SM) (ids : List Nat) (k0 : Nat) :
    findActive.go sm ids k0 = none ↔ ∀ x ∈ ids, sm.playable x = false := by
  induction ids generalizing k0 with
  | nil => simp [findActive.go]
  | cons a ids ih =>
    unfold findActive.go
    by_cases ha : sm.playable a = true
    · simp [ha]
    · simp only [ha, if_false, Bool.false_eq_true]
      rw [ih]
      simp at ha
      simp [ha]

theorem findActive_none (sm : SM) (ids : List Nat) :
    sm.findActive ids = none ↔ ∀ x ∈ ids, sm.playable x = false := by
  unfold findActive; exact findActive_go_none sm ids 0

/-- `findActive` only looks at `playable`. -/
theorem findActive_congr {sm sm' : SM} (ids : List Nat)
    (h : ∀ x ∈ ids, sm'.playable x = sm.playable x) : sm'.findActive ids = sm.findActive ids := by
  unfold findActive
  generalize 0 = k0
  induction ids generalizing k0 with
  | nil => simp [findActive.go]
  | cons a ids ih =>
    unfold findActive.go
    rw [h a (by simp), ih (fun x hx => h x (by simp [hx]))]

theorem findActive_some_of_countP_pos (sm : SM) (ids : List Nat) (h : 0 < ids.countP sm.playable) :
    ∃ i k, sm.findActive ids = some (i, k) := by
  cases hf : sm.findActive ids with
  | some p => exact ⟨p.1, p.2, rfl⟩
  | none =>
    rw [findActive_none] at hf
    have : ids.countP sm.playable = 0 := by
      rw [List.countP_eq_zero]; intro x hx; simp [hf x hx]
    omega

/-- When the first playable seat sits at index `k`, the part before it holds no playable seat. -/
theorem countP_drop_of_findActive {sm : SM} {ids : List Nat} {i k : Nat}
    (h : sm.findActive ids = some (i, k)) :
    (ids.drop k).countP sm.playable = ids.countP sm.playable := by
  rw [findActive_some] at h
  obtain ⟨_, _, hall⟩ := h
  conv => rhs; rw [← List.take_append_drop k ids]
  rw [List.countP_append]
  have : (ids.take k).countP sm.playable = 0 := by
    rw [List.countP_eq_zero]
    intro x hx
    obtain ⟨j, hj, rfl⟩ := List.getElem_of_mem hx
    have hj' : j < k := by simp at hj; omega
    have hjl : j < ids.length := by simp at hj; omega
    have := hall j hj' ids[j] (List.getElem?_eq_getElem hjl)
    simp [List.getElem_take, this]
  omega

theorem countP_drop_one_ge (p : Nat → Bool) (l : List Nat) : l.countP p ≤ (l.drop 1).countP p + 1 := by
  cases l with
  | nil => simp
  | cons a l => simp [List.countP_cons]; split <;> omega

/-! ### normalize -/

@[simp] theorem normalize_length (sm : SM) (d : Nat) : (sm.normalize d).length = sm.max := by
  simp [normalize]

theorem normalize_getElem? (sm : SM) (d k : Nat) :
    (sm.normalize d)[k]? = if k < sm.max then some ((d + k) % sm.max) else none := by
  simp only [normalize, List.getElem?_map]
  by_cases hk : k < sm.max
  · simp [hk]
  · simp [hk]

theorem normalize_drop_getElem? (sm : SM) (d a k : Nat) :
    ((sm.normalize d).drop a)[k]? = if a + k < sm.max then some ((d + (a + k)) % sm.max) else none := by
  rw [List.getElem?_drop, normalize_getElem?]

theorem normalize_eq_rotate (sm : SM) (d : Nat) : sm.normalize d = (List.range sm.max).rotate d := by
  apply List.ext_getElem
  · simp
  · intro k h1 h2
    rw [List.getElem_rotate]
    simp [normalize, Nat.add_comm]

theorem normalize_perm (sm : SM) (d : Nat) : (sm.normalize d).Perm (List.range sm.max) := by
  rw [normalize_eq_rotate]; exact List.rotate_perm _ _

theorem mem_normalize (sm : SM) (d i : Nat) : i ∈ sm.normalize d ↔ i < sm.max := by
  rw [(normalize_perm sm d).mem_iff]; simp

theorem normalize_nodup (sm : SM) (d : Nat) : (sm.normalize d).Nodup := by
  rw [(normalize_perm sm d).nodup_iff]; exact List.nodup_range

theorem playableCount_eq_countP (sm : SM) : sm.playableCount = (List.range sm.max).countP sm.playable := by
  simp [playableCount, List.countP_eq_length_filter]

theorem playableCount_eq_normalize (sm : SM) (d : Nat) :
    sm.playableCount = (sm.normalize d).countP sm.playable := by
  rw [playableCount_eq_countP, (normalize_perm sm d).countP_eq]

/-- Offsets are injective below `max`. -/
theorem offset_inj {m d j k : Nat} (hj : j < m) (hk : k < m) (h : (d + j) % m = (d + k) % m) : j = k := by
  let sm : SM := { max := m, seats := [] }
  have hnd := normalize_nodup sm d
  have e1 : (sm.normalize d)[j]? = some ((d + j) % m) := by rw [normalize_getElem?]; simp [sm, hj]
  have e2 : (sm.normalize d)[k]? = some ((d + k) % m) := by rw [normalize_getElem?]; simp [sm, hk]
  have hjl : j < (sm.normalize d).length := by simp [sm, hj]
  have hkl : k < (sm.normalize d).length := by simp [sm, hk]
  rw [List.getElem?_eq_getElem hjl] at e1
  rw [List.getElem?_eq_getElem hkl] at e2
  have : (sm.normalize d)[j] = (sm.normalize d)[k] := by
    simp at e1 e2; rw [e1, e2, h]
  exact (List.Nodup.getElem_inj_iff hnd).mp this

end SM
end Pokerface
