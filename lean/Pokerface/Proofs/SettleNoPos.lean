import Pokerface.Proofs.SettleTotal
/-
  Zero sum and the lower bound of a showdown WITHOUT assuming that non-folded scores are positive.

  `GameIn` (SettleSeats) carries the field `pos` (non-folded score > 0), needed for the statements about
  folded players and ties (C02).  The engine's `Combination.Power` of a non-folded player is not known to
  be positive for arbitrary power tables, and C01's closing identities (`total_zero_sum`, `total_lower`)
  do not need it.  Here they are re-proved from `GameIn0` = `GameIn` minus `pos`.

  Lemmas whose conclusion does not mention `rows` are reused through the auxiliary rows `rows1 rows`
  (same idx / bankroll / folded flag, score 1), for which `GameIn` holds; those whose statement mentions
  `rows` are copied from SettleSeats / SettleTotal with a `0` suffix (the proofs never used `pos`).
-/
namespace Pokerface

variable {es : List (Nat × Int × Bool)} {rows : List Row}

/-- `GameIn` without the positivity of non-folded scores. -/
structure GameIn0 (es : List (Nat × Int × Bool)) (rows : List Row) : Prop where
  nodup : (es.map (·.1)).Nodup
  nonneg : ∀ e ∈ es, 0 ≤ e.2.1
  same : rows.map (fun r => (r.1, r.2.2.1)) = es.map (fun e => (e.1, e.2.2))

theorem GameIn.toGameIn0 (g : GameIn es rows) : GameIn0 es rows := ⟨g.nodup, g.nonneg, g.same⟩

/-- The same rows with every score replaced by 1. -/
def rows1 (rows : List Row) : List Row := rows.map (fun r => (r.1, r.2.1, r.2.2.1, (1 : Int)))

namespace GameIn0

/-- Carrier for the `rows`-independent lemmas of `GameIn`. -/
theorem aux (g : GameIn0 es rows) : GameIn es (rows1 rows) where
  nodup := g.nodup
  nonneg := g.nonneg
  same := by rw [← g.same, rows1, List.map_map]; rfl
  pos := by
    intro r hr _
    obtain ⟨r', _, rfl⟩ := List.mem_map.1 hr
    exact Int.one_pos

theorem idx_eq (g : GameIn0 es rows) : rows.map (·.1) = es.map (·.1) := by
  have := congrArg (List.map (fun x : Nat × Bool => x.1)) g.same
  simpa [List.map_map, Function.comp_def] using this

theorem rows_nodup (g : GameIn0 es rows) : (rows.map (·.1)).Nodup := g.idx_eq ▸ g.nodup

theorem scoredRows_keys (_g : GameIn0 es rows) (C : List Nat) :
    (scoredRows rows C).map (·.1) = (rows.map (·.1)).filter (fun i => C.contains i) := by
  simp only [scoredRows, List.map_map, List.filter_map, Function.comp_def]

/-- Copy of `GameIn.level_wf`. -/
theorem level_wf0 (g : GameIn0 es rows) {l : Level} (hl : l ∈ (llOf es).levels) :
    LevelWF (scoredRows rows l.contributors) (toInfo rows l) := by
  have hnd : ((scoredRows rows l.contributors).map (·.1)).Nodup := by
    rw [g.scoredRows_keys]; exact g.rows_nodup.sublist List.filter_sublist
  have hperm : ((scoredRows rows l.contributors).map (·.1)).Perm l.contributors := by
    rw [List.perm_ext_iff_of_nodup hnd ((g.aux.level_contributors_sorted hl).imp (fun {a b} hab => by omega))]
    intro i
    rw [g.scoredRows_keys]
    simp only [List.mem_filter, List.contains_eq_mem, decide_eq_true_eq]
    constructor
    · exact fun h => h.2
    · intro h
      refine ⟨?_, h⟩
      obtain ⟨c, f, hm, _⟩ := (g.aux.mem_level hl i).1 h
      rw [g.idx_eq]
      exact List.mem_map.2 ⟨_, hm, rfl⟩
  refine ⟨rfl, hperm, hnd, ?_, (g.aux.level_facts hl).1, (g.aux.level_facts hl).2⟩
  obtain ⟨i, c, f, he, hc⟩ := g.aux.level_ne hl
  have : i ∈ l.contributors := (g.aux.mem_level hl i).2 ⟨c, f, he, by omega⟩
  intro hnil
  have := hperm.symm.subset this
  rw [hnil] at this
  simp at this

end GameIn0

/-! ### copies of the `rows`-dependent lemmas of SettleSeats / SettleTotal -/

theorem exists_update0 (g : GameIn0 es rows) {l : Level} (hl : l ∈ (llOf es).levels) (o : Int) {i : Nat}
    (hi : i ∈ l.contributors) :
    ∃ d, (i, d) ∈ levelUpdates (toInfo rows l) o ∧ net (levelUpdates (toInfo rows l) o) i = d := by
  have hk := levelUpdates_keys (g.level_wf0 hl) o
  have : i ∈ (levelUpdates (toInfo rows l) o).map (·.1) := hk.symm.subset hi
  obtain ⟨⟨j, d⟩, hu, rfl⟩ := List.mem_map.1 this
  refine ⟨d, hu, net_of_mem_nodup _ ?_ hu⟩
  exact hk.symm.nodup ((g.aux.level_contributors_sorted hl).imp (fun {a b} hab => by omega))

theorem net_not_contributor0 (g : GameIn0 es rows) {l : Level} (hl : l ∈ (llOf es).levels) (o : Int) {i : Nat}
    (hi : i ∉ l.contributors) : net (levelUpdates (toInfo rows l) o) i = 0 := by
  apply net_eq_zero
  intro h
  exact hi ((levelUpdates_keys (g.level_wf0 hl) o).subset h)

theorem net_bounds0 (g : GameIn0 es rows) {l : Level} (hl : l ∈ (llOf es).levels) (o : Int) (ho : 0 ≤ o) {i : Nat}
    (hi : i ∈ l.contributors) :
    -l.wager ≤ net (levelUpdates (toInfo rows l) o) i ∧
      net (levelUpdates (toInfo rows l) o) i ≤ l.total - l.wager := by
  obtain ⟨d, hu, hd⟩ := exists_update0 g hl o hi
  rw [hd]
  exact levelUpdates_bounds (g.level_wf0 hl) o ho _ hu

theorem all_wf0 (g : GameIn0 es rows) :
    ∀ ls ∈ (potsOf es).map (fun p => p.levels.map (toInfo rows)), ∀ li ∈ ls, ∃ xs, LevelWF xs li := by
  intro ls hls li hli
  obtain ⟨l, hl, rfl⟩ := mem_all_levels hls hli
  exact ⟨_, g.level_wf0 hl⟩

theorem chg_eq_net0 (g : GameIn0 es rows) {i : Nat} (hi : i ∈ es.map (·.1)) :
    chg (gameResults (potsOf es) rows).players i = net (allUpdates es rows) i := by
  rw [players_eq, chg_bumpAll _ _ _ (by simpa [List.map_map, Function.comp_def, ← g.idx_eq] using hi), chg_zero]
  omega

theorem chg_ge0 (g : GameIn0 es rows) {i : Nat} (hi : i ∈ es.map (·.1)) (f : Level → Int)
    (hf : ∀ l ∈ (llOf es).levels, ∀ o, 0 ≤ o → f l ≤ net (levelUpdates (toInfo rows l) o) i) :
    ((llOf es).levels.map f).sum ≤ chg (gameResults (potsOf es) rows).players i := by
  rw [chg_eq_net0 g hi, allUpdates]
  have := net_all_ge _ i (fun li => f (ofInfo li)) (all_wf0 g) (by
    intro ls hls li hli o ho
    obtain ⟨l, hl, rfl⟩ := mem_all_levels hls hli
    exact hf l hl o ho)
  rw [all_levels, List.map_map] at this
  exact this

/-! ### the results -/

/-- `total_zero_sum` without positivity of scores: the `changed` amounts of a showdown add up to 0. -/
theorem total_zero_sum0 (g : GameIn0 es rows) :
    ((gameResults (potsOf es) rows).players.map (·.changed)).sum = 0 := by
  rw [players_eq, sum_changed_bumpAll]
  · have h0 : ((rows.map (fun row => (⟨row.1, row.2.1, 0⟩ : PlayerResult))).map (·.changed)).sum = 0 := by
      simp only [List.map_map, Function.comp_def]
      exact pots_sum_map_zero rows
    rw [h0, allUpdates, sum_map_flatMap]
    have : ∀ ls ∈ (potsOf es).map (fun p => p.levels.map (toInfo rows)),
        ((potUpdates 0 ls).map (·.2)).sum = 0 :=
      fun ls hls => potUpdates_sum ls (all_wf0 g ls hls) 0 (Int.le_refl _)
    rw [List.map_congr_left this, pots_sum_map_zero]
    rfl
  · intro u hu
    rw [allUpdates] at hu
    obtain ⟨ls, hls, hu⟩ := List.mem_flatMap.1 hu
    obtain ⟨li, hli, hc⟩ := potUpdates_keys ls (all_wf0 g ls hls) 0 u hu
    obtain ⟨l, hl, rfl⟩ := mem_all_levels hls hli
    obtain ⟨c, f, he, _⟩ := (g.aux.mem_level hl u.1).1 hc
    simp only [List.map_map, Function.comp_def]
    rw [g.idx_eq]
    exact List.mem_map.2 ⟨_, he, rfl⟩

/-- `total_lower` without positivity of scores: nobody loses more than the own contribution. -/
theorem total_lower0 (g : GameIn0 es rows) {i : Nat} {c : Int} {f : Bool} (he : (i, c, f) ∈ es) :
    -c ≤ chg (gameResults (potsOf es) rows).players i := by
  have hi : i ∈ es.map (·.1) := List.mem_map.2 ⟨_, he, rfl⟩
  have := chg_ge0 g hi (fun l => - (if l.level ≤ c then l.wager else 0)) (by
    intro l hl o ho
    by_cases hc : l.level ≤ c
    · simp only [hc, if_true]
      exact (net_bounds0 g hl o ho ((mem_level_iff g.aux he hl).2 hc)).1
    · simp only [hc, if_false]
      rw [net_not_contributor0 g hl o (fun h => hc ((mem_level_iff g.aux he hl).1 h))]; omega)
  rw [sum_map_neg, sum_wager_upto_stake g.aux he] at this
  exact this

end Pokerface
