/-
  C20, the small bound: how the queue-draining half of the regulator moves the components of
  the potential (`dispatchPlayer`, `dispatchLoop`, `updateTableRequirements`, `allocateLoop`).
-/
import Pokerface.Proofs.RegSweepDefs

namespace Pokerface
namespace Reg

/-! ### dispatch -/

theorem dispatchPlayer_shape {r r' : Reg} {cands rest : List Nat} (hc : cands ≠ [])
    (h : r.dispatchPlayer cands = some (rest, r')) (hb : r'.badChoice = false) :
    ∃ t0 ∈ r.tables, ∃ k : Int, 1 ≤ k ∧ k ≤ t0.required ∧ (cands.length : Int) = rest.length + k ∧
      r'.tables = upd t0.id (give k) r.tables := by
  unfold dispatchPlayer at h
  split at h
  · cases h
  · split at h
    · cases h; simp at hb
    · split at h
      · cases h; simp at hb
      · rename_i t hft
        split at h
        · cases h; simp at hb
        · rename_i hreq
          obtain ⟨htm, hid⟩ := findTable_some hft
          simp only [Option.some.injEq, Prod.mk.injEq] at h
          obtain ⟨hrest, hr'⟩ := h
          subst hr' hrest
          have hlen : 0 < cands.length := List.length_pos_iff.2 hc
          refine ⟨t, htm, ((cands.take t.required.toNat).length : Int), ?_, ?_, ?_, ?_⟩
          · rw [List.length_take]; omega
          · rw [List.length_take]; omega
          · rw [List.length_take, List.length_drop]; omega
          · simp only [setTable_eq]
            rfl

/-- what a run of `dispatchLoop` does to the sums over the tables -/
structure DispTot (F : Int) (ts ts' : List RTable) (moved : Nat) : Prop where
  g : tot (gF F) ts' = tot (gF F) ts
  u : tot (uF F) ts' = tot (uF F) ts
  d : tot (dF F) ts' ≤ tot (dF F) ts
  r : tot rF ts' + moved = tot rF ts
  len : ts'.length = ts.length

theorem DispTot.refl (F : Int) (ts : List RTable) : DispTot F ts ts 0 := ⟨rfl, rfl, Nat.le_refl _, rfl, rfl⟩

theorem DispTot.trans {F : Int} {a b c : List RTable} {m n : Nat} (h1 : DispTot F a b m) (h2 : DispTot F b c n) :
    DispTot F a c (m + n) :=
  ⟨h2.g.trans h1.g, h2.u.trans h1.u, Nat.le_trans h2.d h1.d, by have := h1.r; have := h2.r; omega,
    h2.len.trans h1.len⟩

theorem dispatchPlayer_tot {r r' : Reg} {cands rest : List Nat} (hwf : WF r) (hc : cands ≠ [])
    (h : r.dispatchPlayer cands = some (rest, r')) (hb : r'.badChoice = false) (F : Int) :
    DispTot F r.tables r'.tables (cands.length - rest.length) ∧ rest.length ≤ cands.length := by
  obtain ⟨t0, ht0, k, hk1, hk2, hlen, htab⟩ := dispatchPlayer_shape hc h hb
  rw [htab]
  refine ⟨⟨?_, ?_, ?_, ?_, upd_length _ _ _⟩, by omega⟩
  · exact tot_upd_eq _ _ hwf.nodup ht0 rfl _ (gF_give F k t0)
  · exact tot_upd_eq _ _ hwf.nodup ht0 rfl _ (uF_give F k t0)
  · exact tot_upd_le _ _ hwf.nodup ht0 rfl _ (dF_give F k t0 (by omega))
  · have h1 := tot_upd rF r.tables hwf.nodup ht0 rfl (give k)
    have h2 := rF_give k t0 (by omega) hk2
    omega

theorem dispatchLoop_tot (fuel : Nat) : ∀ {cands rest : List Nat} {r r' : Reg}, WF r →
    dispatchLoop fuel cands r = (rest, r') → r'.badChoice = false → ∀ F : Int,
    DispTot F r.tables r'.tables (cands.length - rest.length) ∧ rest.length ≤ cands.length := by
  induction fuel with
  | zero =>
    intro cands rest r r' _ h _ F
    simp only [dispatchLoop, Prod.mk.injEq] at h
    obtain ⟨rfl, rfl⟩ := h
    rw [Nat.sub_self]; exact ⟨DispTot.refl _ _, Nat.le_refl _⟩
  | succ n ih =>
    intro cands rest r r' hwf h hb F
    rw [dispatchLoop] at h
    split at h
    · simp only [Prod.mk.injEq] at h
      obtain ⟨rfl, rfl⟩ := h
      rw [Nat.sub_self]; exact ⟨DispTot.refl _ _, Nat.le_refl _⟩
    · rename_i hcond
      simp only [not_or] at hcond
      have hne : cands ≠ [] := by simpa using hcond.1
      split at h
      · simp only [Prod.mk.injEq] at h
        obtain ⟨rfl, rfl⟩ := h
        rw [Nat.sub_self]; exact ⟨DispTot.refl _ _, Nat.le_refl _⟩
      · rename_i rest1 r1 hsome
        have hb1 : r1.badChoice = false := by
          cases hbb : r1.badChoice with
          | false => rfl
          | true =>
            rw [dispatchLoop_bad n rest1 r1 hbb] at h
            simp only [Prod.mk.injEq] at h
            rw [← h.2, hbb] at hb; cases hb
        obtain ⟨hwf1, _, _, _, _⟩ := dispatchPlayer_spec hwf hne hsome hb1
        obtain ⟨d1, l1⟩ := dispatchPlayer_tot hwf hne hsome hb1 F
        obtain ⟨d2, l2⟩ := ih hwf1 h hb F
        have e : cands.length - rest.length = (cands.length - rest1.length) + (rest1.length - rest.length) := by omega
        rw [e]
        exact ⟨d1.trans d2, by omega⟩

/-! ### `updateTableRequirements` -/

theorem ceilWl_le_flr_succ (r : Reg) (h : 0 ≤ r.requiredTables) : r.ceilWl ≤ flr r + 1 := by
  unfold flr ceilWl
  split
  · rename_i hpos
    have h1 : r.playerCount / r.requiredTables < r.playerCount / r.requiredTables + 1 := by omega
    rw [Int.ediv_lt_iff_lt_mul hpos] at h1
    have e1 : (r.playerCount / r.requiredTables + 1) * r.requiredTables =
        r.playerCount / r.requiredTables * r.requiredTables + r.requiredTables := by
      rw [Int.add_mul, Int.one_mul]
    have e2 : (r.playerCount / r.requiredTables + 1 + 1) * r.requiredTables =
        r.playerCount / r.requiredTables * r.requiredTables + r.requiredTables + r.requiredTables := by
      rw [Int.add_mul, Int.add_mul, Int.one_mul]
    have : (r.playerCount + r.requiredTables - 1) / r.requiredTables < r.playerCount / r.requiredTables + 1 + 1 := by
      rw [Int.ediv_lt_iff_lt_mul hpos, e2]
      omega
    omega
  · have : r.requiredTables = 0 := by omega
    rw [this]; simp

/-- firing `updateTableRequirements` with a level `C`, `F ≤ C ≤ F + 1`: every table is covered
    afterwards, `G` rises by at most one per table, the deficits are untouched -/
theorem setReq_tot (F C : Int) (h1 : F ≤ C) (h2 : C ≤ F + 1) (ts : List RTable)
    (hr : ∀ t ∈ ts, 0 ≤ t.required) :
    tot (gF F) (setReq C ts) ≤ tot (gF F) ts + ts.length ∧ tot (uF F) (setReq C ts) = 0 ∧
    tot (dF F) (setReq C ts) = tot (dF F) ts ∧ (setReq C ts).length = ts.length := by
  simp only [setReq, tot_map, List.length_map]
  refine ⟨?_, ?_, ?_, trivial⟩
  · apply tot_le_tot_add_len
    intro t _
    simp only [Function.comp, gF]
    split
    · simp only; omega
    · omega
  · apply tot_zero
    intro t ht
    have := hr t ht
    simp only [Function.comp, uF]
    split
    · simp only; split <;> omega
    · split <;> omega
  · apply tot_congr
    intro t _
    simp only [Function.comp, dF]
    split <;> rfl

/-! ### allocation -/

theorem openTable_tables (r : Reg) (wl : Int) (k : Nat) :
    ∃ t, (r.openTable wl k).tables = r.tables ++ [t] := ⟨_, rfl⟩

theorem allocateLoop_append (fuel : Nat) : ∀ (wl reqT : Int) (r : Reg),
    ∃ extra, (allocateLoop fuel wl reqT r).tables = r.tables ++ extra := by
  induction fuel with
  | zero => intro _ _ r; exact ⟨[], by simp [allocateLoop]⟩
  | succ n ih =>
    intro wl reqT r
    rw [allocateLoop_succ]
    split
    · split
      · exact ⟨[], by simp⟩
      · simp only
        split
        · exact ⟨_, rfl⟩
        · obtain ⟨extra, he⟩ := ih
            (((r.openTable (r.capWl wl) (r.pullCount wl).toNat).queue.length : Int) /
              (reqT - (r.openTable (r.capWl wl) (r.pullCount wl).toNat).tableCount)) reqT
            (r.openTable (r.capWl wl) (r.pullCount wl).toNat)
          obtain ⟨t, ht⟩ := openTable_tables r (r.capWl wl) (r.pullCount wl).toNat
          rw [he, ht, List.append_assoc]
          exact ⟨_, rfl⟩
    · exact ⟨[], by simp⟩

theorem allocateTables_append (r : Reg) : ∃ extra, r.allocateTables.tables = r.tables ++ extra := by
  rcases allocateTables_cases r with h | ⟨fuel, wl, reqT, h⟩
  · rw [h]; exact ⟨[], by simp⟩
  · rw [h]; exact allocateLoop_append fuel wl reqT r

/-- `allocateTables` does nothing to the tables when there are at least as many as needed -/
theorem allocateTables_noop (r : Reg) (hm : 0 < r.max) (h : r.requiredTables ≤ r.tableCount) :
    r.allocateTables.tables = r.tables ∧ r.allocateTables.tableCount = r.tableCount := by
  obtain ⟨_, h1, h2⟩ := allocateTables_tc r hm
  have hsame : r.allocateTables.tableCount = r.tableCount := by
    rcases h2 with h2 | h2 <;> omega
  refine ⟨?_, hsame⟩
  rcases allocateTables_cases r with h | ⟨fuel, wl, reqT, h⟩
  · rw [h]
  · rw [h] at hsame ⊢; exact allocateLoop_same fuel wl reqT r hsame

/-- with an empty queue `allocateTables` opens no table -/
theorem allocateLoop_queue_nil (fuel : Nat) (wl reqT : Int) (r : Reg) (hq : r.queue = []) :
    (allocateLoop fuel wl reqT r).tables = r.tables ∧ (allocateLoop fuel wl reqT r).tableCount = r.tableCount := by
  cases fuel with
  | zero => exact ⟨rfl, rfl⟩
  | succ n =>
    rw [allocateLoop_succ]
    split
    · split
      · exact ⟨rfl, rfl⟩
      · rename_i hne
        exfalso
        apply hne
        rw [hq]; simp
    · exact ⟨rfl, rfl⟩

theorem allocateTables_queue_nil (r : Reg) (hq : r.queue = []) :
    r.allocateTables.tables = r.tables ∧ r.allocateTables.tableCount = r.tableCount := by
  rcases allocateTables_cases r with h | ⟨fuel, wl, reqT, h⟩
  · rw [h]; exact ⟨rfl, rfl⟩
  · rw [h]; exact allocateLoop_queue_nil fuel wl reqT r hq

end Reg
end Pokerface
