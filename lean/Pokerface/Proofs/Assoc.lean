import Pokerface.Model.Pots
/-
  Key-sorted association lists (`assocSet`, `assocGet?`, `assocAdd`, `setInsert`) and
  insertion sort (`insertBy`, `isort`): basic lemmas.
-/
namespace Pokerface

/-- Lists sorted by an asymmetric relation and with the same elements are equal. -/
theorem eq_of_pairwise_of_mem_iff {α : Type} {r : α → α → Prop} (asym : ∀ a b, r a b → r b a → False)
    {l₁ l₂ : List α} (h₁ : l₁.Pairwise r) (h₂ : l₂.Pairwise r) (h : ∀ a, a ∈ l₁ ↔ a ∈ l₂) : l₁ = l₂ := by
  have irr : ∀ a, ¬ r a a := fun a h => asym a a h h
  have n1 : l₁.Nodup := by
    unfold List.Nodup; exact h₁.imp (fun {a b} hab e => by subst e; exact irr _ hab)
  have n2 : l₂.Nodup := by
    unfold List.Nodup; exact h₂.imp (fun {a b} hab e => by subst e; exact irr _ hab)
  exact List.Perm.eq_of_pairwise (le := r) (fun a b _ _ hab hba => (asym a b hab hba).elim) h₁ h₂
    ((List.perm_ext_iff_of_nodup n1 n2).2 h)

theorem nodup_of_nodup_map {α β : Type} (f : α → β) {l : List α} (h : (l.map f).Nodup) : l.Nodup := by
  rw [List.Nodup, List.pairwise_map] at h
  exact h.imp (fun {a b} hab e => hab (by rw [e]))

theorem eq_of_nodup_map {α β : Type} (f : α → β) {l : List α} (h : (l.map f).Nodup) {a b : α}
    (ha : a ∈ l) (hb : b ∈ l) (e : f a = f b) : a = b := by
  induction l with
  | nil => simp at ha
  | cons x xs ih =>
    simp only [List.map_cons, List.nodup_cons, List.mem_map, not_exists, not_and] at h
    simp only [List.mem_cons] at ha hb
    rcases ha with rfl | ha <;> rcases hb with rfl | hb
    · rfl
    · exact absurd e.symm (h.1 b hb)
    · exact absurd e (h.1 a ha)
    · exact ih h.2 ha hb

/-- The keys of the association list are strictly increasing. -/
def KeysSorted {β : Type} (m : List (Nat × β)) : Prop := m.Pairwise (fun a b => a.1 < b.1)

theorem KeysSorted.eq_of_mem_iff {β : Type} {m₁ m₂ : List (Nat × β)} (h₁ : KeysSorted m₁) (h₂ : KeysSorted m₂)
    (h : ∀ a, a ∈ m₁ ↔ a ∈ m₂) : m₁ = m₂ :=
  eq_of_pairwise_of_mem_iff (fun a b hab hba => by omega) h₁ h₂ h

theorem keysSorted_nil {β : Type} : KeysSorted ([] : List (Nat × β)) := List.Pairwise.nil

theorem KeysSorted.unique {β : Type} {m : List (Nat × β)} (h : KeysSorted m) {k : Nat} {v v' : β}
    (h1 : (k, v) ∈ m) (h2 : (k, v') ∈ m) : v = v' := by
  induction m with
  | nil => simp at h1
  | cons x xs ih =>
    simp only [KeysSorted, List.pairwise_cons] at h
    simp only [List.mem_cons] at h1 h2
    rcases h1 with h1 | h1 <;> rcases h2 with h2 | h2
    · rw [← h1] at h2; exact (Prod.mk.inj h2).2.symm
    · have := h.1 _ h2; rw [← h1] at this; simp at this
    · have := h.1 _ h1; rw [← h2] at this; simp at this
    · exact ih h.2 h1 h2

theorem assocSet_mem {β : Type} {m : List (Nat × β)} (h : KeysSorted m) (k : Nat) (v : β) (x : Nat × β) :
    x ∈ assocSet m k v ↔ x = (k, v) ∨ (x.1 ≠ k ∧ x ∈ m) := by
  induction m with
  | nil => simp [assocSet]
  | cons y ys ih =>
    obtain ⟨k', v'⟩ := y
    simp only [KeysSorted, List.pairwise_cons] at h
    have ih := ih h.2
    unfold assocSet
    split
    · rename_i hlt
      simp only [List.mem_cons]
      constructor
      · rintro (h1 | h1 | h1)
        · exact Or.inl h1
        · right; subst h1; exact ⟨by simp; omega, Or.inl rfl⟩
        · right; have := h.1 _ h1; exact ⟨by omega, Or.inr h1⟩
      · rintro (h1 | ⟨_, h1 | h1⟩)
        · exact Or.inl h1
        · exact Or.inr (Or.inl h1)
        · exact Or.inr (Or.inr h1)
    · split
      · rename_i _ heq
        subst heq
        simp only [List.mem_cons]
        constructor
        · rintro (h1 | h1)
          · exact Or.inl h1
          · right; have : k < x.1 := h.1 _ h1; exact ⟨by omega, Or.inr h1⟩
        · rintro (h1 | ⟨hne, h1 | h1⟩)
          · exact Or.inl h1
          · subst h1; simp at hne
          · exact Or.inr h1
      · rename_i hnlt hne
        simp only [List.mem_cons, ih]
        constructor
        · rintro (h1 | h1 | ⟨h1, h2⟩)
          · right; subst h1; exact ⟨by simp; omega, Or.inl rfl⟩
          · exact Or.inl h1
          · exact Or.inr ⟨h1, Or.inr h2⟩
        · rintro (h1 | ⟨hne', h1 | h1⟩)
          · exact Or.inr (Or.inl h1)
          · exact Or.inl h1
          · exact Or.inr (Or.inr ⟨hne', h1⟩)

theorem assocSet_sorted {β : Type} {m : List (Nat × β)} (h : KeysSorted m) (k : Nat) (v : β) :
    KeysSorted (assocSet m k v) := by
  induction m with
  | nil => simp [assocSet, KeysSorted]
  | cons y ys ih =>
    obtain ⟨k', v'⟩ := y
    have hs := h
    simp only [KeysSorted, List.pairwise_cons] at h
    have ih' := ih h.2
    unfold assocSet
    split
    · rename_i hlt
      simp only [KeysSorted, List.pairwise_cons, List.mem_cons]
      refine ⟨?_, h⟩
      rintro a (ha | ha)
      · subst ha; exact hlt
      · have : k' < a.1 := h.1 _ ha; show k < a.1; omega
    · split
      · rename_i _ heq
        subst heq
        simp only [KeysSorted, List.pairwise_cons]
        exact ⟨fun a ha => h.1 a ha, h.2⟩
      · rename_i hnlt hne
        simp only [KeysSorted, List.pairwise_cons]
        refine ⟨?_, ih'⟩
        intro a ha
        rw [assocSet_mem h.2] at ha
        rcases ha with ha | ha
        · subst ha; simp; omega
        · exact h.1 a ha.2

theorem assocGet?_of_mem {β : Type} {m : List (Nat × β)} (h : KeysSorted m) {k : Nat} {v : β}
    (hm : (k, v) ∈ m) : assocGet? m k = some v := by
  induction m with
  | nil => simp at hm
  | cons y ys ih =>
    obtain ⟨k', v'⟩ := y
    simp only [KeysSorted, List.pairwise_cons] at h
    simp only [assocGet?, List.find?_cons]
    simp only [List.mem_cons] at hm
    by_cases hk : k' = k
    · subst hk
      simp only [beq_self_eq_true, Option.map_some, Option.some.injEq]
      rcases hm with hm | hm
      · exact ((Prod.mk.inj hm).2).symm
      · have := h.1 _ hm; simp at this
    · have : (k' == k) = false := by simpa using hk
      simp only [this]
      rcases hm with hm | hm
      · exact absurd (Prod.mk.inj hm).1.symm hk
      · exact ih h.2 hm

theorem assocGet?_none {β : Type} {m : List (Nat × β)} {k : Nat}
    (hm : ∀ x ∈ m, x.1 ≠ k) : assocGet? m k = none := by
  simp only [assocGet?, Option.map_eq_none_iff, List.find?_eq_none]
  intro x hx; simpa using hm x hx

theorem assocGet?_some_mem {β : Type} {m : List (Nat × β)} {k : Nat} {v : β}
    (h : assocGet? m k = some v) : (k, v) ∈ m := by
  simp only [assocGet?, Option.map_eq_some_iff] at h
  obtain ⟨x, hx, rfl⟩ := h
  have h1 := List.mem_of_find?_eq_some hx
  have h2 := List.find?_some hx
  simp at h2
  rw [← h2]; exact h1

/-! ### setInsert -/

theorem setInsert_mem (s : List Nat) (k x : Nat) : x ∈ setInsert s k ↔ x = k ∨ x ∈ s := by
  induction s with
  | nil => simp [setInsert]
  | cons y ys ih =>
    unfold setInsert
    split
    · simp
    · split
      · rename_i _ h; subst h; simp
      · simp only [List.mem_cons, ih]
        constructor
        · rintro (h | h | h) <;> simp [h]
        · rintro (h | h | h) <;> simp [h]

theorem setInsert_sorted {s : List Nat} (h : s.Pairwise (· < ·)) (k : Nat) :
    (setInsert s k).Pairwise (· < ·) := by
  induction s with
  | nil => simp [setInsert]
  | cons y ys ih =>
    simp only [List.pairwise_cons] at h
    unfold setInsert
    split
    · rename_i hlt
      simp only [List.pairwise_cons, List.mem_cons]
      refine ⟨?_, h⟩
      rintro a (ha | ha)
      · omega
      · have := h.1 _ ha; omega
    · split
      · simp only [List.pairwise_cons]; exact h
      · simp only [List.pairwise_cons]
        refine ⟨?_, ih h.2⟩
        intro a ha
        rw [setInsert_mem] at ha
        rcases ha with ha | ha
        · omega
        · exact h.1 a ha

/-! ### insertion sort -/

theorem isort_append_singleton {α : Type} (lt : α → α → Bool) (l : List α) (x : α) :
    isort lt (l ++ [x]) = insertBy lt x (isort lt l) := by
  simp [isort, List.foldl_append]

theorem insertBy_mem {α : Type} (lt : α → α → Bool) (x : α) (l : List α) (y : α) :
    y ∈ insertBy lt x l ↔ y = x ∨ y ∈ l := by
  induction l with
  | nil => simp [insertBy]
  | cons z zs ih =>
    unfold insertBy
    split
    · simp
    · simp only [List.mem_cons, ih]
      constructor
      · rintro (h | h | h) <;> simp [h]
      · rintro (h | h | h) <;> simp [h]

theorem insertBy_perm {α : Type} (lt : α → α → Bool) (x : α) (l : List α) :
    (insertBy lt x l).Perm (x :: l) := by
  induction l with
  | nil => simp [insertBy]
  | cons z zs ih =>
    unfold insertBy
    split
    · exact List.Perm.refl _
    · exact (List.Perm.cons z ih).trans (List.Perm.swap x z zs)

theorem foldl_insertBy_perm {α : Type} (lt : α → α → Bool) (l acc : List α) :
    (l.foldl (fun acc x => insertBy lt x acc) acc).Perm (acc ++ l) := by
  induction l generalizing acc with
  | nil => simp
  | cons x xs ih =>
    simp only [List.foldl_cons]
    refine (ih _).trans ?_
    refine (List.Perm.append_right xs (insertBy_perm lt x acc)).trans ?_
    simp only [List.cons_append]
    exact (List.perm_middle).symm

theorem isort_perm {α : Type} (lt : α → α → Bool) (l : List α) : (isort lt l).Perm l := by
  simpa [isort] using foldl_insertBy_perm lt l []

/-- Inserting into a list all of whose elements are not `lt`-greater than `x` appends `x`. -/
theorem insertBy_eq_append {α : Type} (lt : α → α → Bool) (x : α) (l : List α)
    (h : ∀ y ∈ l, lt x y = false) : insertBy lt x l = l ++ [x] := by
  induction l with
  | nil => simp [insertBy]
  | cons z zs ih =>
    unfold insertBy
    have hz := h z (by simp)
    simp only [hz, Bool.false_eq_true, if_false, List.cons_append]
    rw [ih (fun y hy => h y (by simp [hy]))]

end Pokerface
