import Pokerface.Proofs.TableDriver
/-
  The invariant of the table's driver (table/game.go) and its preservation by `update` and `call`.
-/
namespace Pokerface.Drv
open Pokerface Game

theorem next_chain (g : Game) (he : g.event = .roundClosed) (hr : g.round ≠ .none) :
    (g.step .next).1.event = .gameClosed ∨ (g.step .next).1.round.idx = g.round.idx + 1 := by
  simp only [Game.step, Game.next, he, hr, ne_eq, not_true_eq_false, if_false]
  unfold Game.nextRound Game.nextRound'
  have hr' : g.resetRoundStatus.resetAllPlayerStatus.round = g.round := rfl
  split
  · left; rfl
  · split
    · rename_i h; right; rw [flow_enterRound_round, ← hr', h]; rfl
    · rename_i h; right; rw [flow_enterRound_round, ← hr', h]; rfl
    · rename_i h; right; rw [flow_enterRound_round, ← hr', h]; rfl
    · left; rfl
    · rename_i h; exact absurd (hr'.symm.trans h) hr

/-- an engine history in which every operation was accepted, and where it leads -/
inductive Hist (g0 : Game) : List Op → Game → Prop
  | nil : Hist g0 [] g0
  | snoc {ops : List Op} {e : Game} (op : Op) : Hist g0 ops e → (e.step op).2 = none → Hist g0 (ops ++ [op]) (e.step op).1

theorem run_append (g : Game) (a b : List Op) : g.run (a ++ b) = (g.run a).run b := by
  simp [Game.run, List.foldl_append]

theorem accepted_append (g : Game) (a b : List Op) : g.accepted (a ++ b) = g.accepted a + (g.run a).accepted b := by
  induction a generalizing g with
  | nil => simp [Game.accepted, Game.run]
  | cons x a ih =>
    simp only [List.cons_append, Game.accepted, ih, Game.run, List.foldl_cons]
    omega

theorem Hist.run_eq {g0 : Game} {ops : List Op} {e : Game} (h : Hist g0 ops e) : e = g0.run ops := by
  induction h with
  | nil => rfl
  | snoc op _ _ ih => rw [run_append, ← ih]; rfl

theorem Hist.accepted_eq {g0 : Game} {ops : List Op} {e : Game} (h : Hist g0 ops e) : g0.accepted ops = ops.length := by
  induction h with
  | nil => rfl
  | snoc op hh ha ih =>
    rw [accepted_append, ih, ← hh.run_eq]
    simp [Game.accepted, ha]

/-- the first state of a hand of an engine-accepted configuration -/
def Start0 (g0 : Game) : Prop := ∃ c, WFConfig c ∧ (start c).2 = none ∧ g0 = (start c).1

theorem Hist.reach {g0 : Game} {ops : List Op} {e : Game} (h0 : Start0 g0) (h : Hist g0 ops e) : Reachable e := by
  obtain ⟨c, wf, hs, rfl⟩ := h0
  exact ⟨c, ops, wf, hs, h.run_eq⟩

/-- what the driver `d` looks like when the engine state behind the held state is `e` -/
def Post (d : D) (e : Game) : Prop :=
  e.event ≠ .roundClosed ∧ (d.closed = true ↔ e.event = .gameClosed) ∧
  match arm e.hop with
  | some (g', marks, grp) => d.gs = g' ∧ d.readyMarks = marks ∧
      ∃ G, d.group = some G ∧ G.fire = grp.fire ∧ G.completed = false ∧ G.parts.map (·.1) = grp.parts.map (·.1)
  | none => d.gs = e.hop ∧ d.readyMarks = []

theorem arm_completed {g g' : Game} {m : List Nat} {grp : Group} (h : arm g = some (g', m, grp)) : grp.completed = false := by
  unfold arm at h
  split at h
  · simp only [Option.some.injEq, Prod.mk.injEq] at h; rw [← h.2.2]
  · split at h
    · cases h
    · simp only [Option.some.injEq, Prod.mk.injEq] at h; rw [← h.2.2]
  · simp only [Option.some.injEq, Prod.mk.injEq] at h; rw [← h.2.2]
  · cases h

theorem arm_event {g g' : Game} {m : List Nat} {grp : Group} (h : arm g = some (g', m, grp)) :
    g'.event = g.event ∧ (g.event = .readyRequested ∨ g.event = .anteRequested ∨ g.event = .blindsRequested) := by
  unfold arm at h
  split at h
  · rename_i he; simp only [Option.some.injEq, Prod.mk.injEq] at h; rw [← h.1]; exact ⟨rfl, Or.inl he⟩
  · rename_i he
    split at h
    · cases h
    · simp only [Option.some.injEq, Prod.mk.injEq] at h; rw [← h.1]; exact ⟨rfl, Or.inr (Or.inl he)⟩
  · rename_i he; simp only [Option.some.injEq, Prod.mk.injEq] at h; rw [← h.1]; exact ⟨rfl, Or.inr (Or.inr he)⟩
  · cases h

theorem arm_none_of {g : Game} (h1 : g.event ≠ .readyRequested) (h2 : g.event ≠ .anteRequested)
    (h3 : g.event ≠ .blindsRequested) : arm g = none := by
  unfold arm
  split <;> simp_all

theorem clr_allowPay (g : Game) : clr (g.mapP (allowAction .pay)) = clr g := by
  simp only [clr, Game.mapP, List.map_map]
  congr 1
  apply List.map_congr_left
  intro p _
  simp only [Function.comp, allowAction]
  split <;> rfl

theorem clr_allowPayIf (g : Game) (c : Player → Bool) :
    clr { g with players := g.players.map fun p => if c p then allowAction .pay p else p } = clr g := by
  simp only [clr, Game.mapP, List.map_map]
  congr 1
  apply List.map_congr_left
  intro p _
  simp only [Function.comp, allowAction]
  split
  · split <;> rfl
  · rfl

/-- the callback of a completed group is accepted, and the marks do not change its answer -/
theorem fire_ok {e g' : Game} {m : List Nat} {grp : Group} (hR : Reachable e) (h : arm e.hop = some (g', m, grp)) :
    (e.step (fireOp grp.fire)).2 = none ∧ backend g' (fireOp grp.fire) = .ok (e.step (fireOp grp.fire)).1.hop := by
  obtain ⟨x1, x2, x3, _, _⟩ := C06.expected_step_succeeds hR
  have hev : e.hop.event = e.event := rfl
  have key : ∀ op, (op = .payAnte ∨ op = .payBlinds) → clr g' = clr e.hop → (e.step op).2 = none →
      backend g' op = .ok (e.step op).1.hop := by
    intro op hop hc hacc
    obtain ⟨f1, f2⟩ := fire_clr hc op hop
    obtain ⟨c1, c2⟩ := C07.hop_step e op
    rw [backend_eq]
    have a2 : (g'.step op).2 = none := by rw [f1, c2, hacc]
    have a1 : (g'.step op).1 = (e.hop.step op).1 := f2 (by rw [c2, hacc])
    revert a1 a2
    generalize g'.step op = y
    obtain ⟨y1, y2⟩ := y
    intro a2 a1
    simp only at a1 a2
    subst a2
    simp [a1, c1]
  unfold arm at h
  split at h
  · rename_i he; rw [hev] at he
    simp only [Option.some.injEq, Prod.mk.injEq] at h
    obtain ⟨rfl, _, rfl⟩ := h
    have := x1 he
    refine ⟨this, ?_⟩
    rw [backend_hop]
    show (match e.step .ready with | (g', none) => Except.ok g'.hop | (_, some err) => Except.error err) =
      Except.ok (e.step .ready).1.hop
    revert this
    generalize e.step .ready = y
    obtain ⟨y1, y2⟩ := y
    intro hy; simp only at hy; subst hy; rfl
  · rename_i he; rw [hev] at he
    split at h
    · cases h
    · simp only [Option.some.injEq, Prod.mk.injEq] at h
      obtain ⟨rfl, _, rfl⟩ := h
      exact ⟨x2 he, key _ (Or.inl rfl) (clr_allowPay _) (x2 he)⟩
  · rename_i he; rw [hev] at he
    simp only [Option.some.injEq, Prod.mk.injEq] at h
    obtain ⟨rfl, _, rfl⟩ := h
    exact ⟨x3 he, key _ (Or.inr rfl) (clr_allowPayIf _ _) (x3 he)⟩
  · cases h

theorem Post_congr {d d' : D} {e : Game} (h1 : d'.gs = d.gs) (h2 : d'.readyMarks = d.readyMarks) (h3 : d'.group = d.group)
    (h4 : d'.closed = d.closed) (hp : Post d e) : Post d' e := by
  unfold Post at hp ⊢
  rw [h1, h2, h3, h4]; exact hp

theorem update_ok {g0 : Game} (h0 : Start0 g0) : ∀ (k : Nat) (d : D) (ops : List Op) (e : Game), Hist g0 ops e →
    d.closed = false → 1 ≤ k → (e.event = .roundClosed → 6 ≤ k + e.round.idx) →
    ∃ m e', Hist g0 (ops ++ List.replicate m .next) e' ∧ Post (update k d e.hop) e' ∧
      (update k d e.hop).updates = d.updates + m + 1 := by
  intro k
  induction k with
  | zero => intro _ _ _ _ _ hk; omega
  | succ k ih =>
    intro d ops e hh hc _ hb
    have hR := hh.reach h0
    have hhop : e.hop.hop = e.hop := C07.hop_idempotent e
    have hev : e.hop.event = e.event := rfl
    rw [update]
    simp only [hc, hhop, hev, Bool.false_eq_true, if_false]
    split
    · rename_i h
      refine ⟨0, e, by simpa using hh, ?_⟩
      have ha : arm e.hop = none := arm_none_of (by rw [hev, h]; simp) (by rw [hev, h]; simp) (by rw [hev, h]; simp)
      simp [Post, ha, h, hhop]
    · rename_i h
      have hacc := (C06.expected_step_succeeds hR).2.2.2.1 h
      have hb' := backend_hop e .next
      rw [hb']
      have hrn : e.round ≠ .none := by
        intro h0'
        have := ((flow_reachable hR).rnd0 h0').1
        rw [h] at this
        rcases this with h | h <;> cases h
      have hch := next_chain e h hrn
      have hh' := Hist.snoc .next hh hacc
      revert hacc hch hh'
      generalize e.step .next = y
      obtain ⟨y1, y2⟩ := y
      intro hacc hch hh'
      simp only at hacc hch hh'
      subst hacc
      simp only
      have hidx : e.round.idx ≤ 4 := by cases e.round <;> simp [Round.idx]
      have hidx1 : y1.round.idx ≤ 4 := by cases y1.round <;> simp [Round.idx]
      have hk1 : 1 ≤ k := by have := hb h; omega
      obtain ⟨m, e', hm, hp, hu⟩ := ih { d with gs := e.hop, readyMarks := [] } _ y1 hh' hc hk1 (by
        intro hy
        rcases hch with hch | hch
        · rw [hy] at hch; cases hch
        · have := hb h; omega)
      have hd : ({ d with gs := e.hop, readyMarks := [] } : D) = { gs := e.hop, group := d.group, updates := d.updates } := by
        cases d; simp only at hc; simp [hc]
      rw [hd] at hp hu
      refine ⟨m + 1, e', ?_, ?_, ?_⟩
      · rw [List.replicate_succ, ← List.singleton_append, ← List.append_assoc]; exact hm
      · exact Post_congr rfl rfl rfl rfl hp
      · simp only [hu]; omega
    · rename_i h1 h2
      have hne : e.event ≠ .roundClosed := fun h => h2 h
      have hng : e.event ≠ .gameClosed := fun h => h1 h
      refine ⟨0, e, by simpa using hh, ?_⟩
      split
      · rename_i g' mk grp ha
        have := arm_completed ha
        simp [Post, ha, hne, hng, hc, this]
      · rename_i ha
        simp [Post, ha, hne, hng, hc, hhop]

theorem update_ok' {g0 : Game} (h0 : Start0 g0) {d : D} {ops : List Op} {e : Game} (hh : Hist g0 ops e)
    (hc : d.closed = false) (hu : d.updates = ops.length) :
    ∃ ops' e', Hist g0 ops' e' ∧ Post (update fuel d e.hop) e' ∧ (update fuel d e.hop).updates = ops'.length + 1 := by
  obtain ⟨m, e', hm, hp, hu'⟩ := update_ok h0 fuel d ops e hh hc (by decide) (by intro _; simp only [fuel]; omega)
  exact ⟨_, e', hm, hp, by rw [hu', hu]; simp⟩

theorem arm_allows {e g' : Game} {m : List Nat} {grp : Group} (hna : ∀ p ∈ e.players, p.allowed = [])
    (h : arm e.hop = some (g', m, grp)) (i : Nat) (a : Act) (hal : g'.allows i a = true) :
    a = .pay ∧ (g'.event = .anteRequested ∨ g'.event = .blindsRequested) := by
  have hpl : e.hop.players = e.players := rfl
  unfold arm at h
  split at h
  · simp only [Option.some.injEq, Prod.mk.injEq] at h
    obtain ⟨rfl, _, _⟩ := h
    exfalso
    unfold Game.allows at hal
    rw [hpl] at hal
    split at hal
    · rename_i p hp; rw [hna p (List.mem_of_getElem? hp)] at hal; simp at hal
    · cases hal
  · rename_i he
    split at h
    · cases h
    · simp only [Option.some.injEq, Prod.mk.injEq] at h
      obtain ⟨rfl, _, _⟩ := h
      refine ⟨?_, Or.inl he⟩
      unfold Game.allows at hal
      simp only [Game.mapP, hpl, List.getElem?_map] at hal
      cases hp : e.players[i]? with
      | none => simp [hp] at hal
      | some p =>
        have := hna p (List.mem_of_getElem? hp)
        simp [hp, allowAction, this] at hal
        exact hal
  · rename_i he
    simp only [Option.some.injEq, Prod.mk.injEq] at h
    obtain ⟨rfl, _, _⟩ := h
    refine ⟨?_, Or.inr he⟩
    unfold Game.allows at hal
    simp only [hpl, List.getElem?_map] at hal
    cases hp : e.players[i]? with
    | none => simp [hp] at hal
    | some p =>
      have := hna p (List.mem_of_getElem? hp)
      simp only [hp, Option.map_some] at hal
      split at hal
      · simp [allowAction, this] at hal
        exact hal
      · simp [this] at hal
  · cases h

theorem groupReady_ok {g0 : Game} (h0 : Start0 g0) {d : D} {ops : List Op} {e : Game} (hh : Hist g0 ops e) (hp : Post d e)
    (hu : d.updates = ops.length + 1)
    (i : Nat) {g' : Game} {m : List Nat} {grp : Group} (ha : arm e.hop = some (g', m, grp)) :
    ∃ ops' e', Hist g0 ops' e' ∧ Post (groupReady d i) e' ∧ (groupReady d i).updates = ops'.length + 1 := by
  have hR := hh.reach h0
  obtain ⟨p1, p2, p3⟩ := hp
  simp only [ha] at p3
  obtain ⟨q1, q2, G, q3, q4, q5, q6⟩ := p3
  have hcl : d.closed = false := by
    cases hc : d.closed with
    | false => rfl
    | true =>
      have := p2.mp hc
      obtain ⟨_, hev⟩ := arm_event ha
      rw [show e.hop.event = e.event from rfl, this] at hev
      simp at hev
  unfold groupReady
  rw [q3]
  simp only [q5]
  split
  · obtain ⟨f1, f2⟩ := fire_ok hR ha
    unfold callBackend
    simp only [q1, q4, f2]
    exact update_ok' h0 (Hist.snoc _ hh f1) hcl (by simp [hu])
  · refine ⟨ops, e, hh, ⟨p1, p2, ?_⟩, hu⟩
    simp only [ha]
    refine ⟨q1, q2, _, rfl, q4, ?_, ?_⟩
    · rfl
    rw [← q6]
    simp only [List.map_map]
    apply List.map_congr_left
    intro pr _
    simp only [Function.comp]
    split <;> rfl

theorem callBackend_ok {g0 : Game} (h0 : Start0 g0) {d : D} {ops : List Op} {e : Game} (hh : Hist g0 ops e) (hp : Post d e)
    (hu : d.updates = ops.length + 1) (op : Op) (ha : arm e.hop = none) :
    ∃ ops' e', Hist g0 ops' e' ∧ Post (callBackend d op).1 e' ∧ (callBackend d op).1.updates = ops'.length + 1 := by
  have hR := hh.reach h0
  have hp0 := hp
  obtain ⟨p1, p2, p3⟩ := hp
  simp only [ha] at p3
  unfold callBackend
  rw [p3.1, backend_hop]
  have hcf := fun h => ((C06.closed_final hR h).2 op).1
  have hsn := fun h => Hist.snoc op hh h
  revert hcf hsn
  generalize e.step op = y
  obtain ⟨y1, y2⟩ := y
  intro hcf hsn
  cases y2 with
  | some err => exact ⟨ops, e, hh, hp0, hu⟩
  | none =>
    simp only
    have hcl : d.closed = false := by
      cases hc : d.closed with
      | false => rfl
      | true => exact absurd rfl (hcf (p2.mp hc))
    exact update_ok' h0 (hsn rfl) hcl (by simp [hu])

theorem arm_isSome {e : Game} (hf : Flow e) (he : e.event = .readyRequested ∨ e.event = .anteRequested ∨ e.event = .blindsRequested) :
    arm e.hop ≠ none := by
  have hev : e.hop.event = e.event := rfl
  unfold arm
  rcases he with he | he | he
  · simp [hev, he]
  · have := (hf.ante he).1
    have h2 : e.hop.opts.ante ≠ 0 := by show e.opts.ante ≠ 0; omega
    simp [hev, he, h2]
  · simp [hev, he]

theorem call_ok {g0 : Game} (h0 : Start0 g0) {d : D} {ops : List Op} {e : Game} (hh : Hist g0 ops e) (hp : Post d e)
    (hu : d.updates = ops.length + 1)
    (c : Call) : ∃ ops' e', Hist g0 ops' e' ∧ Post (call d c).1 e' ∧ (call d c).1.updates = ops'.length + 1 := by
  have hR := hh.reach h0
  have same : ∃ ops' e', Hist g0 ops' e' ∧ Post d e' ∧ d.updates = ops'.length + 1 := ⟨ops, e, hh, hp, hu⟩
  cases c with
  | ready i =>
    simp only [call]
    split
    · exact same
    · split
      · exact same
      · rename_i hc
        cases ha : arm e.hop with
        | none =>
          have := hp.2.2
          simp only [ha] at this
          rw [this.2] at hc
          simp at hc
        | some t =>
          obtain ⟨g', m, grp⟩ := t
          exact groupReady_ok h0 hh hp hu i ha
  | act i a x =>
    simp only [call]
    split
    · exact same
    · split
      · exact same
      · rename_i hal
        simp only [Bool.not_eq_true, Bool.not_eq_false', hasAction] at hal
        have hal : d.gs.allows i a = true := by simpa using hal
        cases ha : arm e.hop with
        | none =>
          have hgs : d.gs = e.hop := by
            have := hp.2.2
            simp only [ha] at this
            exact this.1
          split
          · rename_i hc
            exfalso
            rw [hgs] at hc
            exact arm_isSome (flow_reachable hR) (Or.inr hc.2) ha
          · exact callBackend_ok h0 hh hp hu _ ha
        | some t =>
          obtain ⟨g', m, grp⟩ := t
          have hgs : d.gs = g' := by
            have := hp.2.2
            simp only [ha] at this
            exact this.1
          split
          · exact groupReady_ok h0 hh hp hu i ha
          · rename_i hc
            exfalso
            have hne : e.event ≠ .roundStarted := by
              rcases (arm_event ha).2 with h | h | h <;> rw [show e.hop.event = e.event from rfl] at h <;> rw [h] <;> simp
            have hna := (C04.one_actor hR).2 hne
            rw [hgs] at hal hc
            exact hc (arm_allows hna ha i a hal)

theorem startD_ok {g0 : Game} (h0 : Start0 g0) :
    ∃ ops' e', Hist g0 ops' e' ∧ Post (startD g0) e' ∧ (startD g0).updates = ops'.length + 1 := by
  have h1 : g0.hop = g0 := by
    obtain ⟨c, _, hs, rfl⟩ := h0
    rw [(start_ok c hs).2.2]
    rfl
  have := update_ok' h0 (d := { gs := g0 }) Hist.nil rfl rfl
  rw [h1] at this
  exact this

theorem runD_ok' {g0 : Game} (h0 : Start0 g0) (cs : List Call) :
    ∃ ops' e', Hist g0 ops' e' ∧ Post (runD (startD g0) cs) e' ∧ (runD (startD g0) cs).updates = ops'.length + 1 := by
  have gen : ∀ (cs : List Call) (d : D), (∃ ops' e', Hist g0 ops' e' ∧ Post d e' ∧ d.updates = ops'.length + 1) →
      ∃ ops' e', Hist g0 ops' e' ∧ Post (runD d cs) e' ∧ (runD d cs).updates = ops'.length + 1 := by
    intro cs
    induction cs with
    | nil => intro d h; exact h
    | cons c cs ih =>
      intro d ⟨ops, e, hh, hp, hu⟩
      exact ih _ (call_ok h0 hh hp hu c)
  exact gen cs _ (startD_ok h0)

theorem runD_ok {g0 : Game} (h0 : Start0 g0) (cs : List Call) :
    ∃ ops' e', Hist g0 ops' e' ∧ Post (runD (startD g0) cs) e' := by
  obtain ⟨ops, e, hh, hp, _⟩ := runD_ok' h0 cs
  exact ⟨ops, e, hh, hp⟩

end Pokerface.Drv
