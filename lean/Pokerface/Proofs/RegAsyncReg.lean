/-
  Regulator-level facts for the ASYNCHRONOUS system (Model/RegulatorAsync.lean).

  With release reports arriving late, the quiescent count identity of the regulator is
      playerCount = |queue| + Σ PlayerCount + (number of players on the way back)
  so the operation specifications of the weak tower (Proofs/RegAnyOps.lean, RegAnySync.lean),
  which assume `playerCount = |queue| + Σ PlayerCount`, are restated here WITHOUT any assumption
  on `playerCount` beyond `0 ≤ playerCount - out`: what an operation does to `|queue| + Σ counts`
  is read off `OpExt` / `SyncPostD` as a difference.  Everything below rests on the weak tower's
  lemmas about dispatch, drain and the table updates of `SyncState`.
-/
import Pokerface.Proofs.RegTotal

namespace Pokerface
namespace Reg

/-- counting consequence of `OpExt`: the queue and the tables together gain exactly the incoming
    players -/
theorem OpExt.cnt0 {r r' : Reg} {inc : List Nat} (hwf : WF0 r) (h : OpExt r r' inc) :
    (r'.queue.length : Int) + sumCount r'.tables = r.queue.length + sumCount r.tables + inc.length := by
  have h1 := (applyTVs_spec (tview r.tables) r'.calls (by rw [tview_fst]; exact hwf.nodup) h.valid).2
  have h2 := congrArg List.length h.queue
  simp only [List.length_append] at h2
  rw [sumCount_eq, sumCount_eq, h.tv, h1]
  omega

/-- `AddPlayers` before the deadline, no assumption on `playerCount` -/
theorem addPlayers_specA (r : Reg) (ps ch : List Nat) (hwf : WF0 r) (hs : r.status ≠ .afterRegDeadline)
    (hb : (r.addPlayers ps ch).1.badChoice = false) :
    (r.addPlayers ps ch).2 = none ∧ WF0 (r.addPlayers ps ch).1 ∧ OpExt r (r.addPlayers ps ch).1 ps ∧
    (r.addPlayers ps ch).1.status = r.status ∧
    (r.addPlayers ps ch).1.playerCount = r.playerCount + ps.length := by
  unfold addPlayers at hb ⊢
  simp only at hb ⊢
  have hs' : ¬ (r.beginOp ch).status = .afterRegDeadline := hs
  rw [if_neg hs'] at hb ⊢
  simp only at hb ⊢
  generalize hr1 : ({ r.beginOp ch with playerCount := (r.beginOp ch).playerCount + ps.length } : Reg) = r1 at hb ⊢
  have hwf1 : WF0 r1 := by
    rw [← hr1]; exact ⟨hwf.tc, hwf.nodup, hwf.idlt, hwf.nn⟩
  obtain ⟨hwf2, hext2, hq2, _, _, _, _⟩ := updateTableRequirements_spec0 r1 hwf1 (r1.queue ++ ps)
  generalize hr2 : r1.updateTableRequirements = r2 at *
  obtain ⟨hwf3, hext3⟩ := enterWaitingQueue_spec0 r2 ps hwf2 hb
  have hst2 : r2.status = r.status := by rw [hext2.status_eq, ← hr1]; rfl
  have hpc2 : r2.playerCount = r.playerCount + ps.length := by rw [hext2.pc_eq, ← hr1]; rfl
  have hr1q : r1.queue = r.queue := by rw [← hr1]; rfl
  have hr1t : r1.tables = r.tables := by rw [← hr1]; rfl
  have hext : Ext r1 (r2.enterWaitingQueue ps) (r1.queue ++ ps) (r2.enterWaitingQueue ps).queue := by
    have := hext2.trans (hq2 ▸ hext3)
    exact this
  refine ⟨trivial, hwf3, ?_, ?_, ?_⟩
  · exact OpExt.of_ext (by rw [← hr1]; rfl) (by rw [← hr1]; rfl) (by rw [← hr1]; rfl) hr1q hr1t
      (by rw [← hr1]; rfl) hext
  · rw [hext3.status_eq, hst2]
  · rw [hext3.pc_eq, hpc2]

/-- `SetStatus` to ANY status, no assumption on `playerCount` -/
theorem setStatus_specA (r : Reg) (st : RStatus) (ch : List Nat) (hwf : WF0 r)
    (hb : (r.setStatus st ch).badChoice = false) :
    WF0 (r.setStatus st ch) ∧ OpExt r (r.setStatus st ch) [] ∧ (r.setStatus st ch).status = st ∧
    (r.setStatus st ch).playerCount = r.playerCount := by
  unfold setStatus at hb ⊢
  simp only at hb ⊢
  split
  · rename_i hsame
    refine ⟨hwf.beginOp ch, ⟨rfl, rfl, by simp [Reg.beginOp], rfl, trivial, by simp [Reg.beginOp],
      by simp [Reg.beginOp]⟩, hsame, rfl⟩
  · rename_i hne
    rw [if_neg hne] at hb
    generalize hr1 : ({ r.beginOp ch with status := st } : Reg) = r1 at hb ⊢
    have hwf1 : WF0 r1 := by
      rw [← hr1]; exact ⟨hwf.tc, hwf.nodup, hwf.idlt, hwf.nn⟩
    have hr1q : r1.queue = r.queue := by rw [← hr1]; rfl
    have hr1t : r1.tables = r.tables := by rw [← hr1]; rfl
    have hr1s : r1.status = st := by rw [← hr1]
    have hr1p : r1.playerCount = r.playerCount := by rw [← hr1]; rfl
    split
    · rename_i hdrain
      rw [if_pos hdrain] at hb
      obtain ⟨h1, h2, _⟩ := drainWaitingQueue_spec0 r1 hwf1 hb
      refine ⟨h1, ?_, ?_, ?_⟩
      · refine OpExt.of_ext (r := r1) (by rw [← hr1]; rfl) (by rw [← hr1]; rfl) (by rw [← hr1]; rfl) hr1q hr1t
          (by rw [← hr1]; rfl) ?_
        rw [List.append_nil]; exact h2
      · rw [h2.status_eq, hr1s]
      · rw [h2.pc_eq, hr1p]
    · refine ⟨hwf1, ?_, hr1s, hr1p⟩
      rw [← hr1]
      exact ⟨rfl, rfl, by simp [Reg.beginOp], rfl, trivial, by simp [Reg.beginOp], by simp [Reg.beginOp]⟩

/-- `ReleasePlayers` with ANY players, in any status, no assumption on `playerCount` -/
theorem releasePlayers_specA (r1 : Reg) (rel ch : List Nat) (hwf : WF0 r1)
    (hb : (r1.releasePlayers rel ch).badChoice = false) :
    WF0 (r1.releasePlayers rel ch) ∧ OpExt r1 (r1.releasePlayers rel ch) rel ∧
    (r1.releasePlayers rel ch).status = r1.status ∧
    (r1.releasePlayers rel ch).playerCount = r1.playerCount := by
  unfold releasePlayers at hb ⊢
  obtain ⟨h1, h2⟩ := enterWaitingQueue_spec0 (r1.beginOp ch) rel (hwf.beginOp ch) hb
  exact ⟨h1, OpExt.of_ext (r := r1.beginOp ch) rfl rfl rfl rfl rfl rfl h2, h2.status_eq, h2.pc_eq⟩

/-! ### `SyncState` as a difference -/

/-- What `SyncState` does after booking the eliminations, relative to the booked state `b`
    in which table `id` is `tb` — `SyncPost0` with the count identity replaced by the difference
    `cntd` (the queue and the tables together lose exactly the players to release). -/
structure SyncPostD (b : Reg) (id : Nat) (tb : RTable) (r1 : Reg) (rel : Int) (nw : List Nat) : Prop where
  wf : WF0 r1
  calls : r1.calls = b.calls
  max_eq : r1.max = b.max
  min_eq : r1.min = b.min
  status_eq : r1.status = b.status
  pc_eq : r1.playerCount = b.playerCount
  next_eq : r1.nextId = b.nextId
  queue : b.queue = nw ++ r1.queue
  rel0 : 0 ≤ rel
  cntd : (r1.queue.length : Int) + sumCount r1.tables + rel = b.queue.length + sumCount b.tables
  excl : nw = [] ∨ rel = 0
  cases :
    (r1.findTable id = none ∧ r1.tables = b.tables.filter (fun t => t.id != id) ∧ rel = tb.count ∧ nw = []) ∨
    (∃ a rq, r1.tables = upd id (adj a rq) b.tables ∧ a = (nw.length : Int) - rel ∧
      rel ≤ tb.count + nw.length)

theorem sync_breakD {b : Reg} (hwf : WF0 b) {id : Nat} {tb : RTable} (htb : tb ∈ b.tables) (hid : tb.id = id) :
    SyncPostD b id tb (b.breakTable id) tb.count [] := by
  obtain ⟨h1, h2, h3⟩ := breakTable_spec0 hwf htb hid
  refine ⟨h1, rfl, rfl, rfl, rfl, rfl, rfl, rfl, (hwf.nn tb htb).1, ?_, Or.inl rfl, Or.inl ⟨h2, rfl, rfl, rfl⟩⟩
  rw [h3]
  show ((b.queue.length : Int)) + _ + _ = _
  omega

theorem sync_sameD {b : Reg} (hwf : WF0 b) {id : Nat} {tb : RTable} (htb : tb ∈ b.tables) :
    SyncPostD b id tb b 0 [] := by
  refine ⟨hwf, rfl, rfl, rfl, rfl, rfl, rfl, rfl, Int.le_refl _, by omega, Or.inl rfl, Or.inr ⟨0, none, ?_, rfl, ?_⟩⟩
  · rw [upd_adj_zero]
  · have := (hwf.nn tb htb).1; simp; omega

theorem sync_takeD {b : Reg} (hwf : WF0 b) {id : Nat} {tb : RTable} (htb : tb ∈ b.tables) (hid : tb.id = id)
    (fl : Int) :
    SyncPostD b id tb
      { b with queue := b.queue.drop (fl - tb.count).toNat,
               tables := upd id (adj ((b.queue.take (fl - tb.count).toNat).length : Int)
                  (if fl - tb.count - ((b.queue.take (fl - tb.count).toNat).length : Int) > 0
                   then some (fl - tb.count - ((b.queue.take (fl - tb.count).toNat).length : Int)) else none)) b.tables }
      0 (b.queue.take (fl - tb.count).toNat) := by
  have hbt := hwf.nn tb htb
  have hidm : id ∈ b.tables.map (·.id) := List.mem_map.2 ⟨tb, htb, hid⟩
  refine ⟨?_, rfl, rfl, rfl, rfl, rfl, rfl, ?_, Int.le_refl _, ?_, Or.inr rfl, Or.inr ⟨_, _, rfl, by omega, by omega⟩⟩
  · refine hwf.upd htb hid _ _ _ rfl rfl rfl ?_
    simp only [adj]
    split
    · simp only [Option.getD_some]; omega
    · simp only [Option.getD_none]; omega
  · simp only [List.take_append_drop]
  · simp only
    rw [sumCount_upd_adj hwf.nodup hidm]
    have : b.queue.length = (b.queue.take (fl - tb.count).toNat).length + (b.queue.drop (fl - tb.count).toNat).length := by
      rw [← List.length_append, List.take_append_drop]
    omega

theorem sync_releaseD {b : Reg} (hwf : WF0 b) {id : Nat} {tb : RTable} (htb : tb ∈ b.tables) (hid : tb.id = id)
    (fl : Int) (hfl0 : 0 ≤ fl) :
    SyncPostD b id tb (releaseLoop (tb.count - fl).toNat id fl b 0).2
      (releaseLoop (tb.count - fl).toNat id fl b 0).1 [] := by
  obtain ⟨j, hj, he⟩ := releaseLoop_spec (tb.count - fl).toNat id fl b 0
  rw [he]
  have hbt := hwf.nn tb htb
  have hidm : id ∈ b.tables.map (·.id) := List.mem_map.2 ⟨tb, htb, hid⟩
  refine ⟨?_, rfl, rfl, rfl, rfl, rfl, rfl, rfl, by simp, ?_, Or.inl rfl, Or.inr ⟨_, _, rfl, by simp, by simp; omega⟩⟩
  · refine hwf.upd htb hid _ _ _ rfl rfl rfl ?_
    simp only [adj, Option.getD_none]
    omega
  · simp only
    rw [sumCount_upd_adj hwf.nodup hidm]
    omega

/-- the booked state is well-formed and still has the table -/
theorem syncBase_factsD (r : Reg) (id : Nat) (out : Int) (t0 : RTable) (hwf : WF0 r)
    (hf : r.findTable id = some t0) (ho : out ≤ t0.count) :
    WF0 (syncBase r id out) ∧ adj (-out) none t0 ∈ (syncBase r id out).tables ∧
    sumCount (syncBase r id out).tables = sumCount r.tables - out := by
  obtain ⟨ht0, hid0⟩ := findTable_some hf
  have hbt := hwf.nn t0 ht0
  have hidm : id ∈ r.tables.map (·.id) := List.mem_map.2 ⟨t0, ht0, hid0⟩
  refine ⟨?_, ?_, ?_⟩
  · refine hwf.upd ht0 hid0 (-out) none _ rfl rfl (syncBase_tables r id out) ?_
    simp only [adj, Option.getD_none]; omega
  · rw [syncBase_tables]
    simp only [upd, List.mem_map]
    exact ⟨t0, ht0, by simp [hid0]⟩
  · rw [syncBase_tables, sumCount_upd_adj hwf.nodup hidm]
    omega

/-- `SyncState` on a known table, in terms of the booked state; the only assumption on
    `playerCount` is that it does not go negative by the eliminations. -/
theorem syncState_specD (r : Reg) (id : Nat) (out : Int) (t0 : RTable) (hwf : WF0 r)
    (hpc : 0 ≤ r.playerCount - out)
    (hf : r.findTable id = some t0) (ho : out ≤ t0.count) :
    ∃ r1 rel nw, r.syncState id out = (r1, none, rel, nw) ∧
      SyncPostD (syncBase r id out) id (adj (-out) none t0) r1 rel nw := by
  obtain ⟨bwf, bmem, _⟩ := syncBase_factsD r id out t0 hwf hf ho
  have hid0 := (findTable_some hf).2
  have hidb : (adj (-out) none t0).id = id := hid0
  have htc : (adj (-out) none t0).count = t0.count - out := by simp [adj, Int.sub_eq_add_neg]
  have hpcb : 0 ≤ (syncBase r id out).playerCount := hpc
  rw [syncState_eq, hf]
  simp only
  generalize syncBase r id out = b at *
  rw [← htc]
  generalize adj (-out) none t0 = tb at *
  split
  · exact ⟨_, _, _, rfl, sync_breakD bwf bmem hidb⟩
  · split
    · exact ⟨_, _, _, rfl, sync_sameD bwf bmem⟩
    · rename_i hreq
      have hreq' : 0 < b.requiredTables := by omega
      split
      · split
        · exact ⟨_, _, _, rfl, sync_breakD bwf bmem hidb⟩
        · refine ⟨_, _, _, rfl, ?_⟩
          rw [take_norm]
          exact sync_takeD bwf bmem hidb _
      · split
        · refine ⟨_, _, _, rfl, ?_⟩
          exact sync_releaseD bwf bmem hidb _ (floor_nonneg hpcb hreq')
        · exact ⟨_, _, _, rfl, sync_sameD bwf bmem⟩

end Reg
end Pokerface
