import Pokerface.Proofs.SettleTie
import Pokerface.Proofs.PotsSpec
/-
  C02: per-level conservation and the level-by-level decomposition of `changed`
  (helper lemmas for the theorems `level_zero_sum`, `changed_by_levels` of Properties/C02.lean).
-/
namespace Pokerface

/-- The levels of one pot, each paired with the odd-chip offset of the pot at the moment
    `CalculatePot` reaches that level (`o` = the offset before the first level; pot.go
    `oddChipOffset`, 0 for a fresh pot). -/
def withOffsets : Int → List LevelInfo → List (LevelInfo × Int)
  | _, [] => []
  | o, l :: ls => (l, o) :: withOffsets (nextOffset l o) ls

theorem withOffsets_map_fst (o : Int) (ls : List LevelInfo) : (withOffsets o ls).map (·.1) = ls := by
  induction ls generalizing o with
  | nil => rfl
  | cons l ls ih => simp [withOffsets, ih]

theorem withOffsets_mem_fst {o : Int} {ls : List LevelInfo} {lo : LevelInfo × Int} (h : lo ∈ withOffsets o ls) :
    lo.1 ∈ ls := by
  have : lo.1 ∈ (withOffsets o ls).map (·.1) := List.mem_map_of_mem h
  rwa [withOffsets_map_fst] at this

/-- all updates of a pot, level by level -/
theorem potUpdates_eq_withOffsets (o : Int) (ls : List LevelInfo) :
    potUpdates o ls = (withOffsets o ls).flatMap (fun lo => levelUpdates lo.1 lo.2) := by
  induction ls generalizing o with
  | nil => rfl
  | cons l ls ih => simp [potUpdates, withOffsets, ih]

/-- a player's net amount from one pot is the sum of the net amounts from its levels -/
theorem net_potUpdates_withOffsets (o : Int) (ls : List LevelInfo) (i : Nat) :
    net (potUpdates o ls) i = ((withOffsets o ls).map (fun lo => net (levelUpdates lo.1 lo.2) i)).sum := by
  rw [potUpdates_eq_withOffsets, net_flatMap]

/-- the threaded offsets are never negative -/
theorem withOffsets_nonneg (ls : List LevelInfo) (hwf : ∀ l ∈ ls, ∃ xs, LevelWF xs l) (o : Int) (ho : 0 ≤ o) :
    ∀ lo ∈ withOffsets o ls, 0 ≤ lo.2 := by
  induction ls generalizing o with
  | nil => intro lo h; simp [withOffsets] at h
  | cons l ls ih =>
    obtain ⟨xs, hxs⟩ := hwf l (by simp)
    intro lo h
    simp only [withOffsets, List.mem_cons] at h
    rcases h with rfl | h
    · exact ho
    · exact ih (fun x hx => hwf x (by simp [hx])) _ (nextOffset_nonneg hxs o ho) lo h

/-- Summing `net` over a duplicate-free list of keys that covers all keys of the update list
    gives the sum of all deltas. -/
theorem sum_net_keys (us : List (Nat × Int)) (C : List Nat) (hn : C.Nodup) (hk : ∀ u ∈ us, u.1 ∈ C) :
    (C.map (fun i => net us i)).sum = (us.map (·.2)).sum := by
  induction us with
  | nil =>
    simp only [net_nil, List.map_nil, List.sum_nil]
    exact pots_sum_map_zero C
  | cons u us ih =>
    have h1 : (C.map (fun i => net (u :: us) i)).sum
        = (C.map (fun i => if u.1 = i then u.2 else 0)).sum + (C.map (fun i => net us i)).sum := by
      clear ih hk hn
      simp only [net_cons]
      induction C with
      | nil => simp
      | cons c C ihC =>
        simp only [List.map_cons, List.sum_cons, ihC]
        omega
    have h2 : ∀ (C : List Nat), C.Nodup → u.1 ∈ C → (C.map (fun i => if u.1 = i then u.2 else 0)).sum = u.2 := by
      intro C hn hm
      induction C with
      | nil => simp at hm
      | cons c C ihC =>
        simp only [List.nodup_cons] at hn
        simp only [List.map_cons, List.sum_cons]
        by_cases hc : u.1 = c
        · have hz : (C.map (fun i => if u.1 = i then u.2 else 0)).sum = 0 := by
            have : ∀ i ∈ C, (if u.1 = i then u.2 else 0) = 0 := by
              intro i hi
              have : u.1 ≠ i := by intro e; apply hn.1; rw [← hc, e]; exact hi
              simp [this]
            rw [List.map_congr_left this]
            exact pots_sum_map_zero C
          simp [hc] at hz ⊢
          omega
        · have hm' : u.1 ∈ C := by
            simp only [List.mem_cons] at hm
            rcases hm with h | h
            · exact absurd h hc
            · exact h
          simp [hc, ihC hn.2 hm']
    rw [h1, h2 C hn (hk u (by simp)), ih (fun v hv => hk v (by simp [hv]))]
    simp

/-- Conservation inside one level: what its contributors win and lose adds up to zero. -/
theorem level_net_sum_zero {xs : List (Nat × Int)} {l : LevelInfo} (h : LevelWF xs l) (o : Int) (ho : 0 ≤ o) :
    (l.contributors.map (fun i => net (levelUpdates l o) i)).sum = 0 := by
  have hk := levelUpdates_keys h o
  have hn : l.contributors.Nodup := h.perm.nodup_iff.mp h.nodup
  rw [sum_net_keys _ _ hn (fun u hu => hk.subset (List.mem_map_of_mem hu)), levelUpdates_sum h o ho]

end Pokerface
