/-
  Complete description of a successful `next`, and what it means for `playable`.
-/
import Pokerface.Proofs.SMButton

namespace Pokerface
namespace SM

/-- `e` is the first playable seat clockwise strictly after seat `d` (and before coming back to `d`). -/
def IsNextAfter (sm : SM) (d e : Nat) : Prop :=
  ∃ k, 1 ≤ k ∧ k < sm.max ∧ e = (d + k) % sm.max ∧ sm.playable e = true ∧
    ∀ j, 1 ≤ j → j < k → sm.playable ((d + j) % sm.max) = false

/-- `e` is the lowest-numbered playable seat. -/
def IsFirstPlayable (sm : SM) (e : Nat) : Prop :=
  sm.playable e = true ∧ ∀ j, j < e → sm.playable j = false

/-- occupied and not reserved (whatever the `active` flag). -/
def occ (sm : SM) (i : Nat) : Bool :=
  match sm.seats[i]? with
  | some s => !s.reserved && s.player.isSome
  | none => false

/-- Everything a successful `next` does, relative to the intermediate state `mid` after `nextDealer`:
dealer `d`, small blind at offset `ks`, big blind at offset `kb`. -/
structure NextOk (sm sm' : SM) (d ks kb : Nat) : Prop where
  mid_dealer : sm.nextDealer.1.dealer = some d
  found : sm.nextDealer.2 = true
  d_lt : d < sm.max
  mid_playable_d : sm.nextDealer.1.playable d = true
  mid_count : 2 ≤ sm.nextDealer.1.playableCount
  ks_lt : ks < kb
  kb_lt : kb < sm.max
  branch : (sm.nextDealer.1.playableCount = 2 ∧ ks = 0) ∨
    (sm.nextDealer.1.playableCount ≠ 2 ∧ 0 < ks ∧ sm.nextDealer.1.playable ((d + ks) % sm.max) = true ∧
      ∀ j, 0 < j → j < ks → sm.nextDealer.1.playable ((d + j) % sm.max) = false)
  bb_playable : sm.nextDealer.1.playable ((d + kb) % sm.max) = true
  between : ∀ j, ks < j → j < kb → sm.nextDealer.1.playable ((d + j) % sm.max) = false
  max_eq : sm'.max = sm.max
  dealer : sm'.dealer = some d
  sb : sm'.sb = some ((d + ks) % sm.max)
  bb : sm'.bb = some ((d + kb) % sm.max)
  len : sm'.seats.length = sm.seats.length
  seats : ∀ j, j < sm.max →
    sm'.seats[(d + j) % sm.max]? = (sm.nextDealer.1.seats[(d + j) % sm.max]?).map (renewF kb j)

theorem next_ok {sm : SM} (h : Inv sm) (he : (sm.step .next).2.1 = none) :
    ∃ d ks kb, NextOk sm (sm.step .next).1 d ks kb := by
  rcases step_next_cases h with ⟨he', _⟩ | ⟨hf, hc, sm', hr, he'⟩
  · rw [he'] at he; simp at he
  · obtain ⟨d, hd, hp⟩ := nextDealer_found sm hf
    have hinv := nextDealer_inv h
    have hmax := (nextDealer_actUp sm).max
    have hlen := (nextDealer_actUp sm).len
    obtain ⟨ks, kb, sm'', a1, a2, a3, a4, a5, hr', e1, e2, e3, e4, e5, e6⟩ :=
      renew_spec sm.nextDealer.1 d hd (hinv.dealer_lt d hd) hc
    rw [hr] at hr'; cases hr'
    rw [he']
    rw [hmax] at a2 a3 a4 a5 e1 e3 e4 e6
    exact ⟨d, ks, kb, hd, hf, by have := hinv.dealer_lt d hd; rwa [hmax] at this, hp, hc, a1, a2, a3, a4, a5,
      e1, e2, e3, e4, e5.trans hlen, e6⟩

/-- Playability after a successful `next` in terms of the state after `nextDealer`:
up to the big blind nothing changes; behind it every occupied non-reserved seat becomes playable. -/
theorem NextOk.playable_post {sm sm' : SM} {d ks kb : Nat} (h : NextOk sm sm' d ks kb) {j : Nat} (hj : j < sm.max) :
    sm'.playable ((d + j) % sm.max) =
      if j ≤ kb then sm.nextDealer.1.playable ((d + j) % sm.max) else sm.nextDealer.1.occ ((d + j) % sm.max) := by
  unfold playable occ
  rw [h.seats j hj]
  cases hs : sm.nextDealer.1.seats[(d + j) % sm.max]? with
  | none => simp
  | some s =>
    simp only [Option.map_some]
    unfold renewF
    by_cases h1 : j < kb
    · have : j ≤ kb := by omega
      simp only [h1, this, if_true]
      unfold deact
      split
      · next hn => simp at hn; simp [hn]
      · rfl
    · by_cases h2 : j = kb
      · simp [h2]
      · have : ¬ j ≤ kb := by omega
        simp [h1, h2, this, actv]

theorem NextOk.offset_zero {sm sm' : SM} {d ks kb : Nat} (h : NextOk sm sm' d ks kb) : (d + 0) % sm.max = d := by
  simp [Nat.mod_eq_of_lt h.d_lt]

theorem NextOk.playable_dealer {sm sm' : SM} {d ks kb : Nat} (h : NextOk sm sm' d ks kb) : sm'.playable d = true := by
  have := h.playable_post (j := 0) (by have := h.kb_lt; omega)
  rw [h.offset_zero] at this
  rw [this, if_pos (by omega)]; exact h.mid_playable_d

theorem NextOk.mid_playable_sb {sm sm' : SM} {d ks kb : Nat} (h : NextOk sm sm' d ks kb) :
    sm.nextDealer.1.playable ((d + ks) % sm.max) = true := by
  rcases h.branch with ⟨_, h0⟩ | ⟨_, _, hp, _⟩
  · rw [h0, h.offset_zero]; exact h.mid_playable_d
  · exact hp

theorem NextOk.playable_sb {sm sm' : SM} {d ks kb : Nat} (h : NextOk sm sm' d ks kb) :
    sm'.playable ((d + ks) % sm.max) = true := by
  rw [h.playable_post (by have := h.kb_lt; have := h.ks_lt; omega), if_pos (by have := h.ks_lt; omega)]
  exact h.mid_playable_sb

theorem NextOk.playable_bb {sm sm' : SM} {d ks kb : Nat} (h : NextOk sm sm' d ks kb) :
    sm'.playable ((d + kb) % sm.max) = true := by
  rw [h.playable_post h.kb_lt, if_pos (by omega)]
  exact h.bb_playable

/-- The big blind is always the first playable seat (of the new state) after the small blind. -/
theorem NextOk.bb_next_after_sb {sm sm' : SM} {d ks kb : Nat} (h : NextOk sm sm' d ks kb) :
    IsNextAfter sm' ((d + ks) % sm.max) ((d + kb) % sm.max) := by
  have h1 := h.ks_lt
  have h2 := h.kb_lt
  have hmod : ∀ j, ((d + ks) % sm.max + j) % sm.max = (d + (ks + j)) % sm.max := by
    intro j; rw [Nat.mod_add_mod, Nat.add_assoc]
  refine ⟨kb - ks, by omega, by rw [h.max_eq]; omega, ?_, h.playable_bb, ?_⟩
  · rw [h.max_eq, hmod]; congr 2; omega
  · intro j hj1 hj2
    rw [h.max_eq, hmod, h.playable_post (by omega), if_pos (by omega)]
    exact h.between (ks + j) (by omega) (by omega)

/-- In the ring branch the small blind is the first playable seat (of the new state) after the dealer. -/
theorem NextOk.sb_next_after_dealer {sm sm' : SM} {d ks kb : Nat} (h : NextOk sm sm' d ks kb)
    (h3 : sm.nextDealer.1.playableCount ≠ 2) : IsNextAfter sm' d ((d + ks) % sm.max) := by
  have h1 := h.ks_lt
  have h2 := h.kb_lt
  rcases h.branch with ⟨h', _⟩ | ⟨_, hpos, _, hall⟩
  · exact absurd h' h3
  · refine ⟨ks, hpos, by rw [h.max_eq]; omega, by rw [h.max_eq], h.playable_sb, ?_⟩
    intro j hj1 hj2
    rw [h.max_eq, h.playable_post (by omega), if_pos (by omega)]
    exact hall j hj1 hj2

theorem IsNextAfter.ne {sm : SM} {d e : Nat} (h : IsNextAfter sm d e) (hd : d < sm.max) : e ≠ d := by
  obtain ⟨k, h1, h2, rfl, _⟩ := h
  intro he
  have h0 : (d + 0) % sm.max = d := by simp [Nat.mod_eq_of_lt hd]
  have := offset_inj (m := sm.max) (d := d) h2 (by omega : 0 < sm.max) (he.trans h0.symm)
  omega


/-- Seats playable after `nextDealer` stay playable through `renewSeatStatus`. -/
theorem NextOk.playable_mono {sm sm' : SM} {d ks kb : Nat} (h : NextOk sm sm' d ks kb) (hinv : Inv sm) {i : Nat}
    (hp : sm.nextDealer.1.playable i = true) : sm'.playable i = true := by
  have hi : i < sm.max := by
    have := playable_lt (nextDealer_inv hinv).wf hp
    rwa [(nextDealer_actUp sm).max] at this
  obtain ⟨j, hj, rfl⟩ := exists_offset d hi
  rw [h.playable_post hj]
  split
  · exact hp
  · unfold playable at hp; unfold occ
    cases hs : sm.nextDealer.1.seats[(d + j) % sm.max]? with
    | none => simp [hs] at hp
    | some s => simp [hs] at hp ⊢; exact ⟨hp.1.2, hp.2⟩

theorem NextOk.count_le {sm sm' : SM} {d ks kb : Nat} (h : NextOk sm sm' d ks kb) (hinv : Inv sm) :
    sm.nextDealer.1.playableCount ≤ sm'.playableCount := by
  rw [playableCount_eq_countP, playableCount_eq_countP, h.max_eq, (nextDealer_actUp sm).max]
  apply List.countP_mono_left
  intro i _ hp
  exact h.playable_mono hinv hp


/-- With exactly two playable seats `d ≠ b`, every playable seat is one of them. -/
theorem playable_two {sm : SM} (hw : sm.WF) (hc : sm.playableCount = 2) {d b i : Nat}
    (hd : sm.playable d = true) (hb : sm.playable b = true) (hdb : d ≠ b) (hi : sm.playable i = true) :
    i = d ∨ i = b := by
  unfold playableCount at hc
  obtain ⟨x, y, hxy⟩ := List.length_eq_two.mp hc
  have hnd : ((List.range sm.max).filter sm.playable).Nodup := List.Nodup.filter _ List.nodup_range
  have hmem : ∀ {z}, sm.playable z = true → z = x ∨ z = y := by
    intro z hz
    have : z ∈ (List.range sm.max).filter sm.playable :=
      List.mem_filter.mpr ⟨List.mem_range.mpr (playable_lt hw hz), hz⟩
    rw [hxy] at this; simpa using this
  rw [hxy] at hnd
  have hne : x ≠ y := by simpa using hnd
  have h1 := hmem hd
  have h2 := hmem hb
  have h3 := hmem hi
  omega

/-- No seat is occupied, not reserved and inactive ("nobody is waiting to be let in"). -/
def NoWaiting (sm : SM) : Prop :=
  ∀ (i : Nat) (s : Seat), sm.seats[i]? = some s → s.player.isSome = true → s.reserved = false → s.active = true

theorem ActUp.noWaiting {sm sm' : SM} (h : ActUp sm sm') (hn : NoWaiting sm) : NoWaiting sm' := by
  intro i s hs hp hr
  rcases h.seat i with h' | h'
  · rw [h'] at hs; exact hn i s hs hp hr
  · rw [h'] at hs
    cases hq : sm.seats[i]? with
    | none => rw [hq] at hs; cases hs
    | some q => rw [hq] at hs; simp at hs; subst hs; rfl

theorem NoWaiting.occ_eq {sm : SM} (hn : NoWaiting sm) (i : Nat) : sm.occ i = sm.playable i := by
  unfold occ playable
  cases hs : sm.seats[i]? with
  | none => rfl
  | some s =>
    simp only
    cases hp : s.player.isSome <;> cases hr : s.reserved <;> simp
    exact hn i s hs hp hr

/-- When nobody is waiting after `nextDealer`, `renewSeatStatus` does not change who is playable. -/
theorem NextOk.playable_eq_of_noWaiting {sm sm' : SM} {d ks kb : Nat} (h : NextOk sm sm' d ks kb)
    (hn : NoWaiting sm.nextDealer.1) {j : Nat} (hj : j < sm.max) :
    sm'.playable ((d + j) % sm.max) = sm.nextDealer.1.playable ((d + j) % sm.max) := by
  rw [h.playable_post hj]
  split
  · rfl
  · exact hn.occ_eq _

theorem NextOk.count_eq_of_noWaiting {sm sm' : SM} {d ks kb : Nat} (h : NextOk sm sm' d ks kb)
    (hn : NoWaiting sm.nextDealer.1) : sm'.playableCount = sm.nextDealer.1.playableCount := by
  rw [playableCount_eq_countP, playableCount_eq_countP, h.max_eq, (nextDealer_actUp sm).max]
  apply List.countP_congr
  intro i hi
  have hi' : i < sm.max := List.mem_range.mp hi
  obtain ⟨j, hj, rfl⟩ := exists_offset d hi'
  rw [h.playable_eq_of_noWaiting hn hj]

end SM
end Pokerface
