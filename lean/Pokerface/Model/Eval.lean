import Pokerface.Model.Cards
/-
  Model of combination/power.go and combination/element.go, function by function.

  `sort.Slice` on at most 12 elements is Go's insertion sort (stable); `isort`
  below is that algorithm (see DESIGN §4).  The ranking table `pr` and the
  per-category sizes `lvl` (Go: `CombinationLevel`) are parameters; the
  regenerated file `Generated/Tables.lean` supplies the values of the current
  source tree.
-/
namespace Pokerface

/-- Insert `x` into a list sorted w.r.t. `lt`, after every element that is not
    `lt`-greater (what the inner loop of Go's `insertionSort` does). -/
def insertBy {α : Type} (lt : α → α → Bool) (x : α) : List α → List α
  | [] => [x]
  | y :: ys => if lt x y then x :: y :: ys else y :: insertBy lt x ys

/-- Go `insertionSort` with `less = lt`. -/
def isort {α : Type} (lt : α → α → Bool) (l : List α) : List α :=
  l.foldl (fun acc x => insertBy lt x acc) []

/-- power.go: `sort.Slice(cards, func(i,j) bool { return cards[i].Rank > cards[j].Rank })`. -/
def sortCards (cards : List Card) : List Card :=
  isort (fun a b => decide (a.rank > b.rank)) cards

structure Elem where
  rank : Nat
  count : Nat
deriving DecidableEq, Repr

/-- element.go: one step of the loop of `GetElementsByRank`. -/
def addElem (es : List Elem) (r : Nat) : List Elem :=
  match es with
  | [] => [{ rank := r, count := 1 }]
  | e :: rest => if e.rank = r then { e with count := e.count + 1 } :: rest else e :: addElem rest r

/-- element.go: `GetElementsByRank` on the ranks of the (already sorted) cards. -/
def elements (ranks : List Nat) : List Elem :=
  isort (fun a b => decide (a.count > b.count)) (ranks.foldl addElem [])

/-- power.go: `isFlush`. -/
def isFlush (cards : List Card) : Bool :=
  match cards with
  | [] => false
  | c :: _ => cards.all (fun d => d.suit == c.suit)

/-- power.go: the "check each rank" loop of `isStraight`. -/
def consecutiveFrom : Nat → List Nat → Bool
  | _, [] => true
  | cur, r :: rs => r == cur && consecutiveFrom (cur - 1) rs

/-- power.go: `isStraight` on the ranks of the sorted cards.
    (`cur--` on a Go `int` can go below zero; ranks are ≥ 0 so a negative `cur`
    never matches — with `Nat` subtraction `0 - 1 = 0` could match a rank 0, which
    only an invalid card has; the domain excludes those.) -/
def isStraight (ranks : List Nat) : Bool :=
  match ranks with
  | [a, b, c, d, e] =>
    if a < 5 then false
    else if a == 14 && b == 5 then consecutiveFrom b [b, c, d, e]
    else consecutiveFrom a [a, b, c, d, e]
  | _ => false

def hasCount (es : List Elem) (n : Nat) : Bool := es.any (fun e => e.count == n)
def pairCount (es : List Elem) : Nat := (es.filter (fun e => e.count == 2)).length

/-- power.go: the category chain of `CalculatePower`. -/
def category (ranks : List Nat) (flush : Bool) : Cat :=
  let es := elements ranks
  let c0 : Cat := if flush then .flush else .highCard
  let c1 : Cat := if isStraight ranks then (if c0 = .flush then .straightFlush else .straight) else c0
  if hasCount es 4 then .quads
  else if hasCount es 3 && hasCount es 2 then .fullHouse
  else if hasCount es 3 then .trips
  else if pairCount es == 2 then .twoPair
  else if pairCount es == 1 then .pair
  else c1

/-- power.go: `CalculatePowerLevels`. -/
def powerLevels (lvl : Cat → Nat) (pr : List Cat) (c : Cat) : Nat :=
  let rec go : List Cat → Nat → Nat
    | [], _ => 0
    | x :: xs, acc => if x = c then acc else go xs (acc + lvl x)
  go pr 0

/-- power.go: default branch of `CalculatePowerScore`: Σ (rank-2)·13^(n-i-1). -/
def positional : List Elem → Nat
  | [] => 0
  | e :: es => (e.rank - 2) * 13 ^ es.length + positional es

/-- power.go: `CalculatePowerScore`. -/
def powerScore (c : Cat) (es : List Elem) : Nat :=
  if c = .straight ∨ c = .straightFlush then
    let maxRank := es.foldl (fun m e => if m < e.rank then e.rank else m) 0
    let total := es.foldl (fun t e => t + e.rank) 0
    if maxRank == 14 && total == 28 then 0 else maxRank - 5
  else positional es

structure Power where
  cat : Cat
  score : Nat
  cards : List Card
deriving Repr

/-- Score and category as functions of the sorted ranks and the flush flag only. -/
def scoreOfRanks (lvl : Cat → Nat) (pr : List Cat) (ranks : List Nat) (flush : Bool) : Cat × Nat :=
  let c := category ranks flush
  (c, powerScore c (elements ranks) + powerLevels lvl pr c)

/-- power.go: `CalculatePower`. -/
def calculatePower (lvl : Cat → Nat) (pr : List Cat) (cards : List Card) : Power :=
  let sorted := sortCards cards
  let (c, s) := scoreOfRanks lvl pr (sorted.map (·.rank)) (isFlush sorted)
  { cat := c, score := s, cards := sorted }

end Pokerface
