/-
  Environment model of DESIGN §5 for the regulator: tables that follow the
  regulator's instructions (the `killPlayers` helper of `regulator_test.go`,
  the `rgRunner` of harness/cmd/trace/rg.go).

  * `Env.members` : the real membership of every open table (creation order),
    `Env.alive`   : registered and not eliminated,
    `Env.registered` : ghost, every id ever accepted by `AddPlayers`.
  * The environment carries out every callback (`applyCall`) and, for a sync,
    eliminates members, adds the returned new players, and releases exactly
    the returned count of members through `ReleasePlayers` (all of them, and the
    table disappears, when the regulator broke the table).
  * WHICH members are eliminated / released is arbitrary: the operation carries
    the split explicitly (`elim`/`stay`, `rel`/`keep`) and `EOp.ok` only demands
    that it is a split (a permutation), so theorems over all `ok` operations
    quantify over every choice.
  Core-only.
-/
import Pokerface.Model.Regulator

namespace Pokerface

structure Env where
  members : List (Nat × List Nat) := []
  alive : List Nat := []
  registered : List Nat := []
deriving Repr, Inhabited, DecidableEq

namespace Env

/-- The environment's reaction to one callback. -/
def applyCall (m : List (Nat × List Nat)) : RCall → List (Nat × List Nat)
  | .requestTable id ps => m ++ [(id, ps)]
  | .assign t ps => m.map fun e => if e.1 = t then (e.1, e.2 ++ ps) else e

def applyCalls (m : List (Nat × List Nat)) (cs : List RCall) : List (Nat × List Nat) :=
  cs.foldl applyCall m

def membersOf (e : Env) (t : Nat) : Option (List Nat) :=
  (e.members.find? (·.1 == t)).map (·.2)

/-- every player sitting at some table -/
def seated (e : Env) : List Nat := (e.members.map (·.2)).flatten

end Env

/-- Regulator together with the tables that follow it. -/
structure RSys where
  r : Reg
  env : Env := {}
deriving Repr, Inhabited

/-- Operations of the combined system.  `sync t elim stay rel keep ch`:
    table `t` (members `≈ elim ++ stay`) reports `|elim|` eliminations; after
    adding the returned new players its members are `≈ rel ++ keep`, `rel` is
    released through `ReleasePlayers` (dispatch choices `ch`). -/
inductive EOp
  | add (players choices : List Nat)
  | status (s : RStatus) (choices : List Nat)
  | sync (t : Nat) (elim stay rel keep choices : List Nat)
deriving Repr, Inhabited

/-- players named by a callback -/
def RCall.players : RCall → List Nat
  | .requestTable _ ps => ps
  | .assign _ ps => ps

/-- all players handed out by a list of callbacks, in order -/
def handed (cs : List RCall) : List Nat := (cs.map RCall.players).flatten

namespace RSys

def init (max min : Nat) : RSys := { r := { max := max, min := min } }

/-- the regulator's answer to the sync part of a `sync` operation -/
def syncAnswer (s : RSys) (t : Nat) (elim : List Nat) : Reg × Option RErr × Int × List Nat :=
  s.r.syncState t elim.length

/-- the table was broken by the sync -/
def broken (s : RSys) (t : Nat) (elim : List Nat) : Bool :=
  ((s.syncAnswer t elim).1.findTable t).isNone

/-- Validity of an operation in a state (DESIGN §5 domain). -/
def ok (s : RSys) : EOp → Prop
  | .add ps ch =>
      ps.Nodup ∧ (∀ p ∈ ps, p ∉ s.env.registered) ∧ (s.r.addPlayers ps ch).1.badChoice = false
  | .status st ch =>
      (st ≠ .pending ∨ s.r.status = .pending) ∧ (s.r.setStatus st ch).badChoice = false
  | .sync t elim stay rel keep ch =>
      match s.env.membersOf t with
      | none => True
      | some ms =>
        let (r1, _, relCount, nw) := s.syncAnswer t elim
        ms.Perm (elim ++ stay) ∧ (stay ++ nw).Perm (rel ++ keep) ∧ (rel.length : Int) = relCount ∧
        (s.broken t elim = true → keep = []) ∧
        ((rel.isEmpty ∧ s.broken t elim = false) ∨ (r1.releasePlayers rel ch).badChoice = false)

instance (s : RSys) (op : EOp) : Decidable (s.ok op) := by
  cases op <;> simp only [ok] <;> try infer_instance
  · split <;> infer_instance

def step (s : RSys) : EOp → RSys
  | .add ps ch =>
      match s.r.addPlayers ps ch with
      | (r', some _) => { r := r', env := s.env }
      | (r', none) =>
        { r := r', env := { members := Env.applyCalls s.env.members r'.calls,
                            alive := s.env.alive ++ ps, registered := s.env.registered ++ ps } }
  | .status st ch =>
      let r' := s.r.setStatus st ch
      { r := r', env := { s.env with members := Env.applyCalls s.env.members r'.calls } }
  | .sync t elim _stay rel keep ch =>
      match s.env.membersOf t with
      | none => { r := (s.syncAnswer t elim).1, env := s.env }
      | some _ =>
        let r1 := (s.syncAnswer t elim).1
        let alive := s.env.alive.filter (fun p => !elim.contains p)
        let brk := s.broken t elim
        let m1 := if brk then s.env.members.filter (fun e => e.1 != t)
                  else s.env.members.map fun e => if e.1 = t then (e.1, keep) else e
        if rel.isEmpty ∧ brk = false then
          { r := r1, env := { s.env with members := m1, alive := alive } }
        else
          let r2 := r1.releasePlayers rel ch
          { r := r2, env := { s.env with members := Env.applyCalls m1 r2.calls, alive := alive } }

/-! Observations of one step (used to state properties about what happened inside it). -/

/-- the membership sheet at the moment the operation's callbacks start
    (for a sync: after eliminations, arrivals and departures at the syncing table) -/
def baseMembers (s : RSys) : EOp → List (Nat × List Nat)
  | .add _ _ => s.env.members
  | .status _ _ => s.env.members
  | .sync t elim _ _ keep _ =>
      match s.env.membersOf t with
      | none => s.env.members
      | some _ =>
        if s.broken t elim then s.env.members.filter (fun e => e.1 != t)
        else s.env.members.map fun e => if e.1 = t then (e.1, keep) else e

/-- the players entering the waiting queue in the operation -/
def incoming (s : RSys) : EOp → List Nat
  | .add ps ch => if (s.r.addPlayers ps ch).2.isSome then [] else ps
  | .status _ _ => []
  | .sync t _ _ rel _ _ =>
      match s.env.membersOf t with
      | none => []
      | some _ => rel

/-- the new players returned by `SyncState` in the operation -/
def returned (s : RSys) : EOp → List Nat
  | .sync t elim _ _ _ _ =>
      match s.env.membersOf t with
      | none => []
      | some _ => (s.syncAnswer t elim).2.2.2
  | _ => []

/-- States reachable from a fresh regulator by valid operations in which the status only moves
    forward (`ok`): the domain of C19 and C20.  ANY setting with `1 ≤ max` (with `max = 0` the Go
    code divides by zero in `float64`, and converts `±Inf`/`NaN` to `int`, in every operation that
    looks at the number of tables required: outside the model) and ANY `min` (no theorem of C19 or
    C20 needs `2 ≤ min ≤ max`). -/
inductive Reachable : RSys → Prop
  | init (max min : Nat) (h1 : 1 ≤ max) : Reachable (init max min)
  | step {s : RSys} (op : EOp) : Reachable s → s.ok op → Reachable (s.step op)

/-! The widest domain (C09): as `ok`, but `SetStatus` may name ANY status at any time, as the Go
    code accepts it — in particular `SetStatus(Pending)` on a running competition. -/

/-- Validity of an operation without the restriction on the direction of status changes. -/
def okAny (s : RSys) : EOp → Prop
  | .status st ch => (s.r.setStatus st ch).badChoice = false
  | op => s.ok op

instance (s : RSys) (op : EOp) : Decidable (s.okAny op) := by
  cases op <;> simp only [okAny] <;> infer_instance

theorem okAny_of_ok {s : RSys} {op : EOp} (h : s.ok op) : s.okAny op := by
  cases op with
  | status st ch => exact h.2
  | add ps ch => exact h
  | sync t elim stay rel keep ch => exact h

/-- States reachable from a fresh regulator with any setting `1 ≤ max` by operations valid in the
    wide sense (`okAny`). -/
inductive ReachableAny : RSys → Prop
  | init (max min : Nat) (h1 : 1 ≤ max) : ReachableAny (init max min)
  | step {s : RSys} (op : EOp) : ReachableAny s → s.okAny op → ReachableAny (s.step op)

theorem Reachable.any {s : RSys} (h : Reachable s) : ReachableAny s := by
  induction h with
  | init max min h1 => exact .init max min h1
  | step op _ hok ih => exact .step op ih (okAny_of_ok hok)

/-! Notions for C20 (rebalancing): elimination-free syncs and whether they ask for anything. -/

/-- a sync without eliminations -/
def quietOp : EOp → Bool
  | .sync _ elim _ _ _ _ => elim.isEmpty
  | _ => false

/-- the sync asks its table to release, receive or break -/
def asks (s : RSys) : EOp → Bool
  | .sync t elim _ _ _ _ =>
      (s.env.membersOf t).isSome &&
        (decide ((s.syncAnswer t elim).2.2.1 ≠ 0) || !(s.syncAnswer t elim).2.2.2.isEmpty || s.broken t elim)
  | _ => false

/-- number of operations of a script that ask for something -/
def askCount : RSys → List EOp → Nat
  | _, [] => 0
  | s, op :: ops => (if s.asks op then 1 else 0) + askCount (s.step op) ops

/-- running a script of operations -/
def run (s : RSys) (ops : List EOp) : RSys := ops.foldl step s

/-- every operation of the script is valid when its turn comes -/
def allOk : RSys → List EOp → Prop
  | _, [] => True
  | s, op :: ops => s.ok op ∧ allOk (s.step op) ops

instance decAllOk : (s : RSys) → (ops : List EOp) → Decidable (allOk s ops)
  | _, [] => isTrue trivial
  | s, op :: ops =>
    match (inferInstance : Decidable (s.ok op)), decAllOk (s.step op) ops with
    | isTrue h1, isTrue h2 => isTrue ⟨h1, h2⟩
    | isFalse h1, _ => isFalse fun h => h1 h.1
    | _, isFalse h2 => isFalse fun h => h2 h.2

theorem Reachable.run {s : RSys} (h : Reachable s) : ∀ (ops : List EOp), allOk s ops → Reachable (s.run ops) := by
  intro ops
  induction ops generalizing s with
  | nil => intro _; exact h
  | cons op ops ih => intro hok; exact ih (Reachable.step op h hok.1) hok.2

/-- every operation of the script is valid in the wide sense when its turn comes -/
def allOkAny : RSys → List EOp → Prop
  | _, [] => True
  | s, op :: ops => s.okAny op ∧ allOkAny (s.step op) ops

instance decAllOkAny : (s : RSys) → (ops : List EOp) → Decidable (allOkAny s ops)
  | _, [] => isTrue trivial
  | s, op :: ops =>
    match (inferInstance : Decidable (s.okAny op)), decAllOkAny (s.step op) ops with
    | isTrue h1, isTrue h2 => isTrue ⟨h1, h2⟩
    | isFalse h1, _ => isFalse fun h => h1 h.1
    | _, isFalse h2 => isFalse fun h => h2 h.2

theorem ReachableAny.run {s : RSys} (h : ReachableAny s) :
    ∀ (ops : List EOp), allOkAny s ops → ReachableAny (s.run ops) := by
  intro ops
  induction ops generalizing s with
  | nil => intro _; exact h
  | cons op ops ih => intro hok; exact ih (ReachableAny.step op h hok.1) hok.2

end RSys
end Pokerface
