/-
  Model of deck.go `ShuffleCards`:

      rand.Shuffle(len(cards), func(i, j int) { cards[i], cards[j] = cards[j], cards[i] })

  `rand.Shuffle(n, swap)` calls `swap(i, j)` some number of times with `0 ≤ i, j < n`
  (Fisher–Yates: `for i := n-1; i > 0; i-- { j := rand(i+1); swap(i, j) }`) and does nothing
  else with the slice — this is the Go library's contract and is TRUSTED, not verified.
  The model therefore takes the sequence of index pairs as an arbitrary input.
-/
namespace Pokerface

/-- The swap closure of `ShuffleCards`: `cards[i], cards[j] = cards[j], cards[i]`.
    (With an index out of range the Go closure panics; `rand.Shuffle` never passes one.
    The model leaves the list alone in that case.) -/
def swapAt {α : Type} (l : List α) (i j : Nat) : List α :=
  if h : i < l.length ∧ j < l.length then (l.set i (l[j]'h.2)).set j (l[i]'h.1) else l

/-- The effect of a whole run of `rand.Shuffle` that called the closure with these index
    pairs, in this order. -/
def applySwaps {α : Type} (l : List α) : List (Nat × Nat) → List α
  | [] => l
  | (i, j) :: swaps => applySwaps (swapAt l i j) swaps

/-- The index pairs Fisher–Yates produces from the random draws `js` (`js[k]` is the draw for
    `i = n-1-k`): one instance of the swap sequences `applySwaps` ranges over. -/
def fisherYates (n : Nat) (js : List Nat) : List (Nat × Nat) :=
  (List.range (n - 1)).zipWith (fun k j => (n - 1 - k, j % (n - k))) js

end Pokerface
