import Pokerface.Model.Eval
/-
  Model of pot/level_list.go, pot/level.go, pot/pot.go.

  Go maps (`contributors`, `foldedPlayers`, `Pot.Contributors`) are association
  lists kept sorted by key; everything the Go code computes from them is
  independent of map iteration order except the order of `Level.Contributors`,
  which is only ever used for membership (and is canonicalised to ascending order).
-/
namespace Pokerface

structure Level where
  level : Int
  wager : Int
  total : Int
  contributors : List Nat
deriving DecidableEq, Repr, Inhabited

structure Pot where
  level : Int
  wager : Int
  total : Int
  contributors : List (Nat × Int)
  levels : List Level            -- `json:"-"`
deriving DecidableEq, Repr, Inhabited

structure LevelList where
  contribs : List (Nat × Int) := []
  folded : List Nat := []
  levels : List Level := []
deriving Repr, Inhabited

/-- map assignment `m[k] = v` on a key-sorted association list. -/
def assocSet {β : Type} (m : List (Nat × β)) (k : Nat) (v : β) : List (Nat × β) :=
  match m with
  | [] => [(k, v)]
  | (k', v') :: rest =>
    if k < k' then (k, v) :: (k', v') :: rest
    else if k = k' then (k, v) :: rest
    else (k', v') :: assocSet rest k v

def assocGet? {β : Type} (m : List (Nat × β)) (k : Nat) : Option β :=
  (m.find? (fun kv => kv.1 == k)).map (·.2)

/-- `m[k] += v` (a missing key reads as 0). -/
def assocAdd (m : List (Nat × Int)) (k : Nat) (v : Int) : List (Nat × Int) :=
  assocSet m k ((assocGet? m k).getD 0 + v)

def setInsert (s : List Nat) (k : Nat) : List Nat :=
  match s with
  | [] => [k]
  | k' :: rest => if k < k' then k :: k' :: rest else if k = k' then s else k' :: setInsert rest k

/-- level_list.go: the "calculate total wagers" loop of `AddContributor`. -/
def retotal : Int → List Level → List Level
  | _, [] => []
  | prev, l :: ls =>
    { l with wager := l.level - prev, total := (l.contributors.length : Int) * (l.level - prev) }
      :: retotal l.level ls

/-- level_list.go: `AddContributor`. -/
def LevelList.addContributor (ll : LevelList) (wager : Int) (idx : Nat) (fold : Bool) : LevelList :=
  let contribs := assocSet ll.contribs idx wager
  let folded := if fold then setInsert ll.folded idx else ll.folded
  -- AssertLevel
  let lv := if ll.levels.any (fun l => l.level == wager) then ll.levels
            else ll.levels ++ [{ level := wager, wager := 0, total := 0, contributors := [] }]
  -- sort.Slice by level
  let lv := isort (fun a b => decide (a.level < b.level)) lv
  -- contributors of each level
  let lv := lv.map fun l =>
    { l with contributors := (contribs.filter (fun kv => decide (l.level ≤ kv.2))).map (·.1) }
  { contribs := contribs, folded := folded, levels := retotal 0 lv }

/-- level_list.go: first loop of `GetPots`. -/
def origPot (folded : List Nat) (l : Level) : Pot :=
  { level := l.level, wager := l.wager, total := l.total,
    contributors := (l.contributors.filter (fun i => !folded.contains i)).map (fun i => (i, l.wager)),
    levels := [l] }

def mergeInto (prev p : Pot) : Pot :=
  { level := p.level, wager := prev.wager + p.wager, total := prev.total + p.total,
    levels := prev.levels ++ p.levels,
    contributors := p.contributors.foldl (fun m kv => assocAdd m kv.1 kv.2) prev.contributors }

/-- level_list.go: merge loop of `GetPots`; `acc` holds the finished pots in reverse, `prev` the open one. -/
def mergePots : Option Pot → List Pot → List Pot → List Pot
  | none, acc, [] => acc.reverse
  | some prev, acc, [] => (prev :: acc).reverse
  | none, acc, p :: ps => mergePots (some p) acc ps
  | some prev, acc, p :: ps =>
    if prev.contributors.length ≠ p.contributors.length then mergePots (some p) (prev :: acc) ps
    else mergePots (some (mergeInto prev p)) acc ps

/-- level_list.go: inner loop of "put folded players back". -/
def putFolded (idx : Nat) (wager : Int) : List Pot → List Pot
  | [] => []
  | p :: ps =>
    let p' := { p with contributors := assocSet p.contributors idx wager }
    if wager < p.level then p' :: ps else p' :: putFolded idx wager ps

/-- level_list.go: `GetPots`. -/
def LevelList.getPots (ll : LevelList) : List Pot :=
  let pots := mergePots none [] (ll.levels.map (origPot ll.folded))
  ll.folded.foldl (fun ps idx =>
    let w := (assocGet? ll.contribs idx).getD 0
    if w = 0 then ps else putFolded idx w ps) pots

/-- What pot.go `updatePots` does: one `AddContributor` per player in seat order, then `GetPots`. -/
def potsOf (entries : List (Nat × Int × Bool)) : List Pot :=
  (entries.foldl (fun ll e => ll.addContributor e.2.1 e.1 e.2.2) ({} : LevelList)).getPots

end Pokerface
