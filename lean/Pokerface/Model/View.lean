import Pokerface.Model.Game
/-
  Model of game_state.go: `AsPlayer`, `AsObserver` (in-place redaction becomes a
  function returning the redacted state).
-/
namespace Pokerface
namespace Game

def hidePlayer (p : Player) : Player := { p with hole := [], comb := none }

def stripSecrets (g : Game) : Game :=
  { g with opts := { g.opts with deck := [] }, burned := [] }

/-- game_state.go: `AsPlayer`. -/
def asPlayer (g : Game) (idx : Nat) : Game :=
  let g := g.stripSecrets
  if g.event = .gameClosed then
    g.mapP fun p => if p.idx = idx then p else if p.fold then hidePlayer p else p
  else
    g.mapP fun p => if p.idx = idx then p else hidePlayer p

/-- game_state.go: `AsObserver`. -/
def asObserver (g : Game) : Game :=
  let g := g.stripSecrets
  if g.event = .gameClosed then
    g.mapP fun p => if p.fold then hidePlayer p else p
  else
    g.mapP hidePlayer

end Game
end Pokerface
