import Pokerface.Model.Pots
/-
  Model of settlement/{settlement,rank,level,pot}.go and of settlement.go
  (`CalculateGameResults`) in the root package.
-/
namespace Pokerface

structure RankGroup where
  score : Int
  contributors : List Nat
deriving Repr, DecidableEq, Inhabited

/-- rank.go: `AddContributor`. -/
def rankAdd (gs : List RankGroup) (score : Int) (idx : Nat) : List RankGroup :=
  match gs with
  | [] => [{ score := score, contributors := [idx] }]
  | g :: rest =>
    if g.score = score then { g with contributors := g.contributors ++ [idx] } :: rest
    else g :: rankAdd rest score idx

structure LevelInfo where
  level : Int
  wager : Int
  total : Int
  contributors : List Nat
  groups : List RankGroup := []
deriving Repr, Inhabited

structure Winner where
  idx : Nat
  withdraw : Int
deriving Repr, DecidableEq, Inhabited

structure PotResult where
  total : Int
  levels : List LevelInfo
  winners : List Winner := []
deriving Repr, Inhabited

structure PlayerResult where
  idx : Nat
  finalStack : Int
  changed : Int
deriving Repr, DecidableEq, Inhabited

structure Result where
  players : List PlayerResult := []
  pots : List PotResult := []
deriving Repr, Inhabited

/-- settlement.go: `AddPlayer`. -/
def Result.addPlayer (r : Result) (idx : Nat) (bankroll : Int) : Result :=
  let pr : PlayerResult := { idx := idx, finalStack := bankroll, changed := 0 }
  { r with players := r.players ++ [pr] }

/-- settlement.go: `AddPot`. -/
def Result.addPot (r : Result) (total : Int) (levels : List Level) : Result :=
  let lis : List LevelInfo := levels.map fun l =>
    ({ level := l.level, wager := l.wager, total := l.total, contributors := l.contributors } : LevelInfo)
  let pr : PotResult := { total := total, levels := lis }
  { r with pots := r.pots ++ [pr] }

/-- settlement.go / level.go: `UpdateScore`. -/
def Result.updateScore (r : Result) (idx : Nat) (score : Int) : Result :=
  { r with pots := r.pots.map fun p =>
      { p with levels := p.levels.map fun l =>
          if l.contributors.contains idx then { l with groups := rankAdd l.groups score idx } else l } }

/-- pot.go: `UpdateWinner`. -/
def updateWinner (ws : List Winner) (idx : Nat) (withdraw : Int) : List Winner :=
  match ws with
  | [] => [{ idx := idx, withdraw := withdraw }]
  | w :: rest => if w.idx = idx then { w with withdraw := w.withdraw + withdraw } :: rest
                 else w :: updateWinner rest idx withdraw

/-- settlement.go: the player loop of `Update` (first entry with that idx). -/
def bumpPlayer (ps : List PlayerResult) (idx : Nat) (d : Int) : List PlayerResult :=
  match ps with
  | [] => []
  | p :: rest => if p.idx = idx then { p with finalStack := p.finalStack + d, changed := p.changed + d } :: rest
                 else p :: bumpPlayer rest idx d

/-- Accumulator of `Calculate`: the player results and the winners of the pot at hand. -/
structure Acc where
  players : List PlayerResult
  winners : List Winner
  offset : Int := 0               -- pot.go `oddChipOffset`: winner position that receives the next odd chip

/-- settlement.go: `Update`. -/
def Acc.update (a : Acc) (idx : Nat) (wager withdraw : Int) : Acc :=
  { a with winners := if withdraw > 0 then updateWinner a.winners idx (withdraw + wager) else a.winners,
           players := bumpPlayer a.players idx withdraw }

/-- rank.go: `Calculate` — groups by score, best first. -/
def sortGroups (gs : List RankGroup) : List RankGroup :=
  isort (fun a b => decide (a.score > b.score)) gs

/-- settlement.go: loop of `CalculateWinnerRewards`: odd chips go round-robin starting at `offset`. -/
def payWinners (wager based remainder count offset : Int) : Acc → Nat → List Nat → Acc
  | a, _, [] => a
  | a, i, w :: ws =>
    let reward := if Int.tmod ((i : Int) - offset + count) count < remainder then based + 1 else based
    payWinners wager based remainder count offset (a.update w wager (reward - wager)) (i + 1) ws

/-- settlement.go: `CalculateWinnerRewards` then `CalculateLoserResults` for one level.
    A level without any ranked contributor divides by zero in Go; the model leaves the
    accumulator unchanged (outside the domain: every level has a contributor). -/
def settleLevel (a : Acc) (l : LevelInfo) : Acc :=
  match sortGroups l.groups with
  | [] => a
  | g :: losers =>
    let n : Int := g.contributors.length
    let based := Int.tdiv l.total n
    let remainder := Int.tmod l.total n
    let offset := Int.tmod a.offset n
    let a := payWinners l.wager based remainder n offset a 0 g.contributors
    let a := { a with offset := Int.tmod (offset + remainder) n }
    (losers.flatMap (·.contributors)).foldl (fun a i => a.update i l.wager (-l.wager)) a

/-- settlement.go: `CalculatePot`. -/
def settlePot (players : List PlayerResult) (p : PotResult) : List PlayerResult × PotResult :=
  let a := p.levels.foldl settleLevel { players := players, winners := p.winners }
  (a.players, { p with winners := a.winners })

/-- settlement.go: `Calculate`. -/
def Result.calculate (r : Result) : Result :=
  let rec go : List PlayerResult → List PotResult → List PotResult → Result
    | ps, done, [] => { players := ps, pots := done.reverse }
    | ps, done, p :: rest =>
      let (ps', p') := settlePot ps p
      go ps' (p' :: done) rest
  go r.players [] r.pots

/-- Root package settlement.go: `CalculateGameResults` on (idx, bankroll, fold, power) rows. -/
def gameResults (pots : List Pot) (rows : List (Nat × Int × Bool × Int)) : Result :=
  let r : Result := pots.foldl (fun r p => r.addPot p.total p.levels) {}
  let r := rows.foldl (fun r row =>
    let r := r.addPlayer row.1 row.2.1
    r.updateScore row.1 (if row.2.2.1 then 0 else row.2.2.2)) r
  r.calculate

end Pokerface
