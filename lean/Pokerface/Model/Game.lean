import Pokerface.Model.Combos
import Pokerface.Model.Settlement
/-
  Model of the hand engine: game.go, player.go, action.go, event.go, pot.go,
  settlement.go, power.go — function by function, same names, same branch
  structure.  Mutation through `*GameState` becomes a function returning the new
  state.  The event chain `EmitEvent → triggerEvent → on… → EmitEvent` is acyclic
  between wait points, so it is a set of plain definitions in dependency order;
  each sets `event` as the Go code does, so the value at the wait point (or at
  the point an error surfaces) is the same.

  Not modelled (never read by the engine; masked in the correspondence):
  `DidAction`, `VPIP`, `LastAction`, `MaxWager`, `GameID`, `CreatedAt`,
  `UpdatedAt`, `BurnCount`.  The shuffle is not part of `start`: the deck handed
  to `start` is the deck as it is after `Initialize` shuffled it.
-/
namespace Pokerface

inductive Act | pass | fold | check | call | allin | bet | raise | pay
deriving DecidableEq, Repr, Inhabited

inductive Ev
  | none | started | initialized | prepared | anteRequested | antePaid | blindsRequested | blindsPaid
  | readyRequested | readiness | preflopRoundEntered | flopRoundEntered | turnRoundEntered
  | riverRoundEntered | roundInitialized | roundPrepared | roundStarted | roundClosed
  | gameCompleted | settlementRequested | settlementCompleted | gameClosed
deriving DecidableEq, Repr, Inhabited

inductive Round | none | preflop | flop | turn | river
deriving DecidableEq, Repr, Inhabited

inductive Err
  | invalidAction | illegalRaise | notClosedRound | insufficientPlayers | noDealer
  | notEnoughBankroll | noDeck | notFoundDealer | unknownRound
deriving DecidableEq, Repr, Inhabited

structure Comb where
  cat : Option Cat := none         -- `Type` ("" before the first evaluation)
  cards : List Card := []
  power : Nat := 0
deriving DecidableEq, Repr, Inhabited

structure Player where
  idx : Nat
  posDealer : Bool
  posSB : Bool
  posBB : Bool
  acted : Bool := false
  fold : Bool := false
  allowed : List Act := []
  bankroll : Int
  initial : Int
  stack : Int
  pot : Int := 0
  wager : Int := 0
  hole : List Card := []
  comb : Option Comb := some {}
deriving DecidableEq, Repr, Inhabited

structure Meta where
  ante : Int
  blindDealer : Int
  blindSB : Int
  blindBB : Int
  potLimit : Bool
  holeCount : Nat
  required : Nat
  lvl : Cat → Nat
  table : List Cat
  deck : List Card

structure Game where
  opts : Meta
  players : List Player
  miniBet : Int := 0
  pots : List Pot := []
  round : Round := .none
  burned : List Card := []
  board : List Card := []
  prev : Int := 0                  -- PreviousRaiseSize
  deckPos : Nat := 0
  roundPot : Int := 0
  cw : Int := 0                    -- CurrentWager
  raiser : Nat := 0
  cur : Nat := 0
  event : Ev := .none
  result : Option Result := none

namespace Game

def n (g : Game) : Nat := g.players.length

def modP (g : Game) (i : Nat) (f : Player → Player) : Game :=
  { g with players := g.players.modify i f }

def mapP (g : Game) (f : Player → Player) : Game :=
  { g with players := g.players.map f }

/-! Field setters (plain record updates, named so that terms stay readable in proofs). -/
def setEvent (g : Game) (e : Ev) : Game := { g with event := e }
def setRound (g : Game) (r : Round) : Game := { g with round := r }
def setCur (g : Game) (i : Nat) : Game := { g with cur := i }
def setRaiser (g : Game) (i : Nat) : Game := { g with raiser := i }
def setCw (g : Game) (x : Int) : Game := { g with cw := x }
def setPrev (g : Game) (x : Int) : Game := { g with prev := x }
def addRoundPot (g : Game) (x : Int) : Game := { g with roundPot := g.roundPot + x }

/-- game.go `addPlayer`: the cached dealer is the last player holding the position. -/
def dealerIdx? (g : Game) : Option Nat :=
  (g.players.reverse.find? (·.posDealer)).map (·.idx)

def dealerIdx (g : Game) : Nat := g.dealerIdx?.getD 0

/-- game.go: `GetPlayers` — seat indices starting at the dealer. -/
def seatsFromDealer (g : Game) : List Nat :=
  (List.range g.n).map fun k => (g.dealerIdx + k) % g.n

/-- game.go: `NextPlayer`. -/
def nextIdx (g : Game) : Nat := if g.cur + 1 = g.n then 0 else g.cur + 1

/-- game.go: `GetAlivePlayerCount`. -/
def aliveCount (g : Game) : Nat := (g.players.filter (fun p => !p.fold)).length

/-- game.go: `GetMovablePlayerCount`. -/
def movableCount (g : Game) : Nat := (g.players.filter (fun p => !(p.fold || p.stack == 0))).length

/-- game.go: `GetAvailableActions`. -/
def availableActions (g : Game) (p : Player) : List Act :=
  if p.fold then [.pass]
  else if p.stack = 0 then [.pass]
  else
    [.allin] ++
    (if p.wager < g.cw then
      [.fold] ++
      (if p.initial > g.cw then
        [.call] ++ (if p.initial > g.cw + g.prev then [.raise] else [])
       else [])
     else
      [.check] ++
      (if p.initial ≥ g.miniBet then (if g.cw = 0 then [.bet] else [.raise]) else []))

def clearAllowed (p : Player) : Player := { p with allowed := [] }

/-- the second half of game.go `SetCurrentPlayer`: offer the seat its actions. -/
def offer (g : Game) (i : Nat) : Game :=
  g.modP i fun p => { p with allowed := g.availableActions p }

/-- game.go: `SetCurrentPlayer`. -/
def setCurrentPlayer (g : Game) (i : Nat) : Game :=
  ((g.modP g.cur clearAllowed).setCur i).offer i

/-- game.go: `ResetAllPlayerAllowedActions` (`Reset` clears `Acted` too). -/
def resetAllAllowed (g : Game) : Game :=
  g.mapP fun p => { p with acted := false, allowed := [] }

/-- game.go: `ResetAllPlayerStatus`. -/
def resetAllPlayerStatus (g : Game) : Game :=
  g.mapP fun p => { p with allowed := [], pot := p.pot + p.wager, wager := 0, initial := p.stack }

/-- game.go: `ResetRoundStatus`. -/
def resetRoundStatus (g : Game) : Game :=
  { g with prev := 0, roundPot := 0, cw := 0, raiser := g.dealerIdx, cur := g.dealerIdx }

/-- game.go: `ResetActedPlayers`. -/
def resetActed (g : Game) : Game := g.mapP fun p => { p with acted := false }

def setActed (g : Game) (i : Nat) : Game := g.modP i fun p => { p with acted := true }

/-- game.go: `BecomeRaiser`. -/
def becomeRaiser (g : Game) (i : Nat) : Game :=
  ((g.setRaiser i).resetActed).setActed i

def goAllin (p : Player) : Player := { p with wager := p.initial, stack := 0 }
def putWager (w : Int) (p : Player) : Player := { p with wager := w, stack := p.initial - w }

/-- player.go `pay`, the branch `StackSize <= chips` (all-in). -/
def payAllin (g : Game) (i : Nat) (p : Player) (isWager : Bool) : Game :=
  let g1 := (g.addRoundPot (p.initial - p.wager)).modP i goAllin
  if isWager then
    let g2 := if p.initial > g.cw then g1.setCw p.initial else g1
    if p.initial - g.cw ≥ g.cw + g.prev then g2.becomeRaiser i else g2.resetActed
  else g1

/-- player.go `pay`, the other branch. -/
def payPart (g : Game) (i : Nat) (p : Player) (chips : Int) (isWager : Bool) : Game :=
  let g1 := (g.modP i (putWager (p.wager + chips))).addRoundPot chips
  if isWager && decide (g.cw < p.wager + chips) then (g1.setCw (p.wager + chips)).becomeRaiser i else g1

/-- player.go: `pay`. -/
def pay (g : Game) (i : Nat) (chips : Int) (isWager : Bool) : Game :=
  match g.players[i]? with
  | none => g
  | some p => if p.stack ≤ chips then g.payAllin i p isWager else g.payPart i p chips isWager

/-- pot.go: `updatePots`. -/
def updatePots (g : Game) : Game :=
  { g with pots := potsOf (g.players.map fun p => (p.idx, p.pot + p.wager, p.fold)) }

/-- game.go: `Deal`: the cards dealt. -/
def dealt (g : Game) (count : Nat) : List Card := (g.opts.deck.drop g.deckPos).take count

def advance (g : Game) (count : Nat) : Game := { g with deckPos := g.deckPos + count }

/-- game.go: `Burn`. -/
def burn (g : Game) (count : Nat) : Game :=
  { g.advance count with burned := g.burned ++ g.dealt count }

def dealBoard (g : Game) (count : Nat) : Game :=
  { g.advance count with board := g.board ++ g.dealt count }

def dealHole (g : Game) (i : Nat) : Game :=
  (g.advance g.opts.holeCount).modP i fun p => { p with hole := g.dealt g.opts.holeCount }

/-- game.go `InitializeRound`, preflop: hole cards seat by seat. -/
def dealHoles : Nat → Nat → Game → Game
  | 0, _, g => g
  | k + 1, i, g => dealHoles k (i + 1) (g.dealHole i)

def newComb (p : Player) (pw : Option Power) : Player :=
  match p.comb, pw with
  | some _, some pw => { p with comb := some { cat := some pw.cat, cards := pw.cards, power := pw.score } }
  | _, _ => p

/-- power.go: `UpdateCombinationOfAllPlayers`. -/
def updateCombinations (g : Game) : Game :=
  g.mapP fun p => newComb p (playerPower g.opts.lvl g.opts.table g.board p.hole g.opts.required)

/-- settlement.go: `CalculateGameResults`. -/
def calculateGameResults (g : Game) : Game :=
  { g with result := some (gameResults g.pots
      (g.players.map fun p => (p.idx, p.bankroll, p.fold, ((p.comb.map (·.power)).getD 0 : Nat)))) }

/-- event.go: `onRoundClosed` (after `EmitEvent(RoundClosed)`). -/
def roundClosed (g : Game) : Game :=
  ((g.setEvent .roundClosed).resetAllAllowed).updatePots

/-- game.go: `RequestPlayerAction` (= `onRoundStarted`). -/
def requestPlayerAction (g : Game) : Game :=
  if g.aliveCount = 1 then g.roundClosed
  else if g.movableCount = 0 then g.roundClosed
  else
    match g.players[g.nextIdx]? with
    | none => g
    | some p => if p.acted then g.roundClosed else g.setCurrentPlayer g.nextIdx

/-- game.go: `RequestReady`. -/
def requestReady (g : Game) : Game :=
  g.resetAllAllowed.setEvent .readyRequested

/-- game.go: `PrepareRound`. -/
def prepareRound (g : Game) : Game :=
  if g.round = .preflop then g.requestReady
  else if g.movableCount ≤ 1 then g.roundClosed
  else g.requestReady

/-- game.go: `RequestBlinds`. -/
def requestBlinds (g : Game) : Game :=
  if g.opts.blindDealer = 0 ∧ g.opts.blindSB = 0 ∧ g.opts.blindBB = 0 then
    (g.setEvent .blindsPaid).prepareRound
  else g.setEvent .blindsRequested

/-- game.go `InitializeRound`: the dealing for the street at hand. -/
def dealStreet (g : Game) : Game :=
  match g.round with
  | .preflop => dealHoles g.n 0 g
  | .flop => ((g.burn 1).dealBoard 3).setCurrentPlayer g.dealerIdx
  | .turn => ((g.burn 1).dealBoard 1).setCurrentPlayer g.dealerIdx
  | .river => ((g.burn 1).dealBoard 1).setCurrentPlayer g.dealerIdx
  | .none => g

/-- event.go: `onRoundInitialized`. -/
def afterRoundInitialized (g : Game) : Game :=
  if g.round = .preflop then g.requestBlinds else g.prepareRound

/-- game.go: `InitializeRound` followed by `onRoundInitialized`. -/
def initializeRound (g : Game) : Game :=
  ((g.dealStreet.updateCombinations).setEvent .roundInitialized).afterRoundInitialized

def enterRound (g : Game) (r : Round) : Game :=
  (g.setRound r).initializeRound

/-- game.go `StartRound`, preflop: walk from the dealer to the big blind (at most `n` steps). -/
def seekBB : Nat → Game → Game
  | 0, g => g
  | k + 1, g =>
    match g.players[g.nextIdx]? with
    | some p => if p.posBB then g.setCurrentPlayer g.nextIdx else seekBB k (g.setCurrentPlayer g.nextIdx)
    | none => g.setCurrentPlayer g.nextIdx

/-- `EmitEvent(RoundStarted)` + `onRoundStarted`. -/
def openRound (g : Game) : Game := (g.setEvent .roundStarted).requestPlayerAction

/-- game.go `StartRound` after `ResetAllPlayerAllowedActions`. -/
def startRound' (g : Game) : Game :=
  if g.round = .preflop then
    if g.movableCount = 0 then g.roundClosed
    else (seekBB g.n (g.setCurrentPlayer g.dealerIdx)).openRound
  else (g.setCurrentPlayer g.dealerIdx).openRound

/-- game.go: `StartRound` followed by `onRoundStarted`. -/
def startRound (g : Game) : Game := g.resetAllAllowed.startRound'

/-- event.go: `onGameCompleted` … `onSettlementCompleted`. -/
def gameCompleted (g : Game) : Game :=
  (g.updatePots.calculateGameResults).setEvent .gameClosed

/-- game.go `nextRound` after the two resets. -/
def nextRound' (g : Game) : Game :=
  if g.aliveCount = 1 then g.gameCompleted
  else
    match g.round with
    | .preflop => g.enterRound .flop
    | .flop => g.enterRound .turn
    | .turn => g.enterRound .river
    | .river => g.gameCompleted
    | .none => g

/-- game.go: `nextRound`. -/
def nextRound (g : Game) : Game := g.resetRoundStatus.resetAllPlayerStatus.nextRound'

/-- event.go: `triggerEvent` for the event recorded in the state (`Resume`).  Only the
    wait-point events can be current between operations (theorem `wait_points`); of
    those only `RoundStarted` and `RoundClosed` have a handler that does anything. -/
def resume (g : Game) : Game :=
  match g.event with
  | .roundStarted => g.requestPlayerAction
  | .roundClosed => g.roundClosed
  | _ => g

end Game

/-- Configuration of a hand as `NewGame(opts)` sees it. -/
structure SeatCfg where
  bankroll : Int
  dealer : Bool
  sb : Bool
  bb : Bool
deriving Repr, DecidableEq

structure Config where
  opts : Meta
  seats : List SeatCfg

def Config.players (c : Config) : List Player :=
  c.seats.zipIdx.map fun (s, i) =>
    { idx := i, posDealer := s.dealer, posSB := s.sb, posBB := s.bb,
      bankroll := s.bankroll, initial := s.bankroll, stack := s.bankroll }

/-- game.go: `NewGame` + `Start` … up to the first wait point. -/
def start (c : Config) : Game × Option Err :=
  let g : Game := { opts := c.opts, players := c.players }
  if g.n < 2 then (g, some .insufficientPlayers)
  else if g.dealerIdx?.isNone then (g, some .noDealer)
  else if g.players.any (fun p => decide (p.bankroll ≤ 0)) then (g, some .notEnoughBankroll)
  else if c.opts.deck.isEmpty then (g, some .noDeck)
  else
    (({ g with miniBet := if c.opts.blindDealer > c.opts.blindBB then c.opts.blindDealer else c.opts.blindBB } : Game).resetRoundStatus.requestReady, none)

inductive Op
  | ready | payAnte | payBlinds | next
  | act (seat : Option Nat) (a : Act) (x : Int)
deriving Repr, DecidableEq, Inhabited

namespace Game

/-- `onReadiness` (+ `onPrepared`, `onRoundPrepared`). -/
def readiness (g : Game) : Game :=
  if g.round = .none then
    if g.opts.ante > 0 then g.setEvent .anteRequested
    else g.enterRound .preflop
  else g.startRound

/-- action.go: `ReadyForAll`. -/
def readyForAll (g : Game) : Game × Option Err :=
  if g.event ≠ .readyRequested then (g, some .invalidAction)
  else (g.resetAllAllowed.readiness, none)

/-- action.go `PayAnte`: the per-player loop (player.go `PayAnte`). -/
def payAnteLoop : List Nat → Game → Game × Option Err
  | [], g => (g, none)
  | i :: is, g =>
    match g.players[i]? with
    | none => (g, none)
    | some p =>
      if p.wager > 0 then (g, some .invalidAction)
      else payAnteLoop is (g.pay i g.opts.ante false)

/-- `EmitEvent(AntePaid)` + `onAntePaid`. -/
def antePaid (g : Game) : Game :=
  ((((g.resetAllAllowed.setEvent .antePaid).updatePots).resetAllPlayerStatus).resetRoundStatus).enterRound .preflop

/-- action.go: `PayAnte` (+ `onAntePaid`). -/
def payAnte (g : Game) : Game × Option Err :=
  if g.opts.ante = 0 then (g, some .invalidAction)
  else if g.event ≠ .anteRequested then (g, some .invalidAction)
  else
    match payAnteLoop g.seatsFromDealer g with
    | (g', some e) => (g', some e)
    | (g', none) => (g'.antePaid, none)

/-- player.go `PayBlinds`: the amount a seat owes by its first position in bb > sb > dealer. -/
def blindOf (m : Meta) (p : Player) : Int :=
  if m.blindBB > 0 ∧ p.posBB then m.blindBB
  else if m.blindSB > 0 ∧ p.posSB then m.blindSB
  else if m.blindDealer > 0 ∧ p.posDealer then m.blindDealer
  else 0

/-- player.go: `PayBlinds` for one seat. -/
def payBlind (g : Game) (i : Nat) : Game :=
  match g.players[i]? with
  | none => g
  | some p => g.pay i (if p.stack < blindOf g.opts p then p.stack else blindOf g.opts p) true

/-- `EmitEvent(BlindsPaid)` + `onBlindsPaid`, after the minimal raise size was set. -/
def blindsPaid (g : Game) : Game :=
  (((g.setPrev (if g.opts.blindBB > 0 then g.opts.blindBB else g.opts.blindDealer)).resetAllAllowed).setEvent .blindsPaid).prepareRound

/-- action.go: `PayBlinds` (+ `onBlindsPaid`). -/
def payBlinds (g : Game) : Game × Option Err :=
  if g.event ≠ .blindsRequested then (g, some .invalidAction)
  else ((g.seatsFromDealer.foldl payBlind g).blindsPaid, none)

/-- game.go: `Next`. -/
def next (g : Game) : Game × Option Err :=
  if g.event ≠ .roundClosed then (g, some .notClosedRound)
  else if g.round = .none then (g, none)
  else (g.nextRound, none)

def allows (g : Game) (i : Nat) (a : Act) : Bool :=
  match g.players[i]? with
  | some p => p.allowed.contains a
  | none => false

/-- player.go: `Call` (after its `CheckAction` guard). -/
def doCall (g : Game) (i : Nat) : Game :=
  match g.players[i]? with
  | none => g
  | some p =>
    ((g.setActed i).pay i (if g.cw < g.opts.blindBB then g.opts.blindBB - p.wager else g.cw - p.wager) true).resume

/-- player.go: `Allin` (after its guard). -/
def doAllin (g : Game) (i : Nat) : Game :=
  match g.players[i]? with
  | none => g
  | some p =>
    (((if p.initial - g.cw ≥ g.prev then (g.setActed i).setPrev (p.initial - g.cw) else g.setActed i)).pay i p.stack true).resume

/-- player.go: `Fold` (after its guard). -/
def doFold (g : Game) (i : Nat) : Game :=
  (g.modP i fun p => { p with fold := true, acted := true }).resume

/-- the wager of seat `i` (0 when there is no such seat) -/
def wagerOf (g : Game) (i : Nat) : Int := ((g.players[i]?).map (·.wager)).getD 0

/-- `PreviousRaiseSize = p.state.Wager`: the size of the bet is what was actually put in. -/
def recordBet (g : Game) (i : Nat) : Game := g.setPrev (g.wagerOf i)

/-- player.go: `Bet` (after its guards). -/
def doBet (g : Game) (i : Nat) (x : Int) : Game :=
  ((((g.setActed i).pay i x true)).recordBet i).resume

/-- player.go: `Raise` once the request is known to be a proper raise. -/
def doRaise (g : Game) (i : Nat) (p : Player) (x : Int) : Game :=
  let capped := g.opts.potLimit && decide (x - g.cw > g.cw + g.prev)
  let raised := if capped then g.cw + g.prev else x - g.cw
  let required := if capped then g.cw + g.prev + g.cw - p.wager else x - p.wager
  ((((g.setActed i).setPrev raised).pay i required true)).resume

/-- player.go: the player actions `Pass, Fold, Check, Call, Allin, Bet, Raise, Pay` on seat `i`. -/
def act (g : Game) (i : Nat) (a : Act) (x : Int) : Game × Option Err :=
  match a with
  | .pass =>
    if !g.allows i .pass then (g, some .invalidAction) else ((g.setActed i).resume, none)
  | .pay => if !g.allows i .pay then (g, some .invalidAction) else ((g.pay i x true).resume, none)
  | .fold =>
    if !g.allows i .fold then (g, some .invalidAction) else (g.doFold i, none)
  | .check =>
    if !g.allows i .check then (g, some .invalidAction) else ((g.setActed i).resume, none)
  | .call =>
    if !g.allows i .call then (g, some .invalidAction) else (g.doCall i, none)
  | .allin =>
    if !g.allows i .allin then (g, some .invalidAction) else (g.doAllin i, none)
  | .bet =>
    if !g.allows i .bet then (g, some .invalidAction)
    else if x < 0 then (g, some .invalidAction)
    else (g.doBet i x, none)
  | .raise =>
    if !g.allows i .raise then (g, some .invalidAction)
    else if x = 0 ∨ x < g.cw then (g, some .illegalRaise)
    else if x = g.cw then
      (if !g.allows i .call then (g, some .invalidAction) else (g.doCall i, none))
    else
      match g.players[i]? with
      | none => (g, none)
      | some p =>
        if x ≥ p.initial ∨ x - g.cw < g.prev then
          (if !g.allows i .allin then (g, some .invalidAction) else (g.doAllin i, none))
        else (g.doRaise i p x, none)

/-- One operation of the engine's alphabet (DESIGN §5). -/
def step (g : Game) (op : Op) : Game × Option Err :=
  match op with
  | .ready => g.readyForAll
  | .payAnte => g.payAnte
  | .payBlinds => g.payBlinds
  | .next => g.next
  | .act none a x => g.act g.cur a x
  | .act (some i) a x => g.act i a x

def run (g : Game) (ops : List Op) : Game := ops.foldl (fun g op => (g.step op).1) g

/-- What survives a JSON round trip of the state followed by `NewGameFromState`
    (what `table.NativeBackend` does around every call): everything except the pots'
    `Levels` (`json:"-"`).  The `settlement.Result` internals are also dropped, but
    nothing reads them after `Calculate`. -/
def hop (g : Game) : Game :=
  { g with pots := g.pots.map fun p => { p with levels := [] } }

end Game
end Pokerface
