/-
  Model of regulator/regulator.go, function by function.

  * `tables` (a Go map) is a list in creation order; the only order-dependent
    use, `getAvailableTable`, takes its result from an explicit choice input
    (the table the real run picked), validated against `Required > 0`.
  * Float quotients are replaced by exact integer arithmetic (DESIGN §4):
    `ceil(a/b) = (a+b-1)/b`, `floor(a/b) = a/b`, and comparisons of a quotient
    with an integer are cross-multiplied.  The `x/0` cases are spelled out where
    the Go code can reach them.
  * Callbacks (`requestTableFn`, `assignPlayersFn`) never fail (environment
    assumption); the calls made are recorded in `calls`.
-/
namespace Pokerface

inductive RStatus | pending | normal | afterRegDeadline
deriving DecidableEq, Repr, Inhabited

structure RTable where
  id : Nat
  required : Int
  count : Int
deriving DecidableEq, Repr, Inhabited

inductive RCall
  | requestTable (id : Nat) (players : List Nat)
  | assign (table : Nat) (players : List Nat)
deriving DecidableEq, Repr, Inhabited

structure Reg where
  max : Nat
  min : Nat
  playerCount : Int := 0
  tableCount : Int := 0
  status : RStatus := .pending
  queue : List Nat := []
  tables : List RTable := []
  nextId : Nat := 1                 -- ids handed out by the environment's `requestTableFn`
  calls : List RCall := []          -- callbacks made during the current operation
  choices : List Nat := []          -- remaining choice inputs of the current operation
  badChoice : Bool := false
deriving Repr, Inhabited

inductive RErr | notFoundTable | afterRegDeadline | badChoice
deriving DecidableEq, Repr, Inhabited

namespace Reg

/-- `int(math.Ceil(float64(a)/float64(b)))` for `a ≥ 0`, `b > 0`. -/
def ceilDiv (a : Int) (b : Nat) : Int := (a + (b : Int) - 1) / (b : Int)

def requiredTables (r : Reg) : Int := ceilDiv r.playerCount r.max

def setTable (r : Reg) (id : Nat) (f : RTable → RTable) : Reg :=
  { r with tables := r.tables.map fun t => if t.id = id then f t else t }

def findTable (r : Reg) (id : Nat) : Option RTable := r.tables.find? (·.id == id)

/-- `getLowWaterLevelTableCount` (callers guarantee `requiredTables > 0`). -/
def lowWaterLevelTableCount (r : Reg) : Nat :=
  let wl := r.playerCount / r.requiredTables
  (r.tables.filter fun t => decide (t.count < wl)).length

/-- `calculateLowerWaterLevel() >= floor(waterLevel)` as an exact integer test. -/
def lowerWaterLevelReached (r : Reg) (floorWl : Int) : Bool :=
  let wl := r.playerCount / r.requiredTables
  let low := r.tables.filter fun t => decide (t.count ≤ wl)
  let high := r.tables.filter fun t => !decide (t.count ≤ wl)
  let pc := r.playerCount - (high.map (·.count)).sum
  let tc : Int := low.length
  if tc = 0 then decide (pc > 0)            -- +Inf ≥ x is true; NaN ≥ x and -Inf ≥ x are false
  else decide (pc ≥ floorWl * tc)

/-- `requestPlayers` / `getPlayersFromWaitingQueue`. -/
def takeQueue (r : Reg) (count : Int) : List Nat × Reg :=
  let k := count.toNat
  (r.queue.take k, { r with queue := r.queue.drop k })

/-- `updateTableRequirements`. -/
def updateTableRequirements (r : Reg) : Reg :=
  let req := r.requiredTables
  if req = (r.tables.length : Int) then
    let wl := if req > 0 then (r.playerCount + req - 1) / req else 0
    { r with tables := r.tables.map fun t =>
        if t.count < wl then { t with required := wl - t.count } else t }
  else r

/-- `dispatchPlayer`: `none` = `ErrNoAvailableTable`. -/
def dispatchPlayer (r : Reg) (cands : List Nat) : Option (List Nat × Reg) :=
  if !(r.tables.any fun t => decide (t.required > 0)) then none
  else
    match r.choices with
    | [] => some (cands, { r with badChoice := true, choices := [] })
    | c :: cs =>
      match r.findTable c with
      | none => some (cands, { r with badChoice := true, choices := [] })
      | some t =>
        if t.required ≤ 0 then some (cands, { r with badChoice := true, choices := [] })
        else
          let k := t.required.toNat
          let picked := cands.take k
          let rest := cands.drop k
          let r := { r with choices := cs, calls := r.calls ++ [RCall.assign t.id picked] }
          let r := r.setTable t.id fun t =>
            { t with required := t.required - picked.length, count := t.count + picked.length }
          some (rest, r)

/-- the `for len(candidates) > 0 { dispatchPlayer … }` loops of `drainWaitingQueue`. -/
def dispatchLoop : Nat → List Nat → Reg → List Nat × Reg
  | 0, cands, r => (cands, r)
  | fuel + 1, cands, r =>
    if cands.isEmpty ∨ r.badChoice then (cands, r)
    else
      match r.dispatchPlayer cands with
      | none => (cands, r)
      | some (rest, r') => dispatchLoop fuel rest r'

/-- loop of `allocateTables`. -/
def allocateLoop : Nat → Int → Int → Reg → Reg
  | 0, _, _, r => r
  | fuel + 1, waterLevel, requiredTables, r =>
    if waterLevel ≥ (r.min : Int) ∧ r.tableCount < requiredTables then
      let waterLevel := if waterLevel > (r.max : Int) then (r.max : Int) else waterLevel
      let qlen : Int := r.queue.length
      let requiredPlayers := if qlen > waterLevel ∧ qlen < (r.max : Int) then qlen else waterLevel
      let (players, r) := r.takeQueue requiredPlayers
      if players.isEmpty then r
      else
        let id := r.nextId
        let t : RTable := { id := id, count := players.length,
                            required := if (players.length : Int) < waterLevel then waterLevel - players.length else 0 }
        let r := { r with nextId := id + 1, calls := r.calls ++ [RCall.requestTable id players],
                          tableCount := r.tableCount + 1, tables := r.tables ++ [t] }
        let expected := requiredTables - r.tableCount
        if expected ≤ 0 then r
        else allocateLoop fuel ((r.queue.length : Int) / expected) requiredTables r
    else r

/-- `allocateTables`. -/
def allocateTables (r : Reg) : Reg :=
  let req := r.requiredTables
  if r.tableCount = 0 then
    if r.playerCount < (r.min : Int) then r
    else
      let wl := if req > 0 then r.playerCount / req else 0
      if wl ≥ (r.min : Int) then allocateLoop (r.queue.length + 1) wl req r
      else allocateLoop (r.queue.length + 1) (r.max : Int) (r.playerCount / (r.max : Int)) r
  else if r.tableCount > 0 then
    allocateLoop (r.queue.length + 1) (if req > 0 then r.playerCount / req else 0) req r
  else allocateLoop (r.queue.length + 1) (r.max : Int) req r

/-- `drainWaitingQueue`. -/
def drainWaitingQueue (r : Reg) : Reg :=
  if r.tableCount = 0 ∧ (r.queue.length : Int) ≥ (r.min : Int) then r.allocateTables
  else if r.tableCount > 0 then
    let (cands, r) := dispatchLoop (r.queue.length + 1) r.queue r
    let r := if !cands.isEmpty then r.updateTableRequirements else r
    let (cands, r) := dispatchLoop (cands.length + 1) cands r
    let r := { r with queue := cands }
    if !cands.isEmpty then r.allocateTables else r
  else r

/-- `enterWaitingQueue`. -/
def enterWaitingQueue (r : Reg) (players : List Nat) : Reg :=
  let r := { r with queue := r.queue ++ players }
  if r.status = .pending then r else r.drainWaitingQueue

def beginOp (r : Reg) (choices : List Nat) : Reg :=
  { r with calls := [], choices := choices, badChoice := false }

/-- `AddPlayers`. -/
def addPlayers (r : Reg) (players choices : List Nat) : Reg × Option RErr :=
  let r := r.beginOp choices
  if r.status = .afterRegDeadline then (r, some .afterRegDeadline)
  else
    let r := { r with playerCount := r.playerCount + players.length }
    (r.updateTableRequirements.enterWaitingQueue players, none)

/-- `SetStatus`. -/
def setStatus (r : Reg) (s : RStatus) (choices : List Nat) : Reg :=
  let r := r.beginOp choices
  if r.status = s then r
  else
    let old := r.status
    let r := { r with status := s }
    if old = .pending ∧ s = .normal then r.drainWaitingQueue else r

/-- `ReleasePlayers`. -/
def releasePlayers (r : Reg) (players choices : List Nat) : Reg :=
  (r.beginOp choices).enterWaitingQueue players

/-- `breakTable`. -/
def breakTable (r : Reg) (id : Nat) : Reg :=
  { r with tables := r.tables.filter (·.id != id), tableCount := r.tableCount - 1 }

/-- the release loop of `SyncState`. -/
def releaseLoop : Nat → Nat → Int → Reg → Nat → Nat × Reg
  | 0, _, _, r, picked => (picked, r)
  | k + 1, id, floorWl, r, picked =>
    if r.lowerWaterLevelReached floorWl then (picked, r)
    else releaseLoop k id floorWl (r.setTable id fun t => { t with count := t.count - 1 }) (picked + 1)

/-- `SyncState`: returns (release count, new players). -/
def syncState (r : Reg) (id : Nat) (out : Int) : Reg × Option RErr × Int × List Nat :=
  let r := r.beginOp []
  match r.findTable id with
  | none => (r, some .notFoundTable, 0, [])
  | some t0 =>
    let r := { r with playerCount := r.playerCount - out }
    let r := r.setTable id fun t => { t with count := t.count - out }
    let tc := t0.count - out
    let req := r.requiredTables
    if r.status = .afterRegDeadline ∧ r.playerCount ≤ (r.max : Int) ∧ req < r.tableCount then
      (r.breakTable id, none, tc, [])
    else if req ≤ 0 then (r, none, 0, [])            -- water level is NaN / ±Inf-free only when req > 0
    else
      let floorWl := r.playerCount / req
      if tc * req < r.playerCount then
        if r.lowWaterLevelTableCount ≥ 2 ∧ req < r.tableCount then (r.breakTable id, none, tc, [])
        else
          let count := floorWl - tc
          let (players, r) := r.takeQueue count
          let still := count - players.length
          let r := if still > 0 then r.setTable id fun t => { t with required := still } else r
          let r := r.setTable id fun t => { t with count := t.count + players.length }
          (r, none, 0, players)
      else if tc * req > r.playerCount then
        let count := tc - floorWl
        let (picked, r) := releaseLoop count.toNat id floorWl r 0
        (r, none, picked, [])
      else (r, none, 0, [])

inductive ROp
  | add (players : List Nat) (choices : List Nat)
  | status (s : RStatus) (choices : List Nat)
  | sync (table : Nat) (out : Int)
  | release (table : Nat) (players : List Nat) (choices : List Nat)
deriving Repr, Inhabited

structure ROut where
  err : Option RErr := none
  release : Int := 0
  newPlayers : List Nat := []
deriving Repr, Inhabited

def step (r : Reg) (op : ROp) : Reg × ROut :=
  match op with
  | .add ps ch => let (r, e) := r.addPlayers ps ch; (r, { err := e })
  | .status s ch => (r.setStatus s ch, {})
  | .sync t out => let (r, e, rel, nw) := r.syncState t out; (r, { err := e, release := rel, newPlayers := nw })
  | .release _ ps ch => (r.releasePlayers ps ch, {})

end Reg
end Pokerface
