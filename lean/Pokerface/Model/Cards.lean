/-
  Model of combination/card.go and combination/combination.go (constants part).

  A card string of the repo ("S2" … "CA") is a suit character followed by a rank
  character.  `GetCardState` keeps the suit as a one-character string and maps
  the rank character through `CardRank` (0 when the character is not a key).
  In the model a suit is the character code and a rank is a natural number.
-/
namespace Pokerface

structure Card where
  suit : Nat
  rank : Nat
deriving DecidableEq, Repr, Inhabited, BEq, Hashable

/-- Hand categories, in the order of the Go `iota` constants. -/
inductive Cat
  | highCard | pair | twoPair | trips | straight | flush | fullHouse | quads | straightFlush
deriving DecidableEq, Repr, Inhabited

def Cat.toNat : Cat → Nat
  | .highCard => 0 | .pair => 1 | .twoPair => 2 | .trips => 3 | .straight => 4
  | .flush => 5 | .fullHouse => 6 | .quads => 7 | .straightFlush => 8

def Cat.ofNat? : Nat → Option Cat
  | 0 => some .highCard | 1 => some .pair | 2 => some .twoPair | 3 => some .trips
  | 4 => some .straight | 5 => some .flush | 6 => some .fullHouse | 7 => some .quads
  | 8 => some .straightFlush | _ => none

def Cat.all : List Cat :=
  [.highCard, .pair, .twoPair, .trips, .straight, .flush, .fullHouse, .quads, .straightFlush]

/-- `CardRank` of card.go: rank character → rank (0 for a missing key). -/
def rankOfChar : Char → Nat
  | '2' => 2 | '3' => 3 | '4' => 4 | '5' => 5 | '6' => 6 | '7' => 7 | '8' => 8 | '9' => 9
  | 'T' => 10 | 'J' => 11 | 'Q' => 12 | 'K' => 13 | 'A' => 14 | _ => 0

/-- `CardSymbol` of card.go. -/
def charOfRank : Nat → String
  | 2 => "2" | 3 => "3" | 4 => "4" | 5 => "5" | 6 => "6" | 7 => "7" | 8 => "8" | 9 => "9"
  | 10 => "T" | 11 => "J" | 12 => "Q" | 13 => "K" | 14 => "A" | _ => ""

def suitChar (s : Nat) : String := String.singleton (Char.ofNat s)

def Card.ofString (s : String) : Card :=
  match s.toList with
  | a :: b :: _ => { suit := a.toNat, rank := rankOfChar b }
  | _ => { suit := 0, rank := 0 }

def Card.toString (c : Card) : String := suitChar c.suit ++ charOfRank c.rank

instance : ToString Card := ⟨Card.toString⟩

/-- Suits of deck.go `CardSuits` = S, H, D, C. -/
def suitCodes : List Nat := [83, 72, 68, 67]

end Pokerface
