import Pokerface.Model.Eval
/-
  Model of combination/combination.go (selection enumeration) and power.go
  (best hand of a player).
-/
namespace Pokerface

/-- `cur & -cur` for `cur > 0` (lowest set bit). -/
def lowbit (c : Nat) : Nat := c ^^^ (c &&& (c - 1))

/-- combination.go: loop of `gospersHack`, with fuel (`limit` iterations always suffice:
    `cur` strictly increases).  `k = 0` divides by zero in Go (observation O4) and is
    outside the model's domain; the model returns the empty list for it. -/
def gospersLoop (limit : Nat) : Nat → Nat → List Nat
  | 0, _ => []
  | fuel + 1, cur =>
    if cur < limit then
      let lb := lowbit cur
      let r := cur + lb
      cur :: gospersLoop limit fuel ((((r ^^^ cur) >>> 2) / lb) ||| r)
    else []

def gospersHack (k n : Nat) : List Nat :=
  if k = 0 then [] else gospersLoop (1 <<< n) (1 <<< n) ((1 <<< k) - 1)

/-- combination.go: `binaryOnesPositions`. -/
def binaryOnesPositions (value n : Nat) : List Nat :=
  (List.range n).filter (fun i => (value >>> i) &&& 1 == 1)

/-- combination.go: `GetPossibleCombinations`. -/
def possibleCombinations {α : Type} [Inhabited α] (cards : List α) (n : Nat) : List (List α) :=
  if cards.length ≤ n then [cards]
  else (gospersHack n cards.length).map fun v =>
    (binaryOnesPositions v cards.length).map fun p => cards[p]!

/-- combination.go: `GetAllPossibleCombinations`. -/
def allPossibleCombinations {α : Type} [Inhabited α] (board hole : List α) (holeCount : Nat) : List (List α) :=
  if holeCount = 0 then possibleCombinations (hole ++ board) 5
  else
    (possibleCombinations hole holeCount).flatMap fun hs =>
      (possibleCombinations board (5 - holeCount)).map fun bs => hs ++ bs

/-- First element with the maximal score (one admissible outcome of
    `sort.Slice(powers, Score >)` followed by `powers[0]`; see DESIGN §4). -/
def bestPower : List Power → Option Power
  | [] => none
  | p :: ps =>
    match bestPower ps with
    | none => some p
    | some q => if q.score > p.score then some q else some p

/-- power.go: `CalculatePlayerPower`. -/
def playerPower (lvl : Cat → Nat) (pr : List Cat) (board hole : List Card) (required : Nat) : Option Power :=
  bestPower ((allPossibleCombinations board hole required).map (calculatePower lvl pr))

end Pokerface
