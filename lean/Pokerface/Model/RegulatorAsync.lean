/-
  ASYNCHRONOUS environment of the regulator: tables that follow instructions, but whose
  `ReleasePlayers` report arrives LATER than the `SyncState` that asked for the release.

  In `RSys.step` (Model/RegulatorEnv.lean) a table's `SyncState` and the `ReleasePlayers` it
  triggers are one step.  Here they are two operations of the system:

  * `AOp.sync t elim stay rel keep` : table `t` (members `≈ elim ++ stay`) eliminates `elim`,
    calls `SyncState(t, |elim|)`, seats the new players it is handed, and the `rel` players it is
    told to release (all of them, and the table disappears, when the regulator broke it) LEAVE
    the table: they are now "on the way back from table `t`" (`inflight`).  No `ReleasePlayers`
    call is made.
  * `AOp.report t ps rest ch` : `ReleasePlayers(t, ps)` is called for players `ps` on the way back
    from `t` (`flyingOf t ≈ ps ++ rest`; `rest` stay on the way).  Any time later: registrations,
    status changes, syncs of other tables AND of `t` itself may come in between; the table may
    have been broken meanwhile (Go's `ReleasePlayers` ignores its table argument).  The usual
    report is the whole lot (`rest = []`); a report of nobody (`ps = []`, e.g. the report of a
    table broken with no player left, which the synchronous model also makes) is allowed for
    every table id at every time.

  `inflight` is the list of batches `(table, players)` in the order of the syncs that produced
  them.  Core-only.
-/
import Pokerface.Model.RegulatorEnv

namespace Pokerface

/-- Regulator, the tables that follow it, and the players on the way back to the regulator. -/
structure ASys where
  r : Reg
  env : Env := {}
  inflight : List (Nat × List Nat) := []
deriving Repr, Inhabited

/-- Operations of the asynchronous system. -/
inductive AOp
  | add (players choices : List Nat)
  | status (s : RStatus) (choices : List Nat)
  | sync (t : Nat) (elim stay rel keep : List Nat)
  | report (t : Nat) (players rest choices : List Nat)
deriving Repr, Inhabited, DecidableEq

namespace ASys

def init (max min : Nat) : ASys := { r := { max := max, min := min } }

/-- the synchronous system at a quiescent point, seen as an asynchronous one: nobody is on the way -/
def ofRSys (s : RSys) : ASys := { r := s.r, env := s.env, inflight := [] }

/-- the synchronous view of an asynchronous state (forgets who is on the way) -/
def toRSys (s : ASys) : RSys := { r := s.r, env := s.env }

/-- every player on the way back from some table -/
def flying (s : ASys) : List Nat := (s.inflight.map (·.2)).flatten

/-- the players on the way back from table `t` -/
def flyingOf (s : ASys) (t : Nat) : List Nat := ((s.inflight.filter (·.1 == t)).map (·.2)).flatten

/-- the regulator's answer to the `SyncState` of a `sync` operation -/
def syncAnswer (s : ASys) (t : Nat) (elim : List Nat) : Reg × Option RErr × Int × List Nat :=
  s.r.syncState t elim.length

/-- the table was broken by the sync -/
def broken (s : ASys) (t : Nat) (elim : List Nat) : Bool :=
  ((s.syncAnswer t elim).1.findTable t).isNone

/-- Validity of an operation in a state, widest domain (any status at any time, like `RSys.okAny`).
    A table MAY sync again before its earlier releases have been reported, and MAY report in
    several parts: nothing here asks for "report before the table's next sync". -/
def ok (s : ASys) : AOp → Prop
  | .add ps ch =>
      ps.Nodup ∧ (∀ p ∈ ps, p ∉ s.env.registered) ∧ (s.r.addPlayers ps ch).1.badChoice = false
  | .status st ch => (s.r.setStatus st ch).badChoice = false
  | .sync t elim stay rel keep =>
      match s.env.membersOf t with
      | none => True
      | some ms =>
        let (_, _, relCount, nw) := s.syncAnswer t elim
        ms.Perm (elim ++ stay) ∧ (stay ++ nw).Perm (rel ++ keep) ∧ (rel.length : Int) = relCount ∧
        (s.broken t elim = true → keep = [])
  | .report t ps rest ch =>
      (s.flyingOf t).Perm (ps ++ rest) ∧ (s.r.releasePlayers ps ch).badChoice = false

instance (s : ASys) (op : AOp) : Decidable (s.ok op) := by
  cases op <;> simp only [ok] <;> try infer_instance
  · split <;> infer_instance

def step (s : ASys) : AOp → ASys
  | .add ps ch =>
      match s.r.addPlayers ps ch with
      | (r', some _) => { s with r := r' }
      | (r', none) =>
        { s with r := r',
                 env := { members := Env.applyCalls s.env.members r'.calls,
                          alive := s.env.alive ++ ps, registered := s.env.registered ++ ps } }
  | .status st ch =>
      let r' := s.r.setStatus st ch
      { s with r := r', env := { s.env with members := Env.applyCalls s.env.members r'.calls } }
  | .sync t elim _stay rel keep =>
      match s.env.membersOf t with
      | none => { s with r := (s.syncAnswer t elim).1 }
      | some _ =>
        let r1 := (s.syncAnswer t elim).1
        let alive := s.env.alive.filter (fun p => !elim.contains p)
        let m1 := if s.broken t elim then s.env.members.filter (fun e => e.1 != t)
                  else s.env.members.map fun e => if e.1 = t then (e.1, keep) else e
        { r := r1, env := { s.env with members := m1, alive := alive },
          inflight := if rel.isEmpty then s.inflight else s.inflight ++ [(t, rel)] }
  | .report t ps rest ch =>
      let r' := s.r.releasePlayers ps ch
      { r := r', env := { s.env with members := Env.applyCalls s.env.members r'.calls },
        inflight := s.inflight.filter (fun e => e.1 != t) ++ (if rest.isEmpty then [] else [(t, rest)]) }

/-! Observations of one step. -/

/-- the players entering the waiting queue in the operation -/
def incoming (s : ASys) : AOp → List Nat
  | .add ps ch => if (s.r.addPlayers ps ch).2.isSome then [] else ps
  | .report _ ps _ _ => ps
  | _ => []

/-- the new players returned by `SyncState` in the operation -/
def returned (s : ASys) : AOp → List Nat
  | .sync t elim _ _ _ =>
      match s.env.membersOf t with
      | none => []
      | some _ => (s.syncAnswer t elim).2.2.2
  | _ => []

/-- the players that leave their table in the operation and are from then on on the way back -/
def departing (s : ASys) : AOp → List Nat
  | .sync t _ _ rel _ =>
      match s.env.membersOf t with
      | none => []
      | some _ => rel
  | _ => []

/-- the players whose release is reported to the regulator in the operation -/
def reported : AOp → List Nat
  | .report _ ps _ _ => ps
  | _ => []

/-- the competition status after the operation -/
def statusAfter (s : ASys) : AOp → RStatus
  | .status st _ => st
  | _ => s.r.status

/-- States reachable from a fresh regulator with ANY setting `1 ≤ max`, ANY `min`, by valid
    operations (any status order). -/
inductive AReachable : ASys → Prop
  | init (max min : Nat) (h1 : 1 ≤ max) : AReachable (init max min)
  | step {s : ASys} (op : AOp) : AReachable s → s.ok op → AReachable (s.step op)

/-- running a script of operations -/
def run (s : ASys) (ops : List AOp) : ASys := ops.foldl step s

/-- every operation of the script is valid when its turn comes -/
def allOk : ASys → List AOp → Prop
  | _, [] => True
  | s, op :: ops => s.ok op ∧ allOk (s.step op) ops

instance decAllOk : (s : ASys) → (ops : List AOp) → Decidable (allOk s ops)
  | _, [] => isTrue trivial
  | s, op :: ops =>
    match (inferInstance : Decidable (s.ok op)), decAllOk (s.step op) ops with
    | isTrue h1, isTrue h2 => isTrue ⟨h1, h2⟩
    | isFalse h1, _ => isFalse fun h => h1 h.1
    | _, isFalse h2 => isFalse fun h => h2 h.2

theorem AReachable.run {s : ASys} (h : AReachable s) :
    ∀ (ops : List AOp), allOk s ops → AReachable (s.run ops) := by
  intro ops
  induction ops generalizing s with
  | nil => intro _; exact h
  | cons op ops ih => intro hok; exact ih (AReachable.step op h hok.1) hok.2

/-- The asynchronous script of one synchronous operation: a sync is followed AT ONCE by the report
    of everybody it released, exactly when the synchronous model calls `ReleasePlayers` (somebody
    is released, or the table was broken). -/
def expand (s : RSys) : EOp → List AOp
  | .add ps ch => [.add ps ch]
  | .status st ch => [.status st ch]
  | .sync t elim stay rel keep ch =>
      match s.env.membersOf t with
      | none => [.sync t elim stay rel keep]
      | some _ =>
        if rel.isEmpty ∧ s.broken t elim = false then [.sync t elim stay rel keep]
        else [.sync t elim stay rel keep, .report t rel [] ch]

/-! ### The forward-only domain (C19 on the asynchronous system)

    As `RSys.ok` restricts `RSys.okAny`: a `SetStatus` never names `Pending` unless the competition
    is still pending (reading I13 of DESIGN §5: the phases only move forward).  Everything else is
    as in `ok`: reports may arrive at any time, in parts, after the table was broken or synced
    again. -/

/-- Validity of an operation in a state, the status only moving forward. -/
def okFwd (s : ASys) : AOp → Prop
  | .status st ch =>
      (st ≠ .pending ∨ s.r.status = .pending) ∧ (s.r.setStatus st ch).badChoice = false
  | op => s.ok op

instance (s : ASys) (op : AOp) : Decidable (s.okFwd op) := by
  cases op <;> simp only [okFwd] <;> infer_instance

theorem ok_of_okFwd {s : ASys} {op : AOp} (h : s.okFwd op) : s.ok op := by
  cases op with
  | status st ch => exact h.2
  | add ps ch => exact h
  | sync t elim stay rel keep => exact h
  | report t ps rest ch => exact h

/-- States reachable from a fresh regulator with ANY setting `1 ≤ max`, ANY `min`, by valid
    operations in which the status only moves forward (`okFwd`): the domain of C19 on the
    asynchronous system. -/
inductive AReachableFwd : ASys → Prop
  | init (max min : Nat) (h1 : 1 ≤ max) : AReachableFwd (init max min)
  | step {s : ASys} (op : AOp) : AReachableFwd s → s.okFwd op → AReachableFwd (s.step op)

theorem AReachableFwd.any {s : ASys} (h : AReachableFwd s) : AReachable s := by
  induction h with
  | init max min h1 => exact .init max min h1
  | step op _ hok ih => exact .step op ih (ok_of_okFwd hok)

/-- every operation of the script is valid, forward-only, when its turn comes -/
def allOkFwd : ASys → List AOp → Prop
  | _, [] => True
  | s, op :: ops => s.okFwd op ∧ allOkFwd (s.step op) ops

instance decAllOkFwd : (s : ASys) → (ops : List AOp) → Decidable (allOkFwd s ops)
  | _, [] => isTrue trivial
  | s, op :: ops =>
    match (inferInstance : Decidable (s.okFwd op)), decAllOkFwd (s.step op) ops with
    | isTrue h1, isTrue h2 => isTrue ⟨h1, h2⟩
    | isFalse h1, _ => isFalse fun h => h1 h.1
    | _, isFalse h2 => isFalse fun h => h2 h.2

theorem AReachableFwd.run {s : ASys} (h : AReachableFwd s) :
    ∀ (ops : List AOp), allOkFwd s ops → AReachableFwd (s.run ops) := by
  intro ops
  induction ops generalizing s with
  | nil => intro _; exact h
  | cons op ops ih => intro hok; exact ih (AReachableFwd.step op h hok.1) hok.2

/-- the membership sheet at the moment the operation's callbacks start (for a sync: after the
    eliminations, arrivals and departures at the syncing table; a sync itself makes no callback) -/
def baseMembers (s : ASys) : AOp → List (Nat × List Nat)
  | .sync t elim _ _ keep =>
      match s.env.membersOf t with
      | none => s.env.members
      | some _ =>
        if s.broken t elim then s.env.members.filter (fun e => e.1 != t)
        else s.env.members.map fun e => if e.1 = t then (e.1, keep) else e
  | _ => s.env.members

end ASys
end Pokerface
