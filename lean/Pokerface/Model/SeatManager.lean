/-
  Model of seat_manager/seat_manager.go.

  The seat map is a list indexed by seat id.  `dealer/sb/bb` are seat ids.
  Go slice expressions that can go out of range (`seats[idx:]` with `idx = -1`,
  `seats[1:]` on an empty slice) are modelled by the explicit outcome `panic`.
  The random choice of `Join(-1, …)` is an input (`chose`), validated against
  the set of seats the Go code can pick from.
-/
namespace Pokerface

structure Seat where
  player : Option Nat := none
  active : Bool := true
  reserved : Bool := false
deriving DecidableEq, Repr, Inhabited

structure SM where
  max : Nat
  seats : List Seat
  dealer : Option Nat := none
  sb : Option Nat := none
  bb : Option Nat := none
deriving DecidableEq, Repr, Inhabited

inductive SMErr
  | notFoundSeat | noAvailableSeat | notAvailable | invalidSeat | insufficientPlayers | emptySeat
  | panic | badChoice
deriving DecidableEq, Repr, Inhabited

inductive SMOp
  | join (seat : Int) (pid : Nat) (chose : Option Nat)
  | seat (id : Int)
  | reserve (id : Int)
  | leave (id : Int)
  | next
deriving DecidableEq, Repr, Inhabited

namespace SM

def new (max : Nat) : SM := { max := max, seats := List.replicate max {} }

def Seat.playable (s : Seat) : Bool := s.active && !s.reserved && s.player.isSome

def playable (sm : SM) (i : Nat) : Bool :=
  match sm.seats[i]? with
  | some s => s.active && !s.reserved && s.player.isSome
  | none => false

/-- `getNormalizeSeats(start)`: the seat ids in table order starting at `start`. -/
def normalize (sm : SM) (start : Nat) : List Nat :=
  (List.range sm.max).map fun k => (start + k) % sm.max

/-- `findActivePlayer`: first playable seat of the list and its position. -/
def findActive (sm : SM) (ids : List Nat) : Option (Nat × Nat) :=
  let rec go : List Nat → Nat → Option (Nat × Nat)
    | [], _ => none
    | i :: is, k => if sm.playable i then some (i, k) else go is (k + 1)
  go ids 0

def playableCount (sm : SM) : Nat := ((List.range sm.max).filter sm.playable).length

/-- `getPlayableSeat`: lowest playable seat id. -/
def firstPlayable (sm : SM) : Option Nat := (List.range sm.max).find? sm.playable

/-- `getNonEmptySeatCount`: occupied and not reserved. -/
def nonEmptyCount (sm : SM) : Nat :=
  (sm.seats.filter fun s => !s.reserved && s.player.isSome).length

def playerCount (sm : SM) : Nat := (sm.seats.filter fun s => s.player.isSome).length

def modSeat (sm : SM) (i : Nat) (f : Seat → Seat) : SM := { sm with seats := sm.seats.modify i f }

def activate (sm : SM) (ids : List Nat) : SM :=
  ids.foldl (fun sm i => sm.modSeat i fun s => { s with active := true }) sm

/-- `getAvailableSeats`: (active empty non-reserved, inactive empty non-reserved). -/
def availableSeats (sm : SM) : List Nat × List Nat :=
  let free := (List.range sm.max).filter fun i =>
    match sm.seats[i]? with
    | some s => !s.reserved && s.player.isNone
    | none => false
  (free.filter fun i => (sm.seats[i]?.map (·.active)).getD false,
   free.filter fun i => !(sm.seats[i]?.map (·.active)).getD false)

/-- `nextDealer`: the new state and whether a dealer was found. -/
def nextDealer (sm : SM) : SM × Bool :=
  if sm.playableCount = 1 then
    if sm.nonEmptyCount ≤ 1 then (sm, false)
    else
      match sm.firstPlayable with
      | none => (sm, false)
      | some d =>
        let sm := { sm with dealer := some d }
        let rest := (sm.normalize d).drop 1
        let sm := rest.foldl (fun sm i => sm.modSeat i fun s =>
          if !s.reserved && s.player.isSome then { s with active := true } else s) sm
        (sm, true)
  else
    let ids := match sm.dealer with
      | none => sm.normalize 0
      | some d => (sm.normalize d).drop 1
    match sm.findActive ids with
    | some (d, k) =>
      let sm := sm.activate (ids.take k)
      ({ sm with dealer := some d }, true)
    | none =>
      let sm := sm.activate ids
      match sm.findActive ids with
      | some (d, _) => ({ sm with dealer := some d }, true)
      | none => ({ sm with dealer := none }, false)

/-- `renewSeatStatus`; `none` = the Go code panics (slice bounds). -/
def renewSeatStatus (sm : SM) : Option SM :=
  match sm.dealer with
  | none => none
  | some d =>
    let orig := sm.normalize d
    -- small blind
    let r1 : Option (SM × List Nat) :=
      if sm.playableCount = 2 then some ({ sm with sb := some d }, orig)
      else
        let seats := orig.drop 1
        match sm.findActive seats with
        | none => none                       -- seats[-1:]
        | some (s, k) => some ({ sm with sb := some s }, seats.drop k)
    match r1 with
    | none => none
    | some (sm, seats) =>
      if seats.isEmpty then none            -- seats[1:] on an empty slice
      else
        let seats := seats.drop 1
        match sm.findActive seats with
        | none => none                       -- seats[-1:]
        | some (b, k) =>
          let sm := { sm with bb := some b }
          let seats := seats.drop k
          -- deactivate empty seats between dealer and BB
          let before := orig.takeWhile (· != b)
          let sm := before.foldl (fun sm i => sm.modSeat i fun s =>
            if s.player.isNone then { s with active := false } else s) sm
          -- activate the rest
          some (sm.activate (seats.drop 1))

def step (sm : SM) (op : SMOp) : SM × Option SMErr × Option Nat :=
  match op with
  | .join seat pid chose =>
    if seat ≥ (sm.max : Int) ∨ seat < -1 then (sm, some .invalidSeat, none)
    else
      let joinAt (i : Nat) : SM × Option SMErr × Option Nat :=
        match sm.seats[i]? with
        | none => (sm, some .panic, none)
        | some s =>
          if s.player.isSome then (sm, some .notAvailable, none)
          else (sm.modSeat i fun s => { s with reserved := true, player := some pid }, none, some i)
      if seat > -1 then joinAt seat.toNat
      else
        let (s, as) := sm.availableSeats
        if s.isEmpty && as.isEmpty then (sm, some .noAvailableSeat, none)
        else
          let pool := if !s.isEmpty then s else as
          match chose with
          | none => (sm, some .badChoice, none)
          | some c => if pool.contains c then joinAt c else (sm, some .badChoice, none)
  | .seat id =>
    if id < 0 ∨ id ≥ (sm.max : Int) then (sm, some .notFoundSeat, none)
    else (sm.modSeat id.toNat fun s => { s with reserved := false }, none, none)
  | .reserve id =>
    if id < 0 ∨ id ≥ (sm.max : Int) then (sm, some .notFoundSeat, none)
    else (sm.modSeat id.toNat fun s => { s with reserved := true }, none, none)
  | .leave id =>
    if id < 0 ∨ id ≥ (sm.max : Int) then (sm, some .notFoundSeat, none)
    else
      match sm.seats[id.toNat]? with
      | none => (sm, some .notFoundSeat, none)
      | some s =>
        if s.player.isNone then (sm, some .emptySeat, none)
        else (sm.modSeat id.toNat fun s => { s with player := none, reserved := false }, none, none)
  | .next =>
    let (sm, found) := sm.nextDealer
    if !found then (sm, some .insufficientPlayers, none)
    else if sm.playableCount < 2 then (sm, some .insufficientPlayers, none)
    else
      match sm.renewSeatStatus with
      | none => (sm, some .panic, none)
      | some sm => (sm, none, none)

def run (sm : SM) (ops : List SMOp) : SM := ops.foldl (fun sm op => (sm.step op).1) sm

end SM
end Pokerface
