/-
  Model of `table/game.go`: the table's DRIVER of a hand (`table.game`).  It holds the last state
  the stateless backend returned (`g.gs`), reacts to every new state in `handleState` (calls
  `backend.Next` at `RoundClosed`, arms a ready group at `ReadyRequested` / `AnteRequested` /
  `BlindsRequested`, closes at `GameClosed`) and exposes one wrapper per player action
  (`Ready, Pay, Pass, Fold, Check, Call, Allin, Bet, Raise`) that checks `HasAction(playerIdx, name)`
  on the held state and then calls the backend operation of that name — which acts for the
  engine's CURRENT player, whatever `playerIdx` was.

  Written function by function after the Go code (DESIGN §4).  What is modelled rather than
  verified (trusted base, DESIGN §8): the goroutine that drains `incomingStates` and the ready
  group's own goroutines are run to completion at once (sequential reading: `updateState` is
  followed by `handleState` of that state, a completed ready group fires its callback before the
  next call); `syncsaga.ReadyGroup` is modelled from its source (`Add`, `ResetParticipants`,
  `Start`, `Ready`, `validate`, `Done`): participants with a ready flag, `Ready(id)` sets the flag of
  a participant, then — participant or not — completes the group when every flag is set and it
  has not completed before; timeouts are off (`timeoutInterval = 0`, as `table/game.go` leaves it).
  The backend is `table.NativeBackend` (`Drv.backend`, the `C07.backendCall` of the engine model).
  The mark "ready" that `handleState` writes into `AllowedActions` is not an engine action
  (`Act` has no such constructor: the engine never tests for it) and is kept beside the state
  (`D.readyMarks`); the mark "pay" is an engine action name and is written into the state itself.
-/
import Pokerface.Model.Game

namespace Pokerface
namespace Drv

/-- what a ready group calls when it completes (`rg.OnCompleted`) -/
inductive Fire | readyForAll | payAnte | payBlinds
deriving DecidableEq, Repr, Inhabited

/-- a started `syncsaga.ReadyGroup` -/
structure Group where
  parts : List (Nat × Bool)        -- participant id ↦ ready flag (`rg.participants`), in player order
  fire : Fire
  completed : Bool := false        -- `rg.isCompleted`
deriving DecidableEq, Repr, Inhabited

/-- errors of the wrappers: the table's own three, or the engine's passed through by the backend -/
inductive DErr
  | noRunningGame | playerNotInGame | invalidAction
  | engine (e : Err)
deriving DecidableEq, Repr, Inhabited

/-- `table.game` -/
structure D where
  gs : Game                        -- `g.gs`: the last state received, with the driver's "pay" marks
  readyMarks : List Nat := []      -- players marked "ready" on `g.gs`
  group : Option Group := none     -- `g.rg` once started
  closed : Bool := false           -- `g.isClosed`
  updates : Nat := 0               -- number of `onStateUpdated` callbacks delivered (observable progress)

/-- `table.NativeBackend`: clone in, rebuild, ONE operation, clone out; `nil, err` on error. -/
def backend (s : Game) (op : Op) : Except Err Game :=
  match s.hop.step op with
  | (g', none) => .ok g'.hop
  | (_, some e) => .error e

/-- `PlayerState.AllowAction(a)` -/
def allowAction (a : Act) (p : Player) : Player :=
  if p.allowed.contains a then p else { p with allowed := p.allowed ++ [a] }

/-- the condition under which `handleState` adds a player to the blinds group -/
def owesBlind (m : Meta) (p : Player) : Bool :=
  (decide (m.blindBB > 0) && p.posBB) || (decide (m.blindSB > 0) && p.posSB) || (decide (m.blindDealer > 0) && p.posDealer)

/-- the group of all players, nobody ready -/
def allParts (g : Game) : List (Nat × Bool) := g.players.map fun p => (p.idx, false)

/-- the blinds group -/
def blindParts (g : Game) : List (Nat × Bool) :=
  (g.players.filter (owesBlind g.opts)).map fun p => (p.idx, false)

/-- `handleState` for the three request events: (marked state, ready marks, new group); `none` when the
    event arms nothing (`AnteRequested` with no ante: `break`; every other event) -/
def arm (g : Game) : Option (Game × List Nat × Group) :=
  match g.event with
  | .readyRequested =>
    some (g, g.players.map (·.idx), { parts := allParts g, fire := .readyForAll })
  | .anteRequested =>
    if g.opts.ante = 0 then none
    else some (g.mapP (allowAction .pay), [], { parts := allParts g, fire := .payAnte })
  | .blindsRequested =>
    some ({ g with players := g.players.map fun p => if owesBlind g.opts p then allowAction .pay p else p }, [],
          { parts := blindParts g, fire := .payBlinds })
  | _ => none

/-- `updateState(gs)` followed by `handleState` of the clone it queued.  `fuel` bounds the chain
    `RoundClosed → backend.Next → updateState → handleState …` (each link is one street). -/
def update : Nat → D → Game → D
  | 0, d, s => { d with gs := s.hop, readyMarks := [] }
  | fuel + 1, d, s =>
    let d1 : D := { d with gs := s.hop, readyMarks := [] }
    if d.closed then d1
    else
      match s.hop.event with
      | .gameClosed => { d1 with closed := true, updates := d1.updates + 1 }
      | .roundClosed =>
        match backend s.hop .next with
        | .error _ => d1                                  -- `fmt.Println(err); return`: no callback
        | .ok s' => let d2 := update fuel d1 s'; { d2 with updates := d2.updates + 1 }
      | _ =>
        match arm s.hop with
        | some (g', marks, grp) => { d1 with gs := g', readyMarks := marks, group := some grp, updates := d1.updates + 1 }
        | none => { d1 with updates := d1.updates + 1 }

/-- enough for every hand: four streets and the closing state -/
def fuel : Nat := 8

/-- `game.Start()` once the backend created the game from the options -/
def startD (g0 : Game) : D := update fuel { gs := g0 } g0

/-- a backend call from the held state followed by `updateState` of the answer; an error is returned and nothing changes -/
def callBackend (d : D) (op : Op) : D × Option DErr :=
  match backend d.gs op with
  | .error e => (d, some (.engine e))
  | .ok s => (update fuel d s, none)

/-- the callback of a completed group: `g.ReadyForAll()`, `g.PayAnte()`, `g.PayBlinds()` (its error is dropped) -/
def fireOp : Fire → Op
  | .readyForAll => .ready
  | .payAnte => .payAnte
  | .payBlinds => .payBlinds

/-- `rg.Ready(id)`: nothing without a started group; the flag of a participant is set; the group completes
    when every flag is set and it has not completed yet -/
def groupReady (d : D) (id : Nat) : D :=
  match d.group with
  | none => d
  | some grp =>
    let parts := grp.parts.map fun pr => if pr.1 = id then (pr.1, true) else pr
    if parts.all (·.2) && !grp.completed then
      (callBackend { d with group := some { grp with parts := parts, completed := true } } (fireOp grp.fire)).1
    else { d with group := some { grp with parts := parts } }

/-- `gs.HasAction(idx, name)` on the held state for the engine's action names -/
def hasAction (d : D) (i : Nat) (a : Act) : Bool := d.gs.allows i a

/-- the wrappers of `table.game` -/
inductive Call
  | ready (i : Nat)
  | act (i : Nat) (a : Act) (x : Int)      -- `Pass, Pay, Fold, Check, Call, Allin, Bet, Raise` (x ignored where the Go method has no amount)
deriving DecidableEq, Repr, Inhabited

def call (d : D) : Call → D × Option DErr
  | .ready i =>
    if d.gs.players.length ≤ i then (d, some .playerNotInGame)
    else if !d.readyMarks.contains i then (d, some .invalidAction)
    else (groupReady d i, none)
  | .act i a x =>
    if d.gs.players.length ≤ i then (d, some .playerNotInGame)
    else if !hasAction d i a then (d, some .invalidAction)
    else if a = .pay ∧ (d.gs.event = .anteRequested ∨ d.gs.event = .blindsRequested) then (groupReady d i, none)
    else callBackend d (.act none a x)

def runD (d : D) (cs : List Call) : D := cs.foldl (fun d c => (call d c).1) d

end Drv
end Pokerface
