/-
  Model of the GLUE between the seat manager and the hand engine in `table/`:
  `table/table.go` (`Join`, `Leave`, `leave`, `Activate`, `Reserve`) and
  `table/internal.go` (`setupPosition`, `prepareNextGame`, `startGame` up to the creation
  of the game, `updateGameState` / `updatePlayerStates` for the closing state of a hand).

  What is modelled: the seat manager (`SM`, Model/SeatManager.lean), the table's player
  sheet `ts.Players` (per seat: game index, the positions copied from the seat manager, the
  `Playable` flag, the bankroll), `inPosition`, `gameCount`, and the player settings of the
  game `startGame` creates (`GameOptions.Players`: bankroll and positions of the playable
  seats, clockwise from the dealer).

  What is not: the table loop, timers, the ready groups and everything else in `table/game.go`
  between the creation of the game and its closing state.  The hand itself is an INPUT of
  `hand`: the final stacks the engine reports (`Result.Players[i].Final`), in the order of the
  game indices; whether `Start()` refuses the configuration is computed (`startRefusal`, the
  first three checks of game.go `Start`, which `Proofs/TableGlue.lean` proves equal to the
  engine model's `start`).  `checkEndConditions` is modelled without the clock (the harness puts
  the end of the table far in the future).  Core-only.
-/
import Pokerface.Model.SeatManager
import Pokerface.Model.Game

namespace Pokerface

/-- `table.PlayerInfo` (per seat). `dealer/sb/bb`: membership of the strings in `Positions`
    (always written in the order "dealer", then "sb" or "bb"). -/
structure TPlayer where
  pid : Nat
  gameIdx : Int := -1
  dealer : Bool := false
  sb : Bool := false
  bb : Bool := false
  playable : Bool := false
  bankroll : Int
deriving DecidableEq, Repr, Inhabited

/-- the part of `table.Options` the glue reads -/
structure TOpts where
  initialPlayers : Nat := 2
  minPlayers : Nat := 2
  maxGames : Nat := 0
  leaveMode : Bool := false       -- EliminateMode == "leave"
deriving DecidableEq, Repr, Inhabited

inductive TErr
  | insufficient            -- table.ErrInsufficientNumberOfPlayers
  | maxGames                -- table.ErrMaxGamesExceeded
  | sm (e : SMErr)          -- an error of the seat manager passed through
  | game (e : Err)          -- `Start()` of the created game refused the configuration
  | panic
  | badInput                -- the `hand` line does not carry one final stack per seat of the game
deriving DecidableEq, Repr, Inhabited

structure Table where
  opts : TOpts := {}
  sm : SM
  players : List (Option TPlayer)
  inPosition : Bool := false
  gameCount : Nat := 0
deriving Repr, Inhabited

inductive TOp
  | join (seat : Int) (pid : Nat) (bankroll : Int) (chose : Option Nat)
  | leave (seat : Int)
  | activate (seat : Int)
  | reserve (seat : Int)
  | setup
  | hand (finals : List Int)
deriving DecidableEq, Repr, Inhabited

/-- what an operation returns / shows besides the new state -/
structure TOut where
  err : Option TErr := none
  ret : Option Nat := none
  /-- `GameOptions.Players` of the game created in the operation, if one was created -/
  cfg : Option (List SeatCfg) := none
deriving Repr, Inhabited

namespace Table

def new (max : Nat) (o : TOpts) : Table :=
  { opts := o, sm := SM.new max, players := List.replicate max none }

def modPl (t : Table) (i : Nat) (f : TPlayer → TPlayer) : Table :=
  { t with players := t.players.modify i (·.map f) }

def setPl (t : Table) (i : Nat) (p : Option TPlayer) : Table :=
  { t with players := t.players.set i p }

/-- table.go `leave`: `sm.Leave`, and on success the player is taken off the sheet. -/
def leave (t : Table) (seat : Int) : Table × Option TErr :=
  match t.sm.step (.leave seat) with
  | (_, some e, _) => (t, some (.sm e))
  | (sm', none, _) => (({ t with sm := sm' }).setPl seat.toNat none, none)

/-- internal.go `setupPosition`: the positions of `Next()` copied onto the sheet. -/
def setupPosition (t : Table) : Table × Option TErr :=
  if t.inPosition then (t, none)
  else
    match t.sm.step .next with
    | (sm', some .insufficientPlayers, _) => ({ t with sm := sm' }, some .insufficient)
    | (sm', some .panic, _) => ({ t with sm := sm' }, some .panic)
    | (sm', some e, _) => ({ t with sm := sm' }, some (.sm e))
    | (sm', none, _) =>
      let pls := t.players.zipIdx.map fun (p, i) =>
        p.map fun p =>
          { p with dealer := decide (sm'.dealer = some i),
                   sb := decide (sm'.sb = some i),
                   bb := decide (sm'.sb ≠ some i) && decide (sm'.bb = some i),
                   playable := sm'.playable i }
      ({ t with sm := sm', players := pls, inPosition := true }, none)

/-- seat_manager.go `getPlayableSeats`: the playable seats clockwise from the dealer;
    `none`: no button (the Go code dereferences a nil pointer). -/
def playableSeats (sm : SM) : Option (List Nat) :=
  sm.dealer.map fun d => (sm.normalize d).filter sm.playable

/-- game.go `Start`: the refusals that depend on the player settings (the deck is never empty
    here: `startGame` installs a shipped deck). -/
def startRefusal (ps : List SeatCfg) : Option Err :=
  if ps.length < 2 then some .insufficientPlayers
  else if !(ps.any (·.dealer)) then some .noDealer
  else if ps.any (fun p => decide (p.bankroll ≤ 0)) then some .notEnoughBankroll
  else none

/-- the seat whose player carries game index `k` (`State.GetPlayerByGameIdx`) -/
def seatOfGameIdx (t : Table) (k : Nat) : Option Nat :=
  (t.players.zipIdx.find? fun (p, _) => match p with
    | some p => p.gameIdx == (k : Int)
    | none => false).map (·.2)

/-- internal.go `updatePlayerStates`, one entry of `Result.Players`. -/
def applyFinal (t : Table) (k : Nat) (final : Int) : Table :=
  match t.seatOfGameIdx k with
  | none => t
  | some s =>
    let t := t.modPl s fun p => { p with bankroll := final }
    if final = 0 then
      let t := { t with sm := (t.sm.step (.reserve s)).1 }
      if t.opts.leaveMode then (t.leave s).1 else t
    else t

/-- internal.go `updatePlayerStates` for the closing state of the hand. -/
def applyResult (t : Table) (finals : List Int) : Table :=
  finals.zipIdx.foldl (fun t (f, k) => t.applyFinal k f) t

/-- the player settings `startGame` hands to the engine: bankroll and positions of the playable
    seats, in `getPlayableSeats` order -/
def gameSeats (t : Table) (seats : List Nat) : List SeatCfg :=
  seats.map fun s =>
    match t.players[s]? with
    | some (some p) => { bankroll := p.bankroll, dealer := p.dealer, sb := p.sb, bb := p.bb }
    | _ => { bankroll := 0, dealer := false, sb := false, bb := false }

/-- `startGame`: game indices cleared, then handed out in `getPlayableSeats` order. -/
def assignGameIdx (t : Table) (seats : List Nat) : Table :=
  let t := { t with players := t.players.map (·.map fun p => { p with gameIdx := -1 }) }
  seats.zipIdx.foldl (fun t (s, i) => t.modPl s fun p => { p with gameIdx := (i : Int) }) t

def maxGamesReached (t : Table) : Bool := decide (t.opts.maxGames > 0) && t.opts.maxGames == t.gameCount

/-- internal.go `prepareNextGame` (with `startGame` and the closing `updateGameState`). -/
def prepareNextGame (t : Table) (finals : List Int) : Table × TOut :=
  if t.maxGamesReached then (t, { err := some .maxGames })
  else
    match t.setupPosition with
    | (t, some e) => (t, { err := some e })
    | (t, none) =>
      let pc := t.sm.playableCount
      if (t.gameCount = 0 ∧ pc < t.opts.initialPlayers) ∨ pc < t.opts.minPlayers then
        (t, { err := some .insufficient })
      else
        match playableSeats t.sm with
        | none => (t, { err := some .panic })
        | some seats =>
          let t := t.assignGameIdx seats
          let cfg := t.gameSeats seats
          match startRefusal cfg with
          | some e => (t, { err := some (.game e), cfg := some cfg })
          | none =>
            if finals.length ≠ cfg.length then (t, { err := some .badInput, cfg := some cfg })
            else
              let t := t.applyResult finals
              let t := { t with gameCount := t.gameCount + 1, inPosition := false }
              if t.maxGamesReached then (t, { err := some .maxGames, cfg := some cfg })
              else
                let (t, e) := t.setupPosition
                (t, { err := e, cfg := some cfg })

def step (t : Table) : TOp → Table × TOut
  | .join seat pid bankroll chose =>
    match t.sm.step (.join seat pid chose) with
    | (_, some e, _) => (t, { err := some (.sm e) })
    | (sm', none, ret) =>
      match ret with
      | none => (t, { err := some .panic })
      | some sid => (({ t with sm := sm' }).setPl sid (some { pid := pid, bankroll := bankroll }), { ret := some sid })
  | .leave seat => let (t, e) := t.leave seat; (t, { err := e })
  | .activate seat => ({ t with sm := (t.sm.step (.seat seat)).1 }, {})   -- table.go `Activate` swallows the error
  | .reserve seat =>
    match t.sm.step (.reserve seat) with
    | (_, some e, _) => (t, { err := some (.sm e) })
    | (sm', none, _) => ({ t with sm := sm' }, {})
  | .setup => let (t, e) := t.setupPosition; (t, { err := e })
  | .hand finals => t.prepareNextGame finals

def run (t : Table) (ops : List TOp) : Table := ops.foldl (fun t op => (t.step op).1) t

end Table
end Pokerface
