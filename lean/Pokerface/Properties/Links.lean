import Pokerface.Proofs.LinksEngine
/-
  Links — END-TO-END statements obtained by composing separately proved properties.

  LINK 1 (C10 ∘ C03 ∘ C14): "the reported hand is the best hand BY THE RULES OF POKER".
    C10 says the published combination is an admissible selection whose SCORE no admissible
    selection exceeds; C14 says all dealt cards are distinct cards of the deck, hence every
    five-card selection is a `C03.Valid` hand; C03 says that on valid hands score order is the
    poker order (`pokerKey`: category position in the ranking table, then tiebreak).  Together:
    no admissible selection beats the published hand under the rules of poker, and the published
    category is the category of the published cards by the rules.

  LINK 2 (C01 ∘ C02 ∘ evaluator): "the showdown of a real hand pays by the rules".
    C01 says the result of a closed hand is `C02.settle g.seats`; the theorems of C02 need
    `C02.Valid` (distinct seats, contributions ≥ 0, POSITIVE strengths for non-folded players —
    settlement.go reads strength 0 as "folded").  `score_pos` (Proofs/LinksScore.lean) shows that
    `CalculatePower` never gives 0 to a non-empty selection of deck cards, so `C02.Valid g.seats`
    holds for every real hand, and each C02 theorem becomes a statement about the engine.

  Specification-level notions: `PokerConfig T c`, `FiveCardRule m`, `seatOf p` (Proofs/LinksEngine.lean),
  `ShippedTable T` (Proofs/LinksScore.lean), `DeckCardsOK d` (here).
-/
namespace Pokerface.Links
open Pokerface Pokerface.Game Generated

/-! ## The hypotheses hold for the shipped decks and tables -/

/-- What `PokerConfig` asks of the cards of a deck: no duplicates, suits S/H/D/C, ranks 2..14. -/
def DeckCardsOK (d : List Card) : Prop :=
  d.Nodup ∧ (∀ x ∈ d, x.suit ∈ suitCodes) ∧ ∀ x ∈ d, 2 ≤ x.rank ∧ x.rank ≤ 14

instance (d : List Card) : Decidable (DeckCardsOK d) := by unfold DeckCardsOK; infer_instance

/-- deck.go `NewStandardDeckCards()` as cards (regenerated constant) … -/
def standardCards : List Card := standardDeck.map Card.ofString
/-- … and `NewShortDeckCards()`. -/
def shortCards : List Card := shortDeck.map Card.ofString

/-- The 52-card deck satisfies the deck hypotheses (kernel evaluation of the regenerated
    constant: a changed deck constant that breaks them breaks this theorem). -/
theorem standardCards_ok : DeckCardsOK standardCards ∧ standardCards.length = 52 := by decide +kernel

/-- The 36-card short deck satisfies them too. -/
theorem shortCards_ok : DeckCardsOK shortCards ∧ shortCards.length = 36 := by decide +kernel

/-- The deck hypotheses do not depend on the order of the deck: they hold for every shuffle
    (C14 `shuffle_perm`: `ShuffleCards` returns a permutation). -/
theorem deckCardsOK_of_perm {d d' : List Card} (p : d'.Perm d) (h : DeckCardsOK d) : DeckCardsOK d' :=
  ⟨p.nodup_iff.mpr h.1, fun x hx => h.2.1 x (p.mem_iff.mp hx), fun x hx => h.2.2 x (p.mem_iff.mp hx)⟩

/-- Both shipped ranking tables are `ShippedTable`s (by definition), and the tables the two
    shipped option sets carry are these. -/
theorem shipped_tables : ShippedTable powerStandard ∧ ShippedTable powerShortDeck ∧
    standardOptionsTable = powerStandard ∧ shortDeckOptionsTable = powerShortDeck :=
  ⟨Or.inl rfl, Or.inr rfl, by decide, by decide⟩

/-- Assembling `PokerConfig`: a configuration accepted by `Start()` with non-negative forced
    bets, the shipped sizes, table `T`, a rule in C10's domain, and a deck that is any shuffle of a
    deck `d` with `DeckCardsOK d` holding `seats·hole + 8` cards or more. -/
theorem pokerConfig_of_shuffle {T : List Cat} {c : Config} {d : List Card} (hd : DeckCardsOK d)
    (hperm : c.opts.deck.Perm d) (hlong : c.seats.length * c.opts.holeCount + 8 ≤ d.length)
    (wf : WFConfig c) (hs : (start c).2 = none) (hl : c.opts.lvl = combinationLevel) (ht : c.opts.table = T)
    (hreq : c.opts.required < 5) (hh : c.opts.holeCount ≤ 4) : PokerConfig T c :=
  have h' := deckCardsOK_of_perm hperm hd
  { wf := wf, cards := ⟨h'.1, by rw [hperm.length_eq]; exact hlong⟩, started := hs,
    suits := h'.2.1, ranks := h'.2.2, lvl := hl, table := ht, req := hreq, hole := hh }

/-! ## LINK 2, part 1: the strength is positive -/

/-- **`score_pos`**: with the shipped category sizes and either shipped ranking table,
    `CalculatePower` gives a strictly positive strength to every NON-EMPTY list of cards with
    ranks ≥ 2 that has at most four cards or contains a card above the deuce.  (Any suits, any
    order, any length.  The empty list scores 0; one card is classed "Flush" because `isFlush`
    does not ask for five cards, and so gets a positive offset; five deuces of mixed suits — not
    in any four-suit deck — would score 0.  See the examples in Proofs/LinksScore.lean.) -/
theorem score_pos {T : List Cat} (hT : ShippedTable T) (cards : List Card)
    (hne : cards ≠ []) (hr : ∀ c ∈ cards, 2 ≤ c.rank)
    (hd : cards.length ≤ 4 ∨ ∃ c ∈ cards, 2 < c.rank) :
    0 < (calculatePower combinationLevel T cards).score :=
  Pokerface.score_pos hT cards hne hr hd

/-- … in particular to all distinct cards of a four-suit deck (any number ≥ 1). -/
theorem score_pos_of_distinct {T : List Cat} (hT : ShippedTable T) (cards : List Card)
    (hne : cards ≠ []) (hn : cards.Nodup) (hs : ∀ c ∈ cards, c.suit ∈ suitCodes) (hr : ∀ c ∈ cards, 2 ≤ c.rank) :
    0 < (calculatePower combinationLevel T cards).score := by
  apply Pokerface.score_pos hT cards hne hr
  by_cases h4 : cards.length ≤ 4
  · exact Or.inl h4
  · exact Or.inr (exists_above_deuce hn hs hr (by omega))

example : 0 < (calculatePower combinationLevel powerShortDeck [⟨83, 6⟩, ⟨72, 6⟩]).score :=
  score_pos (Or.inr rfl) _ (by decide) (by decide) (by decide)

/-- Every published strength is positive from the deal on: for a `PokerConfig` with a shipped
    table and `HoleCardsCount ≥ 1` (with no hole cards the preflop selection is empty and scores 0),
    in every state whose round is not "none" every seat has a combination with `Power > 0`. -/
theorem published_strength_pos {T : List Cat} (hT : ShippedTable T) {cfg : Config} (hc : PokerConfig T cfg)
    (h1 : 1 ≤ cfg.opts.holeCount) (ops : List Op) :
    let g := (start cfg).1.run ops
    g.round ≠ .none → ∀ p ∈ g.players, ∃ c, p.comb = some c ∧ 0 < c.power :=
  comb_power_pos hT hc h1 ops

/-! ## LINK 2, part 2: the seats of a real hand are in the domain of C02 -/

/-- From the deal on, the players of a real hand — as the `C02.Seat` records `g.seats` (seat
    index, bankroll, chips put in = `pot + wager`, fold flag, published strength) — satisfy
    `C02.Valid`: distinct seat indices, contributions ≥ 0, positive strength for every non-folded
    player (here even for the folded ones). -/
theorem seats_valid_from_deal {T : List Cat} (hT : ShippedTable T) {cfg : Config} (hc : PokerConfig T cfg)
    (h1 : 1 ≤ cfg.opts.holeCount) (ops : List Op) :
    let g := (start cfg).1.run ops
    g.round ≠ .none → C02.Valid g.seats := by
  intro g hr
  exact seats_valid_of_pos (hc.reach ops) (fun p hp _ => comb_power_pos hT hc h1 ops hr p hp)

/-- **`showdown_valid`**: for every hand of a `PokerConfig` with a shipped table and at least one
    hole card, and every history that ends in `GameClosed` — showdown on the river, everybody
    else folded before or after the flop, all-in run-outs —, the seats handed to the settlement
    are in the domain of C02. -/
theorem showdown_valid {T : List Cat} (hT : ShippedTable T) {cfg : Config} (hc : PokerConfig T cfg)
    (h1 : 1 ≤ cfg.opts.holeCount) (ops : List Op) :
    let g := (start cfg).1.run ops
    g.event = .gameClosed → C02.Valid g.seats := by
  intro g he
  exact seats_valid_from_deal hT hc h1 ops (round_ne_none_of_closed (hc.reach ops) he)

/-- The result of the closed hand in C02's terms: it is `C02.settle g.seats` (C01), and its player
    list is, seat by seat, `(idx, bankroll + changed, changed)` with `changed = C02.changed g.seats idx`
    — so the corollaries below, stated with `C02.changed g.seats`, speak about `g.result`. -/
theorem showdown_result {T : List Cat} (hT : ShippedTable T) {cfg : Config} (hc : PokerConfig T cfg)
    (h1 : 1 ≤ cfg.opts.holeCount) (ops : List Op) :
    let g := (start cfg).1.run ops
    g.event = .gameClosed →
    ∃ r, g.result = some r ∧ r = C02.settle g.seats ∧
      r.players = g.players.map (fun p => ({ idx := p.idx, finalStack := p.bankroll + C02.changed g.seats p.idx,
                                             changed := C02.changed g.seats p.idx } : PlayerResult)) := by
  intro g he
  refine ⟨_, C01.closed_result_is_settle (hc.reach ops) he, rfl, ?_⟩
  rw [C02.final_eq g.seats (showdown_valid hT hc h1 ops he), seats_eq, List.map_map]
  rfl

section Corollaries
variable {T : List Cat} (hT : ShippedTable T) {cfg : Config} (hc : PokerConfig T cfg)
  (h1 : 1 ≤ cfg.opts.holeCount) (ops : List Op)
include hT hc h1

/-- "A folded player wins nothing", for the engine: in a closed hand no folded player has a
    positive change (C02 `folded_wins_nothing` applied to `g.seats`). -/
theorem showdown_folded_wins_nothing (he : ((start cfg).1.run ops).event = .gameClosed)
    (p : Player) (hp : p ∈ ((start cfg).1.run ops).players) (hf : p.fold = true) :
    C02.changed ((start cfg).1.run ops).seats p.idx ≤ 0 :=
  C02.folded_wins_nothing _ (showdown_valid hT hc h1 ops he) (seatOf p) (mem_seats hp) hf

/-- … and loses the whole stake as soon as a player still in the hand put in at least as much. -/
theorem showdown_folded_loses_stake (he : ((start cfg).1.run ops).event = .gameClosed)
    (p q : Player) (hp : p ∈ ((start cfg).1.run ops).players) (hq : q ∈ ((start cfg).1.run ops).players)
    (hf : p.fold = true) (hqf : q.fold = false) (hle : p.pot + p.wager ≤ q.pot + q.wager) :
    C02.changed ((start cfg).1.run ops).seats p.idx = -(p.pot + p.wager) :=
  C02.folded_loses_stake _ (showdown_valid hT hc h1 ops he) (seatOf p) (mem_seats hp) hf (seatOf q) (mem_seats hq) hqf hle

/-- "Chips only move between players": the changes of a closed hand add up to zero (C02 `zero_sum`). -/
theorem showdown_zero_sum (he : ((start cfg).1.run ops).event = .gameClosed) :
    (((start cfg).1.run ops).players.map fun p => C02.changed ((start cfg).1.run ops).seats p.idx).sum = 0 := by
  simpa [seats_eq, List.map_map, Function.comp_def, seatOf] using
    C02.zero_sum _ (showdown_valid hT hc h1 ops he)

/-- "Nobody loses more than they put in" (C02 `loses_at_most_stake`). -/
theorem showdown_loses_at_most_stake (he : ((start cfg).1.run ops).event = .gameClosed)
    (p : Player) (hp : p ∈ ((start cfg).1.run ops).players) :
    -(p.pot + p.wager) ≤ C02.changed ((start cfg).1.run ops).seats p.idx :=
  C02.loses_at_most_stake _ (showdown_valid hT hc h1 ops he) (seatOf p) (mem_seats hp)

/-- "Nobody wins from a layer they did not pay into (a short all-in collects at most its own stake
    from each opponent)" (C02 `no_gain_from_unpaid_layer`): the change of `p` is at most the sum over
    the other seats of `min (their chips in) (p's chips in)`. -/
theorem showdown_no_gain_from_unpaid_layer (he : ((start cfg).1.run ops).event = .gameClosed)
    (p : Player) (hp : p ∈ ((start cfg).1.run ops).players) :
    C02.changed ((start cfg).1.run ops).seats p.idx ≤
      ((((start cfg).1.run ops).seats.filter (fun t => t.idx != p.idx)).map
        (fun t => min t.contrib (p.pot + p.wager))).sum :=
  C02.no_gain_from_unpaid_layer _ (showdown_valid hT hc h1 ops he) (seatOf p) (mem_seats hp)

/-- "Tied winners of the same pot split it equally, their shares differing by at most one chip"
    (C02 `tie_fair`), for the pots the engine PUBLISHES: `pot` is the published pot at position
    `pre.length` of `g.pots`, `pr` the record at the same position of the result; `p`, `q` are
    non-folded players who paid into it (chips in ≥ its level) with the same published strength,
    the best among the non-folded players who paid into it. -/
theorem showdown_tie_fair (he : ((start cfg).1.run ops).event = .gameClosed)
    (pre post : List Pot) (pot : Pot) (hpots : ((start cfg).1.run ops).pots = pre ++ pot :: post)
    (r : Result) (hr : ((start cfg).1.run ops).result = some r) (pr : PotResult) (hpr : r.pots[pre.length]? = some pr)
    (p q : Player) (hp : p ∈ ((start cfg).1.run ops).players) (hq : q ∈ ((start cfg).1.run ops).players)
    (hpf : p.fold = false) (hqf : q.fold = false)
    (hpe : pot.level ≤ p.pot + p.wager) (hqe : pot.level ≤ q.pot + q.wager)
    (htie : (seatOf p).score = (seatOf q).score)
    (hbest : ∀ t ∈ ((start cfg).1.run ops).players, t.fold = false → pot.level ≤ t.pot + t.wager →
      (seatOf t).score ≤ (seatOf p).score) :
    (C02.potShare pr p.idx - C02.potShare pr q.idx).natAbs ≤ 1 := by
  have hR := hc.reach ops
  have hres := C01.closed_result_is_settle hR he
  rw [hr, Option.some.injEq] at hres
  subst hres
  have hp' : potsOf (C02.entriesOf ((start cfg).1.run ops).seats) = pre ++ pot :: post := by
    rw [entriesOf_seats, ← (C01.pots_published hR (Or.inr he)).1]; exact hpots
  exact C02.tie_fair _ (showdown_valid hT hc h1 ops he) pre post pot hp' pr hpr (seatOf p) (seatOf q)
    (mem_seats hp) (mem_seats hq) hpf hqf hpe hqe htie
    (fun t ht => by obtain ⟨u, hu, rfl⟩ := List.mem_map.mp ht; exact hbest u hu)

end Corollaries

/-! ## LINK 1: the reported hand is the best hand by the rules of poker -/

/-- **`reported_hand_is_poker_best`** (standard ranking table).  For every `PokerConfig` with the
    standard table and every history: whenever at least three community cards are on the board,
    every seat has a published combination `c` such that
    * its cards are, up to order, an admissible selection of that seat's own hole cards and the board;
    * for every admissible selection `s` with five cards (all admissible selections of a seat
      have the same size; it is five under `FiveCardRule`, see `five_cards_from_flop`):
      the published cards and `s` are `C03.Valid` hands, the published category is the category
      the rules of poker give to the published cards, and `s` does NOT beat the published hand
      in the poker order (`pokerKey`: position of the category in the table, then tiebreak). -/
theorem reported_hand_is_poker_best {cfg : Config} (hc : PokerConfig powerStandard cfg) (ops : List Op) :
    let g := (start cfg).1.run ops
    3 ≤ g.board.length →
    ∀ p ∈ g.players, ∃ c, p.comb = some c ∧
      (∃ sel, Admissible g.board p.hole cfg.opts.required sel ∧ c.cards.Perm sel) ∧
      ∀ s, Admissible g.board p.hole cfg.opts.required s → s.length = 5 →
        C03.Valid c.cards ∧ C03.Valid s ∧
        c.cat = some (C03.specCat (C03.ranks c.cards) (C03.sameSuit c.cards)) ∧
        ¬ C03.pokerKey powerStandard c.cards < C03.pokerKey powerStandard s := by
  intro g hb p hp
  have hne : g.board ≠ [] := by intro h0; rw [h0] at hb; simp at hb
  obtain ⟨c, hcomb, hsel, hall⟩ := reported_poker_best_of hc ops (fun _ => True)
    (fun h₁ h₂ v₁ v₂ _ _ => C03.score_lt_iff_standard h₁ h₂ v₁ v₂) (Or.inl hne) p hp
  refine ⟨c, hcomb, hsel, fun s hs h5 => ?_⟩
  obtain ⟨v1, v2, hcat, hkey⟩ := hall s hs h5
  exact ⟨v1, v2, hcat, hkey trivial trivial⟩

/-- **`reported_hand_is_poker_best_shortDeck`**: the same for the short-deck table (flush above
    full house), with C03's exclusion: the comparison is claimed for hands other than A-9-8-7-6,
    whose class the property leaves open. -/
theorem reported_hand_is_poker_best_shortDeck {cfg : Config} (hc : PokerConfig powerShortDeck cfg) (ops : List Op) :
    let g := (start cfg).1.run ops
    3 ≤ g.board.length →
    ∀ p ∈ g.players, ∃ c, p.comb = some c ∧
      (∃ sel, Admissible g.board p.hole cfg.opts.required sel ∧ c.cards.Perm sel) ∧
      ∀ s, Admissible g.board p.hole cfg.opts.required s → s.length = 5 →
        C03.Valid c.cards ∧ C03.Valid s ∧
        c.cat = some (C03.specCat (C03.ranks c.cards) (C03.sameSuit c.cards)) ∧
        (C03.isA6789 c.cards = false → C03.isA6789 s = false →
          ¬ C03.pokerKey powerShortDeck c.cards < C03.pokerKey powerShortDeck s) := by
  intro g hb p hp
  have hne : g.board ≠ [] := by intro h0; rw [h0] at hb; simp at hb
  exact reported_poker_best_of hc ops (fun h => C03.isA6789 h = false)
    (fun h₁ h₂ v₁ v₂ x₁ x₂ => C03.score_lt_iff_shortDeck h₁ h₂ v₁ v₂ x₁ x₂) (Or.inl hne) p hp

/-- Under the rules the engine ships (hold'em: any five, two hole cards; Omaha-like: exactly two
    of four) the five-card clause above is no restriction: from the flop on EVERY admissible
    selection has five cards. -/
theorem five_cards_from_flop {T : List Cat} {cfg : Config} (hc : PokerConfig T cfg) (h5 : FiveCardRule cfg.opts)
    (ops : List Op) :
    let g := (start cfg).1.run ops
    3 ≤ g.board.length → ∀ p ∈ g.players, ∀ s, Admissible g.board p.hole cfg.opts.required s → s.length = 5 :=
  fun hb _ hp _ hs => Pokerface.five_cards_from_flop hc h5 ops hp hb hs

/-! ## LINK 3 (C02 ∘ C10 ∘ C03 ∘ C05 ∘ C14): every layer goes to the best POKER hand

At a showdown between live hands the board is full (C05), so — under a five-card rule — the
strengths the settlement compares are scores of valid five-card hands, each the best its owner can
form (LINK 1); C03 turns the comparison of scores into the comparison of poker keys, and C02's
`level_winners` becomes: the winners of a layer are exactly the non-folded players who paid into
it and whose best hand is not beaten, under the rules of poker, by the best hand of any other such
player. -/

/-- The comparison the settlement makes between two seats at a showdown IS the poker order of
    their published hands (standard table): `q`'s strength is at most `p`'s iff `p`'s hand does not
    lose to `q`'s. -/
theorem showdown_strength_order {cfg : Config} (hc : PokerConfig powerStandard cfg) (h5 : FiveCardRule cfg.opts)
    (ops : List Op) :
    let g := (start cfg).1.run ops
    g.event = .gameClosed → 2 ≤ g.aliveCount →
    ∀ p ∈ g.players, ∀ q ∈ g.players, ∀ c d, p.comb = some c → q.comb = some d →
      ((seatOf q).score ≤ (seatOf p).score ↔
        ¬ C03.pokerKey powerStandard c.cards < C03.pokerKey powerStandard d.cards) := by
  intro g he h2 p hp q hq c d hpc hqd
  obtain ⟨_, hall⟩ := showdown_hand hc h5 ops he h2
  obtain ⟨c', hc', hvc, _, hpc'⟩ := hall p hp
  obtain ⟨d', hd', hvd, _, hpd'⟩ := hall q hq
  rw [hpc] at hc'; cases hc'
  rw [hqd] at hd'; cases hd'
  rw [seatOf_score hpc, seatOf_score hqd, ← C03.score_lt_iff_standard _ _ hvc hvd, ← hpc', ← hpd']
  omega

/-- The same for the short-deck table, for hands other than A-9-8-7-6 (C03's exclusion). -/
theorem showdown_strength_order_shortDeck {cfg : Config} (hc : PokerConfig powerShortDeck cfg)
    (h5 : FiveCardRule cfg.opts) (ops : List Op) :
    let g := (start cfg).1.run ops
    g.event = .gameClosed → 2 ≤ g.aliveCount →
    ∀ p ∈ g.players, ∀ q ∈ g.players, ∀ c d, p.comb = some c → q.comb = some d →
      C03.isA6789 c.cards = false → C03.isA6789 d.cards = false →
      ((seatOf q).score ≤ (seatOf p).score ↔
        ¬ C03.pokerKey powerShortDeck c.cards < C03.pokerKey powerShortDeck d.cards) := by
  intro g he h2 p hp q hq c d hpc hqd hxc hxd
  obtain ⟨_, hall⟩ := showdown_hand hc h5 ops he h2
  obtain ⟨c', hc', hvc, _, hpc'⟩ := hall p hp
  obtain ⟨d', hd', hvd, _, hpd'⟩ := hall q hq
  rw [hpc] at hc'; cases hc'
  rw [hqd] at hd'; cases hd'
  rw [seatOf_score hpc, seatOf_score hqd, ← C03.score_lt_iff_shortDeck _ _ hvc hvd hxc hxd, ← hpc', ← hpd']
  omega

/-- Engine form of C02 `level_winners`, given that the strength comparison is the poker order
    `key` of the published cards (used for both tables below). -/
theorem showdown_winners_of {T : List Cat} (hT : ShippedTable T) {cfg : Config} (hc : PokerConfig T cfg)
    (h5 : FiveCardRule cfg.opts) (ops : List Op)
    (he : ((start cfg).1.run ops).event = .gameClosed) (h2 : 2 ≤ ((start cfg).1.run ops).aliveCount)
    (hord : ∀ p ∈ ((start cfg).1.run ops).players, ∀ q ∈ ((start cfg).1.run ops).players, ∀ c d,
      p.comb = some c → q.comb = some d →
      ((seatOf q).score ≤ (seatOf p).score ↔ ¬ C03.pokerKey T c.cards < C03.pokerKey T d.cards))
    (r : Result) (hr : ((start cfg).1.run ops).result = some r) (pr : PotResult) (hpr : pr ∈ r.pots)
    (li : LevelInfo) (hli : li ∈ pr.levels)
    (hex : ∃ t ∈ ((start cfg).1.run ops).players, t.fold = false ∧ li.level ≤ t.pot + t.wager) (i : Nat) :
    i ∈ levelWinners li ↔
      ∃ p ∈ ((start cfg).1.run ops).players, ∃ c, p.comb = some c ∧ p.idx = i ∧ p.fold = false ∧
        li.level ≤ p.pot + p.wager ∧
        ∀ q ∈ ((start cfg).1.run ops).players, ∀ d, q.comb = some d → q.fold = false →
          li.level ≤ q.pot + q.wager → ¬ C03.pokerKey T c.cards < C03.pokerKey T d.cards := by
  have h1 : 1 ≤ cfg.opts.holeCount := by rcases h5 with ⟨_, h⟩ | ⟨h, h'⟩ <;> omega
  have hres := C01.closed_result_is_settle (hc.reach ops) he
  rw [hr, Option.some.injEq] at hres
  subst hres
  obtain ⟨_, hall⟩ := showdown_hand hc h5 ops he h2
  have hex' : ∃ t ∈ ((start cfg).1.run ops).seats, t.folded = false ∧ li.level ≤ t.contrib := by
    obtain ⟨t, ht, hf, hl⟩ := hex
    exact ⟨seatOf t, mem_seats ht, hf, hl⟩
  rw [C02.level_winners _ (showdown_valid hT hc h1 ops he) pr hpr li hli hex' i]
  constructor
  · rintro ⟨s, hs, hi, hf, hl, hmax⟩
    obtain ⟨p, hp, rfl⟩ := List.mem_map.mp hs
    obtain ⟨c, hcomb, _⟩ := hall p hp
    refine ⟨p, hp, c, hcomb, hi, hf, hl, ?_⟩
    intro q hq d hqd hqf hql
    exact (hord p hp q hq c d hcomb hqd).mp (hmax (seatOf q) (mem_seats hq) hqf hql)
  · rintro ⟨p, hp, c, hcomb, hi, hf, hl, hmax⟩
    refine ⟨seatOf p, mem_seats hp, hi, hf, hl, ?_⟩
    intro t ht htf htl
    obtain ⟨q, hq, rfl⟩ := List.mem_map.mp ht
    obtain ⟨d, hqd, _⟩ := hall q hq
    exact (hord p hp q hq c d hcomb hqd).mpr (hmax q hq d hqd htf htl)

/-- **`showdown_winners_by_poker`** (standard table).  "Every layer of the pot goes to the best-ranked
    hand or hands among the non-folded players who paid into that layer", with "best-ranked" read
    by the rules of poker: at a showdown with at least two live players, for every level `li` kept
    in the result of the engine that has a non-folded contributor, seat `i` is credited as a winner of
    the level iff `i` is a non-folded player who put in at least the level and whose published
    five-card hand (its best hand, LINK 1) loses to the published hand of no non-folded player who
    put in at least the level. -/
theorem showdown_winners_by_poker {cfg : Config} (hc : PokerConfig powerStandard cfg) (h5 : FiveCardRule cfg.opts)
    (ops : List Op)
    (he : ((start cfg).1.run ops).event = .gameClosed) (h2 : 2 ≤ ((start cfg).1.run ops).aliveCount)
    (r : Result) (hr : ((start cfg).1.run ops).result = some r) (pr : PotResult) (hpr : pr ∈ r.pots)
    (li : LevelInfo) (hli : li ∈ pr.levels)
    (hex : ∃ t ∈ ((start cfg).1.run ops).players, t.fold = false ∧ li.level ≤ t.pot + t.wager) (i : Nat) :
    i ∈ levelWinners li ↔
      ∃ p ∈ ((start cfg).1.run ops).players, ∃ c, p.comb = some c ∧ p.idx = i ∧ p.fold = false ∧
        li.level ≤ p.pot + p.wager ∧
        ∀ q ∈ ((start cfg).1.run ops).players, ∀ d, q.comb = some d → q.fold = false →
          li.level ≤ q.pot + q.wager →
          ¬ C03.pokerKey powerStandard c.cards < C03.pokerKey powerStandard d.cards :=
  showdown_winners_of (Or.inl rfl) hc h5 ops he h2 (showdown_strength_order hc h5 ops he h2) r hr pr hpr li hli hex i

/-- **`showdown_winners_by_poker_shortDeck`**: the same for the short-deck table, when no published
    hand is A-9-8-7-6 (C03's exclusion, as a hypothesis on the hands at this showdown). -/
theorem showdown_winners_by_poker_shortDeck {cfg : Config} (hc : PokerConfig powerShortDeck cfg)
    (h5 : FiveCardRule cfg.opts) (ops : List Op)
    (he : ((start cfg).1.run ops).event = .gameClosed) (h2 : 2 ≤ ((start cfg).1.run ops).aliveCount)
    (hx : ∀ p ∈ ((start cfg).1.run ops).players, ∀ c, p.comb = some c → C03.isA6789 c.cards = false)
    (r : Result) (hr : ((start cfg).1.run ops).result = some r) (pr : PotResult) (hpr : pr ∈ r.pots)
    (li : LevelInfo) (hli : li ∈ pr.levels)
    (hex : ∃ t ∈ ((start cfg).1.run ops).players, t.fold = false ∧ li.level ≤ t.pot + t.wager) (i : Nat) :
    i ∈ levelWinners li ↔
      ∃ p ∈ ((start cfg).1.run ops).players, ∃ c, p.comb = some c ∧ p.idx = i ∧ p.fold = false ∧
        li.level ≤ p.pot + p.wager ∧
        ∀ q ∈ ((start cfg).1.run ops).players, ∀ d, q.comb = some d → q.fold = false →
          li.level ≤ q.pot + q.wager →
          ¬ C03.pokerKey powerShortDeck c.cards < C03.pokerKey powerShortDeck d.cards :=
  showdown_winners_of (Or.inr rfl) hc h5 ops he h2
    (fun p hp q hq c d hpc hqd =>
      showdown_strength_order_shortDeck hc h5 ops he h2 p hp q hq c d hpc hqd (hx p hp c hpc) (hx q hq d hqd))
    r hr pr hpr li hli hex i

/-! ## Non-vacuity: a three-seat hand on the 52-card deck, one fold, a tie with an odd chip -/
namespace Examples

def cs (l : List String) : List Card := l.map Card.ofString

/-- the 14 cards that get dealt: seat 0 holds A♥ 2♦, seat 1 5♥ 6♦, seat 2 A♦ 3♣;
    burn, flop A♣ K♠ 9♥, burn, turn 7♦, burn, river 4♣ -/
def top : List Card :=
  cs ["HA", "D2", "H5", "D6", "DA", "C3", "S2", "CA", "SK", "H9", "S3", "D7", "S4", "C4"]

/-- a shuffle of `NewStandardDeckCards()`: those 14 cards on top, the other 38 in deck order -/
def exDeck : List Card := top ++ standardCards.filter (fun c => !top.contains c)

def exMeta : Meta :=
  { ante := 0, blindDealer := 0, blindSB := 5, blindBB := 10, potLimit := false, holeCount := 2, required := 0,
    lvl := combinationLevel, table := powerStandard, deck := exDeck }

/-- dealer, small blind, big blind with 100 chips each -/
def exCfg : Config :=
  { opts := exMeta, seats := [⟨100, true, false, false⟩, ⟨100, false, true, false⟩, ⟨100, false, false, true⟩] }

theorem exDeck_perm : exDeck.Perm standardCards := by decide +kernel

/-- the hypotheses of all theorems of this file hold for that configuration -/
theorem exPC : PokerConfig powerStandard exCfg :=
  pokerConfig_of_shuffle standardCards_ok.1 exDeck_perm (by decide +kernel)
    ⟨⟨by decide, by decide, by decide, by decide⟩⟩ (by decide +kernel) rfl rfl (by decide) (by decide)

theorem exRule : FiveCardRule exCfg.opts := Or.inl ⟨rfl, by decide⟩

/-- a street on which the folded small blind passes and the two others check -/
def street : List Op := [.ready, .act none .pass 0, .act none .check 0, .act none .check 0]
/-- the dealer calls, the small blind folds, the big blind checks; three streets are checked down -/
def exOps : List Op :=
  [.ready, .payBlinds, .ready, .act none .call 0, .act none .fold 0, .act none .check 0, .next] ++
    street ++ [.next] ++ street ++ [.next] ++ street ++ [.next]

def gEnd : Game := (start exCfg).1.run exOps

/-- The hand is played to a showdown: closed on the river with a full board, seat 1 folded, seats 0
    and 2 tie with aces, K-9-7 (their deuce and trey do not play); the pot of 25 is split 13/12:
    changes +3, −5, +2. -/
theorem gEnd_facts :
    gEnd.event = .gameClosed ∧ gEnd.round = .river ∧ gEnd.board = cs ["CA", "SK", "H9", "D7", "C4"] ∧ gEnd.aliveCount = 2 ∧
    gEnd.players.map (fun p => (p.fold, p.comb.map fun c => (c.cat, c.cards))) =
      [(false, some (some .pair, cs ["HA", "CA", "SK", "H9", "D7"])),
       (true, some (some .highCard, cs ["CA", "SK", "H9", "D7", "D6"])),
       (false, some (some .pair, cs ["DA", "CA", "SK", "H9", "D7"]))] ∧
    gEnd.pots.map (fun p => (p.level, p.total)) = [(10, 25)] ∧
    gEnd.result.map (fun r => r.players.map fun p => (p.idx, p.finalStack, p.changed)) =
      some [(0, 103, 3), (1, 95, -5), (2, 102, 2)] := by
  decide +kernel

/-- `showdown_valid` applies to it … -/
example : C02.Valid gEnd.seats := showdown_valid (Or.inl rfl) exPC (by decide) exOps gEnd_facts.1

/-- … the strengths are those of the two tied pairs of aces and (folded) a lower hand, all positive … -/
example : gEnd.seats.map (fun s => (s.idx, s.contrib, s.folded)) = [(0, 10, false), (1, 5, true), (2, 10, false)] ∧
    (gEnd.seats.map (·.score))[0]? = (gEnd.seats.map (·.score))[2]? ∧ ∀ s ∈ gEnd.seats, 0 < s.score := by
  decide +kernel

/-- … `showdown_zero_sum` and `showdown_folded_wins_nothing` speak about the changes 3, −5, 2 … -/
example : gEnd.players.map (fun p => C02.changed gEnd.seats p.idx) = [3, -5, 2] := by decide +kernel

theorem gEnd_seats : gEnd.players.length = 3 := by decide +kernel

/-- … the hypotheses of `showdown_tie_fair` hold for the published pot and seats 0 and 2 (not folded,
    paid into the pot, equal strength, the best among those who paid in), whose shares are 13
    and 12 … -/
example : ∃ pot, gEnd.pots = [] ++ pot :: [] ∧ ∃ p ∈ gEnd.players, ∃ q ∈ gEnd.players,
    p.idx = 0 ∧ q.idx = 2 ∧ p.fold = false ∧ q.fold = false ∧
    pot.level ≤ p.pot + p.wager ∧ pot.level ≤ q.pot + q.wager ∧ (seatOf p).score = (seatOf q).score ∧
    (∀ t ∈ gEnd.players, t.fold = false → pot.level ≤ t.pot + t.wager → (seatOf t).score ≤ (seatOf p).score) ∧
    (C02.settle gEnd.seats).pots.map (fun pr => (C02.potShare pr 0, C02.potShare pr 2)) = [(13, 12)] :=
  ⟨gEnd.pots[0]!, by decide +kernel, gEnd.players[0]'(by rw [gEnd_seats]; decide), List.getElem_mem _,
    gEnd.players[2]'(by rw [gEnd_seats]; decide), List.getElem_mem _, by decide +kernel⟩

/-- LINK 1 on that hand: `reported_hand_is_poker_best` applies on the river (its hypothesis holds) … -/
example : ∀ p ∈ gEnd.players, ∃ c, p.comb = some c ∧
    (∃ sel, Admissible gEnd.board p.hole 0 sel ∧ c.cards.Perm sel) ∧
    ∀ s, Admissible gEnd.board p.hole 0 s → s.length = 5 →
      C03.Valid c.cards ∧ C03.Valid s ∧ c.cat = some (C03.specCat (C03.ranks c.cards) (C03.sameSuit c.cards)) ∧
      ¬ C03.pokerKey powerStandard c.cards < C03.pokerKey powerStandard s :=
  reported_hand_is_poker_best exPC exOps (by show 3 ≤ gEnd.board.length; rw [gEnd_facts.2.2.1]; decide)

/-- … and it says something: seat 0 has admissible five-card selections that are strictly weaker
    than the published hand, e.g. A♥ 2♦ K♠ 9♥ 4♣ (ace high), and 21 selections in all. -/
example : Admissible (cs ["CA", "SK", "H9", "D7", "C4"]) (cs ["HA", "D2"]) 0 (cs ["HA", "D2", "SK", "H9", "C4"]) ∧
    C03.pokerKey powerStandard (cs ["HA", "D2", "SK", "H9", "C4"]) < C03.pokerKey powerStandard (cs ["HA", "CA", "SK", "H9", "D7"]) ∧
    (allPossibleCombinations (cs ["CA", "SK", "H9", "D7", "C4"]) (cs ["HA", "D2"]) 0).length = 21 :=
  ⟨by rw [Admissible, if_pos rfl]; decide +kernel, Or.inl (by decide +kernel), by decide +kernel⟩

/-- LINK 3 on that hand: the hypotheses of `showdown_winners_by_poker` hold (closed, two live
    players, a level with a non-folded contributor), and the winners of the single level are seats
    0 and 2. -/
example : gEnd.event = .gameClosed ∧ 2 ≤ gEnd.aliveCount ∧
    (gEnd.result.map fun r => r.pots.map fun pr => pr.levels.map fun li => (li.level, levelWinners li)) =
      some [[(5, [0, 2]), (10, [0, 2])]] := by
  decide +kernel

/-- the two tied hands have the same poker key, and the folded hand (ace high) a smaller one -/
example : C03.pokerKey powerStandard (cs ["HA", "CA", "SK", "H9", "D7"]) = C03.pokerKey powerStandard (cs ["DA", "CA", "SK", "H9", "D7"]) ∧
    C03.pokerKey powerStandard (cs ["CA", "SK", "H9", "D7", "D6"]) < C03.pokerKey powerStandard (cs ["HA", "CA", "SK", "H9", "D7"]) :=
  ⟨by decide +kernel, Or.inl (by decide +kernel)⟩

/-! ### short deck -/

/-- heads-up on the (unshuffled) 36-card deck with the short-deck table -/
def sdCfg : Config :=
  { opts := { ante := 0, blindDealer := 0, blindSB := 5, blindBB := 10, potLimit := false, holeCount := 2, required := 0,
              lvl := combinationLevel, table := powerShortDeck, deck := shortCards },
    seats := [⟨1000, true, true, false⟩, ⟨1000, false, false, true⟩] }

/-- the hypotheses of the short-deck theorems are satisfiable -/
theorem sdPC : PokerConfig powerShortDeck sdCfg :=
  pokerConfig_of_shuffle shortCards_ok.1 (List.Perm.refl _) (by decide +kernel)
    ⟨⟨by decide, by decide, by decide, by decide⟩⟩ (by decide +kernel) rfl rfl (by decide) (by decide)

def sdToFlop : List Op := [.ready, .payBlinds, .ready, .act none .call 0, .act none .check 0, .next]

/-- on the flop J♠ Q♠ K♠ both seats hold a spade flush, neither hand is A-9-8-7-6 -/
theorem sdFlop_facts :
    ((start sdCfg).1.run sdToFlop).board = cs ["SJ", "SQ", "SK"] ∧
    ((start sdCfg).1.run sdToFlop).players.map (fun p => p.comb.map fun c => (c.cat, c.cards, C03.isA6789 c.cards)) =
      [some (some .flush, cs ["SK", "SQ", "SJ", "S7", "S6"], false),
       some (some .flush, cs ["SK", "SQ", "SJ", "S9", "S8"], false)] := by
  decide +kernel

example : ∀ p ∈ ((start sdCfg).1.run sdToFlop).players, ∃ c, p.comb = some c ∧
    (∃ sel, Admissible ((start sdCfg).1.run sdToFlop).board p.hole 0 sel ∧ c.cards.Perm sel) ∧
    ∀ s, Admissible ((start sdCfg).1.run sdToFlop).board p.hole 0 s → s.length = 5 →
      C03.Valid c.cards ∧ C03.Valid s ∧ c.cat = some (C03.specCat (C03.ranks c.cards) (C03.sameSuit c.cards)) ∧
      (C03.isA6789 c.cards = false → C03.isA6789 s = false →
        ¬ C03.pokerKey powerShortDeck c.cards < C03.pokerKey powerShortDeck s) :=
  reported_hand_is_poker_best_shortDeck sdPC sdToFlop (by rw [sdFlop_facts.1]; decide)

/-- Observation (reported, not an obligation): before the flop the published "hand" is the hole
    cards alone, and since `isFlush` does not ask for five cards, two suited hole cards are
    published as category Flush — here 6♠ 7♠ and 8♠ 9♠ on the short deck.  Payouts are not
    affected: a showdown between live hands has a full board (C05 `full_board_at_showdown`), and
    when everybody else has folded the strength only has to be positive. -/
example : ((start sdCfg).1.run (sdToFlop.take 3)).round = .preflop ∧
    ((start sdCfg).1.run (sdToFlop.take 3)).players.map (fun p => p.comb.map fun c => (c.cat, c.cards)) =
      [some (some .flush, cs ["S7", "S6"]), some (some .flush, cs ["S9", "S8"])] := by
  decide +kernel

end Examples

/-! ## LINK 2, one more corollary: an uncalled excess goes back to its owner -/

/-- "An uncalled excess goes back to its owner", for the engine (C02 `excess_returned` applied to
    `g.seats`, like the other `showdown_*` corollaries): in a closed hand of a `PokerConfig` with a
    shipped table and at least one hole card, if every OTHER seat put in at most `m` chips
    (`pot + wager ≤ m`, `m ≥ 0`) and player `p` put in more than `m`, then `p` loses at most `m`:
    the part of `p`'s stake above `m`, which nobody called, comes back.  With `m` the largest
    amount put in by another seat this is the statement of DESIGN §6. -/
theorem showdown_excess_returned {T : List Cat} (hT : ShippedTable T) {cfg : Config} (hc : PokerConfig T cfg)
    (h1 : 1 ≤ cfg.opts.holeCount) (ops : List Op)
    (he : ((start cfg).1.run ops).event = .gameClosed)
    (p : Player) (hp : p ∈ ((start cfg).1.run ops).players) (m : Int) (hm : 0 ≤ m)
    (hothers : ∀ q ∈ ((start cfg).1.run ops).players, q.idx ≠ p.idx → q.pot + q.wager ≤ m)
    (hlt : m < p.pot + p.wager) :
    -m ≤ C02.changed ((start cfg).1.run ops).seats p.idx :=
  C02.excess_returned _ (showdown_valid hT hc h1 ops he) (seatOf p) (mem_seats hp) m hm
    (fun t ht hne => by obtain ⟨q, hq, rfl⟩ := List.mem_map.mp ht; exact hothers q hq hne) hlt

namespace Examples

/-- the dealer raises to 40, both blinds fold: 30 of the 40 chips are uncalled -/
def opsUncalled : List Op :=
  [.ready, .payBlinds, .ready, .act none .raise 40, .act none .fold 0, .act none .fold 0, .next]

/-- The hypotheses of `showdown_excess_returned` are satisfiable (closed hand, the others put in at
    most `m = 10 < 40`), and its conclusion `−10 ≤ changed` is met with `changed = +15`. -/
theorem uncalled_facts :
    ((start exCfg).1.run opsUncalled).event = .gameClosed ∧
    ((start exCfg).1.run opsUncalled).players.map (fun p => (p.idx, p.pot + p.wager, p.fold)) =
      [(0, 40, false), (1, 5, true), (2, 10, true)] ∧
    ((start exCfg).1.run opsUncalled).players.map
      (fun p => C02.changed ((start exCfg).1.run opsUncalled).seats p.idx) = [15, -5, -10] := by
  decide +kernel

example : ∀ p ∈ ((start exCfg).1.run opsUncalled).players, p.idx = 0 →
    -10 ≤ C02.changed ((start exCfg).1.run opsUncalled).seats p.idx := by
  intro p hp h0
  have hpl : ((start exCfg).1.run opsUncalled).players.map (fun p => (p.idx, p.pot + p.wager)) =
      [(0, 40), (1, 5), (2, 10)] := by
    have := congrArg (List.map fun x : Nat × Int × Bool => (x.1, x.2.1)) uncalled_facts.2.1
    simpa [List.map_map, Function.comp_def] using this
  have hall : ∀ q ∈ ((start exCfg).1.run opsUncalled).players,
      (q.idx, q.pot + q.wager) ∈ [((0 : Nat), (40 : Int)), (1, 5), (2, 10)] := by
    intro q hq
    rw [← hpl]
    exact List.mem_map.mpr ⟨q, hq, rfl⟩
  apply showdown_excess_returned (Or.inl rfl) exPC (by decide) opsUncalled uncalled_facts.1 p hp 10 (by decide)
  · intro q hq hne
    have := hall q hq
    simp only [List.mem_cons, Prod.mk.injEq, List.not_mem_nil, or_false] at this
    rcases this with ⟨h, _⟩ | ⟨_, h⟩ | ⟨_, h⟩
    · exact absurd (h.trans h0.symm) hne
    · omega
    · omega
  · have := hall p hp
    simp only [List.mem_cons, Prod.mk.injEq, List.not_mem_nil, or_false] at this
    rcases this with ⟨_, h⟩ | ⟨h, _⟩ | ⟨h, _⟩
    · omega
    · omega
    · omega

end Examples

end Pokerface.Links

section Axioms
open Pokerface.Links
#print axioms standardCards_ok
#print axioms shortCards_ok
#print axioms score_pos
#print axioms published_strength_pos
#print axioms showdown_valid
#print axioms showdown_result
#print axioms showdown_folded_wins_nothing
#print axioms showdown_folded_loses_stake
#print axioms showdown_zero_sum
#print axioms showdown_loses_at_most_stake
#print axioms showdown_no_gain_from_unpaid_layer
#print axioms showdown_tie_fair
#print axioms showdown_excess_returned
#print axioms reported_hand_is_poker_best
#print axioms reported_hand_is_poker_best_shortDeck
#print axioms five_cards_from_flop
#print axioms showdown_strength_order
#print axioms showdown_winners_by_poker
#print axioms showdown_winners_by_poker_shortDeck
end Axioms
