import Pokerface.Proofs.FlowGhost
import Pokerface.Proofs.GapsAClose
/-
  C05 — A betting round closes exactly when it should.

  "A betting round is never closed while a non-folded player with chips has put in less than
  the wager to match or has not yet had a turn since that wager last went up, and it always
  closes within one lap of the table after the last wager increase or all-in.  When only one
  non-folded player remains the hand ends at once without dealing further cards; when fewer
  than two players still have chips no further betting round is opened and the remaining
  streets are dealt so that the showdown happens on a full five-card board."

  Statements about the model `Game.step`, for every reachable state (`Reachable`,
  Proofs/EngineReach.lean).  Reading I5 (DESIGN §5): "no further betting round" concerns
  flop/turn/river.
-/
namespace Pokerface.C05
open Pokerface Game

/-! ## One player left -/

/-- Sentence 2, first half ("when only one non-folded player remains the hand ends at once without
    dealing further cards"): after an accepted player action that leaves one non-folded player the
    round is closed, and the `Next` that follows is accepted and closes the hand with the deck
    cursor, the board and the burnt cards unchanged. -/
theorem last_player_ends {g : Game} (h : Reachable g) (seat : Option Nat) (a : Act) (x : Int)
    (hacc : (g.step (.act seat a x)).2 = none) (h1 : (g.step (.act seat a x)).1.aliveCount = 1) :
    let g' := (g.step (.act seat a x)).1
    g'.event = .roundClosed ∧ (g'.step .next).2 = none ∧ (g'.step .next).1.event = .gameClosed ∧
    (g'.step .next).1.deckPos = g'.deckPos ∧ (g'.step .next).1.board = g'.board ∧
    (g'.step .next).1.burned = g'.burned := by
  have hi := inv_reachable h
  have hf := flow_reachable h
  have hf' := flow_step g hi hf (.act seat a x)
  have he : (g.step (.act seat a x)).1.event = .roundClosed := by
    cases seat with
    | none => exact act_alone_closed g hi _ a x hacc h1
    | some i => exact act_alone_closed g hi i a x hacc h1
  exact ⟨he, next_alone _ hf' he h1⟩

/-! ## Fewer than two stacks -/

/-- Sentence 2, second half ("when fewer than two players still have chips no further betting round
    is opened"), stated where a betting round is opened: the `ReadyForAll` that starts a flop, turn
    or river round finds — and leaves — at least two non-folded players with chips.  (During the
    round players may go all-in; preflop betting opens with any number of stacks, reading I5.) -/
theorem no_betting_without_two_stacks {g : Game} (h : Reachable g) (he : g.event = .readyRequested)
    (hr : g.round = .flop ∨ g.round = .turn ∨ g.round = .river) :
    2 ≤ g.movableCount ∧ 2 ≤ (g.step .ready).1.movableCount ∧ (g.step .ready).1.round = g.round := by
  have hf := flow_reachable h
  have hrn : g.round ≠ .none := by rcases hr with h | h | h <;> rw [h] <;> simp
  have hrp : g.round ≠ .preflop := by rcases hr with h | h | h <;> rw [h] <;> simp
  have h2 := hf.ready2 he hrn hrp
  obtain ⟨hm, _, hrd⟩ := ready_postflop g he hrn
  exact ⟨h2, by rw [hm]; exact h2, hrd⟩

/-- … and where the decision is taken: `Next` on a closed round with at least two players left,
    before the river, deals the next street and asks for readiness (= opens it for betting) exactly
    when two non-folded players still have chips; otherwise that street is closed at once ("the
    remaining streets are dealt"). -/
theorem streets_without_betting {g : Game} (_h : Reachable g) (he : g.event = .roundClosed) (h1 : g.aliveCount ≠ 1)
    (hr : g.round = .preflop ∨ g.round = .flop ∨ g.round = .turn) :
    (g.step .next).2 = none ∧ (g.step .next).1.round.idx = g.round.idx + 1 ∧
    (g.movableCount ≤ 1 → (g.step .next).1.event = .roundClosed) ∧
    (2 ≤ g.movableCount → (g.step .next).1.event = .readyRequested) ∧
    (g.step .next).1.movableCount = g.movableCount ∧ (g.step .next).1.aliveCount = g.aliveCount :=
  next_street g he h1 hr

/-! ## Showdown on a full board -/

/-- Sentence 2, end ("the showdown happens on a full five-card board"): a closed hand with at least
    two non-folded players has five board cards.  `hdeck`: the deck holds at least `n·hole + 8`
    cards (DESIGN §5; a static condition — `n` and the options never change, `static_run` — without
    which the Go code indexes past the deck). -/
theorem full_board_at_showdown {g : Game} (h : Reachable g)
    (hdeck : g.n * g.opts.holeCount + 8 ≤ g.opts.deck.length)
    (he : g.event = .gameClosed) (h2 : 2 ≤ g.aliveCount) : g.board.length = 5 := by
  have hf := flow_reachable h
  have hc := cardsOK_reachable h hdeck
  rcases hf.closed he with h1 | h1
  · omega
  · rw [hc.board, h1]; rfl

/-- the board length and the deck cursor at every street (same hypothesis) -/
theorem board_by_street {g : Game} (h : Reachable g) (hdeck : g.n * g.opts.holeCount + 8 ≤ g.opts.deck.length) :
    g.board.length = g.round.boardLen ∧ g.deckPos = g.round.cardsDealt (g.n * g.opts.holeCount) :=
  ⟨(cardsOK_reachable h hdeck).board, (cardsOK_reachable h hdeck).pos⟩

/-! ## Closing neither too early nor too late (ghost history)

The state is extended, in the specification only, with a record of the betting round in
progress kept by the specification's own rules (Proofs/FlowGhost.lean, section "the ghost
record and its rules"; they are the rules of the run-time monitor):
`Ghost.turnSince[i]` — seat `i` has had a turn since the wager to match last went up, or raised
it; `Ghost.quiet` — accepted turns since the last wager increase or all-in.  `Ghost.step` updates
the record along an operation (fresh record when a round opens; `Ghost.turn` on an accepted
action), `Game.runG` runs it alongside the engine, `GReachable g gh` says that `gh` is the record
that goes with the reachable state `g`.  The engine's `acted` flags are not used by these rules. -/

/-- Sentence 1, first half ("a betting round is never closed while a non-folded player with chips has
    put in less than the wager to match or has not yet had a turn since that wager last went up"):
    when an accepted operation in an open betting round closes it and at least two players are left,
    every non-folded seat with chips has exactly the wager to match on the table and has had a turn
    since the wager to match last rose. -/
theorem no_premature_close {g : Game} {gh : Ghost} (h : GReachable g gh) (he : g.event = .roundStarted) (op : Op)
    (hacc : (g.step op).2 = none) (hclosed : (g.step op).1.event ≠ .roundStarted)
    (h2 : 2 ≤ (g.step op).1.aliveCount) :
    ∀ (j : Nat) (p : Player), (g.step op).1.players[j]? = some p → p.fold = false → 0 < p.stack →
      p.wager = (g.step op).1.cw ∧ (gh.step g op).turnSince[j]? = some true := by
  obtain ⟨hr, hG⟩ := greachable_inv h
  have hi := inv_reachable hr
  have hf := flow_reachable hr
  rw [ghost_step_act gh he op hacc]
  obtain ⟨seat, a, x, rfl⟩ := accepted_at_started g he op hacc
  cases seat with
  | none => exact closes_level g gh hi hf he (hG he) _ a x hacc hclosed h2
  | some i => exact closes_level g gh hi hf he (hG he) i a x hacc hclosed h2

/-- Sentence 1, second half ("it always closes within one lap of the table after the last wager
    increase or all-in"): while a betting round is open fewer than `n` turns have passed since the
    last wager increase or all-in … -/
theorem one_lap {g : Game} {gh : Ghost} (h : GReachable g gh) (he : g.event = .roundStarted) : gh.quiet < g.n := by
  obtain ⟨hr, hG⟩ := greachable_inv h
  exact quiet_lt g gh (inv_reachable hr) (flow_reachable hr) he hG

/-- … so the turn that would be the `n`-th quiet one closes the round. -/
theorem one_lap_closes {g : Game} {gh : Ghost} (h : GReachable g gh) (op : Op)
    (hq : (gh.step g op).quiet = g.n) : (g.step op).1.event ≠ .roundStarted := by
  intro he'
  have h' := greachable_step h op
  have := one_lap h' he'
  obtain ⟨hr, _⟩ := greachable_inv h
  have hst := static_run g (inv_reachable hr) (flow_reachable hr) [op]
  have hn : (g.step op).1.n = g.n := hst.1
  omega

/-! ## Non-vacuity -/

/-- four seats, 100 chips each except seat 3 (short: 30), blinds 5/10, no ante, dealer at seat 0 -/
def exCfg : Config :=
  { opts := { ante := 0, blindDealer := 0, blindSB := 5, blindBB := 10, potLimit := false, holeCount := 2, required := 0,
              lvl := fun _ => 1, table := [], deck := (List.range 20).map fun k => { suit := 83, rank := k + 2 } },
    seats := [{ bankroll := 100, dealer := true, sb := false, bb := false },
              { bankroll := 100, dealer := false, sb := true, bb := false },
              { bankroll := 100, dealer := false, sb := false, bb := true },
              { bankroll := 30, dealer := false, sb := false, bb := false }] }

theorem exWF : WFConfig exCfg := ⟨⟨by decide, by decide, by decide, by decide⟩⟩

def exRun (ops : List Op) : Game × Ghost := (start exCfg).1.runG (Ghost.fresh 4) ops

theorem exReach (ops : List Op) : GReachable (exRun ops).1 (exRun ops).2 := ⟨exCfg, ops, exWF, by decide, rfl⟩

/-- preflop: seat 3 (first to act) goes all-in for 30 (a raise), seat 0 calls, seat 1 raises to 60,
    seat 2 folds, seat 3 passes (all-in), seat 0 calls: the round closes when the walk reaches
    seat 1, the last raiser — every seat with chips is level at 60 and has had its turn -/
def exOps : List Op :=
  [.ready, .payBlinds, .ready, .act none .allin 0, .act none .call 0, .act none .raise 60, .act none .fold 0,
   .act none .pass 0, .act none .call 0]

example : (exRun (exOps.take 3)).1.event = .roundStarted ∧ (exRun (exOps.take 3)).1.cur = 3 ∧
    (exRun (exOps.take 3)).2 = ⟨[false, false, false, false], 0⟩ := by decide
example : (exRun (exOps.take 5)).2 = ⟨[true, false, false, true], 1⟩ := by decide
example : (exRun (exOps.take 6)).2 = ⟨[false, true, false, false], 0⟩ := by decide
example : (exRun (exOps.take 8)).1.event = .roundStarted ∧ (exRun (exOps.take 8)).2 = ⟨[false, true, true, true], 2⟩ := by
  decide
/-- the hypotheses of `no_premature_close` hold for the last action of the example -/
example : (exRun (exOps.take 8)).1.event = .roundStarted ∧
    ((exRun (exOps.take 8)).1.step (.act none .call 0)).2 = none ∧
    ((exRun (exOps.take 8)).1.step (.act none .call 0)).1.event = .roundClosed ∧
    ((exRun (exOps.take 8)).1.step (.act none .call 0)).1.aliveCount = 3 ∧
    (exRun exOps).2 = ⟨[true, true, true, true], 3⟩ := by decide
/-- `last_player_ends`: three folds leave seat 2 alone -/
example : ((start exCfg).1.run [.ready, .payBlinds, .ready, .act none .fold 0, .act none .fold 0]).aliveCount = 2 ∧
    ((start exCfg).1.run [.ready, .payBlinds, .ready, .act none .fold 0, .act none .fold 0, .act none .fold 0]).aliveCount = 1 ∧
    ((start exCfg).1.run [.ready, .payBlinds, .ready, .act none .fold 0, .act none .fold 0, .act none .fold 0]).event
      = .roundClosed := by decide
/-- `streets_without_betting` / `full_board_at_showdown`: seats 3 and 0 all-in, the others fold:
    flop, turn and river are dealt without a betting round and the hand closes on five cards -/
def exAllin : List Op :=
  [.ready, .payBlinds, .ready, .act none .allin 0, .act none .allin 0, .act none .fold 0, .act none .fold 0]

example : ((start exCfg).1.run exAllin).event = .roundClosed ∧ ((start exCfg).1.run exAllin).movableCount = 0 ∧
    ((start exCfg).1.run exAllin).aliveCount = 2 ∧
    ((start exCfg).1.run (exAllin ++ [.next])).event = .roundClosed ∧
    ((start exCfg).1.run (exAllin ++ [.next])).round = .flop ∧
    ((start exCfg).1.run (exAllin ++ [.next, .next, .next, .next])).event = .gameClosed ∧
    ((start exCfg).1.run (exAllin ++ [.next, .next, .next, .next])).board.length = 5 ∧
    exCfg.seats.length * exCfg.opts.holeCount + 8 ≤ exCfg.opts.deck.length := by decide
/-- `no_betting_without_two_stacks`: with everybody calling the flop opens with four stacks -/
example : ((start exCfg).1.run [.ready, .payBlinds, .ready, .act none .call 0, .act none .call 0, .act none .call 0,
      .act none .check 0, .next]).event = .readyRequested ∧
    ((start exCfg).1.run [.ready, .payBlinds, .ready, .act none .call 0, .act none .call 0, .act none .call 0,
      .act none .check 0, .next]).round = .flop ∧
    ((start exCfg).1.run [.ready, .payBlinds, .ready, .act none .call 0, .act none .call 0, .act none .call 0,
      .act none .check 0, .next]).movableCount = 4 := by decide

/-! ## Rounds closed without any player action (gap found by review)

  `no_premature_close` speaks of a round that is closed by a player action (`g.event = .roundStarted`).  A round
  can also be closed with no action at all: by the `ReadyForAll` that would open the preflop round when nobody
  can move (`StartRound`), and by the `Next` that deals a later street when fewer than two players have chips
  (`PrepareRound`).  The theorems below cover these closings, so that sentence 1, first half, holds for EVERY
  transition into `RoundClosed`. -/

/-- Sentence 1, first half ("a betting round is never closed while a non-folded player with chips has put in
    less than the wager to match …"), for the rounds that are closed WITHOUT any action: when an accepted
    operation applied to a reachable state that waits for `ReadyForAll` or stands at a closed round ends in
    `RoundClosed` with at least two players left, every non-folded seat with chips has exactly the wager to
    match on the table.  (The clause "or has not yet had a turn since that wager last went up" is void here: see
    `skip_close_only` — either nobody has chips, or the wagers were just swept and the wager to match is 0, so it
    has not gone up in this round.) -/
theorem no_skip_close {g : Game} (h : Reachable g) (op : Op)
    (he : g.event = .readyRequested ∨ g.event = .roundClosed) (hacc : (g.step op).2 = none)
    (hc : (g.step op).1.event = .roundClosed) (h2 : 2 ≤ (g.step op).1.aliveCount) :
    ∀ p ∈ (g.step op).1.players, p.fold = false → 0 < p.stack → p.wager = (g.step op).1.cw :=
  skip_close_level g (inv_reachable h) (flow_reachable h) (by rcases he with he | he <;> rw [he] <;> simp) op hacc hc h2

/-- The complete list of closings without action, from ANY reachable state that is not an open betting round
    (also `AnteRequested`, `BlindsRequested`, `GameClosed`): an accepted operation that ends in `RoundClosed`
    with two players left is
    (a) the `ReadyForAll` of the preflop round, and then no non-folded seat has a chip (everybody is all-in by
        the forced bets) — game.go `StartRound`; on later streets `ReadyForAll` never closes a round; or
    (b) the `Next` after a closed preflop, flop or turn round that deals the following street while fewer than
        two non-folded players have chips — game.go `PrepareRound`; then all wagers have been swept into the
        pot accounts and the wager to match is 0.
    `PayAnte`, `PayBlinds` and refused operations never end in a newly closed round. -/
theorem skip_close_only {g : Game} (h : Reachable g) (hne : g.event ≠ .roundStarted) (op : Op)
    (hacc : (g.step op).2 = none) (hc : (g.step op).1.event = .roundClosed) (h2 : 2 ≤ (g.step op).1.aliveCount) :
    (op = .ready ∧ g.event = .readyRequested ∧ g.round = .preflop ∧ (g.step op).1.movableCount = 0) ∨
    (op = .next ∧ g.event = .roundClosed ∧ (g.round = .preflop ∨ g.round = .flop ∨ g.round = .turn) ∧
      (g.step op).1.movableCount ≤ 1 ∧ (∀ p ∈ (g.step op).1.players, p.wager = 0) ∧ (g.step op).1.cw = 0) :=
  skip_close_cases g (inv_reachable h) (flow_reachable h) hne op hacc hc h2

/-- Sentence 1, first half, for EVERY transition into `RoundClosed` (`no_premature_close` for closings by a
    player action, `no_skip_close` / `skip_close_only` for the others), without reference to the ghost record:
    whenever an accepted operation on a reachable state ends in `RoundClosed` with at least two players left,
    every non-folded seat with chips has exactly the wager to match on the table. -/
theorem every_close_level {g : Game} (h : Reachable g) (op : Op) (hacc : (g.step op).2 = none)
    (hc : (g.step op).1.event = .roundClosed) (h2 : 2 ≤ (g.step op).1.aliveCount) :
    ∀ p ∈ (g.step op).1.players, p.fold = false → 0 < p.stack → p.wager = (g.step op).1.cw := by
  by_cases he : g.event = .roundStarted
  · obtain ⟨gh, hG⟩ := greachable_of_reachable h
    intro p hp hf hs
    obtain ⟨j, hj⟩ := List.getElem?_of_mem hp
    exact (no_premature_close hG he op hacc (by rw [hc]; simp) h2 j p hj hf hs).1
  · exact skip_close_level g (inv_reachable h) (flow_reachable h) he op hacc hc h2

/-! ### Non-vacuity of the closings without action -/

/-- heads-up, blinds 5/10, the dealer (small blind) has 5 chips and the big blind 10: both are all-in by the blinds -/
def exShort : Config :=
  { opts := exCfg.opts,
    seats := [{ bankroll := 5, dealer := true, sb := true, bb := false },
              { bankroll := 10, dealer := false, sb := false, bb := true }] }

/-- case (a): `ReadyForAll` closes the preflop round at once; hypotheses of `no_skip_close` -/
example : let g := (start exShort).1.run [.ready, .payBlinds]
    Reachable g ∧ g.event = .readyRequested ∧ g.round = .preflop ∧ (g.step .ready).2 = none ∧
    (g.step .ready).1.event = .roundClosed ∧ (g.step .ready).1.aliveCount = 2 ∧ (g.step .ready).1.movableCount = 0 :=
  ⟨⟨exShort, _, ⟨⟨by decide, by decide, by decide, by decide⟩⟩, by decide, rfl⟩, by decide⟩

/-- case (b), one stack left: seat 3 is all-in for 30, seat 0 calls, the blinds fold, seat 3 passes; `Next` deals the flop and
    closes it at once; seat 0 (70 behind, not folded) is level: wager 0 = wager to match 0 -/
def exOneStack : List Op :=
  [.ready, .payBlinds, .ready, .act none .allin 0, .act none .call 0, .act none .fold 0, .act none .fold 0,
   .act none .pass 0]

example : let g := (start exCfg).1.run exOneStack
    Reachable g ∧ g.event = .roundClosed ∧ g.round = .preflop ∧ (g.step .next).2 = none ∧
    (g.step .next).1.event = .roundClosed ∧ (g.step .next).1.round = .flop ∧ (g.step .next).1.aliveCount = 2 ∧
    (g.step .next).1.movableCount = 1 ∧ (g.step .next).1.cw = 0 ∧
    ((g.step .next).1.players.map fun p => (p.fold, p.stack, p.wager)) =
      [(false, 70, 0), (true, 95, 0), (true, 90, 0), (false, 0, 0)] :=
  ⟨⟨exCfg, _, exWF, by decide, rfl⟩, by decide⟩

/-- case (b), no stack left: `exAllin` above (two all-ins, two folds) followed by `Next` -/
example : let g := (start exCfg).1.run exAllin
    Reachable g ∧ g.event = .roundClosed ∧ (g.step .next).2 = none ∧ (g.step .next).1.event = .roundClosed ∧
    (g.step .next).1.aliveCount = 2 ∧ (g.step .next).1.movableCount = 0 :=
  ⟨⟨exCfg, _, exWF, by decide, rfl⟩, by decide⟩

end Pokerface.C05
